/-
  Aqv.Lemmas.ChainImport — lifting a state predicate that is stable under the two primitive writes of the import loop
  (`WriteBlockWithState`, `WriteBlockWithoutState`) through `processWinners`, `importOne` and `importChain`.
  Instantiated with the C03 invariant here and with the C02 invariants in `ChainTd`.
-/
import Aqv.Lemmas.ChainOps
namespace Aqv.Chain

/-- what the import loop itself relies on: stored blocks are blocks of the universe, the block head is stored, every
    stored block has its total-difficulty record -/
structure Base (U : Map Blk) (s : St) : Prop where
  sub : StoreExt s.store U
  headStored : ∃ hb, s.store s.head = some hb
  storeTd : ∀ k x, s.store k = some x → (s.td k).isSome = true

theorem ginv_base {U : Map Blk} (W : World U) {s : St} (h : GInv U s) : Base U s := by
  obtain ⟨hh, HC, hG⟩ := h
  obtain ⟨cb, _, _, hcb⟩ := hG.headStored W
  exact ⟨hG.k.il.idx.sub, ⟨cb, hcb⟩, hG.k.storeTd⟩

theorem inv_base {U : Map Blk} {s : St} (h : Inv U s) : Base U s := by
  obtain ⟨hb, C, hI⟩ := h
  exact ⟨hI.sub, ⟨hb, hI.headStored⟩, hI.storeTd⟩

/-- `P` is maintained by the primitive writes; `NF` ("no failure") is a side condition under which `reorg` is
    guaranteed not to fail. -/
structure Stable (U : Map Blk) (P : St → Prop) (NF : Prop) : Prop where
  base : ∀ s, P s → Base U s
  wbws : ∀ (s : St) (b p : Blk) (coin : Bool), P s → U b.id = some b → parentOf s.store b = some p →
    s.hasState b.parent = true →
      ((writeBlockWithState s b coin).err ≠ some .reorgFail → P (writeBlockWithState s b coin).st) ∧
      (NF → (writeBlockWithState s b coin).err ≠ some .reorgFail)
  without : ∀ (s : St) (b p : Blk) (ptd : Nat), P s → U b.id = some b → parentOf s.store b = some p →
    s.td b.parent = some ptd →
      P { s with td := upd s.td b.id (some (ptd + b.diff)), store := upd s.store b.id (some b) }

theorem headerCheck_err_ne {store : Map Blk} {b : Blk} {e : Err} (h : headerCheck store b = some e) :
    e ≠ .reorgFail := by
  unfold headerCheck at h
  split at h
  · cases h; simp
  · split at h
    · split at h
      · cases h; simp
      · cases h
    · cases h

theorem headerCheck_err_ne_panic {store : Map Blk} {b : Blk} {e : Err} (h : headerCheck store b = some e) :
    e ≠ .modelPanic := by
  unfold headerCheck at h
  split at h
  · cases h; simp
  · split at h
    · split at h
      · cases h; simp
      · cases h
    · cases h

/-- `WriteBlockWithState` never reaches a nil dereference while the invariant holds -/
theorem wbws_no_panic {U : Map Blk} {s : St} (h : Base U s) (b : Blk) (coin : Bool) :
    (writeBlockWithState s b coin).err ≠ some .modelPanic := by
  obtain ⟨hb, hhs⟩ := h.headStored
  have hhtd := h.storeTd _ _ hhs
  unfold writeBlockWithState
  cases s.td b.parent with
  | none => simp
  | some ptd =>
    simp only
    rw [hhs]
    cases hlt : s.td s.head with
    | none => rw [hlt] at hhtd; cases hhtd
    | some localTd =>
      simp only
      split
      · split
        · split <;> simp
        · simp
      · simp

variable {U : Map Blk} {P : St → Prop} {NF : Prop}

/-- the recursive import of the stateless ancestors found by `statelessAncestors` -/
theorem stable_winners (W : World U) (S : Stable U P NF) {s : St} (h : P s) : ∀ (f : Nat) (p : Blk) (l : List Blk),
    U p.id = some p → statelessAncestors s f p = some l → ∀ coins,
      StoreExt s.store (processWinners s l coins).st.store ∧
      ((processWinners s l coins).err ≠ some .reorgFail →
        P (processWinners s l coins).st ∧
        ((processWinners s l coins).err = none → (processWinners s l coins).st.hasState p.id = true)) ∧
      (NF → (processWinners s l coins).err ≠ some .reorgFail) ∧
      (processWinners s l coins).err ≠ some .modelPanic := by
  intro f
  induction f with
  | zero => intro p l _ hl; simp [statelessAncestors] at hl
  | succ f ih =>
    intro p l hpU hl coins
    unfold statelessAncestors at hl
    split at hl
    · rename_i hst
      cases hl
      exact ⟨fun _ _ hx => hx, fun _ => ⟨h, fun _ => hst⟩, fun _ => by simp [processWinners], by simp [processWinners]⟩
    · split at hl
      · cases hl
      · rename_i q hq
        split at hl
        · cases hl
        · rename_i l' hl'
          cases hl
          have hI := S.base s h
          have hqs := (parentOf_some hq).1
          have hqU : U q.id = some q := by
            have := hI.sub _ _ hqs
            rw [W.ids _ _ this]; exact this
          have hqid : q.id = p.parent := W.ids _ _ (hI.sub _ _ hqs)
          obtain ⟨hext, hrest, hnf, hnp⟩ := ih q l' hqU hl' coins
          cases herr : (processWinners s l' coins).err with
          | some e =>
            rw [processWinners_cons_err herr]
            refine ⟨hext, fun hne => ?_, hnf, hnp⟩
            have := hrest hne
            exact ⟨this.1, fun hnone => by rw [herr] at hnone; cases hnone⟩
          | none =>
            obtain ⟨hinv', hst'⟩ := hrest (by rw [herr]; simp)
            cases hhc : headerCheck (processWinners s l' coins).st.store p with
            | some e =>
              rw [processWinners_cons_hc herr hhc]
              refine ⟨hext, fun _ => ⟨hinv', fun hnone => by cases hnone⟩, fun _ => ?_, ?_⟩
              · simpa using headerCheck_err_ne hhc
              · simpa using headerCheck_err_ne_panic hhc
            | none =>
              rw [processWinners_cons_ok herr hhc]
              obtain ⟨p', hp'⟩ := headerCheck_none hhc
              have hps : (processWinners s l' coins).st.hasState p.parent = true := by
                rw [← hqid]; exact hst' herr
              have hw := S.wbws _ p p' ((coins.drop l'.length).headD false) hinv' hpU hp' hps
              refine ⟨fun k x hx => wbws_storeExtK (S.base _ hinv').sub hpU _ _ _ (hext _ _ hx), fun hne => ?_, hw.2,
                wbws_no_panic (S.base _ hinv') _ _⟩
              exact ⟨hw.1 hne, fun hnone => wbws_hasState _ _ _ hnone⟩

theorem stable_importOne (W : World U) (S : Stable U P NF) {s : St} (h : P s) {b : Blk} (hbU : U b.id = some b)
    (coins : List Bool) :
    ((importOne s b coins).err ≠ some .reorgFail → P (importOne s b coins).st) ∧
    (NF → (importOne s b coins).err ≠ some .reorgFail) ∧
    (importOne s b coins).err ≠ some .modelPanic := by
  have hwb : ∀ (s' : St) (p' : Blk) (c : Bool), P s' → parentOf s'.store b = some p' → s'.hasState b.parent = true →
      ((writeBlockWithState s' b c).err ≠ some .reorgFail → P (writeBlockWithState s' b c).st) ∧
      (NF → (writeBlockWithState s' b c).err ≠ some .reorgFail) ∧
      (writeBlockWithState s' b c).err ≠ some .modelPanic := by
    intro s' p' c hP hp hs
    have := S.wbws s' b p' c hP hbU hp hs
    exact ⟨this.1, this.2, wbws_no_panic (S.base _ hP) _ _⟩
  unfold importOne
  cases hhc : headerCheck s.store b with
  | some e =>
    simp only
    exact ⟨fun _ => h, fun _ => by simpa using headerCheck_err_ne hhc, by simpa using headerCheck_err_ne_panic hhc⟩
  | none =>
    simp only
    obtain ⟨p, hpar⟩ := headerCheck_none hhc
    have hI := S.base s h
    obtain ⟨hb, hhs⟩ := hI.headStored
    have hpid : p.id = b.parent := W.ids _ _ (hI.sub _ _ (parentOf_some hpar).1)
    rw [hhs]
    have hhtd := hI.storeTd _ _ hhs
    cases hlt : s.td s.head with
    | none => rw [hlt] at hhtd; cases hhtd
    | some localTd =>
      simp only
      by_cases hk : known s b.id = true
      · simp only [hk, if_true]
        by_cases hskip : (decide (hb.number ≥ b.number) && !heavierThan s b localTd) = true
        · rw [if_pos hskip]; exact ⟨fun _ => h, fun _ => by simp, by simp⟩
        · rw [if_neg hskip]
          by_cases hps : s.hasState b.parent = true
          · simp only [hps, if_true]
            exact hwb s p _ h hpar hps
          · simp only [hps]; exact ⟨fun _ => h, fun _ => by simp, by simp⟩
      · have hk' : known s b.id = false := by
          cases hkk : known s b.id
          · rfl
          · exact absurd hkk hk
        simp only [hk', Bool.false_eq_true, if_false]
        by_cases hkp : known s b.parent = true
        · simp only [hkp, Bool.not_true]
          have hps : s.hasState b.parent = true := by
            unfold known at hkp
            simp only [Bool.and_eq_true] at hkp
            exact hkp.2
          exact hwb s p _ h hpar hps
        · have hkp' : known s b.parent = false := by
            cases hkk : known s b.parent
            · rfl
            · exact absurd hkk hkp
          simp only [hkp', Bool.not_false, if_true]
          have hptd' := hI.storeTd _ _ (parentOf_some hpar).1
          cases hptd : s.td b.parent with
          | none => rw [hptd] at hptd'; cases hptd'
          | some ptd =>
            simp only
            by_cases hlight : localTd > ptd + b.diff
            · simp only [hlight, if_true]
              exact ⟨fun _ => S.without s b p ptd h hbU hpar hptd, fun _ => by simp, by simp⟩
            · simp only [hlight, if_false, hpar]
              cases hsa : statelessAncestors s (p.number + 1) p with
              | none => exact ⟨fun _ => h, fun _ => by simp, by simp⟩
              | some winner =>
                simp only
                have hpU : U p.id = some p := by rw [hpid]; exact hI.sub _ _ (parentOf_some hpar).1
                obtain ⟨hext, hrest, hnf, hnp⟩ := stable_winners W S h _ _ _ hpU hsa coins
                cases herr : (processWinners s winner coins).err with
                | some e =>
                  simp only [herr]
                  exact ⟨fun hok => (hrest (by rw [herr]; exact hok)).1, fun nf => by have := hnf nf; rwa [herr] at this,
                    by rwa [herr] at hnp⟩
                | none =>
                  simp only [herr]
                  obtain ⟨hinv', hst'⟩ := hrest (by rw [herr]; simp)
                  exact hwb _ p _ hinv' (parentOf_mono hext hpar) (by rw [← hpid]; exact hst' herr)

theorem mem_contigPrefix : ∀ (l : List Blk) (x : Blk), x ∈ contigPrefix l → x ∈ l := by
  intro l
  induction l with
  | nil => intro x hx; simp [contigPrefix] at hx
  | cons a l ih =>
    intro x hx
    cases l with
    | nil => simpa [contigPrefix] using hx
    | cons c l =>
      unfold contigPrefix at hx
      split at hx
      · rcases List.mem_cons.mp hx with rfl | hx
        · simp
        · exact List.mem_cons_of_mem _ (ih x hx)
      · simp at hx; subst hx; simp

theorem stable_importSeq (W : World U) (S : Stable U P NF) : ∀ (l : List Blk) {s : St}, P s →
    (∀ b ∈ l, U b.id = some b) → ∀ (coins : List (List Bool)) (i : Nat),
      ((importSeq s l coins i).1.err ≠ some .reorgFail → P (importSeq s l coins i).1.st) ∧
      (NF → (importSeq s l coins i).1.err ≠ some .reorgFail) ∧
      (importSeq s l coins i).1.err ≠ some .modelPanic := by
  intro l
  induction l with
  | nil => intro s h _ coins i; exact ⟨fun _ => h, fun _ => by simp [importSeq], by simp [importSeq]⟩
  | cons b l ih =>
    intro s h hU coins i
    have h1 := stable_importOne W S h (hU b (by simp)) (coins.headD [])
    unfold importSeq
    cases herr : (importOne s b (coins.headD [])).err with
    | some e =>
      simp only [herr]
      exact ⟨fun hok => h1.1 (by rw [herr]; exact hok), fun nf => by have := h1.2.1 nf; rwa [herr] at this,
        by have := h1.2.2; rwa [herr] at this⟩
    | none =>
      simp only [herr]
      exact ih (h1.1 (by rw [herr]; simp)) (fun x hx => hU x (List.mem_cons_of_mem _ hx)) _ _

/-- `InsertChain` maintains a stable predicate and never reaches a nil dereference -/
theorem stable_importChain (W : World U) (S : Stable U P NF) {s : St} (h : P s) (chain : List Blk)
    (hU : ∀ b ∈ chain, U b.id = some b) (coins : List (List Bool)) :
    ((importChain s chain coins).1.err ≠ some .reorgFail → P (importChain s chain coins).1.st) ∧
    (NF → (importChain s chain coins).1.err ≠ some .reorgFail) ∧
    (importChain s chain coins).1.err ≠ some .modelPanic :=
  stable_importSeq W S _ h (fun b hb => hU b (mem_contigPrefix _ _ hb)) _ _

/-! ### the C03 invariant is stable -/

theorem inv_stable (W : World U) : Stable U (Inv U) False where
  base := fun _ h => inv_base h
  wbws := fun s b p coin h hbU hpar hps => ⟨fun hok => inv_wbws W h hbU hpar hps coin hok, fun f => f.elim⟩
  without := fun s b p ptd h hbU hpar hptd => by
    obtain ⟨hb, C, hI⟩ := h
    exact ⟨hb, C, invC_withoutState W hI hbU hpar hptd⟩

/-- the invariant with a block head that may lag is stable as well -/
theorem ginv_stable (W : World U) : Stable U (GInv U) False where
  base := fun _ h => ginv_base W h
  wbws := fun s b p coin h hbU hpar hps => ⟨fun hok => ginv_wbws W h hbU hpar hps coin hok, fun f => f.elim⟩
  without := fun s b p ptd h hbU hpar hptd => by
    obtain ⟨hh, HC, hG⟩ := h
    exact ⟨hh, HC, ginv_withoutState W hG hbU hpar hptd⟩

theorem ginv_importChain (W : World U) {s : St} (h : GInv U s) (chain : List Blk)
    (hU : ∀ b ∈ chain, U b.id = some b) (coins : List (List Bool))
    (hok : (importChain s chain coins).1.err ≠ some .reorgFail) : GInv U (importChain s chain coins).1.st :=
  (stable_importChain W (ginv_stable W) h chain hU coins).1 hok

/-- `InsertChain` preserves the invariant -/
theorem inv_importChain (W : World U) {s : St} (h : Inv U s) (chain : List Blk)
    (hU : ∀ b ∈ chain, U b.id = some b) (coins : List (List Bool))
    (hok : (importChain s chain coins).1.err ≠ some .reorgFail) : Inv U (importChain s chain coins).1.st :=
  (stable_importChain W (inv_stable W) h chain hU coins).1 hok

/-- `InsertChain` never dereferences nil (fix 7235ac1 closed the last such path) -/
theorem importChain_no_panic (W : World U) {s : St} (h : Inv U s) (chain : List Blk)
    (hU : ∀ b ∈ chain, U b.id = some b) (coins : List (List Bool)) :
    (importChain s chain coins).1.err ≠ some .modelPanic :=
  (stable_importChain W (inv_stable W) h chain hU coins).2.2

end Aqv.Chain

/-
  Aqv.Lemmas.LogFilterCompress — the sparse bitset codec of common/bitutil round-trips: `DecompressBytes(CompressBytes(v), len v) = v`
  for every byte vector (C16: the stored section bit vectors are read back unchanged).
-/
import Aqv.Lemmas.LogFilterBits
namespace Aqv.LogFilter

theorem bitsByte_testBit (b0 b1 b2 b3 b4 b5 b6 b7 : Bool) (j : Fin 8) :
    (bitsByte b0 b1 b2 b3 b4 b5 b6 b7).toNat.testBit (7 - j.val) = [b0, b1, b2, b3, b4, b5, b6, b7].getD j.val false := by
  revert b0 b1 b2 b3 b4 b5 b6 b7 j
  decide

theorem bitsByte_testBit' (b0 b1 b2 b3 b4 b5 b6 b7 : Bool) (j : Nat) (hj : j < 8) :
    (bitsByte b0 b1 b2 b3 b4 b5 b6 b7).toNat.testBit (7 - j) = [b0, b1, b2, b3, b4, b5, b6, b7].getD j false :=
  bitsByte_testBit b0 b1 b2 b3 b4 b5 b6 b7 ⟨j, hj⟩

theorem packBits_length (l : List Bool) : (packBits l).length = (l.length + 7) / 8 := by
  unfold packBits; simp

theorem vecBit_packBits (l : List Bool) (i : Nat) : vecBit (packBits l) i = l.getD i false := by
  rw [vecBit_eq]
  by_cases h : i / 8 < (l.length + 7) / 8
  · have hk : (packBits l).getD (i / 8) 0 =
        bitsByte (l.getD (8 * (i / 8)) false) (l.getD (8 * (i / 8) + 1) false) (l.getD (8 * (i / 8) + 2) false)
          (l.getD (8 * (i / 8) + 3) false) (l.getD (8 * (i / 8) + 4) false) (l.getD (8 * (i / 8) + 5) false)
          (l.getD (8 * (i / 8) + 6) false) (l.getD (8 * (i / 8) + 7) false) := by
      unfold packBits
      rw [List.getD_eq_getElem?_getD, List.getElem?_map, List.getElem?_range h]
      rfl
    rw [hk]
    rw [bitsByte_testBit' _ _ _ _ _ _ _ _ (i % 8) (Nat.mod_lt _ (by decide))]
    have hi : i = 8 * (i / 8) + i % 8 := by omega
    have hm : i % 8 = 0 ∨ i % 8 = 1 ∨ i % 8 = 2 ∨ i % 8 = 3 ∨ i % 8 = 4 ∨ i % 8 = 5 ∨ i % 8 = 6 ∨ i % 8 = 7 := by omega
    conv => rhs; rw [hi]
    rcases hm with h | h | h | h | h | h | h | h <;> rw [h] <;> simp
  · have h1 : (packBits l).getD (i / 8) 0 = 0 := by
      rw [List.getD_eq_getElem?_getD, List.getElem?_eq_none (by rw [packBits_length]; omega)]; rfl
    rw [h1]
    have h2 : l.getD i false = false := by
      rw [List.getD_eq_getElem?_getD, List.getElem?_eq_none (by omega)]; rfl
    rw [h2]; simp

/-- the bits of the packed bitset are the flags followed by padding. -/
theorem bitsOf_packBits (l : List Bool) :
    bitsOf (packBits l) = l ++ List.replicate (8 * ((l.length + 7) / 8) - l.length) false := by
  apply List.ext_getElem
  · simp [bitsOf, packBits_length]; omega
  · intro i h1 h2
    simp only [bitsOf, List.getElem_map, List.getElem_range]
    rw [vecBit_packBits]
    by_cases hi : i < l.length
    · rw [List.getElem_append_left hi, List.getD_eq_getElem?_getD, List.getElem?_eq_getElem hi]; rfl
    · rw [List.getElem_append_right (by omega), List.getElem_replicate, List.getD_eq_getElem?_getD,
        List.getElem?_eq_none (by omega)]; rfl

theorem distribute_pad (target pad i : Nat) (rest : Bytes) (hi : target ≤ i) :
    distribute target (List.replicate pad false) i rest = .ok ([], 0) := by
  induction pad generalizing i with
  | zero =>
    have : target - i = 0 := by omega
    simp [distribute, this]
  | succ p ih =>
    rw [List.replicate_succ]
    simp only [distribute, Bool.false_eq_true, if_false]
    rw [ih (i + 1) (by omega)]
    have : ¬ i < target := by omega
    simp [this]

theorem distribute_spec (target : Nat) (data : Bytes) (i pad : Nat) (extra : Bytes) (hi : i + data.length = target) :
    distribute target (data.map (fun b => b != 0) ++ List.replicate pad false) i (data.filter (fun b => b != 0) ++ extra) =
      .ok (data, (data.filter (fun b => b != 0)).length) := by
  induction data generalizing i with
  | nil =>
    simp only [List.map_nil, List.nil_append, List.filter_nil, List.length_nil]
    exact distribute_pad target pad i extra (by simp at hi; omega)
  | cons d ds ih =>
    simp only [List.length_cons] at hi
    have ih' := ih (i + 1) (by omega)
    by_cases hd : d = 0
    · subst hd
      simp only [List.map_cons, List.cons_append, List.filter_cons, bne_self_eq_false, Bool.false_eq_true, if_false, distribute]
      rw [ih']
      have : i < target := by omega
      simp [this]
    · have hb : (d != 0) = true := by simpa using hd
      simp only [List.map_cons, List.cons_append, List.filter_cons, hb, if_true, distribute, List.length_cons]
      have h1 : ¬ (i ≥ target) := by omega
      have h2 : (d == 0) = false := by simpa using hd
      simp only [h1, if_false, h2, Bool.false_eq_true]
      rw [ih']

theorem filter_nil_all_zero (data : Bytes) (h : (data.filter (fun b => b != 0)).length = 0) : data = List.replicate data.length 0 := by
  induction data with
  | nil => rfl
  | cons d ds ih =>
    by_cases hd : d = 0
    · subst hd
      simp only [List.filter_cons, bne_self_eq_false, Bool.false_eq_true, if_false] at h
      rw [List.length_cons, List.replicate_succ, ← ih h]
    · have hb : (d != 0) = true := by simpa using hd
      simp [List.filter_cons, hb] at h

theorem packBits_has_nonzero (data : Bytes) (h : (data.filter (fun b => b != 0)).length ≠ 0) :
    ∃ b ∈ packBits (data.map (fun b => b != 0)), b ≠ 0 := by
  -- some position i holds a non-zero byte; bit i of the packed bitset is set, so byte i/8 is not zero
  have hex : ∃ i, i < data.length ∧ data.getD i 0 ≠ 0 := by
    induction data with
    | nil => simp at h
    | cons d ds ih =>
      by_cases hd : d = 0
      · subst hd
        simp only [List.filter_cons, bne_self_eq_false, Bool.false_eq_true, if_false] at h
        obtain ⟨i, hi, hne⟩ := ih h
        exact ⟨i + 1, by simp; omega, by simpa using hne⟩
      · exact ⟨0, by simp, by simpa using hd⟩
  obtain ⟨i, hi, hne⟩ := hex
  have hbit : vecBit (packBits (data.map (fun b => b != 0))) i = true := by
    rw [vecBit_packBits, List.getD_eq_getElem?_getD, List.getElem?_map, List.getElem?_eq_getElem hi]
    have : data.getD i 0 = data[i] := by rw [List.getD_eq_getElem?_getD, List.getElem?_eq_getElem hi]; rfl
    rw [this] at hne
    simpa using hne
  refine ⟨(packBits (data.map (fun b => b != 0))).getD (i / 8) 0, ?_, ?_⟩
  · have hlt : i / 8 < (packBits (data.map (fun b => b != 0))).length := by
      rw [packBits_length, List.length_map]; omega
    rw [List.getD_eq_getElem?_getD, List.getElem?_eq_getElem hlt]
    exact List.getElem_mem hlt
  · intro hz
    rw [vecBit_eq, hz] at hbit
    simp at hbit

theorem nonzero_filter (data : Bytes) (h : ∃ b ∈ data, b ≠ 0) : (data.filter (fun b => b != 0)).length ≠ 0 := by
  obtain ⟨b, hb, hne⟩ := h
  have : b ∈ data.filter (fun b => b != 0) := by
    rw [List.mem_filter]; exact ⟨hb, by simpa using hne⟩
  intro hz
  have := List.eq_nil_of_length_eq_zero hz
  simp_all

/-- the decoder inverts the encoder, also when more input follows (needed for the recursion on the bitset), provided the encoded
    vector is not all-zero or nothing follows. -/
theorem decodePartial_encode (n : Nat) (data extra : Bytes) (hn : data.length ≤ n)
    (h : (∃ b ∈ data, b ≠ 0) ∨ extra = []) :
    bitsetDecodePartialF n (bitsetEncodeF n data ++ extra) data.length = .ok (data, (bitsetEncodeF n data).length) := by
  induction n generalizing data extra with
  | zero =>
    have : data = [] := List.eq_nil_of_length_eq_zero (by omega)
    subst this; rfl
  | succ n ih =>
    unfold bitsetEncodeF
    by_cases h0 : data.length = 0
    · have : data = [] := List.eq_nil_of_length_eq_zero h0
      subst this
      simp [bitsetDecodePartialF]
    · simp only [h0, if_false]
      by_cases h1 : data.length = 1
      · simp only [h1, if_true]
        obtain ⟨b, hb⟩ : ∃ b, data = [b] := by
          cases data with
          | nil => simp at h0
          | cons b t => cases t with
            | nil => exact ⟨b, rfl⟩
            | cons c t' => simp at h1
        subst hb
        by_cases hz : b = 0
        · subst hz
          have hx : extra = [] := by
            rcases h with ⟨b, hb, hne⟩ | h
            · simp at hb; exact absurd hb hne
            · exact h
          subst hx
          simp [bitsetDecodePartialF]
        · have hb : (b == 0) = false := by simpa using hz
          simp only [List.getD_cons_zero, hb, Bool.false_eq_true, if_false]
          unfold bitsetDecodePartialF
          have hb2 : (b != 0) = true := by simpa using hz
          simp [hb2]
      · simp only [h1, if_false]
        by_cases hnz : (data.filter (fun b => b != 0)).length = 0
        · -- all zero: nothing is emitted, nothing may follow
          have hx : extra = [] := by
            rcases h with hex | h
            · exact absurd hnz (nonzero_filter data hex)
            · exact h
          subst hx
          have hall := filter_nil_all_zero data hnz
          simp only [hnz, beq_self_eq_true, if_true, List.append_nil, List.length_nil]
          unfold bitsetDecodePartialF
          simp only [h0, if_false, List.length_nil, if_true]
          rw [← hall]
        · have hnzb : ((data.filter (fun b => b != 0)).length == 0) = false := by simpa using hnz
          simp only [hnzb, Bool.false_eq_true, if_false]
          have hlen2 : 2 ≤ data.length := by omega
          have hbl : (packBits (data.map (fun b => b != 0))).length = (data.length + 7) / 8 := by
            rw [packBits_length, List.length_map]
          have hble : (packBits (data.map (fun b => b != 0))).length ≤ n := by rw [hbl]; omega
          have ihb := ih (packBits (data.map (fun b => b != 0))) (data.filter (fun b => b != 0) ++ extra) hble
            (Or.inl (packBits_has_nonzero data hnz))
          rw [hbl] at ihb
          rw [List.append_assoc]
          unfold bitsetDecodePartialF
          have hne : (bitsetEncodeF n (packBits (data.map (fun b => b != 0))) ++ (data.filter (fun b => b != 0) ++ extra)).length ≠ 0 := by
            simp only [List.length_append]; omega
          simp only [h0, if_false, hne, h1]
          rw [ihb]
          simp only
          rw [List.drop_left, bitsOf_packBits, distribute_spec data.length data 0 _ extra (by omega)]
          simp [List.length_append]

/-- `decompress_compress`: every byte vector survives `CompressBytes` followed by `DecompressBytes` with its own length. -/
theorem decompress_compress_all (v : Bytes) : decompressBytes (compressBytes v) v.length = .ok v := by
  unfold compressBytes
  simp only
  by_cases hlt : (bitsetEncodeBytes v).length < v.length
  · simp only [hlt, if_true]
    unfold decompressBytes
    have h1 : ¬ ((bitsetEncodeBytes v).length > v.length) := by omega
    have h2 : ¬ ((bitsetEncodeBytes v).length = v.length) := by omega
    simp only [h1, h2, if_false]
    have := decodePartial_encode v.length v [] (Nat.le_refl _) (Or.inr rfl)
    rw [List.append_nil] at this
    unfold bitsetEncodeBytes
    rw [this]
    simp
  · simp only [hlt, if_false]
    unfold decompressBytes
    simp

end Aqv.LogFilter

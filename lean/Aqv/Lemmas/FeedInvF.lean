/-
  Aqv.Lemmas.FeedInvF — every placement of Send g's value into channel c happens after Subscribe(c) returned, after
  Send g was called and not after Send g returned (trace form).
-/
import Aqv.Lemmas.FeedInvE
namespace Aqv.Feed
set_option linter.unusedSimpArgs false
set_option linter.unusedVariables false

structure InvF (s : St) : Prop where
  p_sub : ∀ c g, Ev.place c g ∈ s.tr → Before s.tr (.subRet c) (.place c g)
  p_call : ∀ c g, Ev.place c g ∈ s.tr → Before s.tr (.sendCall g) (.place c g)
  p_ret : ∀ c g n, ¬ Before s.tr (.sendRet g n) (.place c g)

theorem invF_init : InvF init := by
  constructor <;> simp [init, Before]

macro "invf_auto" : tactic =>
  `(tactic| (constructor <;> simp only [Before, sub2_snoc, List.mem_append, List.mem_singleton] <;> (try assumption) <;> (try grind [SPc.held, RPc.held, SPc.merged])))

theorem invF_subscribe (s s' : St) (c k : Nat) (ha : InvA s) (he : InvE s) (h : InvF s) (hs : step s (.subscribe c k) = some s') : InvF s' := by
  obtain ⟨a1,a2,a3,a4,a5,a6,a7,a8,a9,a10,a11,a12,a13,a14⟩ := ha
  obtain ⟨e1,e2,e3,e4,e5,e6,e7,e8,e9,e10⟩ := he
  obtain ⟨h1,h2,h3⟩ := h
  have sm := @sub2_mem Ev s.tr
  simp only [Before] at h1 h2 h3
  step_split hs
  all_goals invf_auto

theorem invF_sendCall (s s' : St) (g : Nat) (ha : InvA s) (he : InvE s) (h : InvF s) (hs : step s (.sendCall g) = some s') : InvF s' := by
  obtain ⟨a1,a2,a3,a4,a5,a6,a7,a8,a9,a10,a11,a12,a13,a14⟩ := ha
  obtain ⟨e1,e2,e3,e4,e5,e6,e7,e8,e9,e10⟩ := he
  obtain ⟨h1,h2,h3⟩ := h
  have sm := @sub2_mem Ev s.tr
  simp only [Before] at h1 h2 h3
  step_split hs
  all_goals invf_auto

theorem invF_acquire (s s' : St) (g : Nat) (ha : InvA s) (he : InvE s) (h : InvF s) (hs : step s (.acquire g) = some s') : InvF s' := by
  obtain ⟨a1,a2,a3,a4,a5,a6,a7,a8,a9,a10,a11,a12,a13,a14⟩ := ha
  obtain ⟨e1,e2,e3,e4,e5,e6,e7,e8,e9,e10⟩ := he
  obtain ⟨h1,h2,h3⟩ := h
  have sm := @sub2_mem Ev s.tr
  simp only [Before] at h1 h2 h3
  step_split hs
  all_goals invf_auto

theorem invF_merge (s s' : St) (g : Nat) (ha : InvA s) (he : InvE s) (h : InvF s) (hs : step s (.merge g) = some s') : InvF s' := by
  obtain ⟨a1,a2,a3,a4,a5,a6,a7,a8,a9,a10,a11,a12,a13,a14⟩ := ha
  obtain ⟨e1,e2,e3,e4,e5,e6,e7,e8,e9,e10⟩ := he
  obtain ⟨h1,h2,h3⟩ := h
  have sm := @sub2_mem Ev s.tr
  simp only [Before] at h1 h2 h3
  step_split hs
  all_goals invf_auto

theorem invF_tryOk (s s' : St) (g : Nat) (ha : InvA s) (he : InvE s) (h : InvF s) (hs : step s (.tryOk g) = some s') : InvF s' := by
  obtain ⟨a1,a2,a3,a4,a5,a6,a7,a8,a9,a10,a11,a12,a13,a14⟩ := ha
  obtain ⟨e1,e2,e3,e4,e5,e6,e7,e8,e9,e10⟩ := he
  obtain ⟨h1,h2,h3⟩ := h
  have sm := @sub2_mem Ev s.tr
  simp only [Before] at h1 h2 h3
  step_split hs
  rename_i i heq hg
  have hle := a14 g (by simp [heq, SPc.merged])
  have hc1 : s.sendCases.getD i 0 ∈ s.sendCases := by
    rw [getD_eq_getElem s.sendCases i (by omega)]; exact List.getElem_mem _
  have hsub := a5 _ (Or.inr hc1)
  all_goals invf_auto

theorem invF_tryFail (s s' : St) (g : Nat) (ha : InvA s) (he : InvE s) (h : InvF s) (hs : step s (.tryFail g) = some s') : InvF s' := by
  obtain ⟨a1,a2,a3,a4,a5,a6,a7,a8,a9,a10,a11,a12,a13,a14⟩ := ha
  obtain ⟨e1,e2,e3,e4,e5,e6,e7,e8,e9,e10⟩ := he
  obtain ⟨h1,h2,h3⟩ := h
  have sm := @sub2_mem Ev s.tr
  simp only [Before] at h1 h2 h3
  step_split hs
  all_goals invf_auto

theorem invF_sweepEnd (s s' : St) (g : Nat) (ha : InvA s) (he : InvE s) (h : InvF s) (hs : step s (.sweepEnd g) = some s') : InvF s' := by
  obtain ⟨a1,a2,a3,a4,a5,a6,a7,a8,a9,a10,a11,a12,a13,a14⟩ := ha
  obtain ⟨e1,e2,e3,e4,e5,e6,e7,e8,e9,e10⟩ := he
  obtain ⟨h1,h2,h3⟩ := h
  have sm := @sub2_mem Ev s.tr
  simp only [Before] at h1 h2 h3
  step_split hs
  all_goals invf_auto

theorem invF_selPlace (s s' : St) (g i : Nat) (ha : InvA s) (he : InvE s) (h : InvF s) (hs : step s (.selPlace g i) = some s') : InvF s' := by
  obtain ⟨a1,a2,a3,a4,a5,a6,a7,a8,a9,a10,a11,a12,a13,a14⟩ := ha
  obtain ⟨e1,e2,e3,e4,e5,e6,e7,e8,e9,e10⟩ := he
  obtain ⟨h1,h2,h3⟩ := h
  have sm := @sub2_mem Ev s.tr
  simp only [Before] at h1 h2 h3
  step_split hs
  rename_i hg
  have hle := a14 g (by simp [hg.1, SPc.merged])
  have hc1 : s.sendCases.getD i 0 ∈ s.sendCases := by
    rw [getD_eq_getElem s.sendCases i (by omega)]; exact List.getElem_mem _
  have hsub := a5 _ (Or.inr hc1)
  all_goals invf_auto

theorem invF_selRecv (s s' : St) (g c : Nat) (ha : InvA s) (he : InvE s) (h : InvF s) (hs : step s (.selRecv g c) = some s') : InvF s' := by
  obtain ⟨a1,a2,a3,a4,a5,a6,a7,a8,a9,a10,a11,a12,a13,a14⟩ := ha
  obtain ⟨e1,e2,e3,e4,e5,e6,e7,e8,e9,e10⟩ := he
  obtain ⟨h1,h2,h3⟩ := h
  have sm := @sub2_mem Ev s.tr
  simp only [Before] at h1 h2 h3
  step_split hs
  all_goals invf_auto

theorem invF_doRemove (s s' : St) (g : Nat) (ha : InvA s) (he : InvE s) (h : InvF s) (hs : step s (.doRemove g) = some s') : InvF s' := by
  obtain ⟨a1,a2,a3,a4,a5,a6,a7,a8,a9,a10,a11,a12,a13,a14⟩ := ha
  obtain ⟨e1,e2,e3,e4,e5,e6,e7,e8,e9,e10⟩ := he
  obtain ⟨h1,h2,h3⟩ := h
  have sm := @sub2_mem Ev s.tr
  simp only [Before] at h1 h2 h3
  step_split hs
  all_goals invf_auto

theorem invF_unsubCall (s s' : St) (c : Nat) (ha : InvA s) (he : InvE s) (h : InvF s) (hs : step s (.unsubCall c) = some s') : InvF s' := by
  obtain ⟨a1,a2,a3,a4,a5,a6,a7,a8,a9,a10,a11,a12,a13,a14⟩ := ha
  obtain ⟨e1,e2,e3,e4,e5,e6,e7,e8,e9,e10⟩ := he
  obtain ⟨h1,h2,h3⟩ := h
  have sm := @sub2_mem Ev s.tr
  simp only [Before] at h1 h2 h3
  step_split hs
  all_goals invf_auto

theorem invF_rmInbox (s s' : St) (c : Nat) (ha : InvA s) (he : InvE s) (h : InvF s) (hs : step s (.rmInbox c) = some s') : InvF s' := by
  obtain ⟨a1,a2,a3,a4,a5,a6,a7,a8,a9,a10,a11,a12,a13,a14⟩ := ha
  obtain ⟨e1,e2,e3,e4,e5,e6,e7,e8,e9,e10⟩ := he
  obtain ⟨h1,h2,h3⟩ := h
  have sm := @sub2_mem Ev s.tr
  simp only [Before] at h1 h2 h3
  step_split hs
  all_goals invf_auto

theorem invF_rmToken (s s' : St) (c : Nat) (ha : InvA s) (he : InvE s) (h : InvF s) (hs : step s (.rmToken c) = some s') : InvF s' := by
  obtain ⟨a1,a2,a3,a4,a5,a6,a7,a8,a9,a10,a11,a12,a13,a14⟩ := ha
  obtain ⟨e1,e2,e3,e4,e5,e6,e7,e8,e9,e10⟩ := he
  obtain ⟨h1,h2,h3⟩ := h
  have sm := @sub2_mem Ev s.tr
  simp only [Before] at h1 h2 h3
  step_split hs
  all_goals invf_auto

theorem invF_rmDelete (s s' : St) (c : Nat) (ha : InvA s) (he : InvE s) (h : InvF s) (hs : step s (.rmDelete c) = some s') : InvF s' := by
  obtain ⟨a1,a2,a3,a4,a5,a6,a7,a8,a9,a10,a11,a12,a13,a14⟩ := ha
  obtain ⟨e1,e2,e3,e4,e5,e6,e7,e8,e9,e10⟩ := he
  obtain ⟨h1,h2,h3⟩ := h
  have sm := @sub2_mem Ev s.tr
  simp only [Before] at h1 h2 h3
  step_split hs
  all_goals invf_auto

theorem invF_rmRelease (s s' : St) (c : Nat) (ha : InvA s) (he : InvE s) (h : InvF s) (hs : step s (.rmRelease c) = some s') : InvF s' := by
  obtain ⟨a1,a2,a3,a4,a5,a6,a7,a8,a9,a10,a11,a12,a13,a14⟩ := ha
  obtain ⟨e1,e2,e3,e4,e5,e6,e7,e8,e9,e10⟩ := he
  obtain ⟨h1,h2,h3⟩ := h
  have sm := @sub2_mem Ev s.tr
  simp only [Before] at h1 h2 h3
  step_split hs
  all_goals invf_auto

theorem invF_recvBegin (s s' : St) (c : Nat) (ha : InvA s) (he : InvE s) (h : InvF s) (hs : step s (.recvBegin c) = some s') : InvF s' := by
  obtain ⟨a1,a2,a3,a4,a5,a6,a7,a8,a9,a10,a11,a12,a13,a14⟩ := ha
  obtain ⟨e1,e2,e3,e4,e5,e6,e7,e8,e9,e10⟩ := he
  obtain ⟨h1,h2,h3⟩ := h
  have sm := @sub2_mem Ev s.tr
  simp only [Before] at h1 h2 h3
  step_split hs
  all_goals invf_auto

theorem invF_recvTake (s s' : St) (c : Nat) (ha : InvA s) (he : InvE s) (h : InvF s) (hs : step s (.recvTake c) = some s') : InvF s' := by
  obtain ⟨a1,a2,a3,a4,a5,a6,a7,a8,a9,a10,a11,a12,a13,a14⟩ := ha
  obtain ⟨e1,e2,e3,e4,e5,e6,e7,e8,e9,e10⟩ := he
  obtain ⟨h1,h2,h3⟩ := h
  have sm := @sub2_mem Ev s.tr
  simp only [Before] at h1 h2 h3
  step_split hs
  all_goals invf_auto

theorem invF_step (s s' : St) (a : Act) (ha : InvA s) (he : InvE s) (h : InvF s) (hs : step s a = some s') : InvF s' := by
  cases a with
  | subscribe c k => exact invF_subscribe s s' c k ha he h hs
  | sendCall g => exact invF_sendCall s s' g ha he h hs
  | acquire g => exact invF_acquire s s' g ha he h hs
  | merge g => exact invF_merge s s' g ha he h hs
  | tryOk g => exact invF_tryOk s s' g ha he h hs
  | tryFail g => exact invF_tryFail s s' g ha he h hs
  | sweepEnd g => exact invF_sweepEnd s s' g ha he h hs
  | selPlace g i => exact invF_selPlace s s' g i ha he h hs
  | selRecv g c => exact invF_selRecv s s' g c ha he h hs
  | doRemove g => exact invF_doRemove s s' g ha he h hs
  | unsubCall c => exact invF_unsubCall s s' c ha he h hs
  | rmInbox c => exact invF_rmInbox s s' c ha he h hs
  | rmToken c => exact invF_rmToken s s' c ha he h hs
  | rmDelete c => exact invF_rmDelete s s' c ha he h hs
  | rmRelease c => exact invF_rmRelease s s' c ha he h hs
  | recvBegin c => exact invF_recvBegin s s' c ha he h hs
  | recvTake c => exact invF_recvTake s s' c ha he h hs

theorem invF_reach {s : St} (h : Reach s) : InvF s := by
  induction h with
  | init => exact invF_init
  | step a hr hs ih => exact invF_step _ _ a (invA_reach hr) (invE_reach hr) ih hs

end Aqv.Feed

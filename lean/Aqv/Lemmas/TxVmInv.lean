/-
  Aqv.Lemmas.TxVmInv — a world invariant carried through the C07 machine (Aqv.Model.Vm): if every effect function the
  oracle supplies preserves a predicate P on worlds, then P holds of the current world and of every live snapshot after any run
  of the interpreter / of the call and create wrappers (the machine itself only applies oracle effects, takes snapshots and
  reverts to them). Used for the supply bound (C05 `vm_run_supply_nonincreasing`).
-/
import Aqv.Lemmas.VmMain
namespace Aqv.TxVm
open Aqv.Vm Aqv.Gen.VmFlags

variable {W : Type}

structure DbInv (P : W → Prop) (d : Db W) : Prop where
  cur : P d.cur
  revs : ∀ p ∈ d.revs, P p.2

/-- every effect function of every oracle entry preserves P. -/
def EffOk (P : W → Prop) (o : Nat → StepIn W) : Prop :=
  ∀ t w, P w → P ((o t).eff w) ∧ P ((o t).gasEff w) ∧ P ((o t).neutralEff w) ∧ P ((o t).xferEff w) ∧
    P ((o t).nonceEff w) ∧ P ((o t).setCodeEff w)

theorem DbInv.app {P : W → Prop} {d : Db W} (h : DbInv P d) {f : W → W} (hf : ∀ w, P w → P (f w)) : DbInv P (d.app f) :=
  ⟨hf _ h.cur, h.revs⟩

theorem DbInv.snapshot {P : W → Prop} {d : Db W} (h : DbInv P d) : DbInv P d.snapshot.2 :=
  ⟨h.cur, fun p hp => by
    simp only [Db.snapshot, List.mem_cons] at hp
    rcases hp with hp | hp
    · rw [hp]; exact h.cur
    · exact h.revs p hp⟩

theorem dropTo_mem (id : Nat) (l : List (Nat × W)) {w : W} {rest : List (Nat × W)} (h : dropTo id l = some (w, rest)) :
    (∃ i, (i, w) ∈ l) ∧ ∀ p ∈ rest, p ∈ l := by
  induction l with
  | nil => simp [dropTo] at h
  | cons q qs ih =>
    obtain ⟨i, v⟩ := q
    simp only [dropTo] at h
    split at h
    · cases h; exact ⟨⟨i, List.mem_cons_self⟩, fun p hp => List.mem_cons_of_mem _ hp⟩
    · split at h
      · obtain ⟨⟨j, hj⟩, hr⟩ := ih h
        exact ⟨⟨j, List.mem_cons_of_mem _ hj⟩, fun p hp => List.mem_cons_of_mem _ (hr p hp)⟩
      · cases h

theorem DbInv.revert {P : W → Prop} {d d' : Db W} (h : DbInv P d) {id : Nat} (hr : d.revert id = some d') : DbInv P d' := by
  unfold Db.revert at hr
  split at hr
  · cases hr
  · next w rest hd =>
    cases hr
    obtain ⟨⟨i, hi⟩, hrest⟩ := dropTo_mem id d.revs hd
    exact ⟨h.revs _ hi, fun p hp => h.revs p (hrest p hp)⟩

theorem finishCall_inv {P : W → Prop} {r : Res W} (h : DbInv P r.db) (id : Nat) : DbInv P (finishCall r id).db := by
  unfold finishCall
  split
  · split
    · exact h
    · next d hd => exact h.revert hd
  · split
    · exact h
    · next d hd => exact h.revert hd
  · exact h

/-- what the wrappers need of the interpreter they call. -/
def ChildInv (P : W → Prop) (runChild : Frame → Db W → Nat → Res W) : Prop :=
  ∀ fr db t, DbInv P db → DbInv P (runChild fr db t).db

theorem runCode_inv {P : W → Prop} {runChild : Frame → Db W → Nat → Res W} (hc : ChildInv P runChild) (i : StepIn W)
    (gas depth : Nat) (ro : Bool) {db : Db W} (t : Nat) (h : DbInv P db) : DbInv P (runCode runChild i gas depth ro db t).db := by
  unfold runCode
  split
  · split
    · exact h
    · split <;> exact h
  · split
    · exact h
    · exact hc _ _ _ h

theorem callWrap_inv {P : W → Prop} {env : Env} {runChild : Frame → Db W → Nat → Res W} (hc : ChildInv P runChild)
    (k : CallKind) {i : StepIn W} (hx : ∀ w, P w → P (i.xferEff w)) (hn : ∀ w, P w → P (i.neutralEff w))
    (depth : Nat) (ro : Bool) (gas : Nat) (valueNZ : Bool) {db : Db W} (t : Nat) (h : DbInv P db) :
    DbInv P (callWrap env runChild k i depth ro gas valueNZ db t).db := by
  unfold callWrap
  split
  · exact h
  · split
    · exact h
    · simp only []
      split
      · exact h.snapshot
      · apply finishCall_inv
        apply runCode_inv hc
        split
        · split
          · exact h.snapshot.app hx
          · exact h.snapshot.app hn
        · exact h.snapshot

theorem createStore_inv {P : W → Prop} {env : Env} {i : StepIn W} (hs : ∀ w, P w → P (i.setCodeEff w)) {r : Res W} (h : DbInv P r.db) :
    DbInv P (createStore env i r).db := by
  unfold createStore
  split
  · split
    · exact h
    · exact h.app hs
  · exact h

theorem ite_out_inv {P : W → Prop} (c : Prop) [Decidable c] (r2 : Res W) (h : DbInv P r2.db) (o : Outcome) :
    DbInv P (if c then { r2 with out := o } else r2).db := by
  split <;> exact h

theorem createFinish_inv {P : W → Prop} {env : Env} (id : Nat) (b : Bool) {r : Res W} (h : DbInv P r.db) :
    DbInv P (createFinish env id b r).db := by
  unfold createFinish
  refine ite_out_inv _ _ ?_ _
  split
  · split
    · exact h
    · next d hd => split <;> exact h.revert hd
  · exact h

theorem createWrap_inv {P : W → Prop} {env : Env} {runChild : Frame → Db W → Nat → Res W} (hc : ChildInv P runChild)
    {i : StepIn W} (hx : ∀ w, P w → P (i.xferEff w)) (hnc : ∀ w, P w → P (i.nonceEff w)) (hs : ∀ w, P w → P (i.setCodeEff w))
    (depth : Nat) (ro : Bool) (gas : Nat) {db : Db W} (t : Nat) (h : DbInv P db) :
    DbInv P (createWrap env runChild i depth ro gas db t).db := by
  unfold createWrap
  split
  · exact h
  · split
    · exact h
    · simp only []
      split
      · exact h.app hnc
      · have h2 : DbInv P ((db.app i.nonceEff).snapshot.2.app i.xferEff) := ((h.app hnc).snapshot).app hx
        split
        · split
          · exact h2
          · exact createFinish_inv _ _ (createStore_inv hs h2)
        · have h3 := hc (newFrame gas (depth + 1) ro) _ t h2
          split
          · exact h3
          · exact createFinish_inv _ _ (createStore_inv hs h3)

theorem stepWith_inv {P : W → Prop} {env : Env} {o : Nat → StepIn W} (hO : EffOk P o) {rec : Frame → Db W → Nat → Res W}
    (ih : ChildInv P rec) (fr : Frame) {db : Db W} (t : Nat) (h : DbInv P db) : DbInv P (stepWith env o rec fr db t).db := by
  obtain ⟨e1, e2, e3, e4, e5, e6⟩ : (∀ w, P w → P ((o t).eff w)) ∧ (∀ w, P w → P ((o t).gasEff w)) ∧ (∀ w, P w → P ((o t).neutralEff w)) ∧
      (∀ w, P w → P ((o t).xferEff w)) ∧ (∀ w, P w → P ((o t).nonceEff w)) ∧ (∀ w, P w → P ((o t).setCodeEff w)) :=
    ⟨fun w hw => (hO t w hw).1, fun w hw => (hO t w hw).2.1, fun w hw => (hO t w hw).2.2.1, fun w hw => (hO t w hw).2.2.2.1,
     fun w hw => (hO t w hw).2.2.2.2.1, fun w hw => (hO t w hw).2.2.2.2.2⟩
  unfold stepWith
  simp only
  cases hpre : pre env (o t) fr db t with
  | stop r =>
    simp only
    obtain ⟨_, _, _, _, h5⟩ := pre_stop hpre
    rcases h5 with h' | ⟨f, _, _, _, h'⟩ <;> rw [h']
    · exact h
    · exact h.app e2
  | go f g ms db1 =>
    simp only
    obtain ⟨_, _, _, _, _, _, hdb1⟩ := pre_go hpre
    have h1 : DbInv P db1 := by
      rw [hdb1]; split
      · exact h.app e2
      · exact h
    by_cases hcr : f.execFn = .opCreate
    · simp only [hcr, if_true]
      generalize hr : createWrap env rec (o t) fr.depth fr.ro _ db1 (t + 1) = r
      have hri : DbInv P r.db := by rw [← hr]; exact createWrap_inv ih e4 e5 e6 _ _ _ _ h1
      split
      · exact hri
      · exact ih _ _ _ hri
    · simp only [hcr, if_false]
      cases hk : execKind f.execFn with
      | some k =>
        simp only
        generalize hr : callWrap env rec k (o t) fr.depth fr.ro _ _ db1 (t + 1) = r
        have hri : DbInv P r.db := by rw [← hr]; exact callWrap_inv ih k e4 e3 _ _ _ _ _ h1
        split
        · exact hri
        · exact ih _ _ _ hri
      | none =>
        simp only
        cases hx : execLocal f (o t) (paidFrame fr f g ms) db1 t (eventOf fr (o t) f g ms) with
        | inl r =>
          simp only
          obtain ⟨_, _, _, _, c5⟩ := execLocal_inl hx
          rcases c5 with h' | ⟨_, h'⟩ <;> rw [h']
          · exact h1
          · exact h1.app e1
        | inr db2 =>
          simp only
          obtain ⟨_, _, c3⟩ := execLocal_inr hx
          apply ih
          rcases c3 with h' | ⟨_, h'⟩ <;> rw [h']
          · exact h1
          · exact h1.app e1

/-- **run_inv.** Interpreter.Run preserves the invariant, for every fuel, frame, tick. -/
theorem run_inv {P : W → Prop} (env : Env) {o : Nat → StepIn W} (hO : EffOk P o) : ∀ fuel, ChildInv P (run env o fuel) := by
  intro fuel
  induction fuel with
  | zero => intro fr db t h; rw [run_zero]; exact h
  | succ fuel ih => intro fr db t h; rw [run_succ]; exact stepWith_inv hO ih fr t h

theorem topCall_inv {P : W → Prop} (env : Env) {o : Nat → StepIn W} (hO : EffOk P o) (fuel : Nat) (k : CallKind) (gas : Nat) (v : Bool)
    {db : Db W} (h : DbInv P db) : DbInv P (topCall env o fuel k gas v db).db := by
  unfold topCall
  exact callWrap_inv (run_inv env hO fuel) k (fun w hw => (hO 0 w hw).2.2.2.1) (fun w hw => (hO 0 w hw).2.2.1) _ _ _ _ _ h

theorem topCreate_inv {P : W → Prop} (env : Env) {o : Nat → StepIn W} (hO : EffOk P o) (fuel : Nat) (gas : Nat)
    {db : Db W} (h : DbInv P db) : DbInv P (topCreate env o fuel gas db).db := by
  unfold topCreate
  exact createWrap_inv (run_inv env hO fuel) (fun w hw => (hO 0 w hw).2.2.2.1) (fun w hw => (hO 0 w hw).2.2.2.2.1)
    (fun w hw => (hO 0 w hw).2.2.2.2.2) _ _ _ _ h

end Aqv.TxVm

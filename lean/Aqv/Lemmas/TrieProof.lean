/-
  Aqv.Lemmas.TrieProof — Merkle proofs: decoding the encoding of a canonical node gives back the node (children as
  embedded nodes / hash references), the in-node walk `pget` follows the denotation, and VerifyProof over any proof
  database that is collision-free against the genuine nodes returns only the genuine value / absence.
-/
import Aqv.Lemmas.TrieBuild
import Aqv.Lemmas.Rlp
import Aqv.Model.TrieProof
namespace Aqv.Trie
open Aqv Aqv.Rlp

def payload : Item → Bytes
  | .str b => b
  | .list xs => encList xs

def isListItem : Item → Bool
  | .str _ => false
  | .list _ => true

theorem split_enc (it : Item) (hs : it.sizeOk = true) (rest : Bytes) :
    split (enc it ++ rest) = some (isListItem it, payload it, rest) := by
  cases it with
  | str b =>
    simp only [Item.sizeOk, decide_eq_true_eq] at hs
    simp only [enc, isListItem, payload]
    unfold encStr
    split
    · rename_i x
      by_cases hx : x < 0x80
      · simp [hx, split, readHead]
      · simp only [hx, if_false]
        rw [List.append_assoc, split, readHead_header_str 1 (by omega)]
        simp [hx]
    · rename_i hns
      rw [List.append_assoc, split, readHead_header_str _ hs]
      simp only [List.length_append, List.take_left', List.drop_left']
      rw [if_neg (by omega)]
  | list xs =>
    simp only [Item.sizeOk, Bool.and_eq_true, decide_eq_true_eq] at hs
    simp only [enc, isListItem, payload]
    rw [List.append_assoc, split, readHead_header_list _ hs.1]
    simp only [List.length_append, List.take_left', List.drop_left']
    rw [if_neg (by omega)]

theorem splitString_enc_str (b : Bytes) (hb : b.length < 2 ^ 64) (rest : Bytes) :
    splitString (enc (.str b) ++ rest) = some (b, rest) := by
  simp [splitString, split_enc (.str b) (by simp [Item.sizeOk, hb]), isListItem, payload]

theorem splitList_enc_list (xs : List Item) (hs : (Item.list xs).sizeOk = true) (rest : Bytes) :
    splitList (enc (.list xs) ++ rest) = some (encList xs, rest) := by
  simp [splitList, split_enc (.list xs) hs, isListItem, payload]

theorem countValues_encList : ∀ (xs : List Item), Item.sizeOkList xs = true → ∀ f, (encList xs).length ≤ f →
    countValues f (encList xs) = some xs.length
  | [], _, f, _ => by cases f <;> simp [encList, countValues]
  | x :: xs, hs, f, hf => by
    simp only [Item.sizeOkList, Bool.and_eq_true] at hs
    simp only [encList, List.length_append] at hf ⊢
    have hpos := enc_length_pos x
    obtain ⟨g, rfl⟩ : ∃ g, f = g + 1 := ⟨f - 1, by omega⟩
    cases he : enc x with
    | nil => exact absurd he (enc_ne_nil x)
    | cons b bs =>
      simp only [List.cons_append, countValues]
      rw [← List.cons_append, ← he, split_enc x hs.1]
      simp only []
      rw [countValues_encList xs hs.2 g (by omega)]
      simp


/-! ### decoded form of a canonical node -/

/-- the hash under which a node is stored / referenced. -/
def hashOf (H : Bytes → Bytes) (n : Node) : Bytes := H (enc (body H n))

/-- a child as `decodeRef` returns it: nil, value, embedded node (RLP < 32 bytes) or hash reference. -/
def refP (H : Bytes → Bytes) : Node → PNode
  | .nil => .nil
  | .value v => .value v
  | .short k c =>
    if (enc (body H (.short k c))).length < 32 then .short k (refP H c) else .hash (hashOf H (.short k c))
  | .full cs =>
    if (enc (body H (.full cs))).length < 32 then .full (fun i => refP H (cs i)) else .hash (hashOf H (.full cs))

/-- a node as `decodeNode` returns it from its own encoding. -/
def toP (H : Bytes → Bytes) : Node → PNode
  | .nil => .nil
  | .value v => .value v
  | .short k c => .short k (refP H c)
  | .full cs => .full fun i => refP H (cs i)

/-- every node's RLP (and every string in it) is shorter than 2^64 bytes — the range of RLP length headers. -/
def SizeOk (H : Bytes → Bytes) : Node → Prop
  | .nil => True
  | .value _ => True
  | .short k c => (body H (.short k c)).sizeOk = true ∧ SizeOk H c
  | .full cs => (body H (.full cs)).sizeOk = true ∧ ∀ i, SizeOk H (cs i)

def IsSF : Node → Prop
  | .short _ _ => True
  | .full _ => True
  | _ => False

theorem wf_isSF {n : Node} (h : WF n) : IsSF n := by cases h <;> trivial

theorem ref_sf (H : Bytes → Bytes) {n : Node} (h : IsSF n) : ref H n = wrap H (body H n) := by
  cases n with
  | nil => cases h
  | value _ => cases h
  | short k c => rfl
  | full cs => rfl

theorem refP_sf_embedded (H : Bytes → Bytes) {n : Node} (h : IsSF n) (he : (enc (body H n)).length < 32) :
    refP H n = toP H n := by
  cases n with
  | nil => cases h
  | value _ => cases h
  | short k c => simp [refP, toP, he]
  | full cs => simp [refP, toP, he]

theorem refP_sf_hashed (H : Bytes → Bytes) {n : Node} (h : IsSF n) (he : ¬ (enc (body H n)).length < 32) :
    refP H n = .hash (hashOf H n) := by
  cases n with
  | nil => cases h
  | value _ => cases h
  | short k c => simp [refP, he]
  | full cs => simp [refP, he]


theorem enc_str32 (h : Bytes) (hl : h.length = 32) : (Item.str h).sizeOk = true := by
  simp [Item.sizeOk, hl]

/-- decoding a child reference written by the hasher. -/
theorem decodeRef_ref (H : Bytes → Bytes) (hH : ∀ x, (H x).length = 32) (recNode : Bytes → Except DErr PNode)
    (c : Node) (hc : c = .nil ∨ IsSF c) (hs : (ref H c).sizeOk = true)
    (hrec : IsSF c → (enc (body H c)).length < 32 → ∀ rest, recNode (enc (body H c) ++ rest) = .ok (toP H c))
    (rest : Bytes) :
    decodeRefWith recNode (enc (ref H c) ++ rest) = .ok (refP H c, rest) := by
  rcases hc with rfl | hsf
  · simp only [ref, refP, decodeRefWith]
    rw [split_enc (.str []) (by simp [Item.sizeOk])]
    simp [isListItem, payload]
  · rw [ref_sf H hsf] at hs ⊢
    unfold wrap at hs ⊢
    by_cases he : (enc (body H c)).length < 32
    · rw [if_pos he] at hs ⊢
      rw [refP_sf_embedded H hsf he]
      have hl : isListItem (body H c) = true := by
        cases c with
        | nil => cases hsf
        | value _ => cases hsf
        | short _ _ => simp [body, isListItem]
        | full _ => simp [body, isListItem]
      simp only [decodeRefWith]
      rw [split_enc _ hs, hl]
      simp only [List.length_append]
      rw [if_neg (by omega), hrec hsf he rest]
    · rw [if_neg he] at hs ⊢
      rw [refP_sf_hashed H hsf he]
      simp only [decodeRefWith]
      rw [split_enc _ hs]
      simp [isListItem, payload, hH, hashOf]

theorem encList_append (a b : List Item) : encList (a ++ b) = encList a ++ encList b := by
  induction a with
  | nil => simp [encList]
  | cons x a ih => simp [encList, ih]

/-- the 16-iteration loop on the encodings of a list of child references. -/
theorem decodeRefs_refs (H : Bytes → Bytes) (hH : ∀ x, (H x).length = 32) (recNode : Bytes → Except DErr PNode) :
    ∀ (cl : List Node), (∀ c ∈ cl, (c = .nil ∨ IsSF c) ∧ (ref H c).sizeOk = true ∧
        (IsSF c → (enc (body H c)).length < 32 → ∀ rest, recNode (enc (body H c) ++ rest) = .ok (toP H c))) →
      ∀ rest, decodeRefsWith recNode cl.length (encList (cl.map (ref H)) ++ rest) = .ok (cl.map (refP H), rest)
  | [], _, rest => by simp [decodeRefsWith, encList]
  | c :: cl, h, rest => by
    have hc := h c (List.mem_cons_self ..)
    have ih := decodeRefs_refs H hH recNode cl (fun c' hc' => h c' (List.mem_cons_of_mem _ hc'))
    simp only [List.map_cons, encList, List.length_cons, decodeRefsWith, List.append_assoc]
    rw [decodeRef_ref H hH recNode c hc.1 hc.2.1 hc.2.2]
    simp only []
    rw [ih]


theorem finRange17_getElem? (i : Nib) : (List.finRange 17)[i.val]? = some i := by
  rw [List.getElem?_eq_getElem (by simp), List.getElem_finRange]
  rfl

theorem first16_getD (g : Nib → PNode) (i : Nib) (hi : i ≠ T) :
    (((List.finRange 17).take 16).map g).getD i.val .nil = g i := by
  have hlt : i.val < 16 := by
    have := i.isLt
    have : i.val ≠ 16 := fun e => hi (Fin.ext e)
    omega
  rw [List.getD_eq_getElem?_getD, List.getElem?_map, List.getElem?_take, if_pos hlt, finRange17_getElem?]
  rfl

theorem finRange17_split : List.finRange 17 = (List.finRange 17).take 16 ++ [T] := by decide

theorem mem_first16 {i : Nib} (h : i ∈ (List.finRange 17).take 16) : i ≠ T := by
  revert i; decide

theorem enc_mem_length_le : ∀ (xs : List Item) (x : Item), x ∈ xs → (enc x).length ≤ (encList xs).length
  | [], _, h => by cases h
  | y :: ys, x, h => by
    simp only [encList, List.length_append]
    cases h with
    | head => omega
    | tail _ h => have := enc_mem_length_le ys x h; omega

theorem sizeOkList_mem : ∀ (xs : List Item), Item.sizeOkList xs = true → ∀ x ∈ xs, x.sizeOk = true
  | [], _, _, h => by cases h
  | y :: ys, hs, x, h => by
    simp only [Item.sizeOkList, Bool.and_eq_true] at hs
    cases h with
    | head => exact hs.1
    | tail _ h => exact sizeOkList_mem ys hs.2 x h

theorem enc_list_length (xs : List Item) : (encList xs).length < (enc (.list xs)).length := by
  simp only [enc, List.length_append]
  have := header_length_pos 0xC0 (encList xs).length
  omega

theorem decodeNode_list2 (xs : List Item) (hs : (Item.list xs).sizeOk = true) (hl : xs.length = 2) (g : Nat) (rest : Bytes) :
    decodeNode (g + 1) (enc (.list xs) ++ rest) = decodeShortWith (decodeNode g) (encList xs) := by
  have hne : (enc (.list xs) ++ rest).length ≠ 0 := by
    have := enc_length_pos (.list xs); simp only [List.length_append]; omega
  have hs' := hs
  simp only [Item.sizeOk, Bool.and_eq_true, decide_eq_true_eq] at hs'
  simp only [decodeNode, hne, if_false, splitList_enc_list xs hs, countValues_encList xs hs'.2 _ (Nat.le_refl _), hl]

theorem decodeNode_list17 (xs : List Item) (hs : (Item.list xs).sizeOk = true) (hl : xs.length = 17) (g : Nat) (rest : Bytes) :
    decodeNode (g + 1) (enc (.list xs) ++ rest) = decodeFullWith (decodeNode g) (encList xs) := by
  have hne : (enc (.list xs) ++ rest).length ≠ 0 := by
    have := enc_length_pos (.list xs); simp only [List.length_append]; omega
  have hs' := hs
  simp only [Item.sizeOk, Bool.and_eq_true, decide_eq_true_eq] at hs'
  simp only [decodeNode, hne, if_false, splitList_enc_list xs hs, countValues_encList xs hs'.2 _ (Nat.le_refl _), hl]



theorem sizeOk_list2 {a b : Item} (h : (Item.list [a, b]).sizeOk = true) : a.sizeOk = true ∧ b.sizeOk = true := by
  simp only [Item.sizeOk, Item.sizeOkList, Bool.and_eq_true, decide_eq_true_eq] at h
  exact ⟨h.2.1, h.2.2.1⟩

theorem sizeOk_str {b : Bytes} (h : (Item.str b).sizeOk = true) : b.length < 2 ^ 64 := by
  simpa [Item.sizeOk] using h

/-- **decode ∘ encode** on canonical nodes: `decodeNode` applied to the RLP the hasher writes for a node returns the node
    with every child as the hasher referenced it (embedded / hash / nil / value). -/
theorem decodeNode_body (H : Bytes → Bytes) (hH : ∀ x, (H x).length = 32) {n : Node} (hw : WF n) :
    SizeOk H n → ∀ f rest, (enc (body H n)).length < f → decodeNode f (enc (body H n) ++ rest) = .ok (toP H n) := by
  induction hw with
  | leaf k v hk hv =>
    intro hs f rest hf
    obtain ⟨g, rfl⟩ : ∃ g, f = g + 1 := ⟨f - 1, by omega⟩
    have hb : body H (.short k (.value v)) = .list [.str (hexToCompact k), .str v] := by simp [body, ref]
    rw [hb] at hf ⊢
    have hso : (Item.list [.str (hexToCompact k), .str v]).sizeOk = true := by rw [← hb]; exact hs.1
    have h2 := sizeOk_list2 hso
    rw [decodeNode_list2 _ hso rfl]
    simp only [encList, decodeShortWith]
    rw [splitString_enc_str _ (sizeOk_str h2.1)]
    simp only [compact_hex_roundtrip' k (Or.inr hk), term_hasTerm hk, if_true]
    rw [splitString_enc_str _ (sizeOk_str h2.2)]
    simp [toP, refP]
  | ext k cs hk hh hwf ih =>
    intro hs f rest hf
    obtain ⟨g, rfl⟩ : ∃ g, f = g + 1 := ⟨f - 1, by omega⟩
    have hb : body H (.short k (.full cs)) = .list [.str (hexToCompact k), ref H (.full cs)] := by simp [body]
    rw [hb] at hf ⊢
    have hso : (Item.list [.str (hexToCompact k), ref H (.full cs)]).sizeOk = true := by rw [← hb]; exact hs.1
    have h2 := sizeOk_list2 hso
    rw [decodeNode_list2 _ hso rfl]
    simp only [encList, decodeShortWith]
    rw [splitString_enc_str _ (sizeOk_str h2.1)]
    simp only [compact_hex_roundtrip' k (Or.inl hh), hex_not_hasTerm hh, Bool.false_eq_true, if_false]
    rw [decodeRef_ref H hH (decodeNode g) (.full cs) (Or.inr trivial) h2.2]
    · simp [toP]
    · intro _ he rest'
      apply ih hs.2
      rw [ref_sf H (by trivial : IsSF (.full cs))] at hf
      simp only [wrap, he, if_true] at hf
      have h1 := enc_list_length [Item.str (hexToCompact k), body H (.full cs)]
      have h2 := enc_mem_length_le [Item.str (hexToCompact k), body H (.full cs)] (body H (.full cs)) (by simp)
      omega
  | full cs c1 c2 c3 ih =>
    intro hs f rest hf
    obtain ⟨g, rfl⟩ : ∃ g, f = g + 1 := ⟨f - 1, by omega⟩
    have hb : body H (.full cs) = .list ((List.finRange 17).map fun i => ref H (cs i)) := by simp [body]
    rw [hb] at hf ⊢
    have hso : (Item.list ((List.finRange 17).map fun i => ref H (cs i))).sizeOk = true := by rw [← hb]; exact hs.1
    have hso' := hso
    simp only [Item.sizeOk, Bool.and_eq_true, decide_eq_true_eq] at hso'
    rw [decodeNode_list17 _ hso (by simp)]
    -- split the 17 references into the first 16 and the value slot
    have hsplit : (List.finRange 17).map (fun i => ref H (cs i)) =
        (((List.finRange 17).take 16).map cs).map (ref H) ++ [ref H (cs T)] := by
      conv => lhs; rw [finRange17_split]
      simp [List.map_append, List.map_map, Function.comp_def]
    have hlen16 : (((List.finRange 17).take 16).map cs).length = 16 := by simp
    have hmemsz : ∀ i : Nib, (ref H (cs i)).sizeOk = true := by
      intro i
      apply sizeOkList_mem _ hso'.2
      exact List.mem_map.2 ⟨i, List.mem_finRange i, rfl⟩
    simp only [decodeFullWith]
    rw [hsplit, encList_append]
    have hrefs := decodeRefs_refs H hH (decodeNode g) (((List.finRange 17).take 16).map cs) (by
      intro c hc
      obtain ⟨i, hi, rfl⟩ := List.mem_map.1 hc
      have hiT := mem_first16 hi
      refine ⟨?_, hmemsz i, ?_⟩
      · by_cases hn : cs i = .nil
        · exact Or.inl hn
        · exact Or.inr (wf_isSF (c1 i hiT hn))
      · intro hsf he rest'
        have hn : cs i ≠ .nil := by intro e; rw [e] at hsf; cases hsf
        apply ih i hiT hn (hs.2 i)
        have h1 := enc_list_length ((List.finRange 17).map fun i => ref H (cs i))
        have h2 := enc_mem_length_le ((List.finRange 17).map fun i => ref H (cs i)) (ref H (cs i))
          (List.mem_map.2 ⟨i, List.mem_finRange i, rfl⟩)
        rw [ref_sf H hsf] at h2
        simp only [wrap, he, if_true] at h2
        omega) (encList [ref H (cs T)])
    rw [hlen16] at hrefs
    rw [hrefs]
    simp only [encList]
    -- the value slot
    have hv : ∃ val, ref H (cs T) = .str val ∧ (if val.length > 0 then PNode.value val else PNode.nil) = refP H (cs T) := by
      rcases c2 with e | ⟨v, hv, e⟩
      · exact ⟨[], by simp [e, ref, refP]⟩
      · refine ⟨v, by simp [e, ref], ?_⟩
        have : v.length > 0 := List.length_pos_iff.2 hv
        simp [e, refP, this]
    obtain ⟨val, hval, hv16⟩ := hv
    have hvs : val.length < 2 ^ 64 := by
      have := hmemsz T; rw [hval] at this; exact sizeOk_str this
    rw [hval, splitString_enc_str _ hvs]
    simp only [toP, Except.ok.injEq, PNode.full.injEq]
    funext i
    by_cases hiT : i = T
    · subst hiT; simp [hv16]
    · simp only [hiT, if_false, List.map_map]
      exact first16_getD (fun i => refP H (cs i)) i hiT



/-! ### the in-node walk follows the denotation -/

/-- `m` is `n` or a node below it. -/
inductive Sub : Node → Node → Prop
  | refl (n : Node) : Sub n n
  | short {m : Node} (k : List Nib) {c : Node} : Sub m c → Sub m (.short k c)
  | full {m : Node} {cs : Nib → Node} (i : Nib) : Sub m (cs i) → Sub m (.full cs)

theorem Sub.trans {a b c : Node} (h1 : Sub a b) (h2 : Sub b c) : Sub a c := by
  induction h2 with
  | refl => exact h1
  | short k _ ih => exact Sub.short k ih
  | full i _ ih => exact Sub.full i ih

/-- outcome of walking inside one decoded node, in terms of the genuine trie: the genuine value, genuine absence, or
    a hash reference to a genuine canonical node below, with the rest of the key. -/
def WalkR (H : Bytes → Bytes) (n : Node) (k : List Nib) (r : GetRes) : Prop :=
  (∃ v, r = .value v ∧ lookup n k = some v) ∨ (r = .absent ∧ lookup n k = none) ∨
  (∃ m k', r = .hashref (hashOf H m) k' ∧ Sub m n ∧ WF m ∧ SizeOk H m ∧ Term k' ∧ k'.length ≤ k.length ∧
    lookup n k = lookup m k')

theorem WalkR.lift {H : Bytes → Bytes} {c n : Node} {r k : List Nib} {g : GetRes} (h : WalkR H c r g)
    (hsub : Sub c n) (hlen : r.length ≤ k.length) (hl : lookup n k = lookup c r) : WalkR H n k g := by
  rcases h with ⟨v, e, h⟩ | ⟨e, h⟩ | ⟨m, k', e, hs, hw, hz, ht, hle, h⟩
  · exact Or.inl ⟨v, e, by rw [hl, h]⟩
  · exact Or.inr (Or.inl ⟨e, by rw [hl, h]⟩)
  · exact Or.inr (Or.inr ⟨m, k', e, hs.trans hsub, hw, hz, ht, by omega, by rw [hl, h]⟩)

theorem sizeOk_short {H : Bytes → Bytes} {k : List Nib} {c : Node} (h : SizeOk H (.short k c)) : SizeOk H c := h.2
theorem sizeOk_full {H : Bytes → Bytes} {cs : Nib → Node} (h : SizeOk H (.full cs)) (i : Nib) : SizeOk H (cs i) := h.2 i

theorem pget_refP (H : Bytes → Bytes) (n : Node) : ∀ k, Pos n k → SizeOk H n → WalkR H n k (pget (refP H n) k) := by
  induction n with
  | nil => intro k _ _; exact Or.inr (Or.inl ⟨by simp [refP, pget], by simp [lookup]⟩)
  | value w =>
    intro k hp _
    rcases hp with ⟨_, h | h⟩ | ⟨rfl, _⟩
    · cases h
    · exact absurd h (not_wf_value w)
    · exact Or.inl ⟨w, by simp [refP, pget], by simp [lookup]⟩
  | short p c ih =>
    intro k hp hs
    rcases hp with ⟨hk, h | hw⟩ | ⟨_, h | ⟨w, h⟩⟩
    · cases h
    · by_cases he : (enc (body H (.short p c))).length < 32
      · simp only [refP, he, if_true, pget]
        split
        · next ht =>
          obtain ⟨r, rfl⟩ := take_eq_iff.1 ht
          simp only [List.drop_left]
          apply (ih r (pos_short_child hw hk) (sizeOk_short hs)).lift (Sub.short p (Sub.refl c)) (by simp)
          rw [lookup_short_append]
        · next ht =>
          refine Or.inr (Or.inl ⟨rfl, ?_⟩)
          apply lookup_short_none
          intro h; exact ht (take_eq_iff.2 h)
      · simp only [refP, he, if_false, pget]
        exact Or.inr (Or.inr ⟨_, k, rfl, Sub.refl _, hw, hs, hk, Nat.le_refl _, rfl⟩)
    · cases h
    · cases h
  | full cs ih =>
    intro k hp hs
    rcases hp with ⟨hk, h | hw⟩ | ⟨_, h | ⟨w, h⟩⟩
    · cases h
    · by_cases he : (enc (body H (.full cs))).length < 32
      · cases k with
        | nil => exact absurd hk (by simp [Term])
        | cons x r =>
          simp only [refP, he, if_true, pget]
          apply (ih x r (pos_full_child hw hk) (sizeOk_full hs x)).lift (Sub.full x (Sub.refl _)) (by simp)
          rw [lookup_full_cons]
      · simp only [refP, he, if_false, pget]
        exact Or.inr (Or.inr ⟨_, k, rfl, Sub.refl _, hw, hs, hk, Nat.le_refl _, rfl⟩)
    · cases h
    · cases h

/-- walking the decoded form of a genuine node itself: as `pget_refP`, and a hash reference strictly shortens the key. -/
theorem pget_toP (H : Bytes → Bytes) {n : Node} (hw : WF n) (hs : SizeOk H n) {k : List Nib} (hk : Term k) :
    WalkR H n k (pget (toP H n) k) ∧ ∀ h k', pget (toP H n) k = .hashref h k' → k'.length < k.length := by
  cases n with
  | nil => exact absurd hw not_wf_nil
  | value v => exact absurd hw (not_wf_value v)
  | short p c =>
    have hp := wf_short_key_ne_nil hw
    have hpl : 0 < p.length := List.length_pos_iff.2 hp
    simp only [toP, pget]
    split
    · next ht =>
      obtain ⟨r, rfl⟩ := take_eq_iff.1 ht
      simp only [List.drop_left]
      have hwalk := pget_refP H c r (pos_short_child hw hk) (sizeOk_short hs)
      refine ⟨hwalk.lift (Sub.short p (Sub.refl c)) (by simp) (by rw [lookup_short_append]), ?_⟩
      intro h k' e
      rcases hwalk with ⟨v, e', _⟩ | ⟨e', _⟩ | ⟨m, k'', e', _, _, _, _, hle, _⟩
      · rw [e'] at e; cases e
      · rw [e'] at e; cases e
      · rw [e'] at e; cases e
        simp only [List.length_append]; omega
    · next ht =>
      refine ⟨Or.inr (Or.inl ⟨rfl, ?_⟩), fun h k' e => by cases e⟩
      apply lookup_short_none
      intro h; exact ht (take_eq_iff.2 h)
  | full cs =>
    cases k with
    | nil => exact absurd hk (by simp [Term])
    | cons x r =>
      simp only [toP, pget]
      have hwalk := pget_refP H (cs x) r (pos_full_child hw hk) (sizeOk_full hs x)
      refine ⟨hwalk.lift (Sub.full x (Sub.refl _)) (by simp) (by rw [lookup_full_cons]), ?_⟩
      intro h k' e
      rcases hwalk with ⟨v, e', _⟩ | ⟨e', _⟩ | ⟨m, k'', e', _, _, _, _, hle, _⟩
      · rw [e'] at e; cases e
      · rw [e'] at e; cases e
      · rw [e'] at e; cases e
        simp only [List.length_cons]; omega

/-! ### VerifyProof returns only genuine answers -/

/-- Soundness core: if whatever the database returns under the hash of a genuine node is that node's encoding, then
    from any genuine node VerifyProof yields the genuine value, genuine absence, or an error — never a panic. -/
theorem verify_core (H : Bytes → Bytes) (hH : ∀ x, (H x).length = 32) (db : Bytes → Option Bytes) (t : Node)
    (hgood : ∀ m, Sub m t → WF m → ∀ blob, db (hashOf H m) = some blob → blob = enc (body H m)) :
    ∀ f n k, Sub n t → WF n → SizeOk H n → Term k →
      (∀ v, verify db f (hashOf H n) k = .value v → lookup n k = some v) ∧
      (verify db f (hashOf H n) k = .absent → lookup n k = none) ∧
      verify db f (hashOf H n) k ≠ .panic := by
  intro f
  induction f with
  | zero => intro n k _ _ _ _; simp [verify]
  | succ f ih =>
    intro n k hsub hw hs hk
    simp only [verify]
    cases hdb : db (hashOf H n) with
    | none => simp
    | some buf =>
      have hbuf := hgood n hsub hw buf hdb
      subst hbuf
      have hdec := decodeNode_body H hH hw hs ((enc (body H n)).length + 1) [] (by omega)
      rw [List.append_nil] at hdec
      simp only [hdec]
      obtain ⟨hwalk, _⟩ := pget_toP H hw hs hk
      rcases hwalk with ⟨v, e, hl⟩ | ⟨e, hl⟩ | ⟨m, k', e, hms, hmw, hmz, hmt, _, hl⟩
      · rw [e]; simp [hl]
      · rw [e]; simp [hl]
      · rw [e]
        simp only []
        have := ih m k' (hms.trans hsub) hmw hmz hmt
        rw [hl]
        exact this

theorem dbOf_some {H : Bytes → Bytes} {p : List Bytes} {h blob : Bytes} (hd : dbOf H p h = some blob) :
    blob ∈ p ∧ H blob = h := by
  unfold dbOf at hd
  have h1 := List.mem_of_find?_eq_some hd
  have h2 := List.find?_some hd
  exact ⟨h1, by simpa using h2⟩



/-! ### the proof `Prove` builds verifies to the content -/

def resOf : Option Bytes → VRes
  | some v => .value v
  | none => .absent

/-- continue VerifyProof's loop from a position inside a decoded node. -/
def contAt (db : Bytes → Option Bytes) (f : Nat) (pn : PNode) (k : List Nib) : VRes :=
  match pget pn k with
  | .absent => .absent
  | .value v => .value v
  | .panic => .panic
  | .hashref h k' => verify db f h k'

theorem contAt_short (db : Bytes → Option Bytes) (f : Nat) (p : List Nib) (x : PNode) (k : List Nib) :
    contAt db f (.short p x) k = if k.take p.length = p then contAt db f x (k.drop p.length) else .absent := by
  unfold contAt
  simp only [pget]
  by_cases h : k.take p.length = p
  · simp only [h, if_true]
  · simp only [h, if_false]

theorem contAt_full_cons (db : Bytes → Option Bytes) (f : Nat) (cs : Nib → PNode) (x : Nib) (k : List Nib) :
    contAt db f (.full cs) (x :: k) = contAt db f (cs x) k := by
  unfold contAt; simp only [pget]

theorem verify_step (H : Bytes → Bytes) (hH : ∀ x, (H x).length = 32) (db : Bytes → Option Bytes) {n : Node}
    (hw : WF n) (hs : SizeOk H n) (hdb : db (hashOf H n) = some (enc (body H n))) (f : Nat) (k : List Nib) :
    verify db (f + 1) (hashOf H n) k = contAt db f (toP H n) k := by
  have hdec := decodeNode_body H hH hw hs ((enc (body H n)).length + 1) [] (by omega)
  rw [List.append_nil] at hdec
  simp only [verify, hdb, hdec, contAt]
  cases pget (toP H n) k <;> rfl

theorem proofElems_cons_false (H : Bytes → Bytes) (n : Node) (l : List Node) :
    proofElems H false (n :: l) =
      if 32 ≤ (enc (body H n)).length then enc (body H n) :: proofElems H false l else proofElems H false l := by
  simp [proofElems]

/-- Completeness core at a reference position: with every hashed path node available in the database, the walk from
    the reference to `n` ends in the content's answer. -/
theorem contAt_refP (H : Bytes → Bytes) (hH : ∀ x, (H x).length = 32) (db : Bytes → Option Bytes) (n : Node) :
    ∀ k l, Pos n k → SizeOk H n → provePath n k = some l → (∀ e ∈ proofElems H false l, db (H e) = some e) →
      ∀ f, k.length < f → contAt db f (refP H n) k = resOf (lookup n k) := by
  induction n with
  | nil => intro k l _ _ _ _ f _; simp [refP, contAt, pget, lookup, resOf]
  | value w =>
    intro k l hp _ _ _ f _
    rcases hp with ⟨_, h | h⟩ | ⟨rfl, _⟩
    · cases h
    · exact absurd h (not_wf_value w)
    · simp [refP, contAt, pget, lookup, resOf]
  | short p c ih =>
    intro k l hp hs hl hdb f hf
    rcases hp with ⟨hk, h | hw⟩ | ⟨_, h | ⟨w, h⟩⟩
    · cases h
    · obtain ⟨x, r, rfl⟩ := List.exists_cons_of_ne_nil (term_ne_nil hk)
      simp only [provePath] at hl
      -- what happens once the node itself is open
      have hopen : ∀ g, (x :: r).length ≤ g → (∀ e ∈ proofElems H false (l.drop 1), db (H e) = some e) →
          contAt db g (.short p (refP H c)) (x :: r) = resOf (lookup (.short p c) (x :: r)) := by
        intro g hg hdb'
        rw [contAt_short, lookup_short]
        split
        · next ht =>
          rw [if_pos ht] at hl
          obtain ⟨r', hr'⟩ := take_eq_iff.1 ht
          have hpos : Pos c (List.drop p.length (x :: r)) := by
            rw [hr']; simp only [List.drop_left]; rw [hr'] at hk; exact pos_short_child hw hk
          cases hc : provePath c (List.drop p.length (x :: r)) with
          | none => rw [hc] at hl; simp at hl
          | some lc =>
            rw [hc] at hl
            simp only [Option.map_some, Option.some.injEq] at hl
            subst hl
            apply ih _ lc hpos (sizeOk_short hs) hc
            · simpa using hdb'
            · have hpl : 0 < p.length := List.length_pos_iff.2 (wf_short_key_ne_nil hw)
              simp only [List.length_drop]
              simp only [List.length_cons] at hg ⊢
              omega
        · rfl
      have hl0 : ∃ l', l = .short p c :: l' := by
        split at hl
        · cases hc : provePath c (List.drop p.length (x :: r)) with
          | none => rw [hc] at hl; simp at hl
          | some lc => rw [hc] at hl; simp at hl; exact ⟨lc, hl.symm⟩
        · simp at hl; exact ⟨[], hl.symm⟩
      obtain ⟨l', rfl⟩ := hl0
      by_cases he : (enc (body H (.short p c))).length < 32
      · simp only [refP, he, if_true]
        apply hopen f (by omega)
        rw [proofElems_cons_false, if_neg (by omega)] at hdb
        simpa using hdb
      · simp only [refP, he, if_false]
        rw [proofElems_cons_false, if_pos (by omega)] at hdb
        obtain ⟨g, rfl⟩ : ∃ g, f = g + 1 := ⟨f - 1, by omega⟩
        have h1 : contAt db (g + 1) (.hash (hashOf H (.short p c))) (x :: r) =
            verify db (g + 1) (hashOf H (.short p c)) (x :: r) := by simp [contAt, pget]
        rw [h1, verify_step H hH db hw hs (hdb _ (List.mem_cons_self ..))]
        simp only [toP]
        apply hopen g (by omega)
        intro e he'
        exact hdb e (List.mem_cons_of_mem _ (by simpa using he'))
    · cases h
    · cases h
  | full cs ih =>
    intro k l hp hs hl hdb f hf
    rcases hp with ⟨hk, h | hw⟩ | ⟨_, h | ⟨w, h⟩⟩
    · cases h
    · obtain ⟨x, r, rfl⟩ := List.exists_cons_of_ne_nil (term_ne_nil hk)
      simp only [provePath] at hl
      cases hc : provePath (cs x) r with
      | none => rw [hc] at hl; simp at hl
      | some lc =>
        rw [hc] at hl
        simp only [Option.map_some, Option.some.injEq] at hl
        subst hl
        have hopen : ∀ g, r.length < g → (∀ e ∈ proofElems H false lc, db (H e) = some e) →
            contAt db g (.full fun i => refP H (cs i)) (x :: r) = resOf (lookup (.full cs) (x :: r)) := by
          intro g hg hdb'
          rw [contAt_full_cons, lookup_full_cons]
          exact ih x r lc (pos_full_child hw hk) (sizeOk_full hs x) hc hdb' g hg
        by_cases he : (enc (body H (.full cs))).length < 32
        · simp only [refP, he, if_true]
          apply hopen f (by simp only [List.length_cons] at hf; omega)
          rw [proofElems_cons_false, if_neg (by omega)] at hdb
          exact hdb
        · simp only [refP, he, if_false]
          rw [proofElems_cons_false, if_pos (by omega)] at hdb
          obtain ⟨g, rfl⟩ : ∃ g, f = g + 1 := ⟨f - 1, by omega⟩
          have h1 : contAt db (g + 1) (.hash (hashOf H (.full cs))) (x :: r) =
              verify db (g + 1) (hashOf H (.full cs)) (x :: r) := by simp [contAt, pget]
          rw [h1, verify_step H hH db hw hs (hdb _ (List.mem_cons_self ..))]
          simp only [toP]
          apply hopen g (by simp only [List.length_cons] at hf; omega)
          intro e he'
          exact hdb e (List.mem_cons_of_mem _ he')
    · cases h
    · cases h



theorem provePath_wf_cons {t : Node} (hw : WF t) {k : List Nib} (hk : Term k) {l : List Node}
    (h : provePath t k = some l) : ∃ l', l = t :: l' := by
  obtain ⟨x, r, rfl⟩ := List.exists_cons_of_ne_nil (term_ne_nil hk)
  cases t with
  | nil => exact absurd hw not_wf_nil
  | value v => exact absurd hw (not_wf_value v)
  | short p c =>
    simp only [provePath] at h
    split at h
    · cases hc : provePath c (List.drop p.length (x :: r)) with
      | none => rw [hc] at h; simp at h
      | some lc => rw [hc] at h; simp at h; exact ⟨lc, h.symm⟩
    · simp at h; exact ⟨[], h.symm⟩
  | full cs =>
    simp only [provePath] at h
    cases hc : provePath (cs x) r with
    | none => rw [hc] at h; simp at h
    | some lc => rw [hc] at h; simp at h; exact ⟨lc, h.symm⟩

/-- Completeness: a database that returns every element of `Prove`'s output under its hash verifies the key to the
    content's answer. -/
theorem prove_verify_core (H : Bytes → Bytes) (hH : ∀ x, (H x).length = 32) {t : Node} (hw : WF t) (hs : SizeOk H t)
    {k : List Nib} (hk : Term k) {els : List Bytes} (hp : prove H t k = some els) (db : Bytes → Option Bytes)
    (hdb : ∀ e ∈ els, db (H e) = some e) (f : Nat) (hf : k.length + 1 < f) :
    verify db f (hashRoot H t) k = resOf (lookup t k) := by
  unfold prove at hp
  cases hl : provePath t k with
  | none => rw [hl] at hp; simp at hp
  | some l =>
    rw [hl] at hp
    simp only [Option.map_some, Option.some.injEq] at hp
    obtain ⟨l', rfl⟩ := provePath_wf_cons hw hk hl
    have hels : els = enc (body H t) :: proofElems H false l' := by rw [← hp]; simp [proofElems]
    have hpos : Pos t k := Or.inl ⟨hk, Or.inr hw⟩
    have hsf := wf_isSF hw
    show verify db f (hashOf H t) k = _
    by_cases he : (enc (body H t)).length < 32
    · obtain ⟨g, rfl⟩ : ∃ g, f = g + 1 := ⟨f - 1, by omega⟩
      rw [verify_step H hH db hw hs (hdb _ (by rw [hels]; exact List.mem_cons_self ..)), ← refP_sf_embedded H hsf he]
      apply contAt_refP H hH db t k _ hpos hs hl _ g (by omega)
      intro e hm
      rw [proofElems_cons_false, if_neg (by omega)] at hm
      exact hdb e (by rw [hels]; exact List.mem_cons_of_mem _ hm)
    · have := contAt_refP H hH db t k _ hpos hs hl (by
        intro e hm
        rw [proofElems_cons_false, if_pos (by omega)] at hm
        exact hdb e (by rw [hels]; exact hm)) f (by omega)
      rw [refP_sf_hashed H hsf he] at this
      simpa [contAt, pget] using this

theorem dbOf_self (H : Bytes → Bytes) (els : List Bytes) (cf : ∀ e ∈ els, ∀ e' ∈ els, H e = H e' → e = e')
    (e : Bytes) (he : e ∈ els) : dbOf H els (H e) = some e := by
  unfold dbOf
  cases hf : els.find? (fun x => H x == H e) with
  | none =>
    have := List.find?_eq_none.1 hf e he
    simp at this
  | some e' =>
    have h1 := List.mem_of_find?_eq_some hf
    have h2 := List.find?_some hf
    have : H e' = H e := by simpa using h2
    rw [cf e' h1 e he this]



/-- every node `Prove` collects is a short/full node of the trie. -/
theorem provePath_sub (n : Node) : ∀ k l, provePath n k = some l → ∀ m ∈ l, Sub m n ∧ IsSF m := by
  induction n with
  | nil =>
    intro k l h m hm
    cases k <;> simp [provePath] at h <;> subst h <;> cases hm
  | value w =>
    intro k l h m hm
    cases k with
    | nil => simp [provePath] at h; subst h; cases hm
    | cons x r => simp [provePath] at h
  | short p c ih =>
    intro k l h m hm
    cases k with
    | nil => simp [provePath] at h; subst h; cases hm
    | cons x r =>
      simp only [provePath] at h
      split at h
      · cases hc : provePath c (List.drop p.length (x :: r)) with
        | none => rw [hc] at h; simp at h
        | some lc =>
          rw [hc] at h
          simp only [Option.map_some, Option.some.injEq] at h
          subst h
          cases hm with
          | head => exact ⟨Sub.refl _, trivial⟩
          | tail _ hm =>
            have := ih _ lc hc m hm
            exact ⟨Sub.short p this.1, this.2⟩
      · simp only [Option.some.injEq] at h
        subst h
        simp only [List.mem_singleton] at hm
        subst hm
        exact ⟨Sub.refl _, trivial⟩
  | full cs ih =>
    intro k l h m hm
    cases k with
    | nil => simp [provePath] at h; subst h; cases hm
    | cons x r =>
      simp only [provePath] at h
      cases hc : provePath (cs x) r with
      | none => rw [hc] at h; simp at h
      | some lc =>
        rw [hc] at h
        simp only [Option.map_some, Option.some.injEq] at h
        subst h
        cases hm with
        | head => exact ⟨Sub.refl _, trivial⟩
        | tail _ hm =>
          have := ih x r lc hc m hm
          exact ⟨Sub.full x this.1, this.2⟩

theorem mem_proofElems (H : Bytes → Bytes) : ∀ (first : Bool) (l : List Node) (e : Bytes), e ∈ proofElems H first l →
    ∃ m ∈ l, e = enc (body H m)
  | _, [], e, h => by simp [proofElems] at h
  | first, n :: l, e, h => by
    simp only [proofElems] at h
    split at h
    · cases h with
      | head => exact ⟨n, List.mem_cons_self .., rfl⟩
      | tail _ h =>
        obtain ⟨m, hm, he⟩ := mem_proofElems H false l e h
        exact ⟨m, List.mem_cons_of_mem _ hm, he⟩
    · obtain ⟨m, hm, he⟩ := mem_proofElems H false l e h
      exact ⟨m, List.mem_cons_of_mem _ hm, he⟩

/-- a lookup that starts from nothing but the root hash and a node database holding every node of the committed trie
    (what a trie reopened from its committed root does) returns exactly the content. -/
theorem reopen_get_core (H : Bytes → Bytes) (hH : ∀ x, (H x).length = 32) {t : Node} (hw : WF t) (hs : SizeOk H t)
    (db : Bytes → Option Bytes) (hdb : ∀ m, Sub m t → IsSF m → db (hashOf H m) = some (enc (body H m)))
    {k : List Nib} (hk : Term k) (f : Nat) (hf : k.length + 1 < f) :
    verify db f (hashRoot H t) k = resOf (lookup t k) := by
  have hpos : Pos t k := Or.inl ⟨hk, Or.inr hw⟩
  cases hl : provePath t k with
  | none =>
    -- impossible on a canonical trie; derive from the soundness direction of the path function
    exfalso
    have : ∀ (n : Node) (k : List Nib), Pos n k → provePath n k ≠ none := by
      intro n
      induction n with
      | nil => intro k _; cases k <;> simp [provePath]
      | value w =>
        intro k hp
        rcases hp with ⟨_, h | h⟩ | ⟨rfl, _⟩
        · cases h
        · exact absurd h (not_wf_value w)
        · simp [provePath]
      | short p c ih =>
        intro k hp
        rcases hp with ⟨hk, h | hw⟩ | ⟨_, h | ⟨w, h⟩⟩
        · cases h
        · obtain ⟨x, r, rfl⟩ := List.exists_cons_of_ne_nil (term_ne_nil hk)
          simp only [provePath]
          split
          · next ht =>
            obtain ⟨r', hr'⟩ := take_eq_iff.1 ht
            have hpos : Pos c (List.drop p.length (x :: r)) := by
              rw [hr']; simp only [List.drop_left]; rw [hr'] at hk; exact pos_short_child hw hk
            have := ih _ hpos
            cases hc : provePath c (List.drop p.length (x :: r)) with
            | none => exact absurd hc this
            | some _ => simp
          · simp
        · cases h
        · cases h
      | full cs ih =>
        intro k hp
        rcases hp with ⟨hk, h | hw⟩ | ⟨_, h | ⟨w, h⟩⟩
        · cases h
        · obtain ⟨x, r, rfl⟩ := List.exists_cons_of_ne_nil (term_ne_nil hk)
          simp only [provePath]
          have := ih x r (pos_full_child hw hk)
          cases hc : provePath (cs x) r with
          | none => exact absurd hc this
          | some _ => simp
        · cases h
        · cases h
    exact this t k hpos hl
  | some l =>
    apply prove_verify_core H hH hw hs hk (els := proofElems H true l) (by simp [prove, hl]) db _ f hf
    intro e he
    obtain ⟨m, hm, rfl⟩ := mem_proofElems H true l e he
    obtain ⟨hsub, hsf⟩ := provePath_sub t k l hl m hm
    exact hdb m hsub hsf



theorem uniform_bound (P : Nib → Nat → Prop) (h : ∀ i, ∃ f₀, ∀ f, f₀ ≤ f → P i f) : ∃ F, ∀ i f, F ≤ f → P i f := by
  have : ∀ l : List Nib, ∃ F, ∀ i ∈ l, ∀ f, F ≤ f → P i f := by
    intro l
    induction l with
    | nil => exact ⟨0, fun i hi => by cases hi⟩
    | cons j l ih =>
      obtain ⟨F, hF⟩ := ih
      obtain ⟨fj, hj⟩ := h j
      refine ⟨max fj F, ?_⟩
      intro i hi f hf
      cases hi with
      | head => exact hj f (by omega)
      | tail _ hi => exact hF i hi f (by omega)
  obtain ⟨F, hF⟩ := this (List.finRange 17)
  exact ⟨F, fun i f hf => hF i (List.mem_finRange i) f hf⟩

/-- reloading through a node database that holds every node of the trie rebuilds exactly the trie. -/
theorem loadP_refP (H : Bytes → Bytes) (hH : ∀ x, (H x).length = 32) (db : Bytes → Option Bytes) (n : Node) :
    (n = .nil ∨ (∃ v, n = .value v) ∨ WF n) → SizeOk H n →
    (∀ m, Sub m n → IsSF m → db (hashOf H m) = some (enc (body H m))) →
    ∃ f₀, ∀ f, f₀ ≤ f → loadP db f (refP H n) = some n ∧ (IsSF n → loadP db f (toP H n) = some n) := by
  induction n with
  | nil =>
    intro _ _ _
    refine ⟨1, fun f hf => ?_⟩
    obtain ⟨g, rfl⟩ : ∃ g, f = g + 1 := ⟨f - 1, by omega⟩
    exact ⟨by simp [refP, loadP], fun h => by cases h⟩
  | value w =>
    intro _ _ _
    refine ⟨1, fun f hf => ?_⟩
    obtain ⟨g, rfl⟩ : ∃ g, f = g + 1 := ⟨f - 1, by omega⟩
    exact ⟨by simp [refP, loadP], fun h => by cases h⟩
  | short p c ih =>
    intro hn hs hdb
    have hw : WF (.short p c) := by
      rcases hn with h | ⟨v, h⟩ | h
      · cases h
      · cases h
      · exact h
    have hc : c = .nil ∨ (∃ v, c = .value v) ∨ WF c := by
      rcases wf_short_inv hw with ⟨_, v, _, rfl⟩ | ⟨_, _, cs, rfl, hwf⟩
      · exact Or.inr (Or.inl ⟨v, rfl⟩)
      · exact Or.inr (Or.inr hwf)
    obtain ⟨fc, hfc⟩ := ih hc (sizeOk_short hs) (fun m hm hsf => hdb m (Sub.short p hm) hsf)
    have hopen : ∀ f, fc + 1 ≤ f → loadP db f (.short p (refP H c)) = some (.short p c) := by
      intro f hf
      obtain ⟨g, rfl⟩ : ∃ g, f = g + 1 := ⟨f - 1, by omega⟩
      simp [loadP, (hfc g (by omega)).1]
    refine ⟨fc + 2, fun f hf => ⟨?_, fun _ => by simp only [toP]; exact hopen f (by omega)⟩⟩
    by_cases he : (enc (body H (.short p c))).length < 32
    · simp only [refP, he, if_true]; exact hopen f (by omega)
    · simp only [refP, he, if_false]
      obtain ⟨g, rfl⟩ : ∃ g, f = g + 1 := ⟨f - 1, by omega⟩
      have hdec := decodeNode_body H hH hw hs ((enc (body H (.short p c))).length + 1) [] (by omega)
      rw [List.append_nil] at hdec
      simp only [loadP, hdb _ (Sub.refl _) trivial, hdec, toP]
      exact hopen g (by omega)
  | full cs ih =>
    intro hn hs hdb
    have hw : WF (.full cs) := by
      rcases hn with h | ⟨v, h⟩ | h
      · cases h
      · cases h
      · exact h
    obtain ⟨c1, c2, _⟩ := wf_full_inv hw
    have hci : ∀ i, cs i = .nil ∨ (∃ v, cs i = .value v) ∨ WF (cs i) := by
      intro i
      by_cases hiT : i = T
      · subst hiT
        rcases c2 with e | ⟨v, _, e⟩
        · exact Or.inl e
        · exact Or.inr (Or.inl ⟨v, e⟩)
      · by_cases hn' : cs i = .nil
        · exact Or.inl hn'
        · exact Or.inr (Or.inr (c1 i hiT hn'))
    obtain ⟨F, hF⟩ := uniform_bound (fun i f => loadP db f (refP H (cs i)) = some (cs i)) (by
      intro i
      obtain ⟨fi, hfi⟩ := ih i (hci i) (sizeOk_full hs i) (fun m hm hsf => hdb m (Sub.full i hm) hsf)
      exact ⟨fi, fun f hf => (hfi f hf).1⟩)
    have hopen : ∀ f, F + 1 ≤ f → loadP db f (.full fun i => refP H (cs i)) = some (.full cs) := by
      intro f hf
      obtain ⟨g, rfl⟩ : ∃ g, f = g + 1 := ⟨f - 1, by omega⟩
      have hall : ∀ i, loadP db g (refP H (cs i)) = some (cs i) := fun i => hF i g (by omega)
      simp only [loadP, hall, Option.isSome_some, List.all_eq_true, implies_true, if_true, Option.getD_some]
    refine ⟨F + 2, fun f hf => ⟨?_, fun _ => by simp only [toP]; exact hopen f (by omega)⟩⟩
    by_cases he : (enc (body H (.full cs))).length < 32
    · simp only [refP, he, if_true]; exact hopen f (by omega)
    · simp only [refP, he, if_false]
      obtain ⟨g, rfl⟩ : ∃ g, f = g + 1 := ⟨f - 1, by omega⟩
      have hdec := decodeNode_body H hH hw hs ((enc (body H (.full cs))).length + 1) [] (by omega)
      rw [List.append_nil] at hdec
      simp only [loadP, hdb _ (Sub.refl _) trivial, hdec, toP]
      exact hopen g (by omega)



/-! ### binding: equal roots force equal tries (under collision-freedom on the nodes involved) -/

/-- `H` does not collide between a node of `a` and a node of `b` (unless they encode identically). -/
def CFp (H : Bytes → Bytes) (a b : Node) : Prop :=
  ∀ m₁ m₂, Sub m₁ a → Sub m₂ b → WF m₁ → WF m₂ → hashOf H m₁ = hashOf H m₂ → enc (body H m₁) = enc (body H m₂)

def Slot (n : Node) : Prop := n = .nil ∨ (∃ v, n = .value v) ∨ WF n

theorem slot_short_child {p : List Nib} {c : Node} (hw : WF (.short p c)) : Slot c := by
  rcases wf_short_inv hw with ⟨_, v, _, rfl⟩ | ⟨_, _, cs, rfl, hwf⟩
  · exact Or.inr (Or.inl ⟨v, rfl⟩)
  · exact Or.inr (Or.inr hwf)

theorem slot_full_child {cs : Nib → Node} (hw : WF (.full cs)) (i : Nib) : Slot (cs i) := by
  obtain ⟨c1, c2, _⟩ := wf_full_inv hw
  by_cases hiT : i = T
  · subst hiT
    rcases c2 with e | ⟨v, _, e⟩
    · exact Or.inl e
    · exact Or.inr (Or.inl ⟨v, e⟩)
  · by_cases hn : cs i = .nil
    · exact Or.inl hn
    · exact Or.inr (Or.inr (c1 i hiT hn))

theorem toP_eq_of_enc_eq (H : Bytes → Bytes) (hH : ∀ x, (H x).length = 32) {a b : Node} (ha : WF a) (hb : WF b)
    (sa : SizeOk H a) (sb : SizeOk H b) (h : enc (body H a) = enc (body H b)) : toP H a = toP H b := by
  obtain ⟨f, hf⟩ : ∃ f, (enc (body H a)).length < f := ⟨_, Nat.lt_succ_self _⟩
  have h1 := decodeNode_body H hH ha sa f [] hf
  have h2 := decodeNode_body H hH hb sb f [] (by rw [← h]; exact hf)
  rw [h, h2] at h1
  simpa using h1.symm

theorem refP_inj (H : Bytes → Bytes) (hH : ∀ x, (H x).length = 32) (a : Node) :
    Slot a → SizeOk H a → ∀ b, Slot b → SizeOk H b → CFp H a b →
      (refP H a = refP H b → a = b) ∧ (WF a → WF b → toP H a = toP H b → a = b) := by
  induction a with
  | nil =>
    intro _ _ b hb _ _
    refine ⟨fun h => ?_, fun hw => absurd hw not_wf_nil⟩
    rcases hb with rfl | ⟨v, rfl⟩ | hw
    · rfl
    · simp [refP] at h
    · cases b with
      | nil => rfl
      | value _ => simp [refP] at h
      | short p c => simp only [refP] at h; split at h <;> cases h
      | full cs => simp only [refP] at h; split at h <;> cases h
  | value v =>
    intro _ _ b hb _ _
    refine ⟨fun h => ?_, fun hw => absurd hw (not_wf_value v)⟩
    cases b with
    | nil => simp [refP] at h
    | value w => simp [refP] at h; rw [h]
    | short p c => simp only [refP] at h; split at h <;> cases h
    | full cs => simp only [refP] at h; split at h <;> cases h
  | short p c ih =>
    intro ha sa b hb sb cf
    have hwa : WF (.short p c) := by
      rcases ha with h | ⟨v, h⟩ | h
      · cases h
      · cases h
      · exact h
    have htop : WF (.short p c) → WF b → toP H (.short p c) = toP H b → Node.short p c = b := by
      intro _ hwb h
      cases b with
      | nil => exact absurd hwb not_wf_nil
      | value w => exact absurd hwb (not_wf_value w)
      | full cs => simp [toP] at h
      | short p' c' =>
        simp only [toP, PNode.short.injEq] at h
        obtain ⟨rfl, hr⟩ := h
        have := (ih (slot_short_child hwa) (sizeOk_short sa) c' (slot_short_child hwb) (sizeOk_short sb)
          (fun m₁ m₂ h₁ h₂ => cf m₁ m₂ (Sub.short p h₁) (Sub.short p h₂))).1 hr
        rw [this]
    refine ⟨fun h => ?_, htop⟩
    rcases hb with rfl | ⟨w, rfl⟩ | hwb
    · simp only [refP] at h; split at h <;> cases h
    · simp only [refP] at h; split at h <;> cases h
    · have hsfb := wf_isSF hwb
      by_cases ea : (enc (body H (.short p c))).length < 32
      · rw [refP_sf_embedded H (wf_isSF hwa) ea] at h
        by_cases eb : (enc (body H b)).length < 32
        · rw [refP_sf_embedded H hsfb eb] at h
          exact htop hwa hwb h
        · rw [refP_sf_hashed H hsfb eb] at h
          simp [toP] at h
      · rw [refP_sf_hashed H (wf_isSF hwa) ea] at h
        by_cases eb : (enc (body H b)).length < 32
        · rw [refP_sf_embedded H hsfb eb] at h
          cases b <;> simp [toP] at h
        · rw [refP_sf_hashed H hsfb eb] at h
          simp only [PNode.hash.injEq] at h
          have := cf _ _ (Sub.refl _) (Sub.refl _) hwa hwb h
          exact htop hwa hwb (toP_eq_of_enc_eq H hH hwa hwb sa sb this)
  | full cs ih =>
    intro ha sa b hb sb cf
    have hwa : WF (.full cs) := by
      rcases ha with h | ⟨v, h⟩ | h
      · cases h
      · cases h
      · exact h
    have htop : WF (.full cs) → WF b → toP H (.full cs) = toP H b → Node.full cs = b := by
      intro _ hwb h
      cases b with
      | nil => exact absurd hwb not_wf_nil
      | value w => exact absurd hwb (not_wf_value w)
      | short p' c' => simp [toP] at h
      | full cs' =>
        simp only [toP, PNode.full.injEq] at h
        congr 1
        funext i
        have hr : refP H (cs i) = refP H (cs' i) := congrFun h i
        exact (ih i (slot_full_child hwa i) (sizeOk_full sa i) (cs' i) (slot_full_child hwb i) (sizeOk_full sb i)
          (fun m₁ m₂ h₁ h₂ => cf m₁ m₂ (Sub.full i h₁) (Sub.full i h₂))).1 hr
    refine ⟨fun h => ?_, htop⟩
    rcases hb with rfl | ⟨w, rfl⟩ | hwb
    · simp only [refP] at h; split at h <;> cases h
    · simp only [refP] at h; split at h <;> cases h
    · have hsfb := wf_isSF hwb
      by_cases ea : (enc (body H (.full cs))).length < 32
      · rw [refP_sf_embedded H (wf_isSF hwa) ea] at h
        by_cases eb : (enc (body H b)).length < 32
        · rw [refP_sf_embedded H hsfb eb] at h
          exact htop hwa hwb h
        · rw [refP_sf_hashed H hsfb eb] at h
          simp [toP] at h
      · rw [refP_sf_hashed H (wf_isSF hwa) ea] at h
        by_cases eb : (enc (body H b)).length < 32
        · rw [refP_sf_embedded H hsfb eb] at h
          cases b <;> simp [toP] at h
        · rw [refP_sf_hashed H hsfb eb] at h
          simp only [PNode.hash.injEq] at h
          have := cf _ _ (Sub.refl _) (Sub.refl _) hwa hwb h
          exact htop hwa hwb (toP_eq_of_enc_eq H hH hwa hwb sa sb this)

theorem root_binding_core (H : Bytes → Bytes) (hH : ∀ x, (H x).length = 32) {t₁ t₂ : Node} (h₁ : WF t₁) (h₂ : WF t₂)
    (s₁ : SizeOk H t₁) (s₂ : SizeOk H t₂) (cf : CFp H t₁ t₂) (h : hashRoot H t₁ = hashRoot H t₂) : t₁ = t₂ := by
  have he := cf t₁ t₂ (Sub.refl _) (Sub.refl _) h₁ h₂ h
  exact (refP_inj H hH t₁ (Or.inr (Or.inr h₁)) s₁ t₂ (Or.inr (Or.inr h₂)) s₂ cf).2 h₁ h₂
    (toP_eq_of_enc_eq H hH h₁ h₂ s₁ s₂ he)


end Aqv.Trie

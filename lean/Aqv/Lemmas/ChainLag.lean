/-
  Aqv.Lemmas.ChainLag — the invariant `GInv` (`ChainK`: the block head may lag behind the header head) is kept by EVERY
  operation of a chain fed by full imports: `InsertChain` (`ChainImport`), `Stop` + reopen, and `SetHead(n)` for any `n`,
  also onto a block whose state is gone.  Since fix 3f14ce8 the imports that follow such a rewind keep index and lookups
  consistent, so no premise on rewinds is needed.  `SpecLag` (the statement read with the header head as "the head")
  follows from `GInv`.
-/
import Aqv.Lemmas.ChainHist
namespace Aqv.Chain

variable {U : Map Blk}

/-! ### Stop + reopen -/

theorem ginv_reopen (W : World U) {s : St} (h : GInv U s) : GInv U (reopen s) := by
  obtain ⟨hh, HC, hG⟩ := h
  have hK := hG.k
  have hI := hK.il.idx
  obtain ⟨cb, hcbm, hcbid, hcbs⟩ := hG.headStored W
  unfold reopen
  split
  · exact ⟨hh, HC, hG⟩
  · rw [hcbs]
    simp only
    refine ⟨hh, HC, ginvC_frame hG (fun _ _ hx => hx) hI.sub rfl (fun _ => rfl) (fun _ => rfl) rfl rfl rfl
      (fun _ hk => hk) hK.seenClosed ?_ (fun _ hk => hk) hK.seenRcpt hK.tdIntr hK.storeTd ?_ ?_⟩
    · -- every state that survives was available before
      intro k hk
      apply hK.stateSeen
      simp only at hk
      have hd0 : ∀ k, (if (decide (cb.number > 0) && s.hasState cb.id) = true then updB s.onDisk cb.id true else s.onDisk) k = true →
          s.hasState k = true := by
        intro k hk
        split at hk
        · rename_i hc
          simp only [Bool.and_eq_true] at hc
          by_cases hkb : k = cb.id
          · subst hkb; exact hc.2
          · rw [updB_other _ _ _ _ hkb] at hk; exact hK.diskState k hk
        · exact hK.diskState k hk
      split at hk
      · split at hk
        · rename_i i hi
          split at hk
          · rename_i hsi
            by_cases hki : k = i
            · subst hki; exact hsi
            · rw [updB_other _ _ _ _ hki] at hk; exact hd0 k hk
          · exact hd0 k hk
        · exact hd0 k hk
      · exact hd0 k hk
    · -- genesis stays on disk
      simp only
      have hd0 : (if (decide (cb.number > 0) && s.hasState cb.id) = true then updB s.onDisk cb.id true else s.onDisk)
          s.genesis.id = true := by
        split
        · exact updB_true_of _ _ _ hK.genState
        · exact hK.genState
      split
      · split
        · split
          · exact updB_true_of _ _ _ hd0
          · exact hd0
        · exact hd0
      · exact hd0
    · -- the block head keeps its state
      simp only
      have hhs := hG.headState
      have hd0 : (if (decide (cb.number > 0) && s.hasState cb.id) = true then updB s.onDisk cb.id true else s.onDisk)
          s.head = true := by
        by_cases h0 : cb.number > 0
        · rw [if_pos (by simp [h0, ← hcbid, hhs]), hcbid]; simp
        · -- the block head is the genesis block
          have hcg : cb = s.genesis :=
            hI.chainNumInj cb hcbm s.genesis (by simp) (by rw [hI.genNum]; omega)
          have : (decide (cb.number > 0) && s.hasState cb.id) = false := by simp [h0]
          rw [this, hcbid, hcg]
          simpa using hK.genState
      split
      · split
        · split
          · exact updB_true_of _ _ _ hd0
          · exact hd0
        · exact hd0
      · exact hd0

/-! ### SetHead, onto any height -/

theorem ginv_setHead (W : World U) {s : St} (h : GInv U s) (n : Nat) : GInv U (setHead s n).st := by
  obtain ⟨hh, HC, hG⟩ := h
  have hK := hG.k
  have hI := hK.il.idx
  have hids := hI.storeIds W
  have hhs : s.store s.hhead = some hh := by rw [hK.il.hhead]; exact hI.headStored
  obtain ⟨cb, hcbm, hcbid, hcbs⟩ := hG.headStored W
  obtain ⟨fb, hfbm, hfid⟩ := hG.fheadOn
  have hfbs : s.store s.fhead = some fb := by rw [hfid]; exact hI.chainStored W fb hfbm
  have hcbst : s.hasState cb.id = true := by rw [← hcbid]; exact hG.headState
  have hgst : s.hasState s.genesis.id = true := hK.diskState _ hK.genState
  unfold setHead
  rw [hhs, hcbs, hfbs]
  simp only
  by_cases hn : hh.number ≤ n
  · -- nothing to unwind
    have hun : unwind (hh.number + 1) s (some hh) n = (s, some hh) := by
      rw [unwind, if_neg (by omega)]
    rw [hun]
    simp only [Option.getD_some]
    have hcbn := hI.chainNumber cb hcbm
    have hfbn := hI.chainNumber fb hfbm
    have hpick : pickHead s.store s.hasState s.genesis hh cb = cb := by
      unfold pickHead
      rw [if_neg (by omega)]
      simp only [hcbst, if_true, Option.getD_some]
    have hpf : pickFast s.store s.genesis hh fb = fb := by
      unfold pickFast
      rw [if_neg (by omega)]
      rfl
    rw [hpick, hpf]
    have hcbs' : s.store cb.id = some cb := by rw [← hcbid]; exact hcbs
    simp only [hcbs']
    refine ⟨hh, HC, ginvC_frame hG (fun _ _ hx => hx) hI.sub rfl ?_ (fun _ => rfl) hcbid.symm hK.il.hhead.symm hfid.symm
      (fun _ hk => hk) hK.seenClosed hK.stateSeen hK.diskState hK.seenRcpt hK.tdIntr hK.storeTd hK.genState
      hG.headState⟩
    intro k
    simp only
    rw [delCanonRange_apply, if_neg (by omega)]
  · -- unwind the blocks above height n
    have hn' : n < hh.number := by omega
    obtain ⟨O, R, c, hsplit, hO, hR, hcn⟩ := hI.path.split n (by rw [hI.genNum]; omega) (by omega)
    have hOlen : O.length < hh.number + 1 := by have := hO.number; omega
    obtain ⟨s', hun, hrm, hkeep, hlrm, hlkeep, hcan, hhd, hhh, hfh, hgen, hrc, hhas, hdisk, hseen, harch⟩ :=
      unwind_spec O s hh c (hh.number + 1) n hids hI.headStored hO hcn hOlen
    rw [hun]
    simp only [Option.getD_some]
    have hcmem : c ∈ HC ++ [s.genesis] := by
      rw [hsplit]
      rcases hR.head_eq with ⟨h1, h2⟩ | ⟨l', h1⟩
      · rw [h2]; simp
      · rw [h1]; simp
    have hcstored := hI.chainStored W c hcmem
    have hOnum := hO.mem_number
    have hcnotO : ¬ ∃ y ∈ O, y.id = c.id := by
      rintro ⟨y, hy, hyc⟩
      have hys := hI.chainStored W y (by rw [hsplit]; simp [hy])
      rw [hyc, hcstored] at hys
      cases hys
      have := (hOnum c hy).1
      omega
    have hc' : s'.store c.id = some c := by rw [(hkeep _ hcnotO).1]; exact hcstored
    -- blocks of the remaining chain are not removed
    have hRmem : ∀ x ∈ R ++ [s.genesis], x ∈ HC ++ [s.genesis] := by
      intro x hx
      rw [hsplit]
      simp only [List.append_assoc]
      exact List.mem_append_right _ hx
    have hRnum : ∀ x ∈ R ++ [s.genesis], x.number ≤ n := by
      intro x hx
      rcases List.mem_append.mp hx with hx | hx
      · have := (hR.mem_number x hx).2; omega
      · simp at hx; subst hx; rw [hI.genNum]; omega
    have hRnot : ∀ x ∈ R ++ [s.genesis], ¬ ∃ y ∈ O, y.id = x.id := by
      intro x hx
      rintro ⟨y, hy, hyx⟩
      have hys := hI.chainStored W y (by rw [hsplit]; simp [hy])
      rw [hyx, hI.chainStored W x (hRmem x hx)] at hys
      cases hys
      have := (hOnum x hy).1
      have := hRnum x hx
      omega
    -- a block of the old chain at or below height n is a block of the remaining chain
    have hlow : ∀ x ∈ HC ++ [s.genesis], x.number ≤ n → x ∈ R ++ [s.genesis] := by
      intro x hx hxn
      rw [hsplit] at hx
      simp only [List.append_assoc] at hx
      rcases List.mem_append.mp hx with hx | hx
      · have := (hOnum x hx).1; omega
      · exact hx
    have hRstored : ∀ x ∈ R ++ [s.genesis], s'.store x.id = some x := by
      intro x hx
      rw [(hkeep _ (hRnot x hx)).1]
      exact hI.chainStored W x (hRmem x hx)
    -- the database after the header rewind, read against the remaining chain
    have hK2 : InvK U { s' with canon := delCanonRange s'.canon n hh.number, hhead := c.id } c R := by
      refine
        { il := { idx := { sub := ?_, headStored := hc', path := ?_, canon := ?_, genNum := by simp only [hgen]; exact hI.genNum }
                  hhead := rfl, lookup := ?_, genTxs := by simp only [hgen]; exact hK.il.genTxs }
          canonSeen := ?_, seenClosed := ?_, stateSeen := ?_, diskState := ?_, seenRcpt := ?_, tdIntr := ?_,
          storeTd := ?_
          genState := by simp only [hgen, hdisk]; exact hK.genState }
      · intro k x hx
        simp only at hx
        by_cases hk : ∃ y ∈ O, y.id = k
        · rw [(hrm k hk).1] at hx; cases hx
        · rw [(hkeep k hk).1] at hx; exact hI.sub k x hx
      · simp only [hgen]
        apply hR.congr
        intro z hz
        obtain ⟨q, hq⟩ := hR.parent_of_mem z hz
        obtain ⟨hq1, hq2⟩ := parentOf_some hq
        have hqid := hids _ _ hq1
        apply (hkeep _ _).1
        rintro ⟨y, hy, hyq⟩
        have hys := hI.chainStored W y (by rw [hsplit]; simp [hy])
        rw [hyq, hq1] at hys
        cases hys
        have := (hOnum q hy).1
        have := (hR.mem_number z hz).2
        omega
      · intro k i
        simp only [hgen, hcan]
        rw [delCanonRange_apply]
        constructor
        · intro hk
          split at hk
          · cases hk
          · rename_i hcond
            obtain ⟨x, hx, hxn, hxi⟩ := (hI.canon k i).mp hk
            have hle := hI.chainNumber x hx
            exact ⟨x, hlow x hx (by omega), hxn, hxi⟩
        · rintro ⟨x, hx, hxn, hxi⟩
          have := hRnum x hx
          rw [if_neg (by omega)]
          exact (hI.canon k i).mpr ⟨x, hRmem x hx, hxn, hxi⟩
      · intro t l
        simp only [hgen]
        constructor
        · intro hl
          by_cases hdrop : ∃ y ∈ O, t ∈ y.txs ∧ ∃ l', s.lookup t = some l' ∧ l'.blk = y.id
          · rw [hlrm t hdrop] at hl; cases hl
          · rw [hlkeep t hdrop] at hl
            obtain ⟨x, hx, hxi, hxn, hxt⟩ := (hK.il.lookup t l).mp hl
            rw [hsplit] at hx
            simp only [List.append_assoc] at hx
            rcases List.mem_append.mp hx with hx | hx
            · exact absurd ⟨x, hx, mem_txs_of_getElem? hxt, l, hl, hxi.symm⟩ hdrop
            · exact ⟨x, hx, hxi, hxn, hxt⟩
        · rintro ⟨x, hx, hxi, hxn, hxt⟩
          have hl := (hK.il.lookup t l).mpr ⟨x, hRmem x hx, hxi, hxn, hxt⟩
          have hdrop : ¬ ∃ y ∈ O, t ∈ y.txs ∧ ∃ l', s.lookup t = some l' ∧ l'.blk = y.id := by
            rintro ⟨y, hy, _, l', hl', hlb⟩
            rw [hl] at hl'
            cases hl'
            exact hRnot x hx ⟨y, hy, by rw [← hlb, hxi]⟩
          rw [hlkeep t hdrop]; exact hl
      · intro x hx
        simp only [hgen] at hx
        simp only [hseen]
        exact hK.canonSeen x (hRmem x hx)
      · intro k x hk hxU hx0
        simp only [hseen] at hk ⊢
        exact hK.seenClosed k x hk hxU hx0
      · intro k hk
        simp only [hseen, hhas] at hk ⊢
        exact hK.stateSeen k hk
      · intro k hk
        simp only [hdisk, hhas] at hk ⊢
        exact hK.diskState k hk
      · intro k hk
        simp only [hseen, hrc] at hk ⊢
        exact hK.seenRcpt k hk
      · intro k t hk
        simp only [hgen] at hk ⊢
        by_cases hko : ∃ y ∈ O, y.id = k
        · rw [(hrm k hko).2] at hk; cases hk
        · rw [(hkeep k hko).2] at hk; exact hK.tdIntr k t hk
      · intro k x hx
        simp only at hx ⊢
        by_cases hko : ∃ y ∈ O, y.id = k
        · rw [(hrm k hko).1] at hx; cases hx
        · rw [(hkeep k hko).1] at hx
          rw [(hkeep k hko).2]
          exact hK.storeTd k x hx
    -- the block head: the rewind target if it has state, else genesis; or the old block head if it is not above
    have hgm : s.genesis ∈ R ++ [s.genesis] := by simp
    have hcR : c ∈ R ++ [s.genesis] := hlow c hcmem (by omega)
    have hnb : pickHead s'.store s'.hasState s.genesis c cb ∈ R ++ [s.genesis] ∧
        s'.hasState (pickHead s'.store s'.hasState s.genesis c cb).id = true := by
      unfold pickHead
      rw [hhas]
      by_cases hA : c.number < cb.number
      · rw [if_pos hA, hc']
        simp only
        by_cases hB : s.hasState c.id = true
        · rw [if_pos hB]; exact ⟨hcR, hB⟩
        · rw [if_neg hB]; exact ⟨hgm, hgst⟩
      · rw [if_neg hA]
        simp only [hcbst, if_true, Option.getD_some]
        exact ⟨hlow cb hcbm (by omega), trivial⟩
    have hnf : pickFast s'.store s.genesis c fb ∈ R ++ [s.genesis] := by
      unfold pickFast
      by_cases hC : c.number < fb.number
      · rw [if_pos hC, hc']; exact hcR
      · rw [if_neg hC]; exact hlow fb hfbm (by omega)
    generalize pickHead s'.store s'.hasState s.genesis c cb = nb at hnb
    generalize pickFast s'.store s.genesis c fb = nf at hnf
    have hnbs : s'.store nb.id = some nb := hRstored nb hnb.1
    simp only [hnbs]
    exact ⟨c, R,
      { k :=
          { il := ⟨hK2.il.idx, hK2.il.hhead, hK2.il.lookup, hK2.il.genTxs⟩
            canonSeen := hK2.canonSeen, seenClosed := hK2.seenClosed, stateSeen := hK2.stateSeen,
            diskState := hK2.diskState, seenRcpt := hK2.seenRcpt, tdIntr := hK2.tdIntr, storeTd := hK2.storeTd,
            genState := hK2.genState }
        headOn := ⟨nb, by simp only [hgen]; exact hnb.1, rfl⟩
        fheadOn := ⟨nf, by simp only [hgen]; exact hnf, rfl⟩
        headState := hnb.2 }⟩

/-! ### every history -/

/-- what an operation needs when rewinds may land anywhere: imported blocks are blocks of the universe -/
def OpOkG (U : Map Blk) : Op → Prop
  | .insert chain _ => ∀ b ∈ chain, U b.id = some b
  | .setHead _ => True
  | .reopen => True

/-- admissible histories: blocks of the universe, and `reorg` never returned "invalid new chain" (possible only after a
    rewind orphaned side-chain blocks; see `imports_admissible`) -/
def AdmissibleG (U : Map Blk) (s : St) : List Op → Prop
  | [] => True
  | op :: ops => OpOkG U op ∧ (step s op).err ≠ some .reorgFail ∧ AdmissibleG U (step s op).st ops

instance (U : Map Blk) : (op : Op) → Decidable (OpOkG U op)
  | .insert chain _ => inferInstanceAs (Decidable (∀ b ∈ chain, U b.id = some b))
  | .setHead _ => isTrue trivial
  | .reopen => isTrue trivial

instance decAdmissibleG (U : Map Blk) : ∀ (ops : List Op) (s : St), Decidable (AdmissibleG U s ops)
  | [], _ => isTrue trivial
  | op :: ops, s =>
    have := decAdmissibleG U ops (step s op).st
    inferInstanceAs (Decidable (OpOkG U op ∧ (step s op).err ≠ some .reorgFail ∧ AdmissibleG U (step s op).st ops))

theorem ginv_step (W : World U) {s : St} (h : GInv U s) (op : Op) (hop : OpOkG U op)
    (hok : (step s op).err ≠ some .reorgFail) : GInv U (step s op).st := by
  cases op with
  | insert chain coins => exact ginv_importChain W h chain hop coins hok
  | setHead n => exact ginv_setHead W h n
  | reopen => exact ginv_reopen W h

/-- the invariant holds after every admissible history, rewinds onto blocks without state included -/
theorem ginv_run (W : World U) : ∀ (ops : List Op) {s : St}, GInv U s → AdmissibleG U s ops → GInv U (run s ops) := by
  intro ops
  induction ops with
  | nil => intro s h _; exact h
  | cons op ops ih =>
    intro s h hadm
    exact ih (ginv_step W h op hadm.1 hadm.2.1) hadm.2.2

/-- an admissible history in the sense of `Admissible` (rewinds onto blocks with state) is admissible -/
theorem admissibleG_of_admissible : ∀ (ops : List Op) (s : St), Admissible U s ops → AdmissibleG U s ops := by
  intro ops
  induction ops with
  | nil => intro s _; trivial
  | cons op ops ih =>
    intro s h
    refine ⟨?_, h.2.1, ih _ h.2.2⟩
    cases op with
    | insert chain coins => exact h.1
    | setHead n => trivial
    | reopen => trivial

/-! ### the statement, read with the header head as the head -/

theorem spec_of_ginv (W : World U) {s : St} (h : GInv U s) : SpecLag s := by
  obtain ⟨hh, HC, hG⟩ := h
  have hK := hG.k
  have hI := hK.il.idx
  have hhs : s.store s.hhead = some hh := by rw [hK.il.hhead]; exact hI.headStored
  obtain ⟨cb, hcbm, hcbid, hcbs⟩ := hG.headStored W
  obtain ⟨fb, hfbm, hfid⟩ := hG.fheadOn
  refine ⟨⟨hh, hhs⟩, ?_, ?_, ?_, ?_⟩
  · intro hb' hhb' n hn
    rw [hhs] at hhb'; cases hhb'
    have hlen := hI.path.number
    rw [hI.genNum] at hlen
    obtain ⟨z, hz, hzn⟩ := path_index hI.path (hh.number - n) (by omega)
    have hzmem : z ∈ HC ++ [s.genesis] := List.mem_of_getElem? hz
    refine ⟨z, ?_, by omega, ?_, ?_, ?_⟩
    · rw [hK.il.hhead]; exact up_path (hI.storeIds W) hI.path hI.headStored _ _ hz
    · exact (hI.canon _ _).mpr ⟨z, hzmem, by omega, rfl⟩
    · exact hK.seenRcpt _ (hK.canonSeen z hzmem)
    · exact hK.storeTd _ _ (hI.chainStored W z hzmem)
  · intro hb' hhb' n hn
    rw [hhs] at hhb'; cases hhb'
    exact hI.canonAbove n hn
  · intro t l
    rw [hK.il.lookup]
    constructor
    · rintro ⟨x, hx, hxi, hxn, hxt⟩
      exact ⟨(hI.canon _ _).mpr ⟨x, hx, hxn, hxi⟩, x, by rw [← hxi]; exact hI.chainStored W x hx, hxt⟩
    · rintro ⟨hc, x, hxs, hxt⟩
      obtain ⟨y, hy, hyn, hyi⟩ := (hI.canon _ _).mp hc
      have := hI.chainStored W y hy
      rw [hyi, hxs] at this
      cases this
      exact ⟨x, hy, hyi, hyn, hxt⟩
  · refine ⟨cb, fb, hcbs, ?_, hG.headState, ?_, ?_⟩
    · rw [hcbid]; exact (hI.canon _ _).mpr ⟨cb, hcbm, rfl, rfl⟩
    · rw [hfid]; exact hI.chainStored W fb hfbm
    · rw [hfid]; exact (hI.canon _ _).mpr ⟨fb, hfbm, rfl, rfl⟩

/-- with the three heads equal the two readings of the statement coincide -/
theorem specInv_of_specLag {s : St} (h : SpecLag s) (h1 : s.hhead = s.head) (h2 : s.fhead = s.head) : SpecInv s := by
  obtain ⟨cb, fb, hcb, _, _, _, _⟩ := h.heads
  refine ⟨⟨cb, hcb, h1, h2⟩, ?_, ?_, h.lookup⟩
  · intro hb hhb n hn
    have := h.below hb (by rw [h1]; exact hhb) n hn
    rw [h1] at this
    exact this
  · intro hb hhb n hn
    exact h.above hb (by rw [h1]; exact hhb) n hn

end Aqv.Chain

/-
  Aqv.Lemmas.LogFilterIndexer — `processSection` (core/chain_indexer.go): a committed section is the transposition of a
  parent-linked run of headers; a parent-linked run that ends in the canonical section head IS the canonical run (C16).
-/
import Aqv.Lemmas.LogFilterGen
namespace Aqv.LogFilter

/-- `hs` is a parent-linked run starting after the header with hash `lastHead`. -/
def Linked : Nat → List Hdr → Prop
  | _, [] => True
  | lastHead, h :: rest => h.parent = lastHead ∧ Linked h.hash rest

/-- hash of the last header of a run (the section head), `lastHead` for the empty run. -/
def runHead : Nat → List Hdr → Nat
  | lastHead, [] => lastHead
  | _, h :: rest => runHead h.hash rest

theorem walkSection_ok (lastHead : Nat) (walk : List Hdr) (newHead : Nat) (h : walkSection lastHead walk = .ok newHead) :
    Linked lastHead walk ∧ newHead = runHead lastHead walk := by
  induction walk generalizing lastHead with
  | nil => simp [walkSection] at h; exact ⟨trivial, h.symm⟩
  | cons x xs ih =>
    unfold walkSection at h
    by_cases hp : x.parent = lastHead
    · simp only [hp, bne_self_eq_false, Bool.false_eq_true, if_false] at h
      obtain ⟨l, e⟩ := ih x.hash h
      exact ⟨⟨hp, l⟩, e⟩
    · have : (x.parent != lastHead) = true := by simpa using hp
      simp [this] at h

theorem walkSection_of_linked (lastHead : Nat) (walk : List Hdr) (h : Linked lastHead walk) :
    walkSection lastHead walk = .ok (runHead lastHead walk) := by
  induction walk generalizing lastHead with
  | nil => rfl
  | cons x xs ih =>
    obtain ⟨hp, hl⟩ := h
    unfold walkSection
    simp only [hp, bne_self_eq_false, Bool.false_eq_true, if_false]
    exact ih x.hash hl

/-- two parent-linked runs of the same length that end in the same head are the same run, when equal hashes mean equal headers
    (collision-freedom of the header hash over the headers involved). -/
theorem linked_unique (a b : List Hdr) (la lb : Nat) (hlen : a.length = b.length) (ha : Linked la a) (hb : Linked lb b)
    (hne : a ≠ []) (hhead : runHead la a = runHead lb b)
    (hinj : ∀ x ∈ a, ∀ y ∈ b, x.hash = y.hash → x = y) : a = b := by
  induction a generalizing b la lb with
  | nil => exact absurd rfl hne
  | cons x xs ih =>
    cases b with
    | nil => simp at hlen
    | cons y ys =>
      simp only [List.length_cons, Nat.add_right_cancel_iff] at hlen
      obtain ⟨hxp, hxl⟩ := ha
      obtain ⟨hyp, hyl⟩ := hb
      by_cases hxs : xs = []
      · subst hxs
        have hys : ys = [] := List.eq_nil_of_length_eq_zero hlen.symm
        subst hys
        simp only [runHead] at hhead
        rw [hinj x (by simp) y (by simp) hhead]
      · have htail := ih ys x.hash y.hash hlen hxl hyl hxs (by simpa [runHead] using hhead)
          (fun p hp q hq => hinj p (by simp [hp]) q (by simp [hq]))
        subst htail
        -- the first headers: the second header of both runs is the same, so their parents (= hashes of the first) agree
        cases xs with
        | nil => exact absurd rfl hxs
        | cons z zs =>
          have h1 : z.parent = x.hash := hxl.1
          have h2 : z.parent = y.hash := hyl.1
          have := hinj x (by simp) y (by simp) (h1.symm.trans h2)
          rw [this]

end Aqv.LogFilter

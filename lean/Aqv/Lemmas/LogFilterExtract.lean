/-
  Aqv.Lemmas.LogFilterExtract — the result-extraction loop of `Matcher.Start` (with its `i += 7` skip) enumerates exactly
  the set bits of the section vector inside `[first, last]`; sections concatenate to the whole range (C16).
-/
import Aqv.Lemmas.LogFilterSection
namespace Aqv.LogFilter

theorem filter_range'_false (p : Nat → Bool) (a m : Nat) (h : ∀ j, a ≤ j → j < a + m → p j = false) :
    (List.range' a m).filter p = [] := by
  rw [List.filter_eq_nil_iff]
  intro j hj
  rw [List.mem_range'_1] at hj
  rw [h j hj.1 hj.2]
  simp

/-- dropping a prefix of the range on which the predicate is false. -/
theorem filter_range'_skip (p : Nat → Bool) (a n k : Nat) (h : ∀ j, a ≤ j → j < a + k → p j = false) :
    (List.range' a n).filter p = (List.range' (a + k) (n - k)).filter p := by
  by_cases hk : k ≤ n
  · have e : n = k + (n - k) := by omega
    have : List.range' a n = List.range' a k ++ List.range' (a + k) (n - k) := by
      have := @List.range'_append a k (n - k) 1
      rw [Nat.one_mul] at this
      rw [this, ← e]
    rw [this, List.filter_append, filter_range'_false p a k h, List.nil_append]
  · have e : n - k = 0 := by omega
    rw [e, List.range'_zero, List.filter_nil]
    exact filter_range'_false p a n (fun j h1 h2 => h j h1 (by omega))

theorem toArray_getD (v : Bytes) (k : Nat) : v.toArray.getD k 0 = v.getD k 0 := by
  rw [Array.getD_eq_getD_getElem?, List.getElem?_toArray, ← List.getD_eq_getElem?_getD]

theorem vecBit_of_byte_zero (v : Bytes) (n : Nat) (h : v.getD (n / 8) 0 = 0) : vecBit v n = false := by
  rw [vecBit_eq, h]; simp

/-- `extraction_spec` for the loop: from `i` (≥ the 8-aligned section start) it yields the `j ∈ [i, last]` whose bit is set. -/
theorem extractLoop_spec (bitset : Bytes) (ss last : Nat) (h8 : ss % 8 = 0) (fuel i : Nat) (hi : ss ≤ i)
    (hf : last + 1 - i ≤ fuel) :
    extractLoop bitset.toArray ss last fuel i = (List.range' i (last + 1 - i)).filter (fun j => vecBit bitset (j - ss)) := by
  induction fuel generalizing i with
  | zero =>
    have : last + 1 - i = 0 := by omega
    rw [this]; rfl
  | succ fuel ih =>
    unfold extractLoop
    by_cases hgt : i > last
    · have : last + 1 - i = 0 := by omega
      rw [this]; simp [hgt]
    · simp only [hgt, if_false, toArray_getD]
      have hn : last + 1 - i = (last + 1 - (i + 1)) + 1 := by omega
      by_cases hz : bitset.getD ((i - ss) / 8) 0 = 0
      · simp only [hz, beq_self_eq_true, if_true]
        by_cases hm : i % 8 = 0
        · simp only [hm, beq_self_eq_true, if_true]
          rw [ih (i + 7 + 1) (by omega) (by omega)]
          have := filter_range'_skip (fun j => vecBit bitset (j - ss)) i (last + 1 - i) 8 (by
            intro j h1 h2
            apply vecBit_of_byte_zero
            have : (j - ss) / 8 = (i - ss) / 8 := by omega
            rw [this]; exact hz)
          rw [this]
          have e1 : i + 7 + 1 = i + 8 := by omega
          have e2 : last + 1 - (i + 8) = last + 1 - i - 8 := by omega
          rw [e1, e2]
        · have hm' : (i % 8 == 0) = false := by simpa using hm
          simp only [hm', Bool.false_eq_true, if_false]
          rw [ih (i + 1) (by omega) (by omega), hn, List.range'_succ, List.filter_cons]
          have : vecBit bitset (i - ss) = false := vecBit_of_byte_zero _ _ hz
          simp [this]
      · have hz' : (bitset.getD ((i - ss) / 8) 0 == 0) = false := by simpa using hz
        simp only [hz', Bool.false_eq_true, if_false]
        have hv : (bitset.getD ((i - ss) / 8) 0 &&& ((1 : UInt8) <<< (7 - i % 8).toUInt8) != 0) = vecBit bitset (i - ss) := by
          unfold vecBit
          have : (i - ss) % 8 = i % 8 := by omega
          rw [this]
        rw [hv, ih (i + 1) (by omega) (by omega), hn, List.range'_succ, List.filter_cons]

/-- the half-open block range of section `s` clipped to `[begin, end]`. -/
def secLo (size b s : Nat) : Nat := if b > s * size then b else s * size
def secHi (size e t : Nat) : Nat := if e + 1 < t * size then e + 1 else t * size

theorem extract_spec (size b e s : Nat) (hs : 0 < size) (h8 : size % 8 = 0) (bitset : Bytes) :
    extract size b e s bitset =
      (List.range' (secLo size b s) (secHi size e (s + 1) - secLo size b s)).filter (fun j => vecBit bitset (j - s * size)) := by
  unfold extract
  simp only
  have hss : (s * size) % 8 = 0 := by rw [Nat.mul_mod, h8]; simp
  have e1 : (s + 1) * size = s * size + size := by rw [Nat.add_mul, Nat.one_mul]
  have hlast : (if e < s * size + size - 1 then e else s * size + size - 1) + 1 = secHi size e (s + 1) := by
    unfold secHi; rw [e1]; split <;> split <;> omega
  have hfirst : (if b > s * size then b else s * size) = secLo size b s := rfl
  rw [hfirst]
  have hge : s * size ≤ secLo size b s := by unfold secLo; split <;> omega
  rw [extractLoop_spec bitset (s * size) _ hss _ _ hge (Nat.le_refl _), hlast]

end Aqv.LogFilter

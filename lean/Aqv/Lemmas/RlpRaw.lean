/-
  Lemmas about the Go-shaped model of rlp/raw.go (Aqv.Model.RlpRaw): a successful readKind lies inside the buffer,
  hence Split/SplitString/SplitList/CountValues never reach a slice-bounds panic, and CountValues terminates.
-/
import Aqv.Lemmas.Rlp
import Aqv.Model.RlpRaw
namespace Aqv.RlpRaw
open Aqv Aqv.Rlp

theorem rawReadSize_ok (b : Bytes) (slen n : Nat) (h : rawReadSize b slen = .ok n) : slen ≤ b.length := by
  unfold rawReadSize at h
  split at h
  · simp at h
  · omega

/-- a successful `readKind` describes a value that lies inside the buffer and is at least one byte long. -/
theorem rawReadKind_ok (buf : Bytes) (k : K) (ts cs : Nat) (h : rawReadKind buf = .ok (k, ts, cs)) :
    ts + cs ≤ buf.length ∧ 1 ≤ ts + cs ∧ ts ≤ buf.length := by
  cases buf with
  | nil => simp [rawReadKind] at h
  | cons b tl =>
    simp only [rawReadKind] at h
    split at h
    · simp at h
    · rename_i k' ts' cs' hr
      split at h
      · simp at h
      · rename_i hle
        simp only [Except.ok.injEq, Prod.mk.injEq] at h
        obtain ⟨hk, hts, hcs⟩ := h
        subst hk; subst hts; subst hcs
        have hts : ts' ≤ (b :: tl).length ∧ 1 ≤ ts' + cs' := by
          split at hr
          · simp only [Except.ok.injEq, Prod.mk.injEq] at hr
            obtain ⟨_, h2, h3⟩ := hr; subst h2; subst h3; simp
          · split at hr
            · split at hr
              · split at hr
                · simp at hr
                · simp only [Except.ok.injEq, Prod.mk.injEq] at hr
                  obtain ⟨_, h2, _⟩ := hr; subst h2; simp
              · simp only [Except.ok.injEq, Prod.mk.injEq] at hr
                obtain ⟨_, h2, _⟩ := hr; subst h2; simp
            · split at hr
              · split at hr
                · simp at hr
                · rename_i n hn
                  simp only [Except.ok.injEq, Prod.mk.injEq] at hr
                  obtain ⟨_, h2, _⟩ := hr; subst h2
                  have := rawReadSize_ok _ _ _ hn
                  simp only [List.length_cons]; omega
              · split at hr
                · simp only [Except.ok.injEq, Prod.mk.injEq] at hr
                  obtain ⟨_, h2, _⟩ := hr; subst h2; simp
                · split at hr
                  · simp at hr
                  · rename_i n hn
                    simp only [Except.ok.injEq, Prod.mk.injEq] at hr
                    obtain ⟨_, h2, _⟩ := hr; subst h2
                    have := rawReadSize_ok _ _ _ hn
                    simp only [List.length_cons]; omega
        omega

theorem slice_some (b : Bytes) (i j : Nat) (h : i ≤ j ∧ j ≤ b.length) : ∃ s, slice b i j = some s ∧ s.length = j - i := by
  refine ⟨(b.take j).drop i, by simp [slice, h], ?_⟩
  rw [List.length_drop, List.length_take]; omega

theorem split_ne_panic (b : Bytes) : split b ≠ .panic := by
  unfold split
  split
  · simp
  · rename_i k ts cs h
    obtain ⟨h1, _, _⟩ := rawReadKind_ok _ _ _ _ h
    obtain ⟨c, hc, _⟩ := slice_some b ts (ts + cs) ⟨by omega, h1⟩
    obtain ⟨r, hr, _⟩ := slice_some b (ts + cs) b.length ⟨h1, Nat.le_refl _⟩
    rw [hc, hr]; simp

theorem splitString_ne_panic (b : Bytes) : splitString b ≠ .panic := by
  unfold splitString
  have := split_ne_panic b
  split <;> simp_all

theorem splitList_ne_panic (b : Bytes) : splitList b ≠ .panic := by
  unfold splitList
  have := split_ne_panic b
  split <;> simp_all

theorem countLoop_total (f : Nat) : ∀ (b : Bytes) (i : Nat), b.length ≤ f →
    countLoop f b i ≠ .panic ∧ countLoop f b i ≠ .err .fuel := by
  induction f with
  | zero =>
    intro b i hb
    cases b with
    | nil => simp [countLoop]
    | cons x tl => simp at hb
  | succ f ih =>
    intro b i hb
    cases b with
    | nil => simp [countLoop]
    | cons x tl =>
      simp only [countLoop]
      split
      · rename_i e he
        refine ⟨by simp, ?_⟩
        intro hc
        simp only [Out.err.injEq] at hc
        subst hc
        -- readKind never reports fuel
        have : ∀ buf e, rawReadKind buf = .error e → e ≠ .fuel := by
          intro buf e h
          cases buf with
          | nil => simp only [rawReadKind, Except.error.injEq] at h; subst h; simp
          | cons b tl =>
            simp only [rawReadKind] at h
            have hs : ∀ bb sl e, rawReadSize bb sl = .error e → e ≠ .fuel := by
              intro bb sl e h
              unfold rawReadSize at h
              split at h
              · simp only [Except.error.injEq] at h; subst h; simp
              · split at h
                · simp only [Except.error.injEq] at h; subst h; simp
                · dsimp only at h
                  split at h
                  · simp only [Except.error.injEq] at h; subst h; simp
                  · simp at h
            split at h
            · rename_i e' hr
              simp only [Except.error.injEq] at h
              subst h
              split at hr
              · simp at hr
              · split at hr
                · split at hr
                  · split at hr
                    · simp only [Except.error.injEq] at hr; subst hr; simp
                    · simp at hr
                  · simp at hr
                · split at hr
                  · split at hr
                    · rename_i e2 he2
                      simp only [Except.error.injEq] at hr; subst hr
                      exact hs _ _ _ he2
                    · simp at hr
                  · split at hr
                    · simp at hr
                    · split at hr
                      · rename_i e2 he2
                        simp only [Except.error.injEq] at hr; subst hr
                        exact hs _ _ _ he2
                      · simp at hr
            · split at h
              · simp only [Except.error.injEq] at h; subst h; simp
              · simp at h
        exact this _ _ he rfl
      · rename_i k ts cs h
        obtain ⟨h1, h2, _⟩ := rawReadKind_ok _ _ _ _ h
        obtain ⟨r, hr, hlen⟩ := slice_some (x :: tl) (ts + cs) (x :: tl).length ⟨h1, Nat.le_refl _⟩
        rw [hr]
        simp only
        apply ih
        simp only [List.length_cons] at hlen hb h1
        omega

theorem countValues_total (b : Bytes) : countValues b ≠ .panic ∧ countValues b ≠ .err .fuel :=
  countLoop_total b.length b 0 (Nat.le_refl _)

end Aqv.RlpRaw

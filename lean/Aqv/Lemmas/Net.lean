/-
  Aqv.Lemmas.Net — basic lemmas for the C17 network model: the outcome monad, slice operations,
  the slice-free reading of decodePacket, typed RLP reader round trips.
-/
import Aqv.Model.Net
import Aqv.Lemmas.Rlp
namespace Aqv.Net
open Aqv Aqv.Rlp

@[simp] theorem Out.bind_ok {α β : Type} (a : α) (f : α → Out β) : (Out.ok a >>= f) = f a := rfl
@[simp] theorem Out.bind_err {α β : Type} (e : Err) (f : α → Out β) : (Out.err e >>= f) = Out.err e := rfl
@[simp] theorem Out.bind_panic {α β : Type} (p : Panic) (f : α → Out β) : (Out.panic p >>= f) = Out.panic p := rfl

theorem sliceTo_ok (b : Bytes) (hi : Nat) (h : hi ≤ b.length) : sliceTo b hi = .ok (b.take hi) := by
  simp [sliceTo, h]
theorem sliceFrom_ok (b : Bytes) (lo : Nat) (h : lo ≤ b.length) : sliceFrom b lo = .ok (b.drop lo) := by
  simp [sliceFrom, h]
theorem slice_ok (b : Bytes) (lo hi : Nat) (h1 : lo ≤ hi) (h2 : hi ≤ b.length) : slice b lo hi = .ok ((b.take hi).drop lo) := by
  simp [slice, h1, h2]
theorem index_ok (b : Bytes) (i : Nat) (h : i < b.length) : index b i = .ok b[i] := by
  simp [index, h]

/-! ### decodePacket without slices -/

/-- the slice-free reading of `decodePacketG` on inputs of at least headSize+1 bytes. -/
def decodeCore (g : Bool) (P : DiscPrims) (nc : Bool) (buf : Bytes) : Out Decoded :=
  let sigdata := buf.drop headSize
  if buf.take macSize ≠ P.H (buf.drop macSize) then .err .badHash
  else
    match P.recover (P.H sigdata) ((buf.take headSize).drop macSize) with
    | none => .err .badSig
    | some fromID =>
      let t0 := sigdata.headD 0
      let t : UInt8 := if nc ∧ t0 < 133 then t0 + 133 else t0
      match kindOfType t with
      | none => .err .unknownType
      | some k =>
        let x : Nat := if nc then 0 else 4
        if sigdata.length < 1 + x then (if g then .err .tooSmall else .panic (.sliceBounds (1 + x) sigdata.length sigdata.length))
        else
          match decodeBody k (sigdata.drop (1 + x)) with
          | none => .err .rlp
          | some p => .ok { pkt := p, from_ := fromID, hash := buf.take macSize }

theorem decodePacketG_eq (g : Bool) (P : DiscPrims) (nc : Bool) (buf : Bytes) (hl : headSize + 1 ≤ buf.length) :
    decodePacketG g P nc buf = decodeCore g P nc buf := by
  have hl' : 98 ≤ buf.length := by simpa [headSize, macSize, sigSize] using hl
  unfold decodePacketG decodeCore
  have h : ¬ buf.length < headSize + 1 := by omega
  simp only [h, if_false]
  rw [sliceTo_ok _ _ (by simp [macSize]; omega), slice_ok _ _ _ (by simp [macSize, headSize]) (by simp [headSize, macSize, sigSize]; omega),
    sliceFrom_ok _ _ (by simp [headSize, macSize, sigSize]; omega)]
  simp only [Out.bind_ok]
  have hsd : (buf.drop headSize).length ≠ 0 := by simp [headSize, macSize, sigSize]; omega
  simp only [hsd, if_false]
  rw [sliceFrom_ok buf macSize (by simp [macSize]; omega)]
  simp only [Out.bind_ok]
  have hidx : index (List.drop headSize buf) 0 = .ok ((List.drop headSize buf).headD 0) := by
    cases hd : List.drop headSize buf with
    | nil => simp [hd] at hsd
    | cons a t => simp [index]
  simp only [hidx, Out.bind_ok]
  by_cases hs : (List.drop headSize buf).length < 1 + (if nc = true then 0 else 4)
  · have hp : sliceFrom (List.drop headSize buf) (1 + if nc = true then 0 else 4)
        = .panic (.sliceBounds (1 + if nc = true then 0 else 4) (List.drop headSize buf).length (List.drop headSize buf).length) := by
      unfold sliceFrom
      rw [if_neg (by omega)]
    cases g
    · simp only [hs, hp, Out.bind_panic, if_true, if_false, false_and, Bool.false_eq_true]
      rfl
    · simp only [hs, if_true, and_self]
      rfl
  · rw [sliceFrom_ok _ _ (by omega)]
    simp only [hs, and_false, if_false, Out.bind_ok]
    rfl

theorem decodePacketG_short (g : Bool) (P : DiscPrims) (nc : Bool) (buf : Bytes) (hl : buf.length < headSize + 1) :
    decodePacketG g P nc buf = .err .tooSmall := by
  simp [decodePacketG, hl]

/-! ### typed reader round trips -/

theorem rBytes_encStr (b rest : Bytes) (hb : b.length < 2 ^ 64) : rBytes (encStr b ++ rest) = some (b, rest) := by
  unfold encStr
  split
  · rename_i x
    by_cases hx : x < 0x80
    · simp only [hx, if_true, List.singleton_append, rBytes, readHead]
    · simp only [hx, if_false, rBytes]
      rw [List.append_assoc, readHead_header_str 1 (by omega)]
      simp [hx]
  · rename_i hns
    simp only [rBytes]
    rw [List.append_assoc, readHead_header_str _ hb]
    simp only [List.length_append, List.take_left', List.drop_left']
    rw [if_neg (by omega)]

theorem rArray_encStr (n : Nat) (b rest : Bytes) (hn : b.length = n) (h2 : 2 ≤ n) (hb : n < 2 ^ 64) :
    rArray n (encStr b ++ rest) = some (b, rest) := by
  unfold encStr
  split
  · rename_i x
    simp at hn; omega
  · simp only [rArray]
    rw [List.append_assoc, readHead_header_str _ (by omega)]
    simp only [List.length_append, List.take_left', List.drop_left']
    simp [hn]

theorem rList_encListOf (pl rest : Bytes) (h : pl.length < 2 ^ 64) : rList (encListOf pl ++ rest) = some (pl, rest) := by
  unfold encListOf rList
  rw [List.append_assoc, readHead_header_list _ h]
  simp only [List.length_append, List.take_left', List.drop_left']
  rw [if_neg (by omega)]

theorem rUint_encUint (k n : Nat) (rest : Bytes) (hn : n < 256 ^ k) (hk : k ≤ 8) :
    rUint k (encUint n ++ rest) = some (n, rest) := by
  have hlen := beBytes_length_le n k hn
  have hval := beNat_beBytes n
  unfold encUint encStr
  split
  · rename_i x hx
    have h0 := beBytes_head_ne_zero n x [] hx
    rw [hx] at hval
    have hv : x.toNat = n := by simpa [beNat] using hval
    by_cases hlt : x < 0x80
    · simp only [hlt, if_true, List.singleton_append, rUint, readHead, h0, if_false, hv]
    · simp only [hlt, if_false, rUint]
      rw [List.append_assoc, readHead_header_str 1 (by omega)]
      have hk1 : ¬ k < 1 := by rw [hx] at hlen; simp at hlen; omega
      simp [hk1, h0, hlt, hval]
  · rename_i hns
    simp only [rUint]
    have h64 : (beBytes n).length < 2 ^ 64 := by omega
    rw [List.append_assoc, readHead_header_str _ h64]
    simp only [List.length_append, List.take_left', List.drop_left']
    rw [if_neg (by omega), if_neg (by omega)]
    cases hb : beBytes n with
    | nil => simp [hb, beNat] at hval ⊢; omega
    | cons b0 t =>
      have h0 := beBytes_head_ne_zero n b0 t hb
      have ht : ¬ (t = [] ∧ b0 < 0x80) := by
        intro ⟨ht, _⟩
        exact hns b0 (by rw [hb, ht])
      simp only [h0, if_false, ht]
      rw [← hb, hval]

/-- a raw RLP value as `Stream.Raw` returns it: reading it back yields exactly its bytes. -/
def RawOk (r : Bytes) : Prop := ∀ rest, rRaw (r ++ rest) = some (r, rest)

theorem RawOk.ne_nil {r : Bytes} (h : RawOk r) : r ≠ [] := by
  intro hr
  have := h []
  simp [hr, rRaw, readHead] at this

def Endpoint.Wf (e : Endpoint) : Prop := e.udp < 65536 ∧ e.tcp < 65536
def RpcNode.Wf (n : RpcNode) : Prop := n.udp < 65536 ∧ n.tcp < 65536 ∧ n.id.length = 64

theorem encStr_length_ge (b : Bytes) : b.length ≤ (encStr b).length := by
  unfold encStr
  split
  · split <;> simp
  · simp

theorem encListOf_length (pl : Bytes) : pl.length ≤ (encListOf pl).length := by
  simp [encListOf]

theorem rEndpoint_enc (e : Endpoint) (rest : Bytes) (hw : e.Wf) (hl : (encEndpoint e).length < 2 ^ 64) :
    rEndpoint (encEndpoint e ++ rest) = some (e, rest) := by
  obtain ⟨hu, ht⟩ := hw
  have hpl := encListOf_length (encStr e.ip ++ encUint e.udp ++ encUint e.tcp)
  have hip := encStr_length_ge e.ip
  unfold encEndpoint at hl hpl ⊢
  unfold rEndpoint
  rw [rList_encListOf _ _ (by omega)]
  simp only [List.append_assoc]
  rw [rBytes_encStr _ _ (by simp only [List.length_append] at hpl; omega)]
  simp only
  rw [rUint_encUint 2 _ _ (by omega) (by omega)]
  simp only
  have := rUint_encUint 2 e.tcp [] (by omega) (by omega)
  rw [List.append_nil] at this
  rw [this]
  simp [atEnd]

theorem rNode_enc (n : RpcNode) (rest : Bytes) (hw : n.Wf) (hl : (encNode n).length < 2 ^ 64) :
    rNode (encNode n ++ rest) = some (n, rest) := by
  obtain ⟨hu, ht, hid⟩ := hw
  have hpl := encListOf_length (encStr n.ip ++ encUint n.udp ++ encUint n.tcp ++ encStr n.id)
  have hip := encStr_length_ge n.ip
  unfold encNode at hl hpl ⊢
  unfold rNode
  rw [rList_encListOf _ _ (by omega)]
  simp only [List.append_assoc]
  rw [rBytes_encStr _ _ (by simp only [List.length_append] at hpl; omega)]
  simp only
  rw [rUint_encUint 2 _ _ (by omega) (by omega)]
  simp only
  rw [rUint_encUint 2 _ _ (by omega) (by omega)]
  simp only
  have := rArray_encStr 64 n.id [] hid (by omega) (by omega)
  rw [List.append_nil] at this
  rw [this]
  simp [atEnd]

theorem encNode_ne_nil (n : RpcNode) : encNode n ≠ [] := by
  unfold encNode encListOf
  intro h
  simp at h
  exact header_ne_nil _ _ h.1

theorem rNodes_enc (ns : List RpcNode) (f : Nat) (hw : ∀ n ∈ ns, n.Wf) (hl : (encNodes ns).length < 2 ^ 64)
    (hf : (encNodes ns).length ≤ f) : rNodes f (encNodes ns) = some ns := by
  induction ns generalizing f with
  | nil => cases f <;> simp [encNodes, rNodes]
  | cons n ns ih =>
    simp only [encNodes, List.length_append] at hl hf
    have hne := encNode_ne_nil n
    cases hen : encNode n with
    | nil => exact absurd hen hne
    | cons b bs =>
      have hpos : 0 < (encNode n).length := by rw [hen]; simp
      obtain ⟨g, rfl⟩ : ∃ g, f = g + 1 := ⟨f - 1, by omega⟩
      simp only [encNodes, hen, List.cons_append, rNodes]
      rw [← List.cons_append, ← hen, rNode_enc n _ (hw n (by simp)) (by omega)]
      simp only
      rw [ih g (fun m hm => hw m (by simp [hm])) (by omega) (by omega)]

theorem rRawAll_concat (rs : List Bytes) (f : Nat) (hw : ∀ r ∈ rs, RawOk r) (hf : (concatRaw rs).length ≤ f) :
    rRawAll f (concatRaw rs) = some rs := by
  induction rs generalizing f with
  | nil => cases f <;> simp [concatRaw, rRawAll]
  | cons r rs ih =>
    have hr := hw r (by simp)
    have hne := hr.ne_nil
    simp only [concatRaw, List.length_append] at hf
    cases hrr : r with
    | nil => exact absurd hrr hne
    | cons b bs =>
      have hpos : 0 < r.length := by rw [hrr]; simp
      obtain ⟨g, rfl⟩ : ∃ g, f = g + 1 := ⟨f - 1, by omega⟩
      simp only [concatRaw, List.cons_append, rRawAll]
      rw [← List.cons_append, ← hrr, hr (concatRaw rs)]
      simp only
      rw [ih g (fun m hm => hw m (by simp [hm])) (by omega)]

def Packet.Wf : Packet → Prop
  | .ping v s d e rest => v < 2 ^ 64 ∧ s.Wf ∧ d.Wf ∧ e < 2 ^ 64 ∧ ∀ r ∈ rest, RawOk r
  | .pong d _ e rest => d.Wf ∧ e < 2 ^ 64 ∧ ∀ r ∈ rest, RawOk r
  | .findnode t e rest => t.length = 64 ∧ e < 2 ^ 64 ∧ ∀ r ∈ rest, RawOk r
  | .neighbors ns e rest => (∀ n ∈ ns, n.Wf) ∧ e < 2 ^ 64 ∧ ∀ r ∈ rest, RawOk r

theorem decodeBody_encodeBody (p : Packet) (trailing : Bytes) (hw : p.Wf) (hl : (encodeBody p).length < 2 ^ 64) :
    decodeBody p.kind (encodeBody p ++ trailing) = some p := by
  cases p with
  | ping v s d e rest =>
    obtain ⟨hv, hs, hd, he, hr⟩ := hw
    simp only [encodeBody] at hl ⊢
    have hpl := encListOf_length (encUint v ++ encEndpoint s ++ encEndpoint d ++ encUint e ++ concatRaw rest)
    simp only [List.length_append] at hpl
    unfold decodeBody
    rw [rList_encListOf _ _ (by simp only [List.length_append]; omega)]
    simp only [Packet.kind, List.append_assoc]
    rw [rUint_encUint 8 _ _ (by omega) (by omega)]
    simp only
    rw [rEndpoint_enc _ _ hs (by omega)]
    simp only
    rw [rEndpoint_enc _ _ hd (by omega)]
    simp only
    rw [rUint_encUint 8 _ _ (by omega) (by omega)]
    simp only
    rw [rRawAll_concat _ _ hr (by omega)]
  | pong d tok e rest =>
    obtain ⟨hd, he, hr⟩ := hw
    simp only [encodeBody] at hl ⊢
    have hpl := encListOf_length (encEndpoint d ++ encStr tok ++ encUint e ++ concatRaw rest)
    simp only [List.length_append] at hpl
    have htok := encStr_length_ge tok
    unfold decodeBody
    rw [rList_encListOf _ _ (by simp only [List.length_append]; omega)]
    simp only [Packet.kind, List.append_assoc]
    rw [rEndpoint_enc _ _ hd (by omega)]
    simp only
    rw [rBytes_encStr _ _ (by omega)]
    simp only
    rw [rUint_encUint 8 _ _ (by omega) (by omega)]
    simp only
    rw [rRawAll_concat _ _ hr (by omega)]
  | findnode t e rest =>
    obtain ⟨ht, he, hr⟩ := hw
    simp only [encodeBody] at hl ⊢
    have hpl := encListOf_length (encStr t ++ encUint e ++ concatRaw rest)
    simp only [List.length_append] at hpl
    unfold decodeBody
    rw [rList_encListOf _ _ (by simp only [List.length_append]; omega)]
    simp only [Packet.kind, List.append_assoc]
    rw [rArray_encStr 64 _ _ ht (by omega) (by omega)]
    simp only
    rw [rUint_encUint 8 _ _ (by omega) (by omega)]
    simp only
    rw [rRawAll_concat _ _ hr (by omega)]
  | neighbors ns e rest =>
    obtain ⟨hn, he, hr⟩ := hw
    simp only [encodeBody] at hl ⊢
    have hpl := encListOf_length (encListOf (encNodes ns) ++ encUint e ++ concatRaw rest)
    have hpl2 := encListOf_length (encNodes ns)
    simp only [List.length_append] at hpl
    unfold decodeBody
    rw [rList_encListOf _ _ (by simp only [List.length_append]; omega)]
    simp only [Packet.kind, List.append_assoc]
    rw [rList_encListOf _ _ (by omega)]
    simp only
    rw [rNodes_enc _ _ hn (by omega) (by omega)]
    simp only
    rw [rUint_encUint 8 _ _ (by omega) (by omega)]
    simp only
    rw [rRawAll_concat _ _ hr (by omega)]

/-! ### encodePacket without slices -/

theorem copyAt_mid (a b c src : Bytes) (h : src.length = b.length) :
    copyAt (a ++ b ++ c) a.length src = .ok (a ++ src ++ c) := by
  unfold copyAt
  rw [sliceFrom_ok _ _ (by simp)]
  simp only [List.append_assoc, List.drop_left', List.take_left']
  have h1 : List.take (b ++ c).length src = src := by
    apply List.take_of_length_le; simp; omega
  have h2 : List.drop src.length (b ++ c) = c := by rw [h]; simp
  rw [h1, h2]

/-- signed data of a packet: type byte, network tag (absent in netcompat mode), RLP body. -/
def sigdataOf (nc : Bool) (ptype : UInt8) (p : Packet) : Bytes :=
  [ptype] ++ (if nc then [] else aquaTag) ++ encodeBody p

theorem encodePacket_eq (H : Bytes → Bytes) (sign : Bytes → Bytes) (nc : Bool) (ptype : UInt8) (p : Packet)
    (hH : ∀ x, (H x).length = 32) (hsig : ∀ h, (sign h).length = 65) :
    encodePacket H sign nc ptype p =
      .ok (H (sign (H (sigdataOf nc ptype p)) ++ sigdataOf nc ptype p) ++ sign (H (sigdataOf nc ptype p)) ++ sigdataOf nc ptype p,
           H (sign (H (sigdataOf nc ptype p)) ++ sigdataOf nc ptype p)) := by
  unfold encodePacket
  have hsd : List.replicate headSize (0 : UInt8) ++ [ptype] ++ (if nc = true then [] else aquaTag) ++ encodeBody p
      = List.replicate headSize (0 : UInt8) ++ sigdataOf nc ptype p := by
    simp [sigdataOf, List.append_assoc]
  simp only [hsd]
  rw [sliceFrom_ok _ _ (by simp)]
  have hd : List.drop headSize (List.replicate headSize (0 : UInt8) ++ sigdataOf nc ptype p) = sigdataOf nc ptype p := by
    have : headSize = (List.replicate headSize (0 : UInt8)).length := by simp
    rw [this, List.drop_left']; simp
  simp only [Out.bind_ok, hd]
  generalize hsd' : sigdataOf nc ptype p = sd
  generalize hsg : sign (H sd) = sig
  have hsl : sig.length = 65 := by rw [← hsg]; exact hsig _
  have hsplit : List.replicate headSize (0 : UInt8) ++ sd
      = List.replicate macSize (0 : UInt8) ++ List.replicate sigSize (0 : UInt8) ++ sd := by
    simp [headSize, List.replicate_append_replicate]
  have hc1 := copyAt_mid (List.replicate macSize (0 : UInt8)) (List.replicate sigSize (0 : UInt8)) sd sig (by simp [hsl, sigSize])
  simp only [List.length_replicate] at hc1
  rw [hsplit, hc1]
  simp only [Out.bind_ok]
  rw [sliceFrom_ok _ _ (by simp)]
  have hd2 : List.drop macSize (List.replicate macSize (0 : UInt8) ++ sig ++ sd) = sig ++ sd := by
    have : macSize = (List.replicate macSize (0 : UInt8)).length := by simp
    rw [List.append_assoc, this, List.drop_left']; simp
  simp only [Out.bind_ok, hd2]
  have hc2 := copyAt_mid [] (List.replicate macSize (0 : UInt8)) (sig ++ sd) (H (sig ++ sd)) (by simp [hH, macSize])
  simp only [List.length_nil, List.nil_append] at hc2
  rw [← List.append_assoc] at hc2
  rw [hc2]
  simp [List.append_assoc]

theorem kindOfType_typeByte (nc : Bool) (k : Kind) :
    kindOfType (if nc = true ∧ typeByte nc k < 133 then typeByte nc k + 133 else typeByte nc k) = some k := by
  cases nc <;> cases k <;> decide

end Aqv.Net

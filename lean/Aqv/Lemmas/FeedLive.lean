/-
  Aqv.Lemmas.FeedLive — liveness of the Feed model on infinite fair executions.

  An execution is an infinite sequence of states, each obtained from the previous one by a model step or by stuttering.
  Fairness (`Fair`) has three parts, each an assumption about something outside `feed.go`:
  * scheduler: a goroutine of a Send that holds the token (`sched_send`), or of a `remove` at a step that needs nobody
    else (`sched_rem`), which is continuously able to take SOME step eventually takes one of its steps (weak fairness per
    goroutine; which ready case `reflect.Select` picks is irrelevant — every choice makes progress);
  * receivers (`recv`): no channel stays, from some point on forever, both in `f.sendCases` and unable to accept a value
    ("every subscriber whose channel is full and that is not unsubscribed eventually receives");
  * the sendLock token is handed over fairly (`token_send`, `token_rem`): a goroutine blocked in `<-f.sendLock` (a Send, or
    a `remove` in its select) does not wait forever while the token becomes free again and again.  In Go this follows from
    the FIFO wait queue of a channel; it is strong fairness of that one hand-off and is the only place where more than
    weak fairness is assumed.
-/
import Aqv.Lemmas.FeedFrame
namespace Aqv.Feed
set_option linter.unusedSimpArgs false
set_option linter.unusedVariables false

def SendEnabled (s : St) (g : Sid) : Prop := ∃ x, IsSendAct g x ∧ (step s x).isSome
def RemEnabled (s : St) (c : Chan) : Prop := ∃ x, IsRemAct c x ∧ (step s x).isSome

/-- an infinite execution: state `σ (n+1)` results from `σ n` by the action `a n`, or equals it (`a n = none`) -/
structure Exec where
  σ : Nat → St
  a : Nat → Option Act
  init : Reach (σ 0)
  next : ∀ n, (∃ x, a n = some x ∧ step (σ n) x = some (σ (n + 1))) ∨ (a n = none ∧ σ (n + 1) = σ n)

def SendSteps (e : Exec) (g : Sid) (m : Nat) : Prop := ∃ x, e.a m = some x ∧ IsSendAct g x
def RemSteps (e : Exec) (c : Chan) (m : Nat) : Prop := ∃ x, e.a m = some x ∧ IsRemAct c x
def TokenRecurs (e : Exec) (n : Nat) : Prop := ∀ k, n ≤ k → ∃ m, k ≤ m ∧ (e.σ m).tokenFree = true

structure Fair (e : Exec) : Prop where
  sched_send : ∀ g n, (∀ m, n ≤ m → SendEnabled (e.σ m) g) → ∃ m, n ≤ m ∧ SendSteps e g m
  sched_rem : ∀ c n, (∀ m, n ≤ m → RemEnabled (e.σ m) c) → ∃ m, n ≤ m ∧ RemSteps e c m
  recv : ∀ c n, ∃ m, n ≤ m ∧ (canPlace (e.σ m) c = true ∨ c ∉ (e.σ m).sendCases)
  token_send : ∀ g n, (∀ m, n ≤ m → (e.σ m).spc g = .start) → TokenRecurs e n → False
  token_rem : ∀ c n, (∀ m, n ≤ m → (e.σ m).rpc c = .sel) → TokenRecurs e n → False

theorem Exec.reach (e : Exec) : ∀ n, Reach (e.σ n) := by
  intro n
  induction n with
  | zero => exact e.init
  | succ k ih =>
    rcases e.next k with ⟨x, _, hx⟩ | ⟨_, h⟩
    · exact Reach.step x ih hx
    · rw [h]; exact ih

theorem exists_least (P : Nat → Prop) : ∀ (d n m : Nat), m - n = d → n ≤ m → P m →
    ∃ k, n ≤ k ∧ k ≤ m ∧ P k ∧ ∀ j, n ≤ j → j < k → ¬ P j := by
  intro d
  induction d with
  | zero =>
    intro n m hd hnm hm
    have : n = m := by omega
    subst this
    exact ⟨n, Nat.le_refl _, Nat.le_refl _, hm, fun j h1 h2 => by omega⟩
  | succ d ih =>
    intro n m hd hnm hm
    by_cases hn : P n
    · exact ⟨n, Nat.le_refl _, hnm, hn, fun j h1 h2 => by omega⟩
    · obtain ⟨k, h1, h2, h3, h4⟩ := ih (n + 1) m (by omega) (by omega) hm
      refine ⟨k, by omega, h2, h3, ?_⟩
      intro j hj1 hj2
      by_cases hjn : j = n
      · subst hjn; exact hn
      · exact h4 j (by omega) hj2

/-- a predicate that holds at n and is not kept forever is lost at some definite step -/
theorem exists_change (P : Nat → Prop) (n : Nat) (hn : P n) (h : ¬ ∀ m, n ≤ m → P m) :
    ∃ m, n ≤ m ∧ P m ∧ ¬ P (m + 1) := by
  apply Classical.byContradiction
  intro hc
  apply h
  intro m hm
  induction m with
  | zero => have : n = 0 := by omega
            subst this; exact hn
  | succ k ih =>
    by_cases hk : n ≤ k
    · have hp := ih hk
      apply Classical.byContradiction
      intro hnp
      exact hc ⟨k, hk, hp, hnp⟩
    · have : n = k + 1 := by omega
      subst this; exact hn

/-! ### the token-holding Send -/

/-- as long as the goroutine of Send g takes no step, its pc and `cases` do not move -/
theorem frame_const (e : Exec) (g : Sid) (n : Nat) (hh : ((e.σ n).spc g).held = true) :
    ∀ m, n ≤ m → (∀ k, n ≤ k → k < m → ¬ SendSteps e g k) →
      (e.σ m).spc g = (e.σ n).spc g ∧ (e.σ m).sendCases = (e.σ n).sendCases ∧ (e.σ m).active = (e.σ n).active := by
  intro m
  induction m with
  | zero => intro h0 _; have : n = 0 := by omega
            subst this; exact ⟨rfl, rfl, rfl⟩
  | succ k ih =>
    intro hk hno
    by_cases hnk : n ≤ k
    · have ihk := ih hnk (fun j h1 h2 => hno j h1 (by omega))
      rcases e.next k with ⟨x, hx, hs⟩ | ⟨_, h⟩
      · have hnot : ¬ IsSendAct g x := fun hi => hno k hnk (by omega) ⟨x, hx, hi⟩
        have hf := holder_frame g x (invA_reach (e.reach k)) (by rw [ihk.1]; exact hh) hnot hs
        exact ⟨hf.1.trans ihk.1, hf.2.1.trans ihk.2.1, hf.2.2.trans ihk.2.2⟩
      · rw [h]; exact ihk
    · have : n = k + 1 := by omega
      subst this; exact ⟨rfl, rfl, rfl⟩

theorem canPlace_const (e : Exec) (g : Sid) (c : Chan) (n : Nat) (hh : ((e.σ n).spc g).held = true)
    (hc : c ∈ (e.σ n).sendCases) (hp : canPlace (e.σ n) c = true) :
    ∀ m, n ≤ m → (∀ k, n ≤ k → k < m → ¬ SendSteps e g k) → canPlace (e.σ m) c = true := by
  intro m
  induction m with
  | zero => intro h0 _; have : n = 0 := by omega
            subst this; exact hp
  | succ k ih =>
    intro hk hno
    by_cases hnk : n ≤ k
    · have hno' : ∀ j, n ≤ j → j < k → ¬ SendSteps e g j := fun j h1 h2 => hno j h1 (by omega)
      have ihk := ih hnk hno'
      have fr := frame_const e g n hh k hnk hno'
      rcases e.next k with ⟨x, hx, hs⟩ | ⟨_, h⟩
      · have hnot : ¬ IsSendAct g x := fun hi => hno k hnk (by omega) ⟨x, hx, hi⟩
        exact canPlace_frame g x c (invA_reach (e.reach k)) (by rw [fr.1]; exact hh) hnot hs (by rw [fr.2.1]; exact hc) ihk
      · rw [h]; exact ihk
    · have : n = k + 1 := by omega
      subst this; exact hp

/-- the holder is able to step, except when it is blocked in Select with no ready case -/
theorem sendEnabled_of_pc {s : St} (h : Reach s) (g : Sid) :
    (s.spc g = .locked → SendEnabled s g) ∧ (∀ i, s.spc g = .sweep i → SendEnabled s g) ∧
    (∀ c, s.spc g = .removing c → SendEnabled s g) ∧
    (s.spc g = .sel → canPlace s (s.sendCases.getD 0 0) = true → SendEnabled s g) := by
  have ha := invA_reach h
  have hd := invD_reach h
  refine ⟨?_, ?_, ?_, ?_⟩
  · intro hg; exact ⟨.merge g, rfl, by simp [step, hg]⟩
  · intro i hg
    by_cases h1 : i < s.active
    · cases hcp : canPlace s (s.sendCases.getD i 0)
      · exact ⟨.tryFail g, rfl, by simp only [List.getD_eq_getElem?_getD] at hcp; simp [step, hg, h1, hcp]⟩
      · exact ⟨.tryOk g, rfl, by simp only [List.getD_eq_getElem?_getD] at hcp; simp [step, hg, h1, hcp]⟩
    · refine ⟨.sweepEnd g, rfl, ?_⟩
      have : s.active ≤ i := by omega
      simp only [step, hg, this, if_true]
      split <;> simp
  · intro c hg
    have hc := (ha.removing g c hg).1
    have hlt := List.idxOf_lt_length_iff.mpr hc
    exact ⟨.doRemove g, rfl, by simp [step, hg, hlt]⟩
  · intro hg hp
    have hpos := hd.sel_pos g hg
    exact ⟨.selPlace g 0, rfl, by simp only [List.getD_eq_getElem?_getD] at hp; simp [step, hg, hpos, hp]⟩

/-- work left for the token-holding Send g after the merge: (cases still in play + subscriptions that can still be
    removed under it, position inside the current sweep/select round) -/
def sendMeasure (s : St) (g : Sid) : Nat × Nat :=
  (s.sendCases.length + s.active,
   match s.spc g with
   | .sweep i => 2 + (s.active - i)
   | .sel => 1
   | _ => 0)

/-- every step of the token-holding Send either finishes it (token released) or leaves it in its delivery loop with a
    strictly smaller measure -/
theorem send_step_result {s s' : St} (hr : Reach s) (g : Sid) (x : Act) (hx : IsSendAct g x)
    (hh : (s.spc g).held = true) (hs : step s x = some s') :
    ((s'.spc g).merged = true ∧
      ((s.spc g).merged = true → Prod.Lex (· < ·) (· < ·) (sendMeasure s' g) (sendMeasure s g))) ∨
    (∃ r, s'.spc g = .done r ∧ s'.tokenFree = true) := by
  have ha := invA_reach hr
  have hrem := ha.removing g
  have hnp := (invA_reach (Reach.step x hr hs)).no_panic_s g
  simp only [IsSendAct] at hx
  cases x <;> simp only [actSender, Option.some.injEq, reduceCtorEq] at hx <;> subst hx
  all_goals simp only [step, place] at hs
  all_goals (repeat' split at hs) <;> (try cases hs)
  all_goals simp only [sendMeasure, upd_apply, if_true, swapAt_length, SPc.merged, SPc.held] at hh hnp ⊢
  all_goals first
    | (right; exact ⟨_, rfl, rfl⟩)
    | (right; simp; done)
    | (left; refine ⟨by simp_all [SPc.merged], ?_⟩; intro hm; first | (apply Prod.Lex.left; grind) | (apply Prod.Lex.right'; all_goals grind))
    | (left; refine ⟨by simp_all [SPc.merged], ?_⟩; intro hm; simp_all [SPc.merged])
    | (exfalso; simp_all)

/-- on a fair execution the token-holding Send eventually takes a step; up to the first such step nothing it owns moves -/
theorem send_eventually_steps (e : Exec) (hf : Fair e) (g : Sid) (n : Nat) (hh : ((e.σ n).spc g).held = true) :
    ∃ m, n ≤ m ∧ SendSteps e g m ∧ ∀ k, n ≤ k → k < m → ¬ SendSteps e g k := by
  have hex : ∃ m, n ≤ m ∧ SendSteps e g m := by
    apply Classical.byContradiction
    intro hne
    have hno : ∀ m k, n ≤ k → k < m → ¬ SendSteps e g k := fun m k h1 _ hs => hne ⟨k, h1, hs⟩
    have fr := fun m hm => frame_const e g n hh m hm (hno m)
    have hn_reach := e.reach n
    have hnp := (invA_reach hn_reach).no_panic_s g
    -- in every pc other than Select the goroutine is continuously enabled
    have key : ∃ n0, n ≤ n0 ∧ ∀ m, n0 ≤ m → SendEnabled (e.σ m) g := by
      cases hpc : (e.σ n).spc g with
      | idle => simp [hpc, SPc.held] at hh
      | start => simp [hpc, SPc.held] at hh
      | done r => simp [hpc, SPc.held] at hh
      | panicked => exact absurd hpc hnp
      | locked =>
        exact ⟨n, Nat.le_refl _, fun m hm => (sendEnabled_of_pc (e.reach m) g).1 (by rw [(fr m hm).1, hpc])⟩
      | sweep i =>
        exact ⟨n, Nat.le_refl _, fun m hm => (sendEnabled_of_pc (e.reach m) g).2.1 i (by rw [(fr m hm).1, hpc])⟩
      | removing c =>
        exact ⟨n, Nat.le_refl _, fun m hm => (sendEnabled_of_pc (e.reach m) g).2.2.1 c (by rw [(fr m hm).1, hpc])⟩
      | sel =>
        -- blocked in Select: receiver fairness makes the first active case ready, and it stays ready
        have hpos := (invD_reach hn_reach).sel_pos g hpc
        have hle := (invA_reach hn_reach).act_le g (by simp [hpc, SPc.merged])
        have hc0 : (e.σ n).sendCases.getD 0 0 ∈ (e.σ n).sendCases := by
          rw [getD_eq_getElem _ 0 (by omega)]; exact List.getElem_mem _
        obtain ⟨m0, hm0, hrc⟩ := hf.recv ((e.σ n).sendCases.getD 0 0) n
        rcases hrc with hcp | hgone
        · refine ⟨m0, hm0, fun m hm => ?_⟩
          have hh0 : ((e.σ m0).spc g).held = true := by rw [(fr m0 hm0).1]; exact hh
          have hcm := canPlace_const e g _ m0 hh0 (by rw [(fr m0 hm0).2.1]; exact hc0) hcp m hm
            (fun k h1 _ hs => hne ⟨k, by omega, hs⟩)
          have frm := fr m (by omega)
          exact (sendEnabled_of_pc (e.reach m) g).2.2.2 (by rw [frm.1, hpc]) (by rw [frm.2.1]; exact hcm)
        · exact absurd (by rw [(fr m0 hm0).2.1]; exact hc0) hgone
    obtain ⟨n0, hn0, hen⟩ := key
    obtain ⟨m, hm, hs⟩ := hf.sched_send g n0 hen
    exact hne ⟨m, by omega, hs⟩
  obtain ⟨m, hm, hs⟩ := hex
  obtain ⟨k, h1, _, h3, h4⟩ := exists_least (SendSteps e g) (m - n) n m rfl hm hs
  exact ⟨k, h1, h3, h4⟩

/-- a Send in its delivery loop finishes (and frees the token): well-founded induction on the measure -/
theorem merged_terminates (e : Exec) (hf : Fair e) (g : Sid) :
    ∀ (p : Nat × Nat) (n : Nat), ((e.σ n).spc g).merged = true → sendMeasure (e.σ n) g = p →
      ∃ m, n ≤ m ∧ (∃ r, (e.σ m).spc g = .done r) ∧ (e.σ m).tokenFree = true := by
  intro p
  induction p using (Prod.lex Nat.lt_wfRel Nat.lt_wfRel).wf.induction with
  | _ p ih =>
    intro n hm hp
    have hh := merged_held _ hm
    obtain ⟨m, hnm, ⟨x, hx, hix⟩, hno⟩ := send_eventually_steps e hf g n hh
    have fr := frame_const e g n hh m hnm hno
    rcases e.next m with ⟨y, hy, hs⟩ | ⟨hnone, _⟩
    · have : y = x := by rw [hx] at hy; exact (Option.some.inj hy).symm
      subst this
      have hhm : ((e.σ m).spc g).held = true := by rw [fr.1]; exact hh
      have hmm : ((e.σ m).spc g).merged = true := by rw [fr.1]; exact hm
      have hmeas : sendMeasure (e.σ m) g = p := by
        rw [← hp]; simp only [sendMeasure, fr.1, fr.2.1, fr.2.2]
      rcases send_step_result (e.reach m) g y hix hhm hs with ⟨hm', hlt⟩ | ⟨r, hr, htf⟩
      · have hlt' := hlt hmm
        rw [hmeas] at hlt'
        obtain ⟨m', h1, h2, h3⟩ := ih _ hlt' (m + 1) hm' rfl
        exact ⟨m', by omega, h2, h3⟩
      · exact ⟨m + 1, by omega, ⟨r, hr⟩, htf⟩
    · rw [hnone] at hx; cases hx

/-- HOLDER TERMINATION: a Send that holds the token returns, and the token is free at that moment -/
theorem held_terminates (e : Exec) (hf : Fair e) (g : Sid) (n : Nat) (hh : ((e.σ n).spc g).held = true) :
    ∃ m, n ≤ m ∧ (∃ r, (e.σ m).spc g = .done r) ∧ (e.σ m).tokenFree = true := by
  obtain ⟨m, hnm, ⟨x, hx, hix⟩, hno⟩ := send_eventually_steps e hf g n hh
  have fr := frame_const e g n hh m hnm hno
  rcases e.next m with ⟨y, hy, hs⟩ | ⟨hnone, _⟩
  · have : y = x := by rw [hx] at hy; exact (Option.some.inj hy).symm
    subst this
    have hhm : ((e.σ m).spc g).held = true := by rw [fr.1]; exact hh
    rcases send_step_result (e.reach m) g y hix hhm hs with ⟨hm', _⟩ | ⟨r, hr, htf⟩
    · obtain ⟨m', h1, h2, h3⟩ := merged_terminates e hf g _ (m + 1) hm' rfl
      exact ⟨m', by omega, h2, h3⟩
    · exact ⟨m + 1, by omega, ⟨r, hr⟩, htf⟩
  · rw [hnone] at hx; cases hx

/-! ### remove -/

def soloPhase (p : RPc) : Prop := p = .start ∨ p = .token ∨ p = .deleted

theorem rpc_const (e : Exec) (c : Chan) (n : Nat) (hp : soloPhase ((e.σ n).rpc c)) :
    ∀ m, n ≤ m → (∀ k, n ≤ k → k < m → ¬ RemSteps e c k) → (e.σ m).rpc c = (e.σ n).rpc c := by
  intro m
  induction m with
  | zero => intro h0 _; have : n = 0 := by omega
            subst this; rfl
  | succ k ih =>
    intro hk hno
    by_cases hnk : n ≤ k
    · have ihk := ih hnk (fun j h1 h2 => hno j h1 (by omega))
      rcases e.next k with ⟨x, hx, hs⟩ | ⟨_, h⟩
      · have hnot : ¬ IsRemAct c x := fun hi => hno k hnk (by omega) ⟨x, hx, hi⟩
        simp only [IsRemAct] at hnot
        rcases hp with h0 | h0 | h0
        · rw [h0] at ihk ⊢
          exact rpc_start_frame c x ihk (by intro hxe; subst hxe; exact hnot rfl) hs
        · rw [h0] at ihk ⊢
          exact rpc_token_frame c x ihk (by intro hxe; subst hxe; exact hnot rfl) hs
        · rw [h0] at ihk ⊢
          exact rpc_deleted_frame c x ihk (by intro hxe; subst hxe; exact hnot rfl) hs
      · rw [h]; exact ihk
    · have : n = k + 1 := by omega
      subst this; rfl

theorem remEnabled_of_pc (s : St) (c : Chan) (hp : soloPhase (s.rpc c)) : RemEnabled s c := by
  rcases hp with h0 | h0 | h0
  · refine ⟨.rmInbox c, rfl, ?_⟩
    simp only [step, h0, if_true]; split <;> simp
  · refine ⟨.rmDelete c, rfl, ?_⟩
    simp only [step, h0, if_true]; split <;> simp
  · exact ⟨.rmRelease c, rfl, by simp [step, h0]⟩

theorem rem_eventually_steps (e : Exec) (hf : Fair e) (c : Chan) (n : Nat) (hp : soloPhase ((e.σ n).rpc c)) :
    ∃ m, n ≤ m ∧ RemSteps e c m ∧ (e.σ m).rpc c = (e.σ n).rpc c := by
  have hex : ∃ m, n ≤ m ∧ RemSteps e c m := by
    apply Classical.byContradiction
    intro hne
    have fr := fun m hm => rpc_const e c n hp m hm (fun k h1 _ hs => hne ⟨k, h1, hs⟩)
    obtain ⟨m, hm, hs⟩ := hf.sched_rem c n (fun m hm => remEnabled_of_pc _ c (by rw [fr m hm]; exact hp))
    exact hne ⟨m, hm, hs⟩
  obtain ⟨m, hm, hs⟩ := hex
  obtain ⟨k, h1, _, h3, h4⟩ := exists_least (RemSteps e c) (m - n) n m rfl hm hs
  exact ⟨k, h1, h3, rpc_const e c n hp k h1 h4⟩

theorem rem_step_result {s s' : St} (hr : Reach s) (c : Chan) (x : Act) (hx : IsRemAct c x) (hs : step s x = some s') :
    (s.rpc c = .start → s'.rpc c = .done ∨ s'.rpc c = .sel) ∧ (s.rpc c = .token → s'.rpc c = .deleted) ∧
    (s.rpc c = .deleted → s'.rpc c = .done ∧ s'.tokenFree = true) := by
  have hnp := (invA_reach (Reach.step x hr hs)).no_panic_r c
  simp only [IsRemAct] at hx
  cases x <;> simp only [actRemover, Option.some.injEq, reduceCtorEq] at hx <;> subst hx
  all_goals simp only [step] at hs
  all_goals (repeat' split at hs) <;> (try cases hs)
  all_goals simp_all

/-- a `remove` that has taken the token returns and frees the token -/
theorem rem_holder_terminates (e : Exec) (hf : Fair e) (c : Chan) (n : Nat)
    (hp : (e.σ n).rpc c = .token ∨ (e.σ n).rpc c = .deleted) :
    ∃ m, n ≤ m ∧ (e.σ m).rpc c = .done ∧ (e.σ m).tokenFree = true := by
  have del : ∀ n, (e.σ n).rpc c = .deleted → ∃ m, n ≤ m ∧ (e.σ m).rpc c = .done ∧ (e.σ m).tokenFree = true := by
    intro n h0
    obtain ⟨m, hnm, ⟨x, hx, hix⟩, hrp⟩ := rem_eventually_steps e hf c n (Or.inr (Or.inr h0))
    rcases e.next m with ⟨y, hy, hs⟩ | ⟨hnone, _⟩
    · have : y = x := by rw [hx] at hy; exact (Option.some.inj hy).symm
      subst this
      have := (rem_step_result (e.reach m) c y hix hs).2.2 (by rw [hrp, h0])
      exact ⟨m + 1, by omega, this.1, this.2⟩
    · rw [hnone] at hx; cases hx
  rcases hp with h0 | h0
  · obtain ⟨m, hnm, ⟨x, hx, hix⟩, hrp⟩ := rem_eventually_steps e hf c n (Or.inr (Or.inl h0))
    rcases e.next m with ⟨y, hy, hs⟩ | ⟨hnone, _⟩
    · have : y = x := by rw [hx] at hy; exact (Option.some.inj hy).symm
      subst this
      have := (rem_step_result (e.reach m) c y hix hs).2.1 (by rw [hrp, h0])
      obtain ⟨m', h1, h2, h3⟩ := del (m + 1) this
      exact ⟨m', by omega, h2, h3⟩
    · rw [hnone] at hx; cases hx
  · exact del n h0

theorem acquire_result {s s' : St} (g : Sid) (hs : step s (.acquire g) = some s') : (s'.spc g).held = true := by
  simp only [step] at hs
  split at hs
  · cases hs; simp [SPc.held]
  · cases hs

theorem rmToken_result {s s' : St} (c : Chan) (hs : step s (.rmToken c) = some s') : s'.rpc c = .token := by
  simp only [step] at hs
  split at hs
  · cases hs; simp
  · cases hs

theorem selRecv_result {s s' : St} (g : Sid) (c : Chan) (hs : step s (.selRecv g c) = some s') : s'.rpc c = .done := by
  simp only [step] at hs
  split at hs
  · cases hs; simp
  · cases hs

/-- on a fair execution the token is free again and again -/
theorem token_recurs (e : Exec) (hf : Fair e) (n : Nat) : TokenRecurs e n := by
  intro k _
  cases htf : (e.σ k).tokenFree with
  | true => exact ⟨k, Nat.le_refl _, htf⟩
  | false =>
    have ha := invA_reach (e.reach k)
    cases hh : (e.σ k).holder with
    | none => have := ha.tok.mpr hh; rw [htf] at this; cases this
    | sender g =>
      obtain ⟨m, h1, _, h3⟩ := held_terminates e hf g k ((ha.hs g).mpr hh)
      exact ⟨m, h1, h3⟩
    | remover c =>
      have hheld := (ha.hr c).mpr hh
      have hnp := ha.no_panic_r c
      have : (e.σ k).rpc c = .token ∨ (e.σ k).rpc c = .deleted := by
        cases hpc : (e.σ k).rpc c <;> simp_all [RPc.held]
      obtain ⟨m, h1, _, h3⟩ := rem_holder_terminates e hf c k this
      exact ⟨m, h1, h3⟩

/-- SEND TERMINATES: on every fair execution a Send that has been called returns -/
theorem send_terminates_pc (e : Exec) (hf : Fair e) (g : Sid) (n : Nat) (h0 : (e.σ n).spc g ≠ .idle) :
    ∃ m, n ≤ m ∧ ∃ r, (e.σ m).spc g = .done r := by
  have hnp := (invA_reach (e.reach n)).no_panic_s g
  by_cases hheld : ((e.σ n).spc g).held = true
  · obtain ⟨m, h1, h2, _⟩ := held_terminates e hf g n hheld
    exact ⟨m, h1, h2⟩
  · cases hpc : (e.σ n).spc g with
    | idle => exact absurd hpc h0
    | done r => exact ⟨n, Nat.le_refl _, r, hpc⟩
    | panicked => exact absurd hpc hnp
    | locked => simp [hpc, SPc.held] at hheld
    | sweep i => simp [hpc, SPc.held] at hheld
    | sel => simp [hpc, SPc.held] at hheld
    | removing c => simp [hpc, SPc.held] at hheld
    | start =>
      -- blocked in `<-f.sendLock`: it cannot wait forever because the token recurs
      have hnot : ¬ ∀ m, n ≤ m → (e.σ m).spc g = .start := fun hall => hf.token_send g n hall (token_recurs e hf n)
      obtain ⟨m, hnm, hst, hch⟩ := exists_change (fun m => (e.σ m).spc g = .start) n hpc hnot
      rcases e.next m with ⟨x, hx, hs⟩ | ⟨_, h⟩
      · by_cases hxa : x = .acquire g
        · subst hxa
          have : ((e.σ (m + 1)).spc g).held = true := acquire_result g hs
          obtain ⟨m', h1, h2, _⟩ := held_terminates e hf g (m + 1) this
          exact ⟨m', by omega, h2⟩
        · exact absurd (start_frame g x hst hxa hs) hch
      · exact absurd (by rw [h]; exact hst) hch

/-- REMOVE TERMINATES: on every fair execution an Unsubscribe that has been called returns -/
theorem remove_terminates_pc (e : Exec) (hf : Fair e) (c : Chan) (n : Nat) (h0 : (e.σ n).rpc c ≠ .idle) :
    ∃ m, n ≤ m ∧ (e.σ m).rpc c = .done := by
  have hnp := (invA_reach (e.reach n)).no_panic_r c
  -- from the select
  have fromSel : ∀ n, (e.σ n).rpc c = .sel → ∃ m, n ≤ m ∧ (e.σ m).rpc c = .done := by
    intro n hsel
    have hnot : ¬ ∀ m, n ≤ m → (e.σ m).rpc c = .sel := fun hall => hf.token_rem c n hall (token_recurs e hf n)
    obtain ⟨m, hnm, hst, hch⟩ := exists_change (fun m => (e.σ m).rpc c = .sel) n hsel hnot
    rcases e.next m with ⟨x, hx, hs⟩ | ⟨_, h⟩
    · by_cases hx1 : x = .rmToken c
      · subst hx1
        have : (e.σ (m + 1)).rpc c = .token := rmToken_result c hs
        obtain ⟨m', h1, h2, _⟩ := rem_holder_terminates e hf c (m + 1) (Or.inl this)
        exact ⟨m', by omega, h2⟩
      · by_cases hx2 : ∃ g, x = .selRecv g c
        · obtain ⟨g, hxg⟩ := hx2
          subst hxg
          have : (e.σ (m + 1)).rpc c = .done := selRecv_result g c hs
          exact ⟨m + 1, by omega, this⟩
        · exact absurd (rpc_sel_frame c x hst hx1 (fun g hg => hx2 ⟨g, hg⟩) hs) hch
    · exact absurd (by rw [h]; exact hst) hch
  cases hpc : (e.σ n).rpc c with
  | idle => exact absurd hpc h0
  | done => exact ⟨n, Nat.le_refl _, hpc⟩
  | panicked => exact absurd hpc hnp
  | sel => exact fromSel n hpc
  | token =>
    obtain ⟨m, h1, h2, _⟩ := rem_holder_terminates e hf c n (Or.inl hpc)
    exact ⟨m, h1, h2⟩
  | deleted =>
    obtain ⟨m, h1, h2, _⟩ := rem_holder_terminates e hf c n (Or.inr hpc)
    exact ⟨m, h1, h2⟩
  | start =>
    obtain ⟨m, hnm, ⟨x, hx, hix⟩, hrp⟩ := rem_eventually_steps e hf c n (Or.inl hpc)
    rcases e.next m with ⟨y, hy, hs⟩ | ⟨hnone, _⟩
    · have : y = x := by rw [hx] at hy; exact (Option.some.inj hy).symm
      subst this
      rcases (rem_step_result (e.reach m) c y hix hs).1 (by rw [hrp, hpc]) with hd | hsel
      · exact ⟨m + 1, by omega, hd⟩
      · obtain ⟨m', h1, h2⟩ := fromSel (m + 1) hsel
        exact ⟨m', by omega, h2⟩
    · rw [hnone] at hx; cases hx

end Aqv.Feed

/-
  Aqv.Lemmas.StateBlock — block-level facts: Finalise is independent of the iteration order over the dirty set, and the
  invariants needed by `revert_exact` hold in every state reachable by a history whose Finalise calls use one flag.
-/
import Aqv.Lemmas.StateRevert
namespace Aqv.State

/-! ### Finalise does not depend on the iteration order -/

theorem finStep_objs_ne (d : Bool) (s : SDB) (a b : Addr) (h : b ≠ a) : (finStep d s a).objs b = s.objs b := by
  unfold finStep; split
  · rfl
  · split <;> simp [upd, h]

theorem finStep_trie_ne (d : Bool) (s : SDB) (a b : Addr) (h : b ≠ a) : (finStep d s a).trie b = s.trie b := by
  unfold finStep; split
  · rfl
  · split <;> simp [upd, h]

/-- the per-address effect of one loop iteration, as a function of the raw map entry. -/
def finObj (d : Bool) (o : Obj) : Obj := if delCond d o then { o with deleted := true } else o.flush
def finLeaf (d : Bool) (o : Obj) : Option Acct := if delCond d o then none else some o.toAcct
def finBad (d : Bool) (x : Option Obj) : Bool :=
  match x with
  | none => true
  | some o => !delCond d o && decide (o.balance < 0)

theorem finStep_objs_same (d : Bool) (s : SDB) (a : Addr) : (finStep d s a).objs a = (s.objs a).map (finObj d) := by
  unfold finStep finObj
  cases h : s.objs a with
  | none => simp [h]
  | some o => simp only [Option.map]; split <;> simp [upd]

theorem finStep_trie_same (d : Bool) (s : SDB) (a : Addr) :
    (finStep d s a).trie a = match s.objs a with | none => s.trie a | some o => finLeaf d o := by
  unfold finStep finLeaf
  cases h : s.objs a with
  | none => simp
  | some o => simp only; split <;> simp [upd]

theorem finStep_fault (d : Bool) (s : SDB) (a : Addr) : (finStep d s a).fault = (s.fault || finBad d (s.objs a)) := by
  unfold finStep finBad
  cases h : s.objs a with
  | none => simp
  | some o =>
    simp only
    split
    · rename_i hd; simp [hd]
    · rename_i hd; simp [hd]

theorem finStep_other (d : Bool) (s : SDB) (a : Addr) :
    (finStep d s a).dirty = s.dirty ∧ (finStep d s a).journal = s.journal ∧ (finStep d s a).revs = s.revs ∧
    (finStep d s a).nextId = s.nextId ∧ (finStep d s a).refund = s.refund ∧ (finStep d s a).thash = s.thash ∧
    (finStep d s a).logs = s.logs ∧ (finStep d s a).logSize = s.logSize ∧ (finStep d s a).preimages = s.preimages := by
  unfold finStep; split
  · simp
  · split <;> simp

/-- the state after folding `finStep` over a duplicate-free list, described pointwise. -/
theorem foldl_finStep (d : Bool) : ∀ (l : List Addr) (s : SDB), l.Nodup →
    let t := l.foldl (finStep d) s
    (∀ a, t.objs a = if a ∈ l then (s.objs a).map (finObj d) else s.objs a) ∧
    (∀ a, t.trie a = if a ∈ l then (match s.objs a with | none => s.trie a | some o => finLeaf d o) else s.trie a) ∧
    t.fault = (s.fault || l.any (fun a => finBad d (s.objs a))) ∧
    t.dirty = s.dirty ∧ t.nextId = s.nextId ∧ t.thash = s.thash ∧ t.logs = s.logs ∧ t.logSize = s.logSize ∧
    t.preimages = s.preimages
  | [], s, _ => by simp
  | x :: xs, s, hnd => by
    have hx : x ∉ xs := (List.nodup_cons.mp hnd).1
    have ih := foldl_finStep d xs (finStep d s x) (List.nodup_cons.mp hnd).2
    obtain ⟨i1, i2, i3, i4, i5, i6, i7, i8, i9⟩ := ih
    obtain ⟨o1, _, _, o4, _, o6, o7, o8, o9⟩ := finStep_other d s x
    simp only [List.foldl_cons]
    refine ⟨fun a => ?_, fun a => ?_, ?_, by rw [i4, o1], by rw [i5, o4], by rw [i6, o6], by rw [i7, o7], by rw [i8, o8], by rw [i9, o9]⟩
    · rw [i1 a]
      by_cases hax : a = x
      · subst hax; simp [hx, finStep_objs_same]
      · simp [hax, finStep_objs_ne d s x a hax]
    · rw [i2 a]
      by_cases hax : a = x
      · subst hax; simp [hx, finStep_trie_same]
      · simp [hax, finStep_trie_ne d s x a hax, finStep_objs_ne d s x a hax]
    · have hany : xs.any (fun a => finBad d ((finStep d s x).objs a)) = xs.any (fun a => finBad d (s.objs a)) := by
        rw [Bool.eq_iff_iff]; simp only [List.any_eq_true]
        constructor
        · rintro ⟨a, ha, hb⟩; exact ⟨a, ha, by rwa [finStep_objs_ne d s x a (fun h => hx (h ▸ ha))] at hb⟩
        · rintro ⟨a, ha, hb⟩; exact ⟨a, ha, by rwa [finStep_objs_ne d s x a (fun h => hx (h ▸ ha))]⟩
      rw [i3, finStep_fault, List.any_cons, hany, Bool.or_assoc]

theorem finalise_objs (d : Bool) (s : SDB) (a : Addr) :
    (finalise d s).objs a = if a ∈ s.dirty then (s.objs a).map (finObj d) else s.objs a := by
  simp only [finalise]
  split
  · cases s.objs a with
    | none => rfl
    | some o => simp only [Option.map, finObj]; split <;> rfl
  · rfl

theorem finalise_trie (d : Bool) (s : SDB) (a : Addr) :
    (finalise d s).trie a = if a ∈ s.dirty then (match s.objs a with | none => s.trie a | some o => finLeaf d o) else s.trie a := by
  simp only [finalise]
  split
  · cases s.objs a with
    | none => rfl
    | some o => simp only [finLeaf]
  · rfl

theorem SDB.ext' {s t : SDB} (h1 : s.trie = t.trie) (h2 : s.objs = t.objs) (h3 : s.dirty = t.dirty) (h4 : s.journal = t.journal)
    (h5 : s.revs = t.revs) (h6 : s.nextId = t.nextId) (h7 : s.refund = t.refund) (h8 : s.thash = t.thash) (h9 : s.logs = t.logs)
    (h10 : s.logSize = t.logSize) (h11 : s.preimages = t.preimages) (h12 : s.fault = t.fault) : s = t := by
  cases s; cases t; simp_all

/-- `Finalise` computes the same state whatever order Go's map iteration visits the dirty set in. -/
theorem finaliseFold_eq (d : Bool) (s : SDB) (order : List Addr) (hnd : order.Nodup) (hmem : ∀ a, a ∈ order ↔ a ∈ s.dirty) :
    finaliseFold d order s = finalise d s := by
  obtain ⟨i1, i2, i3, i4, i5, i6, i7, i8, i9⟩ := foldl_finStep d order s hnd
  apply SDB.ext'
  · funext a; simp only [finaliseFold, clearJournalAndRefund]; rw [i2 a, finalise_trie]; simp [hmem a]
  · funext a; simp only [finaliseFold, clearJournalAndRefund]; rw [i1 a, finalise_objs]; simp [hmem a]
  · simp only [finaliseFold, clearJournalAndRefund]; rw [i4]; rfl
  · rfl
  · rfl
  · simp only [finaliseFold, clearJournalAndRefund]; rw [i5]; rfl
  · rfl
  · simp only [finaliseFold, clearJournalAndRefund]; rw [i6]; rfl
  · simp only [finaliseFold, clearJournalAndRefund]; rw [i7]; rfl
  · simp only [finaliseFold, clearJournalAndRefund]; rw [i8]; rfl
  · simp only [finaliseFold, clearJournalAndRefund]; rw [i9]; rfl
  · simp only [finaliseFold, clearJournalAndRefund]; rw [i3]
    simp only [finalise, finBad]
    congr 1
    rw [Bool.eq_iff_iff]
    simp only [List.any_eq_true]
    constructor
    · rintro ⟨a, ha, hb⟩; exact ⟨a, (hmem a).mp ha, hb⟩
    · rintro ⟨a, ha, hb⟩; exact ⟨a, (hmem a).mpr ha, hb⟩

end Aqv.State

/-
  Aqv.Lemmas.ChainDb — lemmas about the chain-database model (C04): store algebra, closedness, recovery.
-/
import Aqv.Model.ChainDb
namespace Aqv.ChainDb

/-! ### store algebra -/

@[simp] theorem get_nil (k : Key) : get [] k = none := rfl

theorem get_cons (k' : Key) (v : Val) (db : Db) (k : Key) :
    get ((k', v) :: db) k = if k' = k then some v else get db k := rfl

theorem get_put (db : Db) (k : Key) (v : Val) (k' : Key) :
    get (put db k v) k' = if k = k' then some v else get db k' := rfl

theorem get_put_same (db : Db) (k : Key) (v : Val) : get (put db k v) k = some v := by
  simp [get_put]

theorem get_put_ne (db : Db) {k k' : Key} (v : Val) (h : k ≠ k') : get (put db k v) k' = get db k' := by
  simp [get_put, h]

theorem get_del (db : Db) (k k' : Key) : get (del db k) k' = if k = k' then none else get db k' := by
  induction db with
  | nil => simp [del]
  | cons e rest ih =>
    obtain ⟨k₀, v₀⟩ := e
    unfold del at ih ⊢
    by_cases h0 : k₀ = k
    · subst h0
      simp only [List.filter_cons, beq_self_eq_true, Bool.not_true]
      simp only [Bool.false_eq_true, if_false]
      rw [ih]
      by_cases hk : k₀ = k'
      · simp [hk]
      · simp [hk, get_cons]
    · have : (k₀ == k) = false := by simpa using h0
      simp only [List.filter_cons, this, Bool.not_false, if_true]
      rw [get_cons, ih, get_cons]
      by_cases hk : k = k'
      · subst hk; simp [h0]
      · simp [hk]

theorem mem_keys_of_get {db : Db} {k : Key} {v : Val} (h : get db k = some v) : ∃ v', (k, v') ∈ db := by
  induction db with
  | nil => simp at h
  | cons e rest ih =>
    obtain ⟨k₀, v₀⟩ := e
    rw [get_cons] at h
    by_cases h0 : k₀ = k
    · subst h0; exact ⟨v₀, by simp⟩
    · simp only [h0, if_false] at h
      obtain ⟨v', hv⟩ := ih h
      exact ⟨v', List.mem_cons_of_mem _ hv⟩

theorem get_isSome_of_mem {db : Db} {k : Key} {v : Val} (h : (k, v) ∈ db) : (get db k).isSome = true := by
  induction db with
  | nil => simp at h
  | cons e rest ih =>
    obtain ⟨k₀, v₀⟩ := e
    rw [get_cons]
    by_cases h0 : k₀ = k
    · simp [h0]
    · simp only [h0, if_false]
      rcases List.mem_cons.mp h with h1 | h1
      · exact absurd (by injection h1 with a _; exact a.symm) h0
      · exact ih h1

/-! ### closedness: the boolean check is the proposition -/

theorem closedB_iff (db : Db) : closedB db = true ↔ Closed db := by
  constructor
  · intro hc h cs hg c hcmem
    unfold closedB at hc
    rw [List.all_eq_true] at hc
    obtain ⟨v', hv'⟩ := mem_keys_of_get hg
    have := hc _ hv'
    simp only [hg] at this
    rw [List.all_eq_true] at this
    exact this c hcmem
  · intro hcl
    unfold closedB
    rw [List.all_eq_true]
    intro e _
    obtain ⟨k, v⟩ := e
    cases k with
    | node hh =>
      simp only
      split
      · rename_i cs hg
        rw [List.all_eq_true]
        intro c hc
        exact hcl hh cs hg c hc
      · rfl
    | _ => rfl

instance (db : Db) : Decidable (Closed db) := decidable_of_iff _ (closedB_iff db)

/-- a closed store holds the complete state below every stored root -/
theorem stateComplete_of_closed {db : Db} (hc : Closed db) {root : Hash} (hr : hasState db root = true) :
    StateComplete db root := by
  intro x hx
  induction hx with
  | refl => exact hr
  | step _ hg hmem _ => exact hc _ _ hg _ hmem

/-! ### recovery -/

theorem getHeader_num {db : Db} {h : Hash} {n : Nat} {hd : Hdr} (hg : getHeader db h n = some hd) : hd.num = n := by
  unfold getHeader at hg
  split at hg
  · split at hg
    · injection hg with hg; subst hg; assumption
    · simp at hg
  · simp at hg

theorem getBlock_num {db : Db} {h : Hash} {n : Nat} {hd : Hdr} (hg : getBlock db h n = some hd) : hd.num = n := by
  unfold getBlock at hg
  split at hg
  · rename_i hd' hh
    split at hg
    · injection hg with hg; subst hg; exact getHeader_num hh
    · simp at hg
  · simp at hg

theorem canonAgrees_of_chainOK {db : Db} : ∀ (fuel : Nat) (h : Hash) (n : Nat),
    chainOK db fuel h n = true → CanonAgrees db h n := by
  intro fuel
  induction fuel with
  | zero => intro h n hc; simp [chainOK] at hc
  | succ fuel ih =>
    intro h n hc
    unfold chainOK at hc
    split at hc
    · simp at hc
    · rename_i hd hb
      simp only [Bool.and_eq_true, beq_iff_eq, Bool.or_eq_true] at hc
      obtain ⟨hcan, hrest⟩ := hc
      cases n with
      | zero => exact CanonAgrees.genesis hb hcan
      | succ m =>
        rcases hrest with h0 | h1
        · simp at h0
        · exact CanonAgrees.succ hb hcan (ih _ _ (by simpa using h1))

theorem genesis_of_canonAgrees {db : Db} {h : Hash} {n : Nat} (hc : CanonAgrees db h n) :
    ∃ g hg, canonHash db 0 = some g ∧ getBlock db g 0 = some hg := by
  induction hc with
  | genesis hb hcan => exact ⟨_, _, hcan, hb⟩
  | succ _ _ _ ih => exact ih

theorem canonAgrees_of_nearest {db : Db} {h a : Hash} {n m : Nat} (hn : NearestWithState db h n a m)
    (hc : CanonAgrees db h n) : CanonAgrees db a m := by
  induction hn with
  | here _ _ => exact hc
  | up hb _ _ ih =>
    cases hc with
    | succ hb' _ hp =>
      rw [hb] at hb'
      injection hb' with hb'
      subst hb'
      exact ih hp

/-- `repair` finds the nearest block of the head chain whose state root is on disk -/
theorem repair_spec {db : Db} : ∀ (fuel : Nat) (h : Hash) (n : Nat) (hd : Hdr),
    getBlock db h n = some hd → repairable db fuel h n = true →
    ∃ a m hda, repair db fuel h hd = .ok a m ∧ NearestWithState db h n a m ∧
      getBlock db a m = some hda ∧ hasState db hda.root = true := by
  intro fuel
  induction fuel with
  | zero => intro h n hd _ hr; simp [repairable] at hr
  | succ fuel ih =>
    intro h n hd hb hr
    have hnum := getBlock_num hb
    unfold repairable at hr
    rw [hb] at hr
    simp only [Bool.or_eq_true, Bool.and_eq_true, bne_iff_ne, ne_eq] at hr
    unfold repair
    by_cases hs : hasState db hd.root = true
    · refine ⟨h, n, hd, ?_, NearestWithState.here hb hs, hb, hs⟩
      simp [hs, hnum]
    · rcases hr with h1 | ⟨hn0, hrest⟩
      · exact absurd h1 hs
      · have hn0' : hd.num ≠ 0 := by rw [hnum]; exact hn0
        -- the recursive call needs the parent block
        cases fuel with
        | zero => simp [repairable] at hrest
        | succ f =>
          have hrest' := hrest
          unfold repairable at hrest'
          cases hpb : getBlock db hd.parent (n - 1) with
          | none => simp [hpb] at hrest'
          | some hd' =>
            obtain ⟨a, m, hda, hrep, hnear, hba, hsa⟩ := ih hd.parent (n - 1) hd' hpb hrest
            refine ⟨a, m, hda, ?_, ?_, hba, hsa⟩
            · have hs' : hasState db hd.root = false := by simpa using hs
              simp only [hs', hnum, hpb, hn0, if_false, Bool.false_eq_true]
              exact hrep
            · obtain ⟨k, rfl⟩ : ∃ k, n = k + 1 := ⟨n - 1, by omega⟩
              have hsf : hasState db hd.root = false := by simpa using hs
              exact NearestWithState.up hb hsf (by simpa using hnear)

theorem chainOK_block {db : Db} {fuel : Nat} {h : Hash} {n : Nat} (hc : chainOK db fuel h n = true) :
    ∃ hd, getBlock db h n = some hd := by
  cases fuel with
  | zero => simp [chainOK] at hc
  | succ f =>
    unfold chainOK at hc
    split at hc
    · simp at hc
    · rename_i hd hb; exact ⟨hd, hb⟩

/-- **the theorem about loadLastState / repair**: an image that satisfies the local discipline reopens correctly -/
theorem localOK_recovers' (archive : Bool) (db : Db) (hl : LocalOK archive db = true) :
    RecoverOK archive db (recover db) := by
  unfold LocalOK at hl
  split at hl
  · simp at hl
  · rename_i h hhead
    split at hl
    · simp at hl
    · rename_i n hnum
      simp only [Bool.and_eq_true, Bool.or_eq_true, Bool.not_eq_true'] at hl
      obtain ⟨⟨⟨hchain, hrep⟩, hclosed⟩, harch⟩ := hl
      obtain ⟨hd, hb⟩ := chainOK_block hchain
      have hca := canonAgrees_of_chainOK _ _ _ hchain
      obtain ⟨g, hg, hcan0, hgb⟩ := genesis_of_canonAgrees hca
      have hclosedP : Closed db := (closedB_iff db).mp hclosed
      have hdnum := getBlock_num hb
      obtain ⟨a, m, hda, hrepair, hnear, hba, hsa⟩ := repair_spec (n + 1) h n hd hb hrep
      have hrec : recover db = .ok a m := by
        unfold recover getBlockByNumber
        simp only [hcan0, hgb, Option.map_some, hhead]
        unfold getBlockByHash
        simp only [hnum, hb, hdnum]
        exact hrepair
      refine ⟨h, n, a, m, hda, hhead, hnum, hrec, hnear, ?_, hba, stateComplete_of_closed hclosedP hsa,
        canonAgrees_of_nearest hnear hca⟩
      intro ha
      subst ha
      simp only [hb] at harch
      have harch' : hasState db hd.root = true := by
        rcases harch with h1 | h1
        · simp at h1
        · exact h1
      -- the head itself has state: repair stops immediately
      unfold repair at hrepair
      simp only [harch', if_true] at hrepair
      injection hrepair with h1 _
      exact h1.symm

/-! ### traces -/

theorem ghostAt_cons (g : Hash) (e : Event) (g' : Hash) (p : List GEvent) :
    ghostAt g ((e, g') :: p) = ghostAt g' p := by
  unfold ghostAt
  cases p with
  | nil => rfl
  | cons x xs =>
    simp only [List.getLast?_cons_cons]
    cases hl : (x :: xs).getLast? with
    | none => simp at hl
    | some y => rfl

theorem traceOK_head {ar : Bool} {db : Db} {g : Hash} {tr : List GEvent} (h : TraceOK ar db g tr = true) :
    imageOK ar db g = true := by
  cases tr with
  | nil => exact h
  | cons x rest =>
    obtain ⟨e, g'⟩ := x
    unfold TraceOK at h
    exact (Bool.and_eq_true _ _ ▸ h).1

theorem traceOK_prefix {ar : Bool} : ∀ (tr : List GEvent) (db : Db) (g : Hash), TraceOK ar db g tr = true →
    ∀ p, p <+: tr → imageOK ar (applyAll db (p.map (·.1))) (ghostAt g p) = true := by
  intro tr
  induction tr with
  | nil =>
    intro db g h p hp
    have : p = [] := List.prefix_nil.mp hp
    subst this
    exact h
  | cons x rest ih =>
    intro db g h p hp
    obtain ⟨e, g'⟩ := x
    cases p with
    | nil => exact traceOK_head h
    | cons y p' =>
      have hy := List.cons_prefix_cons.mp hp
      obtain ⟨hy1, hy2⟩ := hy
      subst hy1
      unfold TraceOK at h
      have h2 := (Bool.and_eq_true _ _ ▸ h).2
      have := ih (apply db e) g' h2 p' hy2
      simpa [applyAll, ghostAt_cons] using this

/-! ### trie commit: children first, closed at every prefix -/

theorem get_putNode (db : Db) (p : Hash × List Hash) (k : Key) :
    get (putNode db p) k = if Key.node p.1 = k then some (Val.node p.2) else get db k := rfl

theorem present_putNode {db : Db} (p : Hash × List Hash) {c : Hash} (h : (get db (.node c)).isSome = true) :
    (get (putNode db p) (.node c)).isSome = true := by
  rw [get_putNode]
  split
  · rfl
  · exact h

theorem present_foldl_putNode {db : Db} (ps : List (Hash × List Hash)) {c : Hash}
    (h : (get db (.node c)).isSome = true) : (get (ps.foldl putNode db) (.node c)).isSome = true := by
  induction ps generalizing db with
  | nil => exact h
  | cons p rest ih => exact ih (present_putNode p h)

theorem childrenFirstB_mono {db db' : Db} (hm : ∀ c, (get db (.node c)).isSome = true → (get db' (.node c)).isSome = true) :
    ∀ (ps : List (Hash × List Hash)), childrenFirstB db ps = true → childrenFirstB db' ps = true := by
  intro ps
  induction ps generalizing db db' with
  | nil => intro _; rfl
  | cons p rest ih =>
    intro h
    unfold childrenFirstB at h ⊢
    simp only [Bool.and_eq_true, List.all_eq_true] at h ⊢
    refine ⟨fun c hc => hm c (h.1 c hc), ih ?_ h.2⟩
    intro c hc
    rw [get_putNode] at hc ⊢
    split
    · rfl
    · rename_i hne
      simp only [hne, if_false] at hc
      exact hm c hc

theorem childrenFirstB_append (db : Db) (xs ys : List (Hash × List Hash)) :
    childrenFirstB db (xs ++ ys) = (childrenFirstB db xs && childrenFirstB (xs.foldl putNode db) ys) := by
  induction xs generalizing db with
  | nil => simp [childrenFirstB]
  | cons x rest ih =>
    simp only [List.cons_append, childrenFirstB, List.foldl_cons, ih, Bool.and_assoc]

theorem foldl_putNode_append (db : Db) (xs ys : List (Hash × List Hash)) :
    (xs ++ ys).foldl putNode db = ys.foldl putNode (xs.foldl putNode db) := List.foldl_append

mutual
/-- `commit` on a dirty tree whose references out of the memory layer are on disk emits a children-first put sequence,
    and afterwards the tree's own root is stored -/
theorem commitPuts_spec : ∀ (t : MTree) (db : Db),
    (∀ c ∈ t.diskRefs, (get db (.node c)).isSome = true) →
    childrenFirstB db (commitPuts t) = true ∧ (get ((commitPuts t).foldl putNode db) (.node t.hash)).isSome = true
  | .node h kids dk, db, hd => by
    have hdk : ∀ c ∈ dk, (get db (.node c)).isSome = true := fun c hc => hd c (by simp [MTree.diskRefs, hc])
    have hkids : ∀ c ∈ MTree.diskRefsL kids, (get db (.node c)).isSome = true :=
      fun c hc => hd c (by simp [MTree.diskRefs, hc])
    obtain ⟨h1, h2⟩ := commitPutsL_spec kids db hkids
    unfold commitPuts
    rw [childrenFirstB_append, foldl_putNode_append]
    refine ⟨?_, ?_⟩
    · simp only [h1, Bool.true_and, childrenFirstB, Bool.and_true, List.all_eq_true]
      intro c hc
      rcases List.mem_append.mp hc with hc | hc
      · obtain ⟨t, ht, rfl⟩ := List.mem_map.mp hc
        exact h2 t ht
      · exact present_foldl_putNode _ (hdk c hc)
    · simp [MTree.hash, putNode, get_put]
theorem commitPutsL_spec : ∀ (ts : List MTree) (db : Db),
    (∀ c ∈ MTree.diskRefsL ts, (get db (.node c)).isSome = true) →
    childrenFirstB db (commitPutsL ts) = true ∧
      ∀ t ∈ ts, (get ((commitPutsL ts).foldl putNode db) (.node t.hash)).isSome = true
  | [], db, _ => by simp [commitPutsL, childrenFirstB]
  | t :: ts, db, hd => by
    have ht : ∀ c ∈ t.diskRefs, (get db (.node c)).isSome = true := fun c hc => hd c (by simp [MTree.diskRefsL, hc])
    have hts : ∀ c ∈ MTree.diskRefsL ts, (get db (.node c)).isSome = true := fun c hc => hd c (by simp [MTree.diskRefsL, hc])
    obtain ⟨h1, h2⟩ := commitPuts_spec t db ht
    have hts' : ∀ c ∈ MTree.diskRefsL ts, (get ((commitPuts t).foldl putNode db) (.node c)).isSome = true :=
      fun c hc => present_foldl_putNode _ (hts c hc)
    obtain ⟨h3, h4⟩ := commitPutsL_spec ts _ hts'
    unfold commitPutsL
    rw [childrenFirstB_append, foldl_putNode_append]
    refine ⟨by simp [h1, h3], ?_⟩
    intro t' ht'
    rcases List.mem_cons.mp ht' with rfl | ht'
    · exact present_foldl_putNode _ h2
    · exact h4 t' ht'
end

/-- one children-first put keeps the store closed -/
theorem closed_putNode {db : Db} (hc : Closed db) (p : Hash × List Hash)
    (hp : ∀ c ∈ p.2, (get db (.node c)).isSome = true) : Closed (putNode db p) := by
  intro h cs hg c hcm
  rw [get_putNode] at hg
  split at hg
  · injection hg with hg; injection hg with hg; subst hg
    exact present_putNode p (hp c hcm)
  · exact present_putNode p (hc h cs hg c hcm)

theorem closed_foldl_putNode {db : Db} (hc : Closed db) : ∀ (ps : List (Hash × List Hash)),
    childrenFirstB db ps = true → Closed (ps.foldl putNode db) := by
  intro ps
  induction ps generalizing db with
  | nil => intro _; exact hc
  | cons p rest ih =>
    intro h
    unfold childrenFirstB at h
    simp only [Bool.and_eq_true, List.all_eq_true] at h
    exact ih (closed_putNode hc p h.1) h.2

theorem childrenFirstB_prefix {db : Db} {ps qs : List (Hash × List Hash)} (hpre : qs <+: ps)
    (h : childrenFirstB db ps = true) : childrenFirstB db qs = true := by
  obtain ⟨r, rfl⟩ := hpre
  rw [childrenFirstB_append] at h
  exact (Bool.and_eq_true _ _ ▸ h).1

/-- one flushed batch of node puts -/
def nodeBatch (c : List (Hash × List Hash)) : Event := .batch (c.map fun p => (Key.node p.1, some (Val.node p.2)))

theorem apply_nodeBatch (db : Db) (c : List (Hash × List Hash)) : apply db (nodeBatch c) = c.foldl putNode db := by
  unfold nodeBatch apply
  induction c generalizing db with
  | nil => rfl
  | cons p rest ih => simp only [List.map_cons, List.foldl_cons]; exact ih _

theorem applyAll_nodeBatches (db : Db) (chunks : List (List (Hash × List Hash))) :
    applyAll db (chunks.map nodeBatch) = chunks.flatten.foldl putNode db := by
  induction chunks generalizing db with
  | nil => rfl
  | cons c rest ih =>
    simp only [List.map_cons, applyAll, List.foldl_cons, List.flatten_cons, List.foldl_append]
    rw [apply_nodeBatch]
    exact ih _

/-! ### `Database.Commit`: lock balance -/

theorem lockOps_append (xs ys : List Act) : lockOps (xs ++ ys) = lockOps xs ++ lockOps ys := by
  induction xs with
  | nil => rfl
  | cons a rest ih => cases a <;> simp [lockOps, ih]

theorem held_append (xs ys : List LockOp) :
    held (xs ++ ys) = ((held xs).1 + (held ys).1, (held xs).2 + (held ys).2) := by
  induction xs with
  | nil => simp [held]
  | cons a rest ih =>
    cases a <;> simp only [List.cons_append, held, ih] <;> ext <;> simp <;> omega

theorem writeBatch_lockOps (f : Option Nat) (s : CState) : lockOps (writeBatch f s).2.acts = lockOps s.acts := by
  unfold writeBatch
  split <;> simp [lockOps_append, lockOps]

theorem preLoop_lockOps (limit : Nat) (f : Option Nat) : ∀ (pre : List (Hash × Nat)) (s : CState),
    lockOps (preLoop limit f pre s).2.acts = lockOps s.acts := by
  intro pre
  induction pre with
  | nil => intro s; rfl
  | cons p rest ih =>
    intro s
    obtain ⟨h, sz⟩ := p
    unfold preLoop
    simp only
    split
    · split
      · rename_i s2 hw
        have := writeBatch_lockOps f { s with batch := s.batch ++ [(Key.preimage h, some Val.blob)], size := s.size + sz }
        rw [hw] at this
        exact this
      · rename_i s2 hw
        rw [ih]
        have := writeBatch_lockOps f { s with batch := s.batch ++ [(Key.preimage h, some Val.blob)], size := s.size + sz }
        rw [hw] at this
        exact this
    · rw [ih]

theorem nodeLoop_lockOps (limit : Nat) (f : Option Nat) : ∀ (nodes : List (Hash × List Hash × Nat)) (s : CState),
    lockOps (nodeLoop limit f nodes s).2.acts = lockOps s.acts := by
  intro nodes
  induction nodes with
  | nil => intro s; rfl
  | cons p rest ih =>
    intro s
    obtain ⟨h, cs, sz⟩ := p
    unfold nodeLoop
    simp only
    split
    · split
      · rename_i s2 hw
        have := writeBatch_lockOps f { s with batch := s.batch ++ [(Key.node h, some (Val.node cs))], size := s.size + sz }
        rw [hw] at this
        exact this
      · rename_i s2 hw
        rw [ih]
        have := writeBatch_lockOps f { s with batch := s.batch ++ [(Key.node h, some (Val.node cs))], size := s.size + sz }
        rw [hw] at this
        exact this
    · rw [ih]

/-- the lock operations of a run of `Commit` (any inputs, any failing write) -/
theorem commitRun_lockOps (fixed : Bool) (limit : Nat) (pre : List (Hash × Nat)) (nodes : List (Hash × List Hash × Nat))
    (failAt : Option Nat) :
    lockOps (commitRun fixed limit pre nodes failAt).1 =
      if (preLoop limit failAt pre { acts := [.lk .rlock] }).1 = false then
        (if fixed then [.rlock, .runlock] else [.rlock])
      else if (nodeLoop limit failAt nodes (preLoop limit failAt pre { acts := [.lk .rlock] }).2).1 = false then [.rlock, .runlock]
      else if (writeBatch failAt (nodeLoop limit failAt nodes (preLoop limit failAt pre { acts := [.lk .rlock] }).2).2).1 = false
        then [.rlock, .runlock]
      else [.rlock, .runlock, .lock, .unlock] := by
  unfold commitRun
  simp only
  have hp := preLoop_lockOps limit failAt pre { acts := [.lk .rlock] }
  cases hpl : preLoop limit failAt pre { acts := [.lk .rlock] } with
  | mk okp sp =>
    rw [hpl] at hp
    simp only at hp
    cases okp with
    | false =>
      simp only [if_true]
      cases fixed <;> simp [lockOps_append, hp, lockOps]
    | true =>
      simp only [Bool.true_eq_false, if_false]
      have hn := nodeLoop_lockOps limit failAt nodes sp
      cases hnl : nodeLoop limit failAt nodes sp with
      | mk okn sn =>
        rw [hnl] at hn
        simp only at hn
        cases okn with
        | false => simp [lockOps_append, hn, hp, lockOps]
        | true =>
          simp only [Bool.true_eq_false, if_false]
          have hw := writeBatch_lockOps failAt sn
          cases hwl : writeBatch failAt sn with
          | mk okw sw =>
            rw [hwl] at hw
            simp only at hw
            cases okw <;> simp [lockOps_append, hw, hn, hp, lockOps]

/-! ### the block cache: populated only by reads (and never before a flush), it stays coherent -/

/-- the steps the code as written performs on (cache, store) during imports, Stop and failed writes: reads, writes that
    keep every stored block (no import/Stop event removes one), failed writes -/
def CodeStep (db : Db) : CacheStep → Prop
  | .read _ _ => True
  | .wrote e => ∀ h n hd, getBlock db h n = some hd → getBlock (apply db e) h n = some hd
  | .failed _ => True
  | .addUnflushed _ _ => False

theorem coherent_cstep {c : BlockCache} {db : Db} (hc : Coherent c db) (st : CacheStep) (hs : CodeStep db st) :
    Coherent (cstep (c, db) st).1 (cstep (c, db) st).2 := by
  cases st with
  | read h n =>
    simp only [cstep]
    split
    · exact hc
    · split
      · rename_i hd hb
        intro h' hd' hg
        simp only [cacheGet] at hg
        split at hg
        · rename_i e
          injection hg with hg; subst hg; subst e
          rw [getBlock_num hb]; exact hb
        · exact hc h' hd' hg
      · exact hc
  | wrote e =>
    intro h hd hg
    exact hs h hd.num hd (hc h hd hg)
  | failed e => exact hc
  | addUnflushed h hd => exact hs.elim

end Aqv.ChainDb

/-
  Aqv.Lemmas.ChainCoins — the coin vectors followed by the replay driver (`Aqv.Model.ChainReplay`): the enumeration is
  complete for every resolution with at most 3 coins `true` (all resolutions up to 6 resp. 8 slots), and a coin is only
  read at an exact total-difficulty tie (at equal height for blocks), so resolutions that differ at other calls coincide.
-/
import Aqv.Model.ChainReplay
import Aqv.Lemmas.Chain
namespace Aqv.Chain
open Aqv.ChainReplay

theorem mem_boolVecs : ∀ (n : Nat) (v : List Bool), v.length = n → v ∈ boolVecs n := by
  intro n
  induction n with
  | zero => intro v hv; cases v with | nil => simp [boolVecs] | cons a w => simp at hv
  | succ n ih =>
    intro v hv
    cases v with
    | nil => simp at hv
    | cons a w =>
      have hw : w ∈ boolVecs n := ih w (by simpa using hv)
      unfold boolVecs
      apply List.mem_flatMap.mpr
      refine ⟨w, hw, ?_⟩
      cases a <;> simp

theorem mem_sparseVecs : ∀ (n k : Nat) (v : List Bool), v.length = n → v.count true ≤ k → v ∈ sparseVecs n k := by
  intro n
  induction n with
  | zero => intro k v hv _; cases v with | nil => simp [sparseVecs] | cons a w => simp at hv
  | succ n ih =>
    intro k v hv hc
    cases v with
    | nil => simp at hv
    | cons a w =>
      have hlen : w.length = n := by simpa using hv
      unfold sparseVecs
      apply List.mem_append.mpr
      cases a with
      | false =>
        left
        have : w.count true ≤ k := by simpa using hc
        exact List.mem_map.mpr ⟨w, ih k w hlen this, rfl⟩
      | true =>
        right
        have hc' : w.count true + 1 ≤ k := by simpa using hc
        have hk : k ≠ 0 := by omega
        rw [if_neg hk]
        exact List.mem_map.mpr ⟨w, ih (k - 1) w hlen (by omega), rfl⟩

/-- every resolution of `n` coins with at most 3 heads is followed; up to 6 slots every resolution is -/
theorem coinVecs_complete (n : Nat) (v : List Bool) (hv : v.length = n) (h : n ≤ 6 ∨ v.count true ≤ 3) :
    v ∈ coinVecs n := by
  unfold coinVecs
  by_cases hn : n ≤ 6
  · rw [if_pos hn]; exact mem_boolVecs n v hv
  · rw [if_neg hn]
    rcases h with h | h
    · exact absurd h hn
    · exact mem_sparseVecs n 3 v hv h

theorem hdrCoinVecs_complete (n : Nat) (v : List Bool) (hv : v.length = n) (h : n ≤ 8 ∨ v.count true ≤ 3) :
    v ∈ hdrCoinVecs n := by
  unfold hdrCoinVecs
  by_cases hn : n ≤ 8
  · rw [if_pos hn]; exact mem_boolVecs n v hv
  · rw [if_neg hn]
    rcases h with h | h
    · exact absurd h hn
    · exact mem_sparseVecs n 3 v hv h

/-- the fork choice reads the coin only at an exact total-difficulty tie at equal height -/
theorem decideReorg_coin {e l bn hn : Nat} (h : e ≠ l ∨ bn ≠ hn) (c c' : Bool) :
    decideReorg e l bn hn c = decideReorg e l bn hn c' := by
  unfold decideReorg
  rcases h with h | h
  · have : (e == l) = false := by simpa using h
    simp [this]
  · have : (bn == hn) = false := by simpa using h
    simp [this]

/-- the state in which `WriteBlockWithState s b _` reads its coin -/
def tieAt (s : St) (b : Blk) : Prop :=
  ∃ ptd cur lt, s.td b.parent = some ptd ∧ s.store s.head = some cur ∧ s.td s.head = some lt ∧
    ptd + b.diff = lt ∧ b.number = cur.number

/-- away from a tie the outcome of `WriteBlockWithState` does not depend on the coin: two resolutions that differ only at
    such calls give the same database -/
theorem wbws_coin_irrelevant (s : St) (b : Blk) (h : ¬ tieAt s b) (c c' : Bool) :
    writeBlockWithState s b c = writeBlockWithState s b c' := by
  unfold writeBlockWithState
  cases hptd : s.td b.parent with
  | none => rfl
  | some ptd =>
    simp only
    cases hcur : s.store s.head with
    | none => rfl
    | some cur =>
      cases hlt : s.td s.head with
      | none => rfl
      | some lt =>
        simp only
        have hd : decideReorg (ptd + b.diff) lt b.number cur.number c = decideReorg (ptd + b.diff) lt b.number cur.number c' := by
          apply decideReorg_coin
          by_cases h1 : ptd + b.diff = lt
          · right
            intro h2
            exact h ⟨ptd, cur, lt, hptd, hcur, hlt, h1, h2⟩
          · exact .inl h1
        rw [hd]

/-- `HeaderChain.WriteHeader` reads the coin only at an exact total-difficulty tie with the head header -/
theorem writeHeader_coin_irrelevant (s : HSt) (h : Blk)
    (hne : ∀ ptd lt, s.td h.parent = some ptd → s.td s.hhead = some lt → ptd + h.diff ≠ lt) (c c' : Bool) :
    writeHeader s h c = writeHeader s h c' := by
  unfold writeHeader
  cases hptd : s.td h.parent with
  | none => rfl
  | some ptd =>
    simp only
    cases hcur : s.store s.hhead with
    | none => rfl
    | some cur =>
      cases hlt : s.td s.hhead with
      | none => rfl
      | some lt =>
        simp only
        have : (ptd + h.diff == lt) = false := by simpa using hne ptd lt hptd hlt
        simp [this]

end Aqv.Chain

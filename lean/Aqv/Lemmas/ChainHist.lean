/-
  Aqv.Lemmas.ChainHist — histories of operations on a chain fed by full imports (shared by Props C02 and C03):
  `run`, admissibility, and the induction over histories.
-/
import Aqv.Lemmas.ChainTd
import Aqv.Lemmas.ChainWorld
namespace Aqv.Chain

/-- operations of a history on a chain fed by full imports -/
inductive Op
  | insert (chain : List Blk) (coins : List (List Bool))   -- InsertChain; `coins` resolves the coin flips
  | setHead (n : Nat)
  | reopen

def step (s : St) : Op → Out
  | .insert chain coins => (importChain s chain coins).1
  | .setHead n => setHead s n
  | .reopen => ⟨reopen s, none⟩

def run (s : St) : List Op → St
  | [] => s
  | op :: ops => run (step s op).st ops

/-- the block `SetHead(n)` rewinds to (if height `n` is indexed) still has its state -/
def stateAt (s : St) (n : Nat) : Bool :=
  match s.canon n with
  | some i => s.hasState i
  | none => true

/-- what an operation needs: imported blocks are blocks of the universe; a rewind lands on a block with state -/
def OpOk (U : Map Blk) (s : St) : Op → Prop
  | .insert chain _ => ∀ b ∈ chain, U b.id = some b
  | .setHead n => stateAt s n = true
  | .reopen => True

def Admissible (U : Map Blk) (s : St) : List Op → Prop
  | [] => True
  | op :: ops => OpOk U s op ∧ (step s op).err ≠ some .reorgFail ∧ Admissible U (step s op).st ops

instance (U : Map Blk) (s : St) : (op : Op) → Decidable (OpOk U s op)
  | .insert chain _ => inferInstanceAs (Decidable (∀ b ∈ chain, U b.id = some b))
  | .setHead n => inferInstanceAs (Decidable (stateAt s n = true))
  | .reopen => isTrue trivial

instance decAdmissible (U : Map Blk) : ∀ (ops : List Op) (s : St), Decidable (Admissible U s ops)
  | [], _ => isTrue trivial
  | op :: ops, s =>
    have := decAdmissible U ops (step s op).st
    inferInstanceAs (Decidable (OpOk U s op ∧ (step s op).err ≠ some .reorgFail ∧ Admissible U (step s op).st ops))

def IsImport : Op → Prop
  | .setHead _ => False
  | _ => True

variable {U : Map Blk}

theorem inv_step (W : World U) {s : St} (h : Inv U s) (op : Op) (hop : OpOk U s op)
    (hok : (step s op).err ≠ some .reorgFail) : Inv U (step s op).st := by
  cases op with
  | insert chain coins => exact inv_importChain W h chain hop coins hok
  | setHead n =>
    apply Aqv.Chain.inv_setHead W h n
    intro i hi
    simp only [OpOk, stateAt, hi] at hop
    exact hop
  | reopen => exact Aqv.Chain.inv_reopen W h

/-- the invariant holds after every admissible history -/
theorem inv_run (W : World U) : ∀ (ops : List Op) {s : St}, Inv U s → Admissible U s ops → Inv U (run s ops) := by
  intro ops
  induction ops with
  | nil => intro s h _; exact h
  | cons op ops ih =>
    intro s h hadm
    exact ih (inv_step W h op hadm.1 hadm.2.1) hadm.2.2

/-- histories without rewinds (imports and restarts only) never make `reorg` fail, so they need no side condition -/
theorem imports_admissible (W : World U) : ∀ (ops : List Op) {s : St} {g : Blk} {t0 : Nat}, Good U g t0 s →
    (∀ op ∈ ops, IsImport op ∧ OpOk U s op) → Admissible U s ops ∧ Good U g t0 (run s ops) := by
  intro ops
  induction ops with
  | nil => intro s g t0 h _; exact ⟨trivial, h⟩
  | cons op ops ih =>
    intro s g t0 h hops
    have hop := hops op (by simp)
    have hstep : (step s op).err ≠ some .reorgFail ∧ Good U g t0 (step s op).st := by
      cases op with
      | insert chain coins =>
        have := stable_importChain W (good_stable W g t0) h chain hop.2 coins
        exact ⟨this.2.1 trivial, this.1 (this.2.1 trivial)⟩
      | setHead n => exact hop.1.elim
      | reopen => exact ⟨by simp [step], good_reopen W h⟩
    have hrest := ih hstep.2 (fun op' hop' => by
      have := hops op' (List.mem_cons_of_mem _ hop')
      refine ⟨this.1, ?_⟩
      cases op' with
      | insert chain coins => exact this.2
      | setHead n => exact this.1.elim
      | reopen => trivial)
    exact ⟨⟨hop.2, hstep.1, hrest.1⟩, hrest.2⟩


/-- retarget the lower bound of the head's total difficulty to its current value -/
theorem good_retarget {g : Blk} {t0 : Nat} {s : St} (h : Good U g t0 s) {th : Nat} (hth : s.td s.head = some th) :
    Good U g th s := by
  obtain ⟨h1, h2, h3, h4, _, h6⟩ := h
  exact ⟨h1, h2, h3, h4, ⟨th, hth, Nat.le_refl _⟩, h6⟩

end Aqv.Chain

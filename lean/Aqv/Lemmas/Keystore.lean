/-
  Helper lemmas for C20 (keystore): hex codec round trip, CTR involution, PaddedBigBytes round trip,
  evaluation of getKDFKey on the kdfparams EncryptKey writes.
-/
import Aqv.Model.Keystore
import Aqv.Lemmas.Bytes
namespace Aqv.Keystore
open Aqv

/-! ### hex -/

theorem nibVal_hexNib (n : Nat) (h : n < 16) : nibVal (hexNib n) = some n := by
  have : n = 0 ∨ n = 1 ∨ n = 2 ∨ n = 3 ∨ n = 4 ∨ n = 5 ∨ n = 6 ∨ n = 7 ∨ n = 8 ∨ n = 9 ∨ n = 10 ∨ n = 11 ∨
      n = 12 ∨ n = 13 ∨ n = 14 ∨ n = 15 := by omega
  rcases this with h | h | h | h | h | h | h | h | h | h | h | h | h | h | h | h <;> subst h <;> decide

theorem UInt8.ofNat_div_mod (b : UInt8) : UInt8.ofNat (b.toNat / 16 * 16 + b.toNat % 16) = b := by
  have : b.toNat / 16 * 16 + b.toNat % 16 = b.toNat := by omega
  rw [this]
  exact UInt8.ofNat_toNat

/-- encoding/hex: DecodeString (EncodeToString b) = b. -/
theorem hexDecode_hexEncode (b : Bytes) : hexDecode (hexEncode b) = some b := by
  induction b with
  | nil => rfl
  | cons x r ih =>
    have hx := x.toNat_lt
    simp only [hexEncode, hexDecode]
    rw [nibVal_hexNib _ (by omega), nibVal_hexNib _ (by omega), ih]
    simp only [UInt8.ofNat_div_mod]

theorem hexEncode_length (b : Bytes) : (hexEncode b).length = 2 * b.length := by
  induction b with
  | nil => rfl
  | cons x r ih => simp only [hexEncode, List.length_cons, ih]; omega

/-! ### CTR -/

theorem xorStream_length (f : Nat → UInt8) (off : Nat) (b : Bytes) : (xorStream f off b).length = b.length := by
  induction b generalizing off with
  | nil => rfl
  | cons x r ih => simp [xorStream, ih]

/-- AES-CTR is an involution: XOR-ing twice with the same keystream is the identity. -/
theorem xorStream_xorStream (f : Nat → UInt8) (off : Nat) (b : Bytes) : xorStream f off (xorStream f off b) = b := by
  induction b generalizing off with
  | nil => rfl
  | cons x r ih =>
    simp only [xorStream, ih]
    congr 1
    rw [UInt8.xor_assoc, UInt8.xor_self, UInt8.xor_zero]

/-- two keystreams that agree on the first `b.length` positions give the same result. -/
theorem xorStream_congr (f g : Nat → UInt8) (off : Nat) (b : Bytes)
    (h : ∀ i, i < b.length → f (off + i) = g (off + i)) : xorStream f off b = xorStream g off b := by
  induction b generalizing off with
  | nil => rfl
  | cons x r ih =>
    simp only [xorStream]
    have h0 := h 0 (by simp)
    simp only [Nat.add_zero] at h0
    rw [h0, ih (off + 1) (fun i hi => by
      have := h (i + 1) (by simp; omega)
      rw [show off + (i + 1) = off + 1 + i by omega] at this
      exact this)]

/-- XOR with different keystream bytes at some position gives different output. -/
theorem xorStream_ne (f g : Nat → UInt8) (off : Nat) (b : Bytes) (i : Nat) (hi : i < b.length)
    (h : f (off + i) ≠ g (off + i)) : xorStream f off b ≠ xorStream g off b := by
  induction b generalizing off i with
  | nil => simp at hi
  | cons x r ih =>
    simp only [xorStream]
    intro heq
    injection heq with h1 h2
    cases i with
    | zero =>
      apply h
      simp only [Nat.add_zero]
      have := congrArg (fun y => x ^^^ y) h1
      simp only [← UInt8.xor_assoc, UInt8.xor_self, UInt8.zero_xor] at this
      exact this
    | succ j =>
      apply ih (off + 1) j (by simpa using hi) ?_ h2
      rw [show off + 1 + j = off + (j + 1) by omega]
      exact h

/-! ### PaddedBigBytes -/

theorem beNat_foldl (acc : Nat) (r : Bytes) :
    r.foldl (fun a (b : UInt8) => a * 256 + b.toNat) acc = acc * 256 ^ r.length + beNat r := by
  induction r generalizing acc with
  | nil => simp [beNat]
  | cons x t ih =>
    simp only [List.foldl_cons, List.length_cons, beNat]
    rw [ih, ih (0 * 256 + x.toNat)]
    simp only [Nat.zero_mul, Nat.zero_add, Nat.pow_succ, Nat.add_mul, beNat]
    rw [Nat.mul_assoc, Nat.mul_comm 256, Nat.add_assoc]

theorem beNat_cons (b : UInt8) (r : Bytes) : beNat (b :: r) = b.toNat * 256 ^ r.length + beNat r := by
  have := beNat_foldl b.toNat r
  simpa [beNat] using this

theorem beNat_zeros_append (k : Nat) (b : Bytes) : beNat (List.replicate k 0 ++ b) = beNat b := by
  induction k with
  | zero => simp
  | succ k ih =>
    rw [List.replicate_succ, List.cons_append, beNat_cons, ih]
    simp

theorem paddedBigBytes_length (d : Nat) (h : d < 256 ^ 32) : (paddedBigBytes d 32).length = 32 := by
  have := beBytes_length_le d 32 h
  simp only [paddedBigBytes, List.length_append, List.length_replicate]
  omega

theorem beNat_paddedBigBytes (d n : Nat) : beNat (paddedBigBytes d n) = d := by
  simp only [paddedBigBytes, beNat_zeros_append, beNat_beBytes]

theorem secpN_lt : secpN < 256 ^ 32 := by decide

/-- 32-byte key encoding round trip (keeps leading zero bytes): ToECDSAUnsafe (PaddedBigBytes d 32) = d. -/
theorem scalarOfBytes_padded (d : Nat) (h : d < secpN) : scalarOfBytes (paddedBigBytes d 32) = d := by
  have hl := paddedBigBytes_length d (Nat.lt_trans h secpN_lt)
  unfold scalarOfBytes
  rw [List.take_of_length_le (by omega), beNat_paddedBigBytes, Nat.mod_eq_of_lt h]

/-- the value of a key blob of at most 32 bytes is read big-endian, i.e. as if it were padded with zeros ON THE LEFT:
    PaddedBigBytes to any width n <= 32 (the zeros partly or fully stripped) gives the same scalar. -/
theorem scalarOfBytes_padded_any (d n : Nat) (h : d < secpN) (hn : n ≤ 32) : scalarOfBytes (paddedBigBytes d n) = d := by
  have hL := beBytes_length_le d 32 (Nat.lt_trans h secpN_lt)
  have hl : (paddedBigBytes d n).length ≤ 32 := by
    simp only [paddedBigBytes, List.length_append, List.length_replicate]
    omega
  unfold scalarOfBytes
  rw [List.take_of_length_le hl, beNat_paddedBigBytes, Nat.mod_eq_of_lt h]

theorem pad_beBytes_beNat (l : Bytes) :
    List.replicate (l.length - (beBytes (beNat l)).length) 0 ++ beBytes (beNat l) = l := by
  induction l with
  | nil => rfl
  | cons y t ih =>
    by_cases hy : y = 0
    · subst hy
      have hz : beNat (0 :: t) = beNat t := by simpa using beNat_zeros_append 1 t
      rw [hz]
      have hle : (beBytes (beNat t)).length ≤ t.length := beBytes_length_le _ _ (beNat_lt t)
      have : (0 :: t).length - (beBytes (beNat t)).length = (t.length - (beBytes (beNat t)).length) + 1 := by
        simp only [List.length_cons]; omega
      rw [this, List.replicate_succ, List.cons_append, ih]
    · have hb : beBytes (beNat (y :: t)) = y :: t := beBytes_beNat (y :: t) (by
        intro b rest hbr
        injection hbr with h1 _
        subst h1; exact hy)
      rw [hb]; simp

/-- a 32-byte string is the padded encoding of its value. -/
theorem paddedBigBytes_beNat (b : Bytes) (h : b.length = 32) : paddedBigBytes (beNat b) 32 = b := by
  have := pad_beBytes_beNat b
  rw [h] at this
  exact this

/-! ### getKDFKey on what EncryptKey writes -/

theorem k_salt_ne_dklen : ascii "dklen" ≠ ascii "salt" := by decide
theorem k_n_ne_salt : ascii "n" ≠ ascii "salt" := by decide
theorem k_p_ne_salt : ascii "p" ≠ ascii "salt" := by decide
theorem k_r_ne_salt : ascii "r" ≠ ascii "salt" := by decide
theorem k_dklen_ne_n : ascii "dklen" ≠ ascii "n" := by decide
theorem k_dklen_ne_r : ascii "dklen" ≠ ascii "r" := by decide
theorem k_dklen_ne_p : ascii "dklen" ≠ ascii "p" := by decide
theorem k_n_ne_r : ascii "n" ≠ ascii "r" := by decide
theorem k_n_ne_p : ascii "n" ≠ ascii "p" := by decide
theorem k_p_ne_r : ascii "p" ≠ ascii "r" := by decide

def scryptParams (n p : Int) (salt : Bytes) : List (Bytes × JVal) :=
  [(ascii "dklen", .num scryptDKLen), (ascii "n", .num n), (ascii "p", .num p),
   (ascii "r", .num scryptR), (ascii "salt", .str (hexEncode salt))]

theorem getKDFKey_scryptParams (P : Prims) (c : Crypto) (auth salt : Bytes) (n p : Int) (hp0 : 0 < p)
    (hk : c.kdf = ascii "scrypt") (hp : c.kdfparams = scryptParams n p salt) :
    getKDFKey P c auth = kdfRes (P.kdf (.scrypt auth salt n scryptR p scryptDKLen)) := by
  unfold getKDFKey
  rw [hp, hk]
  simp only [scryptParams, lookup, k_salt_ne_dklen, k_n_ne_salt, k_p_ne_salt, k_r_ne_salt, k_dklen_ne_n, k_dklen_ne_r,
    k_dklen_ne_p, k_n_ne_r, k_n_ne_p, k_p_ne_r, if_false, if_true, asString, ensureInt, hexDecode_hexEncode]
  rw [if_neg (by decide), if_neg (by simp only [scryptR]; omega)]

/-! ### inversion of the decryption pipeline -/

theorem macKey_length (buf : Bytes) (h : 32 ≤ buf.length) : (macKey buf).length = 16 := by
  simp only [macKey, List.length_take, List.length_drop]; omega

theorem checkMac_ok {P : Prims} {c : Crypto} {auth buf iv ct : Bytes} (h : checkMac P c auth = .ok (buf, iv, ct)) :
    ∃ mac len, hexDecode c.mac = some mac ∧ hexDecode c.iv = some iv ∧ hexDecode c.ciphertext = some ct ∧
      getKDFKey P c auth = .ok (buf, len) ∧ 32 ≤ buf.length ∧ P.H (macKey buf ++ ct) = mac := by
  unfold checkMac at h
  split at h
  · cases h
  rename_i mac hmac
  split at h
  · cases h
  rename_i iv0 hiv
  split at h
  · cases h
  rename_i ct0 hct
  split at h
  · cases h
  · cases h
  rename_i buf0 len0 hk
  split at h
  · cases h
  rename_i hcap
  split at h
  · cases h
  rename_i hm
  injection h with h
  injection h with h1 h2
  injection h2 with h2 h3
  subst h1; subst h2; subst h3
  exact ⟨mac, len0, hmac, hiv, hct, hk, by omega, by simpa using hm⟩

theorem checkMac_of {P : Prims} {c : Crypto} {auth buf iv ct mac : Bytes} {len : Nat}
    (hmac : hexDecode c.mac = some mac) (hiv : hexDecode c.iv = some iv) (hct : hexDecode c.ciphertext = some ct)
    (hk : getKDFKey P c auth = .ok (buf, len)) (hcap : 32 ≤ buf.length) :
    checkMac P c auth = if P.H (macKey buf ++ ct) ≠ mac then .err .decrypt else .ok (buf, iv, ct) := by
  unfold checkMac
  rw [hmac, hiv, hct, hk]
  simp only
  rw [if_neg (by omega)]

/-- what an accepted decryption went through. -/
theorem decryptBytes_ok {P : Prims} {f : KeyFile} {auth pt : Bytes} (h : decryptBytes P f auth = .ok pt) :
    f.jsonOk = true ∧ ∃ buf iv ct, checkMac P f.crypto auth = .ok (buf, iv, ct) ∧ iv.length = 16 ∧
      ((isV1 f = false ∧ f.v3ok = true ∧ f.version3 = 3 ∧ f.crypto.cipher = ascii "aes-128-ctr" ∧
          pt = xorStream (P.ks (encKey buf) iv) 0 ct) ∨
       (isV1 f = true ∧ f.v1ok = true ∧ ct.length % 16 = 0 ∧
          pkcs7Unpad (P.cbc ((P.H (encKey buf)).take 16) iv ct) = some pt)) := by
  unfold decryptBytes at h
  split at h
  · cases h
  rename_i hj
  refine ⟨by simpa using hj, ?_⟩
  split at h
  · rename_i hv1
    split at h
    · cases h
    rename_i hv1ok
    unfold decryptKeyV1 at h
    split at h
    · cases h
    · cases h
    rename_i buf iv ct hcm
    split at h
    · cases h
    rename_i hivl
    split at h
    · cases h
    rename_i pt0 hup
    injection h with h
    subst h
    exact ⟨buf, iv, ct, hcm, by omega, Or.inr ⟨hv1, by simpa using hv1ok, by omega, hup⟩⟩
  · rename_i hv1
    split at h
    · cases h
    rename_i hv3ok
    unfold decryptKeyV3 at h
    split at h
    · cases h
    rename_i hver
    split at h
    · cases h
    rename_i hcip
    split at h
    · cases h
    · cases h
    rename_i buf iv ct hcm
    split at h
    · cases h
    rename_i hivl
    injection h with h
    exact ⟨buf, iv, ct, hcm, by simpa using hivl, Or.inl ⟨by simpa using hv1, by simpa using hv3ok, by simpa using hver,
      by simpa using hcip, h.symm⟩⟩

theorem decryptBytes_v3_of {P : Prims} {f : KeyFile} {auth buf iv ct : Bytes} (hj : f.jsonOk = true) (hv : isV1 f = false)
    (hv3 : f.v3ok = true) (hver : f.version3 = 3) (hcip : f.crypto.cipher = ascii "aes-128-ctr")
    (hcm : checkMac P f.crypto auth = .ok (buf, iv, ct)) (hl : iv.length = 16) :
    decryptBytes P f auth = .ok (xorStream (P.ks (encKey buf) iv) 0 ct) := by
  unfold decryptBytes
  simp only [hj, hv, hv3, decryptKeyV3, hver, hcip, hcm, hl]
  simp

/-- the address comparison of DecryptKey (a73be14). -/
def addrCheck (P : Prims) (f : KeyFile) (d : Nat) : Prop := f.address = [] ∨ fileAddr f.address = some (P.addrOf d)

theorem decryptKey_ok {P : Prims} {f : KeyFile} {auth : Bytes} {k : Key} (h : decryptKey P f auth = .ok k) :
    ∃ pt, decryptBytes P f auth = .ok pt ∧ k = ⟨scalarOfBytes pt, P.addrOf (scalarOfBytes pt)⟩ ∧
      addrCheck P f (scalarOfBytes pt) := by
  unfold decryptKey at h
  split at h
  · cases h
  · cases h
  rename_i pt hpt
  simp only at h
  split at h
  · cases h
  rename_i hc
  injection h with h
  refine ⟨pt, hpt, h.symm, ?_⟩
  unfold addrCheck
  by_cases h0 : f.address = []
  · exact Or.inl h0
  · right
    by_cases h1 : fileAddr f.address = some (P.addrOf (scalarOfBytes pt))
    · exact h1
    · exact absurd ⟨h0, h1⟩ hc

theorem decryptKey_of_bytes {P : Prims} {f : KeyFile} {auth pt : Bytes} (h : decryptBytes P f auth = .ok pt)
    (hc : addrCheck P f (scalarOfBytes pt)) :
    decryptKey P f auth = .ok ⟨scalarOfBytes pt, P.addrOf (scalarOfBytes pt)⟩ := by
  unfold decryptKey; rw [h]
  simp only
  rw [if_neg]
  intro ⟨h0, h1⟩
  rcases hc with hc | hc
  · exact h0 hc
  · exact h1 hc

theorem decryptKey_corrupted {P : Prims} {f : KeyFile} {auth pt : Bytes} (h : decryptBytes P f auth = .ok pt)
    (h0 : f.address ≠ []) (h1 : fileAddr f.address ≠ some (P.addrOf (scalarOfBytes pt))) :
    decryptKey P f auth = .err .corrupted := by
  unfold decryptKey; rw [h]
  simp only
  rw [if_pos ⟨h0, h1⟩]

/-- the hex text of an address carries no "0x"/"0X" prefix, so nothing is trimmed. -/
theorem hexNib_ne_x (n : Nat) (h : n < 16) : hexNib n ≠ 120 ∧ hexNib n ≠ 88 := by
  have : n = 0 ∨ n = 1 ∨ n = 2 ∨ n = 3 ∨ n = 4 ∨ n = 5 ∨ n = 6 ∨ n = 7 ∨ n = 8 ∨ n = 9 ∨ n = 10 ∨ n = 11 ∨
      n = 12 ∨ n = 13 ∨ n = 14 ∨ n = 15 := by omega
  rcases this with h | h | h | h | h | h | h | h | h | h | h | h | h | h | h | h <;> subst h <;> decide

theorem fileAddr_hexEncode (b : Bytes) : fileAddr (hexEncode b) = some b := by
  unfold fileAddr
  have h0x : ascii "0x" = [48, 120] := by decide
  have h0X : ascii "0X" = [48, 88] := by decide
  have key : ∀ p : Bytes, (p = [48, 120] ∨ p = [48, 88]) → trimPrefix p (hexEncode b) = hexEncode b := by
    intro p hp
    unfold trimPrefix
    cases b with
    | nil => rcases hp with hp | hp <;> subst hp <;> simp [hexEncode]
    | cons x r =>
      have hx := x.toNat_lt
      have h2 := hexNib_ne_x (x.toNat % 16) (by omega)
      rcases hp with hp | hp <;> subst hp <;> simp [hexEncode, List.isPrefixOf]
      · intro _ h120; exact absurd h120.symm h2.1
      · intro _ h88; exact absurd h88.symm h2.2
  rw [key _ (Or.inl h0x), key _ (Or.inr h0X), hexDecode_hexEncode]

end Aqv.Keystore

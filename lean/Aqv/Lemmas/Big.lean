/-
  Aqv.Lemmas.Big — facts about the math/big fragment of Aqv.Base.Big: the sign-magnitude implementations of
  And/Or/Not/Rsh agree with two's-complement arithmetic (U256 = mod 2^256, Or with −2^k, floor shift).
-/
import Aqv.Base.Big
namespace Aqv.Big

theorem natAndNot_testBit (x y i : Nat) : (natAndNot x y).testBit i = (x.testBit i && !y.testBit i) := by
  unfold natAndNot
  rw [Nat.testBit_bitwise (by rfl)]

/-- `(2^n − 1) &^ a` keeps the complemented low n bits of a. -/
theorem natAndNot_mask (n a : Nat) : natAndNot (2 ^ n - 1) a = 2 ^ n - 1 - a % 2 ^ n := by
  apply Nat.eq_of_testBit_eq
  intro i
  rw [natAndNot_testBit, Nat.testBit_two_pow_sub_one]
  have h : a % 2 ^ n < 2 ^ n := Nat.mod_lt _ (Nat.two_pow_pos n)
  have : 2 ^ n - 1 - a % 2 ^ n = 2 ^ n - (a % 2 ^ n + 1) := by omega
  rw [this, Nat.testBit_two_pow_sub_succ h, Nat.testBit_mod_two_pow]
  cases decide (i < n) <;> simp

theorem tt256m1_eq : tt256m1 = Int.ofNat (2 ^ 256 - 1) := by decide
theorem tt256_eq : tt256 = 2 ^ 256 := rfl
theorem tt255_eq : tt255 = 2 ^ 255 := rfl

/-- U256 (`x.And(x, 2^256−1)` on a sign-magnitude big.Int) is reduction modulo 2^256, also for negative x. -/
theorem u256_eq_emod (x : Int) : u256 x = x % 2 ^ 256 := by
  unfold u256
  rw [tt256m1_eq]
  cases x with
  | ofNat a =>
    simp only [and]
    rw [Nat.and_two_pow_sub_one_eq_mod]
    rfl
  | negSucc a =>
    simp only [and]
    rw [natAndNot_mask]
    rw [Int.negSucc_emod _ (by decide)]
    have h : a % 2 ^ 256 < 2 ^ 256 := Nat.mod_lt _ (by decide)
    show ((2 ^ 256 - 1 - a % 2 ^ 256 : Nat) : Int) = _
    omega

theorem u256_natCast (n : Nat) : u256 (n : Int) = ((n % 2 ^ 256 : Nat) : Int) := by
  rw [u256_eq_emod]; omega

theorem u256_of_lt (n : Nat) (h : n < 2 ^ 256) : u256 (n : Int) = (n : Int) := by
  rw [u256_eq_emod]; omega

end Aqv.Big

/-
  Aqv.Lemmas.ChainWriterTrace — every event the model of the writers emits preserves `Inv`; hence every prefix of the
  write log is an image that satisfies the discipline (C04).
-/
import Aqv.Lemmas.ChainWriter
namespace Aqv.ChainDb

/-! ### logs -/

theorem traceOK_snoc {ar : Bool} : ∀ (tr : List GEvent) (db : Db) (g : Hash) (e : Event) (g' : Hash),
    TraceOK ar db g (tr ++ [(e, g')]) =
      (TraceOK ar db g tr && imageOK ar (applyAll db ((tr ++ [(e, g')]).map (·.1))) g') := by
  intro tr
  induction tr with
  | nil => intro db g e g'; simp [TraceOK, applyAll]
  | cons x rest ih =>
    intro db g e g'
    obtain ⟨e1, g1⟩ := x
    simp only [List.cons_append, TraceOK, ih, List.map_cons, applyAll, List.foldl_cons, Bool.and_assoc]

theorem ghostAt_snoc (g : Hash) (tr : List GEvent) (e : Event) (g' : Hash) : ghostAt g (tr ++ [(e, g')]) = g' := by
  unfold ghostAt; simp

theorem applyAll_snoc (db : Db) (es : List Event) (e : Event) : applyAll db (es ++ [e]) = apply (applyAll db es) e := by
  unfold applyAll; simp

/-- the emitter state is consistent with its log, EVERY prefix of the log is an image that satisfies the invariant (with
    the ghost head of that prefix), and so does the current image -/
structure Good (ar : Bool) (V : Hash → Hdr → Prop) (db₀ : Db) (g₀ : Hash) (s : Em) : Prop where
  all : ∀ p, p <+: s.log → Inv ar V (applyAll db₀ (p.map (·.1))) (ghostAt g₀ p)
  dbEq : s.db = applyAll db₀ (s.log.map (·.1))
  ghost : ghostAt g₀ s.log = s.head
  inv : Inv ar V s.db s.head

variable {ar : Bool} {V : Hash → Hdr → Prop} {db₀ : Db} {g₀ : Hash}

/-- all prefixes good ⇒ the decidable trace predicate -/
theorem traceOK_of_prefixes : ∀ (tr : List GEvent) (db : Db) (g : Hash),
    (∀ p, p <+: tr → imageOK ar (applyAll db (p.map (·.1))) (ghostAt g p) = true) → TraceOK ar db g tr = true := by
  intro tr
  induction tr with
  | nil => intro db g h; exact h [] (List.prefix_refl _)
  | cons x rest ih =>
    intro db g h
    obtain ⟨e, g'⟩ := x
    unfold TraceOK
    rw [Bool.and_eq_true]
    refine ⟨h [] (List.nil_prefix), ih (apply db e) g' ?_⟩
    intro p hp
    have := h ((e, g') :: p) (List.cons_prefix_cons.mpr ⟨rfl, hp⟩)
    simpa [applyAll, ghostAt_cons] using this

theorem Good.trace {s : Em} (hg : Good ar V db₀ g₀ s) : TraceOK ar db₀ g₀ s.log = true :=
  traceOK_of_prefixes _ _ _ (fun p hp => imageOK_of_inv (hg.all p hp))

theorem prefix_snoc {α : Type} {p l : List α} {x : α} (h : p <+: l ++ [x]) : p <+: l ∨ p = l ++ [x] := by
  obtain ⟨r, hr⟩ := h
  rcases List.eq_nil_or_concat r with rfl | ⟨r', y, rfl⟩
  · right; simpa using hr
  · left
    have : p ++ r' ++ [y] = l ++ [x] := by simpa [List.append_assoc] using hr
    have h2 := List.append_inj' this rfl
    exact ⟨r', h2.1⟩

theorem good_emitHead {s : Em} (hg : Good ar V db₀ g₀ s) (e : Event) (h : Hash) (hi : Inv ar V (apply s.db e) h) :
    Good ar V db₀ g₀ (s.emitHead e h) := by
  have hdb : apply s.db e = applyAll db₀ ((s.log ++ [(e, h)]).map (·.1)) := by
    simp only [List.map_append, List.map_cons, List.map_nil]
    rw [applyAll_snoc, ← hg.dbEq]
  refine ⟨?_, hdb, ghostAt_snoc _ _ _ _, hi⟩
  intro p hp
  rcases prefix_snoc (show p <+: s.log ++ [(e, h)] from hp) with hp' | rfl
  · exact hg.all p hp'
  · rw [← hdb, ghostAt_snoc]; exact hi

theorem good_emit {s : Em} (hg : Good ar V db₀ g₀ s) (e : Event) (hi : Inv ar V (apply s.db e) s.head) :
    Good ar V db₀ g₀ (s.emit e) := good_emitHead hg e s.head hi

@[simp] theorem emit_db (s : Em) (e : Event) : (s.emit e).db = apply s.db e := rfl
@[simp] theorem emit_head (s : Em) (e : Event) : (s.emit e).head = s.head := rfl
@[simp] theorem emitHead_db (s : Em) (e : Event) (h : Hash) : (s.emitHead e h).db = apply s.db e := rfl
@[simp] theorem emitHead_head (s : Em) (e : Event) (h : Hash) : (s.emitHead e h).head = h := rfl

theorem good_hhdr {s : Em} (hg : Good ar V db₀ g₀ s) (h : Hash) : Good ar V db₀ g₀ { s with hhdr := h } :=
  ⟨hg.all, hg.dbEq, hg.ghost, hg.inv⟩

/-! ### keys a step touches -/

/-- `db'` differs from `db` at most on keys satisfying `P` -/
def TouchesOnly (P : Key → Bool) (db db' : Db) : Prop := ∀ k, P k = false → get db' k = get db k

theorem TouchesOnly.refl (P : Key → Bool) (db : Db) : TouchesOnly P db db := fun _ _ => rfl

theorem TouchesOnly.trans {P : Key → Bool} {a b c : Db} (h1 : TouchesOnly P a b) (h2 : TouchesOnly P b c) :
    TouchesOnly P a c := fun k hk => by rw [h2 k hk, h1 k hk]

theorem touchesOnly_put {P : Key → Bool} (db : Db) {k : Key} (v : Val) (hk : P k = true) :
    TouchesOnly P db (put db k v) := fun k' hk' => get_put_ne db v (by intro e; subst e; rw [hk] at hk'; cases hk')

theorem touchesOnly_del {P : Key → Bool} (db : Db) {k : Key} (hk : P k = true) :
    TouchesOnly P db (del db k) := fun k' hk' => by
  rw [get_del]; split
  · rename_i e; subst e; rw [hk] at hk'; cases hk'
  · rfl

theorem touchesOnly_batch {P : Key → Bool} (db : Db) (ws : Writes) (h : ∀ w ∈ ws, P w.1 = true) :
    TouchesOnly P db (apply db (.batch ws)) := fun k hk =>
  get_foldl_applyW_not_mem ws db (fun w hw e => by have := h w hw; rw [e, hk] at this; cases this)

/-- the keys `insert`, the lookup writes and the canonical clean-up of `reorg` touch -/
def ctl : Key → Bool
  | .canon _ | .lastBlock | .lastHeader | .lastFast | .lookup _ => true
  | _ => false

theorem getBlock_of_ctl {db db' : Db} (h : TouchesOnly ctl db db') (x : Hash) (n : Nat) : getBlock db' x n = getBlock db x n :=
  getBlock_congr (h _ rfl) (h _ rfl) n

theorem linked_of_ctl {db db' : Db} (h : TouchesOnly ctl db db') {P : Hash} {m : Nat} {chain : List (Hash × Hdr)}
    (hl : Linked db P m chain) : Linked db' P m chain :=
  linked_mono (fun x n hd hb => by rw [getBlock_of_ctl h]; exact hb) hl

/-! ### emitting lists of events -/

theorem good_emitAll_irrelevant : ∀ (es : List Event) {s : Em}, Good ar V db₀ g₀ s →
    (∀ e ∈ es, (∃ k v, e = .put k v ∧ irrelevant k = true) ∨ (∃ k, e = .del k ∧ irrelevant k = true)) →
    Good ar V db₀ g₀ (s.emitAll es) ∧ (s.emitAll es).head = s.head ∧
      TouchesOnly irrelevant s.db (s.emitAll es).db := by
  intro es
  induction es with
  | nil => intro s hg _; exact ⟨hg, rfl, TouchesOnly.refl _ _⟩
  | cons e rest ih =>
    intro s hg hall
    have he := hall e (by simp)
    have hg1 : Good ar V db₀ g₀ (s.emit e) ∧ TouchesOnly irrelevant s.db (s.emit e).db := by
      rcases he with ⟨k, v, rfl, hk⟩ | ⟨k, rfl, hk⟩
      · exact ⟨good_emit hg _ (inv_put_irrelevant hg.inv v hk), touchesOnly_put _ v hk⟩
      · exact ⟨good_emit hg _ (inv_del_irrelevant hg.inv hk), touchesOnly_del _ hk⟩
    obtain ⟨r1, r2, r3⟩ := ih hg1.1 (fun e' he' => hall e' (List.mem_cons_of_mem _ he'))
    exact ⟨r1, by rw [show s.emitAll (e :: rest) = (s.emit e).emitAll rest from rfl, r2]; rfl, hg1.2.trans r3⟩

/-- the batches flushed by one or more `trie.Database.Commit` calls, each children-first relative to the store so far -/
def FlushOK (db : Db) : List Writes → Prop
  | [] => True
  | ws :: rest => trieWritesOK db ws = true ∧ FlushOK (apply db (.batch ws)) rest

instance FlushOK.dec : (db : Db) → (flush : List Writes) → Decidable (FlushOK db flush)
  | _, [] => isTrue trivial
  | db, ws :: rest => by
    unfold FlushOK
    exact @instDecidableAnd _ _ _ (FlushOK.dec _ rest)

instance (db : Db) (b : Blk) : Decidable (FreshOrSame db b) := by unfold FreshOrSame; infer_instance

def isTd : Key → Bool
  | .td _ => true
  | _ => false

def isTrieKey : Key → Bool
  | .node _ | .preimage _ => true
  | _ => false

theorem good_flush : ∀ (flush : List Writes) {s : Em}, Good ar V db₀ g₀ s → FlushOK s.db flush →
    Good ar V db₀ g₀ (s.emitAll (flushEventsOf flush)) ∧ (s.emitAll (flushEventsOf flush)).head = s.head ∧
      TouchesOnly isTrieKey s.db (s.emitAll (flushEventsOf flush)).db ∧
      (∀ c, (get s.db (.node c)).isSome = true → (get (s.emitAll (flushEventsOf flush)).db (.node c)).isSome = true) := by
  intro flush
  induction flush with
  | nil => intro s hg _; exact ⟨hg, rfl, TouchesOnly.refl _ _, fun _ h => h⟩
  | cons ws rest ih =>
    intro s hg hok
    obtain ⟨h1, h2⟩ := hok
    have hg1 := good_emit hg (.batch ws) (inv_trie_batch hg.inv ws h1)
    obtain ⟨t1, t2, t3⟩ := trie_batch_spec ws s.db hg.inv.closed h1
    obtain ⟨r1, r2, r3, r4⟩ := ih hg1 h2
    refine ⟨r1, by rw [show s.emitAll (flushEventsOf (ws :: rest)) = (s.emit (.batch ws)).emitAll (flushEventsOf rest) from rfl, r2]; rfl,
      TouchesOnly.trans ?_ r3, fun c hc => r4 c (t2 c hc)⟩
    intro k hk
    exact t3 k (by intro h e; subst e; cases hk) (by intro h e; subst e; cases hk)

/-! ### insert -/

theorem canonAgrees_of_ctl_below {db db' : Db} (h : TouchesOnly ctl db db') {P : Hash} {m : Nat}
    (hc : CanonAgrees db P m) (hk : ∀ k, k ≤ m → get db' (.canon k) = get db (.canon k)) : CanonAgrees db' P m :=
  canonAgrees_mono (fun x n hd hb => by rw [getBlock_of_ctl h]; exact hb) hc (fun k hkm => canonHash_congr (hk k hkm))

/-- the keys the clean-up part of `insert` (3f14ce8) writes: lookups, and canonical numbers from `lo` upwards -/
def CleanKeys (lo : Nat) (ws : Writes) : Prop :=
  ∀ w ∈ ws, (∃ t, w.1 = Key.lookup t) ∨ (∃ i, lo ≤ i ∧ w.1 = Key.canon i)

theorem cleanKeys_drop (db : Db) (h : Hash) (lo : Nat) : CleanKeys lo (dropLookupsW db h) := by
  intro w hw
  simp only [dropLookupsW, List.mem_map] at hw
  obtain ⟨t, _, rfl⟩ := hw
  exact .inl ⟨t, rfl⟩

theorem CleanKeys.append {lo : Nat} {a b : Writes} (ha : CleanKeys lo a) (hb : CleanKeys lo b) : CleanKeys lo (a ++ b) := by
  intro w hw
  rcases List.mem_append.mp hw with h | h
  · exact ha w h
  · exact hb w h

theorem CleanKeys.mono {lo lo' : Nat} {a : Writes} (h : CleanKeys lo a) (hle : lo' ≤ lo) : CleanKeys lo' a := by
  intro w hw
  rcases h w hw with h1 | ⟨i, hi, h2⟩
  · exact .inl h1
  · exact .inr ⟨i, by omega, h2⟩

theorem cleanKeys_above (db : Db) : ∀ (fuel i : Nat), CleanKeys i (cleanAboveW db fuel i) := by
  intro fuel
  induction fuel with
  | zero => intro i w hw; simp [cleanAboveW] at hw
  | succ f ih =>
    intro i
    unfold cleanAboveW
    split
    · intro w hw; simp at hw
    · refine ((cleanKeys_drop db _ i).append ?_).append ((ih (i + 1)).mono (by omega))
      intro w hw
      simp at hw
      subst hw
      exact .inr ⟨i, Nat.le_refl _, rfl⟩

/-- when the parent is canonical the "re-point below" loop of `insert` writes nothing -/
theorem insertClean_keys (db : Db) (parent : Option Hash) (m : Nat) (fuel : Nat) {p : Hash}
    (hpar : ∀ q, parent = some q → q = p) (hcan : canonHash db m = some p) :
    CleanKeys (m + 2) (insertCleanW db parent (m + 1) fuel) := by
  unfold insertCleanW
  refine (CleanKeys.append ?_ (cleanKeys_above db fuel (m + 1 + 1))).append ?_
  · split
    · exact cleanKeys_drop db _ _
    · intro w hw; simp at hw
  · cases parent with
    | none => intro w hw; simp at hw
    | some q =>
      have := hpar q rfl
      subst this
      simp only
      intro w hw
      unfold repointBelowW at hw
      simp [hcan] at hw

theorem good_insertW (v : Variant) {s : Em} (hg : Good ar V db₀ g₀ s) {B : Hash} {m : Nat} {hdB : Hdr}
    (hB : getBlock s.db B (m + 1) = some hdB) (hP : CanonAgrees s.db hdB.parent m)
    (hna : v.atomicInsert = false → ∃ n, blockNumber s.db s.head = some n ∧ n < m + 1)
    (parent : Option Hash) (aboveFuel : Nat) (hpar : ∀ q, parent = some q → q = hdB.parent) :
    Good ar V db₀ g₀ (insertW v s B (m + 1) parent aboveFuel) ∧ (insertW v s B (m + 1) parent aboveFuel).head = B ∧
      TouchesOnly ctl s.db (insertW v s B (m + 1) parent aboveFuel).db := by
  unfold insertW
  cases hat : v.atomicInsert with
  | false =>
    obtain ⟨n, hn, hlt⟩ := hna hat
    simp only [Bool.not_false, if_true]
    -- put canon (above the head)
    have t1 : TouchesOnly ctl s.db (s.emit (.put (.canon (m + 1)) (.ref B))).db := touchesOnly_put _ _ rfl
    have g1 : Good ar V db₀ g₀ (s.emit (.put (.canon (m + 1)) (.ref B))) :=
      good_emit hg _ (inv_canon_above hg.inv hn hlt (fun k _ hk => get_put_ne _ _ (Ne.symm hk)))
    -- put LastBlock: the head moves
    have hB1 : getBlock (s.emit (.put (.canon (m + 1)) (.ref B))).db B (m + 1) = some hdB := by
      rw [getBlock_of_ctl t1]; exact hB
    have hP1 : CanonAgrees (s.emit (.put (.canon (m + 1)) (.ref B))).db hdB.parent m :=
      canonAgrees_of_ctl_below t1 hP (fun k hk => get_put_ne _ _ (by intro e; injection e with e; omega))
    have i2 : Inv ar V (apply (s.emit (.put (.canon (m + 1)) (.ref B))).db (.put .lastBlock (.ref B))) B :=
      inv_new_head g1.inv hB1 hP1 (by simp [apply, get_put]) (by simp [apply, get_put])
        (fun k _ _ hk2 => get_put_ne _ _ (Ne.symm hk2))
    have g2 := good_emitHead g1 (.put .lastBlock (.ref B)) B i2
    have t2 : TouchesOnly ctl s.db ((s.emit (.put (.canon (m + 1)) (.ref B))).emitHead (.put .lastBlock (.ref B)) B).db :=
      t1.trans (touchesOnly_put _ _ rfl)
    split
    · -- LastHeader, LastFast
      have g3 := good_hhdr (good_emit g2 (.put .lastHeader (.ref B)) (inv_put_irrelevant g2.inv _ rfl)) B
      have g4 := good_emit g3 (.put .lastFast (.ref B)) (inv_put_irrelevant g3.inv _ rfl)
      exact ⟨g4, rfl, (t2.trans (touchesOnly_put _ _ rfl)).trans (touchesOnly_put _ _ rfl)⟩
    · exact ⟨g2, rfl, t2⟩
  | true =>
    simp only [Bool.not_true, Bool.false_eq_true, if_false]
    -- the tail of the batch: clean-up writes (lookups, canonical numbers above m+1) and the two other head markers
    have hrest : ∀ (rest : Writes), rest = (if (canonHash s.db (m + 1) != some B) = true then
          (if v.insertCleans = true then insertCleanW s.db parent (m + 1) aboveFuel else []) ++
            [(Key.lastHeader, some (Val.ref B)), (Key.lastFast, some (Val.ref B))] else []) →
        ∀ w ∈ rest, (∃ t, w.1 = Key.lookup t) ∨ (∃ i, m + 2 ≤ i ∧ w.1 = Key.canon i) ∨ w.1 = .lastHeader ∨ w.1 = .lastFast := by
      intro rest hr w hw
      subst hr
      split at hw
      · rcases List.mem_append.mp hw with h1 | h1
        · split at h1
          · rcases insertClean_keys s.db parent m aboveFuel hpar (canonAgrees_canon hP) w h1 with h2 | h2
            · exact .inl h2
            · exact .inr (.inl h2)
          · simp at h1
        · simp at h1
          rcases h1 with rfl | rfl
          · exact .inr (.inr (.inl rfl))
          · exact .inr (.inr (.inr rfl))
      · simp at hw
    generalize hrdef : (if (canonHash s.db (m + 1) != some B) = true then
          (if v.insertCleans = true then insertCleanW s.db parent (m + 1) aboveFuel else []) ++
            [(Key.lastHeader, some (Val.ref B)), (Key.lastFast, some (Val.ref B))] else []) = rest
    have hk := hrest rest hrdef.symm
    have hnotCanon : ∀ w ∈ rest, w.1 ≠ Key.canon (m + 1) := by
      intro w hw e
      rcases hk w hw with ⟨t, h1⟩ | ⟨i, hi, h1⟩ | h1 | h1 <;> rw [e] at h1
      · cases h1
      · injection h1 with h1; omega
      · cases h1
      · cases h1
    have hnotLB : ∀ w ∈ rest, w.1 ≠ Key.lastBlock := by
      intro w hw e
      rcases hk w hw with ⟨t, h1⟩ | ⟨i, hi, h1⟩ | h1 | h1 <;> rw [e] at h1 <;> cases h1
    have i1 : Inv ar V (apply s.db (.batch ([(.canon (m + 1), some (.ref B)), (.lastBlock, some (.ref B))] ++ rest))) B := by
      refine inv_new_head hg.inv hB hP ?_ ?_ ?_
      · show get (([(Key.canon (m + 1), some (Val.ref B)), (Key.lastBlock, some (Val.ref B))] ++ rest).foldl applyW s.db) _ = _
        simp only [List.cons_append, List.nil_append, List.foldl_cons]
        rw [get_foldl_applyW_not_mem rest _ hnotCanon]
        simp [applyW, get_put]
      · show get (([(Key.canon (m + 1), some (Val.ref B)), (Key.lastBlock, some (Val.ref B))] ++ rest).foldl applyW s.db) _ = _
        simp only [List.cons_append, List.nil_append, List.foldl_cons]
        rw [get_foldl_applyW_not_mem rest _ hnotLB]
        simp [applyW, get_put]
      · intro k hk0 hk1 hk2
        show get (([(Key.canon (m + 1), some (Val.ref B)), (Key.lastBlock, some (Val.ref B))] ++ rest).foldl applyW s.db) _ = _
        refine get_foldl_applyW_not_mem _ _ ?_
        intro w hw e
        rcases List.mem_append.mp hw with h1 | h1
        · simp at h1
          rcases h1 with rfl | rfl
          · exact hk1 (m + 1) (Nat.le_refl _) e.symm
          · exact hk2 e.symm
        · rcases hk w h1 with ⟨t, h2⟩ | ⟨i, hi, h2⟩ | h2 | h2 <;> rw [e] at h2
          · subst h2; cases hk0
          · exact hk1 i (by omega) h2
          · subst h2; cases hk0
          · subst h2; cases hk0
    have tctl : TouchesOnly ctl s.db (apply s.db (.batch ([(.canon (m + 1), some (.ref B)), (.lastBlock, some (.ref B))] ++ rest))) := by
      apply touchesOnly_batch
      intro w hw
      rcases List.mem_append.mp hw with h1 | h1
      · simp at h1
        rcases h1 with rfl | rfl <;> rfl
      · rcases hk w h1 with ⟨t, h2⟩ | ⟨i, _, h2⟩ | h2 | h2 <;> rw [h2] <;> rfl
    split
    · exact ⟨good_hhdr (good_emitHead hg _ B i1) B, rfl, tctl⟩
    · exact ⟨good_emitHead hg _ B i1, rfl, tctl⟩

theorem blockNumber_of_ctl {db db' : Db} (h : TouchesOnly ctl db db') (x : Hash) : blockNumber db' x = blockNumber db x :=
  blockNumber_congr (h _ rfl)

theorem good_delCanonAbove : ∀ (fuel : Nat) {s : Em} (i : Nat), Good ar V db₀ g₀ s →
    (∃ n, blockNumber s.db s.head = some n ∧ n < i) →
    Good ar V db₀ g₀ (delCanonAbove fuel s i) ∧ (delCanonAbove fuel s i).head = s.head ∧
      TouchesOnly ctl s.db (delCanonAbove fuel s i).db := by
  intro fuel
  induction fuel with
  | zero => intro s i hg _; exact ⟨hg, rfl, TouchesOnly.refl _ _⟩
  | succ fuel ih =>
    intro s i hg hn
    obtain ⟨n, hn, hlt⟩ := hn
    unfold delCanonAbove
    split
    · exact ⟨hg, rfl, TouchesOnly.refl _ _⟩
    · have t1 : TouchesOnly ctl s.db (s.emit (.del (.canon i))).db := touchesOnly_del _ rfl
      have g1 : Good ar V db₀ g₀ (s.emit (.del (.canon i))) :=
        good_emit hg _ (inv_canon_above hg.inv hn hlt (fun k _ hk => by
          show get (del s.db (.canon i)) k = get s.db k
          rw [get_del]; simp [Ne.symm hk]))
      obtain ⟨r1, r2, r3⟩ := ih (i + 1) g1 ⟨n, by rw [emit_head, blockNumber_of_ctl t1]; exact hn, by omega⟩
      exact ⟨r1, by rw [r2]; rfl, t1.trans r3⟩

/-! ### the re-pointing loop of `reorg` (atomic insert) -/

theorem good_lookupPuts {s : Em} (hg : Good ar V db₀ g₀ s) (h : Hash) (txs : List Nat) :
    Good ar V db₀ g₀ (s.emitAll ((lookupWrites h txs).map fun w => Event.put w.1 (Val.ref h))) ∧
      (s.emitAll ((lookupWrites h txs).map fun w => Event.put w.1 (Val.ref h))).head = s.head ∧
      TouchesOnly ctl s.db (s.emitAll ((lookupWrites h txs).map fun w => Event.put w.1 (Val.ref h))).db := by
  have : ∀ (es : List Event) {s : Em}, Good ar V db₀ g₀ s → (∀ e ∈ es, ∃ t v, e = .put (.lookup t) v) →
      Good ar V db₀ g₀ (s.emitAll es) ∧ (s.emitAll es).head = s.head ∧ TouchesOnly ctl s.db (s.emitAll es).db := by
    intro es
    induction es with
    | nil => intro s hg _; exact ⟨hg, rfl, TouchesOnly.refl _ _⟩
    | cons e rest ih =>
      intro s hg hall
      obtain ⟨t, v, rfl⟩ := hall e (by simp)
      have g1 := good_emit hg (.put (.lookup t) v) (inv_put_irrelevant hg.inv v rfl)
      obtain ⟨r1, r2, r3⟩ := ih g1 (fun e' he' => hall e' (List.mem_cons_of_mem _ he'))
      exact ⟨r1, by rw [show s.emitAll (Event.put (.lookup t) v :: rest) = (s.emit (.put (.lookup t) v)).emitAll rest from rfl, r2]; rfl,
        (touchesOnly_put (P := ctl) _ v rfl).trans r3⟩
  apply this _ hg
  intro e he
  simp only [lookupWrites, List.map_map, List.mem_map, Function.comp] at he
  obtain ⟨t, _, rfl⟩ := he
  exact ⟨t, _, rfl⟩

theorem good_reinsertAll (v : Variant) (hat : v.atomicInsert = true) (xTxs : Hash → Option (List Nat)) (af : Nat) :
    ∀ (chain : List (Hash × Hdr)) {s : Em} (P : Hash) (m : Nat), Good ar V db₀ g₀ s →
    Linked s.db P m chain → CanonAgrees s.db P m →
    Good ar V db₀ g₀ (reinsertAll v xTxs af chain s) ∧ (reinsertAll v xTxs af chain s).head = chainEnd s.head chain ∧
      TouchesOnly ctl s.db (reinsertAll v xTxs af chain s).db := by
  intro chain
  induction chain with
  | nil => intro s P m hg _ _; exact ⟨hg, rfl, TouchesOnly.refl _ _⟩
  | cons x rest ih =>
    intro s P m hg hl hc
    obtain ⟨h, hd⟩ := x
    cases hl with
    | cons hb hp hrest =>
      have hnum := getBlock_num hb
      unfold reinsertAll
      simp only
      rw [hnum]
      obtain ⟨g1, h1, t1⟩ := good_insertW v hg hb (by rw [hp]; exact hc) (by intro e; rw [hat] at e; cases e)
        (some hd.parent) af (fun q hq => by cases hq; rfl)
      obtain ⟨g2, h2, t2⟩ := good_lookupPuts g1 h ((xTxs h).getD (bodyTxs (insertW v s h (m + 1) (some hd.parent) af).db h))
      have t12 := t1.trans t2
      -- the new head is h: its chain is what the invariant says
      have hb2 := hb
      rw [← getBlock_of_ctl t12] at hb2
      have hc2 : CanonAgrees (Em.emitAll (insertW v s h (m + 1) (some hd.parent) af)
          ((lookupWrites h ((xTxs h).getD (bodyTxs (insertW v s h (m + 1) (some hd.parent) af).db h))).map fun w => Event.put w.1 (Val.ref h))).db h (m + 1) := by
        obtain ⟨n, hn, hcn⟩ := g2.inv.chain
        rw [h2, h1] at hn hcn
        have := g2.inv.hnum h (m + 1) hd (getBlock_header hb2)
        rw [hn] at this; injection this with this; subst this
        exact hcn
      obtain ⟨r1, r2, r3⟩ := ih h (m + 1) g2 (linked_of_ctl t12 hrest) hc2
      refine ⟨r1, ?_, t12.trans r3⟩
      rw [r2, h2, h1]; rfl

/-! ### reorg -/

theorem chainEnd_nonempty (P Q : Hash) : ∀ {chain : List (Hash × Hdr)}, chain ≠ [] → chainEnd P chain = chainEnd Q chain
  | [], h => absurd rfl h
  | _ :: _, _ => rfl

theorem getBlock_num_unique {db : Db} {h : Hash} {n n' : Nat} {hd hd' : Hdr} (h1 : getBlock db h n = some hd)
    (h2 : getBlock db h n' = some hd') : n = n' := by
  obtain ⟨g1, e1⟩ := getHeader_eq (getBlock_header h1)
  obtain ⟨g2, e2⟩ := getHeader_eq (getBlock_header h2)
  rw [g1] at g2; injection g2 with g2; injection g2 with _ hn _
  omega

theorem good_delLookups {s : Em} (hg : Good ar V db₀ g₀ s) (ts : List Nat) :
    Good ar V db₀ g₀ (s.emitAll (ts.map fun t => Event.del (.lookup t))) ∧
      (s.emitAll (ts.map fun t => Event.del (.lookup t))).head = s.head ∧
      TouchesOnly irrelevant s.db (s.emitAll (ts.map fun t => Event.del (.lookup t))).db := by
  apply good_emitAll_irrelevant _ hg
  intro e he
  obtain ⟨t, _, rfl⟩ := List.mem_map.mp he
  exact Or.inr ⟨_, rfl, rfl⟩

theorem canonAgrees_of_irrelevant {db db' : Db} (h : TouchesOnly irrelevant db db') {P : Hash} {m : Nat}
    (hc : CanonAgrees db P m) : CanonAgrees db' P m :=
  canonAgrees_mono (fun x n hd hb => by rw [getBlock_congr (h _ rfl) (h _ rfl)]; exact hb) hc
    (fun k _ => canonHash_congr (h _ rfl))

/-- `reorg` with an atomic `insert`, the incoming block already stored: every write keeps the invariant, only control
    keys are touched, and afterwards the incoming block lies on the head's chain -/
theorem good_reorgW (v : Variant) (hat : v.atomicInsert = true) {s s' : Em} (hg : Good ar V db₀ g₀ s) {chd : Hdr} {cn : Nat}
    (b : Blk) (hcur : getBlock s.db s.head cn = some chd) (hcn : blockNumber s.db s.head = some cn)
    (hX : getBlock s.db b.hash b.num = some ⟨b.parent, b.num, b.root⟩)
    (h : reorgW v s (s.head, chd) b = some s') :
    Good ar V db₀ g₀ s' ∧ CanonAgrees s'.db b.hash b.num ∧
      (∀ x n, getBlock s'.db x n = getBlock s.db x n) := by
  unfold reorgW at h
  split at h
  · simp at h
  · rename_i oc nc hrc
    have hchdnum := getBlock_num hcur
    obtain ⟨n0, hn0, hc0⟩ := hg.inv.chain
    rw [hcn] at hn0; injection hn0 with hn0; subst hn0
    obtain ⟨C, c, hC, hL, hE⟩ := reorgChains_spec _ _ _ _ _ _ _ _ _ hrc (by rw [hchdnum]; exact hcur) (by rw [hchdnum]; exact hc0)
      hX (Linked.nil _ _)
    simp only [List.reverse_nil, chainEnd] at hE
    injection h with h
    obtain ⟨g1, h1, t1⟩ := good_reinsertAll v hat (fun h => if h = b.hash then some b.txs else none) (chd.num + 2)
      nc.reverse C c hg hL hC
    -- after the re-pointing (and, before 3f14ce8, the clean-up above the new head) the incoming block is on the head's chain
    have key : ∃ s2 : Em, s2 = (if (v.insertCleans || nc.isEmpty) = true then
            reinsertAll v (fun h => if h = b.hash then some b.txs else none) (chd.num + 2) nc.reverse s
          else delCanonAbove (chd.num + 2)
            (reinsertAll v (fun h => if h = b.hash then some b.txs else none) (chd.num + 2) nc.reverse s) (b.num + 1)) ∧
        Good ar V db₀ g₀ s2 ∧ CanonAgrees s2.db b.hash b.num ∧ TouchesOnly ctl s.db s2.db := by
      cases hnc : nc with
      | nil =>
        subst hnc
        simp only [List.reverse_nil, reinsertAll, List.isEmpty_nil, Bool.or_true, if_true]
        refine ⟨_, rfl, hg, ?_, TouchesOnly.refl _ _⟩
        simp only [List.reverse_nil, chainEnd] at hE
        subst hE
        obtain ⟨hd', hb'⟩ := canonAgrees_block hC
        have := getBlock_num_unique hb' hX
        subst this
        exact hC
      | cons x rest =>
        have hne : nc.reverse ≠ [] := by rw [hnc]; simp
        have hhead : (reinsertAll v (fun h => if h = b.hash then some b.txs else none) (chd.num + 2) nc.reverse s).head = b.hash := by
          rw [h1, chainEnd_nonempty s.head C hne, hE]
        rw [← hnc]
        have hemp : nc.isEmpty = false := by rw [hnc]; rfl
        have hX1 : getBlock (reinsertAll v (fun h => if h = b.hash then some b.txs else none) (chd.num + 2) nc.reverse s).db b.hash b.num =
            some ⟨b.parent, b.num, b.root⟩ := by rw [getBlock_of_ctl t1]; exact hX
        have hnumX : blockNumber (reinsertAll v (fun h => if h = b.hash then some b.txs else none) (chd.num + 2) nc.reverse s).db b.hash = some b.num :=
          g1.inv.hnum _ _ _ (getBlock_header hX1)
        cases hic : v.insertCleans with
        | true =>
          simp only [Bool.true_or, if_true]
          refine ⟨_, rfl, g1, ?_, t1⟩
          obtain ⟨n1, hn1, hc1⟩ := g1.inv.chain
          rw [hhead] at hn1 hc1
          rw [hnumX] at hn1
          injection hn1 with hn1; subst hn1
          exact hc1
        | false =>
          simp only [hemp, Bool.or_self, Bool.false_eq_true, if_false]
          obtain ⟨g2, h2, t2⟩ := good_delCanonAbove (chd.num + 2) (b.num + 1) g1 ⟨b.num, by rw [hhead]; exact hnumX, by omega⟩
          refine ⟨_, rfl, g2, ?_, t1.trans t2⟩
          obtain ⟨n2, hn2, hc2⟩ := g2.inv.chain
          rw [h2, hhead] at hn2 hc2
          rw [blockNumber_of_ctl t2, hnumX] at hn2
          injection hn2 with hn2; subst hn2
          exact hc2
    obtain ⟨s2, hs2, g2, c2, t2⟩ := key
    rw [← hs2] at h
    obtain ⟨g3, _, t3⟩ := good_delLookups g2
      ((oc.flatMap fun p => bodyTxs s.db p.1).filter fun t =>
        !(nc.flatMap fun p => ((fun h => if h = b.hash then some b.txs else none) p.1).getD (bodyTxs s.db p.1)).contains t)
    rw [← h]
    refine ⟨g3, canonAgrees_of_irrelevant t3 c2, fun x n => ?_⟩
    rw [getBlock_congr (t3 _ rfl) (t3 _ rfl), getBlock_of_ctl t2]

/-! ### WriteBlockWithState -/

/-- what the importer guarantees about a block it hands to `WriteBlockWithState` and about the tries flushed meanwhile -/
structure ImportOK (ar : Bool) (V : Hash → Hdr → Prop) (s : Em) (b : Blk) (flush : List Writes) : Prop where
  flushOK : FlushOK (apply s.db (.put (.td b.hash) .blob)) flush
  fresh : FreshOrSame s.db b
  state : ar = true → hasState ((s.emit (.put (.td b.hash) .blob)).emitAll (flushEventsOf flush)).db b.root = true
  pos : 0 < b.num
  link : ∀ n, blockNumber s.db b.parent = some n → b.num = n + 1
  /-- the header is one the importer vouches for -/
  valid : V b.hash ⟨b.parent, b.num, b.root⟩
  /-- the parent block is stored (insertChain: ErrUnknownAncestor otherwise) -/
  parent : ∀ m, b.num = m + 1 → ∃ hd', getBlock s.db b.parent m = some hd'

theorem inv_lookup_batch {db : Db} {g : Hash} (hi : Inv ar V db g) (h : Hash) (txs : List Nat) :
    Inv ar V (apply db (.batch (lookupWrites h txs))) g ∧ TouchesOnly irrelevant db (apply db (.batch (lookupWrites h txs))) := by
  have ht : TouchesOnly irrelevant db (apply db (.batch (lookupWrites h txs))) := by
    apply touchesOnly_batch
    intro w hw
    simp only [lookupWrites, List.mem_map] at hw
    obtain ⟨t, _, rfl⟩ := hw
    rfl
  exact ⟨inv_of_same hi ht, ht⟩

theorem good_writeBlock (v : Variant) {s : Em} (hg : Good ar V db₀ g₀ s) (b : Blk) (canon : Bool) (flush : List Writes)
    (hok : ImportOK ar V s b flush)
    (hv : (v.atomicInsert = true ∧ v.batchFirst = true) ∨ (canon = true → b.parent = s.head)) :
    Good ar V db₀ g₀ (writeBlock v s b canon flush) := by
  -- td, flushes
  have g1 : Good ar V db₀ g₀ (s.emit (.put (.td b.hash) .blob)) := good_emit hg _ (inv_put_td hg.inv _ _)
  have t1 : TouchesOnly isTd s.db (s.emit (.put (.td b.hash) .blob)).db := touchesOnly_put _ _ rfl
  obtain ⟨g2, h2, t2, _⟩ := good_flush flush g1 hok.flushOK
  have same2 : ∀ k, isTd k = false → isTrieKey k = false →
      get ((s.emit (.put (.td b.hash) .blob)).emitAll (flushEventsOf flush)).db k = get s.db k :=
    fun k h1 h2' => by rw [t2 k h2', t1 k h1]
  have hblk2 : ∀ x n, getBlock ((s.emit (.put (.td b.hash) .blob)).emitAll (flushEventsOf flush)).db x n = getBlock s.db x n :=
    fun x n => getBlock_congr (same2 _ rfl rfl) (same2 _ rfl rfl) n
  have hpar2 : ∀ m, b.num = m + 1 →
      ∃ hd', getBlock ((s.emit (.put (.td b.hash) .blob)).emitAll (flushEventsOf flush)).db b.parent m = some hd' :=
    fun m hm => by rw [hblk2]; exact hok.parent m hm
  have htd2 : (get ((s.emit (.put (.td b.hash) .blob)).emitAll (flushEventsOf flush)).db (.td b.hash)).isSome = true := by
    rw [t2 _ rfl]; simp [apply, get_put]
  have hfresh2 : FreshOrSame ((s.emit (.put (.td b.hash) .blob)).emitAll (flushEventsOf flush)).db b := by
    unfold FreshOrSame
    rw [same2 _ rfl rfl, same2 _ rfl rfl]
    exact hok.fresh
  have hnum2 : ∀ x, blockNumber ((s.emit (.put (.td b.hash) .blob)).emitAll (flushEventsOf flush)).db x = blockNumber s.db x :=
    fun x => blockNumber_congr (same2 _ rfl rfl)
  have hhead2 : ((s.emit (.put (.td b.hash) .blob)).emitAll (flushEventsOf flush)).head = s.head := by rw [h2]; rfl
  unfold writeBlock
  simp only
  obtain ⟨m, hm⟩ : ∃ m, b.num = m + 1 := ⟨b.num - 1, by have := hok.pos; omega⟩
  cases canon with
  | false =>
    simp only [Bool.not_false, if_true]
    have := (inv_block_batch g2.inv b [] (by simp) hfresh2 hok.state hok.valid hpar2 htd2).1
    rw [List.append_nil] at this
    exact good_emit g2 _ this
  | true =>
    simp only [Bool.not_true, Bool.false_eq_true, if_false]
    split
    · -- the block extends the head
      rename_i hpar
      rw [hhead2] at hpar
      obtain ⟨i3, hX3, _, hnum3⟩ := inv_block_batch g2.inv b (lookupWrites b.hash b.txs)
        (by intro w hw; simp only [lookupWrites, List.mem_map] at hw; obtain ⟨t, _, rfl⟩ := hw; rfl) hfresh2 hok.state hok.valid hpar2 htd2
      have g3 := good_emit g2 _ i3
      obtain ⟨n, hn, hc⟩ := hg.inv.chain
      have hbn : b.num = n + 1 := hok.link n (by rw [hpar]; exact hn)
      have hmn : m = n := by omega
      subst hmn
      rw [hm] at hX3 ⊢
      -- the head's chain in the image after the batch
      obtain ⟨n3, hn3, hc3⟩ := g3.inv.chain
      have hn3' := hnum3 s.head m (by rw [hnum2]; exact hn)
      rw [emit_head, hhead2] at hn3 hc3
      rw [emit_db] at hn3
      rw [hn3'] at hn3; injection hn3 with hn3; subst hn3
      exact (good_insertW v g3 hX3 (by simpa [hpar] using hc3)
        (fun _ => ⟨m, by rw [emit_head, hhead2, emit_db]; exact hn3', by omega⟩) (some b.parent) (m + 1 + 2)
        (fun q hq => by cases hq; rfl)).1
    · -- the block belongs to another branch: reorg
      rename_i hpar
      rcases hv with ⟨hat, hbf⟩ | hno
      · split
        · exact g2
        · rename_i cn hcn
          split
          · exact g2
          · rename_i chd hcur
            simp only [hbf, Bool.not_true, Bool.false_eq_true, if_false]
            obtain ⟨i3, hX3, hblk3, hnum3⟩ := inv_block_batch g2.inv b [] (by simp) hfresh2 hok.state hok.valid hpar2 htd2
            rw [List.append_nil] at i3 hX3 hblk3 hnum3
            have g3 := good_emit g2 (.batch (blockData b)) i3
            split
            · exact g3
            · rename_i s4 hre
              obtain ⟨g4, c4, b4⟩ := good_reorgW v hat g3 b (hblk3 _ _ _ hcur) (hnum3 _ _ hcn) hX3 hre
              obtain ⟨i5, t5⟩ := inv_lookup_batch g4.inv b.hash b.txs
              have g5 := good_emit g4 _ i5
              have hX5 : getBlock (s4.emit (.batch (lookupWrites b.hash b.txs))).db b.hash (m + 1) = some ⟨b.parent, b.num, b.root⟩ := by
                rw [emit_db, getBlock_congr (t5 _ rfl) (t5 _ rfl), b4, ← hm]; exact hX3
              have c5 : CanonAgrees (s4.emit (.batch (lookupWrites b.hash b.txs))).db b.hash (m + 1) := by
                rw [← hm]; exact canonAgrees_of_irrelevant t5 c4
              rw [hm]
              exact (good_insertW v g5 hX5 (canonAgrees_parent c5 hX5) (by intro e; rw [hat] at e; cases e) (some b.parent)
                (m + 1 + 2) (fun q hq => by cases hq; rfl)).1
      · exact absurd (by rw [hhead2]; exact hno rfl) hpar

/-! ### WriteBlockWithoutState: body, hash→number, header as three separate puts (pruning nodes only) -/

theorem get_hashNum_of_blockNumber {db : Db} {h : Hash} {n : Nat} (hn : blockNumber db h = some n) :
    get db (.hashNum h) = some (.num n) := by
  unfold blockNumber at hn
  split at hn
  · rename_i n' hg; injection hn with hn; subst hn; exact hg
  · simp at hn

/-- the keys of block `b` change towards "stored" (never away from it, never to another content) -/
theorem inv_block_keys {db db' : Db} {g : Hash} (hi : Inv false V db g) (b : Blk) (hf : FreshOrSame db b)
    (ha : ∀ k, k ≠ .body b.hash → k ≠ .hashNum b.hash → k ≠ .header b.hash → irrelevant k = false → get db' k = get db k)
    (hb : (get db (.body b.hash)).isSome = true → (get db' (.body b.hash)).isSome = true)
    (hc : get db' (.hashNum b.hash) = get db (.hashNum b.hash) ∨ get db' (.hashNum b.hash) = some (.num b.num))
    (hd : get db' (.header b.hash) = get db (.header b.hash) ∨
      (get db' (.header b.hash) = some (.hdr b.parent b.num b.root) ∧ get db' (.hashNum b.hash) = some (.num b.num)))
    (hV : V b.hash ⟨b.parent, b.num, b.root⟩)
    (hpar : ∀ m, b.num = m + 1 → ∃ hd', getBlock db b.parent m = some hd')
    (htdX : (get db (.td b.hash)).isSome = true) :
    Inv false V db' g ∧ (∀ h n hd, getBlock db h n = some hd → getBlock db' h n = some hd) := by
  have gHdr : ∀ h, h ≠ b.hash → get db' (.header h) = get db (.header h) := fun h e =>
    ha _ (by intro e'; cases e') (by intro e'; cases e') (by intro e'; injection e' with e'; exact e e') rfl
  have gBody : ∀ h, h ≠ b.hash → get db' (.body h) = get db (.body h) := fun h e =>
    ha _ (by intro e'; injection e' with e'; exact e e') (by intro e'; cases e') (by intro e'; cases e') rfl
  have gNum : ∀ h, h ≠ b.hash → get db' (.hashNum h) = get db (.hashNum h) := fun h e =>
    ha _ (by intro e'; cases e') (by intro e'; injection e' with e'; exact e e') (by intro e'; cases e') rfl
  have gOther : ∀ k, (∀ h, k ≠ .body h) → (∀ h, k ≠ .hashNum h) → (∀ h, k ≠ .header h) → irrelevant k = false → get db' k = get db k :=
    fun k h1 h2 h3 h4 => ha k (h1 _) (h2 _) (h3 _) h4
  -- numbers are preserved
  have hNumSame : ∀ h n, blockNumber db h = some n → blockNumber db' h = some n := by
    intro h n hn
    by_cases e : h = b.hash
    · subst e
      have hg := get_hashNum_of_blockNumber hn
      rcases hc with h0 | h0
      · rw [blockNumber_congr h0]; exact hn
      · rcases hf.2 with h1 | h1
        · rw [h1] at hg; cases hg
        · rw [h1] at hg; injection hg with hg; injection hg with hg; subst hg
          unfold blockNumber; rw [h0]
    · rw [blockNumber_congr (gNum h e)]; exact hn
  -- headers are preserved with their content
  have hHdrMono : ∀ h n hd', getHeader db h n = some hd' → getHeader db' h n = some hd' := by
    intro h n hd' hh
    by_cases e : h = b.hash
    · subst e
      rcases hd with h0 | ⟨h0, _⟩
      · rw [getHeader_congr h0]; exact hh
      · obtain ⟨hg, hn⟩ := getHeader_eq hh
        rcases hf.1 with h1 | h1
        · rw [h1] at hg; cases hg
        · rw [h1] at hg; injection hg with hg; injection hg with e1 e2 e3
          have : hd' = ⟨b.parent, b.num, b.root⟩ := by cases hd'; simp_all
          subst this
          rw [← hn]; exact getHeader_of_get h0
    · rw [getHeader_congr (gHdr h e)]; exact hh
  have hBlkMono : ∀ h n hd', getBlock db h n = some hd' → getBlock db' h n = some hd' := by
    intro h n hd' hbk
    apply getBlock_of_header_body (hHdrMono h n hd' (getBlock_header hbk))
    have hbody : (get db (.body h)).isSome = true := by
      unfold getBlock at hbk
      split at hbk
      · split at hbk
        · assumption
        · simp at hbk
      · simp at hbk
    by_cases e : h = b.hash
    · subst e; exact hb hbody
    · rw [gBody h e]; exact hbody
  obtain ⟨n, hn, hcn⟩ := hi.chain
  obtain ⟨g0, hd0, hc0, hb0, hs0⟩ := hi.gstate
  have gCanon : ∀ k, canonHash db' k = canonHash db k := fun k =>
    canonHash_congr (gOther _ (by intro _ e; cases e) (by intro _ e; cases e) (by intro _ e; cases e) rfl)
  have gNode : ∀ c, get db' (.node c) = get db (.node c) := fun c =>
    gOther _ (by intro _ e; cases e) (by intro _ e; cases e) (by intro _ e; cases e) rfl
  have hArch : false = true → ∀ h n hd, getBlock db' h n = some hd → hasState db' hd.root = true := by
    intro e; cases e
  have gTd : ∀ h, get db' (.td h) = get db (.td h) := fun h =>
    gOther _ (by intro _ e; cases e) (by intro _ e; cases e) (by intro _ e; cases e) rfl
  -- the header of block `b` in the new image always has b's content
  have hXhdr : ∀ m hd', getHeader db' b.hash m = some hd' → hd' = ⟨b.parent, b.num, b.root⟩ ∧ m = b.num := by
    intro m hd' hh
    obtain ⟨hg, hm⟩ := getHeader_eq hh
    have hcont : get db' (.header b.hash) = some (.hdr b.parent b.num b.root) := by
      rcases hd with h0 | ⟨h0, _⟩
      · rw [h0] at hg ⊢
        rcases hf.1 with h1 | h1
        · rw [h1] at hg; cases hg
        · exact h1
      · exact h0
    rw [hcont] at hg; injection hg with hg; injection hg with e1 e2 e3
    refine ⟨?_, by omega⟩
    cases hd'; simp_all
  have hBlkInv : ∀ h m hd', getBlock db' h m = some hd' →
      (h = b.hash ∧ hd' = ⟨b.parent, b.num, b.root⟩ ∧ m = b.num) ∨ getBlock db h m = some hd' := by
    intro h m hd' hbk
    by_cases e : h = b.hash
    · subst e
      obtain ⟨h1, h2⟩ := hXhdr m hd' (getBlock_header hbk)
      exact .inl ⟨rfl, h1, h2⟩
    · rw [getBlock_congr (gHdr h e) (gBody h e)] at hbk
      exact .inr hbk
  have hExt : Ext V db' := by
    refine ⟨?_, ?_, ?_⟩
    · intro h m hd' hh
      by_cases e : h = b.hash
      · subst e
        rw [(hXhdr m hd' hh).1]; exact hV
      · rw [getHeader_congr (gHdr h e)] at hh
        exact hi.ext.valid h m hd' hh
    · intro h m hd' hbk
      rcases hBlkInv h (m + 1) hd' hbk with ⟨_, rfl, hm⟩ | hb'
      · obtain ⟨p', h'⟩ := hpar m hm.symm
        exact ⟨p', hBlkMono _ _ _ h'⟩
      · obtain ⟨p', h'⟩ := hi.ext.pclosed h m hd' hb'
        exact ⟨p', hBlkMono _ _ _ h'⟩
    · intro h m hd' hbk
      rw [gTd]
      rcases hBlkInv h m hd' hbk with ⟨rfl, _, _⟩ | hb'
      · exact htdX
      · exact hi.ext.storedTd h m hd' hb'
  refine ⟨⟨hExt, ?_, ⟨n, hNumSame _ _ hn, canonAgrees_mono hBlkMono hcn (fun k _ => gCanon k)⟩, ?_,
    ⟨g0, hd0, by rw [gCanon]; exact hc0, hBlkMono _ _ _ hb0, by unfold hasState; rw [gNode]; exact hs0⟩, hArch, ?_⟩, hBlkMono⟩
  · rw [headPtr_congr (gOther _ (by intro _ e; cases e) (by intro _ e; cases e) (by intro _ e; cases e) rfl)]; exact hi.head
  · intro x cs hg c hcm
    rw [gNode] at hg ⊢
    exact hi.closed x cs hg c hcm
  · intro h m hd' hh
    by_cases e : h = b.hash
    · subst e
      rcases hd with h0 | ⟨h0, h1⟩
      · rw [getHeader_congr h0] at hh
        exact hNumSame _ _ (hi.hnum _ m hd' hh)
      · obtain ⟨hg, hm⟩ := getHeader_eq hh
        rw [h0] at hg; injection hg with hg; injection hg with _ e2 _
        unfold blockNumber; rw [h1, ← hm, ← e2]
    · rw [getHeader_congr (gHdr h e)] at hh
      exact hNumSame _ _ (hi.hnum h m hd' hh)

theorem good_sideNoState {s : Em} (hg : Good false V db₀ g₀ s) (b : Blk) (hf : FreshOrSame s.db b)
    (hV : V b.hash ⟨b.parent, b.num, b.root⟩)
    (hpar : ∀ m, b.num = m + 1 → ∃ hd', getBlock s.db b.parent m = some hd') :
    Good false V db₀ g₀ ((s.emit (.put (.td b.hash) .blob)).emitAll
      [.put (.body b.hash) (.txs b.txs), .put (.hashNum b.hash) (.num b.num), .put (.header b.hash) (.hdr b.parent b.num b.root)]) := by
  have g1 : Good false V db₀ g₀ (s.emit (.put (.td b.hash) .blob)) := good_emit hg _ (inv_put_td hg.inv _ _)
  have f1 : FreshOrSame (s.emit (.put (.td b.hash) .blob)).db b := by
    unfold FreshOrSame
    rw [emit_db]
    show (get (put s.db _ _) _ = none ∨ _) ∧ (get (put s.db _ _) _ = none ∨ _)
    rw [get_put_ne _ _ (by intro e; cases e), get_put_ne _ _ (by intro e; cases e)]
    exact hf
  have p1 : ∀ m, b.num = m + 1 → ∃ hd', getBlock (s.emit (.put (.td b.hash) .blob)).db b.parent m = some hd' := by
    intro m hm
    obtain ⟨hd', h'⟩ := hpar m hm
    refine ⟨hd', ?_⟩
    rw [emit_db]
    show getBlock (put s.db _ _) _ _ = _
    rw [getBlock_congr (get_put_ne _ _ (by intro e; cases e)) (get_put_ne _ _ (by intro e; cases e))]
    exact h'
  have t1 : (get (s.emit (.put (.td b.hash) .blob)).db (.td b.hash)).isSome = true := by simp [apply, get_put]
  -- body
  obtain ⟨i2, m2⟩ := inv_block_keys g1.inv b f1 (db' := apply (s.emit (.put (.td b.hash) .blob)).db (.put (.body b.hash) (.txs b.txs)))
    (fun k h1 _ _ _ => get_put_ne _ _ (Ne.symm h1)) (fun _ => by simp [apply, get_put])
    (Or.inl (get_put_ne _ _ (by intro e; cases e))) (Or.inl (get_put_ne _ _ (by intro e; cases e))) hV p1 t1
  have g2 := good_emit g1 _ i2
  have f2 : FreshOrSame ((s.emit (.put (.td b.hash) .blob)).emit (.put (.body b.hash) (.txs b.txs))).db b := by
    unfold FreshOrSame
    rw [emit_db]
    show (get (put _ _ _) _ = none ∨ _) ∧ (get (put _ _ _) _ = none ∨ _)
    rw [get_put_ne _ _ (by intro e; cases e), get_put_ne _ _ (by intro e; cases e)]
    exact f1
  have p2 : ∀ m, b.num = m + 1 →
      ∃ hd', getBlock ((s.emit (.put (.td b.hash) .blob)).emit (.put (.body b.hash) (.txs b.txs))).db b.parent m = some hd' :=
    fun m hm => by obtain ⟨hd', h'⟩ := p1 m hm; exact ⟨hd', m2 _ _ _ h'⟩
  have t2 : (get ((s.emit (.put (.td b.hash) .blob)).emit (.put (.body b.hash) (.txs b.txs))).db (.td b.hash)).isSome = true := by
    rw [emit_db]
    show (get (put _ _ _) _).isSome = true
    rw [get_put_ne _ _ (by intro e; cases e)]; exact t1
  -- hash → number
  obtain ⟨i3, m3⟩ := inv_block_keys g2.inv b f2
    (db' := apply ((s.emit (.put (.td b.hash) .blob)).emit (.put (.body b.hash) (.txs b.txs))).db (.put (.hashNum b.hash) (.num b.num)))
    (fun k _ h2 _ _ => get_put_ne _ _ (Ne.symm h2)) (fun h => by
        show (get (put _ _ _) _).isSome = true
        rw [get_put_ne _ _ (by intro e; cases e)]; exact h)
      (Or.inr (by simp [apply, get_put])) (Or.inl (get_put_ne _ _ (by intro e; cases e))) hV p2 t2
  have g3 := good_emit g2 _ i3
  have f3 : FreshOrSame (((s.emit (.put (.td b.hash) .blob)).emit (.put (.body b.hash) (.txs b.txs))).emit
      (.put (.hashNum b.hash) (.num b.num))).db b := by
    unfold FreshOrSame
    rw [emit_db]
    show (get (put _ _ _) _ = none ∨ _) ∧ (get (put _ _ _) _ = none ∨ _)
    exact ⟨by rw [get_put_ne _ _ (by intro e; cases e)]; exact f2.1, Or.inr (get_put_same _ _ _)⟩
  have p3 : ∀ m, b.num = m + 1 → ∃ hd', getBlock (((s.emit (.put (.td b.hash) .blob)).emit (.put (.body b.hash) (.txs b.txs))).emit
      (.put (.hashNum b.hash) (.num b.num))).db b.parent m = some hd' :=
    fun m hm => by obtain ⟨hd', h'⟩ := p2 m hm; exact ⟨hd', m3 _ _ _ h'⟩
  have t3 : (get (((s.emit (.put (.td b.hash) .blob)).emit (.put (.body b.hash) (.txs b.txs))).emit
      (.put (.hashNum b.hash) (.num b.num))).db (.td b.hash)).isSome = true := by
    rw [emit_db]
    show (get (put _ _ _) _).isSome = true
    rw [get_put_ne _ _ (by intro e; cases e)]; exact t2
  -- header
  obtain ⟨i4, _⟩ := inv_block_keys g3.inv b f3
    (db' := apply (((s.emit (.put (.td b.hash) .blob)).emit (.put (.body b.hash) (.txs b.txs))).emit
      (.put (.hashNum b.hash) (.num b.num))).db (.put (.header b.hash) (.hdr b.parent b.num b.root)))
    (fun k _ _ h3 _ => get_put_ne _ _ (Ne.symm h3)) (fun h => by
        show (get (put _ _ _) _).isSome = true
        rw [get_put_ne _ _ (by intro e; cases e)]; exact h)
      (Or.inl (get_put_ne _ _ (by intro e; cases e)))
      (Or.inr ⟨by simp [apply, get_put], by
        show get (put _ _ _) _ = _
        rw [get_put_ne _ _ (by intro e; cases e)]
        simp [apply, get_put]⟩) hV p3 t3
  exact good_emit g3 _ i4

/-! ### whole histories -/

/-- validity of a step in the current state (what `insertChain` guarantees before it calls the writers) -/
def StepOK (ar : Bool) (V : Hash → Hdr → Prop) (v : Variant) (s : Em) : Step → Prop
  | .importBlock b canon flush =>
    ImportOK ar V s b flush ∧ ((v.atomicInsert = true ∧ v.batchFirst = true) ∨ (canon = true → b.parent = s.head))
  | .sideNoState b => ar = false ∧ FreshOrSame s.db b ∧ V b.hash ⟨b.parent, b.num, b.root⟩ ∧
      (∀ m, b.num = m + 1 → ∃ hd', getBlock s.db b.parent m = some hd')
  | .stop flush => FlushOK s.db flush
  | .setHead _ => False          -- outside the property's quantifier (import, reorganisation, shutdown)
  | .opened => True

def StepsOK (ar : Bool) (V : Hash → Hdr → Prop) (v : Variant) : Em → List Step → Prop
  | _, [] => True
  | s, st :: rest => StepOK ar V v s st ∧ StepsOK ar V v (step v s st) rest

theorem good_step (v : Variant) {s : Em} (hg : Good ar V db₀ g₀ s) (st : Step) (hok : StepOK ar V v s st) :
    Good ar V db₀ g₀ (step v s st) := by
  cases st with
  | importBlock b canon flush => exact good_writeBlock v hg b canon flush hok.1 hok.2
  | sideNoState b =>
    obtain ⟨har, hf, hV, hp⟩ := hok
    subst har
    exact good_sideNoState hg b hf hV hp
  | stop flush => exact (good_flush flush hg hok).1
  | setHead n => exact absurd hok (by simp [StepOK])
  | opened =>
    unfold step
    simp only
    refine good_hhdr (good_emit hg (.put .lastHeader _) ?_) _
    exact inv_put_irrelevant hg.inv _ rfl

theorem good_steps (v : Variant) : ∀ (steps : List Step) {s : Em}, Good ar V db₀ g₀ s → StepsOK ar V v s steps →
    Good ar V db₀ g₀ (steps.foldl (step v) s) := by
  intro steps
  induction steps with
  | nil => intro s hg _; exact hg
  | cons st rest ih => intro s hg hok; exact ih (good_step v hg st hok.1) hok.2

theorem good_init {db : Db} {g : Hash} (hi : Inv ar V db g) : Good ar V db g { db := db, head := g, hhdr := g } :=
  ⟨fun p hp => by
      have : p = [] := List.prefix_nil.mp hp
      subst this; exact hi, rfl, rfl, hi⟩

/-- every prefix of the write log of a valid history satisfies the discipline -/
theorem writeLog_traceOK (v : Variant) {db : Db} {g : Hash} (hi : Inv ar V db g) (steps : List Step)
    (hok : StepsOK ar V v { db := db, head := g, hhdr := g } steps) : TraceOK ar db g (writeLog v db g steps) = true :=
  (good_steps v steps (good_init hi) hok).trace

/-- every prefix of the write log of a valid history is an image that satisfies the invariant (with its ghost head) -/
theorem writeLog_allInv (v : Variant) {db : Db} {g : Hash} (hi : Inv ar V db g) (steps : List Step)
    (hok : StepsOK ar V v { db := db, head := g, hhdr := g } steps) :
    ∀ p, p <+: writeLog v db g steps → Inv ar V (applyAll db (p.map (·.1))) (ghostAt g p) :=
  (good_steps v steps (good_init hi) hok).all

/-! ### a decidable sufficient check for `Inv` (used for concrete instances) -/

def invB (ar : Bool) (db : Db) (g : Hash) : Bool :=
  (headPtr db == some g) &&
  (match blockNumber db g with | some n => chainOK db (n + 1) g n | none => false) &&
  closedB db &&
  (match canonHash db 0 with
    | some g0 => (match getBlock db g0 0 with | some hd0 => hasState db hd0.root | none => false)
    | none => false) &&
  db.all fun e =>
    match e.1 with
    | .header h =>
      match get db (.header h) with
      | some (.hdr p n r) => (blockNumber db h == some n) && (!ar || !(get db (.body h)).isSome || hasState db r) &&
          (!(get db (.body h)).isSome ||
            ((get db (.td h)).isSome && (n == 0 || (getBlock db p (n - 1)).isSome)))
      | _ => true
    | _ => true

theorem invB_sound {ar : Bool} {db : Db} {g : Hash} (h : invB ar db g = true) : Inv ar (fun _ _ => True) db g := by
  unfold invB at h
  simp only [Bool.and_eq_true, beq_iff_eq] at h
  obtain ⟨⟨⟨⟨h1, h2⟩, h3⟩, h4⟩, h5⟩ := h
  have hdr : ∀ x n hd, getHeader db x n = some hd →
      blockNumber db x = some n ∧ (ar = true → (get db (.body x)).isSome = true → hasState db hd.root = true) ∧
      ((get db (.body x)).isSome = true → (get db (.td x)).isSome = true ∧
        (n = 0 ∨ (getBlock db hd.parent (n - 1)).isSome = true)) := by
    intro x n hd hh
    obtain ⟨hg, hn⟩ := getHeader_eq hh
    obtain ⟨v', hv'⟩ := mem_keys_of_get hg
    have := (List.all_eq_true.mp h5) _ hv'
    simp only [hg, Bool.and_eq_true, beq_iff_eq, Bool.or_eq_true, Bool.not_eq_true'] at this
    refine ⟨by rw [← hn]; exact this.1.1, fun har hb => ?_, fun hb => ?_⟩
    · rcases this.1.2 with (h0 | h0) | h0
      · rw [har] at h0; cases h0
      · rw [hb] at h0; cases h0
      · exact h0
    · rcases this.2 with h0 | h0
      · rw [hb] at h0; cases h0
      · rw [← hn]; exact h0
  have hbody : ∀ x n hd, getBlock db x n = some hd → (get db (.body x)).isSome = true := by
    intro x n hd hb
    unfold getBlock at hb
    split at hb
    · split at hb
      · assumption
      · simp at hb
    · simp at hb
  have hext : Ext (fun _ _ => True) db := by
    refine ⟨fun _ _ _ _ => trivial, ?_, ?_⟩
    · intro x n hd hb
      rcases ((hdr x (n + 1) hd (getBlock_header hb)).2.2 (hbody _ _ _ hb)).2 with h0 | h0
      · omega
      · exact Option.isSome_iff_exists.mp (by simpa using h0)
    · intro x n hd hb
      exact ((hdr x n hd (getBlock_header hb)).2.2 (hbody _ _ _ hb)).1
  refine ⟨hext, h1, ?_, (closedB_iff db).mp h3, ?_, ?_, fun x n hd hh => (hdr x n hd hh).1⟩
  · split at h2
    · rename_i n hn; exact ⟨n, hn, canonAgrees_of_chainOK _ _ _ h2⟩
    · cases h2
  · split at h4
    · rename_i g0 hc0
      split at h4
      · rename_i hd0 hb0; exact ⟨g0, hd0, hc0, hb0, h4⟩
      · cases h4
    · cases h4
  · intro har x n hd hb
    exact (hdr x n hd (getBlock_header hb)).2.1 har (hbody _ _ _ hb)

end Aqv.ChainDb

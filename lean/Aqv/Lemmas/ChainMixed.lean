/-
  Aqv.Lemmas.ChainMixed — the td-level model of one chain fed through both import paths (`Aqv.Model.ChainMixed`):
  records stay intrinsic, the head block stays a heaviest validated block and its total difficulty never decreases
  whatever header imports happen in between, and a header import never lowers the head header's total difficulty and
  leaves it at least as heavy as every header it wrote.
-/
import Aqv.Model.ChainMixed
import Aqv.Lemmas.ChainTd
namespace Aqv.Chain

structure MInv (U : Map Blk) (s : MSt) : Prop where
  sub : StoreExt s.hdr U
  tdI : ∀ k t, s.td k = some t → ∃ x l, U k = some x ∧ Path U x l s.genesis ∧ t = s.genesis.diff + diffSum l
  hdrTd : ∀ k x, s.hdr k = some x → (s.td k).isSome = true
  blkHdr : ∀ k, s.blk k = true → (s.hdr k).isSome = true
  headBlk : s.blk s.head = true
  hheadHdr : (s.hdr s.hhead).isSome = true
  /-- the head block is at least as heavy as every fully validated block -/
  headMax : ∀ k t, s.blk k = true → s.td k = some t → ∃ th, s.td s.head = some th ∧ t ≤ th

/-- what every import keeps: invariant, store and records only grow, the head block never gets lighter -/
structure MStep (U : Map Blk) (s s' : MSt) : Prop where
  inv : MInv U s'
  gen : s'.genesis = s.genesis
  ext : StoreExt s.hdr s'.hdr
  tdKeep : ∀ k t, s.td k = some t → s'.td k = some t
  headMono : ∀ th, s.td s.head = some th → ∃ th', s'.td s'.head = some th' ∧ th ≤ th'

/-- what a header import keeps in addition: head block untouched, head header never lighter, and at least as heavy as
    every header the call has newly stored -/
structure MHStep (U : Map Blk) (s s' : MSt) : Prop extends MStep U s s' where
  headSame : s'.head = s.head
  hheadMono : ∀ th, s.td s.hhead = some th → ∃ th', s'.td s'.hhead = some th' ∧ th ≤ th'
  newMax : ∀ k, s.hdr k = none → (s'.hdr k).isSome = true →
    ∃ t th, s'.td k = some t ∧ s'.td s'.hhead = some th ∧ t ≤ th

variable {U : Map Blk}

theorem MStep.refl {s : MSt} (h : MInv U s) : MStep U s s :=
  ⟨h, rfl, fun _ _ hx => hx, fun _ _ hk => hk, fun th hth => ⟨th, hth, Nat.le_refl _⟩⟩

theorem MStep.trans {s s' s'' : MSt} (h1 : MStep U s s') (h2 : MStep U s' s'') : MStep U s s'' :=
  ⟨h2.inv, by rw [h2.gen, h1.gen], fun k x hx => h2.ext _ _ (h1.ext _ _ hx), fun k t hk => h2.tdKeep _ _ (h1.tdKeep _ _ hk),
    fun th hth => by
      obtain ⟨th', hth', hle⟩ := h1.headMono th hth
      obtain ⟨th'', hth'', hle'⟩ := h2.headMono th' hth'
      exact ⟨th'', hth'', by omega⟩⟩

theorem MHStep.refl {s : MSt} (h : MInv U s) : MHStep U s s :=
  { toMStep := MStep.refl h, headSame := rfl, hheadMono := fun th hth => ⟨th, hth, Nat.le_refl _⟩,
    newMax := fun k hk hk' => by rw [hk] at hk'; cases hk' }

theorem MHStep.trans {s s' s'' : MSt} (h1 : MHStep U s s') (h2 : MHStep U s' s'') : MHStep U s s'' :=
  { toMStep := h1.toMStep.trans h2.toMStep
    headSame := by rw [h2.headSame, h1.headSame]
    hheadMono := fun th hth => by
      obtain ⟨th', hth', hle⟩ := h1.hheadMono th hth
      obtain ⟨th'', hth'', hle'⟩ := h2.hheadMono th' hth'
      exact ⟨th'', hth'', by omega⟩
    newMax := fun k hk hk'' => by
      cases hk' : s'.hdr k with
      | none => exact h2.newMax k hk' hk''
      | some x =>
        obtain ⟨t, th, ht, hth, hle⟩ := h1.newMax k hk (by rw [hk']; rfl)
        obtain ⟨th'', hth'', hle'⟩ := h2.hheadMono th hth
        exact ⟨t, th'', h2.tdKeep _ _ ht, hth'', by omega⟩ }

theorem minv_init (g : Blk) (hgU : U g.id = some g) : MInv U (minit g) := by
  refine ⟨?_, ?_, ?_, ?_, by simp [minit], by simp [minit], ?_⟩
  · intro k x hx
    simp only [minit] at hx
    by_cases hk : k = g.id
    · subst hk; simp at hx; subst hx; exact hgU
    · rw [upd_other _ _ _ _ hk] at hx; cases hx
  · intro k t hk
    simp only [minit] at hk
    by_cases hkg : k = g.id
    · subst hkg; simp at hk
      exact ⟨g, [], hgU, .nil _, by simp [minit, diffSum, hk]⟩
    · rw [upd_other _ _ _ _ hkg] at hk; cases hk
  · intro k x hx
    simp only [minit] at hx ⊢
    by_cases hkg : k = g.id
    · subst hkg; simp
    · rw [upd_other _ _ _ _ hkg] at hx; cases hx
  · intro k hk
    simp only [minit] at hk ⊢
    by_cases hkg : k = g.id
    · subst hkg; simp
    · rw [updB_other _ _ _ _ hkg] at hk; cases hk
  · intro k t hk ht
    simp only [minit] at hk ht ⊢
    by_cases hkg : k = g.id
    · subst hkg; simp at ht; exact ⟨g.diff, by simp, by omega⟩
    · rw [upd_other _ _ _ _ hkg] at ht; cases ht

theorem ancestry_mem {V : Map Blk} : ∀ (f : Nat) (b x : Blk), x ∈ ancestry V f b → x = b ∨ ∃ k, V k = some x := by
  intro f
  induction f with
  | zero => intro b x hx; simp [ancestry] at hx
  | succ f ih =>
    intro b x hx
    simp only [ancestry, List.mem_cons] at hx
    rcases hx with hx | hx
    · exact .inl hx
    · cases hp : parentOf V b with
      | none => rw [hp] at hx; cases hx
      | some p =>
        rw [hp] at hx
        rcases ih p x hx with h1 | h1
        · exact .inr ⟨_, by rw [h1]; exact (parentOf_some hp).1⟩
        · exact .inr h1

/-- the record of `b` computed from its parent's record is the intrinsic value -/
theorem mtd_child (W : World U) {s : MSt} (h : MInv U s) {b p : Blk} (hbU : U b.id = some b)
    (hpar : parentOf s.hdr b = some p) {ptd : Nat} (hptd : s.td b.parent = some ptd) :
    ∃ x l, U b.id = some x ∧ Path U x l s.genesis ∧ ptd + b.diff = s.genesis.diff + diffSum l := by
  obtain ⟨p', lp, hp'U, hpp, htp⟩ := h.tdI _ _ hptd
  have hpU : U b.parent = some p := h.sub _ _ (parentOf_some hpar).1
  rw [hpU] at hp'U; cases hp'U
  refine ⟨b, b :: lp, hbU, .cons (parentOf_mono h.sub hpar) hpp, ?_⟩
  rw [diffSum_cons, htp]
  omega

theorem mtd_keep (W : World U) {s : MSt} (h : MInv U s) {b p : Blk} (hbU : U b.id = some b)
    (hpar : parentOf s.hdr b = some p) {ptd : Nat} (hptd : s.td b.parent = some ptd) :
    ∀ k t, s.td k = some t → upd s.td b.id (some (ptd + b.diff)) k = some t := by
  intro k t hk
  by_cases hkb : k = b.id
  · subst hkb
    simp only [upd_same]
    congr 1
    exact td_unique (mtd_child W h hbU hpar hptd) (h.tdI _ _ hk)
  · rw [upd_other _ _ _ _ hkb]; exact hk

theorem mtdI_upd (W : World U) {s : MSt} (h : MInv U s) {b p : Blk} (hbU : U b.id = some b)
    (hpar : parentOf s.hdr b = some p) {ptd : Nat} (hptd : s.td b.parent = some ptd) :
    ∀ k t, upd s.td b.id (some (ptd + b.diff)) k = some t →
      ∃ x l, U k = some x ∧ Path U x l s.genesis ∧ t = s.genesis.diff + diffSum l := by
  intro k t hk
  by_cases hkb : k = b.id
  · subst hkb; simp at hk; subst hk; exact mtd_child W h hbU hpar hptd
  · rw [upd_other _ _ _ _ hkb] at hk; exact h.tdI k t hk

theorem mhdr_ext {s : MSt} (h : MInv U s) {b : Blk} (hbU : U b.id = some b) :
    StoreExt s.hdr (upd s.hdr b.id (some b)) ∧ StoreExt (upd s.hdr b.id (some b)) U := by
  constructor
  · intro k x hx
    by_cases hk : k = b.id
    · subst hk
      have := h.sub _ _ hx
      rw [hbU] at this; cases this; simp
    · rw [upd_other _ _ _ _ hk]; exact hx
  · intro k x hx
    by_cases hk : k = b.id
    · subst hk; simp at hx; subst hx; exact hbU
    · rw [upd_other _ _ _ _ hk] at hx; exact h.sub _ _ hx

/-- `WriteBlockWithState` in a mixed history, for every coin and every head-header choice -/
theorem mstep_writeBlock (W : World U) {s : MSt} (h : MInv U s) {b p : Blk} (hbU : U b.id = some b)
    (hpar : parentOf s.hdr b = some p) (coin : Bool) (hh : Option Nat) : MStep U s (mWriteBlock s b coin hh).st := by
  unfold mWriteBlock
  cases hptd : s.td b.parent with
  | none => exact MStep.refl h
  | some ptd =>
    simp only
    obtain ⟨hx, hhx⟩ := Option.isSome_iff_exists.mp (h.blkHdr _ h.headBlk)
    rw [hhx]
    obtain ⟨localTd, hlt⟩ := Option.isSome_iff_exists.mp (h.hdrTd _ _ hhx)
    rw [hlt]
    simp only
    obtain ⟨he1, he2⟩ := mhdr_ext h hbU
    have hkeep := mtd_keep W h hbU hpar hptd
    have hI' := mtdI_upd W h hbU hpar hptd
    have hhdrTd' : ∀ k x, upd s.hdr b.id (some b) k = some x → (upd s.td b.id (some (ptd + b.diff)) k).isSome = true := by
      intro k x hk
      by_cases hkb : k = b.id
      · subst hkb; simp
      · rw [upd_other _ _ _ _ hkb] at hk ⊢; exact h.hdrTd k x hk
    have hblkHdr' : ∀ k, updB s.blk b.id true k = true → (upd s.hdr b.id (some b) k).isSome = true := by
      intro k hk
      by_cases hkb : k = b.id
      · subst hkb; simp
      · rw [updB_other _ _ _ _ hkb] at hk; rw [upd_other _ _ _ _ hkb]; exact h.blkHdr k hk
    have hhh' : (upd s.hdr b.id (some b) s.hhead).isSome = true := by
      obtain ⟨y, hy⟩ := Option.isSome_iff_exists.mp h.hheadHdr
      rw [he1 _ _ hy]; rfl
    by_cases hdec : decideReorg (ptd + b.diff) localTd b.number hx.number coin = true
    · rw [if_pos hdec]
      have hge := decideReorg_ge hdec
      refine ⟨⟨he2, hI', hhdrTd', hblkHdr', by simp, ?_, ?_⟩, rfl, he1, hkeep, ?_⟩
      · -- the head header is b, one of its stored ancestors, or unchanged
        simp only
        cases hh with
        | none => exact hhh'
        | some k =>
          simp only
          cases hg : (ancestry (upd s.hdr b.id (some b)) (b.number + 1) b)[k]? with
          | none => exact hhh'
          | some x =>
            simp only
            rcases ancestry_mem _ _ _ (List.mem_of_getElem? hg) with hxb | ⟨k', hk'⟩
            · rw [hxb]; simp
            · have := W.ids _ _ (he2 _ _ hk')
              rw [this, hk']; rfl
      · intro k t hk ht
        simp only at hk ht ⊢
        refine ⟨ptd + b.diff, by simp, ?_⟩
        by_cases hkb : k = b.id
        · subst hkb; simp at ht; omega
        · rw [updB_other _ _ _ _ hkb] at hk
          rw [upd_other _ _ _ _ hkb] at ht
          obtain ⟨th, hth, hle⟩ := h.headMax k t hk ht
          rw [hlt] at hth; cases hth
          omega
      · intro th hth
        rw [hlt] at hth; cases hth
        exact ⟨ptd + b.diff, by simp, hge⟩
    · have hdec' : decideReorg (ptd + b.diff) localTd b.number hx.number coin = false := by
        cases hd : decideReorg (ptd + b.diff) localTd b.number hx.number coin
        · rfl
        · exact absurd hd hdec
      rw [if_neg hdec]
      have hle := decideReorg_false_le hdec'
      have hhead' := hkeep _ _ hlt
      refine ⟨⟨he2, hI', hhdrTd', hblkHdr', updB_true_of _ _ _ h.headBlk, hhh', ?_⟩, rfl, he1, hkeep,
        fun th hth => ⟨th, hkeep _ _ hth, Nat.le_refl _⟩⟩
      intro k t hk ht
      simp only at hk ht ⊢
      refine ⟨localTd, hhead', ?_⟩
      by_cases hkb : k = b.id
      · subst hkb; simp at ht; omega
      · rw [updB_other _ _ _ _ hkb] at hk
        rw [upd_other _ _ _ _ hkb] at ht
        obtain ⟨th, hth, hle'⟩ := h.headMax k t hk ht
        rw [hlt] at hth; cases hth
        exact hle'

theorem mstep_importOne (W : World U) {s : MSt} (h : MInv U s) {b : Blk} (hbU : U b.id = some b) (coin : Bool)
    (hh : Option Nat) : MStep U s (mImportOne s b coin hh).st := by
  unfold mImportOne
  cases hhc : headerCheck s.hdr b with
  | some e => exact MStep.refl h
  | none =>
    simp only
    obtain ⟨p, hpar⟩ := headerCheck_none hhc
    cases s.hdr s.head with
    | none => exact MStep.refl h
    | some cur =>
      cases s.td s.head with
      | none => exact MStep.refl h
      | some localTd =>
        simp only
        by_cases hk : s.blk b.id = true
        · rw [if_pos hk]
          by_cases hskip : (decide (cur.number ≥ b.number) && !mHeavier s b localTd) = true
          · rw [if_pos hskip]; exact MStep.refl h
          · rw [if_neg hskip]; exact mstep_writeBlock W h hbU hpar coin hh
        · rw [if_neg hk]
          by_cases hp : (!s.blk b.parent) = true
          · rw [if_pos hp]; exact MStep.refl h
          · rw [if_neg hp]; exact mstep_writeBlock W h hbU hpar coin hh

theorem mstep_importSeq (W : World U) : ∀ (l : List Blk) {s : MSt}, MInv U s → (∀ b ∈ l, U b.id = some b) →
    ∀ (cs : List (Bool × Option Nat)) (i : Nat), MStep U s (mImportSeq s l cs i).1.st := by
  intro l
  induction l with
  | nil => intro s h _ cs i; exact MStep.refl h
  | cons b l ih =>
    intro s h hU cs i
    have h1 := mstep_importOne W h (hU b (by simp)) (cs.headD (false, none)).1 (cs.headD (false, none)).2
    unfold mImportSeq
    cases herr : (mImportOne s b (cs.headD (false, none)).1 (cs.headD (false, none)).2).err with
    | some e => simp only [herr]; exact h1
    | none =>
      simp only [herr]
      exact h1.trans (ih h1.inv (fun x hx => hU x (List.mem_cons_of_mem _ hx)) _ _)

/-- `InsertChain` in a mixed history -/
theorem mstep_importChain (W : World U) {s : MSt} (h : MInv U s) (chain : List Blk) (hU : ∀ b ∈ chain, U b.id = some b)
    (cs : List (Bool × Option Nat)) : MStep U s (mImportChain s chain cs).1.st :=
  mstep_importSeq W _ h (fun b hb => hU b (mem_contigPrefix _ _ hb)) _ _

/-- `WriteHeader` in a mixed history: the local total difficulty is that of the head header, wherever block imports
    have put it -/
theorem mhstep_writeHeader (W : World U) {s : MSt} (h : MInv U s) {hd p : Blk} (hU : U hd.id = some hd)
    (hpar : parentOf s.hdr hd = some p) (coin : Bool) :
    MHStep U s (mWriteHeader s hd coin).st := by
  unfold mWriteHeader
  cases hptd : s.td hd.parent with
  | none => exact MHStep.refl h
  | some ptd =>
    simp only
    obtain ⟨y, hy⟩ := Option.isSome_iff_exists.mp h.hheadHdr
    obtain ⟨localTd, hlt⟩ := Option.isSome_iff_exists.mp (h.hdrTd _ _ hy)
    rw [hlt]
    simp only
    obtain ⟨he1, he2⟩ := mhdr_ext h hU
    have hkeep := mtd_keep W h hU hpar hptd
    have hI' := mtdI_upd W h hU hpar hptd
    have hhdrTd' : ∀ k x, upd s.hdr hd.id (some hd) k = some x → (upd s.td hd.id (some (ptd + hd.diff)) k).isSome = true := by
      intro k x hk
      by_cases hkb : k = hd.id
      · subst hkb; simp
      · rw [upd_other _ _ _ _ hkb] at hk ⊢; exact h.hdrTd k x hk
    have hblkHdr' : ∀ k, s.blk k = true → (upd s.hdr hd.id (some hd) k).isSome = true := by
      intro k hk
      obtain ⟨z, hz⟩ := Option.isSome_iff_exists.mp (h.blkHdr k hk)
      rw [he1 _ _ hz]; rfl
    have hmax' : ∀ k t, s.blk k = true → upd s.td hd.id (some (ptd + hd.diff)) k = some t →
        ∃ th, upd s.td hd.id (some (ptd + hd.diff)) s.head = some th ∧ t ≤ th := by
      intro k t hk ht
      obtain ⟨z, hz⟩ := Option.isSome_iff_exists.mp (h.blkHdr k hk)
      obtain ⟨t0, ht0⟩ := Option.isSome_iff_exists.mp (h.hdrTd _ _ hz)
      have := hkeep _ _ ht0
      rw [this] at ht; cases ht
      obtain ⟨th, hth, hle⟩ := h.headMax k t hk ht0
      exact ⟨th, hkeep _ _ hth, hle⟩
    have hnewOnly : ∀ k, s.hdr k = none → (upd s.hdr hd.id (some hd) k).isSome = true → k = hd.id := by
      intro k hk hk'
      apply Classical.byContradiction
      intro hne
      rw [upd_other _ _ _ _ hne, hk] at hk'
      cases hk'
    by_cases hdec : (decide (ptd + hd.diff > localTd) || (ptd + hd.diff == localTd && coin)) = true
    · rw [if_pos hdec]
      have hge : localTd ≤ ptd + hd.diff := by
        simp only [Bool.or_eq_true, decide_eq_true_eq, Bool.and_eq_true, beq_iff_eq] at hdec
        omega
      exact
        { inv := ⟨he2, hI', hhdrTd', hblkHdr', h.headBlk, by simp, hmax'⟩, gen := rfl, ext := he1, tdKeep := hkeep
          headMono := fun th hth => ⟨th, hkeep _ _ hth, Nat.le_refl _⟩
          headSame := rfl
          hheadMono := fun th hth => by rw [hlt] at hth; cases hth; exact ⟨ptd + hd.diff, by simp, hge⟩
          newMax := fun k hk hk' => by
            have := hnewOnly k hk hk'
            subst this
            exact ⟨ptd + hd.diff, ptd + hd.diff, by simp, by simp, Nat.le_refl _⟩ }
    · rw [if_neg hdec]
      have hle : ptd + hd.diff ≤ localTd := by
        simp only [Bool.or_eq_true, decide_eq_true_eq, Bool.and_eq_true, beq_iff_eq, not_or, not_and] at hdec
        omega
      have hhh' : (upd s.hdr hd.id (some hd) s.hhead).isSome = true := by rw [he1 _ _ hy]; rfl
      exact
        { inv := ⟨he2, hI', hhdrTd', hblkHdr', h.headBlk, hhh', hmax'⟩, gen := rfl, ext := he1, tdKeep := hkeep
          headMono := fun th hth => ⟨th, hkeep _ _ hth, Nat.le_refl _⟩
          headSame := rfl
          hheadMono := fun th hth => ⟨th, hkeep _ _ hth, Nat.le_refl _⟩
          newMax := fun k hk hk' => by
            have := hnewOnly k hk hk'
            subst this
            exact ⟨ptd + hd.diff, localTd, by simp, hkeep _ _ hlt, hle⟩ }

theorem mhstep_insertHeaders (W : World U) : ∀ (l : List Blk) (s : MSt) (coins : List Bool) (i : Nat),
    MInv U s → (∀ h ∈ l, U h.id = some h) → isContig l = true →
    (∀ h0 ∈ l.head?, ∃ p, parentOf s.hdr h0 = some p) → MHStep U s (mInsertHeaders s l coins i).1.st := by
  intro l
  induction l with
  | nil => intro s coins i hI _ _ _; exact MHStep.refl hI
  | cons h rest ih =>
    intro s coins i hI hU hc hp0
    obtain ⟨p, hpar⟩ := hp0 h (by simp)
    have hhU := hU h (by simp)
    have hUrest : ∀ x ∈ rest, U x.id = some x := fun x hx => hU x (List.mem_cons_of_mem _ hx)
    have hcrest : isContig rest = true := by
      cases rest with
      | nil => rfl
      | cons y r =>
        simp only [isContig, Bool.and_eq_true] at hc
        exact hc.2
    have hnext : ∀ (s' : MSt), s'.hdr h.id = some h → ∀ h0 ∈ rest.head?, ∃ p, parentOf s'.hdr h0 = some p := by
      intro s' hs' h0 hh0
      cases rest with
      | nil => cases hh0
      | cons y r =>
        simp at hh0; subst hh0
        simp only [isContig, Bool.and_eq_true, beq_iff_eq] at hc
        exact ⟨h, parentOf_of (by rw [hc.1.2]; exact hs') (by omega)⟩
    unfold mInsertHeaders
    cases hknown : s.hdr h.id with
    | some x =>
      simp only [Option.isSome_some, if_true]
      have hsh : s.hdr h.id = some h := by
        have := hI.sub _ _ hknown
        rw [hhU] at this; cases this; exact hknown
      exact ih s coins (i + 1) hI hUrest hcrest (hnext s hsh)
    | none =>
      simp only [Option.isSome_none, Bool.false_eq_true, if_false]
      have h1 := mhstep_writeHeader W hI hhU hpar (coins.headD false)
      cases herr : (mWriteHeader s h (coins.headD false)).err with
      | some e => simp only [herr]; exact h1
      | none =>
        simp only [herr]
        have hsh : (mWriteHeader s h (coins.headD false)).st.hdr h.id = some h := by
          unfold mWriteHeader at herr ⊢
          cases hptd : s.td h.parent with
          | none => rw [hptd] at herr; cases herr
          | some ptd =>
            rw [hptd] at herr
            simp only at herr ⊢
            cases hl : s.td s.hhead with
            | none => rw [hl] at herr; cases herr
            | some localTd =>
              simp only
              split <;> simp
        exact h1.trans (ih _ coins.tail (i + 1) h1.inv hUrest hcrest (hnext _ hsh))

/-- `InsertHeaderChain` in a mixed history -/
theorem mhstep_importHeaders (W : World U) {s : MSt} (h : MInv U s) (chain : List Blk)
    (hU : ∀ x ∈ chain, U x.id = some x) (coins : List Bool) : MHStep U s (mImportHeaders s chain coins).1.st := by
  unfold mImportHeaders
  by_cases hc : isContig chain = true
  · simp only [hc, Bool.not_true, Bool.false_eq_true, if_false]
    cases chain with
    | nil => exact MHStep.refl h
    | cons x rest =>
      simp only
      cases hhc : headerCheck s.hdr x with
      | some e => exact MHStep.refl h
      | none =>
        simp only
        exact mhstep_insertHeaders W _ s coins 0 h hU hc (fun h0 hh0 => by
          simp at hh0; subst hh0; exact headerCheck_none hhc)
  · have : isContig chain = false := by
      cases hh : isContig chain
      · rfl
      · exact absurd hh hc
    simp only [this, Bool.not_false, if_true]
    exact MHStep.refl h

/-- blocks and headers of a mixed history are blocks of the universe -/
def MOpOk (U : Map Blk) : MOp → Prop
  | .blocks chain _ => ∀ b ∈ chain, U b.id = some b
  | .headers chain _ => ∀ b ∈ chain, U b.id = some b

instance (U : Map Blk) : (op : MOp) → Decidable (MOpOk U op)
  | .blocks chain _ => inferInstanceAs (Decidable (∀ b ∈ chain, U b.id = some b))
  | .headers chain _ => inferInstanceAs (Decidable (∀ b ∈ chain, U b.id = some b))

theorem mstep_op (W : World U) {s : MSt} (h : MInv U s) (op : MOp) (hop : MOpOk U op) : MStep U s (mstep s op).st := by
  cases op with
  | blocks chain cs => exact mstep_importChain W h chain hop cs
  | headers chain coins => exact (mhstep_importHeaders W h chain hop coins).toMStep

theorem mstep_run (W : World U) : ∀ (ops : List MOp) {s : MSt}, MInv U s → (∀ op ∈ ops, MOpOk U op) →
    MStep U s (mrun s ops) := by
  intro ops
  induction ops with
  | nil => intro s h _; exact MStep.refl h
  | cons op ops ih =>
    intro s h hops
    have h1 := mstep_op W h op (hops op (by simp))
    exact h1.trans (ih h1.inv (fun o ho => hops o (List.mem_cons_of_mem _ ho)))

end Aqv.Chain

/-
  Aqv.Lemmas.TxPoolLimits — the limit enforcement of promoteExecutables establishes the `Limits` clause:
  per-account queue cap, pool-wide queue cap and the pending-slot equalisation, for every eviction oracle.
-/
import Aqv.Lemmas.TxPoolAll
namespace Aqv.TxPool

/-- Good together with the exact lookup table -/
def GA (s : Pool) : Prop := Good s ∧ AllOK s

theorem addClosed_ga : AddClosed GA := by
  have := addClosed_good.and addClosed_wa
  exact { rem := fun s t h => ⟨(this.rem s t ⟨h.1, h.1.weakAll, h.2⟩).1, (this.rem s t ⟨h.1, h.1.weakAll, h.2⟩).2.2⟩
          cap := fun s a h => ⟨(this.cap s a ⟨h.1, h.1.weakAll, h.2⟩).1, (this.cap s a ⟨h.1, h.1.weakAll, h.2⟩).2.2⟩
          acct := fun s a h => ⟨(this.acct s a ⟨h.1, h.1.weakAll, h.2⟩).1, (this.acct s a ⟨h.1, h.1.weakAll, h.2⟩).2.2⟩
          replace := fun s t h h1 h2 h3 h4 =>
            ⟨(this.replace s t ⟨h.1, h.1.weakAll, h.2⟩ h1 h2 h3 h4).1, (this.replace s t ⟨h.1, h.1.weakAll, h.2⟩ h1 h2 h3 h4).2.2⟩
          enqueue := fun s t h h1 h2 =>
            ⟨(this.enqueue s t ⟨h.1, h.1.weakAll, h.2⟩ h1 h2).1, (this.enqueue s t ⟨h.1, h.1.weakAll, h.2⟩ h1 h2).2.2⟩
          locals := fun s L h => h }

/-! ### sums of list lengths -/

theorem sumLen_nil (f : Addr → TxL) : sumLen f [] = 0 := rfl
theorem sumLen_cons (f : Addr → TxL) (a : Addr) (as : List Addr) : sumLen f (a :: as) = (f a).items.length + sumLen f as := by
  simp [sumLen]

theorem sumLen_le {f f' : Addr → TxL} {as : List Addr} (h : ∀ b ∈ as, (f' b).items.length ≤ (f b).items.length) :
    sumLen f' as ≤ sumLen f as := by
  induction as with
  | nil => simp [sumLen]
  | cons a rest ih =>
    rw [sumLen_cons, sumLen_cons]
    have := h a List.mem_cons_self
    have := ih (fun b hb => h b (List.mem_cons_of_mem _ hb))
    omega

theorem sumLen_drop {f f' : Addr → TxL} {as : List Addr} {a : Addr} {k : Nat} (ha : a ∈ as)
    (h : ∀ b ∈ as, (f' b).items.length ≤ (f b).items.length) (hk : (f' a).items.length + k ≤ (f a).items.length) :
    sumLen f' as + k ≤ sumLen f as := by
  induction as with
  | nil => cases ha
  | cons x rest ih =>
    rw [sumLen_cons, sumLen_cons]
    have hx := h x List.mem_cons_self
    have hrest := sumLen_le (f := f) (f' := f') (as := rest) (fun b hb => h b (List.mem_cons_of_mem _ hb))
    rcases List.mem_cons.mp ha with rfl | ha'
    · omega
    · have := ih ha' (fun b hb => h b (List.mem_cons_of_mem _ hb)); omega

theorem sumLen_filter_le (f : Addr → TxL) (p : Addr → Bool) (as : List Addr) : sumLen f (as.filter p) ≤ sumLen f as := by
  induction as with
  | nil => simp [sumLen]
  | cons a rest ih =>
    rw [List.filter_cons]; split
    · rw [sumLen_cons, sumLen_cons]; omega
    · rw [sumLen_cons]; omega

theorem sumLen_zero {f : Addr → TxL} {as : List Addr} (h : ∀ b ∈ as, (f b).items = []) : sumLen f as = 0 := by
  induction as with
  | nil => rfl
  | cons a rest ih =>
    rw [sumLen_cons, h a List.mem_cons_self, ih (fun b hb => h b (List.mem_cons_of_mem _ hb))]; rfl

/-! ### removing queued transactions -/

/-- removeTx of a transaction that sits in its sender's queue -/
theorem removeTx_queued {s : Pool} {t : Tx} (h : GA s) (ht : t ∈ (s.queue t.sender).items) :
    GA (s.removeTx t) ∧ Touch s t.sender (s.removeTx t) ∧ (s.removeTx t).pending = s.pending ∧
    (s.removeTx t).accts = s.accts ∧
    ((s.removeTx t).queue t.sender).items = (s.queue t.sender).items.filter (fun u => !decide (u.nonce = t.nonce)) := by
  have hw := h.1.weakAll
  have hwa := hw.1 t.sender
  obtain ⟨hto, _, hc⟩ := removeTx_spec s t hw
  have hga : GA (s.removeTx t) := ⟨removeTx_good t h.1, removeTx_allok t hw h.2⟩
  have hin : t ∈ s.all := (h.2 t).mpr (Or.inr ht)
  have haccts : (s.removeTx t).accts = s.accts := by
    unfold Pool.removeTx Pool.removeTxG
    rw [if_neg (fun hc => hc hin)]
    simp only [Bool.true_or, if_true]
    have hnf : ((s.pending t.sender).remove t).1 = false := by
      cases hr : ((s.pending t.sender).remove t).1 with
      | false => rfl
      | true =>
        have := (TxL.remove_spec (s.pending t.sender) t).found hr
        cases hg : getN (s.pending t.sender).items t.nonce with
        | none => rw [hg] at this; cases this
        | some o => exact absurd (getN_some hg).2 (hwa.disj o (getN_some hg).1 t ht)
    have : (({ s with all := delAll t s.all } : Pool).pending t.sender).remove t = (s.pending t.sender).remove t := rfl
    rw [this, hnf]
    rfl
  cases hc with
  | noop _ hnin => exact absurd hin hnin
  | pend _ hfound _ _ _ _ _ =>
    exfalso
    cases hg : getN (s.pending t.sender).items t.nonce with
    | none => rw [hg] at hfound; cases hfound
    | some o => exact absurd (getN_some hg).2 (hwa.disj o (getN_some hg).1 t ht)
  | queue _ hp _ _ _ _ _ hqitems =>
    refine ⟨hga, hto, ?_, haccts, hqitems⟩
    funext b
    by_cases hb : b = t.sender
    · subst hb; exact hp
    · exact hto.pother b hb

/-- nonce of `u` differs from every nonce in `ts` -/
def freeOf (ts : List Tx) (u : Tx) : Bool := ts.all (fun t => !decide (u.nonce = t.nonce))

structure DQ (s : Pool) (a : Addr) (ts : List Tx) (s' : Pool) : Prop where
  ga      : GA s'
  pending : s'.pending = s.pending
  accts   : s'.accts = s.accts
  locals  : s'.locals = s.locals
  cfg     : s'.cfg = s.cfg
  qother  : ∀ b, b ≠ a → s'.queue b = s.queue b
  qitems  : (s'.queue a).items = (s.queue a).items.filter (freeOf ts)

theorem dropQueued_spec : ∀ (ts : List Tx) (s : Pool) (a : Addr), GA s → (∀ t ∈ ts, t ∈ (s.queue a).items) →
    ts.Pairwise (fun x y => x.nonce ≠ y.nonce) → DQ s a ts (s.dropQueued a ts) := by
  intro ts
  induction ts with
  | nil =>
    intro s a h _ _
    exact { ga := h, pending := rfl, accts := rfl, locals := rfl, cfg := rfl, qother := fun _ _ => rfl
            qitems := by
              show (s.queue a).items = (s.queue a).items.filter (freeOf [])
              symm; rw [List.filter_eq_self]; intro u _; rfl }
  | cons x xs ih =>
    intro s a h hin hpw
    have hx := hin x List.mem_cons_self
    have hxa : x.sender = a := (h.1.1 a).qowner x hx
    have hpw' := List.pairwise_cons.mp hpw
    subst hxa
    obtain ⟨hga, hto, hp, hacc, hq⟩ := removeTx_queued h hx
    have hrest : ∀ t ∈ xs, t ∈ ((s.removeTx x).queue x.sender).items := by
      intro t ht
      rw [hq]
      exact List.mem_filter.mpr ⟨hin t (List.mem_cons_of_mem _ ht), by
        have := hpw'.1 t ht
        simp only [Bool.not_eq_true', decide_eq_false_iff_not]; exact fun e => this e.symm⟩
    have := ih (s.removeTx x) x.sender hga hrest hpw'.2
    show DQ s x.sender (x :: xs) ((s.removeTx x).dropQueued x.sender xs)
    exact { ga := this.ga, pending := this.pending.trans hp, accts := this.accts.trans hacc
            locals := this.locals.trans hto.locals, cfg := this.cfg.trans hto.env.cfg
            qother := fun b hb => (this.qother b hb).trans (hto.qother b hb)
            qitems := by
              rw [this.qitems, hq, List.filter_filter]
              apply List.filter_congr
              intro u _
              simp [freeOf, Bool.and_comm] }

theorem filter_freeOf_self {l : List Tx} : l.filter (freeOf l) = [] := by
  rw [List.filter_eq_nil_iff]
  intro u hu h
  unfold freeOf at h
  have := List.all_eq_true.mp h u hu
  simp at this

theorem filter_freeOf_suffix {l : List Tx} (hs : Sorted l) (k : Nat) :
    l.filter (freeOf (l.drop k).reverse) = l.take k := by
  have hs' : Sorted (l.take k ++ l.drop k) := by rw [List.take_append_drop]; exact hs
  have hpw := List.pairwise_append.mp hs'
  have hsplit : l.filter (freeOf (l.drop k).reverse) = (l.take k ++ l.drop k).filter (freeOf (l.drop k).reverse) := by
    rw [List.take_append_drop]
  rw [hsplit, List.filter_append]
  have h1 : (l.take k).filter (freeOf (l.drop k).reverse) = l.take k := by
    rw [List.filter_eq_self]
    intro u hu
    simp only [freeOf, List.all_eq_true, List.mem_reverse, Bool.not_eq_true', decide_eq_false_iff_not]
    intro t ht
    have := hpw.2.2 u hu t ht; omega
  have h2 : (l.drop k).filter (freeOf (l.drop k).reverse) = [] := by
    rw [List.filter_eq_nil_iff]
    intro u hu h
    unfold freeOf at h
    have := List.all_eq_true.mp h u (List.mem_reverse.mpr hu)
    simp at this
  rw [h1, h2, List.append_nil]

/-! ### the global queue limit -/

structure QD (s s' : Pool) : Prop where
  ga      : GA s'
  pending : s'.pending = s.pending
  accts   : s'.accts = s.accts
  locals  : s'.locals = s.locals
  cfg     : s'.cfg = s.cfg
  qle     : ∀ b, (s'.queue b).items.length ≤ (s.queue b).items.length

theorem QD.refl {s : Pool} (h : GA s) : QD s s :=
  { ga := h, pending := rfl, accts := rfl, locals := rfl, cfg := rfl, qle := fun _ => Nat.le_refl _ }

theorem QD.trans {a b c : Pool} (h1 : QD a b) (h2 : QD b c) : QD a c :=
  { ga := h2.ga, pending := h2.pending.trans h1.pending, accts := h2.accts.trans h1.accts
    locals := h2.locals.trans h1.locals, cfg := h2.cfg.trans h1.cfg
    qle := fun x => Nat.le_trans (h2.qle x) (h1.qle x) }

theorem DQ.qd {s s' : Pool} {a : Addr} {ts : List Tx} (h : DQ s a ts s') : QD s s' :=
  { ga := h.ga, pending := h.pending, accts := h.accts, locals := h.locals, cfg := h.cfg
    qle := fun b => by
      by_cases hb : b = a
      · subst hb; rw [h.qitems]; exact List.length_filter_le _ _
      · rw [h.qother b hb]; exact Nat.le_refl _ }

theorem queuedCount_le {s s' : Pool} (h : QD s s') : s'.queuedCount ≤ s.queuedCount := by
  unfold Pool.queuedCount; rw [h.accts]; exact sumLen_le (fun b _ => h.qle b)

theorem queueDrop_spec : ∀ (as : List Addr) (d : Nat) (s : Pool), GA s →
    QD s (Pool.queueDrop d as s) ∧
    (s.queuedCount ≤ s.cfg.globalQueue + d →
      ((Pool.queueDrop d as s).queuedCount ≤ s.cfg.globalQueue ∨ ∀ a ∈ as, ((Pool.queueDrop d as s).queue a).items = [])) := by
  intro as
  induction as with
  | nil => intro d s h; unfold Pool.queueDrop; exact ⟨QD.refl h, fun _ => Or.inr (by simp)⟩
  | cons a rest ih =>
    intro d s h
    cases d with
    | zero => unfold Pool.queueDrop; exact ⟨QD.refl h, fun hq => Or.inl (by omega)⟩
    | succ d =>
      unfold Pool.queueDrop
      simp only
      have hwa := h.1.1 a
      have hsorted := hwa.qsorted
      by_cases hfull : (s.queue a).items.length ≤ d + 1
      · rw [if_pos hfull]
        have hdq := dropQueued_spec (s.queue a).items s a h (fun _ ht => ht)
          (List.Pairwise.imp (fun hlt => by omega) hsorted)
        have hempty : ((s.dropQueued a (s.queue a).items).queue a).items = [] := by rw [hdq.qitems, filter_freeOf_self]
        obtain ⟨ih1, ih2⟩ := ih (d + 1 - (s.queue a).items.length) (s.dropQueued a (s.queue a).items) hdq.ga
        refine ⟨hdq.qd.trans ih1, fun hq => ?_⟩
        have hcount : (s.dropQueued a (s.queue a).items).queuedCount + (s.queue a).items.length ≤ s.queuedCount := by
          by_cases hacc : a ∈ s.accts
          · unfold Pool.queuedCount; rw [hdq.accts]
            exact sumLen_drop hacc (fun b _ => hdq.qd.qle b) (by rw [hempty]; simp)
          · have hl : (s.queue a).items.length = 0 := by rw [(h.1.2 a hacc).2]; rfl
            have := queuedCount_le hdq.qd
            omega
        rw [hdq.cfg] at ih2
        rcases ih2 (by omega) with hl | hr
        · exact Or.inl hl
        · right
          intro b hb
          rcases List.mem_cons.mp hb with rfl | hb'
          · have := ih1.qle b
            rw [hempty] at this
            exact List.eq_nil_of_length_eq_zero (by simpa using this)
          · exact hr b hb'
      · rw [if_neg hfull]
        have hlen : d + 1 < (s.queue a).items.length := by omega
        have hdq := dropQueued_spec ((s.queue a).items.drop ((s.queue a).items.length - (d + 1))).reverse s a h
          (fun t ht => List.mem_of_mem_drop (List.mem_reverse.mp ht))
          (by
            rw [List.pairwise_reverse]
            exact List.Pairwise.imp (fun hlt => by omega) (hsorted.drop _))
        refine ⟨hdq.qd, fun hq => Or.inl ?_⟩
        have hitems : ((s.dropQueued a ((s.queue a).items.drop ((s.queue a).items.length - (d + 1))).reverse).queue a).items
            = (s.queue a).items.take ((s.queue a).items.length - (d + 1)) := by
          rw [hdq.qitems, filter_freeOf_suffix hsorted]
        have hacc : a ∈ s.accts := by
          apply Decidable.byContradiction
          intro hna
          have := (h.1.2 a hna).2
          rw [this] at hlen; simp at hlen
        have hcount : (s.dropQueued a ((s.queue a).items.drop ((s.queue a).items.length - (d + 1))).reverse).queuedCount + (d + 1)
            ≤ s.queuedCount := by
          unfold Pool.queuedCount; rw [hdq.accts]
          apply sumLen_drop hacc (fun b _ => hdq.qd.qle b)
          rw [hitems, List.length_take]; omega
        omega

theorem queueEvict_spec (s : Pool) (order : List Addr) (h : GA s) :
    QD s (s.queueEvict order) ∧
    sumLen (s.queueEvict order).queue ((s.queueEvict order).accts.filter (fun a => !(s.queueEvict order).isLocal a))
      ≤ (s.queueEvict order).cfg.globalQueue := by
  unfold Pool.queueEvict
  by_cases hq : s.queuedCount ≤ s.cfg.globalQueue
  · rw [if_pos hq]
    exact ⟨QD.refl h, Nat.le_trans (sumLen_filter_le _ _ _) hq⟩
  · rw [if_neg hq]
    simp only
    obtain ⟨h1, h2⟩ := queueDrop_spec (order.filter (fun a => !s.isLocal a) ++ s.accts.filter (fun a => !s.isLocal a))
      (s.queuedCount - s.cfg.globalQueue) s h
    have h2' := h2 (by omega)
    generalize Pool.queueDrop (s.queuedCount - s.cfg.globalQueue)
      (order.filter (fun a => !s.isLocal a) ++ s.accts.filter (fun a => !s.isLocal a)) s = X at h1 h2' ⊢
    refine ⟨h1, ?_⟩
    have hloc : ∀ a, X.isLocal a = s.isLocal a := by
      intro a
      have e := h1.locals
      unfold Pool.isLocal
      rw [e]
    rw [h1.cfg, h1.accts]
    simp only [hloc]
    rcases h2' with hl | hr
    · have hl' : sumLen X.queue s.accts ≤ s.cfg.globalQueue := by
        unfold Pool.queuedCount at hl; rw [h1.accts] at hl; exact hl
      exact Nat.le_trans (sumLen_filter_le _ _ _) hl'
    · rw [sumLen_zero (fun b hb => hr b (List.mem_append_right _ hb))]; exact Nat.zero_le _

/-! ### the pending-slot equalisation -/

structure SE (s s' : Pool) : Prop where
  ga      : GA s'
  queue   : s'.queue = s.queue
  accts   : s'.accts = s.accts
  locals  : s'.locals = s.locals
  cfg     : s'.cfg = s.cfg

theorem SE.refl {s : Pool} (h : GA s) : SE s s := ⟨h, rfl, rfl, rfl, rfl⟩
theorem SE.trans {a b c : Pool} (h1 : SE a b) (h2 : SE b c) : SE a c :=
  ⟨h2.ga, h2.queue.trans h1.queue, h2.accts.trans h1.accts, h2.locals.trans h1.locals, h2.cfg.trans h1.cfg⟩

theorem capOne_se {s : Pool} (a : Addr) (h : GA s) : SE s (s.capOne a) :=
  have hf := capOne_facts s a
  ⟨⟨capOne_good a h.1, capOne_allok a h.1.weakAll h.2⟩, hf.queue, hf.accts, hf.touch.locals, hf.touch.env.cfg⟩

theorem capOne_count {s : Pool} {a : Addr} (ha : a ∈ s.accts) (hne : (s.pending a).items ≠ []) :
    (s.capOne a).pendingCount + 1 ≤ s.pendingCount := by
  have hf := capOne_facts s a
  unfold Pool.pendingCount
  rw [hf.accts]
  rcases hf.shape with ⟨h1, _⟩ | ⟨x, _, h2, _⟩
  · exact absurd h1 hne
  · have hlen : ((s.capOne a).pending a).items.length + 1 = (s.pending a).items.length := by rw [← h2]; simp
    apply sumLen_drop ha _ (by omega)
    intro b _
    by_cases hb : b = a
    · subst hb; omega
    · rw [hf.touch.pother b hb]; exact Nat.le_refl _

theorem slotFinish_spec : ∀ (fuel : Nat) (s : Pool), GA s → s.pendingCount ≤ fuel →
    SE s (Pool.slotFinish fuel s) ∧
    ((Pool.slotFinish fuel s).pendingCount ≤ s.cfg.globalSlots ∨
      ∀ a ∈ s.accts, (Pool.slotFinish fuel s).offender a = false) := by
  intro fuel
  induction fuel with
  | zero => intro s h hf; unfold Pool.slotFinish; exact ⟨SE.refl h, Or.inl (by omega)⟩
  | succ n ih =>
    intro s h hf
    unfold Pool.slotFinish
    by_cases hle : s.pendingCount ≤ s.cfg.globalSlots
    · rw [if_pos hle]; exact ⟨SE.refl h, Or.inl hle⟩
    · rw [if_neg hle]
      cases hfind : s.accts.find? (fun a => s.offender a) with
      | none =>
        simp only
        refine ⟨SE.refl h, Or.inr ?_⟩
        intro a ha
        have := List.find?_eq_none.mp hfind a ha
        simpa using this
      | some a =>
        simp only
        have hmem : a ∈ s.accts := List.mem_of_find?_eq_some hfind
        have hoff : s.offender a = true := List.find?_some hfind
        have hne : (s.pending a).items ≠ [] := by
          unfold Pool.offender at hoff
          simp only [Bool.and_eq_true, decide_eq_true_eq] at hoff
          intro e; rw [e] at hoff; simp at hoff
        have hse := capOne_se a h
        have hcnt := capOne_count hmem hne
        obtain ⟨i1, i2⟩ := ih (s.capOne a) hse.ga (by omega)
        refine ⟨hse.trans i1, ?_⟩
        rw [hse.cfg, hse.accts] at i2
        exact i2

theorem slotEvict_spec (s : Pool) (sched : List Addr) (h : GA s) :
    SE s (s.slotEvict sched) ∧
    ((s.slotEvict sched).pendingCount ≤ s.cfg.globalSlots ∨ ∀ a ∈ s.accts, (s.slotEvict sched).offender a = false) := by
  unfold Pool.slotEvict
  by_cases hle : s.pendingCount ≤ s.cfg.globalSlots
  · rw [if_pos hle]; exact ⟨SE.refl h, Or.inl hle⟩
  · rw [if_neg hle]
    simp only
    have hfold : ∀ (l : List Addr) (s0 : Pool), GA s0 →
        SE s0 (l.foldl (fun s a => if s.offender a = true then s.capOne a else s) s0) := by
      intro l
      induction l with
      | nil => intro s0 h0; exact SE.refl h0
      | cons a rest ih =>
        intro s0 h0
        simp only [List.foldl_cons]
        by_cases ho : s0.offender a = true
        · rw [if_pos ho]; exact (capOne_se a h0).trans (ih _ (capOne_se a h0).ga)
        · rw [if_neg ho]; exact ih _ h0
    have h1 := hfold sched s h
    generalize sched.foldl (fun s a => if s.offender a = true then s.capOne a else s) s = m at h1 ⊢
    obtain ⟨i1, i2⟩ := slotFinish_spec m.pendingCount m h1.ga (Nat.le_refl _)
    refine ⟨h1.trans i1, ?_⟩
    rw [h1.cfg, h1.accts] at i2
    exact i2

/-! ### the per-account queue cap through the account loop -/

structure PA (s s' : Pool) : Prop where
  ga      : GA s'
  locals  : s'.locals = s.locals
  cfg     : s'.cfg = s.cfg

theorem promoteAcct_pa {s : Pool} (a : Addr) (h : GA s) : PA s (s.promoteAcct a) :=
  have ht := promoteAcct_touch s a
  ⟨⟨promoteAcct_good a h.1, promoteAcct_allok a h.1.weakAll h.2⟩, ht.locals, ht.env.cfg⟩

theorem promoteLoop_spec : ∀ (l : List Addr) (s : Pool), GA s →
    PA s (l.foldl (fun s a => s.promoteAcct a) s) ∧
    ∀ b, b ∉ s.locals → (b ∈ l ∨ (s.queue b).items.length ≤ s.cfg.accountQueue) →
      ((l.foldl (fun s a => s.promoteAcct a) s).queue b).items.length ≤ s.cfg.accountQueue := by
  intro l
  induction l with
  | nil => intro s h; exact ⟨⟨h, rfl, rfl⟩, fun b _ hb => by rcases hb with hb | hb; cases hb; exact hb⟩
  | cons a rest ih =>
    intro s h
    have hpa := promoteAcct_pa a h
    obtain ⟨i1, i2⟩ := ih (s.promoteAcct a) hpa.ga
    simp only [List.foldl_cons]
    refine ⟨⟨i1.ga, i1.locals.trans hpa.locals, i1.cfg.trans hpa.cfg⟩, ?_⟩
    intro b hbl hb
    rw [hpa.locals, hpa.cfg] at i2
    apply i2 b hbl
    by_cases hba : b = a
    · subst hba
      right
      rw [promoteAcct_queue_items]
      exact (paS5_queue s b).2.1 hbl
    · rcases hb with hb | hb
      · rcases List.mem_cons.mp hb with e | hb'
        · exact absurd e hba
        · exact Or.inl hb'
      · right
        rw [(promoteAcct_touch s a).qother b hba]; exact hb

/-- after a pool-wide promoteExecutables the limits of the property hold, for every eviction oracle -/
theorem limits_after_promote (s : Pool) (slots qorder : List Addr) (h : GA s) :
    Limits (s.promoteExecutables none slots qorder) ∧ GA (s.promoteExecutables none slots qorder) := by
  unfold Pool.promoteExecutables
  simp only
  obtain ⟨p1, p2⟩ := promoteLoop_spec s.accts s h
  generalize s.accts.foldl (fun s a => s.promoteAcct a) s = m1 at p1 p2 ⊢
  obtain ⟨e1, e2⟩ := slotEvict_spec m1 slots p1.ga
  generalize m1.slotEvict slots = m2 at e1 e2 ⊢
  obtain ⟨q1, q2⟩ := queueEvict_spec m2 qorder e1.ga
  generalize m2.queueEvict qorder = m3 at q1 q2 ⊢
  have hloc : m3.locals = s.locals := q1.locals.trans (e1.locals.trans p1.locals)
  have hcfg : m3.cfg = s.cfg := q1.cfg.trans (e1.cfg.trans p1.cfg)
  have hsupp := q1.ga.1.2
  refine ⟨{ acctQueue := ?_, globalQueue := q2, globalSlots := ?_ }, q1.ga⟩
  · intro a ha
    rw [hloc] at ha
    rw [hcfg]
    apply Nat.le_trans (q1.qle a)
    rw [e1.queue]
    apply p2 a ha
    by_cases hacc : a ∈ s.accts
    · exact Or.inl hacc
    · right; rw [(h.1.2 a hacc).2]; exact Nat.zero_le _
  · have hpc : m3.pendingCount = m2.pendingCount := by
      unfold Pool.pendingCount; rw [q1.pending, q1.accts]
    rw [hpc, hcfg, ← p1.cfg, ← e1.cfg]
    rcases e2 with hl | hr
    · left; rw [e1.cfg]; exact hl
    · right
      intro a ha
      rw [q1.pending]
      by_cases hacc : a ∈ m1.accts
      · have := hr a hacc
        unfold Pool.offender at this
        have hnl : m2.isLocal a = false := by
          unfold Pool.isLocal
          rw [e1.locals, p1.locals, ← hloc]
          simpa using ha
        simp only [hnl, Bool.not_false, Bool.true_and, decide_eq_false_iff_not, Nat.not_lt] at this
        rw [e1.cfg] at this
        rw [e1.cfg]; exact this
      · have : a ∉ m2.accts := by rw [e1.accts]; exact hacc
        rw [(e1.ga.1.2 a this).1]; exact Nat.zero_le _

/-- promoteExecutables over a given account list (what a successful, non-replacing add runs): the queue cap for those
    accounts and both pool-wide limits hold afterwards, for every eviction oracle -/
theorem limits_after_promote_some (s : Pool) (as : List Addr) (slots qorder : List Addr) (h : GA s) :
    let s' := s.promoteExecutables (some as) slots qorder
    (∀ a ∈ as, a ∉ s'.locals → (s'.queue a).items.length ≤ s'.cfg.accountQueue) ∧
    sumLen s'.queue (s'.accts.filter (fun a => !s'.isLocal a)) ≤ s'.cfg.globalQueue ∧
    (s'.pendingCount ≤ s'.cfg.globalSlots ∨ ∀ a, a ∉ s'.locals → (s'.pending a).items.length ≤ s'.cfg.accountSlots) ∧
    GA s' := by
  unfold Pool.promoteExecutables
  simp only
  obtain ⟨p1, p2⟩ := promoteLoop_spec as s h
  generalize as.foldl (fun s a => s.promoteAcct a) s = m1 at p1 p2 ⊢
  obtain ⟨e1, e2⟩ := slotEvict_spec m1 slots p1.ga
  generalize m1.slotEvict slots = m2 at e1 e2 ⊢
  obtain ⟨q1, q2⟩ := queueEvict_spec m2 qorder e1.ga
  generalize m2.queueEvict qorder = m3 at q1 q2 ⊢
  have hloc : m3.locals = s.locals := q1.locals.trans (e1.locals.trans p1.locals)
  have hcfg : m3.cfg = s.cfg := q1.cfg.trans (e1.cfg.trans p1.cfg)
  refine ⟨?_, q2, ?_, q1.ga⟩
  · intro a haas ha
    rw [hloc] at ha
    rw [hcfg]
    apply Nat.le_trans (q1.qle a)
    rw [e1.queue]
    exact p2 a ha (Or.inl haas)
  · have hpc : m3.pendingCount = m2.pendingCount := by
      unfold Pool.pendingCount; rw [q1.pending, q1.accts]
    rw [hpc, hcfg, ← p1.cfg, ← e1.cfg]
    rcases e2 with hl | hr
    · left; rw [e1.cfg]; exact hl
    · right
      intro a ha
      rw [q1.pending]
      by_cases hacc : a ∈ m1.accts
      · have := hr a hacc
        unfold Pool.offender at this
        have hnl : m2.isLocal a = false := by
          unfold Pool.isLocal
          rw [e1.locals, p1.locals, ← hloc]
          simpa using ha
        simp only [hnl, Bool.not_false, Bool.true_and, decide_eq_false_iff_not, Nat.not_lt] at this
        rw [e1.cfg] at this
        rw [e1.cfg]; exact this
      · have : a ∉ m2.accts := by rw [e1.accts]; exact hacc
        rw [(e1.ga.1.2 a this).1]; exact Nat.zero_le _

/-! ### reset ends with the pool-wide enforcement -/

/-- the state a reset hands to its final promoteExecutables(nil) -/
def Pool.resetPre (g : Bool) (s : Pool) (v : View) (oldNum newNum : Nat) (reorg : Bool) (disc inc : List Tx) (o : ResetOracle) : Pool :=
  ((s.resetMid v oldNum newNum reorg disc inc o).demoteUnexecutables g).syncNonces

theorem reset_eq_pre (g : Bool) (s : Pool) (v : View) (oldNum newNum : Nat) (reorg : Bool) (disc inc : List Tx) (o : ResetOracle) :
    s.reset g v oldNum newNum reorg disc inc o =
      (s.resetPre g v oldNum newNum reorg disc inc o).promoteExecutables none o.slots2 o.qorder2 := rfl

theorem resetMid_wa (s : Pool) (v : View) (oldNum newNum : Nat) (reorg : Bool) (disc inc : List Tx) (o : ResetOracle)
    (h : GA s) : Phase (s.resetMid v oldNum newNum reorg disc inc o) ∧ WA (s.resetMid v oldNum newNum reorg disc inc o) := by
  unfold Pool.resetMid
  simp only
  have h0 : Phase ({ s with cnonce := v.nonce, balance := v.balance, maxGas := v.maxGas, pnonce := v.nonce } : Pool) ∧
      WA ({ s with cnonce := v.nonce, balance := v.balance, maxGas := v.maxGas, pnonce := v.nonce } : Pool) :=
    ⟨⟨h.1.weakAll, fun a => Or.inl (Nat.le_refl _)⟩, h.1.weakAll, h.2⟩
  generalize ({ s with cnonce := v.nonce, balance := v.balance, maxGas := v.maxGas, pnonce := v.nonce } : Pool) = s0 at h0 ⊢
  generalize (if (reorg && decide ((if oldNum ≤ newNum then newNum - oldNum else oldNum - newNum) ≤ 64)) = true
      then txDifference disc inc else []) = reinject
  split
  · exact h0
  · exact addTxs_pres (addClosed_phase.and addClosed_wa) _ _ _ _ _ _ h0

theorem resetPre_ga (s : Pool) (v : View) (oldNum newNum : Nat) (reorg : Bool) (disc inc : List Tx) (o : ResetOracle)
    (h : GA s) : GA (s.resetPre true v oldNum newNum reorg disc inc o) := by
  obtain ⟨h1, h1w⟩ := resetMid_wa s v oldNum newNum reorg disc inc o h
  unfold Pool.resetPre
  generalize s.resetMid v oldNum newNum reorg disc inc o = s1 at h1 h1w ⊢
  obtain ⟨d1, d2, _, _, d5⟩ := demoteAll_spec s1.accts s1 h1
  have hrp : ∀ b, RunPay (s1.demoteUnexecutables true) b := by
    intro b
    by_cases hb : b ∈ s1.accts
    · exact d2 b (Or.inl hb)
    · apply d2 b (Or.inr ?_)
      unfold RunPay
      rw [(h1.1.2 b hb).1]
      exact ⟨trivial, fun t ht => by cases ht⟩
  refine ⟨syncNonces_good (s := s1.demoteUnexecutables true) d1 hrp, ?_⟩
  have h2 : WA (s1.demoteUnexecutables true) := by
    have : Phase (s1.demoteUnexecutables true) ∧ WA (s1.demoteUnexecutables true) := by
      unfold Pool.demoteUnexecutables
      apply foldl_pres (fun s => Phase s ∧ WA s) _ _ _ _ ⟨h1, h1w⟩
      intro s a hs
      exact ⟨demoteAcct_phase true a hs.1, (demoteAcct_phase true a hs.1).1, demoteAcct_allok true a hs.1.1 hs.2.2⟩
    exact this.2
  obtain ⟨e1, e2, e3⟩ := syncNonces_all (s1.demoteUnexecutables true)
  intro t
  rw [e1, pooled_iff, e2, e3]; exact h2.2 t

/-- every reset (code at HEAD, `gapFix = true`) ends in a state that satisfies the limits, for every oracle -/
theorem limits_after_reset_true (s : Pool) (v : View) (oldNum newNum : Nat) (reorg : Bool) (disc inc : List Tx) (o : ResetOracle)
    (h : GA s) : Limits (s.reset true v oldNum newNum reorg disc inc o) ∧ GA (s.reset true v oldNum newNum reorg disc inc o) := by
  rw [reset_eq_pre]
  exact limits_after_promote _ _ _ (resetPre_ga s v oldNum newNum reorg disc inc o h)

end Aqv.TxPool

/-
  Aqv.Lemmas.StateInv — the write-back-cache invariant `BInv` of the StateDB model and its preservation by every mutator.
  `BInv` says that the cache is coherent with the trie: every live cached object that is NOT in the dirty set still has its
  onDirty callback, is not self-destructed and equals its trie leaf; every dirty address has a cached object; deleted
  objects are absent from the trie; plus three structural facts about the journal that make the undo of
  `resetObjectChange` safe.
-/
import Aqv.Lemmas.StateReach
namespace Aqv.State

/-- a touch that found the callback armed: its undo removes the address from the dirty set without restoring the callback. -/
def Entry.armedTouch : Entry → Bool
  | .touch a prev prevDirty => !prev && a != ripemd && !prevDirty
  | _ => false

/-- entries that replace the cached object of an address. -/
def Entry.isObjEntry : Entry → Bool
  | .createObject _ => true
  | .resetObject _ _ => true
  | _ => false

structure BInv (s : SDB) : Prop where
  coh : Coherent s
  jok : JOK s
  dobj : ∀ a, a ∈ s.dirty → ∃ o, s.objs a = some o
  ca : ∀ a o, s.objs a = some o → o.deleted = false → a ∉ s.dirty →
    o.armed = true ∧ o.suicided = false ∧ s.trie a = some o.toAcct
  jlive : ∀ a p, Entry.resetObject a p ∈ s.journal → ∃ o, s.objs a = some o ∧ o.deleted = false
  jfresh : ∀ pre a post, s.journal = pre ++ Entry.createObject a :: post → ∀ p, Entry.resetObject a p ∉ post
  jdirty : ∀ a p, Entry.resetObject a p ∈ s.journal → a ∈ s.dirty

theorem toAcct_fromAcct (c : Acct) : (fromAcct c).toAcct = c := by
  cases c; rfl

theorem binv_fresh (c : Addr → Option Acct) : BInv (fresh c) :=
  ⟨fun a o h => by simp [fresh] at h, fun e h => by simp [fresh] at h, fun a h => by simp [fresh] at h,
   fun a o h => by simp [fresh] at h, fun a p h => by simp [fresh] at h,
   fun pre a post h => by simp [fresh] at h, fun a p h => by simp [fresh] at h⟩

/-- an object obtained by `look` from a state satisfying the invariant is armed unless its address is dirty. -/
theorem look_armed_or_dirty {s : SDB} (hb : BInv s) {a : Addr} {o : Obj} (hl : look s a = some o) :
    o.armed = true ∨ a ∈ s.dirty := by
  unfold look at hl
  cases ho : s.objs a with
  | none =>
    simp only [ho] at hl
    cases ht : s.trie a with
    | none => simp [ht] at hl
    | some c => simp only [ht, Option.map, Option.some.injEq] at hl; subst hl; exact Or.inl rfl
  | some q =>
    simp only [ho] at hl
    by_cases hq : q.deleted = true
    · simp [hq] at hl
    · simp only [hq] at hl
      simp only [Bool.false_eq_true, if_false, Option.some.injEq] at hl
      subst hl
      by_cases hd : a ∈ s.dirty
      · exact Or.inr hd
      · exact Or.inl (hb.ca a q ho (by simpa using hq) hd).1

theorem jfresh_push {s : SDB} (hb : BInv s) (e : Entry) (he : ∀ a, e = .createObject a → ∀ p, Entry.resetObject a p ∉ s.journal) :
    ∀ pre a post, e :: s.journal = pre ++ Entry.createObject a :: post → ∀ p, Entry.resetObject a p ∉ post := by
  intro pre a post h p
  cases pre with
  | nil =>
    simp only [List.nil_append, List.cons.injEq] at h
    rw [← h.2]; exact he a h.1 p
  | cons x pre' =>
    simp only [List.cons_append, List.cons.injEq] at h
    exact hb.jfresh pre' a post h.2 p

/-- the generic journalled field write preserves the invariant. -/
theorem binv_write {s : SDB} (hb : BInv s) (a : Addr) (o0 o' : Obj) (e : Entry) (hl : look s a = some o0)
    (harm : o'.armed = o0.armed) (hdel : o'.deleted = false) (hobj : e.isObjEntry = false) (hok : EntryOK e) :
    BInv (writeObj (push s e) a o') := by
  have hdirty : a ∈ (writeObj (push s e) a o').dirty := by
    unfold writeObj
    by_cases ha : o'.armed = true
    · simp only [ha, if_true, putObj_dirty]; exact (mem_markDirty (push s e) a a).mpr (Or.inl rfl)
    · simp only [ha, putObj_dirty]
      rcases look_armed_or_dirty hb hl with h | h
      · rw [harm] at ha; exact (ha h).elim
      · exact h
  have hsub : ∀ b, b ∈ s.dirty → b ∈ (writeObj (push s e) a o').dirty := by
    intro b hbd
    unfold writeObj
    split
    · simp only [putObj_dirty]; exact (mem_markDirty (push s e) a b).mpr (Or.inr hbd)
    · exact hbd
  have hsup : ∀ b, b ∈ (writeObj (push s e) a o').dirty → b = a ∨ b ∈ s.dirty := by
    intro b hbd
    unfold writeObj at hbd
    split at hbd
    · simp only [putObj_dirty] at hbd; exact (mem_markDirty (push s e) a b).mp hbd
    · exact Or.inr hbd
  have hobjs : ∀ b, (writeObj (push s e) a o').objs b = if b = a then some { o' with armed := false } else s.objs b := by
    intro b; unfold writeObj; split <;> simp [putObj, upd, push]
  have hj : (writeObj (push s e) a o').journal = e :: s.journal := by simp [push]
  refine ⟨?_, ?_, ?_, ?_, ?_, ?_, ?_⟩
  · intro b q hq hqd
    have := tomb_writeObj (q := q) hdel ⟨hq, hqd⟩
    rw [writeObj_trie]; exact hb.coh b q this.1 this.2
  · intro x hx; rw [hj] at hx
    rcases List.mem_cons.mp hx with h | h
    · subst h; exact hok
    · exact hb.jok x h
  · intro b hbd
    rw [hobjs]
    by_cases hba : b = a
    · simp [hba]
    · simp only [hba, if_false]
      rcases hsup b hbd with h | h
      · exact (hba h).elim
      · exact hb.dobj b h
  · intro b q hq hqd hnd
    rw [hobjs] at hq
    by_cases hba : b = a
    · subst hba; exact (hnd hdirty).elim
    · simp only [hba, if_false] at hq
      rw [writeObj_trie]
      exact hb.ca b q hq hqd (fun h => hnd (hsub b h))
  · intro b p hp; rw [hj] at hp
    rcases List.mem_cons.mp hp with h | h
    · subst h; simp [Entry.isObjEntry] at hobj
    · obtain ⟨q, hq, hqd⟩ := hb.jlive b p h
      rw [hobjs]
      by_cases hba : b = a
      · exact ⟨{ o' with armed := false }, by simp [hba], hdel⟩
      · exact ⟨q, by simp [hba, hq], hqd⟩
  · rw [hj]
    exact jfresh_push hb e (fun x hx => by subst hx; simp [Entry.isObjEntry] at hobj)
  · intro b p hp; rw [hj] at hp
    rcases List.mem_cons.mp hp with h | h
    · subst h; simp [Entry.isObjEntry] at hobj
    · exact hsub b (hb.jdirty b p h)


theorem putObj_putObj (s : SDB) (a : Addr) (o o' : Obj) : putObj (putObj s a o) a o' = putObj s a o' := by
  simp only [putObj]
  congr 1
  funext b
  simp only [upd]
  split <;> rfl

/-- replacing the cached object of `a` by a fresh live one, journalled by createObject/resetObject. -/
theorem binv_replace {s : SDB} (hb : BInv s) (a : Addr) (e : Entry) (newobj : Obj) (hnew : newobj.deleted = false)
    (he : (e = .createObject a ∧ look s a = none) ∨ (∃ p, e = .resetObject a p ∧ look s a = some p)) :
    BInv (putObj (push (markDirty s a) e) a newobj) := by
  have hobjs : ∀ b, (putObj (push (markDirty s a) e) a newobj).objs b = if b = a then some newobj else s.objs b := by
    intro b; simp [putObj, upd, push]
  have hdirty : ∀ b, b ∈ (putObj (push (markDirty s a) e) a newobj).dirty ↔ b = a ∨ b ∈ s.dirty := by
    intro b; simp only [putObj_dirty]; exact mem_markDirty s a b
  have hj : (putObj (push (markDirty s a) e) a newobj).journal = e :: s.journal := by simp [push]
  have htrie : (putObj (push (markDirty s a) e) a newobj).trie = s.trie := by simp [push]
  refine ⟨?_, ?_, ?_, ?_, ?_, ?_, ?_⟩
  · intro b q hq hqd
    have := tomb_putObj (q := q) hnew ⟨hq, hqd⟩
    rw [htrie]; exact hb.coh b q (by simpa [push] using this.1) this.2
  · intro x hx; rw [hj] at hx
    rcases List.mem_cons.mp hx with h | h
    · subst h
      rcases he with ⟨h1, _⟩ | ⟨p, h1, h2⟩
      · subst h1; trivial
      · subst h1; exact look_not_deleted h2
    · exact hb.jok x h
  · intro b hbd
    rw [hobjs]
    by_cases hba : b = a
    · simp [hba]
    · simp only [hba, if_false]
      rcases (hdirty b).mp hbd with h | h
      · exact (hba h).elim
      · exact hb.dobj b h
  · intro b q hq hqd hnd
    rw [hobjs] at hq
    by_cases hba : b = a
    · exact (hnd ((hdirty b).mpr (Or.inl hba))).elim
    · simp only [hba, if_false] at hq
      rw [htrie]
      exact hb.ca b q hq hqd (fun h => hnd ((hdirty b).mpr (Or.inr h)))
  · intro b p hp; rw [hj] at hp
    rw [hobjs]
    by_cases hba : b = a
    · exact ⟨newobj, by simp [hba], hnew⟩
    · rcases List.mem_cons.mp hp with h | h
      · rcases he with ⟨h1, _⟩ | ⟨p', h1, _⟩
        · subst h1; simp at h
        · subst h1; simp only [Entry.resetObject.injEq] at h; exact (hba h.1).elim
      · obtain ⟨q, hq, hqd⟩ := hb.jlive b p h
        exact ⟨q, by simp [hba, hq], hqd⟩
  · rw [hj]
    refine jfresh_push hb e (fun x hx p hp => ?_)
    rcases he with ⟨h1, h2⟩ | ⟨p', h1, _⟩
    · rw [h1] at hx; simp only [Entry.createObject.injEq] at hx; subst hx
      obtain ⟨q, hq, hqd⟩ := hb.jlive _ p hp
      simp [look, hq, hqd] at h2
    · rw [h1] at hx; simp at hx
  · intro b p hp; rw [hj] at hp
    rcases List.mem_cons.mp hp with h | h
    · rcases he with ⟨h1, _⟩ | ⟨p', h1, _⟩
      · subst h1; simp at h
      · subst h1; simp only [Entry.resetObject.injEq] at h; exact (hdirty b).mpr (Or.inl h.1)
    · exact (hdirty b).mpr (Or.inr (hb.jdirty b p h))

theorem binv_createObject {s : SDB} (hb : BInv s) (a : Addr) : BInv (createObject s a).1 := by
  cases hl : look s a with
  | none => rw [createObject_none s a hl]; exact binv_replace hb a _ _ rfl (Or.inl ⟨rfl, hl⟩)
  | some p => rw [createObject_some s a p hl]; exact binv_replace hb a _ _ rfl (Or.inr ⟨p, rfl, hl⟩)

theorem binv_getOrNew {s : SDB} (hb : BInv s) (a : Addr) :
    BInv (getOrNew s a).1 ∧ look (getOrNew s a).1 a = some (getOrNew s a).2 := by
  refine ⟨?_, (ext_getOrNew s a hb.coh).2⟩
  unfold getOrNew
  cases hl : look s a with
  | some o => exact hb
  | none => simp only; exact binv_createObject hb a

/-- pushing an entry that concerns no cached object (refund, log, preimage). -/
theorem binv_aux {s t : SDB} (hb : BInv s) (e : Entry) (h1 : t.objs = s.objs) (h2 : t.dirty = s.dirty) (h3 : t.trie = s.trie)
    (h4 : t.journal = e :: s.journal) (hobj : e.isObjEntry = false) (hok : EntryOK e) : BInv t := by
  refine ⟨?_, ?_, ?_, ?_, ?_, ?_, ?_⟩
  · intro b q hq hqd; rw [h3]; rw [h1] at hq; exact hb.coh b q hq hqd
  · intro x hx; rw [h4] at hx
    rcases List.mem_cons.mp hx with h | h
    · subst h; exact hok
    · exact hb.jok x h
  · intro b hbd; rw [h1]; rw [h2] at hbd; exact hb.dobj b hbd
  · intro b q hq hqd hnd; rw [h3]; rw [h1] at hq; rw [h2] at hnd; exact hb.ca b q hq hqd hnd
  · intro b p hp; rw [h4] at hp; rw [h1]
    rcases List.mem_cons.mp hp with h | h
    · subst h; simp [Entry.isObjEntry] at hobj
    · exact hb.jlive b p h
  · rw [h4]; exact jfresh_push hb e (fun x hx => by subst hx; simp [Entry.isObjEntry] at hobj)
  · intro b p hp; rw [h4] at hp; rw [h2]
    rcases List.mem_cons.mp hp with h | h
    · subst h; simp [Entry.isObjEntry] at hobj
    · exact hb.jdirty b p h

theorem binv_applyMut (m : Mut) {s : SDB} (hb : BInv s) : BInv (applyMut m s) := by
  cases m with
  | createAccount a =>
    simp only [applyMut, createAccount]
    cases hl : look s a with
    | none => rw [createObject_none s a hl]; exact binv_replace hb a _ _ rfl (Or.inl ⟨rfl, hl⟩)
    | some p =>
      rw [createObject_some s a p hl]
      simp only [putObj_putObj]
      exact binv_replace hb a _ _ rfl (Or.inr ⟨p, rfl, hl⟩)
  | addBalance a v =>
    obtain ⟨h1, h2⟩ := binv_getOrNew hb a
    have hod := look_not_deleted h2
    simp only [applyMut, addBalance]
    split
    · split
      · exact binv_write h1 a _ _ _ h2 rfl hod rfl trivial
      · exact h1
    · exact binv_write h1 a _ _ _ h2 rfl hod rfl trivial
  | subBalance a v =>
    obtain ⟨h1, h2⟩ := binv_getOrNew hb a
    have hod := look_not_deleted h2
    simp only [applyMut, subBalance]
    split
    · exact h1
    · exact binv_write h1 a _ _ _ h2 rfl hod rfl trivial
  | setBalance a v =>
    obtain ⟨h1, h2⟩ := binv_getOrNew hb a
    have hod : (getOrNew s a).2.deleted = false := look_not_deleted h2
    exact binv_write h1 a _ _ _ h2 rfl hod rfl trivial
  | setNonce a n =>
    obtain ⟨h1, h2⟩ := binv_getOrNew hb a
    have hod : (getOrNew s a).2.deleted = false := look_not_deleted h2
    exact binv_write h1 a _ _ _ h2 rfl hod rfl trivial
  | setCode a c =>
    obtain ⟨h1, h2⟩ := binv_getOrNew hb a
    have hod : (getOrNew s a).2.deleted = false := look_not_deleted h2
    exact binv_write h1 a _ _ _ h2 rfl hod rfl trivial
  | setState a k v =>
    obtain ⟨h1, h2⟩ := binv_getOrNew hb a
    have hod : (getOrNew s a).2.deleted = false := look_not_deleted h2
    exact binv_write h1 a _ _ _ h2 rfl hod rfl trivial
  | suicide a =>
    simp only [applyMut, suicide]
    cases hl : look s a with
    | none => exact hb
    | some o =>
      have hod : o.deleted = false := look_not_deleted hl
      exact binv_write hb a _ _ _ hl rfl hod rfl trivial
  | addRefund g => exact binv_aux hb (.refund s.refund) rfl rfl rfl rfl rfl trivial
  | addLog t => exact binv_aux hb (.addLog s.thash) rfl rfl rfl rfl rfl trivial
  | addPreimage h p =>
    simp only [applyMut, addPreimage]
    cases hp : s.preimages h with
    | some _ => exact hb
    | none => exact binv_aux hb (.addPreimage h) rfl rfl rfl rfl rfl trivial

end Aqv.State

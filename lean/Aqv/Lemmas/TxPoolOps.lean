/-
  Aqv.Lemmas.TxPoolOps — evictions, promoteExecutables, add / addTx / addTxs, SetGasPrice preserve the invariants,
  for every resolution of the eviction oracle.
-/
import Aqv.Lemmas.TxPoolPromote
namespace Aqv.TxPool

theorem foldl_pres {α : Type} (I : Pool → Prop) (f : Pool → α → Pool) (hf : ∀ s x, I s → I (f s x)) :
    ∀ (l : List α) (s : Pool), I s → I (l.foldl f s) := by
  intro l
  induction l with
  | nil => intro s h; exact h
  | cons x xs ih => intro s h; exact ih _ (hf s x h)

/-- an invariant kept by the three primitive moves is kept by all evictions and by promoteExecutables -/
structure Closed (I : Pool → Prop) : Prop where
  rem  : ∀ s t, I s → I (s.removeTx t)
  cap  : ∀ s a, I s → I (s.capOne a)
  acct : ∀ s a, I s → I (s.promoteAcct a)

theorem closed_weak : Closed WeakAll := ⟨fun _ t h => removeTx_weak t h, fun _ a h => capOne_weak a h, fun _ a h => promoteAcct_weak a h⟩

/-- the invariant that holds inside a reset -/
def Phase (s : Pool) : Prop := WeakAll s ∧ LiteAll s

theorem closed_phase : Closed Phase :=
  ⟨fun _ t h => ⟨removeTx_weak t h.1, removeTx_lite t h.1 h.2⟩,
   fun _ a h => ⟨capOne_weak a h.1, capOne_lite a h.2⟩,
   fun _ a h => ⟨promoteAcct_weak a h.1, promoteAcct_lite a h.1 h.2⟩⟩

theorem closed_good : Closed Good := ⟨fun _ t h => removeTx_good t h, fun _ a h => capOne_good a h, fun _ a h => promoteAcct_good a h⟩

theorem Good.phase {s : Pool} (h : Good s) : Phase s := ⟨h.weakAll, h.liteAll⟩

variable {I : Pool → Prop}

theorem slotFinish_pres (hc : Closed I) : ∀ (fuel : Nat) (s : Pool), I s → I (Pool.slotFinish fuel s) := by
  intro fuel
  induction fuel with
  | zero => intro s h; exact h
  | succ n ih =>
    intro s h
    unfold Pool.slotFinish
    split
    · exact h
    · split
      · exact h
      · exact ih _ (hc.cap _ _ h)

theorem slotEvict_pres (hc : Closed I) (s : Pool) (sched : List Addr) (h : I s) : I (s.slotEvict sched) := by
  unfold Pool.slotEvict
  split
  · exact h
  · apply slotFinish_pres hc
    apply foldl_pres I _ _ sched s h
    intro s a hs
    split
    · exact hc.cap _ _ hs
    · exact hs

theorem dropQueued_pres (hc : Closed I) (s : Pool) (a : Addr) (ts : List Tx) (h : I s) : I (s.dropQueued a ts) :=
  foldl_pres I _ (fun s t hs => hc.rem s t hs) ts s h

theorem queueDrop_pres (hc : Closed I) : ∀ (as : List Addr) (drop : Nat) (s : Pool), I s → I (Pool.queueDrop drop as s) := by
  intro as
  induction as with
  | nil => intro drop s h; unfold Pool.queueDrop; exact h
  | cons a rest ih =>
    intro drop s h
    cases drop with
    | zero => unfold Pool.queueDrop; exact h
    | succ d =>
      unfold Pool.queueDrop
      simp only
      split
      · exact ih _ _ (dropQueued_pres hc _ _ _ h)
      · exact dropQueued_pres hc _ _ _ h

theorem queueEvict_pres (hc : Closed I) (s : Pool) (order : List Addr) (h : I s) : I (s.queueEvict order) := by
  unfold Pool.queueEvict
  split
  · exact h
  · exact queueDrop_pres hc _ _ _ h

theorem promoteExecutables_pres (hc : Closed I) (s : Pool) (accounts : Option (List Addr)) (slots qorder : List Addr)
    (h : I s) : I (s.promoteExecutables accounts slots qorder) := by
  unfold Pool.promoteExecutables
  simp only
  apply queueEvict_pres hc
  apply slotEvict_pres hc
  exact foldl_pres I _ (fun s a hs => hc.acct s a hs) _ s h

/-! ## add -/

theorem validate_ok {s : Pool} {t : Tx} {loc : Bool} {sh : Shape} (h : s.validateTx t loc sh = .ok) :
    s.cnonce t.sender ≤ t.nonce ∧ t.cost ≤ s.balance t.sender ∧ t.gas ≤ s.maxGas := by
  unfold Pool.validateTx at h
  split at h; · cases h
  split at h; · cases h
  split at h; · cases h
  split at h; · cases h
  split at h; · cases h
  split at h; · cases h
  split at h; · cases h
  split at h; · cases h
  refine ⟨by omega, by omega, by omega⟩

theorem enqueueAll_env (s : Pool) (us : List Tx) : SameEnv s (enqueueAll s us) := by
  induction us generalizing s with
  | nil => exact SameEnv.refl s
  | cons x xs ih => exact (enqueueTx_facts s x).env.trans (ih _)

theorem removeTx_env (s : Pool) (t : Tx) : SameEnv s (s.removeTx t) := by
  unfold Pool.removeTx Pool.removeTxG
  split
  · exact SameEnv.refl s
  · simp only [Bool.true_or, if_true]
    split
    · have := enqueueAll_env (({ s with all := delAll t s.all } : Pool).setP t.sender
        (dropIfEmpty (({ s with all := delAll t s.all } : Pool).pending t.sender |>.remove t).2.2))
        (({ s with all := delAll t s.all } : Pool).pending t.sender |>.remove t).2.1
      split
      · exact ⟨this.cfg, this.cnonce, this.balance, this.maxGas⟩
      · exact ⟨this.cfg, this.cnonce, this.balance, this.maxGas⟩
    · exact ⟨rfl, rfl, rfl, rfl⟩

theorem foldl_removeTx_env (vs : List Tx) (s : Pool) : SameEnv s (vs.foldl (fun s v => s.removeTx v) s) := by
  induction vs generalizing s with
  | nil => exact SameEnv.refl s
  | cons x xs ih => exact (removeTx_env s x).trans (ih _)

/-- what an invariant needs in order to survive `add` -/
structure AddClosed (I : Pool → Prop) : Prop extends Closed I where
  replace : ∀ (s : Pool) (t : Tx), I s →
    s.cnonce t.sender ≤ t.nonce → Payable (s.balance t.sender) s.maxGas t →
    (s.pending t.sender).overlaps t = true → ((s.pending t.sender).add t s.cfg.priceBump).1 = true →
    I { s with pending := upd s.pending t.sender ((s.pending t.sender).add t s.cfg.priceBump).2.2,
               all := insertAll t (match ((s.pending t.sender).add t s.cfg.priceBump).2.1 with
                 | some o => delAll o s.all
                 | none => s.all) }
  enqueue : ∀ (s : Pool) (t : Tx), I s → s.cnonce t.sender ≤ t.nonce → (s.pending t.sender).overlaps t = false →
    I (s.enqueueTx t).2.2
  locals : ∀ (s : Pool) (L : List Addr), I s → I { s with locals := L }

theorem add_pres (hc : AddClosed I) (s : Pool) (t : Tx) (loc : Bool) (sh : Shape) (victims : List Tx) (h : I s) :
    I (s.add t loc sh victims).2.2 := by
  unfold Pool.add
  split
  · exact h
  · simp only
    split
    · exact h
    · rename_i hval
      simp only [ne_eq, Decidable.not_not] at hval
      have hv := validate_ok hval
      split
      · exact h
      · -- the discard stage
        have key : ∀ s1 : Pool, I s1 → SameEnv s s1 →
            I (if (s1.pending t.sender).overlaps t = true then
                  if (!((s1.pending t.sender).add t s1.cfg.priceBump).1) = true then (Err.replace, false, s1)
                  else (Err.ok, ((s1.pending t.sender).add t s1.cfg.priceBump).2.1.isSome,
                    { s1 with pending := upd s1.pending t.sender ((s1.pending t.sender).add t s1.cfg.priceBump).2.2,
                              all := insertAll t (match ((s1.pending t.sender).add t s1.cfg.priceBump).2.1 with
                                | some o => delAll o s1.all
                                | none => s1.all) })
                else
                  if (!(s1.enqueueTx t).2.1) = true then (Err.replace, false, s1)
                  else (Err.ok, (s1.enqueueTx t).1,
                    if (loc && !(s1.enqueueTx t).2.2.isLocal t.sender) = true then
                      { (s1.enqueueTx t).2.2 with locals := t.sender :: (s1.enqueueTx t).2.2.locals }
                    else (s1.enqueueTx t).2.2)).2.2 := by
          intro s1 h1 henv
          have hcn : s1.cnonce t.sender ≤ t.nonce := by rw [henv.cnonce]; exact hv.1
          have hpay : Payable (s1.balance t.sender) s1.maxGas t := by rw [henv.balance, henv.maxGas]; exact hv.2
          by_cases hov : (s1.pending t.sender).overlaps t = true
          · rw [if_pos hov]
            by_cases hins : (!((s1.pending t.sender).add t s1.cfg.priceBump).1) = true
            · rw [if_pos hins]; exact h1
            · rw [if_neg hins]
              apply hc.replace s1 t h1 hcn hpay hov
              simpa using hins
          · rw [if_neg hov]
            by_cases hins : (!(s1.enqueueTx t).2.1) = true
            · rw [if_pos hins]; exact h1
            · rw [if_neg hins]
              have he := hc.enqueue s1 t h1 hcn (by simpa using hov)
              simp only
              split
              · exact hc.locals _ _ he
              · exact he
        split
        · exact key _ (foldl_pres I _ (fun s v hs => hc.rem s v hs) _ s h) (foldl_removeTx_env _ s)
        · exact key s h (SameEnv.refl s)

/-! ### the two insertion branches -/

theorem TxL.add_inserted {l : TxL} {t : Tx} {b : Nat} (h : (l.add t b).1 = true) : (l.add t b).2.2 = l.putTx t := by
  unfold TxL.add at h ⊢
  split at h
  · split at h
    · rename_i hb; simp only [hb, if_true]
    · cases h
  · rfl

theorem overlaps_false {l : TxL} {t : Tx} (h : l.overlaps t = false) : ∀ p ∈ l.items, p.nonce ≠ t.nonce := by
  unfold TxL.overlaps at h
  cases hg : getN l.items t.nonce with
  | none => exact getN_none.mp hg
  | some o => rw [hg] at h; cases h

theorem overlaps_true {l : TxL} {t : Tx} (h : l.overlaps t = true) : (getN l.items t.nonce).isSome := h

/-- the state after replacing a pending entry in place -/
theorem replace_weak {s : Pool} {t : Tx} (all' : List Tx) (h : WeakAll s)
    (hov : (s.pending t.sender).overlaps t = true) (hins : ((s.pending t.sender).add t s.cfg.priceBump).1 = true) :
    WeakAll { s with pending := upd s.pending t.sender ((s.pending t.sender).add t s.cfg.priceBump).2.2, all := all' } ∧
    Touch s t.sender { s with pending := upd s.pending t.sender ((s.pending t.sender).add t s.cfg.priceBump).2.2, all := all' } := by
  have hw := h.1 t.sender
  have hspec := (TxL.add_spec (s.pending t.sender) t s.cfg.priceBump hw.psorted).1 hins
  have ht : Touch s t.sender { s with pending := upd s.pending t.sender ((s.pending t.sender).add t s.cfg.priceBump).2.2, all := all' } :=
    { env := ⟨rfl, rfl, rfl, rfl⟩, locals := rfl, gasPrice := rfl, pother := fun b hb => upd_other _ _ hb
      qother := fun _ _ => rfl, nother := fun _ _ => rfl, accts := fun _ h => h }
  obtain ⟨o, ho⟩ : ∃ o, getN (s.pending t.sender).items t.nonce = some o := by
    cases hg : getN (s.pending t.sender).items t.nonce with
    | none => have := overlaps_true hov; rw [hg] at this; cases this
    | some o => exact ⟨o, rfl⟩
  refine ⟨h.touch ht ?_ ?_, ht⟩
  · show Weak (upd s.pending t.sender _ t.sender) (s.queue t.sender) t.sender
    rw [upd_same]
    exact { hw with
      pstrict := by rw [hspec.2.2]; exact hw.pstrict
      psorted := hspec.2.1
      powner := fun u hu => by
        rcases (hspec.1 u).mp hu with rfl | ⟨hu', _⟩
        · rfl
        · exact hw.powner u hu'
      pcaps := TxL.add_caps _ _ _ hw.pcaps
      disj := fun u hu q hq => by
        rcases (hspec.1 u).mp hu with rfl | ⟨hu', _⟩
        · have := getN_some ho
          rw [← this.2]; exact hw.disj o this.1 q hq
        · exact hw.disj u hu' q hq }
  · intro hna
    have := (h.2 t.sender hna).1
    have := getN_some ho
    rw [(h.2 t.sender hna).1] at this; cases this.1

theorem addClosed_phase : AddClosed Phase :=
  { closed_phase with
    replace := fun s t h hcn hpay hov hins => by
      have hr := replace_weak (insertAll t (match ((s.pending t.sender).add t s.cfg.priceBump).2.1 with
                 | some o => delAll o s.all
                 | none => s.all)) h.1 hov hins
      refine ⟨hr.1, h.2.touch hr.2 ?_⟩
      have hw := h.1.1 t.sender
      have hspec := (TxL.add_spec (s.pending t.sender) t s.cfg.priceBump hw.psorted).1 hins
      show Lite _ _ _ (upd s.pending t.sender _ t.sender) (s.pnonce t.sender)
      rw [upd_same]
      rcases h.2 t.sender with hl | ⟨e, he, hen, hep⟩
      · exact Or.inl hl
      · right
        by_cases hc : e.nonce = t.nonce
        · exact ⟨t, (hspec.1 t).mpr (Or.inl rfl), by omega, hpay⟩
        · exact ⟨e, (hspec.1 e).mpr (Or.inr ⟨he, hc⟩), hen, hep⟩
    enqueue := fun s t h _ hov => by
      have hf := enqueueTx_facts s t
      refine ⟨enqueueTx_weak h.1 (overlaps_false hov), ?_⟩
      intro b
      rw [hf.env.cnonce, hf.env.balance, hf.env.maxGas, hf.pending, hf.pnonce]
      exact h.2 b
    locals := fun s L h => h }

theorem addClosed_good : AddClosed Good :=
  { closed_good with
    replace := fun s t h hcn hpay hov hins => by
      have hr := replace_weak (insertAll t (match ((s.pending t.sender).add t s.cfg.priceBump).2.1 with
                 | some o => delAll o s.all
                 | none => s.all)) h.weakAll hov hins
      have hs := h.1 t.sender
      apply h.touch hr.2 _ (hr.1.2 t.sender)
      have hitems : (upd s.pending t.sender ((s.pending t.sender).add t s.cfg.priceBump).2.2 t.sender).items
          = put t (s.pending t.sender).items := by
        rw [upd_same, TxL.add_inserted hins]; rfl
      have hpr := hs.run.put_replace (t := t) (overlaps_true hov)
      have hw' := hr.1.1 t.sender
      have hspec := (TxL.add_spec (s.pending t.sender) t s.cfg.priceBump hs.psorted).1 hins
      exact { hw' with
        run := by show IsRun _ (upd s.pending t.sender _ t.sender).items; rw [hitems]; exact hpr.1
        pn_le := by
          show s.pnonce t.sender ≤ _ + (upd s.pending t.sender _ t.sender).items.length
          rw [hitems, hpr.2]; exact hs.pn_le
        afford := fun u hu => by
          have hu' : u ∈ ((s.pending t.sender).add t s.cfg.priceBump).2.2.items := by
            have : u ∈ (upd s.pending t.sender ((s.pending t.sender).add t s.cfg.priceBump).2.2 t.sender).items := hu
            rwa [upd_same] at this
          rcases (hspec.1 u).mp hu' with rfl | ⟨h1, _⟩
          · exact hpay
          · exact hs.afford u h1 }
    enqueue := fun s t h _ hov => by
      have hf := enqueueTx_facts s t
      have hw' := enqueueTx_weak h.weakAll (overlaps_false hov)
      refine ⟨fun b => ?_, hw'.2⟩
      have hsb := h.1 b
      rw [hf.env.cnonce, hf.env.balance, hf.env.maxGas, hf.pnonce]
      exact { hw'.1 b with
        run := by rw [hf.pending]; exact hsb.run
        pn_le := by rw [hf.pending]; exact hsb.pn_le
        afford := by rw [hf.pending]; exact hsb.afford }
    locals := fun s L h => h }

/-! ## the operations -/

theorem addTx_pres (hc : AddClosed I) (s : Pool) (t : Tx) (loc : Bool) (sh : Shape) (vs : List Tx) (sl qo : List Addr)
    (h : I s) : I (s.addTx t loc sh vs sl qo).2 := by
  have ha := add_pres hc s t (loc && !s.cfg.noLocals) sh vs h
  unfold Pool.addTx
  simp only
  generalize s.add t (loc && !s.cfg.noLocals) sh vs = r at ha ⊢
  split
  · exact ha
  · split
    · exact promoteExecutables_pres hc.toClosed r.2.2 (some [t.sender]) sl qo ha
    · exact ha

theorem addMany_pres (hc : AddClosed I) (loc : Bool) : ∀ (ts : List Tx) (vs : List (List Tx)) (s : Pool), I s →
    I (s.addMany loc ts vs).2.2 := by
  intro ts
  induction ts with
  | nil => intro vs s h; exact h
  | cons t ts ih =>
    intro vs s h
    have ha := add_pres hc s t loc .wellformed (vs.headD []) h
    unfold Pool.addMany
    simp only
    generalize s.add t loc .wellformed (vs.headD []) = r at ha ⊢
    exact ih vs.tail r.2.2 ha

theorem addTxs_pres (hc : AddClosed I) (s : Pool) (ts : List Tx) (loc : Bool) (vs : List (List Tx)) (sl qo : List Addr)
    (h : I s) : I (s.addTxs ts loc vs sl qo).2 := by
  have ha := addMany_pres hc loc ts vs s h
  unfold Pool.addTxs
  simp only
  generalize s.addMany loc ts vs = r at ha ⊢
  split
  · exact ha
  · exact promoteExecutables_pres hc.toClosed r.2.2 (some r.2.1.eraseDups) sl qo ha

theorem setGasPrice_good (s : Pool) (p : Nat) (h : Good s) : Good (s.setGasPrice p) := by
  unfold Pool.setGasPrice
  exact foldl_pres Good _ (fun s t hs => removeTx_good t hs) _ _ h

theorem evictIdle_good (s : Pool) (a : Addr) (h : Good s) : Good (s.evictIdle a) := by
  unfold Pool.evictIdle
  split
  · exact h
  · exact dropQueued_pres closed_good _ _ _ h

end Aqv.TxPool

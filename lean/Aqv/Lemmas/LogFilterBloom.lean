/-
  Aqv.Lemmas.LogFilterBloom — bit-level facts about the bloom model (C16): OR only adds bits, `bloom9` stays below 2^2048,
  `BytesToBloom(bin.Bytes())` round-trips through `Big()`, `BloomLookup` as three bit tests.
-/
import Aqv.Model.LogFilter
import Aqv.Lemmas.Bytes
namespace Aqv.LogFilter

/-- `x` contains every bit of `c` (what `BloomLookup` tests). -/
def Covers (x c : Nat) : Prop := x &&& c = c

theorem covers_iff (x c : Nat) : Covers x c ↔ ∀ j, c.testBit j = true → x.testBit j = true := by
  unfold Covers
  constructor
  · intro h j hc
    have := congrArg (fun v => v.testBit j) h
    simp only [Nat.testBit_and, hc, Bool.and_true] at this
    exact this
  · intro h
    apply Nat.eq_of_testBit_eq
    intro j
    rw [Nat.testBit_and]
    cases hc : c.testBit j
    · simp
    · simp [h j hc]

theorem covers_or_left {x c : Nat} (y : Nat) (h : Covers x c) : Covers (x ||| y) c := by
  rw [covers_iff] at *
  intro j hc
  simp [Nat.testBit_or, h j hc]

theorem covers_or_right (x c : Nat) : Covers (x ||| c) c := by
  rw [covers_iff]
  intro j hc
  simp [Nat.testBit_or, hc]

theorem covers_trans {x y c : Nat} (h1 : Covers x y) (h2 : Covers y c) : Covers x c := by
  rw [covers_iff] at *
  intro j hc
  exact h1 j (h2 j hc)

/-- a fold whose step only adds bits keeps everything it already covers. -/
theorem covers_foldl_mono {α : Type} (g : Nat → α → Nat) (hg : ∀ b a c, Covers b c → Covers (g b a) c)
    (xs : List α) (init c : Nat) (h : Covers init c) : Covers (xs.foldl g init) c := by
  induction xs generalizing init with
  | nil => exact h
  | cons x xs ih => exact ih _ (hg _ _ _ h)

/-- … and covers what the step for any member adds. -/
theorem covers_foldl_mem {α : Type} (g : Nat → α → Nat) (hg : ∀ b a c, Covers b c → Covers (g b a) c)
    (xs : List α) (init : Nat) (x : α) (hx : x ∈ xs) (c : Nat) (hc : ∀ b, Covers (g b x) c) :
    Covers (xs.foldl g init) c := by
  induction xs generalizing init with
  | nil => cases hx
  | cons y ys ih =>
    cases hx with
    | head => exact covers_foldl_mono g hg ys _ c (hc init)
    | tail _ h => exact ih _ h

theorem topicsFold_mono (H : HashFn) (ts : List Bytes) (init c : Nat) (h : Covers init c) :
    Covers (ts.foldl (fun bin t => bin ||| bloom9 H t) init) c :=
  covers_foldl_mono _ (fun _ _ _ hb => covers_or_left _ hb) ts init c h

theorem logStep_mono (H : HashFn) (b : Nat) (log : Log) (c : Nat) (h : Covers b c) :
    Covers (log.topics.foldl (fun bin t => bin ||| bloom9 H t) (b ||| bloom9 H log.address)) c :=
  topicsFold_mono H _ _ _ (covers_or_left _ h)

theorem logsBloom_covers_address (H : HashFn) (logs : List Log) (log : Log) (h : log ∈ logs) :
    Covers (logsBloom H logs) (bloom9 H log.address) := by
  unfold logsBloom
  apply covers_foldl_mem _ (logStep_mono H) logs 0 log h
  intro b
  exact topicsFold_mono H _ _ _ (covers_or_right _ _)

theorem logsBloom_covers_topic (H : HashFn) (logs : List Log) (log : Log) (h : log ∈ logs) (t : Bytes) (ht : t ∈ log.topics) :
    Covers (logsBloom H logs) (bloom9 H t) := by
  unfold logsBloom
  apply covers_foldl_mem _ (logStep_mono H) logs 0 log h
  intro b
  exact covers_foldl_mem _ (fun _ _ _ hb => covers_or_left _ hb) log.topics _ t ht _ (fun b => covers_or_right _ _)

theorem createBloomNat_covers (H : HashFn) (receipts : List (List Log)) (r : List Log) (hr : r ∈ receipts) :
    Covers (createBloomNat H receipts) (logsBloom H r) := by
  unfold createBloomNat
  exact covers_foldl_mem _ (fun _ _ _ hb => covers_or_left _ hb) receipts 0 r hr _ (fun b => covers_or_right _ _)

/-! ### size: everything stays below 2^2048, so `BytesToBloom` never panics -/

theorem bloom9Idx_lt (h : Bytes) (i : Nat) : bloom9Idx h i < 2048 := by
  unfold bloom9Idx
  have := @Nat.and_le_right ((h.getD (i + 1) 0).toNat + ((h.getD i 0).toNat <<< 8)) 2047
  omega

theorem two_pow_lt_of_lt {a : Nat} (h : a < 2048) : 1 <<< a < 2 ^ 2048 := by
  rw [Nat.one_shiftLeft]
  exact Nat.pow_lt_pow_right (by decide) h

theorem bloom9_lt (H : HashFn) (b : Bytes) : bloom9 H b < 2 ^ 2048 := by
  unfold bloom9
  simp only [List.foldl_cons, List.foldl_nil]
  have z : (0 : Nat) < 2 ^ 2048 := Nat.two_pow_pos _
  exact Nat.or_lt_two_pow (Nat.or_lt_two_pow (Nat.or_lt_two_pow z (two_pow_lt_of_lt (bloom9Idx_lt _ _)))
    (two_pow_lt_of_lt (bloom9Idx_lt _ _))) (two_pow_lt_of_lt (bloom9Idx_lt _ _))

theorem foldl_or_lt {α : Type} (f : α → Nat) (hf : ∀ a, f a < 2 ^ 2048) (xs : List α) (init : Nat) (h : init < 2 ^ 2048) :
    xs.foldl (fun b a => b ||| f a) init < 2 ^ 2048 := by
  induction xs generalizing init with
  | nil => exact h
  | cons x xs ih => exact ih _ (Nat.or_lt_two_pow h (hf x))

theorem logsBloom_lt (H : HashFn) (logs : List Log) : logsBloom H logs < 2 ^ 2048 := by
  unfold logsBloom
  suffices h : ∀ init, init < 2 ^ 2048 →
      logs.foldl (fun bin log => log.topics.foldl (fun bin t => bin ||| bloom9 H t) (bin ||| bloom9 H log.address)) init < 2 ^ 2048 from
    h 0 (Nat.two_pow_pos _)
  induction logs with
  | nil => intro init h; exact h
  | cons l ls ih =>
    intro init h
    exact ih _ (foldl_or_lt (bloom9 H) (bloom9_lt H) _ _ (Nat.or_lt_two_pow h (bloom9_lt H _)))

theorem createBloomNat_lt (H : HashFn) (receipts : List (List Log)) : createBloomNat H receipts < 2 ^ 2048 :=
  foldl_or_lt (logsBloom H) (logsBloom_lt H) receipts 0 (Nat.two_pow_pos _)

theorem pow_2048 : (2 : Nat) ^ 2048 = 256 ^ 256 := by
  have : (256 : Nat) = 2 ^ 8 := by decide
  rw [this, ← Nat.pow_mul]

/-- `len(bin.Bytes()) ≤ 256`: the panic branch of `SetBytes` is unreachable from `CreateBloom`. -/
theorem createBloom_fits (H : HashFn) (receipts : List (List Log)) : (beBytes (createBloomNat H receipts)).length ≤ 256 :=
  beBytes_length_le _ _ (by rw [← pow_2048]; exact createBloomNat_lt H receipts)

theorem bytesToBloom_length (d : Bytes) (h : d.length ≤ 256) : (bytesToBloom d).length = 256 := by
  unfold bytesToBloom
  simp only [List.length_append, List.length_replicate]
  omega

theorem createBloom_length (H : HashFn) (receipts : List (List Log)) : (createBloom H receipts).length = 256 :=
  bytesToBloom_length _ (createBloom_fits H receipts)

theorem beNat_replicate_zero_append (k : Nat) (d : Bytes) : beNat (List.replicate k 0 ++ d) = beNat d := by
  induction k with
  | zero => simp
  | succ k ih =>
    rw [List.replicate_succ, List.cons_append]
    unfold beNat at *
    simp only [List.foldl_cons]
    simpa using ih

theorem beNat_bytesToBloom (d : Bytes) : beNat (bytesToBloom d) = beNat d := beNat_replicate_zero_append _ _

/-- `Bloom.Big()` of `CreateBloom(receipts)` is the accumulated integer. -/
theorem beNat_createBloom (H : HashFn) (receipts : List (List Log)) : beNat (createBloom H receipts) = createBloomNat H receipts := by
  unfold createBloom
  rw [beNat_bytesToBloom, beNat_beBytes]

theorem bloomLookup_iff_covers (H : HashFn) (bin topic : Bytes) : bloomLookup H bin topic = true ↔ Covers (beNat bin) (bloom9 H topic) := by
  unfold bloomLookup Covers
  simp

end Aqv.LogFilter

/-
  Aqv.Lemmas.TrieCodec — the three key encodings of trie/encoding.go round-trip.
-/
import Aqv.Lemmas.Trie
namespace Aqv.Trie
open Aqv

theorem nib_pair_roundtrip : ∀ a b : Nib, a ≠ T → b ≠ T →
    nibOf (((nibByte a <<< 4) ||| nibByte b).toNat / 16) = a ∧ nibOf ((nibByte a <<< 4) ||| nibByte b).toNat = b := by
  decide

theorem bytesToNibs_decodeNibbles : ∀ (h : List Nib), Hex h → h.length % 2 = 0 → bytesToNibs (decodeNibbles h) = h
  | [], _, _ => rfl
  | [_], _, hl => by simp at hl
  | a :: b :: rest, hh, hl => by
    have h1 := hex_cons.1 hh
    have h2 := hex_cons.1 h1.2
    have hp := nib_pair_roundtrip a b h1.1 h2.1
    simp only [decodeNibbles, bytesToNibs, hp.1, hp.2]
    rw [bytesToNibs_decodeNibbles rest h2.2 (by simp at hl; omega)]

set_option maxRecDepth 100000 in
theorem byte_nibs_roundtrip_fin : ∀ n : Fin 256,
    (nibByte (nibOf (n.val / 16)) <<< 4) ||| nibByte (nibOf n.val) = UInt8.ofNat n.val := by
  decide

theorem byte_nibs_roundtrip (x : UInt8) : (nibByte (nibOf (x.toNat / 16)) <<< 4) ||| nibByte (nibOf x.toNat) = x := by
  have := byte_nibs_roundtrip_fin ⟨x.toNat, x.toNat_lt⟩
  simpa using this

theorem decodeNibbles_bytesToNibs : ∀ (s : Bytes), decodeNibbles (bytesToNibs s) = s
  | [] => rfl
  | x :: s => by
    simp only [bytesToNibs, decodeNibbles, byte_nibs_roundtrip, decodeNibbles_bytesToNibs s]

theorem nibOf_ne_T (n : Nat) : nibOf n ≠ T := by
  intro h
  have h2 : n % 16 = 16 := congrArg Fin.val h
  omega

theorem hex_bytesToNibs : ∀ (s : Bytes), Hex (bytesToNibs s)
  | [] => hex_nil
  | x :: s => by
    simp only [bytesToNibs]
    exact hex_cons.2 ⟨nibOf_ne_T _, hex_cons.2 ⟨nibOf_ne_T _, hex_bytesToNibs s⟩⟩

theorem bytesToNibs_length_even : ∀ (s : Bytes), (bytesToNibs s).length % 2 = 0
  | [] => rfl
  | x :: s => by simp only [bytesToNibs, List.length_cons]; have := bytesToNibs_length_even s; omega

/-- every key the public API produces is a terminated hex key. -/
theorem term_keybytesToHex (s : Bytes) : Term (keybytesToHex s) :=
  term_iff.2 ⟨bytesToNibs s, hex_bytesToNibs s, rfl⟩

theorem hasTerm_append_T (h : List Nib) : hasTerm (h ++ [T]) = true := by
  simp [hasTerm, List.getLast?_append]

/-- `hexToKeybytes ∘ keybytesToHex = id`. -/
theorem keybytes_hex_roundtrip' (s : Bytes) : hexToKeybytes (keybytesToHex s) = some s := by
  unfold hexToKeybytes keybytesToHex
  simp only [hasTerm_append_T, if_true, List.dropLast_concat]
  have := bytesToNibs_length_even s
  simp [this, decodeNibbles_bytesToNibs]

theorem keybytesToHex_injective {a b : Bytes} (h : keybytesToHex a = keybytesToHex b) : a = b := by
  have h1 := keybytes_hex_roundtrip' a
  rw [h, keybytes_hex_roundtrip' b] at h1
  simpa using h1.symm

theorem first_byte_odd : ∀ (t : UInt8) (h0 : Nib), (t = 0 ∨ t = 1) → h0 ≠ T →
    nibOf (((t <<< 5) ||| ((1 : UInt8) <<< 4) ||| nibByte h0).toNat / 16) = nibOf (2 * t.toNat + 1) ∧
      nibOf ((t <<< 5) ||| ((1 : UInt8) <<< 4) ||| nibByte h0).toNat = h0 := by
  intro t h0 ht
  rcases ht with rfl | rfl <;> revert h0 <;> decide

theorem first_byte_even : ∀ (t : UInt8), (t = 0 ∨ t = 1) →
    nibOf ((t <<< 5).toNat / 16) = nibOf (2 * t.toNat) ∧ nibOf (t <<< 5).toNat = 0 := by
  intro t ht
  rcases ht with rfl | rfl <;> decide

theorem hexToCompact_hex {h : List Nib} (hh : Hex h) : hexToCompact h = compactOf 0 h := by
  simp [hexToCompact, hex_not_hasTerm hh]

theorem hexToCompact_term (h : List Nib) : hexToCompact (h ++ [T]) = compactOf 1 h := by
  simp [hexToCompact, hasTerm_append_T]

theorem compactToHex_compactOf (t : UInt8) (ht : t = 0 ∨ t = 1) (h : List Nib) (hh : Hex h) :
    compactToHex (compactOf t h) = some (if t = 1 then h ++ [T] else h) := by
  unfold compactOf
  by_cases hodd : h.length % 2 = 1
  · rw [if_pos hodd]
    obtain ⟨h0, rest, rfl⟩ : ∃ h0 rest, h = h0 :: rest := by
      cases h with
      | nil => simp at hodd
      | cons a r => exact ⟨a, r, rfl⟩
    have hc := hex_cons.1 hh
    have hev : rest.length % 2 = 0 := by simp at hodd; omega
    have fb := first_byte_odd t h0 ht hc.1
    simp only [compactToHex, bytesToNibs, fb.1, fb.2, bytesToNibs_decodeNibbles rest hc.2 hev]
    rcases ht with rfl | rfl <;> rfl
  · rw [if_neg hodd]
    have hev : h.length % 2 = 0 := by omega
    have fb := first_byte_even t ht
    simp only [compactToHex, bytesToNibs, fb.1, fb.2, bytesToNibs_decodeNibbles h hh hev]
    rcases ht with rfl | rfl <;> rfl

/-- `compactToHex ∘ hexToCompact = id` on every key a node can carry (hex nibbles, optionally terminated). -/
theorem compact_hex_roundtrip' (k : List Nib) (hk : Hex k ∨ Term k) : compactToHex (hexToCompact k) = some k := by
  rcases hk with h | h
  · rw [hexToCompact_hex h, compactToHex_compactOf 0 (Or.inl rfl) k h]; simp
  · obtain ⟨hx, hh, rfl⟩ := term_iff.1 h
    rw [hexToCompact_term, compactToHex_compactOf 1 (Or.inr rfl) hx hh]; simp

theorem hexToCompact_injective {a b : List Nib} (ha : Hex a ∨ Term a) (hb : Hex b ∨ Term b)
    (h : hexToCompact a = hexToCompact b) : a = b := by
  have h1 := compact_hex_roundtrip' a ha
  rw [h, compact_hex_roundtrip' b hb] at h1
  simpa using h1.symm

end Aqv.Trie

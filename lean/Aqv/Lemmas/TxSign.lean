/-
  Helper lemmas for C12 (transaction signing): injectivity of the signed payload's fields, typed RLP round trip of
  txdata, hexutil quantity / data round trips.
-/
import Aqv.Model.TxSign
import Aqv.Lemmas.Bytes
import Aqv.Lemmas.Keystore
namespace Aqv.TxSign
open Aqv Aqv.Rlp
open Aqv.Keystore (hexEncode hexDecode nibVal hexNib ascii nibVal_hexNib hexDecode_hexEncode)

instance instDecEqExcept {ε α : Type} [DecidableEq ε] [DecidableEq α] : DecidableEq (Except ε α) := fun a b =>
  match a, b with
  | .ok x, .ok y => if h : x = y then isTrue (by rw [h]) else isFalse (by intro h'; injection h' with h'; exact h h')
  | .error x, .error y => if h : x = y then isTrue (by rw [h]) else isFalse (by intro h'; injection h' with h'; exact h h')
  | .ok _, .error _ => isFalse (by intro h; cases h)
  | .error _, .ok _ => isFalse (by intro h; cases h)

theorem beBytes_inj {a b : Nat} (h : beBytes a = beBytes b) : a = b := by
  have := congrArg beNat h
  simpa [beNat_beBytes] using this

theorem toBytes_inj {a b : Option Bytes} (ha : ∀ x, a = some x → x.length = 20) (hb : ∀ x, b = some x → x.length = 20)
    (h : toBytes a = toBytes b) : a = b := by
  cases a with
  | none =>
    cases b with
    | none => rfl
    | some y =>
      have := hb y rfl
      simp [toBytes] at h
      subst h
      simp at this
  | some x =>
    cases b with
    | none =>
      have := ha x rfl
      simp [toBytes] at h
      subst h
      simp at this
    | some y =>
      simp [toBytes] at h
      rw [h]

def Signed.WF (t : Signed) : Prop := ∀ a, t.to = some a → a.length = 20

theorem baseFields_inj {a b : Signed} (ha : a.WF) (hb : b.WF) (h : baseFields a = baseFields b) : a = b := by
  simp only [baseFields, List.cons.injEq, Item.str.injEq, and_true] at h
  obtain ⟨h1, h2, h3, h4, h5, h6⟩ := h
  cases a; cases b
  simp only at h1 h2 h3 h4 h5 h6 ha hb
  have := beBytes_inj h1
  have := beBytes_inj h2
  have := beBytes_inj h3
  have := toBytes_inj ha hb h4
  have := beBytes_inj h5
  subst_vars
  rfl

/-! ### typed RLP round trip -/

theorem canonInt_beBytes (n : Nat) : canonInt (beBytes n) = true := by
  unfold canonInt
  cases h : beBytes n with
  | nil => rfl
  | cons b r =>
    have := beBytes_head_ne_zero n b r h
    simp [this]

theorem decUint64_beBytes (n : Nat) (h : n < 2 ^ 64) : decUint64 (beBytes n) = some n := by
  have hl := beBytes_length_le n 8 (by simpa using h)
  simp [decUint64, canonInt_beBytes, hl, beNat_beBytes]

theorem decBig_beBytes (n : Nat) : decBig (beBytes n) = some n := by
  simp [decBig, canonInt_beBytes, beNat_beBytes]

theorem decTo_toBytes (to : Option Bytes) (h : ∀ a, to = some a → a.length = 20) : decTo (toBytes to) = some to := by
  cases to with
  | none => simp [decTo, toBytes]
  | some a =>
    have hl := h a rfl
    have hne : a ≠ [] := by intro h0; subst h0; simp at hl
    simp [decTo, toBytes, hne, hl]

theorem txOfItem_itemOfTx (t : Tx) (h : t.WF) : txOfItem (itemOfTx t) = some t := by
  obtain ⟨hn, hg, hto⟩ := h
  simp only [itemOfTx, baseFields, Tx.signed, List.cons_append, List.nil_append, txOfItem]
  rw [decUint64_beBytes _ hn, decUint64_beBytes _ hg, decBig_beBytes, decBig_beBytes, decBig_beBytes, decBig_beBytes,
    decBig_beBytes, decTo_toBytes _ hto]

theorem canonInt_beBytes_beNat (b : Bytes) (h : canonInt b = true) : beBytes (beNat b) = b := by
  apply beBytes_beNat
  intro x rest hb
  subst hb
  intro h0
  subst h0
  simp [canonInt] at h

theorem decUint64_some {b : Bytes} {n : Nat} (h : decUint64 b = some n) : beBytes n = b ∧ n < 2 ^ 64 := by
  unfold decUint64 at h
  split at h
  · rename_i hc
    simp only [Bool.and_eq_true, decide_eq_true_eq] at hc
    injection h with h
    subst h
    refine ⟨canonInt_beBytes_beNat b hc.1, ?_⟩
    have := beNat_lt b
    have h2 : 256 ^ b.length ≤ 256 ^ 8 := Nat.pow_le_pow_right (by omega) hc.2
    have : (256 : Nat) ^ 8 = 2 ^ 64 := by decide
    omega
  · cases h

theorem decBig_some {b : Bytes} {n : Nat} (h : decBig b = some n) : beBytes n = b := by
  unfold decBig at h
  split at h
  · rename_i hc
    injection h with h
    subst h
    exact canonInt_beBytes_beNat b hc
  · cases h

theorem decTo_some {b : Bytes} {to : Option Bytes} (h : decTo b = some to) : toBytes to = b ∧ ∀ a, to = some a → a.length = 20 := by
  unfold decTo at h
  split at h
  · rename_i h0
    injection h with h
    subst h; subst h0
    exact ⟨rfl, by intro a ha; cases ha⟩
  · split at h
    · rename_i hl
      injection h with h
      subst h
      exact ⟨rfl, by intro a ha; injection ha with ha; subst ha; exact hl⟩
    · cases h

/-- typed canonicity: an item that decodes to a transaction is that transaction's encoding item. -/
theorem txOfItem_some {it : Item} {t : Tx} (h : txOfItem it = some t) : itemOfTx t = it ∧ t.WF := by
  unfold txOfItem at h
  split at h
  · rename_i n p g to val d v r s
    split at h
    · rename_i n' p' g' to' val' v' r' s' h1 h2 h3 h4 h5 h6 h7 h8
      injection h with h
      subst h
      obtain ⟨e1, w1⟩ := decUint64_some h1
      obtain ⟨e3, w3⟩ := decUint64_some h3
      obtain ⟨e4, w4⟩ := decTo_some h4
      have e2 := decBig_some h2
      have e5 := decBig_some h5
      have e6 := decBig_some h6
      have e7 := decBig_some h7
      have e8 := decBig_some h8
      refine ⟨?_, w1, w3, w4⟩
      simp only [itemOfTx, baseFields, Tx.signed, List.cons_append, List.nil_append, e1, e2, e3, e4, e5, e6, e7, e8]
    · cases h
  · cases h

/-! ### hexutil quantities -/

theorem ofDigits_append_singleton (ds : List Nat) (d : Nat) : ofDigits (ds ++ [d]) = ofDigits ds * 16 + d := by
  simp [ofDigits, List.foldl_append]

theorem ofDigits_hexDigitsF (f n : Nat) (h : n ≤ f) : ofDigits (hexDigitsF f n) = n := by
  induction f generalizing n with
  | zero => have : n = 0 := by omega
            subst this; rfl
  | succ f ih =>
    unfold hexDigitsF
    by_cases hn : n = 0
    · simp [hn, ofDigits]
    · simp only [hn, if_false]
      rw [ofDigits_append_singleton, ih (n / 16) (by omega)]
      omega

theorem hexDigitsF_lt (f n : Nat) : ∀ d ∈ hexDigitsF f n, d < 16 := by
  induction f generalizing n with
  | zero => intro d hd; simp [hexDigitsF] at hd
  | succ f ih =>
    intro d hd
    unfold hexDigitsF at hd
    by_cases hn : n = 0
    · simp [hn] at hd
    · simp only [hn, if_false, List.mem_append, List.mem_singleton] at hd
      rcases hd with h | h
      · exact ih _ d h
      · omega

theorem hexDigitsF_head_ne_zero (f n : Nat) (h : n ≤ f) (d : Nat) (rest : List Nat) (hd : hexDigitsF f n = d :: rest) : d ≠ 0 := by
  induction f generalizing n d rest with
  | zero => simp [hexDigitsF] at hd
  | succ f ih =>
    unfold hexDigitsF at hd
    by_cases hn : n = 0
    · simp [hn] at hd
    · simp only [hn, if_false] at hd
      cases hq : hexDigitsF f (n / 16) with
      | nil =>
        rw [hq] at hd
        simp at hd
        have hz : n / 16 = 0 := by
          have := ofDigits_hexDigitsF f (n / 16) (by omega)
          rw [hq] at this
          simpa [ofDigits] using this.symm
        omega
      | cons x xs =>
        rw [hq] at hd
        simp at hd
        have := ih (n / 16) (by omega) x xs hq
        omega

theorem hexDigitsF_length_le (f n k : Nat) (h : n < 16 ^ k) : (hexDigitsF f n).length ≤ k := by
  induction f generalizing n k with
  | zero => simp [hexDigitsF]
  | succ f ih =>
    unfold hexDigitsF
    by_cases hn : n = 0
    · simp [hn]
    · simp only [hn, if_false, List.length_append, List.length_singleton]
      cases k with
      | zero => simp at h; omega
      | succ k =>
        have : n / 16 < 16 ^ k := by
          rw [Nat.pow_succ] at h
          omega
        have := ih (n / 16) k this
        omega

theorem hexDigitsF_ne_nil (f n : Nat) (hn : n ≠ 0) (h : n ≤ f) : hexDigitsF f n ≠ [] := by
  intro h0
  have := ofDigits_hexDigitsF f n h
  rw [h0] at this
  simp [ofDigits] at this
  omega

theorem digitsOf_map_hexNib (ds : List Nat) (h : ∀ d ∈ ds, d < 16) : digitsOf (ds.map hexNib) = some ds := by
  induction ds with
  | nil => rfl
  | cons d r ih =>
    simp only [List.map_cons, digitsOf]
    rw [nibVal_hexNib d (h d (by simp)), ih (fun x hx => h x (by simp [hx]))]

theorem hexNib_zero : hexNib 0 = 48 := by decide

theorem hexNib_eq_48 (d : Nat) (h : d < 16) (h0 : hexNib d = 48) : d = 0 := by
  have := nibVal_hexNib d h
  rw [h0] at this
  have h48 : nibVal 48 = some 0 := by decide
  rw [h48] at this
  injection this with this
  exact this.symm

/-- hexutil: decoding an encoded quantity returns it (when it fits the digit limit of the target type). -/
theorem decQuantity_encQuantity (m n : Nat) (hm : 1 ≤ m) (h : n < 16 ^ m) : decQuantity m (encQuantity n) = some n := by
  unfold encQuantity
  have hpre : ascii "0x" = [48, 120] := by decide
  rw [hpre]
  by_cases hn : n = 0
  · subst hn
    simp only [if_true, List.cons_append, List.nil_append, decQuantity]
    have : ¬ ((120 : UInt8) ≠ 120 ∧ (120 : UInt8) ≠ 88) := by decide
    simp only [this, if_false]
    have h1 : digitsOf [48] = some [0] := by decide
    simp [h1, ofDigits]
    omega
  · simp only [hn, if_false, List.cons_append, List.nil_append, decQuantity]
    have : ¬ ((120 : UInt8) ≠ 120 ∧ (120 : UInt8) ≠ 88) := by decide
    simp only [this, if_false]
    have hne := hexDigitsF_ne_nil n n hn (Nat.le_refl n)
    have hlt := hexDigitsF_lt n n
    have hlen := hexDigitsF_length_le n n m h
    have hmapne : (hexDigitsF n n).map hexNib ≠ [] := by simpa using hne
    rw [if_neg hmapne]
    have hlead : ¬ (((hexDigitsF n n).map hexNib).length > 1 ∧ ((hexDigitsF n n).map hexNib).head? = some 48) := by
      intro ⟨_, hh⟩
      cases hq : hexDigitsF n n with
      | nil => exact hne hq
      | cons d rest =>
        rw [hq] at hh
        simp at hh
        have hd := hexDigitsF_head_ne_zero n n (Nat.le_refl n) d rest hq
        exact hd (hexNib_eq_48 d (hlt d (by rw [hq]; simp)) hh)
    rw [if_neg hlead]
    have hl2 : ¬ ((hexDigitsF n n).map hexNib).length > m := by simp; omega
    rw [if_neg hl2, digitsOf_map_hexNib _ hlt]
    simp [ofDigits_hexDigitsF n n (Nat.le_refl n)]

theorem decData_encData (b : Bytes) : decData (encData b) = some b := by
  unfold encData
  have hpre : ascii "0x" = [48, 120] := by decide
  rw [hpre]
  simp only [List.cons_append, List.nil_append, decData]
  have : ¬ ((120 : UInt8) ≠ 120 ∧ (120 : UInt8) ≠ 88) := by decide
  simp only [this, if_false, hexDecode_hexEncode]

/-! ### the validation predicate and recoverPlain -/

theorem halfN_lt : secpHalfN < secpN := by decide
theorem N_odd : secpN = 2 * secpHalfN + 1 := by decide

theorem validate_iff (v r s : Nat) (hs : Bool) :
    validateSignatureValues v r s hs = true ↔
      v ≤ 1 ∧ 1 ≤ r ∧ r < secpN ∧ 1 ≤ s ∧ s < secpN ∧ (hs = true → s ≤ secpHalfN) := by
  unfold validateSignatureValues
  by_cases hv : v ≤ 1
  · have hv' : (v != 0 && v != 1) = false := by
      have : v = 0 ∨ v = 1 := by omega
      rcases this with h | h <;> subst h <;> rfl
    simp only [hv', Bool.false_eq_true, if_false]
    by_cases hr : r < 1
    · simp [hr] <;> omega
    · by_cases hs1 : s < 1
      · simp [hs1] <;> omega
      · simp only [hr, hs1, decide_false, Bool.or_self, Bool.false_eq_true, if_false]
        cases hs with
        | false => simp <;> omega
        | true =>
          by_cases hh : s > secpHalfN
          · simp [hh] <;> omega
          · simp [hh] <;> omega
  · have hv' : (v != 0 && v != 1) = true := by
      simp only [Bool.and_eq_true, bne_iff_ne, ne_eq]
      omega
    simp [hv'] <;> omega

theorem recoverPlain_ok {E : Ecdsa} {h : Bytes} {r s : Nat} {vb : Int} {hs : Bool} {a : Bytes}
    (hr : recoverPlain E h r s vb hs = .ok a) :
    vb.natAbs < 256 ∧ validateSignatureValues ((vb.natAbs + 229) % 256) r s hs = true ∧
    E.recover h r s ((vb.natAbs + 229) % 256) = some a := by
  unfold recoverPlain at hr
  split at hr
  · cases hr
  rename_i h1
  simp only at hr
  split at hr
  · cases hr
  rename_i h2
  split at hr
  · rename_i a' h3
    injection hr with hr
    subst hr
    exact ⟨by omega, by simpa using h2, h3⟩
  · cases hr

theorem recoverPlain_invalid {E : Ecdsa} {h : Bytes} {r s : Nat} {vb : Int} {hs : Bool}
    (hbad : vb.natAbs ≥ 256 ∨ validateSignatureValues ((vb.natAbs + 229) % 256) r s hs = false) :
    recoverPlain E h r s vb hs = .error .invalidSig := by
  unfold recoverPlain
  by_cases hb : vb.natAbs ≥ 256
  · rw [if_pos hb]
  · rw [if_neg hb]
    rcases hbad with h1 | h2
    · exact absurd h1 hb
    · simp only [h2]
      rfl

/-- recoverPlain on a non-negative V that is not 27/28 (or whose S is high under the Homestead rule) is ErrInvalidSig. -/
theorem recoverPlain_nat_invalid {E : Ecdsa} {h : Bytes} {r s v : Nat} {hs : Bool}
    (hbad : (v ≠ 27 ∧ v ≠ 28) ∨ (hs = true ∧ s > secpHalfN)) : recoverPlain E h r s (v : Int) hs = .error .invalidSig := by
  apply recoverPlain_invalid
  have hn : ((v : Int)).natAbs = v := by simp
  rw [hn]
  by_cases hb : v ≥ 256
  · exact Or.inl hb
  · right
    cases hvv : validateSignatureValues ((v + 229) % 256) r s hs with
    | false => rfl
    | true =>
      rw [validate_iff] at hvv
      rcases hbad with h1 | ⟨h2, h3⟩
      · omega
      · have := hvv.2.2.2.2.2 h2
        omega

theorem recoverPlain_of {E : Ecdsa} {h : Bytes} {r s rid : Nat} {vb : Int} {hs : Bool} {a : Bytes}
    (hvb : vb = (rid : Int) + 27) (hrid : rid ≤ 1) (hval : validateSignatureValues rid r s hs = true)
    (hrec : E.recover h r s rid = some a) : recoverPlain E h r s vb hs = .ok a := by
  have hn : vb.natAbs = rid + 27 := by omega
  unfold recoverPlain
  have e : (rid + 27 + 229) % 256 = rid := by omega
  simp only [hn, e, hval, hrec]
  rw [if_neg (by omega)]
  simp


/-- `none` for the Frontier/Homestead payload, `some chainId` for the EIP-155 payload. -/
def Signer.domain : Signer → Option Nat
  | .frontier => none
  | .homestead => none
  | .eip155 c => some c


end Aqv.TxSign

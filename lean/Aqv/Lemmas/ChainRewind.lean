/-
  Aqv.Lemmas.ChainRewind — `init`, `reopen` and `setHead` preserve the invariant `InvC`.
-/
import Aqv.Lemmas.ChainOps
namespace Aqv.Chain

/-! ### init -/

theorem invC_init {U : Map Blk} (g : Blk) (archive : Bool) (hgU : U g.id = some g) (hg0 : g.number = 0)
    (hgt : g.txs = []) : InvC U (init g archive) g [] := by
  refine
    { sub := ?_, headStored := by simp [init], path := .nil _, canon := ?_, lookup := ?_, canonSeen := ?_,
      seenClosed := ?_, stateSeen := ?_, diskState := ?_, seenRcpt := ?_, tdIntr := ?_, storeTd := ?_,
      hheadEq := rfl, fheadEq := rfl, genNum := hg0, genTxs := hgt, genState := by simp [init],
      headState := by simp [init] }
  · intro k x hx
    simp only [init] at hx
    by_cases hk : k = g.id
    · subst hk; simp at hx; subst hx; exact hgU
    · rw [upd_other _ _ _ _ hk] at hx; cases hx
  · intro n i
    simp only [init, List.nil_append, List.mem_singleton]
    constructor
    · intro h
      by_cases hn : n = 0
      · subst hn; simp at h; exact ⟨g, rfl, hg0, h⟩
      · rw [upd_other _ _ _ _ hn] at h; cases h
    · rintro ⟨x, rfl, hxn, hxi⟩
      rw [← hxn, hg0]; simp [hxi]
  · intro t l
    simp only [init, List.nil_append, List.mem_singleton]
    constructor
    · intro h; cases h
    · rintro ⟨x, rfl, _, _, hxt⟩
      rw [hgt] at hxt; simp at hxt
  · intro x hx
    simp only [init, List.nil_append, List.mem_singleton] at hx ⊢
    subst hx; simp
  · intro k x hk hxU hx0
    simp only [init] at hk
    by_cases hkg : k = g.id
    · subst hkg; rw [hgU] at hxU; cases hxU; exact absurd hg0 hx0
    · rw [updB_other _ _ _ _ hkg] at hk; cases hk
  · intro k hk; exact hk
  · intro k hk; exact hk
  · intro k hk; exact hk
  · intro k t hk
    simp only [init] at hk
    by_cases hkg : k = g.id
    · subst hkg
      simp at hk
      exact ⟨g, [], hgU, .nil _, by simp [init, diffSum, hk]⟩
    · rw [upd_other _ _ _ _ hkg] at hk; cases hk
  · intro k x hx
    simp only [init] at hx ⊢
    by_cases hkg : k = g.id
    · subst hkg; simp
    · rw [upd_other _ _ _ _ hkg] at hx; cases hx

/-! ### Stop + reopen -/

theorem inv_reopen {U : Map Blk} (W : World U) {s : St} (h : Inv U s) : Inv U (reopen s) := by
  obtain ⟨hb, C, h⟩ := h
  unfold reopen
  split
  · exact ⟨hb, C, h⟩
  · rw [h.headStored]
    simp only
    refine ⟨hb, C, invC_frame h (fun _ _ hx => hx) h.sub rfl (fun _ => rfl) (fun _ => rfl) rfl rfl rfl
      (fun _ hk => hk) h.seenClosed ?_ (fun _ hk => hk) h.seenRcpt h.tdIntr h.storeTd ?_ ?_⟩
    · -- every state that survives was available before
      intro k hk
      apply h.stateSeen
      simp only at hk
      have hd0 : ∀ k, (if (decide (hb.number > 0) && s.hasState hb.id) = true then updB s.onDisk hb.id true else s.onDisk) k = true →
          s.hasState k = true := by
        intro k hk
        split at hk
        · rename_i hc
          simp only [Bool.and_eq_true] at hc
          by_cases hkb : k = hb.id
          · subst hkb; exact hc.2
          · rw [updB_other _ _ _ _ hkb] at hk; exact h.diskState k hk
        · exact h.diskState k hk
      split at hk
      · split at hk
        · rename_i i hi
          split at hk
          · rename_i hsi
            by_cases hki : k = i
            · subst hki; exact hsi
            · rw [updB_other _ _ _ _ hki] at hk; exact hd0 k hk
          · exact hd0 k hk
        · exact hd0 k hk
      · exact hd0 k hk
    · -- genesis stays on disk
      simp only
      have hd0 : (if (decide (hb.number > 0) && s.hasState hb.id) = true then updB s.onDisk hb.id true else s.onDisk)
          s.genesis.id = true := by
        split
        · exact updB_true_of _ _ _ h.genState
        · exact h.genState
      split
      · split
        · split
          · exact updB_true_of _ _ _ hd0
          · exact hd0
        · exact hd0
      · exact hd0
    · -- the head keeps its state
      simp only
      have hhs := h.headState
      have hid := h.headId W
      have hd0 : (if (decide (hb.number > 0) && s.hasState hb.id) = true then updB s.onDisk hb.id true else s.onDisk)
          s.head = true := by
        by_cases h0 : hb.number > 0
        · rw [if_pos (by simp [h0, hid, hhs]), ← hid]; simp
        · -- the head is the genesis block
          have hC : C = [] := by
            have := h.path.number
            rw [h.genNum] at this
            cases hl : C with
            | nil => rfl
            | cons a l => rw [hl] at this; simp at this; omega
          subst hC
          have hp := h.path
          cases hp
          have : (decide (s.genesis.number > 0) && s.hasState s.genesis.id) = false := by simp [h0]
          rw [this, ← hid]
          simpa using h.genState
      split
      · split
        · split
          · exact updB_true_of _ _ _ hd0
          · exact hd0
        · exact hd0
      · exact hd0


/-! ### SetHead -/

theorem delCanonRange_apply (lo : Nat) : ∀ (hi : Nat) (canon : Map Nat) (k : Nat),
    delCanonRange canon lo hi k = if lo < k ∧ k ≤ hi then none else canon k := by
  intro hi
  induction hi with
  | zero => intro canon k; unfold delCanonRange; rw [if_neg (by omega)]
  | succ i ih =>
    intro canon k
    unfold delCanonRange
    split
    · rename_i hgt
      rw [ih]
      by_cases hk : k = i + 1
      · subst hk
        rw [if_neg (by omega), if_pos (by omega)]
        simp
      · rw [upd_other _ _ _ _ hk]
        by_cases h1 : lo < k ∧ k ≤ i
        · rw [if_pos h1, if_pos ⟨h1.1, by omega⟩]
        · rw [if_neg h1, if_neg (by omega)]
    · rename_i hgt
      rw [if_neg (by omega)]

theorem Path.parent_of_mem {store : Map Blk} {x y : Blk} {l : List Blk} (h : Path store x l y) :
    ∀ z ∈ l, ∃ q, parentOf store z = some q := by
  induction h with
  | nil x => intro z hz; cases hz
  | cons hp _ ih =>
    intro z hz
    rcases List.mem_cons.mp hz with rfl | hz'
    · exact ⟨_, hp⟩
    · exact ih z hz'

/-- a path survives a change of the store that does not touch the parent links it uses -/
theorem Path.congr {store store' : Map Blk} {x y : Blk} {l : List Blk} (h : Path store x l y)
    (hsame : ∀ z ∈ l, store' z.parent = store z.parent) : Path store' x l y := by
  induction h with
  | nil x => exact .nil x
  | cons hp hrest ih =>
    rename_i x p l y
    have hx := hsame x (by simp)
    obtain ⟨h1, h2⟩ := parentOf_some hp
    exact .cons (parentOf_of (by rw [hx]; exact h1) h2) (ih (fun z hz => hsame z (List.mem_cons_of_mem _ hz)))

/-- the unwinding loop of `HeaderChain.SetHead` along the path `O` from `x` down to `c` (`c.number = n`): exactly the
    blocks of `O` lose header, body and td, and the lookups that point at them are dropped. -/
theorem unwind_spec : ∀ (O : List Blk) (s : St) (x c : Blk) (f n : Nat),
    (∀ k y, s.store k = some y → y.id = k) → s.store x.id = some x → Path s.store x O c → c.number = n →
    O.length < f →
    ∃ s', unwind f s (some x) n = (s', some c) ∧
      (∀ k, (∃ y ∈ O, y.id = k) → s'.store k = none ∧ s'.td k = none) ∧
      (∀ k, (¬ ∃ y ∈ O, y.id = k) → s'.store k = s.store k ∧ s'.td k = s.td k) ∧
      (∀ t, (∃ y ∈ O, t ∈ y.txs ∧ ∃ l, s.lookup t = some l ∧ l.blk = y.id) → s'.lookup t = none) ∧
      (∀ t, (¬ ∃ y ∈ O, t ∈ y.txs ∧ ∃ l, s.lookup t = some l ∧ l.blk = y.id) → s'.lookup t = s.lookup t) ∧
      s'.canon = s.canon ∧ s'.head = s.head ∧ s'.hhead = s.hhead ∧ s'.fhead = s.fhead ∧ s'.genesis = s.genesis ∧
      s'.receipts = s.receipts ∧ s'.hasState = s.hasState ∧ s'.onDisk = s.onDisk ∧ s'.seen = s.seen ∧
      s'.archive = s.archive := by
  intro O
  induction O with
  | nil =>
    intro s x c f n _ _ hp hc hf
    cases hp
    cases f with
    | zero => omega
    | succ f =>
      refine ⟨s, ?_, ?_, ?_, ?_, ?_, rfl, rfl, rfl, rfl, rfl, rfl, rfl, rfl, rfl, rfl⟩
      · unfold unwind; rw [if_neg (by omega)]
      · rintro k ⟨y, hy, _⟩; cases hy
      · intro k _; exact ⟨rfl, rfl⟩
      · rintro t ⟨y, hy, _⟩; cases hy
      · intro t _; rfl
  | cons a O ih =>
    intro s x c f n hids hx hp hc hf
    obtain ⟨p, hxa, hpar, hrest⟩ : ∃ p, x = a ∧ parentOf s.store x = some p ∧ Path s.store p O c := by
      cases hp with
      | cons hpar hrest => exact ⟨_, rfl, hpar, hrest⟩
    subst hxa
    have hp := Path.cons hpar hrest
    cases f with
    | zero => omega
    | succ f =>
      have hnum := hp.number
      obtain ⟨hps, hpn⟩ := parentOf_some hpar
      have hpid := hids _ _ hps
      have hpx : p.id ≠ x.id := by
        intro he
        rw [← hpid, he, hx] at hps
        cases hps
        omega
      -- the state after removing x
      let s1 : St := { s with
        lookup := dropLookupsOf s.lookup x x.txs
        store := upd s.store x.id none
        td := upd s.td x.id none }
      have hstep : unwind (f + 1) s (some x) n = unwind f s1 (parentOf s1.store x) n := by
        rw [unwind]
        rw [if_pos (by simp only [List.length_cons] at hnum; omega)]
      have hpar1 : parentOf s1.store x = some p := by
        apply parentOf_of _ hpn
        show upd s.store x.id none x.parent = some p
        rw [upd_other _ _ _ _ (by rw [← hpid]; exact hpx)]
        exact hps
      have hids1 : ∀ k y, s1.store k = some y → y.id = k := by
        intro k y hy
        show y.id = k
        by_cases hk : k = x.id
        · subst hk; simp [s1] at hy
        · have : s1.store k = s.store k := upd_other _ _ _ _ hk
          rw [this] at hy; exact hids k y hy
      have hp1 : s1.store p.id = some p := by
        show upd s.store x.id none p.id = some p
        rw [upd_other _ _ _ _ hpx, hpid]; exact hps
      have hpath1 : Path s1.store p O c := by
        apply hrest.congr
        intro z hz
        show upd s.store x.id none z.parent = s.store z.parent
        apply upd_other
        intro he
        -- z's parent would be x, but z lies below x
        have hzn := (hrest.mem_number z hz).2
        obtain ⟨q, hq⟩ := hrest.parent_of_mem z hz
        obtain ⟨hq1, hq2⟩ := parentOf_some hq
        rw [he, hx] at hq1
        cases hq1
        omega
      obtain ⟨s', hun, hrm, hkeep, hlrm, hlkeep, hrest'⟩ := ih s1 p c f n hids1 hp1 hpath1 hc (by simp at hf; omega)
      refine ⟨s', by rw [hstep, hpar1]; exact hun, ?_, ?_, ?_, ?_, hrest'⟩
      · rintro k ⟨y, hy, hyk⟩
        rcases List.mem_cons.mp hy with rfl | hy'
        · by_cases hin : ∃ y' ∈ O, y'.id = k
          · exact hrm k hin
          · have := hkeep k hin
            rw [this.1, this.2, ← hyk]
            exact ⟨by simp [s1], by simp [s1]⟩
        · exact hrm k ⟨y, hy', hyk⟩
      · intro k hk
        have hk1 : ¬ ∃ y ∈ O, y.id = k := fun ⟨y, hy, hyk⟩ => hk ⟨y, List.mem_cons_of_mem _ hy, hyk⟩
        have hkx : k ≠ x.id := fun he => hk ⟨x, by simp, he.symm⟩
        have := hkeep k hk1
        rw [this.1, this.2]
        exact ⟨upd_other _ _ _ _ hkx, upd_other _ _ _ _ hkx⟩
      · rintro t ⟨y, hy, hty, l, hl, hlb⟩
        have hs1l : s1.lookup t = dropLookupsOf s.lookup x x.txs t := rfl
        rcases List.mem_cons.mp hy with rfl | hy'
        · by_cases hin : ∃ y' ∈ O, t ∈ y'.txs ∧ ∃ l', s1.lookup t = some l' ∧ l'.blk = y'.id
          · exact hlrm t hin
          · rw [hlkeep t hin, hs1l, dropLookupsOf_apply, if_pos ⟨hty, l, hl, hlb⟩]
        · by_cases hdrop : t ∈ x.txs ∧ ∃ l', s.lookup t = some l' ∧ l'.blk = x.id
          · by_cases hin : ∃ y' ∈ O, t ∈ y'.txs ∧ ∃ l', s1.lookup t = some l' ∧ l'.blk = y'.id
            · exact hlrm t hin
            · rw [hlkeep t hin, hs1l, dropLookupsOf_apply, if_pos hdrop]
          · apply hlrm t
            refine ⟨y, hy', hty, l, ?_, hlb⟩
            rw [hs1l, dropLookupsOf_apply, if_neg hdrop]; exact hl
      · intro t ht
        have hs1l : s1.lookup t = dropLookupsOf s.lookup x x.txs t := rfl
        have hnx : ¬ (t ∈ x.txs ∧ ∃ l', s.lookup t = some l' ∧ l'.blk = x.id) :=
          fun ⟨h1, l, h2, h3⟩ => ht ⟨x, by simp, h1, l, h2, h3⟩
        have hs1eq : s1.lookup t = s.lookup t := by rw [hs1l, dropLookupsOf_apply, if_neg hnx]
        have hin : ¬ ∃ y' ∈ O, t ∈ y'.txs ∧ ∃ l', s1.lookup t = some l' ∧ l'.blk = y'.id := by
          rintro ⟨y', hy', hty', l', hl', hlb'⟩
          rw [hs1eq] at hl'
          exact ht ⟨y', List.mem_cons_of_mem _ hy', hty', l', hl', hlb'⟩
        rw [hlkeep t hin, hs1eq]


/-- `SetHead(n)` preserves the invariant when the block it rewinds to still has its state (always, on an archive node;
    see `setHead_stateless_witness` for what happens otherwise). -/
theorem inv_setHead {U : Map Blk} (W : World U) {s : St} (h : Inv U s) (n : Nat)
    (hst : ∀ i, s.canon n = some i → s.hasState i = true) : Inv U (setHead s n).st := by
  obtain ⟨hb, C, h⟩ := h
  have hid := h.headId W
  unfold setHead pickHead pickFast
  rw [h.hheadEq, h.fheadEq, h.headStored]
  simp only
  by_cases hn : hb.number ≤ n
  · -- nothing to unwind
    have hun : unwind (hb.number + 1) s (some hb) n = (s, some hb) := by
      rw [unwind, if_neg (by omega)]
    rw [hun]
    simp only [Option.getD_some, Nat.lt_irrefl, if_false]
    have hhs : s.hasState hb.id = true := by rw [hid]; exact h.headState
    simp only [hhs, if_true, Option.getD_some]
    have hstored : s.store hb.id = some hb := by rw [hid]; exact h.headStored
    simp only [hstored]
    refine ⟨hb, C, invC_frame h (fun _ _ hx => hx) h.sub rfl ?_ (fun _ => rfl) hid (by simp [hid, h.hheadEq])
      (by simp [hid, h.fheadEq]) (fun _ hk => hk) h.seenClosed h.stateSeen h.diskState h.seenRcpt h.tdIntr h.storeTd
      h.genState h.headState⟩
    intro k
    simp only
    rw [delCanonRange_apply, if_neg (by omega)]
  · -- unwind the blocks above height n
    have hn' : n < hb.number := by omega
    obtain ⟨O, R, c, hsplit, hO, hR, hcn⟩ := h.path.split n (by rw [h.genNum]; omega) (by omega)
    have hOlen : O.length < hb.number + 1 := by have := hO.number; omega
    have hstored : s.store hb.id = some hb := by rw [hid]; exact h.headStored
    obtain ⟨s', hun, hrm, hkeep, hlrm, hlkeep, hcan, hhd, hhh, hfh, hgen, hrc, hhas, hdisk, hseen, harch⟩ :=
      unwind_spec O s hb c (hb.number + 1) n (h.storeIds W) hstored hO hcn hOlen
    rw [hun]
    simp only [Option.getD_some]
    have hcmem : c ∈ C ++ [s.genesis] := (h.memOfPath hO).1
    have hcstored := h.chainStored W c hcmem
    have hOnum := hO.mem_number
    have hcnotO : ¬ ∃ y ∈ O, y.id = c.id := by
      rintro ⟨y, hy, hyc⟩
      have hys := h.chainStored W y (by rw [hsplit]; simp [hy])
      rw [hyc, hcstored] at hys
      cases hys
      have := (hOnum c hy).1
      omega
    have hc' : s'.store c.id = some c := by rw [(hkeep _ hcnotO).1]; exact hcstored
    have hcanc : s.canon n = some c.id := (h.canon _ _).mpr ⟨c, hcmem, hcn, rfl⟩
    have hcs : s'.hasState c.id = true := by rw [hhas]; exact hst _ hcanc
    simp only [hcn, hn', if_true, hc', hcs, Option.getD_some]
    -- blocks of the remaining chain are not removed
    have hRmem : ∀ x ∈ R ++ [s.genesis], x ∈ C ++ [s.genesis] := by
      intro x hx
      rw [hsplit]
      simp only [List.append_assoc]
      exact List.mem_append_right _ hx
    have hRnum : ∀ x ∈ R ++ [s.genesis], x.number ≤ n := by
      intro x hx
      rcases List.mem_append.mp hx with hx | hx
      · have := (hR.mem_number x hx).2; omega
      · simp at hx; subst hx; rw [h.genNum]; omega
    have hRnot : ∀ x ∈ R ++ [s.genesis], ¬ ∃ y ∈ O, y.id = x.id := by
      intro x hx
      rintro ⟨y, hy, hyx⟩
      have hys := h.chainStored W y (by rw [hsplit]; simp [hy])
      rw [hyx, h.chainStored W x (hRmem x hx)] at hys
      cases hys
      have := (hOnum x hy).1
      have := hRnum x hx
      omega
    refine ⟨c, R,
      { sub := ?_, headStored := hc', path := ?_, canon := ?_, lookup := ?_, canonSeen := ?_, seenClosed := ?_,
        stateSeen := ?_, diskState := ?_, seenRcpt := ?_, tdIntr := ?_, storeTd := ?_, hheadEq := rfl, fheadEq := rfl,
        genNum := by simp only [hgen]; exact h.genNum, genTxs := by simp only [hgen]; exact h.genTxs,
        genState := by simp only [hgen, hdisk]; exact h.genState, headState := hcs }⟩
    · intro k x hx
      simp only at hx
      by_cases hk : ∃ y ∈ O, y.id = k
      · rw [(hrm k hk).1] at hx; cases hx
      · rw [(hkeep k hk).1] at hx; exact h.sub k x hx
    · simp only [hgen]
      apply hR.congr
      intro z hz
      obtain ⟨q, hq⟩ := hR.parent_of_mem z hz
      obtain ⟨hq1, hq2⟩ := parentOf_some hq
      have hqid := h.storeIds W _ _ hq1
      apply (hkeep _ _).1
      rintro ⟨y, hy, hyq⟩
      have hys := h.chainStored W y (by rw [hsplit]; simp [hy])
      rw [hyq, hq1] at hys
      cases hys
      have := (hOnum q hy).1
      have := (hR.mem_number z hz).2
      omega
    · intro k i
      simp only [hgen, hcan]
      rw [delCanonRange_apply]
      constructor
      · intro hk
        split at hk
        · cases hk
        · rename_i hcond
          obtain ⟨x, hx, hxn, hxi⟩ := (h.canon k i).mp hk
          have hle := h.chainNumber x hx
          have hkn : k ≤ n := by omega
          rw [hsplit] at hx
          simp only [List.append_assoc] at hx
          rcases List.mem_append.mp hx with hx | hx
          · have := (hOnum x hx).1; omega
          · exact ⟨x, hx, hxn, hxi⟩
      · rintro ⟨x, hx, hxn, hxi⟩
        have := hRnum x hx
        rw [if_neg (by omega)]
        exact (h.canon k i).mpr ⟨x, hRmem x hx, hxn, hxi⟩
    · intro t l
      simp only [hgen]
      constructor
      · intro hl
        by_cases hdrop : ∃ y ∈ O, t ∈ y.txs ∧ ∃ l', s.lookup t = some l' ∧ l'.blk = y.id
        · rw [hlrm t hdrop] at hl; cases hl
        · rw [hlkeep t hdrop] at hl
          obtain ⟨x, hx, hxi, hxn, hxt⟩ := (h.lookup t l).mp hl
          rw [hsplit] at hx
          simp only [List.append_assoc] at hx
          rcases List.mem_append.mp hx with hx | hx
          · exact absurd ⟨x, hx, mem_txs_of_getElem? hxt, l, hl, hxi.symm⟩ hdrop
          · exact ⟨x, hx, hxi, hxn, hxt⟩
      · rintro ⟨x, hx, hxi, hxn, hxt⟩
        have hl := (h.lookup t l).mpr ⟨x, hRmem x hx, hxi, hxn, hxt⟩
        have hdrop : ¬ ∃ y ∈ O, t ∈ y.txs ∧ ∃ l', s.lookup t = some l' ∧ l'.blk = y.id := by
          rintro ⟨y, hy, _, l', hl', hlb⟩
          rw [hl] at hl'
          cases hl'
          exact hRnot x hx ⟨y, hy, by rw [← hlb, hxi]⟩
        rw [hlkeep t hdrop]; exact hl
    · intro x hx
      simp only [hgen] at hx
      simp only [hseen]
      exact h.canonSeen x (hRmem x hx)
    · intro k x hk hxU hx0
      simp only [hseen] at hk ⊢
      exact h.seenClosed k x hk hxU hx0
    · intro k hk
      simp only [hseen, hhas] at hk ⊢
      exact h.stateSeen k hk
    · intro k hk
      simp only [hdisk, hhas] at hk ⊢
      exact h.diskState k hk
    · intro k hk
      simp only [hseen, hrc] at hk ⊢
      exact h.seenRcpt k hk
    · intro k t hk
      simp only [hgen] at hk ⊢
      by_cases hko : ∃ y ∈ O, y.id = k
      · rw [(hrm k hko).2] at hk; cases hk
      · rw [(hkeep k hko).2] at hk; exact h.tdIntr k t hk
    · intro k x hx
      simp only at hx ⊢
      by_cases hko : ∃ y ∈ O, y.id = k
      · rw [(hrm k hko).1] at hx; cases hx
      · rw [(hkeep k hko).1] at hx
        rw [(hkeep k hko).2]
        exact h.storeTd k x hx

end Aqv.Chain

/-
  Aqv.Lemmas.ChainK — what `BlockChain.insert` (fix 3f14ce8) does to the number index AND the transaction lookups of a
  chain fed by full imports, read against the header head (`IdxL`): one call (`insert_moves`), one iteration of the
  re-insertion loop of `reorg` (`idxL_step`), the whole loop (`idxL_fold`).  The block head may lag behind the header head
  (after a rewind onto a block without state): nothing here mentions the block head.
-/
import Aqv.Lemmas.ChainIndex
namespace Aqv.Chain

/-- the lookups resolve exactly the transactions of the blocks of `L`, each to its block and position -/
def LkOf (lk : Map Loc) (L : List Blk) : Prop :=
  ∀ t l, lk t = some l ↔ ∃ x ∈ L, x.id = l.blk ∧ x.number = l.num ∧ x.txs[l.idx]? = some t

/-- what `insert` touches — number index and lookups — read against the header head `hh` and its ancestry `HC` -/
structure IdxL (U : Map Blk) (s : St) (hh : Blk) (HC : List Blk) : Prop where
  idx : IdxC U s.store s.genesis s.canon hh HC
  hhead : s.hhead = hh.id
  lookup : LkOf s.lookup (HC ++ [s.genesis])
  genTxs : s.genesis.txs = []

theorem IdxC.parent_mem {U H : Map Blk} {g : Blk} {canon : Map Nat} {hh : Blk} {HC : List Blk}
    (h : IdxC U H g canon hh HC) {x p : Blk} (hx : x ∈ HC ++ [g]) (hpar : parentOf H x = some p) : p ∈ HC ++ [g] := by
  obtain ⟨O, R, hsplit, _, hR⟩ := h.splitAt hx
  cases hR with
  | nil =>
    have := (parentOf_some hpar).2
    have := h.genNum
    omega
  | cons hp hrest =>
    rw [hpar] at hp
    cases hp
    rename_i l
    rw [hsplit]
    rcases hrest.head_eq with ⟨h1, h2⟩ | ⟨l', h1⟩
    · rw [h2]; simp
    · rw [h1]; simp

/-- the fuel of the "entries above" loop covers the index of a chain fed by full imports: the header head is a block -/
theorem IdxL.fuel {U : Map Blk} {s : St} {hh : Blk} {HC : List Blk} (h : IdxL U s hh HC) : hh.number ≤ indexFuel s := by
  unfold indexFuel
  rw [h.hhead, h.idx.headStored]
  simp only
  omega

/-- a store that only gained blocks still carries the same index and lookups -/
theorem IdxL.mono {U : Map Blk} {s s' : St} {hh : Blk} {HC : List Blk} (h : IdxL U s hh HC)
    (hext : StoreExt s.store s'.store) (hsub : StoreExt s'.store U) (hgen : s'.genesis = s.genesis)
    (hcanon : ∀ n, s'.canon n = s.canon n) (hlk : ∀ t, s'.lookup t = s.lookup t) (hhh : s'.hhead = s.hhead) :
    IdxL U s' hh HC where
  idx :=
    { sub := hsub
      headStored := hext _ _ h.idx.headStored
      path := by rw [hgen]; exact h.idx.path.mono hext
      canon := by intro n i; rw [hgen, hcanon]; exact h.idx.canon n i
      genNum := by rw [hgen]; exact h.idx.genNum }
  hhead := by rw [hhh]; exact h.hhead
  lookup := by intro t l; rw [hgen, hlk]; exact h.lookup t l
  genTxs := by rw [hgen]; exact h.genTxs

/-! ### the lookups after one `insert` whose parent is indexed -/

/-- The lookup component of the `updateHeads` batch when the parent `p` of the inserted block is indexed (always, on a
    chain fed by full imports): exactly the lookups into the displaced blocks `O` (the blocks indexed above `p`) go. -/
theorem insertIndex_snd {U : Map Blk} (W : World U) {s : St} {hh : Blk} {HC O R : List Blk}
    (hI : IdxC U s.store s.genesis s.canon hh HC) {x p : Blk} (hpar : parentOf s.store x = some p)
    (hsplit : HC = O ++ R) (hO : Path s.store hh O p) (hR : Path s.store p R s.genesis)
    (hF : hh.number ≤ indexFuel s) (t : Nat) :
    (insertIndex s x).2 t = match s.lookup t with
      | some l => if ∃ o ∈ O, o.id = l.blk ∧ t ∈ o.txs then none else some l
      | none => none := by
  obtain ⟨hps, hpn⟩ := parentOf_some hpar
  have hids := hI.storeIds W
  have hpid : p.id = x.parent := hids _ _ hps
  have hpmem : p ∈ HC ++ [s.genesis] := by
    rw [hsplit]
    rcases hR.head_eq with ⟨h1, h2⟩ | ⟨l', h1⟩
    · rw [h2]; simp
    · rw [h1]; simp
  have hpc : s.canon p.number = some x.parent := by
    rw [← hpid]; exact (hI.canon _ _).mpr ⟨p, hpmem, rfl, rfl⟩
  have hxn : x.number = p.number + 1 := by omega
  have hOnum := hO.mem_number
  have hRnum : ∀ y ∈ R ++ [s.genesis], y.number ≤ p.number := by
    intro y hy
    rcases List.mem_append.mp hy with hy | hy
    · exact (hR.mem_number y hy).2
    · simp at hy; subst hy; have := hR.number; omega
  have hOmem : ∀ o ∈ O, o ∈ HC ++ [s.genesis] := by
    intro o ho; rw [hsplit]; simp [ho]
  -- a block indexed above `p` is one of the displaced blocks
  have hdisp : ∀ m o y, s.canon m = some o → s.store o = some y → p.number < m → y ∈ O := by
    intro m o y hc hy hm
    obtain ⟨z, hz, hzn, hzi⟩ := (hI.canon m o).mp hc
    have hzs := hI.chainStored W z hz
    rw [hzi, hy] at hzs
    cases hzs
    rw [hsplit] at hz
    simp only [List.append_assoc] at hz
    rcases List.mem_append.mp hz with hz | hz
    · exact hz
    · have := hRnum y hz; omega
  -- the lookups after the entry at the height of `x` was handled
  have hlk0 : ∀ t, dropReplaced s x t = s.lookup t ∨ dropReplaced s x t = none := by
    intro t
    unfold dropReplaced
    cases s.canon x.number with
    | none => exact .inl rfl
    | some o =>
      simp only
      rw [dropAt_apply]
      split
      · exact .inr rfl
      · exact .inl rfl
  have hform : (insertIndex s x).2 =
      (dropAbove s.store s.canon (indexFuel s + 1) (x.number + 1) s.canon (dropReplaced s x)).2 := by
    unfold insertIndex
    simp only
    generalize dropReplaced s x = lkz
    rw [hxn]
    simp only
    rw [repointBelow_stop _ _ _ _ _ _ _ hpc]
  rw [hform]
  cases hl : s.lookup t with
  | none =>
    simp only
    apply dropAbove_none
    rcases hlk0 t with h | h
    · rw [h, hl]
    · exact h
  | some l =>
    simp only
    by_cases hdis : ∃ o ∈ O, o.id = l.blk ∧ t ∈ o.txs
    · rw [if_pos hdis]
      obtain ⟨o, ho, hob, hto⟩ := hdis
      have hos := hI.chainStored W o (hOmem o ho)
      have hoc : s.canon o.number = some o.id := (hI.canon _ _).mpr ⟨o, hOmem o ho, rfl, rfl⟩
      have hon := hOnum o ho
      by_cases hoe : o.number = x.number
      · apply dropAbove_none
        unfold dropReplaced
        rw [← hoe, hoc]
        simp only
        rw [dropAt_apply, if_pos ⟨o, hos, rfl, hto, l, hl, hob.symm⟩]
      · cases hl0 : dropReplaced s x t with
        | none => exact dropAbove_none _ _ _ _ _ _ _ hl0
        | some l' =>
          have hll : l' = l := by
            rcases hlk0 t with h | h
            · rw [h, hl] at hl0; cases hl0; rfl
            · rw [h] at hl0; cases hl0
          subst hll
          apply dropAbove_drops s.store s.canon (indexFuel s + 1) (x.number + 1) s.canon (dropReplaced s x) (hh.number + 1)
            (by omega)
            ?_ o.number (by omega) (by omega) o.id o hoc hos rfl t hto l' hl0 hob.symm
          intro n hn1 hn2
          obtain ⟨z, hz, hzn⟩ := hI.canonBelow n (by omega)
          rw [(hI.canon n z.id).mpr ⟨z, hz, hzn, rfl⟩]; rfl
    · rw [if_neg hdis]
      have h0 : dropReplaced s x t = some l := by
        unfold dropReplaced
        cases hcx : s.canon x.number with
        | none => exact hl
        | some o =>
          simp only
          rw [dropAt_apply, if_neg, hl]
          rintro ⟨y, hy, hyn, hty, l', hl', hlb⟩
          rw [hl] at hl'
          cases hl'
          exact hdis ⟨y, hdisp _ _ _ hcx hy (by omega), hlb.symm, hty⟩
      rcases dropAbove_lk s.store s.canon (indexFuel s + 1) (x.number + 1) s.canon (dropReplaced s x) t with
        h | ⟨_, l', m, o, y, hl', hm, hpm, hy, hyn, hty, hlb⟩
      · rw [h, h0]
      · rw [h0] at hl'
        cases hl'
        exact absurd ⟨y, hdisp _ _ _ hpm hy (by omega), hlb.symm, hty⟩ hdis

/-- the lookups once the block `x` has taken over from the blocks `O`: its own transactions point at it, the lookups
    into `O` are gone, the rest is untouched — they are the lookups of the chain of `x` -/
theorem lkOf_switch {U : Map Blk} (W : World U) {g hh x p : Blk} {O R : List Blk} {lk lk' : Map Loc}
    (hlk : LkOf lk ((O ++ R) ++ [g])) (hgt : g.txs = [])
    (hhU : U hh.id = some hh) (hOR : Path U hh (O ++ R) g)
    (hxU : U x.id = some x) (hxR : Path U x (x :: R) g)
    (hown : ∀ j t, x.txs[j]? = some t → lk' t = some ⟨x.id, x.number, j⟩)
    (hrest : ∀ t, t ∉ x.txs → lk' t = match lk t with
      | some l => if ∃ o ∈ O, o.id = l.blk ∧ t ∈ o.txs then none else some l
      | none => none) :
    LkOf lk' ((x :: R) ++ [g]) := by
  intro t l
  constructor
  · intro h
    by_cases htx : t ∈ x.txs
    · obtain ⟨j, hj⟩ := List.mem_iff_getElem?.mp htx
      rw [hown j t hj] at h
      cases h
      exact ⟨x, by simp, rfl, rfl, hj⟩
    · rw [hrest t htx] at h
      cases hl0 : lk t with
      | none => rw [hl0] at h; cases h
      | some l0 =>
        rw [hl0] at h
        simp only at h
        split at h
        · cases h
        · rename_i hnd
          cases h
          obtain ⟨y, hy, hyi, hyn, hyt⟩ := (hlk t l).mp hl0
          simp only [List.append_assoc] at hy
          rcases List.mem_append.mp hy with hy | hy
          · exact absurd ⟨y, hy, hyi, mem_txs_of_getElem? hyt⟩ hnd
          · exact ⟨y, by simp only [List.cons_append]; exact List.mem_cons_of_mem _ hy, hyi, hyn, hyt⟩
  · rintro ⟨y, hy, hyi, hyn, hyt⟩
    simp only [List.cons_append] at hy
    rcases List.mem_cons.mp hy with rfl | hy
    · rw [hown _ t hyt, hyi, hyn, loc_eta]
    · have hyR : y ∈ R := by
        rcases List.mem_append.mp hy with hy | hy
        · exact hy
        · simp at hy; subst hy; rw [hgt] at hyt; simp at hyt
      have hty := mem_txs_of_getElem? hyt
      have htx : t ∉ x.txs := by
        intro htx
        exact W.disjoint hxU (l1 := [x]) (l2 := R) hxR (by simp) hyR htx hty
      rw [hrest t htx]
      have hl0 : lk t = some l := (hlk t l).mpr ⟨y, by simp [hyR], hyi, hyn, hyt⟩
      rw [hl0]
      simp only
      rw [if_neg]
      rintro ⟨o, ho, _, hto⟩
      exact W.disjoint hhU hOR ho hyR hto hty

/-- writing the lookups of a block of the chain again changes nothing -/
theorem lkOf_rewrite {U : Map Blk} (W : World U) {hh g x : Blk} {HC : List Blk} {lk : Map Loc}
    (hlk : LkOf lk (HC ++ [g])) (hhU : U hh.id = some hh) (hp : Path U hh HC g) (hgt : g.txs = [])
    (hx : x ∈ HC ++ [g]) (t : Nat) : writeLookups lk x t = lk t := by
  by_cases htx : t ∈ x.txs
  · obtain ⟨j, hj⟩ := List.mem_iff_getElem?.mp htx
    have hxC : x ∈ HC := by
      rcases List.mem_append.mp hx with hx | hx
      · exact hx
      · simp at hx; subst hx; rw [hgt] at htx; simp at htx
    rw [writeLookups_mem _ _ _ _ (W.txs_nodup hhU hp hxC) hj]
    exact ((hlk t ⟨x.id, x.number, j⟩).mpr ⟨x, hx, rfl, rfl, hj⟩).symm
  · exact writeLookups_not_mem _ _ _ htx

/-! ### one call of `insert` -/

/-- `insert` of a block that the index already holds at its height: only the block head moves -/
theorem insertHead_same {s : St} {x : Blk} (hc : s.canon x.number = some x.id) : insertHead s x = { s with head := x.id } := by
  unfold insertHead
  simp [hc]

/-- `insert` of a stored block `x` that is not indexed, its parent `p` being indexed: the index becomes the chain of `x`,
    the lookups into the displaced blocks go, header head and fast head follow -/
theorem insert_moves {U : Map Blk} (W : World U) {s : St} {hh : Blk} {HC : List Blk}
    (hI : IdxC U s.store s.genesis s.canon hh HC) (hF : hh.number ≤ indexFuel s)
    {x p : Blk} (hxs : s.store x.id = some x) (hpar : parentOf s.store x = some p) (hp : p ∈ HC ++ [s.genesis])
    (hnc : s.canon x.number ≠ some x.id) :
    ∃ O R, HC = O ++ R ∧ Path s.store hh O p ∧ Path s.store p R s.genesis ∧
      IdxC U s.store s.genesis (insertHead s x).canon x (x :: R) ∧
      (∀ t, (insertHead s x).lookup t = match s.lookup t with
        | some l => if ∃ o ∈ O, o.id = l.blk ∧ t ∈ o.txs then none else some l
        | none => none) ∧
      (insertHead s x).hhead = x.id ∧ (insertHead s x).fhead = x.id := by
  obtain ⟨O, R, hsplit, hO, hR⟩ := hI.splitAt hp
  obtain ⟨hps, hpn⟩ := parentOf_some hpar
  have hids := hI.storeIds W
  have hpid : p.id = x.parent := hids _ _ hps
  have hmoves : (s.canon x.number != some x.id) = true := by simp [hnc]
  have hcanon : (insertHead s x).canon = (insertIndex s x).1 := by simp [insertHead, hmoves]
  have hlookup : (insertHead s x).lookup = (insertIndex s x).2 := by simp [insertHead, hmoves]
  refine ⟨O, R, hsplit, hO, hR, ?_, ?_, by simp [insertHead, hmoves], by simp [insertHead, hmoves]⟩
  · -- the index: the three loops of `HeaderChain.WriteHeader`
    obtain ⟨k, hk⟩ : ∃ k, x.number = k + 1 := ⟨p.number, by omega⟩
    have hpk : p.number = k := by omega
    have hc0 : delCanonAbove s.canon (indexFuel s + 1) (k + 1 + 1) 0 = some s.genesis.id := by
      rw [delCanonAbove_below _ _ _ _ (by omega)]
      exact (hI.canon _ _).mpr ⟨s.genesis, by simp, hI.genNum, rfl⟩
    have hflag := overwriteStale_closed hids hI.genNum R p (delCanonAbove s.canon (indexFuel s + 1) (k + 1 + 1)) (k + 1) hR
      (by rw [hpid]; exact hps) hc0 (by omega)
    rw [hpid, hpk] at hflag
    cases hos : overwriteStale s.store (k + 1) (delCanonAbove s.canon (indexFuel s + 1) (k + 1 + 1)) x.parent k with
    | mk c2 okb =>
      rw [hos] at hflag
      simp only at hflag
      subst hflag
      have hfst : (insertIndex s x).1 = upd c2 x.number (some x.id) := by
        unfold insertIndex
        simp only
        generalize dropReplaced s x = lkz
        rw [hk]
        simp only
        rw [repointBelow_fst s.store s.canon (k + 1) x.parent k _ _ c2 ?_ ?_]
        · intro n hn
          rw [dropAbove_fst _ _ _ _ _ _ (fun _ _ => rfl), delCanonAbove_below _ _ _ _ (by omega)]
        · rw [dropAbove_fst _ _ _ _ _ _ (fun _ _ => rfl)]
          exact hos
      obtain ⟨l, R', c, hpath, hc, hR', _, hnew⟩ := idxC_switch W hI hxs hpar hF hk hos
      rw [hcanon, hfst]
      -- the walk below stopped at once: the parent is indexed
      have hlR : (x :: l) ++ R' = x :: R := by
        have h1 : Path s.store x ((x :: l) ++ R') s.genesis := hnew.path
        have h2 : Path s.store x (x :: R) s.genesis := .cons hpar hR
        exact (h1.det h2 rfl).1
      rw [hlR] at hnew
      exact hnew
  · intro t
    rw [hlookup]
    exact insertIndex_snd W hI hpar hsplit hO hR hF t

/-! ### one iteration of the re-insertion loop of `reorg`, and the whole loop -/

/-- the fields `insert` and the lookup write do not touch -/
theorem reorgStep_fields (x : Blk) (s : St) :
    (reorgStep x s).store = s.store ∧ (reorgStep x s).genesis = s.genesis ∧ (reorgStep x s).td = s.td ∧
    (reorgStep x s).head = x.id := by
  simp [reorgStep, insertHead]

/-- one iteration for a stored block whose parent is indexed: either the block is indexed already (a chain that is
    ahead of the block head: only the block head moves) or the index switches to its chain -/
theorem idxL_step {U : Map Blk} (W : World U) {s : St} {hh : Blk} {HC : List Blk} (h : IdxL U s hh HC)
    {x p : Blk} (hxs : s.store x.id = some x) (hpar : parentOf s.store x = some p) (hp : p ∈ HC ++ [s.genesis]) :
    (x ∈ HC ++ [s.genesis] → IdxL U (reorgStep x s) hh HC ∧ (reorgStep x s).fhead = s.fhead) ∧
    (x ∉ HC ++ [s.genesis] → ∃ O R, HC = O ++ R ∧ Path s.store p R s.genesis ∧
      IdxL U (reorgStep x s) x (x :: R) ∧ (reorgStep x s).fhead = x.id) := by
  have hids := h.idx.storeIds W
  have hhU : U hh.id = some hh := h.idx.sub _ _ h.idx.headStored
  have hxU : U x.id = some x := h.idx.sub _ _ hxs
  constructor
  · intro hx
    have hc : s.canon x.number = some x.id := (h.idx.canon_iff_mem W hxs).mpr hx
    have hst : reorgStep x s = { s with head := x.id, lookup := writeLookups s.lookup x } := by
      unfold reorgStep; rw [insertHead_same hc]
    rw [hst]
    refine ⟨⟨h.idx, h.hhead, ?_, h.genTxs⟩, rfl⟩
    intro t l
    show writeLookups s.lookup x t = some l ↔ _
    rw [lkOf_rewrite W h.lookup hhU (h.idx.path.mono h.idx.sub) h.genTxs hx t]
    exact h.lookup t l
  · intro hx
    have hnc : s.canon x.number ≠ some x.id := fun hc => hx ((h.idx.canon_iff_mem W hxs).mp hc)
    obtain ⟨O, R, hsplit, hO, hR, hnew, hlk, hhh, hfh⟩ := insert_moves W h.idx h.fuel hxs hpar hp hnc
    have hxR : Path s.store x (x :: R) s.genesis := .cons hpar hR
    have hnd : x.txs.Nodup := W.txs_nodup hxU (hxR.mono h.idx.sub) (by simp)
    refine ⟨O, R, hsplit, hR, ⟨?_, ?_, ?_, ?_⟩, ?_⟩
    · exact hnew
    · exact hhh
    · apply lkOf_switch W (lk := s.lookup) (O := O) (hh := hh) (p := p) ?_ h.genTxs hhU ?_ hxU (hxR.mono h.idx.sub)
      · intro j t hj
        show writeLookups (insertHead s x).lookup x t = _
        exact writeLookups_mem _ _ _ _ hnd hj
      · intro t ht
        show writeLookups (insertHead s x).lookup x t = _
        rw [writeLookups_not_mem _ _ _ ht]
        exact hlk t
      · rw [← hsplit]; exact h.lookup
      · rw [← hsplit]; exact h.idx.path.mono h.idx.sub
    · exact h.genTxs
    · exact hfh

/-- `WriteBlockWithState` writes the lookups of the block first and then calls `insert`: same result -/
theorem idxL_insert_after_write {U : Map Blk} (W : World U) {s : St} {hh : Blk} {HC : List Blk} (h : IdxL U s hh HC)
    {x p : Blk} (hxs : s.store x.id = some x) (hpar : parentOf s.store x = some p) (hp : p ∈ HC ++ [s.genesis]) :
    let s1 : St := { s with lookup := writeLookups s.lookup x }
    (x ∈ HC ++ [s.genesis] → IdxL U (insertHead s1 x) hh HC ∧ (insertHead s1 x).fhead = s.fhead) ∧
    (x ∉ HC ++ [s.genesis] → ∃ O R, HC = O ++ R ∧ Path s.store p R s.genesis ∧
      IdxL U (insertHead s1 x) x (x :: R) ∧ (insertHead s1 x).fhead = x.id) := by
  intro s1
  have hids := h.idx.storeIds W
  have hhU : U hh.id = some hh := h.idx.sub _ _ h.idx.headStored
  have hxU : U x.id = some x := h.idx.sub _ _ hxs
  have hI1 : IdxC U s1.store s1.genesis s1.canon hh HC := h.idx
  constructor
  · intro hx
    have hc : s1.canon x.number = some x.id := (h.idx.canon_iff_mem W hxs).mpr hx
    rw [insertHead_same hc]
    refine ⟨⟨h.idx, h.hhead, ?_, h.genTxs⟩, rfl⟩
    intro t l
    show writeLookups s.lookup x t = some l ↔ _
    rw [lkOf_rewrite W h.lookup hhU (h.idx.path.mono h.idx.sub) h.genTxs hx t]
    exact h.lookup t l
  · intro hx
    have hnc : s1.canon x.number ≠ some x.id := fun hc => hx ((h.idx.canon_iff_mem W hxs).mp hc)
    have hF1 : hh.number ≤ indexFuel s1 := h.fuel
    obtain ⟨O, R, hsplit, hO, hR, hnew, hlk, hhh, hfh⟩ := insert_moves W hI1 hF1 hxs hpar hp hnc
    have hxR : Path s.store x (x :: R) s.genesis := .cons hpar hR
    have hnd : x.txs.Nodup := W.txs_nodup hxU (hxR.mono h.idx.sub) (by simp)
    have hOnum := hO.mem_number
    refine ⟨O, R, hsplit, hR, ⟨hnew, hhh, ?_, h.genTxs⟩, hfh⟩
    apply lkOf_switch W (lk := s.lookup) (O := O) (hh := hh) (p := p) ?_ h.genTxs hhU ?_ hxU (hxR.mono h.idx.sub)
    · intro j t hj
      rw [hlk t]
      show (match writeLookups s.lookup x t with
        | some l => if ∃ o ∈ O, o.id = l.blk ∧ t ∈ o.txs then none else some l
        | none => none) = _
      rw [writeLookups_mem _ _ _ _ hnd hj]
      simp only
      rw [if_neg]
      rintro ⟨o, ho, hoi, _⟩
      -- a displaced block with the hash of `x` would be `x`, which is not indexed
      have hom : o ∈ HC ++ [s.genesis] := by rw [hsplit]; simp [ho]
      have hos := h.idx.chainStored W o hom
      rw [hoi, hxs] at hos
      cases hos
      exact hx hom
    · intro t ht
      rw [hlk t]
      show (match writeLookups s.lookup x t with
        | some l => if ∃ o ∈ O, o.id = l.blk ∧ t ∈ o.txs then none else some l
        | none => none) = _
      rw [writeLookups_not_mem _ _ _ ht]
    · rw [← hsplit]; exact h.lookup
    · rw [← hsplit]; exact h.idx.path.mono h.idx.sub

/-- The re-insertion loop of `reorg` over the blocks `N` (newest first) that lead from `x` down to an indexed block `c`:
    if `x` is indexed already nothing but the block head moves; otherwise index and lookups are those of the chain of `x`
    afterwards and header head and fast head point at `x`. -/
theorem idxL_fold {U : Map Blk} (W : World U) {s : St} {hh : Blk} {HC : List Blk} (h : IdxL U s hh HC) :
    ∀ (N : List Blk) (x c : Blk), s.store x.id = some x → Path s.store x N c → c ∈ HC ++ [s.genesis] →
      (N.foldr reorgStep s).store = s.store ∧ (N.foldr reorgStep s).genesis = s.genesis ∧
      (x ∈ HC ++ [s.genesis] → IdxL U (N.foldr reorgStep s) hh HC ∧ (N.foldr reorgStep s).fhead = s.fhead) ∧
      (x ∉ HC ++ [s.genesis] → ∃ O R, HC = O ++ R ∧ Path s.store c R s.genesis ∧
        IdxL U (N.foldr reorgStep s) x (N ++ R) ∧ (N.foldr reorgStep s).fhead = x.id) := by
  intro N
  induction N with
  | nil =>
    intro x c _ hp hc
    cases hp
    exact ⟨rfl, rfl, fun _ => ⟨h, rfl⟩, fun hx => absurd hc hx⟩
  | cons a N ih =>
    intro x c hxs hp hc
    obtain ⟨p, hxa, hpar, hrest⟩ : ∃ p, x = a ∧ parentOf s.store x = some p ∧ Path s.store p N c := by
      cases hp with
      | cons hpar hrest => exact ⟨_, rfl, hpar, hrest⟩
    subst hxa
    obtain ⟨hps, hpn⟩ := parentOf_some hpar
    have hids := h.idx.storeIds W
    have hpid : p.id = x.parent := hids _ _ hps
    obtain ⟨hst, hgen, ih1, ih2⟩ := ih p c (by rw [hpid]; exact hps) hrest hc
    have hfields := reorgStep_fields x (N.foldr reorgStep s)
    have hxs' : (N.foldr reorgStep s).store x.id = some x := by rw [hst]; exact hxs
    have hpar' : parentOf (N.foldr reorgStep s).store x = some p := by rw [hst]; exact hpar
    refine ⟨by rw [List.foldr_cons, hfields.1, hst], by rw [List.foldr_cons, hfields.2.1, hgen], ?_, ?_⟩
    · -- `x` is indexed, hence so is its parent
      intro hx
      have hpm : p ∈ HC ++ [s.genesis] := h.idx.parent_mem hx hpar
      obtain ⟨hI', hf'⟩ := ih1 hpm
      have := (idxL_step W hI' hxs' hpar' (by rw [hgen]; exact hpm)).1 (by rw [hgen]; exact hx)
      rw [List.foldr_cons]
      exact ⟨this.1, by rw [this.2, hf']⟩
    · intro hx
      rw [List.foldr_cons]
      by_cases hpm : p ∈ HC ++ [s.genesis]
      · -- the switch happens at `x`
        obtain ⟨hI', hf'⟩ := ih1 hpm
        obtain ⟨O, R, hsplit, hR, hnew, hfh⟩ :=
          (idxL_step W hI' hxs' hpar' (by rw [hgen]; exact hpm)).2 (by rw [hgen]; exact hx)
        rw [hst, hgen] at hR
        obtain ⟨Oc, Rc, hsplitc, hOc, hRc⟩ := h.idx.splitAt hc
        have hRR : R = N ++ Rc := ((hR.det (hrest.append hRc) rfl).1)
        refine ⟨Oc, Rc, hsplitc, hRc, ?_, hfh⟩
        rw [hRR] at hnew
        exact hnew
      · -- the switch happened below: `p` is the header head by now
        obtain ⟨O, R, hsplit, hR, hI', hf'⟩ := ih2 hpm
        have hpm' : p ∈ (N ++ R) ++ [(N.foldr reorgStep s).genesis] := hI'.idx.headMem
        have hxnot : x ∉ (N ++ R) ++ [(N.foldr reorgStep s).genesis] := by
          intro hxm
          have := hI'.idx.chainNumber x hxm
          omega
        obtain ⟨O', R', hsplit', hR', hnew, hfh⟩ := (idxL_step W hI' hxs' hpar' hpm').2 hxnot
        have hRR : R' = N ++ R := by
          have h1 : Path (N.foldr reorgStep s).store p (N ++ R) (N.foldr reorgStep s).genesis := hI'.idx.path
          exact ((hR'.det h1 rfl).1)
        refine ⟨O, R, hsplit, hR, ?_, hfh⟩
        rw [hRR] at hnew
        exact hnew

/-! ### the invariant without the block head, and with a block head that may lag -/

/-- The database read against the header head `hh` and its ancestry `HC`; nothing is said about the block head. -/
structure InvK (U : Map Blk) (s : St) (hh : Blk) (HC : List Blk) : Prop where
  il : IdxL U s hh HC
  canonSeen : ∀ x ∈ HC ++ [s.genesis], s.seen x.id = true
  seenClosed : ∀ k x, s.seen k = true → U k = some x → x.number ≠ 0 → s.seen x.parent = true
  stateSeen : ∀ k, s.hasState k = true → s.seen k = true
  diskState : ∀ k, s.onDisk k = true → s.hasState k = true
  seenRcpt : ∀ k, s.seen k = true → s.receipts k = true
  tdIntr : ∀ k t, s.td k = some t →
    ∃ x l, U k = some x ∧ Path U x l s.genesis ∧ t = s.genesis.diff + diffSum l
  storeTd : ∀ k x, s.store k = some x → (s.td k).isSome = true
  genState : s.onDisk s.genesis.id = true

/-- The invariant of a chain fed by full imports whose block head may lag behind the header head (`SetHead` onto a block
    whose state is gone falls back to a block with state): number index and lookups describe the chain of the HEADER
    head; block head and fast head are blocks of that chain; the state of the block head is available.  With all three
    heads equal this is `InvC`. -/
structure GInvC (U : Map Blk) (s : St) (hh : Blk) (HC : List Blk) : Prop where
  k : InvK U s hh HC
  headOn : ∃ cb ∈ HC ++ [s.genesis], s.head = cb.id
  fheadOn : ∃ fb ∈ HC ++ [s.genesis], s.fhead = fb.id
  headState : s.hasState s.head = true

def GInv (U : Map Blk) (s : St) : Prop := ∃ hh HC, GInvC U s hh HC

theorem InvC.toG {U : Map Blk} (W : World U) {s : St} {hb : Blk} {C : List Blk} (h : InvC U s hb C) : GInvC U s hb C := by
  have hid := h.headId W
  have hmem : hb ∈ C ++ [s.genesis] := by
    rcases h.path.head_eq with ⟨h1, h2⟩ | ⟨l', h1⟩
    · rw [h2]; simp
    · rw [h1]; simp
  exact
    { k :=
        { il :=
            { idx := { sub := h.sub, headStored := by rw [hid]; exact h.headStored, path := h.path, canon := h.canon,
                       genNum := h.genNum }
              hhead := by rw [h.hheadEq, hid]
              lookup := h.lookup
              genTxs := h.genTxs }
          canonSeen := h.canonSeen, seenClosed := h.seenClosed, stateSeen := h.stateSeen, diskState := h.diskState,
          seenRcpt := h.seenRcpt, tdIntr := h.tdIntr, storeTd := h.storeTd, genState := h.genState }
      headOn := ⟨hb, hmem, hid.symm⟩
      fheadOn := ⟨hb, hmem, by rw [h.fheadEq, hid]⟩
      headState := h.headState }

theorem GInvC.toC {U : Map Blk} {s : St} {hh : Blk} {HC : List Blk} (h : GInvC U s hh HC)
    (h1 : s.hhead = s.head) (h2 : s.fhead = s.head) : InvC U s hh HC :=
  { sub := h.k.il.idx.sub
    headStored := by rw [← h1, h.k.il.hhead]; exact h.k.il.idx.headStored
    path := h.k.il.idx.path
    canon := h.k.il.idx.canon
    lookup := h.k.il.lookup
    canonSeen := h.k.canonSeen, seenClosed := h.k.seenClosed, stateSeen := h.k.stateSeen, diskState := h.k.diskState
    seenRcpt := h.k.seenRcpt, tdIntr := h.k.tdIntr, storeTd := h.k.storeTd, hheadEq := h1, fheadEq := h2
    genNum := h.k.il.idx.genNum, genTxs := h.k.il.genTxs, genState := h.k.genState, headState := h.headState }

theorem inv_toG {U : Map Blk} (W : World U) {s : St} (h : Inv U s) : GInv U s := by
  obtain ⟨hb, C, h⟩ := h
  exact ⟨hb, C, h.toG W⟩

/-- the block head is a stored block of the chain of the header head -/
theorem GInvC.headStored {U : Map Blk} (W : World U) {s : St} {hh : Blk} {HC : List Blk} (h : GInvC U s hh HC) :
    ∃ cb ∈ HC ++ [s.genesis], s.head = cb.id ∧ s.store s.head = some cb := by
  obtain ⟨cb, hcb, hid⟩ := h.headOn
  exact ⟨cb, hcb, hid, by rw [hid]; exact h.k.il.idx.chainStored W cb hcb⟩

/-! ### total-difficulty records that are intrinsic -/

section td
variable {U : Map Blk} {g : Blk} {td : Map Nat}

/-- the record of a block is the record of its parent plus its own difficulty -/
theorem td_child_eq (W : World U)
    (hI : ∀ k t, td k = some t → ∃ x l, U k = some x ∧ Path U x l g ∧ t = g.diff + diffSum l)
    {x p : Blk} {tx tp : Nat} (hx : U x.id = some x) (hpar : parentOf U x = some p)
    (htx : td x.id = some tx) (htp : td p.id = some tp) : tx = tp + x.diff := by
  obtain ⟨x', lx, hx', hpx, htx'⟩ := hI _ _ htx
  obtain ⟨p', lp, hp', hpp, htp'⟩ := hI _ _ htp
  rw [hx] at hx'; cases hx'
  have hpU := (parentOf_some hpar).1
  have hpid := W.ids _ _ hpU
  rw [hpid, hpU] at hp'; cases hp'
  have := (Path.cons hpar hpp).det hpx rfl
  rw [← this.1] at htx'
  rw [htx', htp', diffSum_cons]
  omega

/-- a proper ancestor is strictly lighter -/
theorem td_lt_of_path (W : World U)
    (hI : ∀ k t, td k = some t → ∃ x l, U k = some x ∧ Path U x l g ∧ t = g.diff + diffSum l)
    {y x : Blk} {l : List Blk} {ty tx : Nat} (hyU : U y.id = some y) (hxU : U x.id = some x) (hp : Path U y l x)
    (hne : l ≠ []) (hty : td y.id = some ty) (htx : td x.id = some tx) : tx < ty := by
  obtain ⟨y', ly, hy', hpy, hty'⟩ := hI _ _ hty
  obtain ⟨x', lx, hx', hpx, htx'⟩ := hI _ _ htx
  rw [hyU] at hy'; cases hy'
  rw [hxU] at hx'; cases hx'
  have := (hp.append hpx).det hpy rfl
  rw [← this.1] at hty'
  have hpos := diffSum_pos W hp hne hyU
  rw [hty', htx', diffSum_append]
  omega

end td

/-- the fully validated set is closed under stored ancestry -/
theorem seen_along {U : Map Blk} (W : World U) {store : Map Blk} {seen : Nat → Bool} (hsub : StoreExt store U)
    (hclosed : ∀ k x, seen k = true → U k = some x → x.number ≠ 0 → seen x.parent = true)
    {q c : Blk} {l : List Blk} (hp : Path store q l c) (hs : seen q.id = true) (hqU : U q.id = some q) :
    ∀ x ∈ l, seen x.id = true := by
  induction hp with
  | nil x => intro x hx; cases hx
  | cons hpar hrest ih =>
    rename_i x q' l' y
    intro z hz
    rcases List.mem_cons.mp hz with rfl | hz
    · exact hs
    · have hq := (parentOf_some hpar)
      have hqU' := hsub _ _ hq.1
      have hqid := W.ids _ _ hqU'
      have := hclosed _ _ hs hqU (by omega)
      exact ih (by rw [hqid]; exact this) (by rw [hqid]; exact hqU') z hz

/-- a parent walk that starts on the chain, in any extension of the store, is a walk along the chain -/
theorem IdxC.path_from_mem {U H : Map Blk} {g : Blk} {canon : Map Nat} {hh : Blk} {HC : List Blk}
    (h : IdxC U H g canon hh HC) {x : Blk} (hx : x ∈ HC ++ [g]) {store' : Map Blk} (hext : StoreExt H store')
    {l : List Blk} {o : Blk} (hp : Path store' x l o) : Path H x l o ∧ o ∈ HC ++ [g] := by
  obtain ⟨Ox, Rx, hsplit, hOx, hRx⟩ := h.splitAt hx
  have hn := hp.number
  obtain ⟨l1, l2, z, hl, hp1, hp2, hz⟩ := hRx.split o.number (by rw [h.genNum]; omega) (by omega)
  have := hp.det (hp1.mono hext) hz.symm
  rw [this.1, this.2]
  refine ⟨hp1, ?_⟩
  rw [hsplit, hl]
  rcases hp2.head_eq with ⟨h1, h2⟩ | ⟨l'', h1⟩
  · rw [h2]; simp
  · rw [h1]; simp

/-! ### `insert` of a block whose parent need not be indexed (headers imported on the same chain) -/

theorem overwriteStale_mono {st st' : Map Blk} (he : StoreExt st st') : ∀ (f : Nat) (c : Map Nat) (hh hn : Nat)
    (c2 : Map Nat), overwriteStale st f c hh hn = (c2, true) → overwriteStale st' f c hh hn = (c2, true) := by
  intro f
  induction f with
  | zero => intro c hh hn c2 h; simp [overwriteStale] at h
  | succ f ih =>
    intro c hh hn c2 h
    unfold overwriteStale at h ⊢
    by_cases hc : c hn = some hh
    · rw [if_pos hc] at h ⊢; exact h
    · rw [if_neg hc] at h ⊢
      simp only at h ⊢
      cases hx : st hh with
      | none => rw [hx] at h; cases h
      | some x =>
        rw [hx] at h
        rw [he _ _ hx]
        simp only at h ⊢
        by_cases hxn : x.number ≠ hn
        · rw [if_pos hxn] at h; cases h
        · rw [if_neg hxn] at h ⊢
          cases hn with
          | zero => cases h
          | succ k =>
            simp only at h ⊢
            exact ih _ _ _ _ h

/-- `insert` of a stored block `x` that the index does not hold, its whole ancestry being stored; the index (over any
    header store `H` that contains the blocks) is the ancestry of `x` afterwards, whatever chain it described before -/
theorem insert_index {U H : Map Blk} (W : World U) {t : St} (hext : StoreExt t.store H) {hh : Blk} {HC : List Blk}
    (hI : IdxC U H t.genesis t.canon hh HC) (hF : hh.number ≤ indexFuel t)
    {x p : Blk} {lp : List Blk} (hxs : t.store x.id = some x) (hpar : parentOf t.store x = some p)
    (hlp : Path t.store p lp t.genesis) (hnc : t.canon x.number ≠ some x.id) :
    ∃ HC', IdxC U H t.genesis (insertHead t x).canon x HC' ∧ (insertHead t x).hhead = x.id := by
  obtain ⟨hps, hpn⟩ := parentOf_some hpar
  have hids : ∀ k y, t.store k = some y → y.id = k := fun k y hy => W.ids _ _ (hI.sub _ _ (hext _ _ hy))
  have hpid : p.id = x.parent := hids _ _ hps
  have hmoves : (t.canon x.number != some x.id) = true := by simp [hnc]
  have hcanon : (insertHead t x).canon = (insertIndex t x).1 := by simp [insertHead, hmoves]
  obtain ⟨k, hk⟩ : ∃ k, x.number = k + 1 := ⟨p.number, by omega⟩
  have hpk : p.number = k := by omega
  have hc0 : delCanonAbove t.canon (indexFuel t + 1) (k + 1 + 1) 0 = some t.genesis.id := by
    rw [delCanonAbove_below _ _ _ _ (by omega)]
    exact (hI.canon _ _).mpr ⟨t.genesis, by simp, hI.genNum, rfl⟩
  have hflag := overwriteStale_closed hids hI.genNum lp p (delCanonAbove t.canon (indexFuel t + 1) (k + 1 + 1)) (k + 1) hlp
    (by rw [hpid]; exact hps) hc0 (by omega)
  rw [hpid, hpk] at hflag
  cases hos : overwriteStale t.store (k + 1) (delCanonAbove t.canon (indexFuel t + 1) (k + 1 + 1)) x.parent k with
  | mk c2 okb =>
    rw [hos] at hflag
    simp only at hflag
    subst hflag
    have hfst : (insertIndex t x).1 = upd c2 x.number (some x.id) := by
      unfold insertIndex
      simp only
      generalize dropReplaced t x = lkz
      rw [hk]
      simp only
      rw [repointBelow_fst t.store t.canon (k + 1) x.parent k _ _ c2 ?_ ?_]
      · intro n hn
        rw [dropAbove_fst _ _ _ _ _ _ (fun _ _ => rfl), delCanonAbove_below _ _ _ _ (by omega)]
      · rw [dropAbove_fst _ _ _ _ _ _ (fun _ _ => rfl)]
        exact hos
    obtain ⟨l, R', c, _, _, _, _, hnew⟩ :=
      idxC_switch W hI (hext _ _ hxs) (parentOf_mono hext hpar) hF hk (overwriteStale_mono hext _ _ _ _ _ hos)
    refine ⟨(x :: l) ++ R', ?_, by simp [insertHead, hmoves]⟩
    rw [hcanon, hfst]
    exact hnew

end Aqv.Chain

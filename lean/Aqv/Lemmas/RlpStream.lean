/-
  Lemmas about the Go-shaped Stream machine (Aqv.Model.RlpStream): machine invariants (`Ready`: limited, budget =
  unread input, innermost extent within its size and within the budget), what each operation does on a ready state,
  and the simulation of the strict item decoder `decItem`/`decList` of Aqv.Model.Rlp by `decodeInterface`/`sliceElems`.
-/
import Aqv.Lemmas.RlpTypedPrim
import Aqv.Model.RlpStream
namespace Aqv.RlpStream
open Aqv Aqv.Rlp

/-- bytes the next value may use: the rest of the innermost list extent, or the input budget at top level. -/
def avail (s : St) : Nat :=
  match s.stack with
  | (p, z) :: _ => z - p
  | [] => s.remaining

/-- advance the innermost list position. -/
def bump (k : Nat) : List (Nat × Nat) → List (Nat × Nat)
  | (p, z) :: tl => (p + k, z) :: tl
  | [] => []

/-- the window the next value is decoded from. -/
def win (s : St) : Bytes := s.inp.take (avail s)

/-- machine invariant between operations: the stream is limited, the budget is exactly the unread input, and the
    innermost extent is consistent (`pos ≤ size`) and fits the budget. -/
structure Ready (s : St) : Prop where
  lim : s.limited = true
  rem : s.remaining = s.inp.length
  top : ∀ p z tl, s.stack = (p, z) :: tl → p ≤ z ∧ z - p ≤ s.remaining

/-- `s'` is `s` after consuming `k` bytes inside the current extent (cache fields aside). -/
structure Step (s : St) (k : Nat) (s' : St) : Prop where
  inp : s'.inp = s.inp.drop k
  rem : s'.remaining = s.remaining - k
  lim : s'.limited = s.limited
  stack : s'.stack = bump k s.stack

theorem avail_le (s : St) (h : Ready s) : avail s ≤ s.inp.length := by
  unfold avail
  split
  · rename_i p z tl hs
    have := (h.top p z tl hs).2
    rw [h.rem] at this; exact this
  · rw [h.rem]; exact Nat.le_refl _

theorem win_length (s : St) (h : Ready s) : (win s).length = avail s := by
  unfold win
  rw [List.length_take]
  exact Nat.min_eq_left (avail_le s h)

theorem step_ready {s s' : St} {k : Nat} (h : Ready s) (hk : k ≤ avail s) (st : Step s k s') : Ready s' := by
  have ha := avail_le s h
  constructor
  · rw [st.lim, h.lim]
  · rw [st.rem, st.inp, h.rem, List.length_drop]
  · intro p z tl hs
    rw [st.stack] at hs
    rw [st.rem]
    cases hst : s.stack with
    | nil => rw [hst] at hs; simp [bump] at hs
    | cons a tl' =>
      obtain ⟨p0, z0⟩ := a
      rw [hst] at hs
      simp only [bump, List.cons.injEq, Prod.mk.injEq] at hs
      obtain ⟨⟨hp, hz⟩, _⟩ := hs
      have := h.top p0 z0 tl' hst
      simp only [avail, hst] at hk
      omega

theorem step_avail {s s' : St} {k : Nat} (st : Step s k s') : avail s' = avail s - k := by
  unfold avail
  rw [st.stack, st.rem]
  cases s.stack with
  | nil => simp [bump]
  | cons a tl => obtain ⟨p, z⟩ := a; simp only [bump]; omega

theorem step_win {s s' : St} {k : Nat} (st : Step s k s') : win s' = (win s).drop k := by
  unfold win
  rw [step_avail st, st.inp, List.drop_take]

theorem step_refl (s : St) : Step s 0 s := ⟨by simp, by simp, rfl, by cases s.stack <;> simp [bump]⟩

theorem bump_bump (a b : Nat) (st : List (Nat × Nat)) : bump b (bump a st) = bump (a + b) st := by
  cases st with
  | nil => rfl
  | cons x tl => obtain ⟨p, z⟩ := x; simp [bump, Nat.add_assoc]

theorem step_trans {s s1 s2 : St} {a b : Nat} (h1 : Step s a s1) (h2 : Step s1 b s2) : Step s (a + b) s2 := by
  constructor
  · rw [h2.inp, h1.inp, List.drop_drop]
  · rw [h2.rem, h1.rem]; omega
  · rw [h2.lim, h1.lim]
  · rw [h2.stack, h1.stack, bump_bump]

/-! ### willRead / readByte / readFull on a ready state -/

theorem willRead_ok (n : Nat) (s : St) (h : Ready s) (hn : n ≤ avail s) :
    willRead n s = (.ok (), { s with kind := none, stack := bump n s.stack, remaining := s.remaining - n }) := by
  have hl := h.lim
  unfold willRead
  cases hst : s.stack with
  | nil =>
    simp only [avail, hst] at hn
    simp [hl, bump, Nat.not_lt.mpr hn]
  | cons a tl =>
    obtain ⟨p, z⟩ := a
    have ht := h.top p z tl hst
    simp only [avail, hst] at hn
    have h1 : ¬ n > z - p := by omega
    have h2 : ¬ n > s.remaining := by omega
    simp [hl, bump, h1, h2]

theorem willRead_err (n : Nat) (s : St) (h : Ready s) (hn : avail s < n) :
    ∃ e s', willRead n s = (.error e, s') ∧ (e = .elemTooLarge ∨ e = .valueTooLarge) ∧ s'.alloc = s.alloc ∧
      (s.stack ≠ [] → e = .elemTooLarge) := by
  have hl := h.lim
  unfold willRead
  cases hst : s.stack with
  | nil =>
    simp only [avail, hst] at hn
    exact ⟨.valueTooLarge, { s with kind := none }, by simp [hst, hl, hn], Or.inr rfl, rfl, by simp⟩
  | cons a tl =>
    obtain ⟨p, z⟩ := a
    simp only [avail, hst] at hn
    exact ⟨.elemTooLarge, { s with kind := none }, by simp [hst, hn], Or.inl rfl, rfl, by simp⟩

/-- the state after `k` bytes were read by `willRead`+reader (cache re-armed). -/
def after (k : Nat) (s : St) : St :=
  { s with kind := none, stack := bump k s.stack, remaining := s.remaining - k, inp := s.inp.drop k }

theorem after_step (k : Nat) (s : St) : Step s k (after k s) := ⟨rfl, rfl, rfl, rfl⟩

theorem readFull_ok (n : Nat) (s : St) (h : Ready s) (hn : n ≤ avail s) :
    readFull n s = (.ok (s.inp.take n), after n s) := by
  have ha := avail_le s h
  unfold readFull
  rw [willRead_ok n s h hn]
  have : ¬ s.inp.length < n := by omega
  simp [this, after]

theorem readFull_err (n : Nat) (s : St) (h : Ready s) (hn : avail s < n) :
    ∃ e s', readFull n s = (.error e, s') ∧ (e = .elemTooLarge ∨ e = .valueTooLarge) ∧ s'.alloc = s.alloc ∧
      (s.stack ≠ [] → e = .elemTooLarge) := by
  obtain ⟨e, s', hw, he, ha, hs⟩ := willRead_err n s h hn
  exact ⟨e, s', by unfold readFull; rw [hw], he, ha, hs⟩

theorem readByte_ok (s : St) (h : Ready s) (hn : 1 ≤ avail s) (b : UInt8) (r : Bytes) (hi : s.inp = b :: r) :
    readByte s = (.ok b, after 1 s) := by
  unfold readByte
  rw [willRead_ok 1 s h hn]
  simp [hi, after]

theorem readByte_err (s : St) (h : Ready s) (hn : avail s = 0) :
    ∃ e s', readByte s = (.error e, s') ∧ (e = .elemTooLarge ∨ e = .valueTooLarge) ∧ s'.alloc = s.alloc ∧
      (s.stack ≠ [] → e = .elemTooLarge) ∧ s'.stack = s.stack := by
  have hl := h.lim
  unfold readByte willRead
  cases hst : s.stack with
  | nil =>
    simp only [avail, hst] at hn
    exact ⟨.valueTooLarge, { s with kind := none }, by simp [hst, hl, hn], Or.inr rfl, rfl, by simp, by simp [hst]⟩
  | cons a tl =>
    obtain ⟨p, z⟩ := a
    simp only [avail, hst] at hn
    exact ⟨.elemTooLarge, { s with kind := none }, by simp [hst, hn], Or.inl rfl, rfl, by simp, by simp [hst]⟩

/-! ### readUint for a long-form size of `ll ≥ 1` bytes -/

/-- value read by the machine = value read by `readSize` (before its `< 56` test), or both fail. -/
theorem readUint_spec (ll : Nat) (hll : 1 ≤ ll) (s : St) (h : Ready s) :
    (avail s < ll → ∃ e s', readUint ll s = (.error e, s') ∧ e ≠ .eol ∧ e ≠ .eof ∧ e ≠ .fuel ∧ s'.alloc = s.alloc) ∧
    (ll ≤ avail s →
      match s.inp.take ll with
      | [] => False
      | b0 :: t =>
        if 2 ≤ ll ∧ b0 = 0 then ∃ s', readUint ll s = (.error .canonSize, s') ∧ s'.alloc = s.alloc
        else readUint ll s = (.ok (beNat (b0 :: t)), after ll s)) := by
  have ha := avail_le s h
  constructor
  · intro hlt
    match ll, hll with
    | 1, _ =>
      obtain ⟨e, s', hr, he, hal, _⟩ := readByte_err s h (by omega)
      refine ⟨e, s', by simp only [readUint, hr], ?_, ?_, ?_, hal⟩ <;> rcases he with rfl | rfl <;> simp
    | n+2, _ =>
      obtain ⟨e, s', hr, he, hal, _⟩ := readFull_err (n+2) s h hlt
      refine ⟨e, s', by simp only [readUint, hr], ?_, ?_, ?_, hal⟩ <;> rcases he with rfl | rfl <;> simp
  · intro hle
    match ll, hll with
    | 1, _ =>
      cases hi : s.inp with
      | nil => rw [hi] at ha; simp at ha; omega
      | cons b r =>
        simp only [List.take_succ_cons, List.take_zero]
        have : ¬ (2 ≤ 1 ∧ b = 0) := by omega
        simp only [this, if_false, readUint, readByte_ok s h hle b r hi]
        simp [beNat]
    | n+2, _ =>
      cases hi : s.inp with
      | nil => rw [hi] at ha; simp at ha; omega
      | cons b r =>
        simp only [List.take_succ_cons]
        have hrf := readFull_ok (n+2) s h hle
        rw [hi, List.take_succ_cons] at hrf
        by_cases hb : b = 0
        · have : 2 ≤ n + 2 ∧ b = 0 := ⟨by omega, hb⟩
          simp only [this, and_self, if_true]
          exact ⟨after (n+2) s, by simp only [readUint, hrf, hb, if_true], rfl⟩
        · have : ¬ (2 ≤ n + 2 ∧ b = 0) := fun hc => hb hc.2
          simp only [readUint, hrf, hb, and_false, if_false]

/-! ### Kind on a re-armed ready state, in terms of `readHead` of the window -/

/-- what `Kind` leaves behind when it succeeds after reading a header of `h` bytes. -/
structure Cached (s : St) (h : Nat) (k : K) (n : Nat) (s' : St) : Prop where
  step : Step s h s'
  kind : s'.kind = some k
  size : s'.size = n
  err : s'.kinderr = none
  alloc : s'.alloc = s.alloc

/-- an error that is neither EOL, io.EOF nor the model's fuel outcome, with the ghost counter unchanged. -/
def HardErr (s : St) (r : R (K × Nat)) : Prop :=
  ∃ e s', r = (.error e, s') ∧ e ≠ .eol ∧ e ≠ .eof ∧ e ≠ .fuel ∧ s'.alloc = s.alloc

theorem cached_ok (s : St) (k : K) (hk : s.kind = some k) (he : s.kinderr = none) : cached s = .ok (k, s.size) := by
  simp [cached, he, hk]

theorem win_cons (s : St) (h : Ready s) (b : UInt8) (r : Bytes) (hi : s.inp = b :: r) (ha : 1 ≤ avail s) :
    win s = b :: r.take (avail s - 1) := by
  unfold win
  rw [hi]
  obtain ⟨a, ha'⟩ : ∃ a, avail s = a + 1 := ⟨avail s - 1, by omega⟩
  rw [ha']; simp

/-- state after the tag byte. -/
def afterTag (s : St) : St := { after 1 s with byteval := 0 }

theorem afterTag_step (s : St) : Step s 1 (afterTag s) := ⟨rfl, rfl, rfl, rfl⟩

theorem kindFresh_err (s : St) (k : K) (sz : Nat) (e : SErr) (t : St) (hrk : readKind s = ((k, sz, some e), t)) :
    kindFresh s = (.error e, { t with kind := some k, size := sz, kinderr := some e }) := by
  simp [kindFresh, hrk, cached]

theorem kindFresh_ok (s : St) (k : K) (sz : Nat) (t : St) (hrk : readKind s = ((k, sz, none), t)) (ht : Ready t)
    (hemp : t.stack.isEmpty = s.stack.isEmpty) :
    (sz ≤ avail t → kindFresh s = (.ok (k, sz), { t with kind := some k, size := sz, kinderr := none })) ∧
    (avail t < sz → ∃ e, kindFresh s = (.error e, { t with kind := some k, size := sz, kinderr := some e }) ∧
      (e = .valueTooLarge ∨ e = .elemTooLarge)) := by
  have hl := ht.lim
  cases hst : t.stack with
  | nil =>
    have hse : s.stack.isEmpty = true := by rw [← hemp, hst]; rfl
    constructor
    · intro hle
      simp only [avail, hst] at hle
      have : ¬ (sz > t.remaining) := by omega
      simp [kindFresh, hrk, hse, hst, hl, this, cached]
    · intro hlt
      simp only [avail, hst] at hlt
      exact ⟨.valueTooLarge, by simp [kindFresh, hrk, hse, hst, hl, hlt, cached], Or.inl rfl⟩
  | cons a tl =>
    obtain ⟨p, z⟩ := a
    have hse : s.stack.isEmpty = false := by rw [← hemp, hst]; rfl
    constructor
    · intro hle
      simp only [avail, hst] at hle
      have : ¬ (sz > z - p) := by omega
      simp [kindFresh, hrk, hse, hst, this, cached]
    · intro hlt
      simp only [avail, hst] at hlt
      exact ⟨.elemTooLarge, by simp [kindFresh, hrk, hse, hst, hlt, cached], Or.inr rfl⟩

set_option maxRecDepth 4000 in
theorem kindFresh_spec (s : St) (h : Ready s) (b : UInt8) (r : Bytes) (hi : s.inp = b :: r) (ha : 1 ≤ avail s) :
    match readHead (win s) with
    | .error _ => HardErr s (kindFresh s)
    | .ok (.byte x rest) =>
      ∃ s', kindFresh s = (.ok (.byte, 0), s') ∧ Cached s 1 .byte 0 s' ∧ s'.byteval = x ∧ rest = win s'
    | .ok (.str n rest) =>
      if rest.length < n then HardErr s (kindFresh s)
      else ∃ s', kindFresh s = (.ok (.string, n), s') ∧ Cached s ((win s).length - rest.length) .string n s' ∧
        rest = win s'
    | .ok (.list n rest) =>
      if rest.length < n then HardErr s (kindFresh s)
      else ∃ s', kindFresh s = (.ok (.list, n), s') ∧ Cached s ((win s).length - rest.length) .list n s' ∧
        rest = win s' := by
  have hw := win_cons s h b r hi ha
  have hrb := readByte_ok s h ha b r hi
  have hs1 : Ready (afterTag s) := step_ready h ha (afterTag_step s)
  have ha1 : avail (afterTag s) = avail s - 1 := step_avail (afterTag_step s)
  have hw1 : win (afterTag s) = r.take (avail s - 1) := by
    rw [step_win (afterTag_step s), hw]; simp
  have hin1 : (afterTag s).inp = r := by simp [afterTag, after, hi]
  rw [hw]
  simp only [readHead]
  by_cases h1 : b < 0x80
  · simp only [h1, if_true]
    refine ⟨{ afterTag s with byteval := b, kind := some .byte, size := 0, kinderr := none }, ?_, ?_, rfl, ?_⟩
    · simp only [kindFresh, readKind, hrb, h1, if_true]
      cases hst : s.stack <;> simp [after, afterTag, bump, cached, hst, h.lim]
    · exact ⟨⟨rfl, rfl, rfl, rfl⟩, rfl, rfl, rfl, rfl⟩
    · rw [← hw1]; rfl
  · simp only [h1, if_false]
    have hcb8 : (184 : UInt8).toNat = 184 := rfl
    have hcf8 : (248 : UInt8).toNat = 248 := rfl
    by_cases h2 : b < 0xB8
    · simp only [h2, if_true]
      have hrk : readKind s = ((.string, b.toNat - 0x80, none), afterTag s) := by
        simp only [readKind, hrb, h1, h2, if_true, if_false]; rfl
      have hk := kindFresh_ok s .string (b.toNat - 0x80) (afterTag s) hrk hs1 (by cases hst : s.stack <;> simp [afterTag, after, bump, hst])
      have hrl : (r.take (avail s - 1)).length = avail (afterTag s) := by rw [← hw1]; exact win_length _ hs1
      simp only [hrl]
      by_cases hlt : avail (afterTag s) < b.toNat - 0x80
      · simp only [hlt, if_true]
        obtain ⟨e, he, hee⟩ := hk.2 hlt
        exact ⟨e, _, he, by rcases hee with rfl | rfl <;> simp, by rcases hee with rfl | rfl <;> simp,
          by rcases hee with rfl | rfl <;> simp, rfl⟩
      · simp only [hlt, if_false]
        refine ⟨_, hk.1 (by omega), ⟨?_, rfl, rfl, rfl, rfl⟩, ?_⟩
        · have : (b :: r.take (avail s - 1)).length - avail (afterTag s) = 1 := by
            simp only [List.length_cons, hrl]; omega
          rw [this]; exact ⟨rfl, rfl, rfl, rfl⟩
        · rw [← hw1]; rfl

    · simp only [h2, if_false]
      by_cases h3 : b < 0xC0
      · simp only [h3, if_true]
        have hll1 : 1 ≤ b.toNat - 0xB7 := by
          have hh2 := h2; rw [u8_lt_iff, hcb8] at hh2; omega
        have hrl : (r.take (avail s - 1)).length = avail (afterTag s) := by rw [← hw1]; exact win_length _ hs1
        have hsp := readUint_spec (b.toNat - 0xB7) hll1 (afterTag s) hs1
        have hkd : readKind s = (match readUint (b.toNat - 0xB7) (afterTag s) with
            | (.ok size, s) => ((K.string, size, if size < 56 then some SErr.canonSize else none), s)
            | (.error e, s) => ((K.string, 0, some e), s)) := by
          simp only [readKind, hrb, h1, h2, h3, if_true, if_false]; rfl
        simp only [readSize, hrl]
        by_cases hlt : avail (afterTag s) < b.toNat - 0xB7
        · simp only [hlt, if_true]
          obtain ⟨e, s', hr, h1', h2', h3', hal⟩ := hsp.1 hlt
          rw [hr] at hkd
          exact ⟨e, _, kindFresh_err s _ _ _ _ hkd, h1', h2', h3', by simp only [hal]; rfl⟩
        · simp only [hlt, if_false]
          have hle : b.toNat - 0xB7 ≤ avail (afterTag s) := by omega
          have htk : (r.take (avail s - 1)).take (b.toNat - 0xB7) = (afterTag s).inp.take (b.toNat - 0xB7) := by
            rw [hin1, List.take_take, Nat.min_eq_left (by rw [ha1] at hle; exact hle)]
          have hs2 := hsp.2 hle
          rw [htk]
          cases hlb : (afterTag s).inp.take (b.toNat - 0xB7) with
          | nil =>
            rw [hlb] at hs2; exact hs2.elim
          | cons b0 t =>
            rw [hlb] at hs2
            simp only at hs2 ⊢
            by_cases hb0 : b0 = 0
            · simp only [hb0, if_true]
              by_cases h2' : 2 ≤ b.toNat - 0xB7
              · simp only [h2', hb0, and_self, if_true] at hs2
                obtain ⟨s', hr, hal⟩ := hs2
                rw [hr] at hkd
                exact ⟨_, _, kindFresh_err s _ _ _ _ hkd, by simp, by simp, by simp, by simp only [hal]; rfl⟩
              · have hn2 : ¬ (2 ≤ b.toNat - 0xB7 ∧ b0 = 0) := fun hc => h2' hc.1
                simp only [hn2, if_false] at hs2
                rw [hs2] at hkd
                have hl1 : b.toNat - 0xB7 = 1 := by omega
                have ht : t = [] := by
                  have := congrArg List.length hlb
                  rw [List.length_take, hl1] at this
                  simp only [List.length_cons] at this
                  cases t with
                  | nil => rfl
                  | cons _ _ => simp at this; omega
                subst ht; subst hb0
                have : beNat [(0 : UInt8)] < 56 := by decide
                simp only [this, if_true] at hkd
                exact ⟨_, _, kindFresh_err s _ _ _ _ hkd, by simp, by simp, by simp, rfl⟩
            · have hn2 : ¬ (2 ≤ b.toNat - 0xB7 ∧ b0 = 0) := fun hc => hb0 hc.2
              simp only [hn2, if_false] at hs2
              rw [hs2] at hkd
              simp only [hb0, if_false]
              by_cases h56 : beNat (b0 :: t) < 56
              · simp only [h56, if_true] at hkd ⊢
                exact ⟨_, _, kindFresh_err s _ _ _ _ hkd, by simp, by simp, by simp, rfl⟩
              · simp only [h56, if_false] at hkd ⊢
                have hst2 : Step (afterTag s) (b.toNat - 0xB7) (after (b.toNat - 0xB7) (afterTag s)) := after_step _ _
                have hs2r : Ready (after (b.toNat - 0xB7) (afterTag s)) := step_ready hs1 hle hst2
                have hav2 : avail (after (b.toNat - 0xB7) (afterTag s)) = avail (afterTag s) - (b.toNat - 0xB7) :=
                  step_avail hst2
                have hk := kindFresh_ok s .string (beNat (b0 :: t)) _ hkd hs2r
                  (by cases hst : s.stack <;> simp [afterTag, after, bump, hst])
                have hdl : ((r.take (avail s - 1)).drop (b.toNat - 0xB7)).length =
                    avail (after (b.toNat - 0xB7) (afterTag s)) := by
                  rw [List.length_drop, hrl, hav2]
                simp only [hdl]
                by_cases hlt2 : avail (after (b.toNat - 0xB7) (afterTag s)) < beNat (b0 :: t)
                · simp only [hlt2, if_true]
                  obtain ⟨e, he, hee⟩ := hk.2 hlt2
                  exact ⟨e, _, he, by rcases hee with rfl | rfl <;> simp, by rcases hee with rfl | rfl <;> simp,
                    by rcases hee with rfl | rfl <;> simp, rfl⟩
                · simp only [hlt2, if_false]
                  refine ⟨_, hk.1 (by omega), ⟨?_, rfl, rfl, rfl, rfl⟩, ?_⟩
                  · have hlen : (b :: r.take (avail s - 1)).length - avail (after (b.toNat - 0xB7) (afterTag s)) =
                        1 + (b.toNat - 0xB7) := by
                      simp only [List.length_cons, hrl, hav2]; omega
                    rw [hlen]
                    have := step_trans (afterTag_step s) hst2
                    exact ⟨this.inp, this.rem, this.lim, this.stack⟩
                  · have : win (after (b.toNat - 0xB7) (afterTag s)) = (r.take (avail s - 1)).drop (b.toNat - 0xB7) := by
                      rw [step_win hst2, hw1]
                    rw [← this]; rfl

      · simp only [h3, if_false]
        by_cases h4 : b < 0xF8
        · simp only [h4, if_true]
          have hrk : readKind s = ((.list, b.toNat - 0xC0, none), afterTag s) := by
            simp only [readKind, hrb, h1, h2, h3, h4, if_true, if_false]; rfl
          have hk := kindFresh_ok s .list (b.toNat - 0xC0) (afterTag s) hrk hs1 (by cases hst : s.stack <;> simp [afterTag, after, bump, hst])
          have hrl : (r.take (avail s - 1)).length = avail (afterTag s) := by rw [← hw1]; exact win_length _ hs1
          simp only [hrl]
          by_cases hlt : avail (afterTag s) < b.toNat - 0xC0
          · simp only [hlt, if_true]
            obtain ⟨e, he, hee⟩ := hk.2 hlt
            exact ⟨e, _, he, by rcases hee with rfl | rfl <;> simp, by rcases hee with rfl | rfl <;> simp,
              by rcases hee with rfl | rfl <;> simp, rfl⟩
          · simp only [hlt, if_false]
            refine ⟨_, hk.1 (by omega), ⟨?_, rfl, rfl, rfl, rfl⟩, ?_⟩
            · have : (b :: r.take (avail s - 1)).length - avail (afterTag s) = 1 := by
                simp only [List.length_cons, hrl]; omega
              rw [this]; exact ⟨rfl, rfl, rfl, rfl⟩
            · rw [← hw1]; rfl

        · simp only [h4, if_false]
          have hll1 : 1 ≤ b.toNat - 0xF7 := by
            have hh4 := h4; rw [u8_lt_iff, hcf8] at hh4; omega
          have hrl : (r.take (avail s - 1)).length = avail (afterTag s) := by rw [← hw1]; exact win_length _ hs1
          have hsp := readUint_spec (b.toNat - 0xF7) hll1 (afterTag s) hs1
          have hkd : readKind s = (match readUint (b.toNat - 0xF7) (afterTag s) with
              | (.ok size, s) => ((K.list, size, if size < 56 then some SErr.canonSize else none), s)
              | (.error e, s) => ((K.list, 0, some e), s)) := by
            simp only [readKind, hrb, h1, h2, h3, h4, if_true, if_false]; rfl
          simp only [readSize, hrl]
          by_cases hlt : avail (afterTag s) < b.toNat - 0xF7
          · simp only [hlt, if_true]
            obtain ⟨e, s', hr, h1', h2', h3', hal⟩ := hsp.1 hlt
            rw [hr] at hkd
            exact ⟨e, _, kindFresh_err s _ _ _ _ hkd, h1', h2', h3', by simp only [hal]; rfl⟩
          · simp only [hlt, if_false]
            have hle : b.toNat - 0xF7 ≤ avail (afterTag s) := by omega
            have htk : (r.take (avail s - 1)).take (b.toNat - 0xF7) = (afterTag s).inp.take (b.toNat - 0xF7) := by
              rw [hin1, List.take_take, Nat.min_eq_left (by rw [ha1] at hle; exact hle)]
            have hs2 := hsp.2 hle
            rw [htk]
            cases hlb : (afterTag s).inp.take (b.toNat - 0xF7) with
            | nil =>
              rw [hlb] at hs2; exact hs2.elim
            | cons b0 t =>
              rw [hlb] at hs2
              simp only at hs2 ⊢
              by_cases hb0 : b0 = 0
              · simp only [hb0, if_true]
                by_cases h2' : 2 ≤ b.toNat - 0xF7
                · simp only [h2', hb0, and_self, if_true] at hs2
                  obtain ⟨s', hr, hal⟩ := hs2
                  rw [hr] at hkd
                  exact ⟨_, _, kindFresh_err s _ _ _ _ hkd, by simp, by simp, by simp, by simp only [hal]; rfl⟩
                · have hn2 : ¬ (2 ≤ b.toNat - 0xF7 ∧ b0 = 0) := fun hc => h2' hc.1
                  simp only [hn2, if_false] at hs2
                  rw [hs2] at hkd
                  have hl1 : b.toNat - 0xF7 = 1 := by omega
                  have ht : t = [] := by
                    have := congrArg List.length hlb
                    rw [List.length_take, hl1] at this
                    simp only [List.length_cons] at this
                    cases t with
                    | nil => rfl
                    | cons _ _ => simp at this; omega
                  subst ht; subst hb0
                  have : beNat [(0 : UInt8)] < 56 := by decide
                  simp only [this, if_true] at hkd
                  exact ⟨_, _, kindFresh_err s _ _ _ _ hkd, by simp, by simp, by simp, rfl⟩
              · have hn2 : ¬ (2 ≤ b.toNat - 0xF7 ∧ b0 = 0) := fun hc => hb0 hc.2
                simp only [hn2, if_false] at hs2
                rw [hs2] at hkd
                simp only [hb0, if_false]
                by_cases h56 : beNat (b0 :: t) < 56
                · simp only [h56, if_true] at hkd ⊢
                  exact ⟨_, _, kindFresh_err s _ _ _ _ hkd, by simp, by simp, by simp, rfl⟩
                · simp only [h56, if_false] at hkd ⊢
                  have hst2 : Step (afterTag s) (b.toNat - 0xF7) (after (b.toNat - 0xF7) (afterTag s)) := after_step _ _
                  have hs2r : Ready (after (b.toNat - 0xF7) (afterTag s)) := step_ready hs1 hle hst2
                  have hav2 : avail (after (b.toNat - 0xF7) (afterTag s)) = avail (afterTag s) - (b.toNat - 0xF7) :=
                    step_avail hst2
                  have hk := kindFresh_ok s .list (beNat (b0 :: t)) _ hkd hs2r
                    (by cases hst : s.stack <;> simp [afterTag, after, bump, hst])
                  have hdl : ((r.take (avail s - 1)).drop (b.toNat - 0xF7)).length =
                      avail (after (b.toNat - 0xF7) (afterTag s)) := by
                    rw [List.length_drop, hrl, hav2]
                  simp only [hdl]
                  by_cases hlt2 : avail (after (b.toNat - 0xF7) (afterTag s)) < beNat (b0 :: t)
                  · simp only [hlt2, if_true]
                    obtain ⟨e, he, hee⟩ := hk.2 hlt2
                    exact ⟨e, _, he, by rcases hee with rfl | rfl <;> simp, by rcases hee with rfl | rfl <;> simp,
                      by rcases hee with rfl | rfl <;> simp, rfl⟩
                  · simp only [hlt2, if_false]
                    refine ⟨_, hk.1 (by omega), ⟨?_, rfl, rfl, rfl, rfl⟩, ?_⟩
                    · have hlen : (b :: r.take (avail s - 1)).length - avail (after (b.toNat - 0xF7) (afterTag s)) =
                          1 + (b.toNat - 0xF7) := by
                        simp only [List.length_cons, hrl, hav2]; omega
                      rw [hlen]
                      have := step_trans (afterTag_step s) hst2
                      exact ⟨this.inp, this.rem, this.lim, this.stack⟩
                    · have : win (after (b.toNat - 0xF7) (afterTag s)) = (r.take (avail s - 1)).drop (b.toNat - 0xF7) := by
                        rw [step_win hst2, hw1]
                      rw [← this]; rfl


/-! ### Kind on a re-armed ready state -/

/-- re-armed state with the sticky error cleared (first statement of the fresh branch of `Kind`). -/
def cleared (s : St) : St := { s with kinderr := none }

theorem cleared_ready (s : St) (h : Ready s) : Ready (cleared s) := ⟨h.lim, h.rem, h.top⟩
theorem cleared_step (s : St) : Step s 0 (cleared s) :=
  ⟨by simp [cleared], by simp [cleared], rfl, by cases hs : s.stack <;> simp [cleared, bump, hs]⟩
theorem cleared_win (s : St) : win (cleared s) = win s := rfl
theorem cleared_avail (s : St) : avail (cleared s) = avail s := rfl

theorem kindOf_cached (s : St) (k : K) (hk : s.kind = some k) (he : s.kinderr = none) :
    kindOf s = (.ok (k, s.size), s) := by
  simp [kindOf, hk, cached, he]

theorem kindOf_eol (s : St) (h : Ready s) (hk : s.kind = none) (hne : s.stack ≠ []) (ha : avail s = 0) :
    kindOf s = (.error .eol, cleared s) := by
  cases hst : s.stack with
  | nil => exact absurd hst hne
  | cons a tl =>
    obtain ⟨p, z⟩ := a
    have := (h.top p z tl hst).1
    simp only [avail, hst] at ha
    have hpz : p = z := by omega
    simp [kindOf, hk, hst, hpz, cleared]

theorem kindOf_fresh (s : St) (h : Ready s) (hk : s.kind = none) (ha : 1 ≤ avail s) :
    kindOf s = kindFresh (cleared s) := by
  cases hst : s.stack with
  | nil => simp [kindOf, hk, hst, cleared]
  | cons a tl =>
    obtain ⟨p, z⟩ := a
    simp only [avail, hst] at ha
    have hpz : ¬ p = z := by omega
    simp [kindOf, hk, hst, hpz, cleared]

theorem kindOf_eof (s : St) (h : Ready s) (hk : s.kind = none) (hst : s.stack = []) (ha : avail s = 0) :
    ∃ s', kindOf s = (.error .eof, s') ∧ s'.alloc = s.alloc := by
  have hl := h.lim
  simp only [avail, hst] at ha
  have h1 : (kindOf s).1 = .error .eof := by
    simp only [kindOf, hk, hst, kindFresh, readKind, readByte, willRead]
    simp [hl, ha, cached, hst]
  have h2 : (kindOf s).2.alloc = s.alloc := by
    simp only [kindOf, hk, hst, kindFresh, readKind, readByte, willRead]
    simp [hl, ha, hst]
  exact ⟨(kindOf s).2, by rw [← h1], h2⟩

theorem cached_of_cleared {s s' : St} {h : Nat} {k : K} {n : Nat} (c : Cached (cleared s) h k n s') : Cached s h k n s' :=
  ⟨⟨c.step.inp, c.step.rem, c.step.lim, c.step.stack⟩, c.kind, c.size, c.err, c.alloc⟩

theorem hardErr_of_cleared {s : St} {r : R (K × Nat)} (c : HardErr (cleared s) r) : HardErr s r := c

set_option maxRecDepth 4000 in
theorem kind_spec (s : St) (h : Ready s) (hk : s.kind = none) (ha : 1 ≤ avail s) :
    match readHead (win s) with
    | .error _ => HardErr s (kindOf s)
    | .ok (.byte x rest) =>
      ∃ s', kindOf s = (.ok (.byte, 0), s') ∧ Cached s 1 .byte 0 s' ∧ s'.byteval = x ∧ rest = win s'
    | .ok (.str n rest) =>
      if rest.length < n then HardErr s (kindOf s)
      else ∃ s', kindOf s = (.ok (.string, n), s') ∧ Cached s ((win s).length - rest.length) .string n s' ∧
        rest = win s'
    | .ok (.list n rest) =>
      if rest.length < n then HardErr s (kindOf s)
      else ∃ s', kindOf s = (.ok (.list, n), s') ∧ Cached s ((win s).length - rest.length) .list n s' ∧
        rest = win s' := by
  have hal := avail_le s h
  cases hi : s.inp with
  | nil => rw [hi] at hal; simp at hal; omega
  | cons b r =>
    have := kindFresh_spec (cleared s) (cleared_ready s h) b r hi ha
    rw [kindOf_fresh s h hk ha]
    rw [cleared_win] at this
    cases hh : readHead (win s) with
    | error e => rw [hh] at this; exact hardErr_of_cleared this
    | ok hd =>
      rw [hh] at this
      cases hd with
      | byte x rest =>
        obtain ⟨s', h1, h2, h3, h4⟩ := this
        exact ⟨s', h1, cached_of_cleared h2, h3, h4⟩
      | str n rest =>
        simp only at this ⊢
        split
        · rename_i hlt; rw [if_pos hlt] at this; exact hardErr_of_cleared this
        · rename_i hlt
          rw [if_neg hlt] at this
          obtain ⟨s', h1, h2, h3⟩ := this
          exact ⟨s', h1, cached_of_cleared h2, h3⟩
      | list n rest =>
        simp only at this ⊢
        split
        · rename_i hlt; rw [if_pos hlt] at this; exact hardErr_of_cleared this
        · rename_i hlt
          rw [if_neg hlt] at this
          obtain ⟨s', h1, h2, h3⟩ := this
          exact ⟨s', h1, cached_of_cleared h2, h3⟩

/-! ### Bytes / List / ListEnd on a state with a cached kind -/

theorem bytes_byte (s : St) (hk : s.kind = some .byte) (he : s.kinderr = none) :
    bytes s = (.ok [s.byteval], { s with kind := none, alloc := s.alloc + 1 }) := by
  simp [bytes, kindOf_cached s .byte hk he]

theorem bytes_string (s : St) (h : Ready s) (hk : s.kind = some .string) (he : s.kinderr = none)
    (hn : s.size ≤ avail s) :
    bytes s =
      (match s.inp.take s.size with
       | [x] => if x < 0x80 then .error .canonSize else .ok [x]
       | b => .ok b,
       after s.size { s with alloc := s.alloc + s.size }) := by
  have hr : Ready { s with alloc := s.alloc + s.size } := ⟨h.lim, h.rem, h.top⟩
  have := readFull_ok s.size { s with alloc := s.alloc + s.size } hr hn
  simp only [bytes, kindOf_cached s .string hk he, this]
  split
  · rename_i x hx
    rw [hx]
    split
    · rename_i hlt; simp [hlt]
    · rename_i hlt; simp [hlt]
  · rename_i hx
    split
    · rename_i x hx'; exact absurd hx' (hx x)
    · rfl

theorem list_cached (s : St) (hk : s.kind = some .list) (he : s.kinderr = none) :
    list s = (.ok s.size, { s with stack := (0, s.size) :: s.stack, kind := none, size := 0 }) := by
  simp [list, kindOf_cached s .list hk he]

theorem listEnd_ok (s : St) (z : Nat) (tl : List (Nat × Nat)) (hst : s.stack = (z, z) :: tl) :
    listEnd s = (.ok (), { s with stack := bump z tl, kind := none, size := 0 }) := by
  unfold listEnd
  rw [hst]
  cases tl with
  | nil => simp [bump]
  | cons a more => obtain ⟨p, q⟩ := a; simp [bump]

theorem listEnd_err (s : St) (p z : Nat) (tl : List (Nat × Nat)) (hst : s.stack = (p, z) :: tl) (hne : p ≠ z) :
    listEnd s = (.error .notAtEOL, s) := by
  unfold listEnd
  rw [hst]
  simp [hne]

/-! ### simulation of `decItem`/`decList` by `decodeInterface`/`sliceElems` -/

/-- errors that end a decode for good: not EOL (which ends a list), not io.EOF (which ends a stream), not fuel. -/
def Hard (e : SErr) : Prop := e ≠ .eol ∧ e ≠ .eof ∧ e ≠ .fuel

theorem avail_le_rem (s : St) (h : Ready s) : avail s ≤ s.remaining := by
  unfold avail
  split
  · rename_i p z tl hs; exact (h.top p z tl hs).2
  · exact Nat.le_refl _

structure SimItem (f : Nat) : Prop where
  ok : ∀ s, Ready s → s.kind = none → ∀ it rest, decItem f (win s) = .ok (it, rest) →
    ∃ s', decodeInterface (f+1) s = (.ok it, s') ∧ Step s ((win s).length - rest.length) s' ∧ s'.kind = none ∧
      s'.alloc ≤ s.alloc + ((win s).length - rest.length) ∧ rest = win s'
  err : ∀ s, Ready s → s.kind = none → win s ≠ [] → ∀ e, decItem f (win s) = .error e → e ≠ .fuel →
    ∃ e' s', decodeInterface (f+1) s = (.error e', s') ∧ Hard e' ∧ s'.alloc ≤ s.alloc + avail s

structure SimList (f : Nat) : Prop where
  ok : ∀ s, Ready s → s.kind = none → s.stack ≠ [] → ∀ xs, decList f (win s) = .ok xs →
    ∃ s', sliceElems (f+1) s = (.ok xs, s') ∧ Step s (avail s) s' ∧ s'.kind = none ∧ s'.alloc ≤ s.alloc + avail s
  err : ∀ s, Ready s → s.kind = none → s.stack ≠ [] → ∀ e, decList f (win s) = .error e → e ≠ .fuel →
    ∃ e' s', sliceElems (f+1) s = (.error e', s') ∧ Hard e' ∧ s'.alloc ≤ s.alloc + avail s

theorem hard_of_hardErr {s : St} {r : R (K × Nat)} (h : HardErr s r) :
    ∃ e s', r = (.error e, s') ∧ Hard e ∧ s'.alloc = s.alloc := by
  obtain ⟨e, s', h1, h2, h3, h4, h5⟩ := h
  exact ⟨e, s', h1, ⟨h2, h3, h4⟩, h5⟩

theorem sim_zero : SimItem 0 ∧ SimList 0 := by
  refine ⟨⟨?_, ?_⟩, ⟨?_, ?_⟩⟩
  · intro s _ _ it rest h; simp [decItem] at h
  · intro s _ _ _ e h he; simp only [decItem, Except.error.injEq] at h; exact absurd h.symm he
  · intro s _ _ _ xs h; simp [decList] at h
  · intro s _ _ _ e h he; simp only [decList, Except.error.injEq] at h; exact absurd h.symm he

theorem bump_ne_nil (k : Nat) (st : List (Nat × Nat)) (h : st ≠ []) : bump k st ≠ [] := by
  cases st with
  | nil => exact absurd rfl h
  | cons a tl => obtain ⟨p, z⟩ := a; simp [bump]

theorem simList_succ (f : Nat) (hI : SimItem f) (hL : SimList f) : SimList (f+1) := by
  constructor
  · intro s hr hk hne xs h
    cases hw : win s with
    | nil =>
      rw [hw] at h
      simp only [decList, Except.ok.injEq] at h
      subst h
      have ha : avail s = 0 := by rw [← win_length s hr, hw]; rfl
      refine ⟨cleared s, ?_, by rw [ha]; exact cleared_step s, hk, by simp [cleared]⟩
      simp [sliceElems, decodeInterface, kindOf_eol s hr hk hne ha]
    | cons b bs =>
      rw [hw] at h
      simp only [decList] at h
      split at h
      · rename_i x rest hx
        split at h
        · rename_i ys hys
          simp only [Except.ok.injEq] at h
          subst h
          rw [← hw] at hx
          obtain ⟨s1, hd, hst, hk1, hal1, hrest⟩ := hI.ok s hr hk x rest hx
          have hcons := decItem_consumes _ _ _ _ hx
          have hwl := win_length s hr
          have hkle : (win s).length - rest.length ≤ avail s := by omega
          have hr1 : Ready s1 := step_ready hr hkle hst
          have hne1 : s1.stack ≠ [] := by rw [hst.stack]; exact bump_ne_nil _ _ hne
          rw [hrest] at hys
          obtain ⟨s2, hd2, hst2, hk2, hal2⟩ := hL.ok s1 hr1 hk1 hne1 ys hys
          have hav1 : avail s1 = avail s - ((win s).length - rest.length) := step_avail hst
          refine ⟨s2, ?_, ?_, hk2, ?_⟩
          · unfold sliceElems; rw [hd]; simp only; rw [hd2]
          · have := step_trans hst hst2
            have he : (win s).length - rest.length + avail s1 = avail s := by omega
            rw [he] at this; exact this
          · omega
        · simp at h
      · simp at h
  · intro s hr hk hne e h he
    cases hw : win s with
    | nil => rw [hw] at h; simp [decList] at h
    | cons b bs =>
      rw [hw] at h
      simp only [decList] at h
      have hwne : win s ≠ [] := by rw [hw]; simp
      split at h
      · rename_i x rest hx
        split at h
        · simp at h
        · rename_i e2 hys
          simp only [Except.error.injEq] at h
          subst h
          rw [← hw] at hx
          obtain ⟨s1, hd, hst, hk1, hal1, hrest⟩ := hI.ok s hr hk x rest hx
          have hcons := decItem_consumes _ _ _ _ hx
          have hwl := win_length s hr
          have hkle : (win s).length - rest.length ≤ avail s := by omega
          have hr1 : Ready s1 := step_ready hr hkle hst
          have hne1 : s1.stack ≠ [] := by rw [hst.stack]; exact bump_ne_nil _ _ hne
          rw [hrest] at hys
          obtain ⟨e', s2, hd2, hh, hal2⟩ := hL.err s1 hr1 hk1 hne1 e2 hys he
          have hav1 : avail s1 = avail s - ((win s).length - rest.length) := step_avail hst
          refine ⟨e', s2, ?_, hh, by omega⟩
          unfold sliceElems; rw [hd]; simp only; rw [hd2]
      · rename_i e1 hx
        simp only [Except.error.injEq] at h
        subst h
        rw [← hw] at hx
        obtain ⟨e', s1, hd, hh, hal⟩ := hI.err s hr hk hwne e1 hx he
        refine ⟨e', s1, ?_, hh, hal⟩
        obtain ⟨h1, h2, h3⟩ := hh
        cases e' <;> simp_all [sliceElems]

theorem win_take (s : St) (n : Nat) (hn : n ≤ avail s) : (win s).take n = s.inp.take n := by
  unfold win
  rw [List.take_take, Nat.min_eq_left hn]

set_option maxRecDepth 4000 in
theorem simItem_succ (f : Nat) (hL : SimList f) : SimItem (f+1) := by
  constructor
  · intro s hr hk it rest h
    have hwl := win_length s hr
    have hwne : win s ≠ [] := by
      intro hw; rw [hw] at h; simp [decItem, readHead] at h
    have ha : 1 ≤ avail s := by
      cases hw : win s with
      | nil => exact absurd hw hwne
      | cons b bs => rw [← hwl, hw]; simp
    have hks := kind_spec s hr hk ha
    simp only [decItem] at h
    cases hh : readHead (win s) with
    | error e => rw [hh] at h; simp at h
    | ok hd =>
      rw [hh] at h hks
      cases hd with
      | byte x r =>
        simp only [Except.ok.injEq, Prod.mk.injEq] at h
        obtain ⟨hit, hrest⟩ := h
        subst hit; subst hrest
        obtain ⟨s1, hko, hc, hbv, hr1w⟩ := hks
        have hr1 : Ready s1 := step_ready hr ha hc.step
        have hlen : (win s).length - r.length = 1 := by
          rw [hr1w, win_length s1 hr1, step_avail hc.step, hwl]; omega
        rw [hlen]
        refine ⟨{ s1 with kind := none, alloc := s1.alloc + 1 }, ?_, ?_, rfl, ?_, ?_⟩
        · unfold decodeInterface
          rw [hko]
          simp only [bytes_byte s1 hc.kind hc.err, hbv]
        · exact ⟨hc.step.inp, hc.step.rem, hc.step.lim, hc.step.stack⟩
        · simp only [hc.alloc]; omega
        · rw [hr1w]; rfl
      | str n r =>
        simp only at h hks
        by_cases hlt : r.length < n
        · simp [hlt] at h
        · simp only [hlt, if_false] at h hks
          obtain ⟨s1, hko, hc, hr1w⟩ := hks
          have hcons := readHead_consumes _ _ hh
          simp only at hcons
          have hhle : (win s).length - r.length ≤ avail s := by omega
          have hr1 : Ready s1 := step_ready hr hhle hc.step
          have hav1 : avail s1 = r.length := by rw [hr1w, win_length s1 hr1]
          have hsz : s1.size ≤ avail s1 := by rw [hc.size, hav1]; omega
          have hb := bytes_string s1 hr1 hc.kind hc.err hsz
          have htk : s1.inp.take s1.size = r.take n := by
            rw [hc.size, hr1w, win_take s1 n (by omega)]
          rw [htk] at hb
          have hstep : Step s ((win s).length - r.length + n) (after s1.size { s1 with alloc := s1.alloc + s1.size }) := by
            have h2 : Step s1 n (after s1.size { s1 with alloc := s1.alloc + s1.size }) := by
              rw [hc.size]; exact ⟨rfl, rfl, rfl, rfl⟩
            exact step_trans hc.step h2
          have hlen2 : ∀ t : Bytes, t = r.drop n → (win s).length - t.length = (win s).length - r.length + n := by
            intro t ht; rw [ht, List.length_drop]; omega
          have hwin2 : r.drop n = win (after s1.size { s1 with alloc := s1.alloc + s1.size }) := by
            have h2 : Step s1 n (after s1.size { s1 with alloc := s1.alloc + s1.size }) := by
              rw [hc.size]; exact ⟨rfl, rfl, rfl, rfl⟩
            rw [step_win h2, hr1w]
          have hfin : ∀ bsv : Bytes, (match r.take n with
                | [x] => if x < 0x80 then (Except.error SErr.canonSize : Except SErr Bytes) else .ok [x]
                | b => .ok b) = .ok bsv →
              it = .str bsv → rest = r.drop n →
              ∃ s', decodeInterface (f + 1 + 1) s = (.ok it, s') ∧ Step s ((win s).length - rest.length) s' ∧
                s'.kind = none ∧ s'.alloc ≤ s.alloc + ((win s).length - rest.length) ∧ rest = win s' := by
            intro bsv hm hit hrest
            refine ⟨after s1.size { s1 with alloc := s1.alloc + s1.size }, ?_, ?_, ?_, ?_, ?_⟩
            · unfold decodeInterface
              rw [hko]
              simp only [hb, hm, hit]
            · rw [hlen2 rest hrest]; exact hstep
            · rfl
            · rw [hlen2 rest hrest]
              simp only [after, hc.alloc, hc.size]; omega
            · rw [hrest]; exact hwin2
          split at h
          · rename_i x hx
            by_cases hx80 : x < 0x80
            · simp [hx80] at h
            · simp only [hx80, if_false, Except.ok.injEq, Prod.mk.injEq] at h
              exact hfin [x] (by rw [hx]; simp [hx80]) (by rw [← h.1, hx]) h.2.symm
          · rename_i hns
            simp only [Except.ok.injEq, Prod.mk.injEq] at h
            refine hfin (r.take n) ?_ h.1.symm h.2.symm
            split
            · rename_i x hx; exact absurd hx (hns x)
            · rfl
      | list n r =>
        simp only at h hks
        by_cases hlt : r.length < n
        · simp [hlt] at h
        · simp only [hlt, if_false] at h hks
          obtain ⟨s1, hko, hc, hr1w⟩ := hks
          have hcons := readHead_consumes _ _ hh
          simp only at hcons
          have hhle : (win s).length - r.length ≤ avail s := by omega
          have hr1 : Ready s1 := step_ready hr hhle hc.step
          have hav1 : avail s1 = r.length := by rw [hr1w, win_length s1 hr1]
          split at h
          · rename_i xs hxs
            simp only [Except.ok.injEq, Prod.mk.injEq] at h
            obtain ⟨hit, hrest⟩ := h
            subst hit; subst hrest
            have hl := list_cached s1 hc.kind hc.err
            rw [hc.size] at hl
            -- the state inside the list
            have hr2 : Ready { s1 with stack := (0, n) :: s1.stack, kind := none, size := 0 } := by
              refine ⟨hr1.lim, hr1.rem, ?_⟩
              intro p z tl hs
              simp only [List.cons.injEq, Prod.mk.injEq] at hs
              obtain ⟨⟨hp, hz⟩, _⟩ := hs
              subst hp; subst hz
              have := avail_le_rem s1 hr1
              exact ⟨Nat.zero_le _, by simp only [Nat.sub_zero]; omega⟩
            have hw2 : win { s1 with stack := (0, n) :: s1.stack, kind := none, size := 0 } = r.take n := by
              rw [hr1w, win_take s1 n (by omega)]; rfl
            have hav2 : avail { s1 with stack := (0, n) :: s1.stack, kind := none, size := 0 } = n := rfl
            have hlenr : (win s).length - (r.drop n).length = (win s).length - r.length + n := by
              rw [List.length_drop]; omega
            rw [hlenr]
            by_cases hn0 : n = 0
            · subst hn0
              have hxs' : xs = [] := by
                cases f with
                | zero => simp [decList] at hxs
                | succ g => simpa [decList] using hxs.symm
              subst hxs'
              have hle := listEnd_ok { s1 with stack := (0, 0) :: s1.stack, kind := none, size := 0 } 0 s1.stack rfl
              refine ⟨{ s1 with stack := bump 0 s1.stack, kind := none, size := 0 }, ?_, ?_, ?_, ?_, ?_⟩
              · unfold decodeInterface
                rw [hko]
                simp only [hl, hle, if_true]
              · have : Step s1 0 { s1 with stack := bump 0 s1.stack, kind := none, size := 0 } := by
                  refine ⟨by simp, by simp, rfl, rfl⟩
                exact step_trans hc.step this
              · rfl
              · simp only [hc.alloc]; omega
              · have : Step s1 0 { s1 with stack := bump 0 s1.stack, kind := none, size := 0 } := by
                  refine ⟨by simp, by simp, rfl, rfl⟩
                rw [step_win this, hr1w]
            · rw [← hw2] at hxs
              obtain ⟨s3, hse, hst3, hk3, hal3⟩ := hL.ok _ hr2 rfl (by simp) xs hxs
              rw [hav2] at hst3 hal3
              have hstk3 : s3.stack = (n, n) :: s1.stack := by
                rw [hst3.stack]; simp [bump]
              have hle := listEnd_ok s3 n s1.stack hstk3
              have hfinal : Step s1 n { s3 with stack := bump n s1.stack, kind := none, size := 0 } :=
                ⟨hst3.inp, hst3.rem, hst3.lim, rfl⟩
              refine ⟨_, ?_, step_trans hc.step hfinal, rfl, ?_, ?_⟩
              · unfold decodeInterface
                rw [hko]
                simp only [hl, hn0, if_false, hse, hle]
              · have : s3.alloc ≤ s.alloc + n := by rw [← hc.alloc]; exact hal3
                show s3.alloc ≤ _
                omega
              · rw [step_win hfinal, hr1w]
          · simp at h
  · intro s hr hk hwne e h he
    have hwl := win_length s hr
    have ha : 1 ≤ avail s := by
      cases hw : win s with
      | nil => exact absurd hw hwne
      | cons b bs => rw [← hwl, hw]; simp
    have hks := kind_spec s hr hk ha
    -- a hard error of Kind is passed on unchanged
    have hkerr : HardErr s (kindOf s) →
        ∃ e' s', decodeInterface (f + 1 + 1) s = (.error e', s') ∧ Hard e' ∧ s'.alloc ≤ s.alloc + avail s := by
      intro hhe
      obtain ⟨e', s', hko, hh, hal⟩ := hard_of_hardErr hhe
      refine ⟨e', s', ?_, hh, by omega⟩
      unfold decodeInterface
      rw [hko]
    simp only [decItem] at h
    cases hh : readHead (win s) with
    | error e0 => rw [hh] at hks; exact hkerr hks
    | ok hd =>
      rw [hh] at h hks
      cases hd with
      | byte x r => simp at h
      | str n r =>
        simp only at h hks
        by_cases hlt : r.length < n
        · simp only [hlt, if_true] at hks; exact hkerr hks
        · simp only [hlt, if_false] at h hks
          obtain ⟨s1, hko, hc, hr1w⟩ := hks
          have hcons := readHead_consumes _ _ hh
          simp only at hcons
          have hhle : (win s).length - r.length ≤ avail s := by omega
          have hr1 : Ready s1 := step_ready hr hhle hc.step
          have hav1 : avail s1 = r.length := by rw [hr1w, win_length s1 hr1]
          have hsz : s1.size ≤ avail s1 := by rw [hc.size, hav1]; omega
          have hb := bytes_string s1 hr1 hc.kind hc.err hsz
          have htk : s1.inp.take s1.size = r.take n := by
            rw [hc.size, hr1w, win_take s1 n (by omega)]
          rw [htk] at hb
          split at h
          · rename_i x hx
            by_cases hx80 : x < 0x80
            · refine ⟨.canonSize, after s1.size { s1 with alloc := s1.alloc + s1.size }, ?_,
                ⟨by simp, by simp, by simp⟩, ?_⟩
              · unfold decodeInterface
                rw [hko]
                simp only [hb, hx, hx80, if_true]
              · simp only [after, hc.alloc, hc.size]; omega
            · simp [hx80] at h
          · simp at h
      | list n r =>
        simp only at h hks
        by_cases hlt : r.length < n
        · simp only [hlt, if_true] at hks; exact hkerr hks
        · simp only [hlt, if_false] at h hks
          obtain ⟨s1, hko, hc, hr1w⟩ := hks
          have hcons := readHead_consumes _ _ hh
          simp only at hcons
          have hhle : (win s).length - r.length ≤ avail s := by omega
          have hr1 : Ready s1 := step_ready hr hhle hc.step
          have hav1 : avail s1 = r.length := by rw [hr1w, win_length s1 hr1]
          split at h
          · simp at h
          · rename_i e2 hxs
            simp only [Except.error.injEq] at h
            subst h
            have hl := list_cached s1 hc.kind hc.err
            rw [hc.size] at hl
            have hr2 : Ready { s1 with stack := (0, n) :: s1.stack, kind := none, size := 0 } := by
              refine ⟨hr1.lim, hr1.rem, ?_⟩
              intro p z tl hs
              simp only [List.cons.injEq, Prod.mk.injEq] at hs
              obtain ⟨⟨hp, hz⟩, _⟩ := hs
              subst hp; subst hz
              have := avail_le_rem s1 hr1
              exact ⟨Nat.zero_le _, by simp only [Nat.sub_zero]; omega⟩
            have hw2 : win { s1 with stack := (0, n) :: s1.stack, kind := none, size := 0 } = r.take n := by
              rw [hr1w, win_take s1 n (by omega)]; rfl
            have hav2 : avail { s1 with stack := (0, n) :: s1.stack, kind := none, size := 0 } = n := rfl
            have hn0 : n ≠ 0 := by
              intro hn0; subst hn0
              cases f with
              | zero => simp only [decList, Except.error.injEq] at hxs; exact he hxs.symm
              | succ g => simp [decList] at hxs
            rw [← hw2] at hxs
            obtain ⟨e', s3, hse, hhard, hal3⟩ := hL.err _ hr2 rfl (by simp) e2 hxs he
            rw [hav2] at hal3
            refine ⟨e', s3, ?_, hhard, ?_⟩
            · unfold decodeInterface
              rw [hko]
              simp only [hl, hn0, if_false, hse]
            · have : s3.alloc ≤ s.alloc + n := by rw [← hc.alloc]; exact hal3
              omega

theorem sim (f : Nat) : SimItem f ∧ SimList f := by
  induction f with
  | zero => exact sim_zero
  | succ f ih => exact ⟨simItem_succ f ih.2, simList_succ f ih.1 ih.2⟩

/-! ### the two entry points -/

theorem newStream_ready (bs : Bytes) : Ready (newStream bs bs.length) := by
  refine ⟨rfl, ?_, ?_⟩
  · simp only [newStream]; split <;> rfl
  · intro p z tl h; simp [newStream] at h

theorem newStream_win (bs : Bytes) : win (newStream bs bs.length) = bs := by
  have : (newStream bs bs.length).remaining = bs.length := by simp only [newStream]; split <;> rfl
  simp only [win, avail, newStream]
  simp

theorem newStream_avail (bs : Bytes) : avail (newStream bs bs.length) = bs.length := by
  simp only [avail, newStream]; split <;> rfl

/-- the first decode of either entry point, classified by the strict decoder on the whole input. -/
theorem first_decode (bs : Bytes) :
    (∀ it rest, decItem (3 * bs.length + 1) bs = .ok (it, rest) →
      ∃ s', decodeInterface (fuelFor bs.length) (newStream bs bs.length) = (.ok it, s') ∧ Ready s' ∧ s'.kind = none ∧
        s'.stack = [] ∧ win s' = rest ∧ s'.inp = rest ∧ s'.alloc + rest.length ≤ bs.length) ∧
    (∀ e, decItem (3 * bs.length + 1) bs = .error e →
      ∃ e' s', decodeInterface (fuelFor bs.length) (newStream bs bs.length) = (.error e', s') ∧ e' ≠ .fuel ∧
        s'.alloc ≤ bs.length) := by
  have hr := newStream_ready bs
  have hw := newStream_win bs
  have hav := newStream_avail bs
  have hS := (sim (3 * bs.length + 1)).1
  constructor
  · intro it rest h
    have hcons := decItem_consumes _ _ _ _ h
    have h' : decItem (3 * bs.length + 1) (win (newStream bs bs.length)) = .ok (it, rest) := by rw [hw]; exact h
    obtain ⟨s', hd, hst, hk, hal, hrest⟩ := hS.ok _ hr rfl it rest h'
    rw [hw] at hst hal
    have hr' : Ready s' := step_ready hr (by rw [hav]; omega) hst
    have hstk : s'.stack = [] := by rw [hst.stack]; rfl
    have hinp : s'.inp = rest := by
      have h1 : win s' = s'.inp := by
        simp only [win, avail, hstk]; rw [hr'.rem]; simp
      rw [← h1, ← hrest]
    refine ⟨s', hd, hr', hk, hstk, hrest.symm, hinp, ?_⟩
    have : (newStream bs bs.length).alloc = 0 := rfl
    omega
  · intro e h
    have hne : e ≠ .fuel := by
      intro he; subst he
      exact (decItem_ne_fuel (3 * bs.length + 1)).1 bs (by omega) (by omega) h
    cases hb : bs with
    | nil =>
      obtain ⟨s', hk, hal⟩ := kindOf_eof (newStream [] ([] : Bytes).length) (newStream_ready []) rfl rfl rfl
      simp only [List.length_nil] at hk ⊢
      refine ⟨.eof, s', ?_, by simp, ?_⟩
      · simp only [fuelFor]
        unfold decodeInterface
        rw [hk]
      · rw [hal]; exact Nat.zero_le _
    | cons b t =>
      rw [← hb]
      have h' : decItem (3 * bs.length + 1) (win (newStream bs bs.length)) = .error e := by rw [hw]; exact h
      obtain ⟨e', s', hd, hh, hal⟩ := hS.err _ hr rfl (by rw [hw, hb]; simp) e h' hne
      refine ⟨e', s', hd, hh.2.2, ?_⟩
      rw [hav] at hal
      have : (newStream bs bs.length).alloc = 0 := rfl
      omega

/-- a second decode on the state left by a successful first one. -/
theorem second_decode (n : Nat) (s : St) (hr : Ready s) (hk : s.kind = none) (hst : s.stack = []) (hn : s.inp.length ≤ n) :
    (s.inp = [] → ∃ s', decodeInterface (fuelFor n) s = (.error .eof, s') ∧ s'.alloc = s.alloc) ∧
    (s.inp ≠ [] → ∃ r s', decodeInterface (fuelFor n) s = (r, s') ∧ r ≠ .error .eof ∧ r ≠ .error .fuel ∧
      s'.alloc ≤ s.alloc + s.inp.length) := by
  have hav : avail s = s.inp.length := by simp only [avail, hst]; exact hr.rem
  have hwin : win s = s.inp := by simp only [win, hav]; simp
  constructor
  · intro he
    obtain ⟨s', hko, hal⟩ := kindOf_eof s hr hk hst (by rw [hav, he]; rfl)
    refine ⟨s', ?_, hal⟩
    unfold fuelFor decodeInterface
    rw [hko]
  · intro hne
    have hS := (sim (3 * n + 1)).1
    cases hd : decItem (3 * n + 1) (win s) with
    | ok p =>
      obtain ⟨it, rest⟩ := p
      obtain ⟨s', hdi, _, _, hal, _⟩ := hS.ok s hr hk it rest hd
      refine ⟨.ok it, s', hdi, by simp, by simp, ?_⟩
      rw [hwin] at hal; omega
    | error e =>
      have hef : e ≠ .fuel := by
        intro he; subst he
        exact (decItem_ne_fuel (3 * n + 1)).1 (win s) (by omega) (by rw [hwin]; omega) hd
      obtain ⟨e', s', hdi, hh, hal⟩ := hS.err s hr hk (by rw [hwin]; exact hne) e hd hef
      refine ⟨.error e', s', hdi, ?_, ?_, by rw [hav] at hal; exact hal⟩
      · intro hc; simp only [Except.error.injEq] at hc; exact hh.2.1 hc
      · intro hc; simp only [Except.error.injEq] at hc; exact hh.2.2 hc

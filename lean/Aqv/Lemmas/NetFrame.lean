/-
  Aqv.Lemmas.NetFrame — lemmas about the RLPx frame model: key stream, MAC step, 24-bit sizes,
  slice-free readings of the writer and of the reader stages.
-/
import Aqv.Lemmas.Net
import Aqv.Lemmas.RlpCanon
namespace Aqv.Net
open Aqv Aqv.Rlp

/-! ### key stream -/

theorem xorKs_length (P : Prims) (pos : Nat) (x : Bytes) : (xorKs P pos x).length = x.length := by
  induction x generalizing pos with
  | nil => rfl
  | cons b t ih => simp [xorKs, ih]

theorem xorKs_append (P : Prims) (pos : Nat) (a b : Bytes) :
    xorKs P pos (a ++ b) = xorKs P pos a ++ xorKs P (pos + a.length) b := by
  induction a generalizing pos with
  | nil => simp [xorKs]
  | cons x t ih =>
    simp only [List.cons_append, xorKs, ih, List.length_cons]
    congr 3
    omega

theorem xorKs_invol (P : Prims) (pos : Nat) (x : Bytes) : xorKs P pos (xorKs P pos x) = x := by
  induction x generalizing pos with
  | nil => rfl
  | cons b t ih =>
    simp only [xorKs, ih]
    rw [UInt8.xor_assoc, UInt8.xor_self, UInt8.xor_zero]

theorem xorKs_take (P : Prims) (pos n : Nat) (x : Bytes) : (xorKs P pos x).take n = xorKs P pos (x.take n) := by
  induction x generalizing pos n with
  | nil => simp [xorKs]
  | cons b t ih =>
    cases n with
    | zero => simp [xorKs]
    | succ n => simp [xorKs, ih]

theorem xorKs_inj (P : Prims) (pos : Nat) (x y : Bytes) (h : xorKs P pos x = xorKs P pos y) : x = y := by
  have := congrArg (xorKs P pos) h
  rwa [xorKs_invol, xorKs_invol] at this

/-! ### MAC step -/

def zipXor : Bytes → Bytes → Bytes
  | d :: ds, s :: ss => (d ^^^ s) :: zipXor ds ss
  | _, _ => []

theorem xorInto_ok (d seed pre : Bytes) (h : d.length ≤ seed.length) :
    xorInto d (pre ++ seed) pre.length = .ok (zipXor d seed) := by
  induction d generalizing seed pre with
  | nil => simp [xorInto, zipXor]
  | cons x xs ih =>
    cases seed with
    | nil => simp at h
    | cons s ss =>
      simp only [xorInto]
      have hi : index (pre ++ s :: ss) pre.length = .ok s := by
        simp [index]
      rw [hi]
      have := ih ss (pre ++ [s]) (by simpa using h)
      simp only [List.append_assoc, List.singleton_append, List.length_append, List.length_singleton] at this
      rw [this]
      simp [zipXor]

theorem zipXor_length (d s : Bytes) (h : d.length ≤ s.length) : (zipXor d s).length = d.length := by
  induction d generalizing s with
  | nil => simp [zipXor]
  | cons x xs ih =>
    cases s with
    | nil => simp at h
    | cons y ys => simp [zipXor, ih ys (by simpa using h)]

theorem zipXor_inj (d s s' : Bytes) (h1 : s.length = d.length) (h2 : s'.length = d.length) (h : zipXor d s = zipXor d s') : s = s' := by
  induction d generalizing s s' with
  | nil =>
    have a : s = [] := List.eq_nil_of_length_eq_zero (by simpa using h1)
    have b : s' = [] := List.eq_nil_of_length_eq_zero (by simpa using h2)
    rw [a, b]
  | cons x xs ih =>
    cases s with
    | nil => simp at h1
    | cons y ys =>
      cases s' with
      | nil => simp at h2
      | cons z zs =>
        simp only [zipXor, List.cons.injEq] at h
        have := (UInt8.xor_right_inj x).mp h.1
        rw [this, ih ys zs (by simpa using h1) (by simpa using h2) h.2]

structure Wf (P : Prims) : Prop where
  hlen : ∀ x, (P.H x).length = 32
  elen : ∀ x, (P.E x).length = 16

/-- bytes absorbed by the MAC hash after `updateMAC(mac, seed)` -/
def macStep (P : Prims) (mac seed : Bytes) : Bytes := mac ++ zipXor (P.E ((P.H mac).take 16)) seed
/-- the 16-byte tag: first half of the hash of everything absorbed -/
def tag (P : Prims) (mac : Bytes) : Bytes := (P.H mac).take 16

theorem updateMAC_ok (P : Prims) (hw : Wf P) (mac seed : Bytes) (hs : 16 ≤ seed.length) :
    updateMAC P mac seed = .ok (macStep P mac seed, tag P (macStep P mac seed)) := by
  unfold updateMAC
  rw [sliceTo_ok _ _ (by rw [hw.hlen]; omega)]
  simp only [Out.bind_ok]
  have := xorInto_ok (P.E (List.take 16 (P.H mac))) seed [] (by rw [hw.elen]; omega)
  simp only [List.nil_append, List.length_nil] at this
  rw [this]
  simp only [Out.bind_ok]
  rw [sliceTo_ok _ _ (by rw [hw.hlen]; omega)]
  rfl

theorem tag_length (P : Prims) (hw : Wf P) (mac : Bytes) : (tag P mac).length = 16 := by
  simp [tag, hw.hlen]

theorem macStep_inj_seed (P : Prims) (hw : Wf P) (mac s s' : Bytes) (h1 : s.length = 16) (h2 : s'.length = 16)
    (h : macStep P mac s = macStep P mac s') : s = s' := by
  unfold macStep at h
  have := List.append_cancel_left h
  exact zipXor_inj _ _ _ (by rw [hw.elen]; exact h1) (by rw [hw.elen]; exact h2) this

/-! ### 24-bit sizes -/

theorem readInt24_putInt24 (n : Nat) (rest : Bytes) (h : n < 2 ^ 24) : readInt24 (putInt24 n ++ rest) = .ok n := by
  simp only [readInt24, putInt24, index, List.cons_append, List.nil_append, List.getElem?_cons_succ, List.getElem?_cons_zero,
    Out.bind_ok]
  congr 1
  simp only [UInt8.toNat_ofNat']
  omega

theorem putInt24_length (n : Nat) : (putInt24 n).length = 3 := rfl

theorem rsizeOf_ge (n : Nat) : n ≤ rsizeOf n := by
  unfold rsizeOf; split <;> omega
theorem rsizeOf_le (n : Nat) : rsizeOf n ≤ n + 15 := by
  unfold rsizeOf; split <;> omega
theorem rsizeOf_mod (n : Nat) : rsizeOf n % 16 = 0 := by
  unfold rsizeOf; split <;> omega


/-! ### reader stages without slices -/

def int24 (b : Bytes) : Nat := (b.getD 2 0).toNat + (b.getD 1 0).toNat * 256 + (b.getD 0 0).toNat * 65536

theorem readInt24_ok (b : Bytes) (h : 3 ≤ b.length) : readInt24 b = .ok (int24 b) := by
  match b, h with
  | b0 :: b1 :: b2 :: t, _ => simp [readInt24, int24, index]

theorem int24_lt (b : Bytes) : int24 b < 2 ^ 24 := by
  unfold int24
  have h0 := (b.getD 0 0).toNat_lt
  have h1 := (b.getD 1 0).toNat_lt
  have h2 := (b.getD 2 0).toNat_lt
  omega

theorem int24_append (a b : Bytes) (h : 3 ≤ a.length) : int24 (a ++ b) = int24 a := by
  match a, h with
  | a0 :: a1 :: a2 :: t, _ => simp [int24]

theorem int24_putInt24 (n : Nat) (rest : Bytes) (h : n < 2 ^ 24) : int24 (putInt24 n ++ rest) = n := by
  have := readInt24_putInt24 n rest h
  rw [readInt24_ok _ (by simp [putInt24])] at this
  injection this

theorem readFull_ok (conn : Bytes) (n : Nat) (h : n ≤ conn.length) : readFull conn n = .ok (conn.take n, conn.drop n) := by
  simp [readFull]; omega
theorem readFull_short (conn : Bytes) (n : Nat) (h : conn.length < n) : readFull conn n = .err .eof := by
  simp [readFull, h]

/-- `readHeader` without slices. -/
theorem readHeader_eq (P : Prims) (hw : Wf P) (d : Dir) (conn : Bytes) (hl : 32 ≤ conn.length) :
    readHeader P d conn =
      if tag P (macStep P d.mac (conn.take 16)) ≠ (conn.take 32).drop 16 then .err .badHeaderMAC
      else .ok (macStep P d.mac (conn.take 16), int24 (xorKs P d.pos (conn.take 16)), conn.drop 32) := by
  unfold readHeader
  rw [readFull_ok _ _ hl]
  simp only [Out.bind_ok]
  rw [sliceTo_ok _ _ (by simp; omega)]
  simp only [Out.bind_ok, List.take_take]
  have h16 : min 16 32 = 16 := by decide
  rw [h16, updateMAC_ok P hw _ _ (by simp; omega)]
  simp only [Out.bind_ok]
  rw [sliceFrom_ok _ _ (by simp; omega)]
  simp only [Out.bind_ok]
  split
  · rfl
  · rw [readInt24_ok _ (by simp [xorKs_length]; omega)]
    simp only [Out.bind_ok]
    rw [int24_append _ _ (by simp [xorKs_length]; omega)]

theorem readHeader_short (P : Prims) (d : Dir) (conn : Bytes) (hl : conn.length < 32) : readHeader P d conn = .err .eof := by
  unfold readHeader
  rw [readFull_short _ _ hl]
  rfl

/-- `readFrame` without slices. -/
theorem readFrame_eq (P : Prims) (hw : Wf P) (mac1 : Bytes) (pos fsize : Nat) (conn1 : Bytes) (hl : rsizeOf fsize + 16 ≤ conn1.length) :
    readFrame P mac1 pos fsize conn1 =
      if tag P (macStep P (mac1 ++ conn1.take (rsizeOf fsize)) (P.H (mac1 ++ conn1.take (rsizeOf fsize))))
          ≠ (conn1.drop (rsizeOf fsize)).take 16 then .err .badFrameMAC
      else .ok (macStep P (mac1 ++ conn1.take (rsizeOf fsize)) (P.H (mac1 ++ conn1.take (rsizeOf fsize))),
                xorKs P pos (conn1.take (rsizeOf fsize)), conn1.drop (rsizeOf fsize + 16)) := by
  unfold readFrame
  rw [readFull_ok _ _ (by omega)]
  simp only [Out.bind_ok]
  rw [readFull_ok _ _ (by simp; omega)]
  simp only [Out.bind_ok]
  rw [updateMAC_ok P hw _ _ (by rw [hw.hlen]; omega)]
  simp only [Out.bind_ok, List.drop_drop]

theorem readFrame_short (P : Prims) (mac1 : Bytes) (pos fsize : Nat) (conn1 : Bytes) (hl : conn1.length < rsizeOf fsize + 16) :
    readFrame P mac1 pos fsize conn1 = .err .eof := by
  unfold readFrame
  by_cases h : conn1.length < rsizeOf fsize
  · rw [readFull_short _ _ h]; rfl
  · rw [readFull_ok _ _ (by omega)]
    simp only [Out.bind_ok]
    rw [readFull_short _ _ (by simp; omega)]
    rfl


/-! ### the writer without slices -/

def padOf (fsize : Nat) : Bytes := if fsize % 16 > 0 then List.replicate (16 - fsize % 16) (0 : UInt8) else []
def hdrPlain (fsize : Nat) : Bytes := putInt24 fsize ++ zeroHeader ++ List.replicate 10 (0 : UInt8)

theorem padOf_length (fsize : Nat) : fsize + (padOf fsize).length = rsizeOf fsize := by
  unfold padOf rsizeOf; split <;> simp

theorem hdrPlain_length (fsize : Nat) : (hdrPlain fsize).length = 16 := rfl

/-- what `WriteMsg` puts on the wire for a frame body (`ptype ‖ payload`) declared as `fsize` bytes, and the egress
    state afterwards. -/
def frameWire (P : Prims) (d : Dir) (fsize : Nat) (body : Bytes) : Dir × Bytes :=
  let ench := xorKs P d.pos (hdrPlain fsize)
  let mac1 := macStep P d.mac ench
  let frame := xorKs P (d.pos + 16) (body ++ padOf fsize)
  let mac2 := mac1 ++ frame
  let mac3 := macStep P mac2 (P.H mac2)
  ({ mac := mac3, pos := d.pos + 16 + frame.length }, ench ++ tag P mac1 ++ frame ++ tag P mac3)

/-- the (size, payload) pair `WriteMsg` frames: compressed when snappy is on. -/
def framedPayload (P : Prims) (snappy : Bool) (m : Msg) : Nat × Bytes :=
  if snappy then ((P.snapEnc m.payload).length % 2 ^ 32, P.snapEnc m.payload) else (m.size, m.payload)

/-- `WriteMsg` without slices. -/
theorem writeMsg_eq (P : Prims) (hw : Wf P) (snappy : Bool) (d : Dir) (m : Msg) :
    writeMsg P snappy d m =
      if snappy ∧ m.size > maxUint24 then .err .plainTooLarge
      else if ((encUint m.code).length + (framedPayload P snappy m).1) % 2 ^ 32 > maxUint24 then .err .sizeOverflow
      else .ok (frameWire P d (((encUint m.code).length + (framedPayload P snappy m).1) % 2 ^ 32)
                  (encUint m.code ++ (framedPayload P snappy m).2)) := by
  unfold writeMsg framedPayload
  cases snappy
  · simp only [Bool.false_eq_true, false_and, if_false]
    split
    · rfl
    · rw [sliceTo_ok _ _ (by simp [putInt24, zeroHeader])]
      simp only [Out.bind_ok]
      have h16 : List.take 16 (putInt24 (((encUint m.code).length + m.size) % 2 ^ 32) ++ zeroHeader ++ List.replicate 26 (0 : UInt8))
          = hdrPlain (((encUint m.code).length + m.size) % 2 ^ 32) := by
        simp [putInt24, zeroHeader, hdrPlain]
      have hd16 : List.drop 16 (putInt24 (((encUint m.code).length + m.size) % 2 ^ 32) ++ zeroHeader ++ List.replicate 26 (0 : UInt8))
          = List.replicate 16 (0 : UInt8) := by
        simp [putInt24, zeroHeader]
      rw [h16, hd16, updateMAC_ok P hw _ _ (by simp [xorKs_length, hdrPlain_length])]
      simp only [Out.bind_ok]
      have hc := copyAt_mid (xorKs P d.pos (hdrPlain (((encUint m.code).length + m.size) % 2 ^ 32))) (List.replicate 16 (0 : UInt8)) []
        (tag P (macStep P d.mac (xorKs P d.pos (hdrPlain (((encUint m.code).length + m.size) % 2 ^ 32))))) (by simp [tag_length P hw])
      simp only [List.append_nil, xorKs_length, hdrPlain_length] at hc
      rw [hc]
      simp only [Out.bind_ok]
      rw [updateMAC_ok P hw _ _ (by rw [hw.hlen]; omega)]
      simp only [Out.bind_ok, frameWire, padOf, List.append_assoc]
  · simp only [true_and, if_true]
    by_cases hs : m.size > maxUint24
    · simp only [hs, if_true]
    · simp only [hs, if_false]
      generalize ((encUint m.code).length + (P.snapEnc m.payload).length % 2 ^ 32) % 2 ^ 32 = fsize
      split
      · rfl
      · rw [sliceTo_ok _ _ (by simp [putInt24, zeroHeader])]
        simp only [Out.bind_ok]
        have h16 : List.take 16 (putInt24 fsize ++ zeroHeader ++ List.replicate 26 (0 : UInt8)) = hdrPlain fsize := by
          simp [putInt24, zeroHeader, hdrPlain]
        have hd16 : List.drop 16 (putInt24 fsize ++ zeroHeader ++ List.replicate 26 (0 : UInt8)) = List.replicate 16 (0 : UInt8) := by
          simp [putInt24, zeroHeader]
        rw [h16, hd16, updateMAC_ok P hw _ _ (by simp [xorKs_length, hdrPlain_length])]
        simp only [Out.bind_ok]
        have hc := copyAt_mid (xorKs P d.pos (hdrPlain fsize)) (List.replicate 16 (0 : UInt8)) []
          (tag P (macStep P d.mac (xorKs P d.pos (hdrPlain fsize)))) (by simp [tag_length P hw])
        simp only [List.append_nil, xorKs_length, hdrPlain_length] at hc
        rw [hc]
        simp only [Out.bind_ok]
        rw [updateMAC_ok P hw _ _ (by rw [hw.hlen]; omega)]
        simp only [Out.bind_ok, frameWire, padOf, List.append_assoc]


/-! ### the reader accepts what the writer produced -/

theorem split4_a (a b c r : Bytes) (n : Nat) (ha : a.length = n) : List.take n (a ++ b ++ c ++ r) = a := by
  rw [List.append_assoc, List.append_assoc, List.take_left' ha]
theorem split4_b (a b c r : Bytes) (n k : Nat) (ha : a.length = n) (hb : b.length = k) :
    List.drop n (List.take (n + k) (a ++ b ++ c ++ r)) = b := by
  have : List.take (n + k) (a ++ b ++ c ++ r) = a ++ b := by
    rw [List.append_assoc (a ++ b), List.take_left' (by simp [ha, hb])]
  rw [this, List.drop_left' ha]
theorem split4_c (a b c r : Bytes) (n k : Nat) (ha : a.length = n) (hb : b.length = k) :
    List.drop (n + k) (a ++ b ++ c ++ r) = c ++ r := by
  rw [List.append_assoc (a ++ b), List.drop_left' (by simp [ha, hb])]

/-- the header stage accepts what the writer produced and recovers the declared size. -/
theorem readHeader_frameWire (P : Prims) (hw : Wf P) (d : Dir) (fsize : Nat) (body rest : Bytes) (hf : fsize < 2 ^ 24) :
    readHeader P d ((frameWire P d fsize body).2 ++ rest) =
      .ok (macStep P d.mac (xorKs P d.pos (hdrPlain fsize)), fsize,
           xorKs P (d.pos + 16) (body ++ padOf fsize) ++
             (tag P (macStep P (macStep P d.mac (xorKs P d.pos (hdrPlain fsize)) ++ xorKs P (d.pos + 16) (body ++ padOf fsize))
               (P.H (macStep P d.mac (xorKs P d.pos (hdrPlain fsize)) ++ xorKs P (d.pos + 16) (body ++ padOf fsize)))) ++ rest)) := by
  simp only [frameWire]
  generalize hench : xorKs P d.pos (hdrPlain fsize) = ench
  generalize hfr : xorKs P (d.pos + 16) (body ++ padOf fsize) = frame
  have hel : ench.length = 16 := by rw [← hench, xorKs_length, hdrPlain_length]
  have htl : (tag P (macStep P d.mac ench)).length = 16 := tag_length P hw _
  generalize htg : tag P (macStep P d.mac ench) = t1 at htl
  generalize tag P (macStep P (macStep P d.mac ench ++ frame) (P.H (macStep P d.mac ench ++ frame))) = t3
  rw [readHeader_eq P hw _ _ (by simp [hel, htl]; omega)]
  have e1 : List.take 16 (ench ++ t1 ++ frame ++ t3 ++ rest) = ench := by
    rw [List.append_assoc (ench ++ t1 ++ frame)]; exact split4_a ench t1 frame (t3 ++ rest) 16 hel
  have e2 : List.drop 16 (List.take 32 (ench ++ t1 ++ frame ++ t3 ++ rest)) = t1 := by
    rw [List.append_assoc (ench ++ t1 ++ frame)]; exact split4_b ench t1 frame (t3 ++ rest) 16 16 hel htl
  have e3 : List.drop 32 (ench ++ t1 ++ frame ++ t3 ++ rest) = frame ++ (t3 ++ rest) := by
    rw [List.append_assoc (ench ++ t1 ++ frame)]; exact split4_c ench t1 frame (t3 ++ rest) 16 16 hel htl
  rw [e1, e2, e3, htg]
  simp only [ne_eq, not_true_eq_false, if_false]
  rw [← hench, xorKs_invol]
  unfold hdrPlain
  rw [List.append_assoc, int24_putInt24 _ _ hf]

/-- the frame stage accepts what the writer produced and recovers the padded plaintext. -/
theorem readFrame_frameWire (P : Prims) (hw : Wf P) (mac1 : Bytes) (pos fsize : Nat) (body rest : Bytes) (hb : body.length = fsize) :
    readFrame P mac1 pos fsize
        (xorKs P pos (body ++ padOf fsize) ++
          (tag P (macStep P (mac1 ++ xorKs P pos (body ++ padOf fsize)) (P.H (mac1 ++ xorKs P pos (body ++ padOf fsize)))) ++ rest)) =
      .ok (macStep P (mac1 ++ xorKs P pos (body ++ padOf fsize)) (P.H (mac1 ++ xorKs P pos (body ++ padOf fsize))),
           body ++ padOf fsize, rest) := by
  have hfl : (xorKs P pos (body ++ padOf fsize)).length = rsizeOf fsize := by
    rw [xorKs_length, List.length_append, hb, padOf_length]
  generalize hfr : xorKs P pos (body ++ padOf fsize) = frame at hfl
  have htl := tag_length P hw (macStep P (mac1 ++ frame) (P.H (mac1 ++ frame)))
  generalize htg : tag P (macStep P (mac1 ++ frame) (P.H (mac1 ++ frame))) = t3 at htl
  rw [readFrame_eq P hw _ _ _ _ (by simp [hfl, htl])]
  have e1 : List.take (rsizeOf fsize) (frame ++ (t3 ++ rest)) = frame := List.take_left' hfl
  have e2 : List.take 16 (List.drop (rsizeOf fsize) (frame ++ (t3 ++ rest))) = t3 := by
    rw [List.drop_left' hfl, List.take_left' htl]
  have e3 : List.drop (rsizeOf fsize + 16) (frame ++ (t3 ++ rest)) = rest := by
    rw [← List.append_assoc, List.drop_left' (by simp [hfl, htl])]
  rw [e1, e2, e3, htg]
  simp only [ne_eq, not_true_eq_false, if_false]
  rw [← hfr, xorKs_invol]


/-! ### one frame: write then read -/

theorem header_length_le (base n : Nat) (h : n < 2 ^ 64) : (header base n).length ≤ 9 := by
  unfold header
  split
  · simp
  · have := beBytes_length_le n 8 (by simpa using h)
    simp; omega

theorem encUint_length_le (c : Nat) (h : c < 2 ^ 64) : (encUint c).length ≤ 9 := by
  have hl := beBytes_length_le c 8 (by simpa using h)
  unfold encUint encStr
  split
  · split <;> simp [header]
  · have := header_length_le 0x80 (beBytes c).length (by omega)
    simp only [List.length_append]
    have h8 : (beBytes c).length < 56 := by omega
    unfold header; simp [h8]; omega

theorem encUint_length_pos (c : Nat) : 0 < (encUint c).length := by
  have := encStr_ne_nil (beBytes c)
  unfold encUint
  cases h : encStr (beBytes c) with
  | nil => exact absurd h this
  | cons _ _ => simp

theorem decCode_encUint (c : Nat) (payload : Bytes) (h : c < 2 ^ 64) : decCode (encUint c ++ payload) = .ok (c, payload) := by
  unfold decCode
  rw [rUint_encUint 8 c payload (by simpa using h) (by omega)]

structure SnappyOk (P : Prims) : Prop where
  len : ∀ p, P.snapLen (P.snapEnc p) = some p.length
  dec : ∀ p, P.snapDec (P.snapEnc p) = some p
  bound : ∀ p, (P.snapEnc p).length ≤ 32 + p.length + p.length / 6

/-- a message as the senders build it: 64-bit code, `Size` = length of the payload, which fits a uint32 with room
    for the code. -/
def Msg.Wf (m : Msg) : Prop := m.code < 2 ^ 64 ∧ m.size = m.payload.length ∧ m.size + 9 < 2 ^ 32

/-- reading back one frame produced by `frameWire` for a body of exactly the declared size. -/
theorem readMsgT_frameWire (P : Prims) (hw : Wf P) (snappy : Bool) (d : Dir) (body rest : Bytes) (hf : body.length < 2 ^ 24) :
    readMsgT P snappy d ((frameWire P d body.length body).2 ++ rest) =
      ([32, rsizeOf body.length] ++ (decodeContent P snappy body).1,
        match (decodeContent P snappy body).2 with
        | .ok m => .ok ((frameWire P d body.length body).1, m, rest)
        | .err e => .err e
        | .panic p => .panic p) := by
  unfold readMsgT
  rw [readHeader_frameWire P hw d body.length body rest hf]
  simp only
  rw [readFrame_frameWire P hw _ _ _ body rest rfl]
  simp only
  rw [sliceTo_ok _ _ (by simp)]
  simp only [List.take_left']
  simp only [frameWire, xorKs_length]
  rfl

theorem frame_roundtrip_step (P : Prims) (hw : Wf P) (snappy : Bool) (hs : snappy = true → SnappyOk P) (d : Dir) (m : Msg)
    (hm : m.Wf) (d' : Dir) (w : Bytes) (h : writeMsg P snappy d m = .ok (d', w)) (rest : Bytes) :
    readMsg P snappy d (w ++ rest) = .ok (d', m, rest) := by
  obtain ⟨hc, hsz, h32⟩ := hm
  have hpl := encUint_length_le m.code hc
  rw [writeMsg_eq P hw] at h
  split at h
  · cases h
  · rename_i h1
    split at h
    · cases h
    · rename_i h2
      injection h with h
      -- the declared size is the body length (no uint32 wrap)
      have hfs : ((encUint m.code).length + (framedPayload P snappy m).1) % 2 ^ 32
          = (encUint m.code ++ (framedPayload P snappy m).2).length := by
        cases snappy with
        | false => simp only [framedPayload, Bool.false_eq_true, if_false, List.length_append]; omega
        | true =>
          have hb := (hs rfl).bound m.payload
          simp only [true_and, Nat.not_lt, gt_iff_lt] at h1
          simp only [maxUint24] at h1
          simp only [framedPayload, if_true, List.length_append]
          omega
      rw [hfs] at h h2
      have hlt : (encUint m.code ++ (framedPayload P snappy m).2).length < 2 ^ 24 := by
        simp only [maxUint24] at h2; omega
      have hd' : d' = (frameWire P d (encUint m.code ++ (framedPayload P snappy m).2).length (encUint m.code ++ (framedPayload P snappy m).2)).1 := (congrArg Prod.fst h).symm
      have hw' : w = (frameWire P d (encUint m.code ++ (framedPayload P snappy m).2).length (encUint m.code ++ (framedPayload P snappy m).2)).2 := (congrArg Prod.snd h).symm
      unfold readMsg
      rw [hw', readMsgT_frameWire P hw snappy d _ rest hlt]
      simp only
      unfold decodeContent
      rw [decCode_encUint _ _ hc]
      cases snappy with
      | false =>
        simp only [framedPayload, Bool.false_eq_true, if_false]
        rw [hd']
        simp only [framedPayload, Bool.false_eq_true, if_false]
        congr 2
        cases m; simp_all
      | true =>
        have hso := hs rfl
        simp only [true_and, Nat.not_lt, gt_iff_lt] at h1
        simp only [framedPayload, if_true, hso.len, hso.dec]
        have : ¬ m.payload.length > maxUint24 := by rw [← hsz]; omega
        simp only [this, if_false]
        rw [hd']
        simp only [framedPayload, if_true]
        congr 2
        have : m.payload.length % 2 ^ 32 = m.size := by omega
        cases m; simp_all


/-! ### bounds on what the reader accepts -/

theorem Out.bind_eq_ok {α β : Type} (x : Out α) (f : α → Out β) (b : β) (h : (x >>= f) = .ok b) :
    ∃ a, x = .ok a ∧ f a = .ok b := by
  cases x with
  | ok a => exact ⟨a, rfl, h⟩
  | err e => cases h
  | panic p => cases h

theorem readInt24_lt (b : Bytes) (n : Nat) (h : readInt24 b = .ok n) : n < 2 ^ 24 := by
  unfold readInt24 at h
  obtain ⟨b2, _, h⟩ := Out.bind_eq_ok _ _ _ h
  obtain ⟨b1, _, h⟩ := Out.bind_eq_ok _ _ _ h
  obtain ⟨b0, _, h⟩ := Out.bind_eq_ok _ _ _ h
  injection h with h
  have h0 := b0.toNat_lt
  have h1 := b1.toNat_lt
  have h2 := b2.toNat_lt
  omega

/-- the declared frame size is a 24-bit number, whatever arrives and whatever the keys are. -/
theorem readHeader_fsize_lt (P : Prims) (d : Dir) (conn : Bytes) (mac1 : Bytes) (fsize : Nat) (conn1 : Bytes)
    (h : readHeader P d conn = .ok (mac1, fsize, conn1)) : fsize < 2 ^ 24 := by
  unfold readHeader at h
  obtain ⟨⟨hb, c1⟩, _, h⟩ := Out.bind_eq_ok _ _ _ h
  obtain ⟨h16, _, h⟩ := Out.bind_eq_ok _ _ _ h
  obtain ⟨⟨m1, sh⟩, _, h⟩ := Out.bind_eq_ok _ _ _ h
  obtain ⟨got, _, h⟩ := Out.bind_eq_ok _ _ _ h
  split at h
  · cases h
  · obtain ⟨fs, hfs, h⟩ := Out.bind_eq_ok _ _ _ h
    injection h with h
    injection h with _ h
    injection h with h _
    rw [← h]
    exact readInt24_lt _ _ hfs

theorem rUint_rest_le (k : Nat) (bs : Bytes) (n : Nat) (rest : Bytes) (h : rUint k bs = some (n, rest)) : rest.length ≤ bs.length := by
  unfold rUint at h
  split at h
  · rename_i b r hh
    obtain ⟨hbs, _⟩ := readHead_ok_byte bs b r hh
    split at h
    · cases h
    · injection h with h; injection h with _ h; rw [← h, hbs]; simp
  · rename_i m r hh
    obtain ⟨hbs, _⟩ := readHead_ok_str bs m r hh
    have hle : (r.drop m).length ≤ bs.length := by rw [hbs]; simp; omega
    split at h
    · cases h
    · split at h
      · cases h
      · split at h
        · injection h with h; injection h with _ h; rw [← h]; exact hle
        · split at h
          · cases h
          · split at h
            · cases h
            · injection h with h; injection h with _ h; rw [← h]; exact hle
  · cases h


/-! ### tampered and truncated input -/

/-- the header stage on the writer's header followed by anything. -/
theorem readHeader_hdr (P : Prims) (hw : Wf P) (d : Dir) (fsize : Nat) (X : Bytes) (hf : fsize < 2 ^ 24) :
    readHeader P d (xorKs P d.pos (hdrPlain fsize) ++ tag P (macStep P d.mac (xorKs P d.pos (hdrPlain fsize))) ++ X) =
      .ok (macStep P d.mac (xorKs P d.pos (hdrPlain fsize)), fsize, X) := by
  generalize hench : xorKs P d.pos (hdrPlain fsize) = ench
  have hel : ench.length = 16 := by rw [← hench, xorKs_length, hdrPlain_length]
  have htl : (tag P (macStep P d.mac ench)).length = 16 := tag_length P hw _
  generalize htg : tag P (macStep P d.mac ench) = t1 at htl
  rw [readHeader_eq P hw _ _ (by simp [hel, htl]; omega)]
  have e1 : List.take 16 (ench ++ t1 ++ X) = ench := by rw [List.append_assoc, List.take_left' hel]
  have e2 : List.drop 16 (List.take 32 (ench ++ t1 ++ X)) = t1 := by
    rw [List.take_left' (by simp [hel, htl]), List.drop_left' hel]
  have e3 : List.drop 32 (ench ++ t1 ++ X) = X := by rw [List.drop_left' (by simp [hel, htl])]
  rw [e1, e2, e3, htg]
  simp only [ne_eq, not_true_eq_false, if_false]
  rw [← hench, xorKs_invol]
  unfold hdrPlain
  rw [List.append_assoc, int24_putInt24 _ _ hf]

/-- a header whose first half was altered while the MAC field is the writer's: rejected unless the MAC collides. -/
theorem readHeader_tampered_hdr (P : Prims) (hw : Wf P) (d : Dir) (a b X : Bytes) (ha : a.length = 16) (hb : b.length = 16)
    (hne : tag P (macStep P d.mac a) ≠ b) :
    readHeader P d (a ++ b ++ X) = .err .badHeaderMAC := by
  rw [readHeader_eq P hw _ _ (by simp [ha, hb]; omega)]
  have e1 : List.take 16 (a ++ b ++ X) = a := by rw [List.append_assoc, List.take_left' ha]
  have e2 : List.drop 16 (List.take 32 (a ++ b ++ X)) = b := by
    rw [List.take_left' (by simp [ha, hb]), List.drop_left' ha]
  rw [e1, e2]
  simp only [ne_eq, hne, not_false_eq_true, if_true]

theorem readFrame_tampered (P : Prims) (hw : Wf P) (mac1 : Bytes) (pos fsize : Nat) (c e rest : Bytes)
    (hc : c.length = rsizeOf fsize) (he : e.length = 16)
    (hne : tag P (macStep P (mac1 ++ c) (P.H (mac1 ++ c))) ≠ e) :
    readFrame P mac1 pos fsize (c ++ e ++ rest) = .err .badFrameMAC := by
  rw [readFrame_eq P hw _ _ _ _ (by simp [hc, he])]
  have e1 : List.take (rsizeOf fsize) (c ++ e ++ rest) = c := by rw [List.append_assoc, List.take_left' hc]
  have e2 : List.take 16 (List.drop (rsizeOf fsize) (c ++ e ++ rest)) = e := by
    rw [List.append_assoc, List.drop_left' hc, List.take_left' he]
  rw [e1, e2]
  simp only [ne_eq, hne, not_false_eq_true, if_true]

theorem frameWire_snd (P : Prims) (d : Dir) (fsize : Nat) (body : Bytes) :
    (frameWire P d fsize body).2 =
      xorKs P d.pos (hdrPlain fsize) ++ tag P (macStep P d.mac (xorKs P d.pos (hdrPlain fsize))) ++
        xorKs P (d.pos + 16) (body ++ padOf fsize) ++
        tag P (macStep P (macStep P d.mac (xorKs P d.pos (hdrPlain fsize)) ++ xorKs P (d.pos + 16) (body ++ padOf fsize))
          (P.H (macStep P d.mac (xorKs P d.pos (hdrPlain fsize)) ++ xorKs P (d.pos + 16) (body ++ padOf fsize)))) := rfl

theorem macStep_ne_of_prefix_ne (P : Prims) (m m' s s' : Bytes) (hl : m.length = m'.length) (hne : m ≠ m') :
    macStep P m s ≠ macStep P m' s' := by
  intro h
  unfold macStep at h
  have := List.append_inj_left h hl
  exact hne this

/-- what a successful `writeMsg` returns, in terms of `frameWire` with a body of exactly the declared size. -/
theorem writeMsg_ok_frameWire (P : Prims) (hw : Wf P) (snappy : Bool) (hs : snappy = true → SnappyOk P) (d : Dir) (m : Msg)
    (hm : m.Wf) (d' : Dir) (w : Bytes) (h : writeMsg P snappy d m = .ok (d', w)) :
    ∃ body, body.length < 2 ^ 24 ∧ (d', w) = frameWire P d body.length body ∧ body = encUint m.code ++ (framedPayload P snappy m).2 := by
  obtain ⟨hc, hsz, h32⟩ := hm
  have hpl := encUint_length_le m.code hc
  rw [writeMsg_eq P hw] at h
  split at h
  · cases h
  · rename_i h1
    split at h
    · cases h
    · rename_i h2
      injection h with h
      have hfs : ((encUint m.code).length + (framedPayload P snappy m).1) % 2 ^ 32
          = (encUint m.code ++ (framedPayload P snappy m).2).length := by
        cases snappy with
        | false => simp only [framedPayload, Bool.false_eq_true, if_false, List.length_append]; omega
        | true =>
          have hb := (hs rfl).bound m.payload
          simp only [true_and, Nat.not_lt, gt_iff_lt] at h1
          simp only [maxUint24] at h1
          simp only [framedPayload, if_true, List.length_append]
          omega
      rw [hfs] at h h2
      refine ⟨_, ?_, h.symm, rfl⟩
      simp only [maxUint24] at h2; omega


theorem decodeContent_allocs (P : Prims) (snappy : Bool) (content : Bytes) :
    ∀ a ∈ (decodeContent P snappy content).1, a ≤ max content.length maxUint24 := by
  unfold decodeContent
  cases hdc : decCode content with
  | err e => simp
  | panic p => simp
  | ok r =>
    obtain ⟨code, payload⟩ := r
    have hpl : payload.length ≤ content.length := by
      unfold decCode at hdc
      split at hdc
      · rename_i r hr
        injection hdc with hdc
        rw [hdc] at hr
        exact rUint_rest_le _ _ _ _ hr
      · cases hdc
    cases snappy with
    | false => simp
    | true =>
      simp only [if_true]
      cases hl : P.snapLen payload with
      | none => simp; omega
      | some size =>
        simp only
        by_cases hs : size > maxUint24
        · simp [hs]; omega
        · simp only [hs, if_false]
          cases P.snapDec payload <;> simp <;> omega


/-! ### concrete instances for the non-vacuity examples -/

/-- a toy "hash": the last 32 absorbed bytes, newest first, zero padded. -/
def H0 (x : Bytes) : Bytes := (x.reverse ++ List.replicate 32 0).take 32
def P0 : Prims :=
  { H := H0, E := fun x => (x ++ List.replicate 16 0).take 16, ks := fun n => UInt8.ofNat (7 * n + 3),
    snapEnc := id, snapLen := fun p => some p.length, snapDec := fun p => some p }

theorem P0_wf : Wf P0 := by
  constructor
  · intro x; simp [P0, H0]
  · intro x; simp [P0]

theorem P0_snappy : SnappyOk P0 := by
  constructor
  · intro p; rfl
  · intro p; rfl
  · intro p; simp [P0]; omega

def d0 : Dir := { mac := [1, 2, 3], pos := 5 }
def ms0 : List Msg := [{ code := 3, size := 2, payload := [0xAA, 0xBB] }, { code := 300, size := 0, payload := [] }]



theorem ms0_wf : ∀ m ∈ ms0, m.Wf := by
  intro m hm
  simp only [ms0, List.mem_cons, List.mem_nil_iff, or_false] at hm
  rcases hm with rfl | rfl <;> simp [Msg.Wf]


def m0 : Msg := { code := 3, size := 2, payload := [0xAA, 0xBB] }
theorem m0_wf : m0.Wf := by simp [Msg.Wf, m0]
/-- the wire bytes and egress state of `m0` written from `d0` under `P0` (no snappy). -/
def w0 : Bytes := (frameWire P0 d0 3 [3, 0xAA, 0xBB]).2
def d0' : Dir := (frameWire P0 d0 3 [3, 0xAA, 0xBB]).1

theorem set_ne_self (x : Bytes) (j : Nat) (v : UInt8) (h : j < x.length) (hv : x[j]? ≠ some v) : x.set j v ≠ x := by
  intro e
  have := congrArg (fun y => y[j]?) e
  simp [h] at this
  apply hv
  rw [List.getElem?_eq_getElem h, this]


/-- a second toy instance whose 16-byte MAC tag is injective on headers and on 16-byte frames (for the non-vacuity
    example of the single-byte corollary): the block cipher is constant zero and the "hash" exposes bytes 16..31. -/
def H1 (y : Bytes) : Bytes := ((y.drop 16).take 16 ++ y.take 16 ++ List.replicate 32 0).take 32
def P1 : Prims :=
  { H := H1, E := fun _ => List.replicate 16 0, ks := fun n => UInt8.ofNat (5 * n + 1),
    snapEnc := id, snapLen := fun p => some p.length, snapDec := fun p => some p }

theorem P1_wf : Wf P1 := by
  constructor
  · intro x; simp [P1, H1]; omega
  · intro x; simp [P1]

theorem zipXor_zeros (n : Nat) (s : Bytes) (h : n ≤ s.length) : zipXor (List.replicate n 0) s = s.take n := by
  induction n generalizing s with
  | zero => simp [zipXor]
  | succ n ih =>
    cases s with
    | nil => simp at h
    | cons x xs =>
      simp only [List.replicate_succ, zipXor, List.take_succ_cons, UInt8.zero_xor]
      rw [ih xs (by simpa using h)]

theorem P1_macStep (m s : Bytes) (h : 16 ≤ s.length) : macStep P1 m s = m ++ s.take 16 := by
  simp only [macStep, P1]
  rw [zipXor_zeros 16 s h]

theorem P1_tag_hdr (a : Bytes) (h : a.length = 16) : tag P1 (macStep P1 [] a) = a := by
  rw [P1_macStep [] a (by omega)]
  simp only [List.nil_append, tag, P1, H1]
  rw [List.take_of_length_le (by omega : a.length ≤ 16)]
  simp only [List.drop_of_length_le (by omega : a.length ≤ 16), List.take_nil, List.nil_append]
  rw [List.take_take, List.take_of_length_le (by omega : a.length ≤ 16), List.take_left' (by simp [h])]

theorem P1_tag_frame (hdr c : Bytes) (hh : hdr.length = 16) (hc : c.length = 16) :
    tag P1 (macStep P1 (hdr ++ c) (P1.H (hdr ++ c))) = c := by
  have hH : P1.H (hdr ++ c) = c ++ hdr := by
    simp only [P1, H1]
    rw [List.drop_left' hh, List.take_left' hh, List.take_of_length_le (by omega : c.length ≤ 16)]
    rw [List.append_assoc, ← List.append_assoc c hdr, List.take_left' (by simp [hh, hc])]
  rw [P1_macStep _ _ (by rw [hH]; simp [hh, hc])]
  rw [hH, List.take_left' hc]
  simp only [tag, P1, H1]
  rw [List.append_assoc hdr c c, List.drop_left' hh, List.take_left' hc, List.take_left' hh]
  rw [List.take_take, List.append_assoc, List.take_left' (by simp [hc])]


end Aqv.Net

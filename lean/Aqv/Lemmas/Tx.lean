/-
  Aqv.Lemmas.Tx — helper lemmas about the finite maps and the transaction model (C06, C05).
-/
import Aqv.Model.Tx
namespace Aqv.Tx

theorem lookup_update_eq (m : AMap) (a v : Nat) : lookup (update m a v) a = v := by
  induction m with
  | nil => simp [update, lookup]
  | cons p t ih =>
    obtain ⟨k, x⟩ := p
    by_cases h : k = a
    · simp [update, lookup, h]
    · simp [update, lookup, h, ih]

theorem lookup_update_ne (m : AMap) {a b : Nat} (v : Nat) (h : a ≠ b) : lookup (update m a v) b = lookup m b := by
  induction m with
  | nil => simp [update, lookup, h]
  | cons p t ih =>
    obtain ⟨k, x⟩ := p
    by_cases hk : k = a
    · subst hk; simp [update, lookup, h]
    · by_cases hb : k = b
      · subst hb; simp [update, lookup, hk]
      · simp [update, lookup, hk, hb, ih]

/-- the key supply lemma: replacing the value at `a` changes Σ by exactly the difference. -/
theorem total_update (m : AMap) (a v : Nat) : total (update m a v) + lookup m a = total m + v := by
  induction m with
  | nil => simp [update, lookup, total]
  | cons p t ih =>
    obtain ⟨k, x⟩ := p
    by_cases h : k = a
    · simp [update, lookup, total, h]; omega
    · simp [update, lookup, total, h]; omega

theorem lookup_le_total (m : AMap) (a : Nat) : lookup m a ≤ total m := by
  induction m with
  | nil => simp [lookup]
  | cons p t ih =>
    obtain ⟨k, x⟩ := p
    by_cases h : k = a
    · simp [lookup, total, h]
    · simp [lookup, total, h]; omega

variable {ρ : Type}

@[simp] theorem addBal_nonce (w : World ρ) (a v : Nat) : (addBal w a v).nonce = w.nonce := by
  unfold addBal; split <;> rfl
@[simp] theorem addBal_rest (w : World ρ) (a v : Nat) : (addBal w a v).rest = w.rest := by
  unfold addBal; split <;> rfl
@[simp] theorem subBal_nonce (w : World ρ) (a v : Nat) : (subBal w a v).nonce = w.nonce := by
  unfold subBal; split <;> rfl
@[simp] theorem subBal_rest (w : World ρ) (a v : Nat) : (subBal w a v).rest = w.rest := by
  unfold subBal; split <;> rfl
@[simp] theorem setNonce_bal (w : World ρ) (a n : Nat) : (setNonce w a n).bal = w.bal := rfl
@[simp] theorem setNonce_rest (w : World ρ) (a n : Nat) : (setNonce w a n).rest = w.rest := rfl

theorem addBal_bal_eq (w : World ρ) (a v : Nat) : lookup (addBal w a v).bal a = lookup w.bal a + v := by
  unfold addBal; split
  · next h => simp [h]
  · simp [lookup_update_eq]

theorem addBal_bal_ne (w : World ρ) {a b : Nat} (v : Nat) (h : a ≠ b) : lookup (addBal w a v).bal b = lookup w.bal b := by
  unfold addBal; split
  · rfl
  · simp [lookup_update_ne _ _ h]

theorem subBal_bal_eq (w : World ρ) (a v : Nat) : lookup (subBal w a v).bal a = lookup w.bal a - v := by
  unfold subBal; split
  · next h => simp [h]
  · simp [lookup_update_eq]

theorem subBal_bal_ne (w : World ρ) {a b : Nat} (v : Nat) (h : a ≠ b) : lookup (subBal w a v).bal b = lookup w.bal b := by
  unfold subBal; split
  · rfl
  · simp [lookup_update_ne _ _ h]

theorem total_addBal (w : World ρ) (a v : Nat) : total (addBal w a v).bal = total w.bal + v := by
  unfold addBal; split
  · next h => simp [h]
  · have := total_update w.bal a (lookup w.bal a + v); simp only []; omega

theorem total_subBal (w : World ρ) (a v : Nat) (h : v ≤ lookup w.bal a) : total (subBal w a v).bal + v = total w.bal := by
  unfold subBal; split
  · next h0 => simp [h0]
  · have := total_update w.bal a (lookup w.bal a - v); simp only []; omega

theorem setNonce_nonce_eq (w : World ρ) (a n : Nat) : lookup (setNonce w a n).nonce a = n := by
  simp [setNonce, lookup_update_eq]
theorem setNonce_nonce_ne (w : World ρ) {a b : Nat} (n : Nat) (h : a ≠ b) : lookup (setNonce w a n).nonce b = lookup w.nonce b := by
  simp [setNonce, lookup_update_ne _ _ h]

/-! ### the world handed to the EVM -/

theorem preWorld_bal_sender (m : Msg) (w : World ρ) :
    lookup (preWorld m w).bal m.sender = lookup w.bal m.sender - m.gas * m.gasPrice := by
  unfold preWorld; split <;> simp [subBal_bal_eq]

theorem preWorld_bal_other (m : Msg) (w : World ρ) {b : Nat} (h : m.sender ≠ b) :
    lookup (preWorld m w).bal b = lookup w.bal b := by
  unfold preWorld; split <;> simp [subBal_bal_ne _ _ h]

theorem preWorld_rest (m : Msg) (w : World ρ) : (preWorld m w).rest = w.rest := by
  unfold preWorld; split <;> simp

theorem preWorld_total (m : Msg) (w : World ρ) (h : m.gas * m.gasPrice ≤ lookup w.bal m.sender) :
    total (preWorld m w).bal + m.gas * m.gasPrice = total w.bal := by
  unfold preWorld; split <;> simp [total_subBal _ _ _ h]

theorem preWorld_nonce_sender (m : Msg) (w : World ρ) :
    lookup (preWorld m w).nonce m.sender = if m.to.isSome then nonceInc (lookup w.nonce m.sender) else lookup w.nonce m.sender := by
  unfold preWorld; split
  · simp [setNonce_nonce_eq]
  · simp

theorem preWorld_nonce_other (m : Msg) (w : World ρ) {b : Nat} (h : m.sender ≠ b) :
    lookup (preWorld m w).nonce b = lookup w.nonce b := by
  unfold preWorld; split
  · simp [setNonce_nonce_ne _ _ h]
  · simp

/-! ### inversion of a successful `transitionDb` -/

/-- the EVM invocation `TransitionDb` makes (given the intrinsic gas). -/
def evmOut (env : Env ρ) (m : Msg) (w : World ρ) (ig : Nat) : EvmOut ρ := env.run m (m.gas - ig) (preWorld m w)

/-- gas handed back to the sender: gas left + capped refund. -/
def gasBack (env : Env ρ) (m : Msg) (w : World ρ) (ig : Nat) : Nat :=
  (evmOut env m w ig).gasLeft + refundOf m.gas (evmOut env m w ig).gasLeft (env.refund (evmOut env m w ig).world)

theorem transitionDb_ok {env : Env ρ} {m : Msg} {gp : Nat} {w : World ρ} {r : TxOk ρ}
    (h : transitionDb env m gp w = .ok r) :
    (m.checkNonce = true → lookup w.nonce m.sender = m.nonce) ∧
    m.gas * m.gasPrice ≤ lookup w.bal m.sender ∧
    m.gas ≤ gp ∧
    ∃ ig, intrinsicGas m.data m.to.isNone env.homestead = some ig ∧ ig ≤ m.gas ∧
      (evmOut env m w ig).err ≠ some .insufficientBalance ∧
      r = { world := addBal (addBal (evmOut env m w ig).world m.sender (gasBack env m w ig * m.gasPrice)) env.coinbase
                       ((m.gas - gasBack env m w ig) * m.gasPrice),
            gp := gp - m.gas + gasBack env m w ig, usedGas := m.gas - gasBack env m w ig,
            failed := (evmOut env m w ig).err.isSome } := by
  unfold transitionDb at h
  dsimp only at h
  by_cases h1 : (m.checkNonce && decide (lookup w.nonce m.sender < m.nonce)) = true
  · rw [if_pos h1] at h; cases h
  rw [if_neg h1] at h
  by_cases h2 : (m.checkNonce && decide (lookup w.nonce m.sender > m.nonce)) = true
  · rw [if_pos h2] at h; cases h
  rw [if_neg h2] at h
  by_cases h3 : lookup w.bal m.sender < m.gas * m.gasPrice
  · rw [if_pos h3] at h; cases h
  rw [if_neg h3] at h
  cases hsg : subGas gp m.gas with
  | none => rw [hsg] at h; cases h
  | some gp1 =>
    rw [hsg] at h; dsimp only at h
    cases hig : intrinsicGas m.data m.to.isNone env.homestead with
    | none => rw [hig] at h; cases h
    | some ig =>
      rw [hig] at h; dsimp only at h
      by_cases h5 : m.gas < ig
      · rw [if_pos h5] at h; cases h
      rw [if_neg h5] at h
      by_cases h6 : (env.run m (m.gas - ig) (preWorld m w)).err = some .insufficientBalance
      · rw [if_pos h6] at h; cases h
      rw [if_neg h6] at h
      cases hag : addGas gp1 ((env.run m (m.gas - ig) (preWorld m w)).gasLeft +
          refundOf m.gas (env.run m (m.gas - ig) (preWorld m w)).gasLeft (env.refund (env.run m (m.gas - ig) (preWorld m w)).world)) with
      | none => rw [hag] at h; cases h
      | some gp2 =>
        rw [hag] at h; dsimp only at h
        cases h
        unfold subGas at hsg
        split at hsg
        · cases hsg
        · next h4 =>
          cases hsg
          unfold addGas at hag
          split at hag
          · cases hag
          · next h7 =>
            cases hag
            refine ⟨?_, by omega, by omega, ig, rfl, by omega, h6, rfl⟩
            intro hc
            simp [hc] at h1 h2
            omega

/-
  Aqv.Lemmas.VmMain — the induction over the call tree for Aqv.Model.Vm.run (C07).
-/
import Aqv.Lemmas.VmStep
set_option linter.unusedSimpArgs false
namespace Aqv.Vm
open Aqv.Gen.VmFlags
variable {W V : Type}

theorem execLocal_inl {f : OpF} {i : StepIn W} {fr1 : Frame} {db1 : Db W} {t : Nat} {ev : Event} {r : Res W}
    (h : execLocal f i fr1 db1 t ev = .inl r) :
    r.gas = fr1.gas ∧ r.trace = [ev] ∧ r.out ≠ .panic ∧ r.out ≠ .outOfFuel ∧
    (r.db = db1 ∨ (execWrites f.execFn = true ∧ r.db = db1.app i.eff)) := by
  unfold execLocal at h
  split at h
  · cases h; simp
  · simp only at h
    split at h
    · cases h
      refine ⟨rfl, rfl, by simp, by simp, ?_⟩
      by_cases hw : execWrites f.execFn = true <;> simp [hw]
    · split at h
      · cases h
        refine ⟨rfl, rfl, by simp, by simp, ?_⟩
        by_cases hw : execWrites f.execFn = true <;> simp [hw]
      · cases h

theorem execLocal_inr {f : OpF} {i : StepIn W} {fr1 : Frame} {db1 : Db W} {t : Nat} {ev : Event} {db2 : Db W}
    (h : execLocal f i fr1 db1 t ev = .inr db2) :
    f.halts = false ∧ f.reverts = false ∧ (db2 = db1 ∨ (execWrites f.execFn = true ∧ db2 = db1.app i.eff)) := by
  unfold execLocal at h
  split at h
  · cases h
  · simp only at h
    split at h
    · cases h
    · next hr =>
      split at h
      · cases h
      · next hh =>
        cases h
        refine ⟨by simpa using hh, by simpa using hr, ?_⟩
        by_cases hw : execWrites f.execFn = true <;> simp [hw]

theorem run_zero (env : Env) (o : Nat → StepIn W) (fr : Frame) (db : Db W) (t : Nat) :
    run env o 0 fr db t = ⟨.outOfFuel, fr.gas, db, t, 0, []⟩ := rfl

theorem db1_facts {env : Env} {fr : Frame} {f : OpF} {i : StepIn W} {db db1 : Db W}
    (hl : lookup env.ep i.op = some f) (hre : restricted env fr f i = false)
    (hdb1 : db1 = (if gasTouchesState f.gasFn then db.app i.gasEff else db)) :
    Ext db db1 ∧ (env.byzantium = true → fr.ro = true → db1 = db) := by
  constructor
  · rw [hdb1]; split
    · exact Ext.app _ _
    · exact Ext.refl _
  · intro hb hro
    obtain ⟨_, _, u3, _⟩ := unrestricted_static hl hre hb hro
    rw [hdb1]; simp [u3]

theorem FrameInv.setGas {fr : Frame} (h : FrameInv fr) {x : Nat} (hx : x < two64) (hle : x + fr.mem.lastGasCost ≤ fr.given) :
    FrameInv { fr with gas := x } := ⟨hx, h.2.1, hle, h.2.2.2.1, h.2.2.2.2⟩

theorem run_succ (env : Env) (o : Nat → StepIn W) (fuel : Nat) (fr : Frame) (db : Db W) (t : Nat) :
    run env o (fuel + 1) fr db t = stepWith env o (run env o fuel) fr db t := rfl

theorem stepWith_good {env : Env} (hE : EnvOK env) (o : Nat → StepIn W) (view : W → V)
    (hN : ∀ t w, view ((o t).neutralEff w) = view w) {fuel : Nat} {rec : Frame → Db W → Nat → Res W}
    (ih : Child env view fuel rec) {fr : Frame} {db : Db W} {t : Nat} (hfr : FrameInv fr) (hw : db.WF) :
    Good env view (fuel + 1) fr.gas fr.ro db (stepWith env o rec fr db t) := by
  unfold stepWith
  simp only
  cases hpre : pre env (o t) fr db t with
  | stop r =>
    simp only
    obtain ⟨h1, h2, h3, h4, h5⟩ := pre_stop hpre
    refine ⟨?_, by omega, h3, fun _ => h4, by simp [h2], ?_⟩
    · rcases h5 with h | ⟨f, _, _, _, h⟩ <;> rw [h]
      · exact Ext.refl _
      · exact Ext.app _ _
    · intro hb hro
      rcases h5 with h | ⟨f, hl, hre, hgt, h⟩
      · rw [h]
      · have := (unrestricted_static hl hre hb hro).2.2.1
        rw [this] at hgt; cases hgt
  | go f g ms db1 =>
    simp only
    obtain ⟨hl, hst, hre, hms, hg, hcost, hdb1⟩ := pre_go hpre
    obtain ⟨hinv1, hev, hsum⟩ := paid_inv hfr hpre
    obtain ⟨hext1, hst1⟩ := db1_facts hl hre hdb1
    have hw1 : db1.WF := hext1.wf hw
    obtain ⟨g1, g2, g3, g4, g5⟩ := hfr
    have hgeq : ∀ x, ({ paidFrame fr f g ms with gas := x } : Frame).ro = fr.ro := fun _ => rfl
    by_cases hcr : f.execFn = .opCreate
    · -- CREATE
      simp only [hcr, if_true]
      generalize hfwd : (if env.eip150 = true then (paidFrame fr f g ms).gas - (paidFrame fr f g ms).gas / 64
        else (paidFrame fr f g ms).gas) = fwd
      have hfle : fwd ≤ (paidFrame fr f g ms).gas := by rw [← hfwd]; split <;> omega
      obtain ⟨a1, a2, a3⟩ := create_acct ⟨g1, g2, g3, g4, g5⟩ hpre hcr fwd hfle
      generalize hr : createWrap env rec (o t) fr.depth fr.ro fwd db1 (t + 1) = r
      obtain ⟨hgr, _⟩ := createWrap_good ih hw1 a1 r hr.symm
      have hnostatic : ¬ (env.byzantium = true ∧ fr.ro = true) := by
        intro ⟨hb, hro⟩
        exact (unrestricted_static hl hre hb hro).2.1 hcr
      split
      · exact ⟨hext1.trans hgr.ext, by have := hgr.gas_le; show r.gas ≤ fr.gas; omega, hgr.no_panic,
          fun h => hgr.fuel_ok (by omega), by
            intro e he
            rcases List.mem_cons.mp he with h | h
            · rw [h]; exact hev
            · exact hgr.events e h,
          fun hb hro => absurd ⟨hb, hro⟩ hnostatic⟩
      · obtain ⟨b1, b2⟩ := a3 r.gas hgr.gas_le
        have hmod : ((paidFrame fr f g ms).gas - fwd + r.gas) % two64 = (paidFrame fr f g ms).gas - fwd + r.gas :=
          Nat.mod_eq_of_lt (by omega)
        rw [hmod]
        have hfr2 := hinv1.setGas (x := (paidFrame fr f g ms).gas - fwd + r.gas) (by omega) b2
        have hg2 : Good env view fuel ((paidFrame fr f g ms).gas - fwd + r.gas) fr.ro r.db
            (rec { paidFrame fr f g ms with gas := (paidFrame fr f g ms).gas - fwd + r.gas } r.db r.tick) :=
          ih _ r.db r.tick hfr2 (hgr.ext.wf hw1)
        exact ⟨hext1.trans (hgr.ext.trans hg2.ext), Nat.le_trans hg2.gas_le (by omega), hg2.no_panic,
          fun h => hg2.fuel_ok (by omega), by
            intro e he
            rcases List.mem_cons.mp he with h | h
            · rw [h]; exact hev
            · rcases List.mem_append.mp h with h | h
              · exact hgr.events e h
              · exact hg2.events e h,
          fun hb hro => absurd ⟨hb, hro⟩ hnostatic⟩
    · simp only [hcr, if_false]
      cases hk : execKind f.execFn with
      | some k =>
        simp only
        generalize hcg : (if ((k == CallKind.call || k == CallKind.callcode) && valueNZOf f (o t).args) = true then
            (g.callGasTemp + callStipend) % two64 else g.callGasTemp) = cg
        obtain ⟨a1, a2, a3⟩ := call_acct hE ⟨g1, g2, g3, g4, g5⟩ hpre hk cg hcg.symm
        generalize hr : callWrap env rec k (o t) fr.depth fr.ro cg
          ((k == CallKind.call || k == CallKind.callcode) && valueNZOf f (o t).args) db1 (t + 1) = r
        have hv : env.byzantium = true → fr.ro = true → k = .call →
            ((k == CallKind.call || k == CallKind.callcode) && valueNZOf f (o t).args) = false := by
          intro hb hro hkc
          have := (unrestricted_static hl hre hb hro).2.2.2 (by rw [hk, hkc])
          simp [this]
        obtain ⟨hgr, _⟩ := callWrap_good ih hw1 a1 (hN t) r hr.symm
        have hstat : env.byzantium = true → fr.ro = true → view r.db.cur = view db.cur := by
          intro hb hro
          have hnv : (k == CallKind.call && ((k == CallKind.call || k == CallKind.callcode) && valueNZOf f (o t).args)) = false := by
            by_cases hkc : k = .call
            · rw [hv hb hro hkc]; simp
            · simp [hkc]
          rw [hgr.static hb (by simp [hro, hnv]), hst1 hb hro]
        split
        · exact ⟨hext1.trans hgr.ext, by have := hgr.gas_le; show r.gas ≤ fr.gas; omega, hgr.no_panic,
            fun h => hgr.fuel_ok (by omega), by
              intro e he
              rcases List.mem_cons.mp he with h | h
              · rw [h]; exact hev
              · exact hgr.events e h,
            hstat⟩
        · obtain ⟨b1, b2⟩ := a3 r.gas hgr.gas_le
          have hmod : ((paidFrame fr f g ms).gas + r.gas) % two64 = (paidFrame fr f g ms).gas + r.gas :=
            Nat.mod_eq_of_lt (by omega)
          rw [hmod]
          have hfr2 := hinv1.setGas (x := (paidFrame fr f g ms).gas + r.gas) (by omega) b2
          have hg2 : Good env view fuel ((paidFrame fr f g ms).gas + r.gas) fr.ro r.db
              (rec { paidFrame fr f g ms with gas := (paidFrame fr f g ms).gas + r.gas } r.db r.tick) :=
            ih _ r.db r.tick hfr2 (hgr.ext.wf hw1)
          exact ⟨hext1.trans (hgr.ext.trans hg2.ext), Nat.le_trans hg2.gas_le (by omega), hg2.no_panic,
            fun h => hg2.fuel_ok (by omega), by
              intro e he
              rcases List.mem_cons.mp he with h | h
              · rw [h]; exact hev
              · rcases List.mem_append.mp h with h | h
                · exact hgr.events e h
                · exact hg2.events e h,
            fun hb hro => by rw [hg2.static hb hro, hstat hb hro]⟩
      | none =>
        simp only
        cases hx : execLocal f (o t) (paidFrame fr f g ms) db1 t (eventOf fr (o t) f g ms) with
        | inl r =>
          simp only
          obtain ⟨c1, c2, c3, c4, c5⟩ := execLocal_inl hx
          refine ⟨?_, by rw [c1]; omega, c3, fun _ => c4, by rw [c2]; intro e he; simp at he; rw [he]; exact hev, ?_⟩
          · rcases c5 with h | ⟨_, h⟩ <;> rw [h]
            · exact hext1
            · exact hext1.app_right _
          · intro hb hro
            rcases c5 with h | ⟨hwr, h⟩
            · rw [h, hst1 hb hro]
            · have := (unrestricted_static hl hre hb hro).1
              rw [this] at hwr; cases hwr
        | inr db2 =>
          simp only
          obtain ⟨c1, c2, c3⟩ := execLocal_inr hx
          have hc1 := continuing_costs hE hl hg c1 c2
          have he2 : Ext db db2 := by
            rcases c3 with h | ⟨_, h⟩ <;> rw [h]
            · exact hext1
            · exact hext1.app_right _
          have hg2 := ih (paidFrame fr f g ms) db2 (t + 1) hinv1 (he2.wf hw)
          have hro1 : (paidFrame fr f g ms).ro = fr.ro := rfl
          rw [hro1] at hg2
          exact ⟨he2.trans hg2.ext, Nat.le_trans hg2.gas_le (by omega), hg2.no_panic,
            fun h => hg2.fuel_ok (by omega), by
              intro e he
              rcases List.mem_cons.mp he with h | h
              · rw [h]; exact hev
              · exact hg2.events e h,
            fun hb hro => by
              rw [hg2.static hb hro]
              rcases c3 with h | ⟨hwr, h⟩
              · rw [h, hst1 hb hro]
              · have := (unrestricted_static hl hre hb hro).1
                rw [this] at hwr; cases hwr⟩

theorem run_good {env : Env} (hE : EnvOK env) (o : Nat → StepIn W) (view : W → V)
    (hN : ∀ t w, view ((o t).neutralEff w) = view w) : ∀ fuel, Child env view fuel (run env o fuel) := by
  intro fuel
  induction fuel with
  | zero =>
    intro fr db t _ _
    rw [run_zero]
    exact ⟨Ext.refl _, Nat.le_refl _, by simp, by simp, by simp, fun _ _ => rfl⟩
  | succ fuel ih =>
    intro fr db t hfr hw
    rw [run_succ]
    exact stepWith_good hE o view hN ih hfr hw

end Aqv.Vm

/-
  Aqv.Lemmas.EvmMemTotal — property C08, growth 6: the memory-growth chain (calcMemSize → size prologue of Interpreter.Run →
  memoryGasCost → Resize) for EVERY 256-bit offset/length outside the recorded uint64-wrap range, not only for small requests.
-/
import Aqv.Lemmas.EvmRun
namespace Aqv.Evm
open Aqv Aqv.Big

theorem memory_growth_total (mem : Mem) (cur off len : Nat) (hok : MemOk mem cur) (hcur : cur ≤ 0xffffffff)
    (hnw : ¬ (len ≠ 0 ∧ 0x1fffffffe0 < 32 * EvmSpec.words (off + len) ∧ 32 * EvmSpec.words (off + len) ≤ 0xffffffffe0)) :
    (memorySizeOf (calcMemSize (off : Int) (len : Int)) = none ∧
      EvmSpec.cmem (EvmSpec.memExpand cur off len) - EvmSpec.cmem cur ≥ 2 ^ 60) ∨
    (∃ r, memorySizeOf (calcMemSize (off : Int) (len : Int)) = some r ∧ memoryGasCost mem r = none ∧
      EvmSpec.cmem (EvmSpec.memExpand cur off len) - EvmSpec.cmem cur ≥ 2 ^ 60) ∨
    (∃ r fee mem', memorySizeOf (calcMemSize (off : Int) (len : Int)) = some r ∧ memoryGasCost mem r = some (fee, mem') ∧
      fee.toNat = EvmSpec.cmem (EvmSpec.memExpand cur off len) - EvmSpec.cmem cur ∧
      MemOk (memResize mem' r) (EvmSpec.memExpand cur off len)) := by
  have hcm := cmem_le_of_small hcur
  by_cases hl : len = 0
  · -- zero-length accesses never expand and never fail
    right; right
    have hs : (if len = 0 then 0 else off + len) ≤ 0x1fffffffe0 := by rw [if_pos hl]; decide
    obtain ⟨r, fee, mem', h1, h2, h3, h4⟩ := memory_growth_spec_partial mem cur off len hok hs
    exact ⟨r, fee, mem', h1, h2, h3, h4⟩
  · have hexp : EvmSpec.memExpand cur off len = max cur (EvmSpec.words (off + len)) := by
      unfold EvmSpec.memExpand; rw [if_neg hl]
    have hreq : calcMemSize (off : Int) (len : Int) = ((off + len : Nat) : Int) := by
      rw [calcMemSize_spec, if_neg hl]
    have hspec := memorySizeOf_spec (off + len)
    rw [hreq]
    cases hr : memorySizeOf ((off + len : Nat) : Int) with
    | none =>
      left
      refine ⟨rfl, ?_⟩
      have := hspec.2 hr
      have hw : 0x800000000 ≤ EvmSpec.memExpand cur off len := by rw [hexp]; omega
      have := cmem_ge_of_big hw
      omega
    | some r =>
      have hrv := hspec.1 r hr
      by_cases hsmall : r.toNat ≤ 0x1fffffffe0
      · right; right
        have hs : (if len = 0 then 0 else off + len) ≤ 0x1fffffffe0 := by
          rw [if_neg hl]; have := words_ge (off + len); omega
        obtain ⟨r', fee, mem', h1, h2, h3, h4⟩ := memory_growth_spec_partial mem cur off len hok hs
        rw [hreq, hr] at h1
        cases h1
        exact ⟨r, fee, mem', rfl, h2, h3, h4⟩
      · right; left
        have hbig : r.toNat > 0xffffffffe0 := by
          rw [hrv] at hsmall ⊢
          have := hnw
          omega
        obtain ⟨hgn, hc⟩ := memoryGasCost_overflow mem r hbig
        refine ⟨r, rfl, hgn, ?_⟩
        have hw : EvmSpec.words r.toNat = EvmSpec.words (off + len) := by rw [hrv]; exact words_32_words _
        rw [hw] at hc
        have hge : EvmSpec.cmem (EvmSpec.memExpand cur off len) ≥ EvmSpec.cmem (EvmSpec.words (off + len)) :=
          cmem_mono (by rw [hexp]; omega)
        omega

end Aqv.Evm

/-
  Aqv.Lemmas.Translated.Params — ties the mini-translated fork predicates of package params (isForked, (*ChainConfig).IsHF /
  GetHF / GetBlockVersion / IsHomestead / IsByzantium / IsConstantinople) to the models used by C13 / C14
  (`Aqv.Consensus.Config.isHF / getHF`, `Aqv.Pow.getBlockVersion`) and C08 (`Aqv.Evm.isForked`).
  `*big.Int` heights are `Option Int` in the generated code (nil = none, a nil dereference = panic = result `none`);
  the map `c.HF` is read as a function `Int64 → Option Int`.   Core Lean only.
-/
import Aqv.Lemmas.Translated.Basic
import Aqv.Model.Pow
import Aqv.Model.EvmSelect
namespace Aqv.Lemmas.Translated
open Aqv.Gen

/-- params.isForked never panics; on non-negative heights it is the model's `isForked` (EvmSelect). -/
theorem isForked_translated_eq (s : Option Nat) (head : Nat) :
    Translated.isForked (s.map Nat.cast) (some (head : Int)) = some (Aqv.Evm.isForked s head) := by
  cases s with
  | none => simp [Translated.isForked, Translated.isForked.b1, Aqv.Evm.isForked]
  | some h =>
    simp only [Translated.isForked, Aqv.Evm.isForked, Option.map_some, Option.isNone_some,
      Bool.false_eq_true, ↓reduceIte, tCmp_le_zero]
    simp

/-- the fork map of the consensus model as the Go map `c.HF` (keys are Go `int`s). -/
def hfMapOf (c : Aqv.Consensus.Config) : Int64 → Option Int :=
  fun k => if k.toInt < 0 then none else (c.getHF k.toInt.toNat).map Nat.cast

theorem hfMapOf_ofNat (c : Aqv.Consensus.Config) (hf : Nat) (h : hf < 2 ^ 63) :
    hfMapOf c (Int64.ofNat hf) = (c.getHF hf).map Nat.cast := by
  simp only [hfMapOf, Int64.toInt_ofNat_of_lt h]
  rw [if_neg (by omega)]; simp

/-- params.(*ChainConfig).IsHF -/
theorem ChainConfig_IsHF_translated_eq (c : Aqv.Consensus.Config) (hf : Nat) (h : hf < 2 ^ 63) (num : Nat) :
    Translated.ChainConfig_IsHF (c_HF := hfMapOf c) (Int64.ofNat hf) (some (num : Int)) = some (c.isHF hf num) := by
  simp only [Translated.ChainConfig_IsHF, hfMapOf_ofNat c hf h, Aqv.Consensus.Config.isHF]
  cases hg : c.getHF hf with
  | none => simp
  | some s =>
    have := isForked_translated_eq (some s) num
    simp only [Option.map_some] at this
    simp only [Option.map_some, Option.isNone_some, Bool.false_eq_true, ↓reduceIte, this, Aqv.Evm.isForked]

/-- params.(*ChainConfig).GetHF -/
theorem ChainConfig_GetHF_translated_eq (c : Aqv.Consensus.Config) (hf : Nat) (h : hf < 2 ^ 63) :
    Translated.ChainConfig_GetHF (c_HF := hfMapOf c) (Int64.ofNat hf) = some ((c.getHF hf).map Nat.cast) := by
  simp only [Translated.ChainConfig_GetHF, hfMapOf_ofNat c hf h]
  cases c.getHF hf <;> simp

/-- params.(*ChainConfig).GetBlockVersion: never panics on a non-nil height and returns the model's version. -/
theorem ChainConfig_GetBlockVersion_translated_eq (c : Aqv.Consensus.Config) (height : Nat) :
    Translated.ChainConfig_GetBlockVersion (c_HF := hfMapOf c) (some (height : Int))
      = some (UInt8.ofNat (Aqv.Pow.getBlockVersion c height)) := by
  have h9 := ChainConfig_IsHF_translated_eq c 9 (by decide) height
  have h8 := ChainConfig_IsHF_translated_eq c 8 (by decide) height
  have h5 := ChainConfig_IsHF_translated_eq c 5 (by decide) height
  have e9 : Int64.ofNat 9 = 9 := rfl
  have e8 : Int64.ofNat 8 = 8 := rfl
  have e5 : Int64.ofNat 5 = 5 := rfl
  rw [e9] at h9; rw [e8] at h8; rw [e5] at h5
  simp only [Translated.ChainConfig_GetBlockVersion, Aqv.Pow.getBlockVersion, h9, h8, h5, Option.isNone_some,
    Bool.false_eq_true, ↓reduceIte]
  cases c.isHF 9 height <;> cases c.isHF 8 height <;> cases c.isHF 5 height <;> rfl

/-- params.(*ChainConfig).IsHomestead / IsByzantium / IsConstantinople = isForked(c.<X>Block, num) -/
theorem ChainConfig_IsHomestead_translated_eq (blk : Option Nat) (num : Nat) :
    Translated.ChainConfig_IsHomestead (c_HomesteadBlock := blk.map Nat.cast) (some (num : Int)) = some (Aqv.Evm.isForked blk num) := by
  simp only [Translated.ChainConfig_IsHomestead, isForked_translated_eq]

theorem ChainConfig_IsByzantium_translated_eq (blk : Option Nat) (num : Nat) :
    Translated.ChainConfig_IsByzantium (c_ByzantiumBlock := blk.map Nat.cast) (some (num : Int)) = some (Aqv.Evm.isForked blk num) := by
  simp only [Translated.ChainConfig_IsByzantium, isForked_translated_eq]

theorem ChainConfig_IsConstantinople_translated_eq (blk : Option Nat) (num : Nat) :
    Translated.ChainConfig_IsConstantinople (c_ConstantinopleBlock := blk.map Nat.cast) (some (num : Int)) = some (Aqv.Evm.isForked blk num) := by
  simp only [Translated.ChainConfig_IsConstantinople, isForked_translated_eq]

/-- IsEIP150 / IsEIP155 / IsEIP158 / IsDAOFork = isForked(c.<X>Block, num).  Named arguments pin WHICH field of the chain config
    each switch reads: the statement stops elaborating if the code reads another block number. -/
theorem ChainConfig_eipSwitches_translated_eq (blk : Option Nat) (num : Nat) :
    Translated.ChainConfig_IsEIP150 (c_EIP150Block := blk.map Nat.cast) (some (num : Int)) = some (Aqv.Evm.isForked blk num) ∧
    Translated.ChainConfig_IsEIP155 (c_EIP155Block := blk.map Nat.cast) (some (num : Int)) = some (Aqv.Evm.isForked blk num) ∧
    Translated.ChainConfig_IsEIP158 (c_EIP158Block := blk.map Nat.cast) (some (num : Int)) = some (Aqv.Evm.isForked blk num) ∧
    Translated.ChainConfig_IsDAOFork (c_DAOForkBlock := blk.map Nat.cast) (some (num : Int)) = some (Aqv.Evm.isForked blk num) := by
  refine ⟨?_, ?_, ?_, ?_⟩
  · simp only [Translated.ChainConfig_IsEIP150, isForked_translated_eq]
  · simp only [Translated.ChainConfig_IsEIP155, isForked_translated_eq]
  · simp only [Translated.ChainConfig_IsEIP158, isForked_translated_eq]
  · simp only [Translated.ChainConfig_IsDAOFork, isForked_translated_eq]
end Aqv.Lemmas.Translated

/-
  Aqv.Lemmas.Translated.Rlp — ties the mini-translated rlp.headsize to the RLP model of C11 (`Aqv.Rlp.header`, the model of
  puthead).  `rlp.intsize` is a loop, outside the translator's grammar (it is on the list of expected refusals); it appears as
  the explicit function parameter `intsize` and is characterised by the hypothesis `IntsizeSpec` (number of bytes of the minimal
  big-endian representation), which is what the differential harness of C11 checks on the real function.   Core Lean only.
-/
import Aqv.Gen.Translated
import Aqv.Model.Rlp
import Aqv.Lemmas.Bytes
namespace Aqv.Lemmas.Translated
open Aqv Aqv.Gen

/-- what rlp.intsize computes for a non-zero argument: the length of the minimal big-endian representation. -/
def IntsizeSpec (intsize : UInt64 → Int64) : Prop :=
  ∀ i : UInt64, i ≠ 0 → intsize i = Int64.ofNat (beBytes i.toNat).length

/-- the reference `intsize` (satisfies the spec by definition; `intsize 0 = 1` as in Go). -/
def intsizeRef (i : UInt64) : Int64 := if i = 0 then 1 else Int64.ofNat (beBytes i.toNat).length

theorem intsizeRef_spec : IntsizeSpec intsizeRef := by
  intro i hi; simp [intsizeRef, hi]

/-- rlp.headsize returns the length of the header that the model's `header` (puthead) produces, for every tag base. -/
theorem headsize_translated_eq (intsize : UInt64 → Int64) (hint : IntsizeSpec intsize) (base : Nat) (size : UInt64) :
    (Translated.headsize intsize size).toInt = ((Aqv.Rlp.header base size.toNat).length : Int) := by
  simp only [Translated.headsize, Aqv.Rlp.header]
  by_cases h : size < 56
  · have h' : size.toNat < 56 := by simpa [UInt64.lt_iff_toNat_lt] using h
    simp [h, h']
  · have h' : ¬ size.toNat < 56 := by simpa [UInt64.lt_iff_toNat_lt] using h
    have hne : size ≠ 0 := by intro h0; subst h0; exact h (by decide)
    have hlen : (beBytes size.toNat).length ≤ 8 := beBytes_length_le _ 8 (by have := size.toNat_lt; omega)
    simp only [h, h', decide_false, Bool.false_eq_true, ↓reduceIte, hint size hne, List.length_cons]
    rw [Int64.toInt_add, Int64.toInt_ofNat_of_lt (by omega)]
    have h1 : Int64.toInt 1 = 1 := by decide
    rw [h1, Int.bmod_eq_of_le] <;> omega
end Aqv.Lemmas.Translated

/-
  Aqv.Lemmas.Translated.Basic — facts about the prelude of the generated module `Aqv.Gen.Translated` (the math/big operations
  the mini-translator models) and about `Int64`/`UInt64`, shared by the per-area files that tie each translated Go function
  to the hand-written model (`f_translated_eq`).  Core Lean only.
-/
import Aqv.Gen.Translated
import Aqv.Base.Big
namespace Aqv.Lemmas.Translated
open Aqv.Gen

/-- a big integer whose bit length fits Go's `int` (every value that exists in memory does: 2^63 bits = 2^60 bytes). -/
def Fits (x : Int) : Prop := Aqv.Big.bitLen x < 2 ^ 63

instance (x : Int) : Decidable (Fits x) := by unfold Fits; infer_instance

theorem tBitLen_eq (x : Int) : Translated.Big.bitLen x = Int64.ofNat (Aqv.Big.bitLen x) := by
  simp [Translated.Big.bitLen, Aqv.Big.bitLen, Aqv.Big.natBitLen]

theorem tUint64_eq (x : Int) : Translated.Big.uint64 x = UInt64.ofNat (Aqv.Big.uint64 x) := by
  apply UInt64.toNat_inj.mp
  simp [Translated.Big.uint64, Aqv.Big.uint64]

theorem int64_ofNat_lt (a b : Nat) (ha : a < 2 ^ 63) (hb : b < 2 ^ 63) : Int64.ofNat a < Int64.ofNat b ↔ a < b := by
  rw [Int64.lt_iff_toInt_lt, Int64.toInt_ofNat_of_lt ha, Int64.toInt_ofNat_of_lt hb]
  omega

theorem int64_ofNat_le (a b : Nat) (ha : a < 2 ^ 63) (hb : b < 2 ^ 63) : Int64.ofNat a ≤ Int64.ofNat b ↔ a ≤ b := by
  rw [Int64.le_iff_toInt_le, Int64.toInt_ofNat_of_lt ha, Int64.toInt_ofNat_of_lt hb]
  omega

/-- `x.BitLen() > n` on Go's `int` is `bitLen x > n` -/
theorem tBitLen_gt (x : Int) (n : Nat) (hn : n < 2 ^ 63) (hx : Fits x) :
    (Translated.Big.bitLen x > Int64.ofNat n) ↔ Aqv.Big.bitLen x > n := by
  rw [tBitLen_eq]; exact int64_ofNat_lt _ _ hn hx

theorem tBitLen_le (x : Int) (n : Nat) (hn : n < 2 ^ 63) (hx : Fits x) :
    (Translated.Big.bitLen x ≤ Int64.ofNat n) ↔ Aqv.Big.bitLen x ≤ n := by
  rw [tBitLen_eq]; exact int64_ofNat_le _ _ hx hn

theorem tCmp_lt_zero (x y : Int) : Translated.Big.cmp x y < 0 ↔ x < y := by
  unfold Translated.Big.cmp; split
  · simp [*]
  · split
    · subst_vars; simp
    · simp [*]

theorem tCmp_gt_zero (x y : Int) : Translated.Big.cmp x y > 0 ↔ x > y := by
  unfold Translated.Big.cmp; split
  · rename_i h
    have : ¬ ((-1 : Int64) > 0) := by decide
    simp only [this, false_iff]; omega
  · split
    · subst_vars; simp
    · rename_i h1 h2
      have : ((1 : Int64) > 0) := by decide
      simp only [this, true_iff]; omega

theorem tCmp_le_zero (x y : Int) : Translated.Big.cmp x y ≤ 0 ↔ x ≤ y := by
  have := tCmp_gt_zero x y
  rw [Int64.le_iff_toInt_le]; rw [gt_iff_lt, Int64.lt_iff_toInt_lt] at this
  have h0 : Int64.toInt 0 = 0 := by decide
  omega

theorem tSign_eq_zero (x : Int) : Translated.Big.sign x = 0 ↔ x = 0 := by
  unfold Translated.Big.sign; split
  · have : ¬ ((-1 : Int64) = 0) := by decide
    simp only [this, false_iff]; omega
  · split
    · simp [*]
    · have : ¬ ((1 : Int64) = 0) := by decide
      simp only [this, false_iff]; assumption

theorem natBitLen_gt_iff (n k : Nat) : Aqv.Big.natBitLen n > k ↔ n ≥ 2 ^ k := by
  unfold Aqv.Big.natBitLen
  by_cases h : n = 0
  · subst h; simp
  · rw [if_neg h]
    have := @Nat.log2_lt n k h
    omega

theorem bitLen_natCast_gt (n k : Nat) : Aqv.Big.bitLen (n : Int) > k ↔ n ≥ 2 ^ k := by
  unfold Aqv.Big.bitLen; simp only [Int.natAbs_natCast]; exact natBitLen_gt_iff n k

theorem bitLen_natCast_le (n k : Nat) : Aqv.Big.bitLen (n : Int) ≤ k ↔ n < 2 ^ k := by
  have := bitLen_natCast_gt n k; omega

/-- every natural number below 2^k (k < 2^63) fits. -/
theorem fits_of_lt (n k : Nat) (hk : k < 2 ^ 63) (h : n < 2 ^ k) : Fits (n : Int) := by
  have := (bitLen_natCast_le n k).mpr h
  unfold Fits; omega

theorem uint64_natCast (n : Nat) : Aqv.Big.uint64 (n : Int) = n % 2 ^ 64 := by
  simp [Aqv.Big.uint64]

end Aqv.Lemmas.Translated

/-
  Aqv.Lemmas.Translated.TxSign — ties the mini-translated V arithmetic of core/types (isProtectedV, deriveChainId) and
  crypto.ValidateSignatureValues to the signing model of C12 (`Aqv.TxSign.*`, stated on `Nat`): on the non-negative values
  the model ranges over, the translated `*big.Int` code computes the model function.
  The package-level variables read by ValidateSignatureValues (common.Big1, crypto.secp256k1_N, crypto.secp256k1_halfN) are
  explicit parameters of the generated definition; the tie holds at the model's constants (1, secpN, secpHalfN).  Core Lean only.
-/
import Aqv.Lemmas.Translated.Basic
import Aqv.Model.TxSign
namespace Aqv.Lemmas.Translated
open Aqv.Gen

theorem tBitLen_le_nat (v k : Nat) (hk : k < 2 ^ 63) (hv : Fits (v : Int)) :
    (Translated.Big.bitLen (v : Int) ≤ Int64.ofNat k) ↔ v < 2 ^ k := by
  rw [tBitLen_le _ k hk hv, bitLen_natCast_le]

/-- core/types.isProtectedV on a non-negative V. -/
theorem isProtectedV_translated_eq (v : Nat) (hv : Fits (v : Int)) :
    Translated.isProtectedV (v : Int) = Aqv.TxSign.isProtectedV v := by
  have hb := tBitLen_le_nat v 8 (by decide) hv
  have h8 : (8 : Int64) = Int64.ofNat 8 := rfl
  simp only [Translated.isProtectedV, Translated.isProtectedV.b4, Aqv.TxSign.isProtectedV, tUint64_eq, uint64_natCast, h8, hb]
  by_cases h : v < 2 ^ 8
  · have h' : v < 256 := h
    have e27 : (UInt64.ofNat (v % 2 ^ 64) = 27) ↔ v = 27 := by
      rw [← UInt64.toNat_inj]; simp; omega
    have e28 : (UInt64.ofNat (v % 2 ^ 64) = 28) ↔ v = 28 := by
      rw [← UInt64.toNat_inj]; simp; omega
    simp only [h, e27, e28, decide_true, ↓reduceIte]
    by_cases a : v = 27 <;> by_cases b : v = 28 <;> simp [a, b]
  · have h' : ¬ v < 256 := h
    simp [h]

/-- core/types.deriveChainId on a non-negative V (the uint64 fast path wraps for v < 35, exactly as the model says). -/
theorem deriveChainId_translated_eq (v : Nat) (hv : Fits (v : Int)) :
    Translated.deriveChainId (v : Int) = (Aqv.TxSign.deriveChainId v : Int) := by
  have hb := tBitLen_le_nat v 64 (by decide) hv
  have h64 : (64 : Int64) = Int64.ofNat 64 := rfl
  simp only [Translated.deriveChainId, Translated.deriveChainId.b3, Aqv.TxSign.deriveChainId, tUint64_eq, uint64_natCast, h64, hb]
  by_cases h : v < 2 ^ 64
  · have e27 : (UInt64.ofNat (v % 2 ^ 64) = 27) ↔ v = 27 := by
      rw [← UInt64.toNat_inj]; simp; omega
    have e28 : (UInt64.ofNat (v % 2 ^ 64) = 28) ↔ v = 28 := by
      rw [← UInt64.toNat_inj]; simp; omega
    simp only [h, e27, e28, decide_true, ↓reduceIte]
    by_cases a : v = 27
    · simp [a]
    · by_cases b : v = 28
      · simp [b]
      · simp only [a, b, decide_false, Bool.false_eq_true, ↓reduceIte, or_self]
        rw [UInt64.toNat_div, UInt64.toNat_sub]
        simp only [UInt64.toNat_ofNat']
        simp
        omega
  · simp only [h, decide_false, Bool.false_eq_true, ↓reduceIte]
    omega

/-- crypto.ValidateSignatureValues over abstract constants: the block structure of the Go function computes the model's
    nested conditional. -/
theorem ValidateSignatureValues_translated_abs (one N H : Nat) (v : UInt8) (r s : Nat) (homestead : Bool) :
    Translated.ValidateSignatureValues (g_common_Big1 := (one : Int)) (g_crypto_secp256k1_N := (N : Int)) (g_crypto_secp256k1_halfN := (H : Int)) v (r : Int) (s : Int) homestead
      = (if v.toNat != 0 && v.toNat != 1 then false
         else if decide (r < one) || decide (s < one) then false
         else if homestead && decide (s > H) then false
         else decide (r < N) && decide (s < N)) := by
  have e0 : (v = 0) ↔ v.toNat = 0 := by rw [← UInt8.toNat_inj]; rfl
  have e1 : (v = 1) ↔ v.toNat = 1 := by rw [← UInt8.toNat_inj]; rfl
  simp only [Translated.ValidateSignatureValues, Translated.ValidateSignatureValues.b2, Translated.ValidateSignatureValues.b4,
    Translated.ValidateSignatureValues.b8, Translated.ValidateSignatureValues.b11,
    tCmp_lt_zero, tCmp_gt_zero, e0, e1, Int.ofNat_lt, gt_iff_lt]
  by_cases h0 : v.toNat = 0
  · by_cases hr : r < one <;> by_cases hs : s < one <;> cases homestead <;> by_cases hh : H < s <;> by_cases hrn : r < N <;>
      simp [h0, hr, hs, hh, hrn]
  · by_cases h1 : v.toNat = 1
    · by_cases hr : r < one <;> by_cases hs : s < one <;> cases homestead <;> by_cases hh : H < s <;> by_cases hrn : r < N <;>
        simp [h1, hr, hs, hh, hrn]
    · simp [h0, h1]

/-- crypto.ValidateSignatureValues at the model's constants, for non-negative r, s. -/
theorem ValidateSignatureValues_translated_eq (v : UInt8) (r s : Nat) (homestead : Bool) :
    Translated.ValidateSignatureValues ((1 : Nat) : Int) (Aqv.TxSign.secpN : Nat) (Aqv.TxSign.secpHalfN : Nat) v (r : Int) (s : Int) homestead
      = Aqv.TxSign.validateSignatureValues v.toNat r s homestead := by
  rw [ValidateSignatureValues_translated_abs]; rfl
end Aqv.Lemmas.Translated

/-
  Aqv.Lemmas.Translated.VmNat — the mini-translated core/vm functions (`Aqv.Gen.Translated`, UInt64 with Go's wrap-around)
  refine the `Nat` model of the interpreter used by C07 (`Aqv.Vm.*`, Model/Vm) under the no-overflow guards that model carries.
  Core Lean only.
-/
import Aqv.Lemmas.Translated.Vm
import Aqv.Model.Vm
namespace Aqv.Lemmas.Translated
open Aqv.Gen

/-- core/vm.toWordSize refines the `Nat` model of C07 (`Aqv.Vm.toWordSize`) for every uint64. -/
theorem toWordSize_translated_nat (size : UInt64) :
    (Translated.toWordSize size).toNat = Aqv.Vm.toWordSize size.toNat := by
  have h2 : Aqv.Vm.two64 = 18446744073709551616 := rfl
  have hs := size.toNat_lt
  unfold Translated.toWordSize Aqv.Vm.toWordSize
  rw [h2]
  by_cases h : size > 18446744073709551584
  · have h' : size.toNat > 18446744073709551616 - 1 - 31 := by simpa [UInt64.lt_iff_toNat_lt] using h
    simp only [h, h', decide_true, ↓reduceIte]; decide
  · have h' : ¬ size.toNat > 18446744073709551616 - 1 - 31 := by simpa [UInt64.lt_iff_toNat_lt] using h
    simp only [h, h', decide_false, Bool.false_eq_true, ↓reduceIte]
    rw [UInt64.toNat_div, UInt64.toNat_add]
    simp; omega

/-- reading a translated `(gas, err, lastGasCost')` result in the `Nat` model of C07. -/
def memResNat (len : Nat) (r : UInt64 × Option String × UInt64) : Option (Nat × Aqv.Vm.Mem) :=
  match r.2.1 with
  | some _ => none
  | none => some (r.1.toNat, ⟨len, r.2.2.toNat⟩)

theorem memLen_toNat (slen : Int64) (hs : 0 ≤ slen.toInt) : (memLen slen).toNat = slen.toInt.toNat := by
  have hlt := Int64.toInt_lt slen
  unfold memLen UInt64.ofInt
  rw [UInt64.toNat_ofNat']
  have : (slen.toInt % 2 ^ 64).toNat = slen.toInt.toNat := by
    rw [Int.emod_eq_of_lt hs (by omega)]
  rw [this]
  omega

/-- core/vm.memoryGasCost refines the `Nat` model of C07 as long as `words * words` does not wrap, i.e. for requests of at
    most 0x1fffffffe0 bytes (the bound upstream go-ethereum uses; above it the Go code computes the square modulo 2^64 —
    see `memoryGasCost_nat_model_diverges_witness` and the C08 finding evm-memgas-square-wraps-uint64). -/
theorem memoryGasCost_translated_nat (slen : Int64) (hs : 0 ≤ slen.toInt) (lgc n : UInt64) (hn : n.toNat ≤ 0x1fffffffe0) :
    memResNat slen.toInt.toNat (Translated.memoryGasCost slen lgc n)
      = Aqv.Vm.memoryGasCost ⟨slen.toInt.toNat, lgc.toNat⟩ n.toNat := by
  have hw := toWordSize_translated_nat n
  have hlen := memLen_toNat slen hs
  have hlgc := lgc.toNat_lt
  unfold Translated.memoryGasCost Aqv.Vm.memoryGasCost Translated.Memory_Len
  by_cases h0 : n = 0
  · subst h0; simp [memResNat]
  · have h0' : n.toNat ≠ 0 := fun h => h0 (UInt64.toNat_inj.mp (by simpa using h))
    have h1 : ¬ n > 1099511627744 := by rw [gt_iff_lt, UInt64.lt_iff_toNat_lt]; simp; omega
    have h1' : ¬ n.toNat > 0xffffffffe0 := by omega
    simp only [h0, h0', h1, h1', decide_false, Bool.false_eq_true, ↓reduceIte]
    -- W = number of words, below 2^32
    have hW : Aqv.Vm.toWordSize n.toNat = (n.toNat + 31) / 32 := by
      unfold Aqv.Vm.toWordSize; rw [if_neg]; simp only [Aqv.Vm.two64]; omega
    generalize hWdef : Aqv.Vm.toWordSize n.toNat = W at hw hW ⊢
    have hWlt : W < 4294967296 := by omega
    generalize Translated.toWordSize n = t3 at hw ⊢
    have hsq : W * W < 18446744073709551616 := by
      have := Nat.mul_lt_mul'' hWlt hWlt; omega
    have e4 : (t3 * 32).toNat = W * 32 := by rw [UInt64.toNat_mul, hw]; simp; omega
    have e8 : (t3 * t3).toNat = W * W := by rw [UInt64.toNat_mul, hw]; omega
    have e9 : (t3 * 3).toNat = W * 3 := by rw [UInt64.toNat_mul, hw]; simp; omega
    have e10 : (t3 * t3 / 512).toNat = W * W / 512 := by rw [UInt64.toNat_div, e8]; simp
    have e11 : (t3 * 3 + t3 * t3 / 512).toNat = W * 3 + W * W / 512 := by
      rw [UInt64.toNat_add, e9, e10]; generalize W * W = sq at hsq ⊢; omega
    have hcond : (t3 * 32 > UInt64.ofInt slen.toInt) ↔ (W * 32 > slen.toInt.toNat) := by
      rw [gt_iff_lt, UInt64.lt_iff_toNat_lt, e4]; unfold memLen at hlen; rw [hlen]
    by_cases hc : W * 32 > slen.toInt.toNat
    · have hc' := hcond.mpr hc
      simp only [hc, hc', decide_true, ↓reduceIte, memResNat, Aqv.Vm.memFee, Aqv.Gen.VmFlags.memoryGas,
        Aqv.Gen.VmFlags.quadCoeffDiv, e11, UInt64.toNat_sub, Aqv.Vm.two64]
      generalize W * W = sq at hsq ⊢
      congr 2; omega
    · have hc' : ¬ (t3 * 32 > UInt64.ofInt slen.toInt) := fun h => hc (hcond.mp h)
      simp only [hc', decide_false, Bool.false_eq_true, ↓reduceIte, memResNat]
      rw [if_neg hc]; simp

/-- … and the guard is needed: at 2^37 bytes (2^32 words) the Go code's `words*words` is 0 modulo 2^64, so it charges
    3·2^32 where the `Nat` model of C07 charges 3·2^32 + 2^55. -/
theorem memoryGasCost_nat_model_diverges_witness :
    memResNat 0 (Translated.memoryGasCost 0 0 0x2000000000) = some (12884901888, ⟨0, 12884901888⟩) ∧
    Aqv.Vm.memoryGasCost ⟨0, 0⟩ 0x2000000000 = some (36028809903865856, ⟨0, 36028809903865856⟩) := by
  decide
end Aqv.Lemmas.Translated

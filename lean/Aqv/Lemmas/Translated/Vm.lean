/-
  Aqv.Lemmas.Translated.Vm — ties the mini-translated core/vm and common/math functions (`Aqv.Gen.Translated`, regenerated from
  the go/ssa form of the tree under test) to the hand-written models the property theorems of C07 / C08 are stated on:
  `Aqv.Evm.*` (Model/EvmOps, UInt64 with wrap-around) and `Aqv.Big.safeAdd/safeMul/s256`; the refinements of the `Nat` model of
  C07 (Model/Vm) are in Translated/VmNat.
  If the Go source of one of these functions changes its meaning, its `…_translated_eq` stops proving.   Core Lean only.
-/
import Aqv.Lemmas.Translated.Basic
import Aqv.Model.EvmOps
namespace Aqv.Lemmas.Translated
open Aqv.Gen

/-- core/vm.toWordSize: the generated definition IS the model function of C08 (`Aqv.Evm.toWordSize`). -/
theorem toWordSize_translated_eq : Translated.toWordSize = Aqv.Evm.toWordSize := by
  funext size
  simp only [Translated.toWordSize, Aqv.Evm.toWordSize, Aqv.Big.maxU64]
  by_cases h : size > 18446744073709551584
  · simp [h]
  · simp [h]

theorem SafeAdd_translated_eq : Translated.SafeAdd = Aqv.Big.safeAdd := by
  funext x y; simp [Translated.SafeAdd, Aqv.Big.safeAdd, Aqv.Big.maxU64]

theorem SafeMul_translated_eq (x y : UInt64) : Translated.SafeMul x y = some (Aqv.Big.safeMul x y) := by
  simp only [Translated.SafeMul, Translated.SafeMul.b1, Aqv.Big.safeMul, Aqv.Big.maxU64]
  by_cases hx : x = 0 <;> by_cases hy : y = 0 <;> simp [hx, hy]

/-- SafeSub has no separate model function: `x - y` with wrap-around and the borrow flag. -/
theorem SafeSub_translated_eq (x y : UInt64) : Translated.SafeSub x y = (x - y, decide (x < y)) := by
  simp [Translated.SafeSub]

/-! ### memory gas -/

/-- reading a translated `(gas, err, lastGasCost')` result as the model's `Option (gas × Mem)`: any error is `none`
    (the interpreter turns every gas error into ErrOutOfGas), the memory length is unchanged. -/
def memRes (len : UInt64) (r : UInt64 × Option String × UInt64) : Option (UInt64 × Aqv.Evm.Mem) :=
  match r.2.1 with
  | some _ => none
  | none => some (r.1, ⟨len, r.2.2⟩)

/-- `uint64(mem.Len())` for a store of length `slen` (Go `int`) -/
def memLen (slen : Int64) : UInt64 := UInt64.ofInt slen.toInt

/-- core/vm.memoryGasCost (with `(*Memory).Len`): the generated definition computes the model function of C08. -/
theorem memoryGasCost_translated_eq (slen : Int64) (lgc n : UInt64) :
    memRes (memLen slen) (Translated.memoryGasCost (mem_store_len := slen) (mem_lastGasCost := lgc) n) = Aqv.Evm.memoryGasCost ⟨memLen slen, lgc⟩ n := by
  simp only [Translated.memoryGasCost, Translated.Memory_Len, toWordSize_translated_eq, Aqv.Evm.memoryGasCost, memLen,
    Aqv.Evm.memoryGas, Aqv.Evm.quadCoeffDiv]
  by_cases h0 : n = 0
  · simp [h0, memRes]
  · by_cases h1 : n > 1099511627744
    · simp [h0, h1, memRes]
    · by_cases h2 : Aqv.Evm.toWordSize n * 32 > UInt64.ofInt slen.toInt
      · simp [h0, h1, h2, memRes]
      · simp [h0, h1, h2, memRes]

/-- an error of memoryGasCost is `errGasUintOverflow` and leaves `lastGasCost` untouched. -/
theorem memoryGasCost_translated_err (slen : Int64) (lgc n : UInt64) (e : String)
    (h : (Translated.memoryGasCost slen lgc n).2.1 = some e) :
    e = "vm.errGasUintOverflow" ∧ (Translated.memoryGasCost slen lgc n).2.2 = lgc := by
  simp only [Translated.memoryGasCost] at h ⊢
  repeat' split at h
  all_goals simp_all

/-- the shared shape of gasMLoad / gasMStore / gasMStore8 (`memoryGasCost`, then `SafeAdd(gas, GasFastestStep)`) and gasCreate
    (`+ CreateGas`); `add` is kept abstract so that nothing unfolds into 64-bit literals. -/
theorem gasMemPlus_shape (len : UInt64) (add : UInt64 → UInt64 × Bool) (err : String) (ef : Option String → Option String)
    (hef : ∀ x, x.isSome → (ef x).isSome) (r : UInt64 × Option String × UInt64) :
    (memRes len (if r.2.1.isSome then ((0 : UInt64), ef r.2.1, r.2.2)
                  else if (add r.1).2 then ((0 : UInt64), some err, r.2.2)
                  else ((add r.1).1, none, r.2.2))).map Prod.fst
      = (memRes len r).bind (fun m => Aqv.Evm.chk (add m.1)) := by
  obtain ⟨g, e, l⟩ := r
  cases e with
  | some e =>
    have := hef (some e) rfl
    cases h : ef (some e) with
    | none => simp [h] at this
    | some e' => simp [memRes]
  | none =>
    generalize hsa : add g = sa
    obtain ⟨s1, s2⟩ := sa
    cases s2 <;> simp [memRes, hsa, Aqv.Evm.chk]

theorem gasMLoad_translated_eq (slen : Int64) (lgc n : UInt64) :
    (memRes (memLen slen) (Translated.gasMLoad slen lgc n)).map Prod.fst = Aqv.Evm.gasMemVeryLow ⟨memLen slen, lgc⟩ n := by
  unfold Translated.gasMLoad Aqv.Evm.gasMemVeryLow
  rw [← memoryGasCost_translated_eq, ← SafeAdd_translated_eq]
  exact gasMemPlus_shape _ (fun g => Translated.SafeAdd g 3) _ (fun _ => some "vm.errGasUintOverflow") (fun _ _ => rfl) _

theorem gasMStore_translated_eq (slen : Int64) (lgc n : UInt64) :
    (memRes (memLen slen) (Translated.gasMStore slen lgc n)).map Prod.fst = Aqv.Evm.gasMemVeryLow ⟨memLen slen, lgc⟩ n := by
  unfold Translated.gasMStore Aqv.Evm.gasMemVeryLow
  rw [← memoryGasCost_translated_eq, ← SafeAdd_translated_eq]
  exact gasMemPlus_shape _ (fun g => Translated.SafeAdd g 3) _ (fun _ => some "vm.errGasUintOverflow") (fun _ _ => rfl) _

theorem gasMStore8_translated_eq (slen : Int64) (lgc n : UInt64) :
    (memRes (memLen slen) (Translated.gasMStore8 slen lgc n)).map Prod.fst = Aqv.Evm.gasMemVeryLow ⟨memLen slen, lgc⟩ n := by
  unfold Translated.gasMStore8 Aqv.Evm.gasMemVeryLow
  rw [← memoryGasCost_translated_eq, ← SafeAdd_translated_eq]
  exact gasMemPlus_shape _ (fun g => Translated.SafeAdd g 3) _ (fun _ => some "vm.errGasUintOverflow") (fun _ _ => rfl) _

theorem gasCreate_translated_eq (slen : Int64) (lgc n : UInt64) :
    (memRes (memLen slen) (Translated.gasCreate slen lgc n)).map Prod.fst = Aqv.Evm.gasCreate ⟨memLen slen, lgc⟩ n := by
  unfold Translated.gasCreate Aqv.Evm.gasCreate
  rw [← memoryGasCost_translated_eq, ← SafeAdd_translated_eq]
  exact gasMemPlus_shape _ (fun g => Translated.SafeAdd g 32000) _ (fun x => x) (fun _ h => h) _

theorem gasReturn_translated_eq (slen : Int64) (lgc n : UInt64) :
    (memRes (memLen slen) (Translated.gasReturn slen lgc n)).map Prod.fst = Aqv.Evm.gasReturn ⟨memLen slen, lgc⟩ n := by
  unfold Translated.gasReturn Aqv.Evm.gasReturn
  rw [← memoryGasCost_translated_eq]

theorem gasRevert_translated_eq (slen : Int64) (lgc n : UInt64) :
    (memRes (memLen slen) (Translated.gasRevert slen lgc n)).map Prod.fst = Aqv.Evm.gasReturn ⟨memLen slen, lgc⟩ n := by
  unfold Translated.gasRevert Aqv.Evm.gasReturn
  rw [← memoryGasCost_translated_eq]

/-! ### callGas, bigUint64, calcMemSize, UseGas -/

/-- reading a translated `(value, err)` result as the model's `Option value` (any error is `none`). -/
def errRes {α : Type} (r : α × Option String) : Option α :=
  match r.2 with
  | some _ => none
  | none => some r.1

theorem tBitLen_gt64 (x : Int) (hx : Fits x) : (Translated.Big.bitLen x > (64 : Int64)) ↔ Aqv.Big.bitLen x > 64 :=
  tBitLen_gt x 64 (by decide) hx

/-- core/vm.callGas (`gasTable.CreateBySuicide` is the only field of the gas table it reads). -/
theorem callGas_translated_eq (cbs av base : UInt64) (cc : Int) (hcc : Fits cc) :
    errRes (Translated.callGas (gasTable_CreateBySuicide := cbs) av base cc) = Aqv.Evm.callGas cbs av base cc := by
  have hb := tBitLen_gt64 cc hcc
  simp only [Translated.callGas, Translated.callGas.b2, Translated.callGas.b3, Aqv.Evm.callGas, tUint64_eq]
  by_cases h1 : cbs > 0 <;> by_cases h2 : Aqv.Big.bitLen cc > 64
  all_goals simp only [h1, h2, hb, decide_true, decide_false, ↓reduceIte, Bool.false_eq_true, true_or, false_or, errRes]
  · by_cases h3 : av - base - (av - base) / 64 < UInt64.ofNat (Aqv.Big.uint64 cc) <;> simp [h3]

/-- core/vm.bigUint64 -/
theorem bigUint64_translated_eq (v : Int) (hv : Fits v) : Translated.bigUint64 v = Aqv.Evm.bigUint64 v := by
  have hb := tBitLen_gt64 v hv
  simp only [Translated.bigUint64, Aqv.Evm.bigUint64, tUint64_eq, hb]

/-- core/vm.calcMemSize; `common.Big0` is the package-level variable the Go code returns for a zero length: the model
    returns the number 0, i.e. the tie holds for `common.Big0 = 0` (its initial value `big.NewInt(0)`). -/
theorem calcMemSize_translated_eq (off l : Int) : Translated.calcMemSize 0 off l = Aqv.Evm.calcMemSize off l := by
  simp only [Translated.calcMemSize, Aqv.Evm.calcMemSize, tSign_eq_zero]
  by_cases h : l = 0 <;> simp [h]

/-- core/vm.(*Contract).UseGas: `(ok, c.Gas')`; the interpreter models inline it as `if gas < cost then out-of-gas else gas - cost`. -/
theorem Contract_UseGas_translated_eq (gas cost : UInt64) :
    Translated.Contract_UseGas (c_Gas := gas) cost = if gas < cost then (false, gas) else (true, gas - cost) := by
  simp only [Translated.Contract_UseGas]
  by_cases h : gas < cost <;> simp [h]

/-- common/math.BigMax / BigMin -/
theorem BigMax_translated_eq (x y : Int) : Translated.BigMax x y = max x y := by
  simp only [Translated.BigMax, tCmp_lt_zero]
  by_cases h : x < y <;> simp [h] <;> omega

theorem BigMin_translated_eq (x y : Int) : Translated.BigMin x y = min x y := by
  simp only [Translated.BigMin, tCmp_gt_zero]
  by_cases h : x > y <;> simp [h] <;> omega

/-- common/math.S256 with the package-level variables tt255 / tt256 at their initial values 2^255 / 2^256. -/
theorem S256_translated_eq (x : Int) : Translated.S256 Aqv.Big.tt255 Aqv.Big.tt256 x = Aqv.Big.s256 x := by
  simp only [Translated.S256, Aqv.Big.s256, tCmp_lt_zero]
  by_cases h : x < Aqv.Big.tt255 <;> simp [h]
end Aqv.Lemmas.Translated

/-
  Aqv.Lemmas.Translated.VmPre — ties the mini-translated `RequiredGas` methods of the precompiled contracts
  (core/vm/contracts.go: ecrecover, sha256hash, ripemd160hash, dataCopy, fakebn256Add, fakebn256ScalarMul, fakebn256Pairing;
  a slice parameter is visible to the translator only through `len`, parameter `input_len : Int64`) and the gas-table reads
  gasBalance / gasExtCodeSize / gasSLoad to the models of C07 (`Aqv.Vm.Pre.requiredGas`, Model/VmPrecompile; `gasFn` rows of
  Model/Vm).  bigModExp.RequiredGas (slice indexing, math/big Exp/Mul) is outside the grammar.   Core Lean only.
-/
import Aqv.Gen.Translated
import Aqv.Model.VmPrecompile
namespace Aqv.Lemmas.Translated
open Aqv Aqv.Gen Aqv.Gen.VmFlags

theorem ofInt_toNat_of_nonneg (x : Int) (h0 : 0 ≤ x) (h1 : x < 2 ^ 64) : (UInt64.ofInt x).toNat = x.toNat := by
  unfold UInt64.ofInt
  rw [UInt64.toNat_ofNat', Int.emod_eq_of_lt h0 h1]
  omega

/-- `uint64(len(input) + 31)` -/
theorem lenPlus31 (L : Nat) (h : L < 2 ^ 48) : (UInt64.ofInt (Int64.ofNat L + 31).toInt).toNat = L + 31 := by
  have e31 : Int64.toInt 31 = 31 := by decide
  have hL : (Int64.ofNat L).toInt = L := Int64.toInt_ofNat_of_lt (by omega)
  have : (Int64.ofNat L + 31).toInt = L + 31 := by
    rw [Int64.toInt_add, hL, e31, Int.bmod_eq_of_le] <;> omega
  rw [this, ofInt_toNat_of_nonneg _ (by omega) (by omega)]
  omega

/-- `uint64(len(input) / 192)` -/
theorem lenDiv192 (L : Nat) (h : L < 2 ^ 48) : (UInt64.ofInt (Int64.ofNat L / 192).toInt).toNat = L / 192 := by
  have e : Int64.toInt 192 = 192 := by decide
  have hL : (Int64.ofNat L).toInt = L := Int64.toInt_ofNat_of_lt (by omega)
  have : (Int64.ofNat L / 192).toInt = (L / 192 : Nat) := by
    rw [Int64.toInt_div, hL, e]
    have : Int.tdiv (L : Int) 192 = ((L / 192 : Nat) : Int) := by
      rw [Int.tdiv_eq_ediv_of_nonneg (by omega)]; omega
    rw [this, Int.bmod_eq_of_le] <;> omega
  rw [this, ofInt_toNat_of_nonneg _ (by omega) (by omega)]
  omega

/-- RequiredGas of the seven non-modexp precompiles = the model's `requiredGas addr input` (addresses 1,2,3,4,6,7,8), for
    every input shorter than 2^56 bytes (no `int`/`uint64` wrap-around below that). -/
theorem requiredGas_translated_eq (input : Bytes) (h : input.length < 2 ^ 48) :
    (Translated.ecrecover_RequiredGas (input_len := Int64.ofNat input.length)).toNat = Vm.Pre.requiredGas 1 input ∧
    (Translated.sha256hash_RequiredGas (input_len := Int64.ofNat input.length)).toNat = Vm.Pre.requiredGas 2 input ∧
    (Translated.ripemd160hash_RequiredGas (input_len := Int64.ofNat input.length)).toNat = Vm.Pre.requiredGas 3 input ∧
    (Translated.dataCopy_RequiredGas (input_len := Int64.ofNat input.length)).toNat = Vm.Pre.requiredGas 4 input ∧
    (Translated.fakebn256Add_RequiredGas (input_len := Int64.ofNat input.length)).toNat = Vm.Pre.requiredGas 6 input ∧
    (Translated.fakebn256ScalarMul_RequiredGas (input_len := Int64.ofNat input.length)).toNat = Vm.Pre.requiredGas 7 input ∧
    (Translated.fakebn256Pairing_RequiredGas (input_len := Int64.ofNat input.length)).toNat = Vm.Pre.requiredGas 8 input := by
  have h31 := lenPlus31 input.length h
  have h192 := lenDiv192 input.length h
  refine ⟨rfl, ?_, ?_, ?_, rfl, rfl, ?_⟩
  · simp only [Translated.sha256hash_RequiredGas, Vm.Pre.requiredGas, Vm.Pre.words, sha256PerWordGas, sha256BaseGas,
      UInt64.toNat_add, UInt64.toNat_mul, UInt64.toNat_div, h31]
    simp; omega
  · simp only [Translated.ripemd160hash_RequiredGas, Vm.Pre.requiredGas, Vm.Pre.words, ripemd160PerWordGas, ripemd160BaseGas,
      UInt64.toNat_add, UInt64.toNat_mul, UInt64.toNat_div, h31]
    simp; omega
  · simp only [Translated.dataCopy_RequiredGas, Vm.Pre.requiredGas, Vm.Pre.words, identityPerWordGas, identityBaseGas,
      UInt64.toNat_add, UInt64.toNat_mul, UInt64.toNat_div, h31]
    simp; omega
  · simp only [Translated.fakebn256Pairing_RequiredGas, Vm.Pre.requiredGas, bn256PairingBaseGas, bn256PairingPerPointGas,
      UInt64.toNat_add, UInt64.toNat_mul, h192]
    simp; omega

/-- gasBalance / gasExtCodeSize / gasSLoad return the corresponding field of the gas table and no error (named arguments: the
    theorem fails to elaborate if the code starts reading a different field). -/
theorem gasTableReads_translated_eq (x ms : UInt64) :
    Translated.gasBalance (gt_Balance := x) ms = (x, none) ∧
    Translated.gasExtCodeSize (gt_ExtcodeSize := x) ms = (x, none) ∧
    Translated.gasSLoad (gt_SLoad := x) ms = (x, none) := ⟨rfl, rfl, rfl⟩
end Aqv.Lemmas.Translated

/-
  Aqv.Lemmas.Translated.Tx — ties the mini-translated gas-pool / gas-counter methods of package core to the transaction model
  of C06 (`Aqv.Tx.addGas`, `Aqv.Tx.subGas`, stated on `Nat`): the translated `UInt64` code refines the model.  Core Lean only.
-/
import Aqv.Gen.Translated
import Aqv.Model.Tx
namespace Aqv.Lemmas.Translated
open Aqv.Gen

/-- `(err, cell')` of a pointer-receiver method as `Option Nat` (an error leaves no new value). -/
def cellRes (r : Option String × UInt64) : Option Nat :=
  match r.1 with
  | some _ => none
  | none => some r.2.toNat

/-- core.(*GasPool).SubGas: error = ErrGasLimitReached (model `none`), otherwise the pool decreases by `amount`. -/
theorem GasPool_SubGas_translated_eq (gp amount : UInt64) :
    cellRes (Translated.GasPool_SubGas (gp := gp) amount) = Aqv.Tx.subGas gp.toNat amount.toNat := by
  simp only [Translated.GasPool_SubGas, Aqv.Tx.subGas]
  by_cases h : gp < amount
  · have h' : gp.toNat < amount.toNat := by simpa [UInt64.lt_iff_toNat_lt] using h
    simp [h, h', cellRes]
  · have h' : ¬ gp.toNat < amount.toNat := by simpa [UInt64.lt_iff_toNat_lt] using h
    have : amount ≤ gp := by simpa [UInt64.le_iff_toNat_le] using (Nat.le_of_not_lt h')
    simp [h, h', cellRes, UInt64.toNat_sub_of_le _ _ this]

/-- on error SubGas leaves the pool untouched and the error is ErrGasLimitReached. -/
theorem GasPool_SubGas_translated_err (gp amount : UInt64) (h : gp < amount) :
    Translated.GasPool_SubGas gp amount = (some "core.ErrGasLimitReached", gp) := by
  simp [Translated.GasPool_SubGas, h]

/-- core.(*GasPool).AddGas: `none` = panic("gas pool pushed above uint64"), otherwise the pool grows by `amount`. -/
theorem GasPool_AddGas_translated_eq (gp amount : UInt64) :
    (Translated.GasPool_AddGas gp amount).map (fun r => r.2.toNat) = Aqv.Tx.addGas gp.toNat amount.toNat := by
  have hg := gp.toNat_lt
  have ha := amount.toNat_lt
  have hsub : (18446744073709551615 - amount).toNat = 18446744073709551615 - amount.toNat := by
    rw [UInt64.toNat_sub_of_le _ _ (by rw [UInt64.le_iff_toNat_le]; simp; omega)]; simp
  have hiff : (gp > 18446744073709551615 - amount) ↔ (gp.toNat > Aqv.Tx.uint64Max - amount.toNat) := by
    rw [gt_iff_lt, UInt64.lt_iff_toNat_lt, hsub]; rfl
  have hmax : Aqv.Tx.uint64Max = 18446744073709551615 := rfl
  unfold Translated.GasPool_AddGas Aqv.Tx.addGas
  by_cases h : gp > 18446744073709551615 - amount
  · rw [if_pos (hiff.mp h)]; simp [h]
  · rw [if_neg (fun h' => h (hiff.mpr h'))]
    have h' : ¬ gp.toNat > Aqv.Tx.uint64Max - amount.toNat := fun h' => h (hiff.mpr h')
    rw [hmax] at h'
    simp only [h, decide_false, Bool.false_eq_true, ↓reduceIte, Option.map_some, UInt64.toNat_add]
    rw [Nat.mod_eq_of_lt (by omega)]

/-- core.(*GasPool).Gas reads the pool. -/
theorem GasPool_Gas_translated_eq (gp : UInt64) : Translated.GasPool_Gas gp = gp := rfl

/-- core.(*StateTransition).useGas: `vm.ErrOutOfGas` iff the counter is below `amount` (the model's `m.gas < ig` test for the
    intrinsic gas), otherwise the counter decreases. -/
theorem StateTransition_useGas_translated_eq (gas amount : UInt64) :
    cellRes (Translated.StateTransition_useGas (st_gas := gas) amount)
      = if gas.toNat < amount.toNat then none else some (gas.toNat - amount.toNat) := by
  simp only [Translated.StateTransition_useGas]
  by_cases h : gas < amount
  · have h' : gas.toNat < amount.toNat := by simpa [UInt64.lt_iff_toNat_lt] using h
    simp [h, h', cellRes]
  · have h' : ¬ gas.toNat < amount.toNat := by simpa [UInt64.lt_iff_toNat_lt] using h
    have : amount ≤ gas := by simpa [UInt64.le_iff_toNat_le] using (Nat.le_of_not_lt h')
    simp [h, h', cellRes, UInt64.toNat_sub_of_le _ _ this]

/-- core.(*StateTransition).gasUsed = initialGas − gas (uint64; no wrap while gas ≤ initialGas, which TransitionDb maintains). -/
theorem StateTransition_gasUsed_translated_eq (gas initialGas : UInt64) (h : gas ≤ initialGas) :
    (Translated.StateTransition_gasUsed (st_gas := gas) (st_initialGas := initialGas)).toNat = initialGas.toNat - gas.toNat := by
  simp only [Translated.StateTransition_gasUsed]
  exact UInt64.toNat_sub_of_le _ _ h
end Aqv.Lemmas.Translated

/-
  Aqv.Lemmas.Translated.Rpc — ties the mini-translated rpc.isProtectedMethodName to the model of C18
  (`Aqv.Model.Rpc.isProtected` over `Aqv.Gen.Rpc.params`, whose `protectedNames` are extracted independently from the syntax
  of package rpc by go/extract/cmd/rpcsign).  Core Lean only.
-/
import Aqv.Gen.Translated
import Aqv.Gen.Rpc
import Aqv.Model.Rpc
namespace Aqv.Lemmas.Translated
open Aqv.Gen

/-- the go/ssa body of rpc.isProtectedMethodName decides membership in the list of protected names.  The proof is insensitive
    to the order of the disjuncts in the Go source and to the order of the extracted list (it compares the two sets). -/
theorem isProtectedMethodName_translated_mem (name : String) :
    Translated.isProtectedMethodName name = true ↔ name ∈ Aqv.Gen.Rpc.protectedNames := by
  unfold Translated.isProtectedMethodName      -- the join blocks `isProtectedMethodName.bN` are @[simp]
  simp only [Aqv.Gen.Rpc.protectedNames]
  repeat' split
  all_goals simp_all

theorem isProtectedMethodName_translated_eq :
    Translated.isProtectedMethodName = Aqv.Model.Rpc.isProtected Aqv.Gen.Rpc.params := by
  funext name
  rw [Bool.eq_iff_iff, isProtectedMethodName_translated_mem]
  simp [Aqv.Model.Rpc.isProtected, Aqv.Gen.Rpc.params]

/-- the Go method names that must stay protected: the four names protected at the pinned revision, each of which reaches a
    keystore signing entry point (`Aqv.Gen.Rpc.signers`).  Hand-written, NOT regenerated. -/
def protectedNamesRef : List String := ["SendTransaction", "Sign", "SignAndSendTransaction", "SignTransaction"]

/-- the translated code still protects every one of them (one direction only: protecting MORE names is not a violation). -/
theorem isProtectedMethodName_translated_ref :
    ∀ n ∈ protectedNamesRef, Translated.isProtectedMethodName n = true := by
  intro n hn
  simp only [protectedNamesRef, List.mem_cons, List.not_mem_nil, or_false] at hn
  unfold Translated.isProtectedMethodName
  rcases hn with h | h | h | h <;> subst h <;> simp
end Aqv.Lemmas.Translated

/-
  Aqv.Lemmas.Translated.Rpc — ties the mini-translated rpc.isProtectedMethodName to the model of C18
  (`Aqv.Model.Rpc.isProtected` over `Aqv.Gen.Rpc.params`, whose `protectedNames` are extracted independently from the syntax
  of package rpc by go/extract/cmd/rpcsign).  Core Lean only.
-/
import Aqv.Gen.Translated
import Aqv.Gen.Rpc
import Aqv.Model.Rpc
namespace Aqv.Lemmas.Translated
open Aqv.Gen

/-- the go/ssa body of rpc.isProtectedMethodName decides membership in the list of protected names.  The proof is insensitive
    to the order of the disjuncts in the Go source and to the order of the extracted list (it compares the two sets). -/
theorem isProtectedMethodName_translated_mem (name : String) :
    Translated.isProtectedMethodName name = true ↔ name ∈ Aqv.Gen.Rpc.protectedNames := by
  simp only [Translated.isProtectedMethodName, Translated.isProtectedMethodName.b2, Aqv.Gen.Rpc.protectedNames]
  repeat' split
  all_goals simp_all

theorem isProtectedMethodName_translated_eq :
    Translated.isProtectedMethodName = Aqv.Model.Rpc.isProtected Aqv.Gen.Rpc.params := by
  funext name
  rw [Bool.eq_iff_iff, isProtectedMethodName_translated_mem]
  simp [Aqv.Model.Rpc.isProtected, Aqv.Gen.Rpc.params]
end Aqv.Lemmas.Translated

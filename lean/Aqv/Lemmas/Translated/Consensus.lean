/-
  Aqv.Lemmas.Translated.Consensus — ties the mini-translated difficulty rules of consensus/aquahash/difficulty.go
  (calcDifficultyStarting, calcDifficultyHF1: math/big code that updates the variables `x`, `y` in place — translated as cells
  holding an `Int`) to the consensus model of C13 (`Aqv.Consensus.calcDifficultyStarting / calcDifficultyHF1`).
  The package-level variables the Go code reads are explicit (named) parameters: big1, big10, bigMinus99,
  params.DifficultyBoundDivisor, params.MinimumDifficulty*, params.MainnetChainConfig.ChainId; the tie holds at 1, 10, −99 and the
  regenerated `DiffParams` (values dumped from the compiled params package).   Core Lean only.
-/
import Aqv.Lemmas.Translated.Vm
import Aqv.Model.Consensus
namespace Aqv.Lemmas.Translated
open Aqv.Gen Aqv.Consensus

theorem chainId_eq_iff (c : UInt64) (m : Nat) (hm : m < 2 ^ 64) :
    (c = Translated.Big.uint64 (m : Int)) ↔ c.toNat = m := by
  rw [tUint64_eq, uint64_natCast, ← UInt64.toNat_inj, UInt64.toNat_ofNat']
  have : m % 2 ^ 64 % 2 ^ 64 = m := by omega
  rw [this]

theorem bigMax_eq (x y : Int) : Translated.BigMax x y = bigMax x y := by
  rw [BigMax_translated_eq]; unfold bigMax; omega

/-- consensus/aquahash.calcDifficultyStarting: never panics on a header with non-nil Time / Difficulty and a non-zero divisor,
    and computes the model's `calcDifficultyStarting`. -/
theorem calcDifficultyStarting_translated_eq (P : DiffParams) (hdiv : P.div ≠ 0) (hm : P.mainnetChainId < 2 ^ 64)
    (time : UInt64) (parent : Header) (chainId : UInt64) :
    Translated.calcDifficultyStarting (g_aquahash_big1 := 1) (g_aquahash_big10 := 10) (g_aquahash_bigMinus99 := -99)
        (g_params_DifficultyBoundDivisor := P.div) (g_params_MinimumDifficultyGenesis := P.minGenesis)
        (g_params_MainnetChainConfig_ChainId := some (P.mainnetChainId : Int)) time
        (parent_Difficulty := some parent.difficulty) (parent_Time := some (parent.time : Int)) chainId
      = some (calcDifficultyStarting P time.toNat parent chainId.toNat) := by
  have hc := chainId_eq_iff chainId P.mainnetChainId hm
  unfold Translated.calcDifficultyStarting Aqv.Consensus.calcDifficultyStarting homesteadCore
  simp only [tCmp_lt_zero, Translated.calcDifficultyStarting.b2, Translated.calcDifficultyStarting.b4, hdiv, bigMax_eq, hc,
    show ((10 : Int) = 0) = False from by simp, ↓reduceIte, Int.ofNat_eq_natCast]
  by_cases h1 : (1 : Int) - ((time.toNat : Int) - (parent.time : Int)) / 10 < -99 <;>
    by_cases h2 : chainId.toNat = P.mainnetChainId <;> simp [h1, h2]

/-- consensus/aquahash.calcDifficultyHF1 (same body, minimum `MinimumDifficultyHF1`). -/
theorem calcDifficultyHF1_translated_eq (P : DiffParams) (hdiv : P.div ≠ 0) (hm : P.mainnetChainId < 2 ^ 64)
    (time : UInt64) (parent : Header) (chainId : UInt64) :
    Translated.calcDifficultyHF1 (g_aquahash_big1 := 1) (g_aquahash_big10 := 10) (g_aquahash_bigMinus99 := -99)
        (g_params_DifficultyBoundDivisor := P.div) (g_params_MinimumDifficultyHF1 := P.minHF1)
        (g_params_MainnetChainConfig_ChainId := some (P.mainnetChainId : Int)) time
        (parent_Difficulty := some parent.difficulty) (parent_Time := some (parent.time : Int)) chainId
      = some (calcDifficultyHF1 P time.toNat parent chainId.toNat) := by
  have hc := chainId_eq_iff chainId P.mainnetChainId hm
  unfold Translated.calcDifficultyHF1 Aqv.Consensus.calcDifficultyHF1 homesteadCore
  simp only [tCmp_lt_zero, Translated.calcDifficultyHF1.b2, Translated.calcDifficultyHF1.b4, hdiv, bigMax_eq, hc,
    show ((10 : Int) = 0) = False from by simp, ↓reduceIte, Int.ofNat_eq_natCast]
  by_cases h1 : (1 : Int) - ((time.toNat : Int) - (parent.time : Int)) / 10 < -99 <;>
    by_cases h2 : chainId.toNat = P.mainnetChainId <;> simp [h1, h2]
end Aqv.Lemmas.Translated

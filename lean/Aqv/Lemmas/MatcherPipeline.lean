/-
  Aqv.Lemmas.MatcherPipeline — invariants of the matcher session transition system: whatever the delivery schedule, the sink
  receives a prefix of the per-section pipeline results, in section order; requests are forwarded once; results only after all
  vectors of the section arrived; every non-delivery step decreases a measure (C16).
-/
import Aqv.Model.MatcherPipeline
import Aqv.Lemmas.LogFilterQuery
namespace Aqv.LogFilter

variable (vec : Nat → Nat → Bytes) (size : Nat)

/-- what an item becomes after the remaining stages (none = dropped on the way). -/
def finishThrough : List Group → Item → Option Item
  | [], x => some x
  | g :: gs, x => (stageApply vec size g x).bind (finishThrough gs)

/-- the items in flight, oldest first, already pushed through the stages they still have to pass. -/
def flight : List Stage → List Item
  | [] => []
  | st :: rest => flight rest ++ (st.procq ++ st.inq).filterMap (finishThrough vec size (st.group :: rest.map (·.group)))

theorem pipeStep_groups {cached : List (Nat × Nat)} {a b : List Stage} {out : List Item} {req : List (Nat × Nat)}
    (h : PipeStep vec size cached a b out req) : b.map (·.group) = a.map (·.group) := by
  induction h with
  | sched => rfl
  | procLast => rfl
  | procMid => rfl
  | deeper st rest rest' out req _ ih => simp [ih]

theorem optToList_filterMap {α β : Type} (o : Option α) (f : α → Option β) : o.toList.filterMap f = (o.bind f).toList := by
  cases o with
  | none => rfl
  | some a =>
    simp only [Option.toList, List.filterMap_cons, List.filterMap_nil, Option.bind_some]
    cases f a <;> rfl

/-- a pipeline step moves items along without changing what they will become; what it emits is the head of the flight. -/
theorem pipeStep_flight {cached : List (Nat × Nat)} {a b : List Stage} {out : List Item} {req : List (Nat × Nat)}
    (h : PipeStep vec size cached a b out req) : flight vec size a = out ++ flight vec size b := by
  induction h with
  | sched st rest x q h =>
    simp only [flight, h, List.nil_append]
    congr 1
    simp
  | procLast st x p h hall =>
    simp only [flight, h, List.nil_append, List.map_nil, List.cons_append, List.filterMap_cons]
    simp only [finishThrough]
    cases hs : stageApply vec size st.group x with
    | none => simp [Option.toList]
    | some r => simp [Option.toList]
  | procMid st nxt rest x p h hall =>
    simp only [flight, h, List.nil_append, List.map_cons, List.cons_append, List.filterMap_cons, List.filterMap_append]
    rw [optToList_filterMap]
    have e : finishThrough vec size (st.group :: nxt.group :: rest.map (·.group)) x =
        (stageApply vec size st.group x).bind (finishThrough vec size (nxt.group :: rest.map (·.group))) := rfl
    rw [e]
    cases (stageApply vec size st.group x).bind (finishThrough vec size (nxt.group :: rest.map (·.group))) with
    | none => simp [Option.toList]
    | some r => simp [Option.toList]
  | deeper st rest rest' out req h ih =>
    simp only [flight]
    rw [ih, pipeStep_groups vec size h, List.append_assoc]

/-- the sink will, in the end, have received exactly this. -/
def expected (groups : List Group) (sections : List Nat) : List Item :=
  sections.filterMap (fun s => finishThrough vec size groups (freshItem size s))

/-- safety invariant: received ++ in flight ++ still to feed = expected. -/
def SessInv (groups : List Group) (sections : List Nat) (σ : Sess) : Prop :=
  σ.stages.map (·.group) = groups ∧
  σ.output ++ flight vec size σ.stages ++ σ.source.filterMap (fun s => finishThrough vec size groups (freshItem size s)) =
    expected vec size groups sections

theorem flight_init (groups : List Group) : flight vec size (groups.map (fun g => (⟨g, [], []⟩ : Stage))) = [] := by
  induction groups with
  | nil => rfl
  | cons g gs ih => simp [flight, ih]

theorem sessInv_init (groups : List Group) (sections : List Nat) : SessInv vec size groups sections (initSess groups sections) := by
  constructor
  · simp [initSess, List.map_map, Function.comp_def]
  · simp [initSess, flight_init, expected]

theorem sessInv_step (groups : List Group) (sections : List Nat) (σ σ' : Sess) (hinv : SessInv vec size groups sections σ)
    (hs : Step vec size σ σ') : SessInv vec size groups sections σ' := by
  obtain ⟨hg, hf⟩ := hinv
  cases hs with
  | feedStage s src st rest h hst =>
    refine ⟨by simpa [hst] using hg, ?_⟩
    simp only
    rw [h, hst] at hf
    rw [← hf]
    rw [hst] at hg
    simp only [flight, List.filterMap_cons, List.filterMap_append, List.map_cons] at hg ⊢
    have hg' : st.group :: rest.map (·.group) = groups := hg
    rw [hg']
    cases hx : finishThrough vec size groups (freshItem size s) with
    | none => simp
    | some r => simp
  | feedSink s src h hst =>
    have hg' : groups = [] := by rw [hst] at hg; simpa using hg.symm
    subst hg'
    refine ⟨by simpa [hst] using hg, ?_⟩
    rw [h, hst] at hf
    simp only [hst]
    rw [← hf]
    simp [flight, finishThrough]
  | pipe stages' out req h =>
    refine ⟨by rw [pipeStep_groups vec size h]; exact hg, ?_⟩
    simp only
    rw [← hf, pipeStep_flight vec size h]
    simp [List.append_assoc]
  | deliver p h => exact ⟨hg, hf⟩
  | deliverIgnored => exact ⟨hg, hf⟩

theorem sessInv_reach (groups : List Group) (sections : List Nat) (σ : Sess)
    (h : Reach vec size (initSess groups sections) σ) : SessInv vec size groups sections σ := by
  induction h with
  | refl => exact sessInv_init vec size groups sections
  | step σ σ' _ hs ih => exact sessInv_step vec size groups sections σ σ' ih hs

theorem flight_final (stages : List Stage) (h : ∀ st ∈ stages, st.procq = [] ∧ st.inq = []) : flight vec size stages = [] := by
  induction stages with
  | nil => rfl
  | cons st rest ih =>
    obtain ⟨h1, h2⟩ := h st (by simp)
    simp [flight, h1, h2, ih (fun s hs => h s (by simp [hs]))]

/-! ### the per-section result is the pure pipeline `runSection` -/

theorem finishThrough_eq_fold (groups : List Group) (s : Nat) (b : Bytes) :
    finishThrough vec size groups (s, b) =
      (groups.foldl (fun cur g => cur.bind (subMatch (vec s) size g)) (some b)).map (fun r => (s, r)) := by
  induction groups generalizing b with
  | nil => rfl
  | cons g gs ih =>
    simp only [finishThrough, stageApply, List.foldl_cons, Option.bind_some]
    cases hm : subMatch (vec s) size g b with
    | none =>
      have : ∀ (l : List Group), l.foldl (fun cur g => cur.bind (subMatch (vec s) size g)) (none : Option Bytes) = none := by
        intro l; induction l with
        | nil => rfl
        | cons _ _ ih2 => simpa using ih2
      simp [this]
    | some r => simp [ih r]

theorem finishThrough_fresh (groups : List Group) (s : Nat) :
    finishThrough vec size groups (freshItem size s) = (runSection (vec s) size groups).map (fun r => (s, r)) := by
  unfold freshItem runSection
  exact finishThrough_eq_fold vec size groups s _

/-- extracting the matches from the expected sink content is the session's input/output function `matcherRun`. -/
theorem deliverMatches_expected (index : List (List Bytes)) (groups : List Group) (b e k s0 : Nat) :
    deliverMatches size b e (expected (indexVec index) size groups (List.range' s0 k)) =
      matcherSections index size groups b e k s0 := by
  induction k generalizing s0 with
  | zero => rfl
  | succ k ih =>
    rw [matcherSections_succ, ← ih (s0 + 1), List.range'_succ]
    unfold expected deliverMatches
    rw [List.filterMap_cons, finishThrough_fresh]
    cases hr : runSection (indexVec index s0) size groups with
    | none => simp [sectionPiece]
    | some r => simp [sectionPiece]

/-! ### order -/

theorem finishThrough_section (groups : List Group) (x y : Item) (h : finishThrough vec size groups x = some y) : y.1 = x.1 := by
  induction groups generalizing x with
  | nil => simp [finishThrough] at h; rw [← h]
  | cons g gs ih =>
    simp only [finishThrough, stageApply] at h
    cases hm : subMatch (vec x.1) size g x.2 with
    | none => simp [hm] at h
    | some r =>
      simp only [hm, Option.map_some, Option.bind_some] at h
      exact ih (x.1, r) h

theorem expected_sections_sublist (groups : List Group) (sections : List Nat) :
    ((expected vec size groups sections).map (·.1)).Sublist sections := by
  induction sections with
  | nil => exact List.Sublist.slnil
  | cons s rest ih =>
    unfold expected at *
    rw [List.filterMap_cons]
    cases hx : finishThrough vec size groups (freshItem size s) with
    | none => exact List.Sublist.cons _ ih
    | some y =>
      have := finishThrough_section vec size groups _ _ hx
      simp only [List.map_cons]
      rw [this]
      exact List.Sublist.cons_cons _ ih

/-! ### requests are forwarded once -/

theorem addReqs_inv (needed : List (Nat × Nat)) (requested sent : List (Nat × Nat))
    (h : sent.Nodup ∧ (∀ p ∈ sent, p ∈ requested)) :
    (addReqs needed requested sent).2.Nodup ∧ (∀ p ∈ (addReqs needed requested sent).2, p ∈ (addReqs needed requested sent).1) ∧
    (∀ p ∈ requested, p ∈ (addReqs needed requested sent).1) ∧ (∀ p ∈ needed, p ∈ (addReqs needed requested sent).1) := by
  unfold addReqs
  induction needed generalizing requested sent with
  | nil => exact ⟨h.1, h.2, fun p hp => hp, fun p hp => by cases hp⟩
  | cons p ps ih =>
    simp only [List.foldl_cons]
    by_cases hp : p ∈ requested
    · simp only [hp, if_true]
      obtain ⟨a, b, c, d⟩ := ih requested sent h
      exact ⟨a, b, c, fun q hq => by
        rcases List.mem_cons.mp hq with rfl | hq
        · exact c _ hp
        · exact d q hq⟩
    · simp only [hp, if_false]
      have hns : p ∉ sent := fun hs => hp (h.2 p hs)
      have h' : (sent ++ [p]).Nodup ∧ ∀ q ∈ sent ++ [p], q ∈ p :: requested := by
        constructor
        · rw [List.nodup_append]
          refine ⟨h.1, by simp, ?_⟩
          intro a ha b hb
          simp at hb; subst hb
          exact fun e => hns (e ▸ ha)
        · intro q hq
          rcases List.mem_append.mp hq with hq | hq
          · exact List.mem_cons_of_mem _ (h.2 q hq)
          · simp at hq; subst hq; simp
      obtain ⟨a, b, c, d⟩ := ih (p :: requested) (sent ++ [p]) h'
      exact ⟨a, b, fun q hq => c q (List.mem_cons_of_mem _ hq), fun q hq => by
        rcases List.mem_cons.mp hq with rfl | hq
        · exact c _ (by simp)
        · exact d q hq⟩

/-- scheduler invariant: what went to the distributor has no duplicates, everything sent or cached has a response entry. -/
def ReqInv (σ : Sess) : Prop := σ.sent.Nodup ∧ (∀ p ∈ σ.sent, p ∈ σ.requested) ∧ (∀ p ∈ σ.cached, p ∈ σ.requested)

theorem reqInv_step (σ σ' : Sess) (h : ReqInv σ) (hs : Step vec size σ σ') : ReqInv σ' := by
  obtain ⟨h1, h2, h3⟩ := h
  cases hs with
  | feedStage => exact ⟨h1, h2, h3⟩
  | feedSink => exact ⟨h1, h2, h3⟩
  | pipe stages' out req hp =>
    obtain ⟨a, b, c, _⟩ := addReqs_inv req σ.requested σ.sent ⟨h1, h2⟩
    exact ⟨a, b, fun p hp => c p (h3 p hp)⟩
  | deliver p hp =>
    exact ⟨h1, h2, fun q hq => by
      rcases List.mem_cons.mp hq with rfl | hq
      · exact hp
      · exact h3 q hq⟩
  | deliverIgnored => exact ⟨h1, h2, h3⟩

theorem reqInv_reach (groups : List Group) (sections : List Nat) (σ : Sess)
    (h : Reach vec size (initSess groups sections) σ) : ReqInv σ := by
  induction h with
  | refl => refine ⟨?_, ?_, ?_⟩ <;> simp [initSess]
  | step σ σ' _ hs ih => exact reqInv_step vec size σ σ' ih hs

/-! ### nothing passes a stage before its vectors are there -/

/-- all vectors of the groups `done` for the item's section have been delivered. -/
def Ready (cached : List (Nat × Nat)) (done : List Group) (x : Item) : Prop :=
  ∀ g ∈ done, ∀ b ∈ groupBits g, (b, x.1) ∈ cached

/-- every item waiting at a stage has passed all earlier stages with their vectors delivered. -/
def StagesReady (cached : List (Nat × Nat)) : List Group → List Stage → Prop
  | _, [] => True
  | done, st :: rest => (∀ x ∈ st.procq ++ st.inq, Ready cached done x) ∧ StagesReady cached (done ++ [st.group]) rest

theorem ready_mono {c c' : List (Nat × Nat)} (hc : ∀ p ∈ c, p ∈ c') {done : List Group} {x : Item} (h : Ready c done x) :
    Ready c' done x := fun g hg b hb => hc _ (h g hg b hb)

theorem stagesReady_mono {c c' : List (Nat × Nat)} (hc : ∀ p ∈ c, p ∈ c') (done : List Group) (stages : List Stage)
    (h : StagesReady c done stages) : StagesReady c' done stages := by
  induction stages generalizing done with
  | nil => trivial
  | cons st rest ih => exact ⟨fun x hx => ready_mono hc (h.1 x hx), ih _ h.2⟩

theorem stageApply_section (g : Group) (x y : Item) (h : y ∈ (stageApply vec size g x).toList) : y.1 = x.1 := by
  unfold stageApply at h
  cases hm : subMatch (vec x.1) size g x.2 with
  | none => simp [hm, Option.toList] at h
  | some r => simp [hm, Option.toList] at h; rw [h]

theorem ready_snoc {c : List (Nat × Nat)} {done : List Group} {g : Group} {x y : Item} (hy : y.1 = x.1)
    (h : Ready c done x) (hall : ∀ b ∈ groupBits g, (b, x.1) ∈ c) : Ready c (done ++ [g]) y := by
  intro g' hg' b hb
  rw [hy]
  rcases List.mem_append.mp hg' with h1 | h1
  · exact h g' h1 b hb
  · simp at h1; subst h1; exact hall b hb

theorem pipeStep_ready {cached : List (Nat × Nat)} {a b : List Stage} {out : List Item} {req : List (Nat × Nat)}
    (h : PipeStep vec size cached a b out req) (done : List Group) (hr : StagesReady cached done a) :
    StagesReady cached done b ∧ ∀ y ∈ out, Ready cached (done ++ a.map (·.group)) y := by
  induction h generalizing done with
  | sched st rest x q h =>
    refine ⟨⟨?_, hr.2⟩, fun y hy => by cases hy⟩
    intro y hy
    apply hr.1 y
    rw [h]
    simpa [List.append_assoc] using hy
  | procLast st x p h hall =>
    have hx : Ready cached done x := hr.1 x (by rw [h]; simp)
    refine ⟨⟨fun y hy => hr.1 y ?_, trivial⟩, ?_⟩
    · rw [h]
      rcases List.mem_append.mp hy with hy | hy
      · exact List.mem_append_left _ (List.mem_cons_of_mem _ hy)
      · exact List.mem_append_right _ hy
    · intro y hy
      exact ready_snoc (stageApply_section vec size _ _ _ hy) hx hall
  | procMid st nxt rest x p h hall =>
    have hx : Ready cached done x := hr.1 x (by rw [h]; simp)
    refine ⟨⟨fun y hy => hr.1 y ?_, ?_, hr.2.2⟩, fun y hy => by cases hy⟩
    · rw [h]
      rcases List.mem_append.mp hy with hy | hy
      · exact List.mem_append_left _ (List.mem_cons_of_mem _ hy)
      · exact List.mem_append_right _ hy
    · intro y hy
      rcases List.mem_append.mp hy with hy | hy
      · exact hr.2.1 y (List.mem_append_left _ hy)
      · rcases List.mem_append.mp hy with hy | hy
        · exact hr.2.1 y (List.mem_append_right _ hy)
        · exact ready_snoc (stageApply_section vec size _ _ _ hy) hx hall
  | deeper st rest rest' out req h ih =>
    obtain ⟨i1, i2⟩ := ih (done ++ [st.group]) hr.2
    refine ⟨⟨hr.1, i1⟩, ?_⟩
    intro y hy
    have := i2 y hy
    simpa [List.append_assoc] using this

/-- invariant: items wait only at stages whose predecessors had their vectors; everything at the sink had all of them. -/
def ReadyInv (groups : List Group) (σ : Sess) : Prop :=
  σ.stages.map (·.group) = groups ∧ StagesReady σ.cached [] σ.stages ∧ ∀ y ∈ σ.output, Ready σ.cached groups y

theorem readyInv_step (groups : List Group) (σ σ' : Sess) (h : ReadyInv groups σ) (hs : Step vec size σ σ') : ReadyInv groups σ' := by
  obtain ⟨hg, h1, h2⟩ := h
  cases hs with
  | feedStage s src st rest hsrc hst =>
    refine ⟨by simpa [hst] using hg, ?_, h2⟩
    rw [hst] at h1
    refine ⟨?_, h1.2⟩
    intro y hy
    simp only [List.mem_append, List.mem_singleton] at hy
    rcases hy with hy | hy | hy
    · exact h1.1 y (by simp [hy])
    · exact h1.1 y (by simp [hy])
    · intro g hg; cases hg
  | feedSink s src hsrc hst =>
    refine ⟨by simpa [hst] using hg, by rw [hst] at h1 ⊢; exact h1, ?_⟩
    intro y hy
    have hg' : groups = [] := by rw [hst] at hg; simpa using hg.symm
    subst hg'
    intro g hg; cases hg
  | pipe stages' out req hp =>
    obtain ⟨i1, i2⟩ := pipeStep_ready vec size hp [] h1
    refine ⟨by rw [pipeStep_groups vec size hp]; exact hg, i1, ?_⟩
    intro y hy
    rcases List.mem_append.mp hy with hy | hy
    · exact h2 y hy
    · have := i2 y hy
      simpa [hg] using this
  | deliver p hp =>
    have hc : ∀ q ∈ σ.cached, q ∈ p :: σ.cached := fun q hq => List.mem_cons_of_mem _ hq
    exact ⟨hg, stagesReady_mono hc [] _ h1, fun y hy => ready_mono hc (h2 y hy)⟩
  | deliverIgnored => exact ⟨hg, h1, h2⟩

theorem stagesReady_init (done groups : List Group) (c : List (Nat × Nat)) :
    StagesReady c done (groups.map (fun g => (⟨g, [], []⟩ : Stage))) := by
  induction groups generalizing done with
  | nil => trivial
  | cons g gs ih =>
    refine ⟨?_, ih _⟩
    intro x hx
    simp at hx

theorem readyInv_reach (groups : List Group) (sections : List Nat) (σ : Sess)
    (h : Reach vec size (initSess groups sections) σ) : ReadyInv groups σ := by
  induction h with
  | refl =>
    exact ⟨by simp [initSess, List.map_map, Function.comp_def], stagesReady_init [] groups [], fun y hy => by cases hy⟩
  | step σ σ' _ hs ih => exact readyInv_step vec size groups σ σ' ih hs

/-! ### termination: every non-delivery step decreases a measure; a session with its deliveries made is never stuck -/

/-- weighted number of items still on their way (weight = number of channel hops to the sink). -/
def stagesMu : List Stage → Nat
  | [] => 0
  | st :: rest => (2 * rest.length + 2) * st.inq.length + (2 * rest.length + 1) * st.procq.length + stagesMu rest

def Sess.mu (σ : Sess) : Nat := (2 * σ.stages.length + 1) * σ.source.length + stagesMu σ.stages

theorem pipeStep_mu {cached : List (Nat × Nat)} {a b : List Stage} {out : List Item} {req : List (Nat × Nat)}
    (h : PipeStep vec size cached a b out req) : stagesMu b < stagesMu a ∧ b.length = a.length := by
  induction h with
  | sched st rest x q h =>
    refine ⟨?_, rfl⟩
    simp only [stagesMu, h, List.length_append, List.length_cons, List.length_nil, Nat.mul_add, Nat.add_mul]
    omega
  | procLast st x p h hall =>
    refine ⟨?_, rfl⟩
    simp only [stagesMu, h, List.length_cons, List.length_nil, Nat.mul_add, Nat.add_mul]
    omega
  | procMid st nxt rest x p h hall =>
    refine ⟨?_, rfl⟩
    have hl : (stageApply vec size st.group x).toList.length ≤ 1 := by
      cases stageApply vec size st.group x <;> simp [Option.toList]
    simp only [stagesMu, h, List.length_append, List.length_cons, Nat.mul_add, Nat.add_mul]
    generalize (stageApply vec size st.group x).toList.length = t at hl
    have : t = 0 ∨ t = 1 := by omega
    rcases this with rfl | rfl <;> simp only [Nat.mul_zero, Nat.mul_one] <;> omega
  | deeper st rest rest' out req h ih =>
    obtain ⟨i1, i2⟩ := ih
    refine ⟨?_, by simp [i2]⟩
    simp only [stagesMu, i2]
    omega

/-- feeding and every pipeline step strictly decrease the measure; deliveries leave it unchanged. -/
theorem step_mu (σ σ' : Sess) (hs : Step vec size σ σ') : σ'.mu ≤ σ.mu ∧ (σ'.cached = σ.cached → σ' = σ ∨ σ'.mu < σ.mu) := by
  cases hs with
  | feedStage s src st rest h hst =>
    have : ({ σ with source := src, stages := { st with inq := st.inq ++ [freshItem size s] } :: rest } : Sess).mu < σ.mu := by
      simp only [Sess.mu, stagesMu, h, hst, List.length_append, List.length_cons, List.length_nil, Nat.mul_add, Nat.add_mul]
      omega
    exact ⟨Nat.le_of_lt this, fun _ => Or.inr this⟩
  | feedSink s src h hst =>
    have : ({ σ with source := src, output := σ.output ++ [freshItem size s] } : Sess).mu < σ.mu := by
      simp only [Sess.mu, stagesMu, h, hst, List.length_cons, List.length_nil]
      omega
    exact ⟨Nat.le_of_lt this, fun _ => Or.inr this⟩
  | pipe stages' out req hp =>
    obtain ⟨i1, i2⟩ := pipeStep_mu vec size hp
    have : ({ σ with stages := stages', output := σ.output ++ out, requested := (addReqs req σ.requested σ.sent).1,
                     sent := (addReqs req σ.requested σ.sent).2 } : Sess).mu < σ.mu := by
      simp only [Sess.mu, i2]
      omega
    exact ⟨Nat.le_of_lt this, fun _ => Or.inr this⟩
  | deliver p hp => exact ⟨Nat.le_refl _, fun _ => Or.inr (by simp at *)⟩
  | deliverIgnored => exact ⟨Nat.le_refl _, fun _ => Or.inl rfl⟩

/-- the vectors of everything waiting in a `process` channel have been requested. -/
def ProcRequested (requested : List (Nat × Nat)) (stages : List Stage) : Prop :=
  ∀ st ∈ stages, ∀ x ∈ st.procq, ∀ b ∈ groupBits st.group, (b, x.1) ∈ requested

theorem pipeStep_procRequested {cached : List (Nat × Nat)} {a b : List Stage} {out : List Item} {req : List (Nat × Nat)}
    (h : PipeStep vec size cached a b out req) (r r' : List (Nat × Nat)) (hr : ProcRequested r a)
    (hmono : ∀ p ∈ r, p ∈ r') (hreq : ∀ p ∈ req, p ∈ r') : ProcRequested r' b := by
  induction h with
  | sched st rest x q h =>
    intro st' hst' y hy b hb
    rcases List.mem_cons.mp hst' with rfl | hst'
    · simp only [List.mem_append, List.mem_singleton] at hy
      rcases hy with hy | rfl
      · exact hmono _ (hr st (by simp) y hy b hb)
      · exact hreq _ (List.mem_map.mpr ⟨b, hb, rfl⟩)
    · exact hmono _ (hr st' (by simp [hst']) y hy b hb)
  | procLast st x p h hall =>
    intro st' hst' y hy b hb
    simp only [List.mem_singleton] at hst'
    subst hst'
    exact hmono _ (hr st (by simp) y (by rw [h]; exact List.mem_cons_of_mem _ hy) b hb)
  | procMid st nxt rest x p h hall =>
    intro st' hst' y hy b hb
    rcases List.mem_cons.mp hst' with rfl | hst'
    · exact hmono _ (hr st (by simp) y (by rw [h]; exact List.mem_cons_of_mem _ hy) b hb)
    · rcases List.mem_cons.mp hst' with rfl | hst'
      · exact hmono _ (hr nxt (by simp) y hy b hb)
      · exact hmono _ (hr st' (by simp [hst']) y hy b hb)
  | deeper st rest rest' out req h ih =>
    intro st' hst' y hy b hb
    rcases List.mem_cons.mp hst' with rfl | hst'
    · exact hmono _ (hr st' (by simp) y hy b hb)
    · exact ih (fun s hs => hr s (by simp [hs])) hreq st' hst' y hy b hb

theorem procRequested_reach (groups : List Group) (sections : List Nat) (σ : Sess)
    (h : Reach vec size (initSess groups sections) σ) : ProcRequested σ.requested σ.stages := by
  induction h with
  | refl =>
    intro st hst x hx
    simp only [initSess, List.mem_map] at hst
    obtain ⟨g, _, rfl⟩ := hst
    cases hx
  | step σ σ' hreach hs ih =>
    cases hs with
    | feedStage s src st rest h hst =>
      intro st' hst' y hy b hb
      rw [hst] at ih
      rcases List.mem_cons.mp hst' with rfl | hst'
      · exact ih st (by simp) y hy b hb
      · exact ih st' (by simp [hst']) y hy b hb
    | feedSink => exact ih
    | pipe stages' out req hp =>
      obtain ⟨_, _, c, d⟩ := addReqs_inv req σ.requested σ.sent
        ⟨(reqInv_reach vec size groups sections σ hreach).1, (reqInv_reach vec size groups sections σ hreach).2.1⟩
      exact pipeStep_procRequested vec size hp _ _ ih c d
    | deliver => exact ih
    | deliverIgnored => exact ih

/-- a chain of stages with something in it can move, provided the heads of the `process` channels have their vectors. -/
theorem pipeStep_exists (cached : List (Nat × Nat)) (stages : List Stage)
    (hne : ∃ st ∈ stages, st.procq ≠ [] ∨ st.inq ≠ [])
    (hready : ∀ st ∈ stages, ∀ x ∈ st.procq, ∀ b ∈ groupBits st.group, (b, x.1) ∈ cached) :
    ∃ b out req, PipeStep vec size cached stages b out req := by
  induction stages with
  | nil => obtain ⟨st, hst, _⟩ := hne; cases hst
  | cons st rest ih =>
    cases hi : st.inq with
    | cons x q => exact ⟨_, _, _, PipeStep.sched st rest x q hi⟩
    | nil =>
      cases hp : st.procq with
      | cons x p =>
        have hall := hready st (by simp) x (by rw [hp]; simp)
        cases rest with
        | nil => exact ⟨_, _, _, PipeStep.procLast st x p hp hall⟩
        | cons nxt rest' => exact ⟨_, _, _, PipeStep.procMid st nxt rest' x p hp hall⟩
      | nil =>
        have hne' : ∃ s ∈ rest, s.procq ≠ [] ∨ s.inq ≠ [] := by
          obtain ⟨s, hs, hor⟩ := hne
          rcases List.mem_cons.mp hs with rfl | hs
          · rcases hor with h | h
            · exact absurd hp h
            · exact absurd hi h
          · exact ⟨s, hs, hor⟩
        obtain ⟨b, out, req, hstep⟩ := ih hne' (fun s hs => hready s (by simp [hs]))
        exact ⟨_, _, _, PipeStep.deeper st rest b out req hstep⟩

/-- progress: a reachable session whose requested vectors have all been delivered is finished or can take a step that
    strictly decreases the measure. -/
theorem session_progress (groups : List Group) (sections : List Nat) (σ : Sess)
    (h : Reach vec size (initSess groups sections) σ) (hdel : ∀ p ∈ σ.requested, p ∈ σ.cached) :
    σ.final ∨ ∃ σ', Step vec size σ σ' ∧ σ'.mu < σ.mu := by
  cases hsrc : σ.source with
  | cons s src =>
    right
    cases hst : σ.stages with
    | nil =>
      refine ⟨_, Step.feedSink σ s src hsrc hst, ?_⟩
      simp only [Sess.mu, stagesMu, hsrc, hst, List.length_cons, List.length_nil]
      omega
    | cons st rest =>
      refine ⟨_, Step.feedStage σ s src st rest hsrc hst, ?_⟩
      simp only [Sess.mu, stagesMu, hsrc, hst, List.length_append, List.length_cons, List.length_nil, Nat.mul_add, Nat.add_mul]
      omega
  | nil =>
    by_cases hne : ∃ st ∈ σ.stages, st.procq ≠ [] ∨ st.inq ≠ []
    · right
      have hpr := procRequested_reach vec size groups sections σ h
      obtain ⟨b, out, req, hstep⟩ := pipeStep_exists vec size σ.cached σ.stages hne
        (fun st hst x hx bit hb => hdel _ (hpr st hst x hx bit hb))
      refine ⟨_, Step.pipe σ b out req hstep, ?_⟩
      obtain ⟨i1, i2⟩ := pipeStep_mu vec size hstep
      simp only [Sess.mu, i2]
      omega
    · left
      refine ⟨hsrc, fun st hst => ?_⟩
      constructor
      · cases hq : st.procq with
        | nil => rfl
        | cons x p => exact absurd ⟨st, hst, Or.inl (by rw [hq]; simp)⟩ hne
      · cases hq : st.inq with
        | nil => rfl
        | cons x p => exact absurd ⟨st, hst, Or.inr (by rw [hq]; simp)⟩ hne

end Aqv.LogFilter

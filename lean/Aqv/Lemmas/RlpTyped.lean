/-
  Lemmas about the typed RLP model (Aqv.Model.RlpTyped): the element loops `decMany`/`decN` for an arbitrary element
  decoder, then — by mutual structural recursion over `Ty` — round trip, canonicity, consumption and totality of `decTy`.
-/
import Aqv.Lemmas.RlpTypedPrim
namespace Aqv.Rlp
open Aqv

/-! ### element loops, generic in the element decoder `d` and encoder `e` -/

theorem decMany_enc (d : Bytes → Except TErr (Val × Bytes)) (e : Val → Bytes) :
    ∀ (vs : List Val) (f : Nat),
      (∀ v ∈ vs, e v ≠ [] ∧ ∀ rest, d (e v ++ rest) = .ok (v, rest)) →
      ((vs.map e).flatten).length ≤ f →
      decMany d f ((vs.map e).flatten) = .ok vs := by
  intro vs
  induction vs with
  | nil => intro f _ _; cases f <;> simp [decMany]
  | cons v vs ih =>
    intro f hv hf
    obtain ⟨hne, hd⟩ := hv v (by simp)
    simp only [List.map_cons, List.flatten_cons] at hf ⊢
    cases he : e v with
    | nil => exact absurd he hne
    | cons b t =>
      rw [he] at hf
      simp only [List.cons_append, List.length_cons, List.length_append] at hf
      obtain ⟨g, rfl⟩ : ∃ g, f = g + 1 := ⟨f - 1, by omega⟩
      simp only [List.cons_append, decMany]
      rw [← List.cons_append, ← he, hd]
      simp only
      rw [ih g (fun w hw => hv w (by simp [hw])) (by omega)]

theorem decN_enc (d : Bytes → Except TErr (Val × Bytes)) (e : Val → Bytes) :
    ∀ (vs : List Val) (rest : Bytes),
      (∀ v ∈ vs, e v ≠ [] ∧ ∀ r, d (e v ++ r) = .ok (v, r)) →
      decN d vs.length ((vs.map e).flatten ++ rest) = .ok (vs, rest) := by
  intro vs
  induction vs with
  | nil => intro rest _; simp [decN]
  | cons v vs ih =>
    intro rest hv
    obtain ⟨hne, hd⟩ := hv v (by simp)
    simp only [List.map_cons, List.flatten_cons, List.length_cons, List.append_assoc]
    cases he : e v with
    | nil => exact absurd he hne
    | cons b t =>
      simp only [List.cons_append, decN]
      rw [← List.cons_append, ← he, hd]
      simp only
      rw [ih rest (fun w hw => hv w (by simp [hw]))]

theorem decMany_ok (d : Bytes → Except TErr (Val × Bytes)) (e : Val → Bytes) (P : Val → Prop)
    (hd : ∀ bs v rest, d bs = .ok (v, rest) → bs = e v ++ rest ∧ P v) :
    ∀ (f : Nat) (p : Bytes) (vs : List Val), decMany d f p = .ok vs →
      p = (vs.map e).flatten ∧ ∀ v ∈ vs, P v := by
  intro f
  induction f with
  | zero =>
    intro p vs h
    cases p with
    | nil => simp only [decMany, Except.ok.injEq] at h; subst h; simp
    | cons b bs => simp [decMany] at h
  | succ f ih =>
    intro p vs h
    cases p with
    | nil => simp only [decMany, Except.ok.injEq] at h; subst h; simp
    | cons b bs =>
      simp only [decMany] at h
      split at h
      · simp at h
      · rename_i v rest hv
        split at h
        · rename_i ws hws
          simp only [Except.ok.injEq] at h
          subst h
          obtain ⟨h1, p1⟩ := hd _ _ _ hv
          obtain ⟨h2, p2⟩ := ih _ _ hws
          refine ⟨by rw [h1, h2]; simp, ?_⟩
          intro w hw
          simp only [List.mem_cons] at hw
          rcases hw with rfl | hw
          · exact p1
          · exact p2 w hw
        · simp at h

theorem decN_ok (d : Bytes → Except TErr (Val × Bytes)) (e : Val → Bytes) (P : Val → Prop)
    (hd : ∀ bs v rest, d bs = .ok (v, rest) → bs = e v ++ rest ∧ P v) :
    ∀ (n : Nat) (p : Bytes) (vs : List Val) (r : Bytes), decN d n p = .ok (vs, r) →
      p = (vs.map e).flatten ++ r ∧ vs.length = n ∧ ∀ v ∈ vs, P v := by
  intro n
  induction n with
  | zero =>
    intro p vs r h
    simp only [decN, Except.ok.injEq, Prod.mk.injEq] at h
    obtain ⟨h1, h2⟩ := h
    subst h1; subst h2; simp
  | succ n ih =>
    intro p vs r h
    cases p with
    | nil => simp [decN] at h
    | cons b bs =>
      simp only [decN] at h
      split at h
      · simp at h
      · rename_i v rest hv
        split at h
        · rename_i ws r' hws
          simp only [Except.ok.injEq, Prod.mk.injEq] at h
          obtain ⟨h1, h2⟩ := h
          subst h1; subst h2
          obtain ⟨e1, p1⟩ := hd _ _ _ hv
          obtain ⟨e2, l2, p2⟩ := ih _ _ _ hws
          refine ⟨by rw [e1, e2]; simp, by simp [l2], ?_⟩
          intro w hw
          simp only [List.mem_cons] at hw
          rcases hw with rfl | hw
          · exact p1
          · exact p2 w hw
        · simp at h

theorem decMany_ne_fuel (d : Bytes → Except TErr (Val × Bytes))
    (hc : ∀ bs v rest, d bs = .ok (v, rest) → rest.length < bs.length)
    (hn : ∀ bs, d bs ≠ .error (.rlp .fuel)) :
    ∀ (f : Nat) (p : Bytes), p.length ≤ f → decMany d f p ≠ .error (.rlp .fuel) := by
  intro f
  induction f with
  | zero =>
    intro p hp
    cases p with
    | nil => simp [decMany]
    | cons b bs => simp at hp
  | succ f ih =>
    intro p hp
    cases p with
    | nil => simp [decMany]
    | cons b bs =>
      simp only [decMany]
      split
      · rename_i e he; intro h; simp only [Except.error.injEq] at h; subst h; exact hn _ he
      · rename_i v rest hv
        have := hc _ _ _ hv
        simp only [List.length_cons] at this hp
        have h2 := ih rest (by omega)
        split
        · simp
        · rename_i e he; intro h; simp only [Except.error.injEq] at h; subst h; exact h2 he

theorem decN_ne_fuel (d : Bytes → Except TErr (Val × Bytes)) (hn : ∀ bs, d bs ≠ .error (.rlp .fuel)) :
    ∀ (n : Nat) (p : Bytes), decN d n p ≠ .error (.rlp .fuel) := by
  intro n
  induction n with
  | zero => intro p; simp [decN]
  | succ n ih =>
    intro p
    cases p with
    | nil => simp [decN]
    | cons b bs =>
      simp only [decN]
      split
      · rename_i e he; intro h; simp only [Except.error.injEq] at h; subst h; exact hn _ he
      · rename_i v rest hv
        have h2 := ih rest
        split
        · simp
        · rename_i e he; intro h; simp only [Except.error.injEq] at h; subst h; exact h2 he

/-! ### encodings of well-formed values are non-empty -/

theorem header_append_ne_nil (base n : Nat) (p : Bytes) : header base n ++ p ≠ [] := by
  intro h; simp at h; exact header_ne_nil _ _ h.1

theorem encTy_ne_nil : (ty : Ty) → (v : Val) → WFVal ty v = true → encTy ty v ≠ []
  | .uint _, v, h => by
    cases v with
    | num n => simp only [encTy]; exact encStr_ne_nil _
    | _ => simp [WFVal] at h
  | .big, v, h => by
    cases v with
    | num n => simp only [encTy]; exact encStr_ne_nil _
    | _ => simp [WFVal] at h
  | .bool, v, h => by
    cases v with
    | bool b => cases b <;> simp [encTy]
    | _ => simp [WFVal] at h
  | .bytes, v, h => by
    cases v with
    | bytes b => simp only [encTy]; exact encStr_ne_nil _
    | _ => simp [WFVal] at h
  | .bytesN _, v, h => by
    cases v with
    | bytes b => simp only [encTy]; exact encStr_ne_nil _
    | _ => simp [WFVal] at h
  | .list t, v, h => by
    cases v with
    | list vs => simp only [encTy]; exact header_append_ne_nil _ _ _
    | _ => simp [WFVal] at h
  | .arr _ t, v, h => by
    cases v with
    | list vs => simp only [encTy]; exact header_append_ne_nil _ _ _
    | _ => simp [WFVal] at h
  | .struct fs, v, h => by
    cases v with
    | list vs => simp only [encTy]; exact header_append_ne_nil _ _ _
    | _ => simp [WFVal] at h
  | .structTail fs t, v, h => by
    cases v with
    | tail vs tl => simp only [encTy]; exact header_append_ne_nil _ _ _
    | _ => simp [WFVal] at h
  | .ptr t, v, h => by
    cases v with
    | psome v =>
      simp only [WFVal] at h
      simp only [encTy]; exact encTy_ne_nil t v h
    | _ => simp [WFVal] at h
  | .ptrNil t, v, h => by
    cases v with
    | psome v =>
      simp only [WFVal, Bool.and_eq_true] at h
      simp only [encTy]; exact encTy_ne_nil t v h.1.1
    | pnil =>
      simp only [WFVal, Bool.or_eq_true, Bool.and_eq_true, beq_iff_eq] at h
      simp only [encTy]
      rcases h with h | h <;> rw [h.1] <;> simp
    | _ => simp [WFVal] at h
  | .raw, v, h => by
    cases v with
    | bytes b =>
      simp only [WFVal] at h
      simp only [encTy]; exact rawOk_ne_nil b h
    | _ => simp [WFVal] at h
  | .iface, v, h => by
    cases v with
    | item it => simp only [encTy]; exact enc_ne_nil it
    | _ => simp [WFVal] at h

/-! ### round trip -/

mutual
  theorem decTy_encTy : (ty : Ty) → (v : Val) → WFVal ty v = true →
      ∀ rest, decTy ty (encTy ty v ++ rest) = .ok (v, rest)
    | .uint bits, v, h, rest => by
      cases v with
      | num n =>
        simp only [WFVal, Bool.and_eq_true, decide_eq_true_eq] at h
        simp only [encTy, decTy]
        have h8 : bits / 8 ≤ 8 := by omega
        rw [readUint_enc (bits / 8) (by omega) n h.2 (beBytes_length_lt_2_64 n _ h8 h.2) rest]
      | _ => simp [WFVal] at h
    | .big, v, h, rest => by
      cases v with
      | num n =>
        simp only [WFVal, decide_eq_true_eq] at h
        simp only [encTy, decTy]
        rw [readBig_enc n h rest]
      | _ => simp [WFVal] at h
    | .bool, v, h, rest => by
      cases v with
      | bool b =>
        simp only [encTy, decTy]
        rw [readBool_enc b rest]
      | _ => simp [WFVal] at h
    | .bytes, v, h, rest => by
      cases v with
      | bytes b =>
        simp only [WFVal, decide_eq_true_eq] at h
        simp only [encTy, decTy]
        rw [readBytes_encStr b h rest]
      | _ => simp [WFVal] at h
    | .bytesN n, v, h, rest => by
      cases v with
      | bytes b =>
        simp only [WFVal, Bool.and_eq_true, decide_eq_true_eq] at h
        obtain ⟨h1, h2⟩ := h
        subst h1
        simp only [encTy, decTy]
        rw [readByteArray_enc b h2 rest]
      | _ => simp [WFVal] at h
    | .list t, v, h, rest => by
      cases v with
      | list vs =>
        simp only [WFVal, Bool.and_eq_true, decide_eq_true_eq, List.all_eq_true] at h
        obtain ⟨hall, hsz⟩ := h
        simp only [encTy, decTy]
        rw [readList_enc _ hsz rest]
        simp only
        rw [decMany_enc (decTy t) (encTy t) vs _
          (fun w hw => ⟨encTy_ne_nil t w (hall w hw), decTy_encTy t w (hall w hw)⟩) (Nat.le_refl _)]
      | _ => simp [WFVal] at h
    | .arr n t, v, h, rest => by
      cases v with
      | list vs =>
        simp only [WFVal, Bool.and_eq_true, decide_eq_true_eq, List.all_eq_true] at h
        obtain ⟨⟨hn, hall⟩, hsz⟩ := h
        subst hn
        simp only [encTy, decTy]
        rw [readList_enc _ hsz rest]
        simp only
        have := decN_enc (decTy t) (encTy t) vs []
          (fun w hw => ⟨encTy_ne_nil t w (hall w hw), decTy_encTy t w (hall w hw)⟩)
        rw [List.append_nil] at this
        rw [this]
      | _ => simp [WFVal] at h
    | .struct fs, v, h, rest => by
      cases v with
      | list vs =>
        simp only [WFVal, Bool.and_eq_true, decide_eq_true_eq] at h
        obtain ⟨hwf, hsz⟩ := h
        simp only [encTy, decTy]
        rw [readList_enc _ hsz rest]
        simp only
        have := decFields_encFields fs vs hwf []
        rw [List.append_nil] at this
        rw [this]
      | _ => simp [WFVal] at h
    | .structTail fs t, v, h, rest => by
      cases v with
      | tail vs tl =>
        simp only [WFVal, Bool.and_eq_true, decide_eq_true_eq, List.all_eq_true] at h
        obtain ⟨⟨hwf, hall⟩, hsz⟩ := h
        simp only [encTy, decTy]
        rw [readList_enc _ hsz rest]
        simp only
        rw [decFields_encFields fs vs hwf _]
        simp only
        rw [decMany_enc (decTy t) (encTy t) tl _
          (fun w hw => ⟨encTy_ne_nil t w (hall w hw), decTy_encTy t w (hall w hw)⟩) (Nat.le_refl _)]
      | _ => simp [WFVal] at h
    | .ptr t, v, h, rest => by
      cases v with
      | psome w =>
        simp only [WFVal] at h
        simp only [encTy, decTy]
        rw [decTy_encTy t w h rest]
      | _ => simp [WFVal] at h
    | .ptrNil t, v, h, rest => by
      cases v with
      | psome w =>
        simp only [WFVal, Bool.and_eq_true, bne_iff_ne, ne_eq] at h
        obtain ⟨⟨hw, h80⟩, hc0⟩ := h
        have hne := encTy_ne_nil t w hw
        simp only [encTy, decTy]
        have hh : (encTy t w ++ rest).head? = (encTy t w).head? := by
          cases he : encTy t w with
          | nil => exact absurd he hne
          | cons b tl => simp
        simp only [hh, h80, hc0, if_false, decTy_encTy t w hw rest]
      | pnil =>
        simp only [WFVal, Bool.or_eq_true, Bool.and_eq_true, beq_iff_eq, bne_iff_ne, ne_eq] at h
        simp only [encTy, decTy]
        rcases h with ⟨h1, h2⟩ | ⟨h1, h2⟩
        · simp [h1, h2]
        · simp [h1, h2]
      | _ => simp [WFVal] at h
    | .raw, v, h, rest => by
      cases v with
      | bytes b =>
        simp only [WFVal] at h
        simp only [encTy, decTy]
        rw [readRaw_enc b h rest]
      | _ => simp [WFVal] at h
    | .iface, v, h, rest => by
      cases v with
      | item it =>
        simp only [WFVal] at h
        simp only [encTy, decTy]
        rw [readItem_enc it h rest]
      | _ => simp [WFVal] at h
  theorem decFields_encFields : (fs : List Ty) → (vs : List Val) → WFFields fs vs = true →
      ∀ rest, decFields fs (encFields fs vs ++ rest) = .ok (vs, rest)
    | [], vs, h, rest => by
      cases vs with
      | nil => simp [encFields, decFields]
      | cons _ _ => simp [WFFields] at h
    | t :: ts, vs, h, rest => by
      cases vs with
      | nil => simp [WFFields] at h
      | cons v vs =>
        simp only [WFFields, Bool.and_eq_true] at h
        obtain ⟨hv, hvs⟩ := h
        simp only [encFields, List.append_assoc]
        cases he : encTy t v with
        | nil => exact absurd he (encTy_ne_nil t v hv)
        | cons b tl =>
          simp only [List.cons_append, decFields]
          rw [← List.cons_append, ← he, decTy_encTy t v hv]
          simp only
          rw [decFields_encFields ts vs hvs rest]
end

/-! ### canonicity: what the decoder accepts is the encoder's output for the (well-formed) value it returns -/

mutual
  theorem decTy_canon : (ty : Ty) → ty.canon = true → ∀ bs v rest, decTy ty bs = .ok (v, rest) →
      bs = encTy ty v ++ rest ∧ WFVal ty v = true
    | .uint bits, hc, bs, v, rest, h => by
      simp only [Ty.canon, Bool.and_eq_true, decide_eq_true_eq] at hc
      simp only [decTy] at h
      split at h
      · rename_i n r hu
        simp only [Except.ok.injEq, Prod.mk.injEq] at h
        obtain ⟨hv, hr⟩ := h
        subst hv; subst hr
        obtain ⟨h1, h2⟩ := readUint_ok (bits / 8) (by omega) _ _ _ hu
        exact ⟨by simpa only [encTy] using h1, by simp [WFVal, hc.1, hc.2, h2]⟩
      · simp at h
    | .big, _, bs, v, rest, h => by
      simp only [decTy] at h
      split at h
      · rename_i n r hu
        simp only [Except.ok.injEq, Prod.mk.injEq] at h
        obtain ⟨hv, hr⟩ := h
        subst hv; subst hr
        obtain ⟨h1, h2⟩ := readBig_ok _ _ _ hu
        exact ⟨by simpa only [encTy] using h1, by simp [WFVal, h2]⟩
      · simp at h
    | .bool, _, bs, v, rest, h => by
      simp only [decTy] at h
      split at h
      · rename_i b r hu
        simp only [Except.ok.injEq, Prod.mk.injEq] at h
        obtain ⟨hv, hr⟩ := h
        subst hv; subst hr
        have h1 := readBool_ok _ _ _ hu
        exact ⟨by simpa only [encTy] using h1, by simp [WFVal]⟩
      · simp at h
    | .bytes, _, bs, v, rest, h => by
      simp only [decTy] at h
      split at h
      · rename_i b r hu
        simp only [Except.ok.injEq, Prod.mk.injEq] at h
        obtain ⟨hv, hr⟩ := h
        subst hv; subst hr
        obtain ⟨h1, h2⟩ := readBytes_ok _ _ _ hu
        exact ⟨by simpa only [encTy] using h1, by simp [WFVal, h2]⟩
      · simp at h
    | .bytesN n, _, bs, v, rest, h => by
      simp only [decTy] at h
      split at h
      · rename_i b r hu
        simp only [Except.ok.injEq, Prod.mk.injEq] at h
        obtain ⟨hv, hr⟩ := h
        subst hv; subst hr
        obtain ⟨h1, h2, h3⟩ := readByteArray_ok _ _ _ _ hu
        exact ⟨by simpa only [encTy] using h1, by simp [WFVal, h2, h3]⟩
      · simp at h
    | .list t, hc, bs, v, rest, h => by
      simp only [Ty.canon] at hc
      simp only [decTy] at h
      split at h
      · simp at h
      · rename_i p r hl
        obtain ⟨hbs, hsz⟩ := readList_ok _ _ _ hl
        split at h
        · rename_i vs hm
          simp only [Except.ok.injEq, Prod.mk.injEq] at h
          obtain ⟨hv, hr⟩ := h
          subst hv; subst hr
          obtain ⟨hp, hall⟩ := decMany_ok (decTy t) (encTy t) (fun w => WFVal t w = true)
            (decTy_canon t hc) _ _ _ hm
          subst hp
          refine ⟨by simpa only [encTy, List.append_assoc] using hbs, ?_⟩
          simp only [WFVal, Bool.and_eq_true, decide_eq_true_eq, List.all_eq_true]
          exact ⟨hall, hsz⟩
        · simp at h
    | .arr n t, hc, bs, v, rest, h => by
      simp only [Ty.canon] at hc
      simp only [decTy] at h
      split at h
      · simp at h
      · rename_i p r hl
        obtain ⟨hbs, hsz⟩ := readList_ok _ _ _ hl
        split at h
        · rename_i vs hm
          simp only [Except.ok.injEq, Prod.mk.injEq] at h
          obtain ⟨hv, hr⟩ := h
          subst hv; subst hr
          obtain ⟨hp, hn, hall⟩ := decN_ok (decTy t) (encTy t) (fun w => WFVal t w = true)
            (decTy_canon t hc) _ _ _ _ hm
          rw [List.append_nil] at hp
          subst hp
          refine ⟨by simpa only [encTy, List.append_assoc] using hbs, ?_⟩
          simp only [WFVal, Bool.and_eq_true, decide_eq_true_eq, List.all_eq_true]
          exact ⟨⟨hn, hall⟩, hsz⟩
        · simp at h
        · simp at h
    | .struct fs, hc, bs, v, rest, h => by
      simp only [Ty.canon] at hc
      simp only [decTy] at h
      split at h
      · simp at h
      · rename_i p r hl
        obtain ⟨hbs, hsz⟩ := readList_ok _ _ _ hl
        split at h
        · rename_i vs hm
          simp only [Except.ok.injEq, Prod.mk.injEq] at h
          obtain ⟨hv, hr⟩ := h
          subst hv; subst hr
          obtain ⟨hp, hwf⟩ := decFields_canon fs hc _ _ _ hm
          rw [List.append_nil] at hp
          subst hp
          refine ⟨by simpa only [encTy, List.append_assoc] using hbs, ?_⟩
          simp only [WFVal, Bool.and_eq_true, decide_eq_true_eq]
          exact ⟨hwf, hsz⟩
        · simp at h
        · simp at h
    | .structTail fs t, hc, bs, v, rest, h => by
      simp only [Ty.canon, Bool.and_eq_true] at hc
      simp only [decTy] at h
      split at h
      · simp at h
      · rename_i p r hl
        obtain ⟨hbs, hsz⟩ := readList_ok _ _ _ hl
        split at h
        · simp at h
        · rename_i vs p' hm
          obtain ⟨hp, hwf⟩ := decFields_canon fs hc.1 _ _ _ hm
          split at h
          · rename_i tl hm2
            simp only [Except.ok.injEq, Prod.mk.injEq] at h
            obtain ⟨hv, hr⟩ := h
            subst hv; subst hr
            obtain ⟨hp2, hall⟩ := decMany_ok (decTy t) (encTy t) (fun w => WFVal t w = true)
              (decTy_canon t hc.2) _ _ _ hm2
            subst hp2
            subst hp
            refine ⟨by simpa only [encTy, List.append_assoc] using hbs, ?_⟩
            simp only [WFVal, Bool.and_eq_true, decide_eq_true_eq, List.all_eq_true]
            exact ⟨⟨hwf, hall⟩, hsz⟩
          · simp at h
    | .ptr t, hc, bs, v, rest, h => by
      simp only [Ty.canon] at hc
      simp only [decTy] at h
      split at h
      · rename_i w r hu
        simp only [Except.ok.injEq, Prod.mk.injEq] at h
        obtain ⟨hv, hr⟩ := h
        subst hv; subst hr
        obtain ⟨h1, h2⟩ := decTy_canon t hc _ _ _ hu
        exact ⟨by simpa only [encTy] using h1, by simpa only [WFVal] using h2⟩
      · simp at h
    | .ptrNil t, hc, bs, v, rest, h => by
      simp only [Ty.canon, Bool.and_eq_true, Bool.or_eq_true, beq_iff_eq] at hc
      obtain ⟨hct, hk⟩ := hc
      simp only [decTy] at h
      split at h
      · rename_i h80
        split at h
        · simp at h
        · rename_i hek
          simp only [Except.ok.injEq, Prod.mk.injEq] at h
          obtain ⟨hv, hr⟩ := h
          subst hv; subst hr
          have hne : t.nilEnc = [0x80] := by
            rcases hk with ⟨_, h2⟩ | ⟨h1, _⟩
            · exact h2
            · exact absurd h1 hek
          cases bs with
          | nil => simp at h80
          | cons b tl =>
            simp only [List.head?_cons, Option.some.injEq] at h80
            subst h80
            refine ⟨by simp [encTy, hne], ?_⟩
            simp [WFVal, hne, hek]
      · rename_i h80
        split at h
        · rename_i hc0
          split at h
          · simp at h
          · rename_i hek
            simp only [Except.ok.injEq, Prod.mk.injEq] at h
            obtain ⟨hv, hr⟩ := h
            subst hv; subst hr
            have hne : t.nilEnc = [0xC0] := by
              rcases hk with ⟨h1, _⟩ | ⟨_, h2⟩
              · exact absurd h1 hek
              · exact h2
            cases bs with
            | nil => simp at hc0
            | cons b tl =>
              simp only [List.head?_cons, Option.some.injEq] at hc0
              subst hc0
              refine ⟨by simp [encTy, hne], ?_⟩
              simp [WFVal, hne, hek]
        · rename_i hc0
          split at h
          · rename_i w r hu
            simp only [Except.ok.injEq, Prod.mk.injEq] at h
            obtain ⟨hv, hr⟩ := h
            subst hv; subst hr
            obtain ⟨h1, h2⟩ := decTy_canon t hct _ _ _ hu
            have hne := encTy_ne_nil t w h2
            have hh : ∀ x : Bytes, (encTy t w ++ x).head? = (encTy t w).head? := by
              intro x
              cases he : encTy t w with
              | nil => exact absurd he hne
              | cons b tl => simp
            rw [h1, hh] at h80 hc0
            refine ⟨by simpa only [encTy] using h1, ?_⟩
            simp only [WFVal, Bool.and_eq_true, bne_iff_ne, ne_eq]
            exact ⟨⟨h2, h80⟩, hc0⟩
          · simp at h
    | .raw, _, bs, v, rest, h => by
      simp only [decTy] at h
      split at h
      · rename_i b r hu
        simp only [Except.ok.injEq, Prod.mk.injEq] at h
        obtain ⟨hv, hr⟩ := h
        subst hv; subst hr
        obtain ⟨h1, h2⟩ := readRaw_ok _ _ _ hu
        exact ⟨by simpa only [encTy] using h1, by simpa only [WFVal, rawOk_iff] using h2⟩
      · simp at h
    | .iface, _, bs, v, rest, h => by
      simp only [decTy] at h
      split at h
      · rename_i it r hu
        simp only [Except.ok.injEq, Prod.mk.injEq] at h
        obtain ⟨hv, hr⟩ := h
        subst hv; subst hr
        obtain ⟨h1, h2⟩ := readItem_ok _ _ _ hu
        exact ⟨by simpa only [encTy] using h1, by simpa only [WFVal] using h2⟩
      · simp at h
  theorem decFields_canon : (fs : List Ty) → Ty.canonAll fs = true → ∀ p vs r, decFields fs p = .ok (vs, r) →
      p = encFields fs vs ++ r ∧ WFFields fs vs = true
    | [], _, p, vs, r, h => by
      simp only [decFields, Except.ok.injEq, Prod.mk.injEq] at h
      obtain ⟨h1, h2⟩ := h
      subst h1; subst h2
      simp [encFields, WFFields]
    | t :: ts, hc, p, vs, r, h => by
      simp only [Ty.canonAll, Bool.and_eq_true] at hc
      cases p with
      | nil => simp [decFields] at h
      | cons b bs =>
        simp only [decFields] at h
        split at h
        · simp at h
        · rename_i v p' hv
          split at h
          · rename_i ws r' hws
            simp only [Except.ok.injEq, Prod.mk.injEq] at h
            obtain ⟨h1, h2⟩ := h
            subst h1; subst h2
            obtain ⟨e1, w1⟩ := decTy_canon t hc.1 _ _ _ hv
            obtain ⟨e2, w2⟩ := decFields_canon ts hc.2 _ _ _ hws
            refine ⟨by rw [e1, e2]; simp [encFields], by simp [WFFields, w1, w2]⟩
          · simp at h
end

/-! ### consumption and totality (all types, no side condition) -/

/-- every successful typed decode consumes at least one byte (so the element loop terminates). -/
theorem decTy_consumes : (ty : Ty) → ∀ bs v rest, decTy ty bs = .ok (v, rest) → rest.length < bs.length
  | .uint bits, bs, v, rest, h => by
    simp only [decTy] at h
    split at h
    · rename_i x r hu
      simp only [Except.ok.injEq, Prod.mk.injEq] at h
      rw [← h.2]; exact readUint_consumes _ _ _ _ hu
    · simp at h
  | .big, bs, v, rest, h => by
    simp only [decTy] at h
    split at h
    · rename_i x r hu
      simp only [Except.ok.injEq, Prod.mk.injEq] at h
      rw [← h.2]; exact readBig_consumes _ _ _ hu
    · simp at h
  | .bool, bs, v, rest, h => by
    simp only [decTy] at h
    split at h
    · rename_i x r hu
      simp only [Except.ok.injEq, Prod.mk.injEq] at h
      rw [← h.2]; exact readBool_consumes _ _ _ hu
    · simp at h
  | .bytes, bs, v, rest, h => by
    simp only [decTy] at h
    split at h
    · rename_i x r hu
      simp only [Except.ok.injEq, Prod.mk.injEq] at h
      rw [← h.2]; exact readBytes_consumes _ _ _ hu
    · simp at h
  | .bytesN n, bs, v, rest, h => by
    simp only [decTy] at h
    split at h
    · rename_i x r hu
      simp only [Except.ok.injEq, Prod.mk.injEq] at h
      rw [← h.2]; exact readByteArray_consumes _ _ _ _ hu
    · simp at h
  | .raw, bs, v, rest, h => by
    simp only [decTy] at h
    split at h
    · rename_i x r hu
      simp only [Except.ok.injEq, Prod.mk.injEq] at h
      rw [← h.2]; exact readRaw_consumes _ _ _ hu
    · simp at h
  | .iface, bs, v, rest, h => by
    simp only [decTy] at h
    split at h
    · rename_i x r hu
      simp only [Except.ok.injEq, Prod.mk.injEq] at h
      rw [← h.2]; exact readItem_consumes _ _ _ hu
    · simp at h
  | .list t, bs, v, rest, h => by
    simp only [decTy] at h
    split at h
    · simp at h
    · rename_i p r hl
      have := readList_consumes _ _ _ hl
      split at h
      · simp only [Except.ok.injEq, Prod.mk.injEq] at h
        rw [← h.2]; exact this
      · simp at h
  | .arr n t, bs, v, rest, h => by
    simp only [decTy] at h
    split at h
    · simp at h
    · rename_i p r hl
      have := readList_consumes _ _ _ hl
      split at h
      · simp only [Except.ok.injEq, Prod.mk.injEq] at h
        rw [← h.2]; exact this
      · simp at h
      · simp at h
  | .struct fs, bs, v, rest, h => by
    simp only [decTy] at h
    split at h
    · simp at h
    · rename_i p r hl
      have := readList_consumes _ _ _ hl
      split at h
      · simp only [Except.ok.injEq, Prod.mk.injEq] at h
        rw [← h.2]; exact this
      · simp at h
      · simp at h
  | .structTail fs t, bs, v, rest, h => by
    simp only [decTy] at h
    split at h
    · simp at h
    · rename_i p r hl
      have := readList_consumes _ _ _ hl
      split at h
      · simp at h
      · split at h
        · simp only [Except.ok.injEq, Prod.mk.injEq] at h
          rw [← h.2]; exact this
        · simp at h
  | .ptr t, bs, v, rest, h => by
    simp only [decTy] at h
    split at h
    · rename_i w r hu
      simp only [Except.ok.injEq, Prod.mk.injEq] at h
      rw [← h.2]; exact decTy_consumes t _ _ _ hu
    · simp at h
  | .ptrNil t, bs, v, rest, h => by
    simp only [decTy] at h
    have htail : ∀ x : UInt8, bs.head? = some x → bs.tail.length < bs.length := by
      intro x hx
      cases bs with
      | nil => simp at hx
      | cons b tl => simp
    split at h
    · rename_i h80
      split at h
      · simp at h
      · simp only [Except.ok.injEq, Prod.mk.injEq] at h
        rw [← h.2]; exact htail _ h80
    · split at h
      · rename_i hc0
        split at h
        · simp at h
        · simp only [Except.ok.injEq, Prod.mk.injEq] at h
          rw [← h.2]; exact htail _ hc0
      · split at h
        · rename_i w r hu
          simp only [Except.ok.injEq, Prod.mk.injEq] at h
          rw [← h.2]; exact decTy_consumes t _ _ _ hu
        · simp at h

mutual
  /-- totality: the typed decoder never reports the out-of-fuel outcome. -/
  theorem decTy_ne_fuel : (ty : Ty) → ∀ bs, decTy ty bs ≠ .error (.rlp .fuel)
    | .uint bits, bs => by
      simp only [decTy]
      have := readUint_ne_fuel (bits / 8) bs
      split
      · simp
      · rename_i e he; intro h; simp only [Except.error.injEq] at h; subst h; exact this he
    | .big, bs => by
      simp only [decTy]
      have := readBig_ne_fuel bs
      split
      · simp
      · rename_i e he; intro h; simp only [Except.error.injEq] at h; subst h; exact this he
    | .bool, bs => by
      simp only [decTy]
      have := readBool_ne_fuel bs
      split
      · simp
      · rename_i e he; intro h; simp only [Except.error.injEq] at h; subst h; exact this he
    | .bytes, bs => by
      simp only [decTy]
      have := readBytes_ne_fuel bs
      split
      · simp
      · rename_i e he; intro h; simp only [Except.error.injEq] at h; subst h; exact this he
    | .bytesN n, bs => by
      simp only [decTy]
      have := readByteArray_ne_fuel n bs
      split
      · simp
      · rename_i e he; intro h; simp only [Except.error.injEq] at h; subst h; exact this he
    | .raw, bs => by
      simp only [decTy]
      have := readRaw_ne_fuel bs
      split
      · simp
      · rename_i e he; intro h; simp only [Except.error.injEq] at h; subst h; exact this he
    | .iface, bs => by
      simp only [decTy]
      have := readItem_ne_fuel bs
      split
      · simp
      · rename_i e he; intro h; simp only [Except.error.injEq] at h; subst h; exact this he
    | .list t, bs => by
      simp only [decTy]
      have h1 := readList_ne_fuel bs
      split
      · rename_i e he; intro h; simp only [Except.error.injEq] at h; subst h; exact h1 he
      · rename_i p r hl
        have h2 := decMany_ne_fuel (decTy t) (decTy_consumes t) (decTy_ne_fuel t) p.length p (Nat.le_refl _)
        split
        · simp
        · rename_i e he; intro h; simp only [Except.error.injEq] at h; subst h; exact h2 he
    | .arr n t, bs => by
      simp only [decTy]
      have h1 := readList_ne_fuel bs
      split
      · rename_i e he; intro h; simp only [Except.error.injEq] at h; subst h; exact h1 he
      · rename_i p r hl
        have h2 := decN_ne_fuel (decTy t) (decTy_ne_fuel t) n p
        split
        · simp
        · simp
        · rename_i e he; intro h; simp only [Except.error.injEq] at h; subst h; exact h2 he
    | .struct fs, bs => by
      simp only [decTy]
      have h1 := readList_ne_fuel bs
      split
      · rename_i e he; intro h; simp only [Except.error.injEq] at h; subst h; exact h1 he
      · rename_i p r hl
        have h2 := decFields_ne_fuel fs p
        split
        · simp
        · simp
        · rename_i e he; intro h; simp only [Except.error.injEq] at h; subst h; exact h2 he
    | .structTail fs t, bs => by
      simp only [decTy]
      have h1 := readList_ne_fuel bs
      split
      · rename_i e he; intro h; simp only [Except.error.injEq] at h; subst h; exact h1 he
      · rename_i p r hl
        have h2 := decFields_ne_fuel fs p
        split
        · rename_i e he; intro h; simp only [Except.error.injEq] at h; subst h; exact h2 he
        · rename_i vs p' hm
          have h3 := decMany_ne_fuel (decTy t) (decTy_consumes t) (decTy_ne_fuel t) p'.length p' (Nat.le_refl _)
          split
          · simp
          · rename_i e he; intro h; simp only [Except.error.injEq] at h; subst h; exact h3 he
    | .ptr t, bs => by
      simp only [decTy]
      have h1 := decTy_ne_fuel t bs
      split
      · simp
      · rename_i e he; intro h; simp only [Except.error.injEq] at h; subst h; exact h1 he
    | .ptrNil t, bs => by
      simp only [decTy]
      have h1 := decTy_ne_fuel t bs
      split
      · split <;> simp
      · split
        · split <;> simp
        · split
          · simp
          · rename_i e he; intro h; simp only [Except.error.injEq] at h; subst h; exact h1 he
  theorem decFields_ne_fuel : (fs : List Ty) → ∀ p, decFields fs p ≠ .error (.rlp .fuel)
    | [], p => by simp [decFields]
    | t :: ts, p => by
      cases p with
      | nil => simp [decFields]
      | cons b bs =>
        simp only [decFields]
        have h1 := decTy_ne_fuel t (b :: bs)
        split
        · rename_i e he; intro h; simp only [Except.error.injEq] at h; subst h; exact h1 he
        · rename_i v p' hv
          have h2 := decFields_ne_fuel ts p'
          split
          · simp
          · rename_i e he; intro h; simp only [Except.error.injEq] at h; subst h; exact h2 he
end

/-! ### the item view of typed values encodes to the typed encoding -/

mutual
  theorem gitem_enc_ofItem : (it : Item) → (GItem.ofItem it).enc = enc it
    | .str b => by simp [GItem.ofItem, GItem.enc, enc]
    | .list xs => by simp only [GItem.ofItem, GItem.enc, enc, gitem_encList_ofItems xs]
  theorem gitem_encList_ofItems : (xs : List Item) → GItem.encList (GItem.ofItems xs) = encList xs
    | [] => by simp [GItem.ofItems, GItem.encList, encList]
    | x :: xs => by simp only [GItem.ofItems, GItem.encList, encList, gitem_enc_ofItem x, gitem_encList_ofItems xs]
end

theorem gitem_encList_append (a b : List GItem) : GItem.encList (a ++ b) = GItem.encList a ++ GItem.encList b := by
  induction a with
  | nil => simp [GItem.encList]
  | cons x xs ih => simp [GItem.encList, ih]

theorem gitem_encList_map (f : Val → GItem) (e : Val → Bytes) (vs : List Val) (h : ∀ v ∈ vs, (f v).enc = e v) :
    GItem.encList (vs.map f) = (vs.map e).flatten := by
  induction vs with
  | nil => simp [GItem.encList]
  | cons v vs ih =>
    simp only [List.map_cons, GItem.encList, List.flatten_cons]
    rw [h v (by simp), ih (fun w hw => h w (by simp [hw]))]

theorem nilItem_enc (t : Ty) : t.nilItem.enc = t.nilEnc := by
  unfold Ty.nilItem
  split
  · rename_i h; rw [h]; simp [GItem.enc, encStr, header]
  · rename_i h; rw [h]; simp [GItem.enc, GItem.encList, header]
  · simp [GItem.enc]

mutual
  theorem toG_enc : (ty : Ty) → (v : Val) → (toG ty v).enc = encTy ty v
    | .uint _, v => by cases v <;> simp [toG, encTy, GItem.enc]
    | .big, v => by cases v <;> simp [toG, encTy, GItem.enc]
    | .bool, v => by
      cases v with
      | bool b => cases b <;> simp [toG, encTy, GItem.enc, encStr, header]
      | _ => simp [toG, encTy, GItem.enc]
    | .bytes, v => by cases v <;> simp [toG, encTy, GItem.enc]
    | .bytesN _, v => by cases v <;> simp [toG, encTy, GItem.enc]
    | .raw, v => by cases v <;> simp [toG, encTy, GItem.enc]
    | .iface, v => by
      cases v with
      | item it => simp only [toG, encTy, gitem_enc_ofItem]
      | _ => simp [toG, encTy, GItem.enc]
    | .list t, v => by
      cases v with
      | list vs =>
        simp only [toG, encTy, GItem.enc]
        rw [gitem_encList_map (toG t) (encTy t) vs (fun w _ => toG_enc t w)]
      | _ => simp [toG, encTy, GItem.enc]
    | .arr _ t, v => by
      cases v with
      | list vs =>
        simp only [toG, encTy, GItem.enc]
        rw [gitem_encList_map (toG t) (encTy t) vs (fun w _ => toG_enc t w)]
      | _ => simp [toG, encTy, GItem.enc]
    | .struct fs, v => by
      cases v with
      | list vs => simp only [toG, encTy, GItem.enc, toGFields_enc fs vs]
      | _ => simp [toG, encTy, GItem.enc]
    | .structTail fs t, v => by
      cases v with
      | tail vs tl =>
        simp only [toG, encTy, GItem.enc, gitem_encList_append, toGFields_enc fs vs]
        rw [gitem_encList_map (toG t) (encTy t) tl (fun w _ => toG_enc t w)]
      | _ => simp [toG, encTy, GItem.enc]
    | .ptr t, v => by
      cases v with
      | psome w => simp only [toG, encTy, toG_enc t w]
      | pnil => simp only [toG, encTy, nilItem_enc]
      | _ => simp [toG, encTy, GItem.enc]
    | .ptrNil t, v => by
      cases v with
      | psome w => simp only [toG, encTy, toG_enc t w]
      | pnil => simp only [toG, encTy, nilItem_enc]
      | _ => simp [toG, encTy, GItem.enc]
  theorem toGFields_enc : (fs : List Ty) → (vs : List Val) → GItem.encList (toGFields fs vs) = encFields fs vs
    | [], vs => by simp [toGFields, encFields, GItem.encList]
    | t :: ts, vs => by
      cases vs with
      | nil => simp [toGFields, encFields, GItem.encList]
      | cons v vs => simp only [toGFields, encFields, GItem.encList, toG_enc t v, toGFields_enc ts vs]
end

end Aqv.Rlp

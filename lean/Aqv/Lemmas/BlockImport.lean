/-
  Lemmas for Aqv.Model.BlockImport (property C01).  Core Lean only.
-/
import Aqv.Model.BlockImport
namespace Aqv.BlockImport

/-! ### point updates -/

theorem upd_same {β : Type} (m : Nat → β) (a : Nat) (v : β) : upd m a v a = v := by simp [upd]

theorem upd_other {β : Type} (m : Nat → β) (a b : Nat) (v : β) (h : b ≠ a) : upd m a v b = m b := by simp [upd, h]

theorem upd_comm {β : Type} (m : Nat → β) (a b : Nat) (v w : β) (h : a ≠ b) :
    upd (upd m a v) b w = upd (upd m b w) a v := by
  funext x
  simp only [upd]
  by_cases hb : x = b <;> by_cases ha : x = a <;> simp [ha, hb]
  · subst ha; subst hb; exact absurd rfl h
  · intro e; exact absurd e.symm h
  · intro e; exact absurd e h

theorem upd_idem {β : Type} (m : Nat → β) (a : Nat) (v w : β) : upd (upd m a v) a w = upd m a w := by
  funext x
  simp only [upd]
  by_cases ha : x = a <;> simp [ha]

/-! ### Layer A: the storage loop -/

theorem storeStep_comm (o : Obj) (j k : Slot) : storeStep (storeStep o j) k = storeStep (storeStep o k) j := by
  by_cases hjk : j = k
  · subst hjk; rfl
  · have hkj : k ≠ j := fun h => hjk h.symm
    unfold storeStep
    cases hj : o.dirty j <;> cases hk : o.dirty k <;> simp [hj, hk, upd_other, hjk, hkj]
    exact ⟨upd_comm _ _ _ _ _ hjk, upd_comm _ _ _ _ _ hjk⟩

/-- `updateTrie` yields the same object for every permutation of the iteration order. -/
theorem updateTrie_perm (o : Obj) {ks₁ ks₂ : List Slot} (h : ks₁.Perm ks₂) : updateTrie ks₁ o = updateTrie ks₂ o := by
  unfold updateTrie
  exact h.foldl_eq' (fun x _ y _ z => storeStep_comm z x y) o

theorem updateRoot_perm (R : (Slot → Word) → Hash) (o : Obj) {ks₁ ks₂ : List Slot} (h : ks₁.Perm ks₂) :
    updateRoot R ks₁ o = updateRoot R ks₂ o := by
  unfold updateRoot
  rw [updateTrie_perm o h]

theorem settle_perm (R : (Slot → Word) → Hash) (del : Bool) (o : Obj) {ks₁ ks₂ : List Slot} (h : ks₁.Perm ks₂) :
    settle R del ks₁ o = settle R del ks₂ o := by
  unfold settle
  rw [updateRoot_perm R o h]

/-! ### Layer A: the account loops -/

theorem finalStep_comm (R : (Slot → Word) → Hash) (del : Bool) (σ : Addr → List Slot) (s : SDB) (a b : Addr) :
    finalStep R del σ (finalStep R del σ s a) b = finalStep R del σ (finalStep R del σ s b) a := by
  by_cases hab : a = b
  · subst hab; rfl
  · have hba : b ≠ a := fun h => hab h.symm
    unfold finalStep
    cases ha : s.objs a <;> cases hb : s.objs b <;> simp [ha, hb, upd_other, hab, hba]
    exact ⟨upd_comm _ _ _ _ _ hab, upd_comm _ _ _ _ _ hab⟩

theorem finalStep_sigma (R : (Slot → Word) → Hash) (del : Bool) (σ₁ σ₂ : Addr → List Slot) (s : SDB) (a : Addr)
    (h : (σ₁ a).Perm (σ₂ a)) : finalStep R del σ₁ s a = finalStep R del σ₂ s a := by
  unfold finalStep
  cases s.objs a with
  | none => rfl
  | some o => simp only []; rw [settle_perm R del o h]

theorem finalise_sigma (R : (Slot → Word) → Hash) (del : Bool) (σ₁ σ₂ : Addr → List Slot)
    (h : ∀ a, (σ₁ a).Perm (σ₂ a)) (π : List Addr) (s : SDB) : finalise R del π σ₁ s = finalise R del π σ₂ s := by
  unfold finalise
  induction π generalizing s with
  | nil => rfl
  | cons a rest ih => simp only [List.foldl_cons]; rw [finalStep_sigma R del σ₁ σ₂ s a (h a)]; exact ih _

/-- `Finalise` yields the same StateDB for every iteration order of `stateObjectsDirty` and of every `dirtyStorage`. -/
theorem finalise_perm (R : (Slot → Word) → Hash) (del : Bool) {π₁ π₂ : List Addr} (σ₁ σ₂ : Addr → List Slot)
    (hπ : π₁.Perm π₂) (hσ : ∀ a, (σ₁ a).Perm (σ₂ a)) (s : SDB) :
    finalise R del π₁ σ₁ s = finalise R del π₂ σ₂ s := by
  rw [finalise_sigma R del σ₁ σ₂ hσ π₁ s]
  unfold finalise
  exact hπ.foldl_eq' (fun x _ y _ z => finalStep_comm R del σ₂ z x y) s

theorem commitStep_comm (R : (Slot → Word) → Hash) (del : Bool) (σ : Addr → List Slot) (s : SDB) (a b : Addr) :
    commitStep R del σ (commitStep R del σ s a) b = commitStep R del σ (commitStep R del σ s b) a := by
  by_cases hab : a = b
  · subst hab; rfl
  · have hba : b ≠ a := fun h => hab h.symm
    unfold commitStep
    cases ha : s.objs a <;> cases hb : s.objs b <;> simp [ha, hb, upd_other, hab, hba]
    rename_i oa ob
    refine ⟨?_, upd_comm _ _ _ _ _ hab, upd_comm _ _ _ _ _ hab⟩
    cases (settleCommit R del (σ a) (s.dirty a) oa).2 <;> cases (settleCommit R del (σ b) (s.dirty b) ob).2 <;>
      simp [upd_comm _ _ _ _ _ hab]

/-- `Commit` yields the same StateDB for every iteration order of `stateObjects`. -/
theorem commitFold_perm (R : (Slot → Word) → Hash) (del : Bool) {ρ₁ ρ₂ : List Addr} (σ : Addr → List Slot)
    (hρ : ρ₁.Perm ρ₂) (s : SDB) :
    ρ₁.foldl (commitStep R del σ) s = ρ₂.foldl (commitStep R del σ) s :=
  hρ.foldl_eq' (fun x _ y _ z => commitStep_comm R del σ z x y) s


/-! ### Layer A: idempotence (a second Finalise / IntermediateRoot over the same dirty set changes nothing) -/

theorem storeStep_dirty_none (o : Obj) (k : Slot) (h : o.dirty k = none) : storeStep o k = o := by
  unfold storeStep; rw [h]

theorem storeStep_clears (o : Obj) (k : Slot) : (storeStep o k).dirty k = none := by
  unfold storeStep
  cases h : o.dirty k with
  | none => simpa using h
  | some v => simp [upd_same]

theorem storeStep_keeps_none (o : Obj) (j k : Slot) (h : o.dirty k = none) : (storeStep o j).dirty k = none := by
  unfold storeStep
  cases hj : o.dirty j with
  | none => simpa using h
  | some v =>
    simp only []
    by_cases e : k = j
    · subst e; exact upd_same _ _ _
    · rw [upd_other _ _ _ _ e]; exact h

theorem updateTrie_keeps_none (ks : List Slot) (o : Obj) (k : Slot) (h : o.dirty k = none) : (updateTrie ks o).dirty k = none := by
  unfold updateTrie
  induction ks generalizing o with
  | nil => exact h
  | cons j rest ih => simp only [List.foldl_cons]; exact ih _ (storeStep_keeps_none o j k h)

theorem updateTrie_clears (ks : List Slot) (o : Obj) (k : Slot) (hk : k ∈ ks) : (updateTrie ks o).dirty k = none := by
  induction ks generalizing o with
  | nil => cases hk
  | cons j rest ih =>
    have e : updateTrie (j :: rest) o = updateTrie rest (storeStep o j) := rfl
    rw [e]
    cases hk with
    | head => exact updateTrie_keeps_none rest _ _ (storeStep_clears o _)
    | tail _ h => exact ih _ h

theorem updateTrie_noop (ks : List Slot) (o : Obj) (h : ∀ k ∈ ks, o.dirty k = none) : updateTrie ks o = o := by
  induction ks with
  | nil => rfl
  | cons j rest ih =>
    have e : updateTrie (j :: rest) o = updateTrie rest (storeStep o j) := rfl
    rw [e, storeStep_dirty_none o j (h j (List.mem_cons_self ..))]
    exact ih (fun k hk => h k (List.mem_cons_of_mem _ hk))

theorem updateTrie_idem (ks : List Slot) (o : Obj) : updateTrie ks (updateTrie ks o) = updateTrie ks o :=
  updateTrie_noop ks _ (fun k hk => updateTrie_clears ks o k hk)

theorem updateRoot_idem (R : (Slot → Word) → Hash) (ks : List Slot) (o : Obj) :
    updateRoot R ks (updateRoot R ks o) = updateRoot R ks o := by
  have h : updateTrie ks (updateRoot R ks o) = updateRoot R ks o := by
    apply updateTrie_noop
    intro k hk
    show (updateTrie ks o).dirty k = none
    exact updateTrie_clears ks o k hk
  unfold updateRoot at h ⊢
  simp only [] at h ⊢
  rw [h]

theorem storeStep_flags (o : Obj) (k : Slot) :
    (storeStep o k).suicided = o.suicided ∧ (storeStep o k).nonce = o.nonce ∧ (storeStep o k).balance = o.balance ∧
    (storeStep o k).codeHash = o.codeHash := by
  unfold storeStep
  cases o.dirty k <;> exact ⟨rfl, rfl, rfl, rfl⟩

theorem updateTrie_flags (ks : List Slot) (o : Obj) :
    (updateTrie ks o).suicided = o.suicided ∧ (updateTrie ks o).nonce = o.nonce ∧ (updateTrie ks o).balance = o.balance ∧
    (updateTrie ks o).codeHash = o.codeHash := by
  induction ks generalizing o with
  | nil => exact ⟨rfl, rfl, rfl, rfl⟩
  | cons j rest ih =>
    have e : updateTrie (j :: rest) o = updateTrie rest (storeStep o j) := rfl
    rw [e]
    have h1 := ih (storeStep o j)
    have h2 := storeStep_flags o j
    exact ⟨h1.1.trans h2.1, h1.2.1.trans h2.2.1, h1.2.2.1.trans h2.2.2.1, h1.2.2.2.trans h2.2.2.2⟩

theorem updateRoot_flags (R : (Slot → Word) → Hash) (ks : List Slot) (o : Obj) :
    (updateRoot R ks o).suicided = o.suicided ∧ Obj.empty (updateRoot R ks o) = o.empty := by
  have h := updateTrie_flags ks o
  unfold updateRoot Obj.empty
  simp only []
  rw [h.1, h.2.1, h.2.2.1, h.2.2.2]
  exact ⟨rfl, rfl⟩

theorem settle_idem (R : (Slot → Word) → Hash) (del : Bool) (ks : List Slot) (o : Obj) :
    settle R del ks (settle R del ks o).1 = settle R del ks o := by
  unfold settle
  by_cases c : (o.suicided || (del && o.empty)) = true
  · have c' : (o.suicided || (del && Obj.empty { o with deleted := true })) = true := c
    simp [c, c']
  · have f := updateRoot_flags R ks o
    have c' : ((updateRoot R ks o).suicided || (del && Obj.empty (updateRoot R ks o))) = false := by
      rw [f.1, f.2]; simpa using c
    simp only [c, Bool.false_eq_true, if_false]
    simp only [c', Bool.false_eq_true, if_false, updateRoot_idem]

theorem finalStep_idem (R : (Slot → Word) → Hash) (del : Bool) (σ : Addr → List Slot) (s : SDB) (a : Addr) :
    finalStep R del σ (finalStep R del σ s a) a = finalStep R del σ s a := by
  unfold finalStep
  cases ha : s.objs a with
  | none => simp [ha]
  | some o => simp [upd_same, upd_idem, settle_idem]

theorem finalStep_fold_comm (R : (Slot → Word) → Hash) (del : Bool) (σ : Addr → List Slot) (π : List Addr) (s : SDB) (a : Addr) :
    π.foldl (finalStep R del σ) (finalStep R del σ s a) = finalStep R del σ (π.foldl (finalStep R del σ) s) a := by
  induction π generalizing s with
  | nil => rfl
  | cons b rest ih =>
    simp only [List.foldl_cons]
    rw [finalStep_comm R del σ s a b]
    exact ih _

/-- a second `Finalise` over the same dirty set (same orders) is a no-op. -/
theorem finalise_idem (R : (Slot → Word) → Hash) (del : Bool) (π : List Addr) (σ : Addr → List Slot) (s : SDB) :
    finalise R del π σ (finalise R del π σ s) = finalise R del π σ s := by
  unfold finalise
  induction π generalizing s with
  | nil => rfl
  | cons a rest ih =>
    simp only [List.foldl_cons]
    rw [finalStep_fold_comm R del σ rest s a, finalStep_fold_comm R del σ rest _ a,
      finalStep_fold_comm R del σ rest _ a, ih, finalStep_idem]

end Aqv.BlockImport

/-
  Aqv.Lemmas.ChainHdr — the header chain (`HeaderChain.WriteHeader`, `InsertHeaderChain`, `SetHead` on a chain without
  blocks): invariant `HInvC` (number index = ancestry of the header head, nothing above, td records intrinsic), its
  preservation, and the C02 facts (td recurrence, the header head is a heaviest header, monotone).
-/
import Aqv.Lemmas.ChainWorld
import Aqv.Lemmas.ChainRewind
namespace Aqv.Chain

structure HInvC (U : Map Blk) (s : HSt) (hb : Blk) (C : List Blk) : Prop where
  sub : StoreExt s.store U
  headStored : s.store s.hhead = some hb
  path : Path s.store hb C s.genesis
  canon : ∀ n i, s.canon n = some i ↔ ∃ x ∈ C ++ [s.genesis], x.number = n ∧ x.id = i
  tdIntr : ∀ k t, s.td k = some t →
    ∃ x l, U k = some x ∧ Path U x l s.genesis ∧ t = s.genesis.diff + diffSum l
  storeTd : ∀ k x, s.store k = some x → (s.td k).isSome = true
  genNum : s.genesis.number = 0

def HInv (U : Map Blk) (s : HSt) : Prop := ∃ hb C, HInvC U s hb C

/-- the header head is a heaviest stored header -/
def HMax (s : HSt) : Prop := ∀ k t, s.td k = some t → ∃ th, s.td s.hhead = some th ∧ t ≤ th

namespace HInvC
variable {U : Map Blk} {s : HSt} {hb : Blk} {C : List Blk}

theorem headId (W : World U) (h : HInvC U s hb C) : hb.id = s.hhead := W.ids _ _ (h.sub _ _ h.headStored)

theorem storeIds (W : World U) (h : HInvC U s hb C) : ∀ k x, s.store k = some x → x.id = k :=
  fun k x hx => W.ids _ _ (h.sub _ _ hx)

theorem pathU (h : HInvC U s hb C) : Path U hb C s.genesis := h.path.mono h.sub

theorem headU (W : World U) (h : HInvC U s hb C) : U hb.id = some hb := by
  rw [h.headId W]; exact h.sub _ _ h.headStored

theorem chainStored (W : World U) (h : HInvC U s hb C) : ∀ x ∈ C ++ [s.genesis], s.store x.id = some x := by
  have := h.path.stored_of (h.storeIds W) (by rw [h.headId W]; exact h.headStored)
  intro x hx
  rcases List.mem_append.mp hx with hx | hx
  · exact this.1 x hx
  · simp at hx; subst hx; exact this.2

theorem genStored (W : World U) (h : HInvC U s hb C) : s.store s.genesis.id = some s.genesis :=
  h.chainStored W _ (by simp)

theorem chainNumber (h : HInvC U s hb C) : ∀ x ∈ C ++ [s.genesis], x.number ≤ hb.number := by
  intro x hx
  rcases List.mem_append.mp hx with hx | hx
  · exact (h.path.mem_number x hx).2
  · simp at hx; subst hx; have := h.path.number; omega

theorem canonHead (h : HInvC U s hb C) : s.canon hb.number = some hb.id := by
  rw [h.canon]
  rcases h.path.head_eq with ⟨h1, h2⟩ | ⟨l', h1⟩
  · exact ⟨hb, by rw [h1, h2]; simp, rfl, rfl⟩
  · exact ⟨hb, by rw [h1]; simp, rfl, rfl⟩

theorem canonAbove (h : HInvC U s hb C) (n : Nat) (hn : hb.number < n) : s.canon n = none := by
  cases hc : s.canon n with
  | none => rfl
  | some i =>
    obtain ⟨x, hx, hxn, _⟩ := (h.canon n i).mp hc
    have := h.chainNumber x hx
    omega

theorem canonBelow (h : HInvC U s hb C) (n : Nat) (hn : n ≤ hb.number) : ∃ x ∈ C ++ [s.genesis], x.number = n := by
  by_cases h0 : n = 0
  · exact ⟨s.genesis, by simp, by rw [h.genNum, h0]⟩
  · obtain ⟨z, hz, hzn⟩ := h.path.cover n (by rw [h.genNum]; omega) hn
    exact ⟨z, List.mem_append_left _ hz, hzn⟩

/-- two blocks of the canonical chain with the same number are the same block -/
theorem chainNumInj (h : HInvC U s hb C) : ∀ x ∈ C ++ [s.genesis], ∀ y ∈ C ++ [s.genesis], x.number = y.number → x = y := by
  intro x hx y hy hxy
  have hg := h.genNum
  rcases List.mem_append.mp hx with hx | hx <;> rcases List.mem_append.mp hy with hy | hy
  · exact h.path.num_inj x hx y hy hxy
  · simp at hy; subst hy; have := (h.path.mem_number x hx).1; omega
  · simp at hx; subst hx; have := (h.path.mem_number y hy).1; omega
  · simp at hx hy; rw [hx, hy]

/-- the total difficulty record of any block is its intrinsic value; hence the recurrence -/
theorem tdParent (W : World U) (h : HInvC U s hb C) {x p : Blk} {tx tp : Nat} (hx : U x.id = some x)
    (hpar : parentOf U x = some p) (htx : s.td x.id = some tx) (htp : s.td p.id = some tp) : tx = tp + x.diff := by
  obtain ⟨x', lx, hx', hpx, htx'⟩ := h.tdIntr _ _ htx
  obtain ⟨p', lp, hp', hpp, htp'⟩ := h.tdIntr _ _ htp
  rw [hx] at hx'; cases hx'
  have hpU := (parentOf_some hpar).1
  have hpid := W.ids _ _ hpU
  rw [hpid] at hp'
  rw [hpU] at hp'; cases hp'
  have := (Path.cons hpar hpp).det hpx rfl
  rw [← this.1] at htx'
  rw [htx', htp', diffSum_cons]
  omega

/-- a proper ancestor on the canonical chain is strictly lighter than the head -/
theorem tdStrict (W : World U) (h : HInvC U s hb C) {x : Blk} (hx : x ∈ C ++ [s.genesis]) (hne : x ≠ hb) {tx th : Nat}
    (htx : s.td x.id = some tx) (hth : s.td hb.id = some th) : tx < th := by
  obtain ⟨x', lx, hx', hpx, htx'⟩ := h.tdIntr _ _ htx
  obtain ⟨b', lb, hb', hpb, hth'⟩ := h.tdIntr _ _ hth
  rw [h.headU W] at hb'; cases hb'
  have hxU : U x.id = some x := h.sub _ _ (h.chainStored W x hx)
  rw [hxU] at hx'; cases hx'
  have hxn := h.chainNumber x hx
  obtain ⟨l1, l2, z, hl, hp1, hp2, hz⟩ := hpb.split x.number (by have := hpx.number; omega) hxn
  -- z is the block of the head's ancestry at x's height: it is x
  have hCz : z = x := by
    obtain ⟨l1', l2', z', hl', hp1', hp2', hz'⟩ := h.pathU.split x.number (by rw [h.genNum]; omega) hxn
    have hzz : z' = z := by
      have := hp1'.det hp1 (by omega)
      exact this.2
    subst hzz
    -- z' ∈ C ++ [genesis]
    have hzmem : z' ∈ C ++ [s.genesis] := by
      rcases hp2'.head_eq with ⟨h1, h2⟩ | ⟨l'', h1⟩
      · rw [h2]; simp
      · rw [hl', h1]; simp
    exact h.chainNumInj z' hzmem x hx hz
  subst hCz
  have := hp2.det hpx rfl
  rw [← this.1] at htx'
  have hne1 : l1 ≠ [] := by
    intro h1
    subst h1
    cases hp1
    exact hne rfl
  have hpos := diffSum_pos W hp1 hne1 (h.headU W)
  rw [hth', htx', hl, diffSum_append]
  omega

/-- a block reached from the head by parent links lies on the canonical chain, which splits there -/
theorem memOfPath (h : HInvC U s hb C) {l : List Blk} {o : Blk} (hp : Path s.store hb l o) :
    o ∈ C ++ [s.genesis] ∧ ∃ R, C = l ++ R ∧ Path s.store o R s.genesis := by
  have hn := hp.number
  obtain ⟨l1, l2, z, hl, hp1, hp2, hz⟩ := h.path.split o.number (by rw [h.genNum]; omega) (by omega)
  have := hp.det hp1 hz.symm
  obtain ⟨h1, h2⟩ := this
  subst h1 h2
  refine ⟨?_, l2, hl, hp2⟩
  rcases hp2.head_eq with ⟨h1, h2⟩ | ⟨l'', h1⟩
  · rw [h2]; simp
  · rw [hl, h1]; simp

end HInvC


/-! ### init -/

theorem hinvC_init {U : Map Blk} (g : Blk) (hgU : U g.id = some g) (hg0 : g.number = 0) : HInvC U (hinit g) g [] := by
  refine
    { sub := ?_, headStored := by simp [hinit], path := .nil _, canon := ?_, tdIntr := ?_, storeTd := ?_,
      genNum := hg0 }
  · intro k x hx
    simp only [hinit] at hx
    by_cases hk : k = g.id
    · subst hk; simp at hx; subst hx; exact hgU
    · rw [upd_other _ _ _ _ hk] at hx; cases hx
  · intro n i
    simp only [hinit, List.nil_append, List.mem_singleton]
    constructor
    · intro h
      by_cases hn : n = 0
      · subst hn; simp at h; exact ⟨g, rfl, hg0, h⟩
      · rw [upd_other _ _ _ _ hn] at h; cases h
    · rintro ⟨x, rfl, hxn, hxi⟩
      rw [← hxn, hg0]; simp [hxi]
  · intro k t hk
    simp only [hinit] at hk
    by_cases hkg : k = g.id
    · subst hkg
      simp at hk
      exact ⟨g, [], hgU, .nil _, by simp [hinit, diffSum, hk]⟩
    · rw [upd_other _ _ _ _ hkg] at hk; cases hk
  · intro k x hx
    simp only [hinit] at hx ⊢
    by_cases hkg : k = g.id
    · subst hkg; simp
    · rw [upd_other _ _ _ _ hkg] at hx; cases hx

theorem hmax_init (g : Blk) : HMax (hinit g) := by
  intro k t hk
  simp only [hinit] at hk ⊢
  by_cases hkg : k = g.id
  · subst hkg; simp at hk; exact ⟨g.diff, by simp, by omega⟩
  · rw [upd_other _ _ _ _ hkg] at hk; cases hk

/-! ### WriteHeader -/

/-- a successful run of the "overwrite stale assignments" loop walked a stored path from the start header down to the
    first header that was already canonical, and wrote exactly the entries of that path -/
theorem overwriteStale_spec {store : Map Blk} (hids : ∀ k x, store k = some x → x.id = k) :
    ∀ (f : Nat) (canon : Map Nat) (hh hn : Nat) (c2 : Map Nat),
      (∀ n i, canon n = some i → ∃ y, store i = some y ∧ y.number = n) →
      overwriteStale store f canon hh hn = (c2, true) →
      ∃ x l c, store hh = some x ∧ x.number = hn ∧ Path store x l c ∧ canon c.number = some c.id ∧
        (∀ y ∈ l, c2 y.number = some y.id) ∧ (∀ n, (∀ y ∈ l, y.number ≠ n) → c2 n = canon n) := by
  intro f
  induction f with
  | zero => intro canon hh hn c2 _ h; simp [overwriteStale] at h
  | succ f ih =>
    intro canon hh hn c2 hcs h
    unfold overwriteStale at h
    split at h
    · rename_i hc
      cases h
      obtain ⟨y, hy, hyn⟩ := hcs _ _ hc
      have hyid := hids _ _ hy
      exact ⟨y, [], y, hy, hyn, .nil _, by rw [hyn, hyid]; exact hc, by simp, fun _ _ => rfl⟩
    · rename_i hc
      simp only at h
      split at h
      · cases h
      · rename_i x hx
        split at h
        · cases h
        · rename_i hxn
          have hxn' : x.number = hn := by
            apply Classical.byContradiction
            intro hne; exact hxn hne
          split at h
          · cases h
          · rename_i k
            have hxid := hids _ _ hx
            have hcs' : ∀ n i, upd canon (k + 1) (some hh) n = some i → ∃ y, store i = some y ∧ y.number = n := by
              intro n i hni
              by_cases hnk : n = k + 1
              · subst hnk; simp at hni; subst hni; exact ⟨x, hx, hxn'⟩
              · rw [upd_other _ _ _ _ hnk] at hni; exact hcs n i hni
            obtain ⟨p, l, c, hp, hpn, hpath, hcc, hw, hu⟩ := ih _ _ _ _ hcs' h
            have hpar : parentOf store x = some p := parentOf_of hp (by omega)
            have hlnum := hpath.mem_number
            have hcnum : c.number ≤ k := by have := hpath.number; omega
            refine ⟨x, x :: l, c, hx, hxn', .cons hpar hpath, ?_, ?_, ?_⟩
            · rw [upd_other _ _ _ _ (by omega)] at hcc; exact hcc
            · intro y hy
              rcases List.mem_cons.mp hy with rfl | hy'
              · rw [hu _ (fun z hz => by have := (hlnum z hz).2; omega), hxn', hxid]; simp
              · exact hw y hy'
            · intro n hn'
              have hnx : n ≠ k + 1 := by have := hn' x (by simp); omega
              rw [hu n (fun z hz => hn' z (List.mem_cons_of_mem _ hz)), upd_other _ _ _ _ hnx]

/-- the read-only walk of fix 2ee9efd succeeds exactly when the overwrite loop would not hit a missing header (the loop
    only writes at heights it has already passed) -/
theorem overwriteStale_flag {store : Map Blk} : ∀ (f : Nat) (canon canon' : Map Nat) (hh hn : Nat),
    (∀ n, n ≤ hn → canon' n = canon n) →
    (overwriteStale store f canon' hh hn).2 = ancestryOk store f canon hh hn := by
  intro f
  induction f with
  | zero => intro canon canon' hh hn _; rfl
  | succ f ih =>
    intro canon canon' hh hn hagree
    unfold overwriteStale ancestryOk
    rw [hagree hn (Nat.le_refl _)]
    split
    · rfl
    · simp only
      cases hx : store hh with
      | none => rfl
      | some x =>
        simp only
        split
        · rfl
        · cases hn with
          | zero => rfl
          | succ k =>
            simp only
            apply ih
            intro n hn'
            rw [upd_other _ _ _ _ (by omega)]
            exact hagree n (by omega)

/-- the td table after writing the record of `h` -/
theorem htdIntr_upd {U : Map Blk} (W : World U) {s : HSt} {hb : Blk} {C : List Blk} (hI : HInvC U s hb C) {h p : Blk}
    (hhU : U h.id = some h) (hpar : parentOf s.store h = some p) {ptd : Nat} (hptd : s.td h.parent = some ptd) :
    ∀ k t, upd s.td h.id (some (ptd + h.diff)) k = some t →
      ∃ x l, U k = some x ∧ Path U x l s.genesis ∧ t = s.genesis.diff + diffSum l := by
  intro k t hk
  by_cases hkb : k = h.id
  · subst hkb
    simp at hk
    subst hk
    obtain ⟨p', lp, hp'U, hpp, htp⟩ := hI.tdIntr _ _ hptd
    have hpU : U h.parent = some p := hI.sub _ _ (parentOf_some hpar).1
    rw [hpU] at hp'U; cases hp'U
    refine ⟨h, h :: lp, hhU, .cons (parentOf_mono hI.sub hpar) hpp, ?_⟩
    rw [diffSum_cons, htp]
    omega
  · rw [upd_other _ _ _ _ hkb] at hk
    exact hI.tdIntr k t hk

theorem htd_upd_same {U : Map Blk} (W : World U) {s : HSt} {hb : Blk} {C : List Blk} (hI : HInvC U s hb C) {h p : Blk}
    (hhU : U h.id = some h) (hpar : parentOf s.store h = some p) {ptd : Nat} (hptd : s.td h.parent = some ptd)
    {k t : Nat} (hk : s.td k = some t) : upd s.td h.id (some (ptd + h.diff)) k = some t := by
  by_cases hkb : k = h.id
  · subst hkb
    simp only [upd_same]
    congr 1
    have h1 := htdIntr_upd W hI hhU hpar hptd h.id (ptd + h.diff) (by simp)
    have h2 := hI.tdIntr _ _ hk
    obtain ⟨x, l, hx, hp, ht⟩ := h1
    obtain ⟨x', l', hx', hp', ht'⟩ := h2
    rw [hx] at hx'; cases hx'
    have := hp.det hp' rfl
    rw [ht, ht', this.1]
  · rw [upd_other _ _ _ _ hkb]; exact hk

/-- `WriteHeader` preserves the invariant and never crashes (since 2ee9efd a header whose stored ancestry has a hole is
    refused before the index is touched); when it succeeds the header head stays a heaviest header -/
theorem hinv_writeHeader {U : Map Blk} (W : World U) {s : HSt} (hI : HInv U s) {h p : Blk} (hhU : U h.id = some h)
    (hpar : parentOf s.store h = some p) (coin : Bool) :
    HInv U (writeHeader s h coin).st ∧ (writeHeader s h coin).err ≠ some .modelPanic ∧
      ((writeHeader s h coin).err = none → HMax s → HMax (writeHeader s h coin).st) ∧
      (∀ th, s.td s.hhead = some th →
        ∃ th', (writeHeader s h coin).st.td (writeHeader s h coin).st.hhead = some th' ∧ th ≤ th') := by
  obtain ⟨hb, C, hI⟩ := hI
  have hid := hI.headId W
  unfold writeHeader
  cases hptd : s.td h.parent with
  | none => exact ⟨⟨hb, C, hI⟩, by simp, fun _ => id, fun th hth => ⟨th, hth, Nat.le_refl _⟩⟩
  | some ptd =>
    simp only
    rw [hI.headStored]
    have hhtd := hI.storeTd _ _ hI.headStored
    cases hlt : s.td s.hhead with
    | none => rw [hlt] at hhtd; cases hhtd
    | some localTd =>
      simp only
      -- facts about the store / td after the two writes
      have hext : StoreExt s.store (upd s.store h.id (some h)) := by
        intro k x hx
        by_cases hk : k = h.id
        · subst hk
          have := hI.sub _ _ hx
          rw [hhU] at this; cases this; simp
        · rw [upd_other _ _ _ _ hk]; exact hx
      have hsub' : StoreExt (upd s.store h.id (some h)) U := by
        intro k x hx
        by_cases hk : k = h.id
        · subst hk; simp at hx; subst hx; exact hhU
        · rw [upd_other _ _ _ _ hk] at hx; exact hI.sub _ _ hx
      have htdI := htdIntr_upd W hI hhU hpar hptd
      have hstd' : ∀ k x, upd s.store h.id (some h) k = some x → (upd s.td h.id (some (ptd + h.diff)) k).isSome = true := by
        intro k x hx
        by_cases hk : k = h.id
        · subst hk; simp
        · rw [upd_other _ _ _ _ hk] at hx ⊢; exact hI.storeTd k x hx
      by_cases hdec : (decide (ptd + h.diff > localTd) || (ptd + h.diff == localTd && coin)) = true
      · simp only [hdec, if_true]
        have hge : localTd ≤ ptd + h.diff := by
          simp only [Bool.or_eq_true, decide_eq_true_eq, Bool.and_eq_true, beq_iff_eq] at hdec
          omega
        obtain ⟨hps, hpn⟩ := parentOf_some hpar
        cases hnum : h.number with
        | zero => omega
        | succ k =>
          simp only
          cases hanc : ancestryOk (upd s.store h.id (some h)) (k + 1) s.canon h.parent k with
          | false =>
            -- refused: td and header are written, the index and the head are untouched
            simp only [Bool.not_false, if_true]
            exact ⟨⟨hb, C,
              { sub := hsub', headStored := hext _ _ hI.headStored, path := hI.path.mono hext, canon := hI.canon,
                tdIntr := htdI, storeTd := hstd', genNum := hI.genNum }⟩, by simp,
              (fun he => by cases he),
              fun th hth => ⟨th, by cases hth; exact htd_upd_same W hI hhU hpar hptd hlt, Nat.le_refl _⟩⟩
          | true =>
            simp only [Bool.not_true, Bool.false_eq_true, if_false]
            have hflag := overwriteStale_flag (store := upd s.store h.id (some h)) (k + 1) s.canon
              (delCanonAbove s.canon (hb.number + 1) (k + 1 + 1)) h.parent k
              (fun n hn => delCanonAbove_below _ _ _ _ (by omega))
            cases hos : overwriteStale (upd s.store h.id (some h)) (k + 1)
                (delCanonAbove s.canon (hb.number + 1) (k + 1 + 1)) h.parent k with
            | mk c2 okb =>
              rw [hos, hanc] at hflag
              simp only at hflag
              subst hflag
              simp only
              -- canon after the deletion loop
              have hc1low : ∀ n, n ≤ k + 1 → delCanonAbove s.canon (hb.number + 1) (k + 1 + 1) n = s.canon n :=
                fun n hn => delCanonAbove_below _ _ _ _ (by omega)
              have hc1high : ∀ n, k + 1 < n → delCanonAbove s.canon (hb.number + 1) (k + 1 + 1) n = none := by
                intro n hn
                apply delCanonAbove_clears (hb.number + 1) _ (k + 1 + 1) (max hb.number (k + 1) + 1) (by omega)
                · intro m hm1 hm2
                  obtain ⟨x, hx, hxn⟩ := hI.canonBelow m (by omega)
                  rw [(hI.canon m x.id).mpr ⟨x, hx, hxn, rfl⟩]; rfl
                · intro m hm; exact hI.canonAbove m (by omega)
                · omega
              have hids' : ∀ k' x, upd s.store h.id (some h) k' = some x → x.id = k' :=
                fun k' x hx => W.ids _ _ (hsub' _ _ hx)
              have hcs : ∀ n i, delCanonAbove s.canon (hb.number + 1) (k + 1 + 1) n = some i →
                  ∃ y, upd s.store h.id (some h) i = some y ∧ y.number = n := by
                intro n i hni
                by_cases hn : n ≤ k + 1
                · rw [hc1low n hn] at hni
                  obtain ⟨x, hx, hxn, hxi⟩ := (hI.canon n i).mp hni
                  exact ⟨x, by rw [← hxi]; exact hext _ _ (hI.chainStored W x hx), hxn⟩
                · rw [hc1high n (by omega)] at hni; cases hni
              obtain ⟨x, l, c, hx, hxn, hpath, hcc, hw, hu⟩ := overwriteStale_spec hids' _ _ _ _ _ hcs hos
              have hxp : x = p := by
                have := hext _ _ hps
                rw [hx] at this; cases this; rfl
              subst hxp
              have hlnum := hpath.mem_number
              have hcnum : c.number ≤ k := by have := hpath.number; omega
              -- c is canonical in the old chain
              rw [hc1low _ (by omega)] at hcc
              obtain ⟨c0, hc0, hc0n, hc0i⟩ := (hI.canon _ _).mp hcc
              have hcc0 : c0 = c := by
                have h1 := hext _ _ (hI.chainStored W c0 hc0)
                have hcs' : upd s.store h.id (some h) c.id = some c := by
                  rcases hpath.head_eq with ⟨h1', h2'⟩ | ⟨l', h1'⟩
                  · rw [← h2']; have hxid := hids' _ _ hx; rw [hxid]; exact hx
                  · have hne : l ≠ [] := by rw [h1']; simp
                    obtain ⟨w, hw'⟩ := hpath.end_stored hne
                    rw [hids' _ _ hw']; exact hw'
                rw [hc0i, hcs'] at h1; cases h1; rfl
              subst hcc0
              obtain ⟨O, R, z, hsplit, hO, hR, hzn⟩ := hI.path.split c0.number (by rw [hI.genNum]; omega)
                (hI.chainNumber c0 hc0)
              have hzc : z = c0 := by
                have hzmem : z ∈ C ++ [s.genesis] := by
                  rcases hR.head_eq with ⟨h1, h2⟩ | ⟨l'', h1⟩
                  · rw [h2]; simp
                  · rw [hsplit, h1]; simp
                exact hI.chainNumInj z hzmem c0 hc0 hzn
              subst hzc
              have hOnum := hO.mem_number
              have hRnum : ∀ y ∈ R ++ [s.genesis], y.number ≤ z.number := by
                intro y hy
                rcases List.mem_append.mp hy with hy | hy
                · exact (hR.mem_number y hy).2
                · simp at hy; subst hy; have := hR.number; omega
              have hparx : parentOf (upd s.store h.id (some h)) h = some x := parentOf_mono hext hpar
              have hNpath : Path (upd s.store h.id (some h)) h (h :: l) z := .cons hparx hpath
              refine ⟨⟨h, (h :: l) ++ R,
                { sub := hsub', headStored := by simp, path := hNpath.append (hR.mono hext), canon := ?_,
                  tdIntr := htdI, storeTd := hstd', genNum := hI.genNum }⟩, by simp, fun _ hmax => ?_,
                fun th hth => ⟨ptd + h.diff, by simp, by cases hth; exact hge⟩⟩
              · -- the number index is the new chain
                intro n i
                simp only
                constructor
                · intro hni
                  by_cases hnh : n = k + 1
                  · subst hnh
                    simp at hni
                    exact ⟨h, by simp, hnum, hni⟩
                  · rw [upd_other _ _ _ _ hnh] at hni
                    by_cases hin : ∃ y ∈ l, y.number = n
                    · obtain ⟨y, hy, hyn⟩ := hin
                      rw [← hyn, hw y hy] at hni
                      cases hni
                      exact ⟨y, by simp [hy], hyn, rfl⟩
                    · rw [hu n (fun y hy hyn => hin ⟨y, hy, hyn⟩)] at hni
                      by_cases hnk : n ≤ k + 1
                      · rw [hc1low n hnk] at hni
                        obtain ⟨y, hy, hyn, hyi⟩ := (hI.canon n i).mp hni
                        rw [hsplit] at hy
                        simp only [List.append_assoc] at hy
                        rcases List.mem_append.mp hy with hy | hy
                        · -- y above the common block: its height is covered by the new path
                          exfalso
                          have h1 := (hOnum y hy).1
                          obtain ⟨w, hw', hwn⟩ := hpath.cover n (by omega) (by omega)
                          exact hin ⟨w, hw', hwn⟩
                        · exact ⟨y, by simp only [List.append_assoc, List.cons_append]; exact List.mem_cons_of_mem _ (List.mem_append_right _ hy), hyn, hyi⟩
                      · rw [hc1high n (by omega)] at hni; cases hni
                · rintro ⟨y, hy, hyn, hyi⟩
                  simp only [List.append_assoc, List.cons_append] at hy
                  rcases List.mem_cons.mp hy with rfl | hy
                  · rw [← hyn, ← hyi, hnum]; simp
                  · have hyk : n ≠ k + 1 := by
                      rw [← hnum]
                      rcases List.mem_append.mp hy with hy' | hy'
                      · have := (hlnum y hy').2; omega
                      · have := hRnum y hy'; omega
                    rw [upd_other _ _ _ _ hyk]
                    rcases List.mem_append.mp hy with hy' | hy'
                    · rw [← hyn, ← hyi]; exact hw y hy'
                    · have hle := hRnum y hy'
                      rw [hu n (fun w hw' => by have := (hlnum w hw').1; omega), hc1low n (by omega), hI.canon]
                      refine ⟨y, ?_, hyn, hyi⟩
                      rw [hsplit]
                      simp only [List.append_assoc]
                      exact List.mem_append_right _ hy'
              · -- the new head is at least as heavy as everything
                intro k' t hk'
                simp only at hk' ⊢
                refine ⟨ptd + h.diff, by simp, ?_⟩
                by_cases hkh : k' = h.id
                · subst hkh; simp at hk'; omega
                · rw [upd_other _ _ _ _ hkh] at hk'
                  obtain ⟨th, hth, hle⟩ := hmax k' t hk'
                  rw [hlt] at hth; cases hth
                  omega
      · have hdec' : (decide (ptd + h.diff > localTd) || (ptd + h.diff == localTd && coin)) = false := by
          cases hd : (decide (ptd + h.diff > localTd) || (ptd + h.diff == localTd && coin))
          · rfl
          · exact absurd hd hdec
        simp only [hdec', Bool.false_eq_true, if_false]
        have hle : ptd + h.diff ≤ localTd := by
          simp only [Bool.or_eq_false_iff, decide_eq_false_iff_not, Bool.and_eq_false_iff] at hdec'
          omega
        refine ⟨⟨hb, C,
          { sub := hsub', headStored := hext _ _ hI.headStored, path := hI.path.mono hext, canon := hI.canon,
            tdIntr := htdI, storeTd := hstd', genNum := hI.genNum }⟩, by simp, fun _ hmax => ?_,
          fun th hth => ⟨th, by cases hth; exact htd_upd_same W hI hhU hpar hptd hlt, Nat.le_refl _⟩⟩
        intro k' t hk'
        simp only at hk' ⊢
        refine ⟨localTd, htd_upd_same W hI hhU hpar hptd hlt, ?_⟩
        by_cases hkh : k' = h.id
        · subst hkh; simp at hk'; omega
        · rw [upd_other _ _ _ _ hkh] at hk'
          obtain ⟨th, hth, hle'⟩ := hmax k' t hk'
          rw [hlt] at hth; cases hth
          exact hle'


/-! ### InsertHeaderChain -/

theorem isContig_cons {x y : Blk} {rest : List Blk} (h : isContig (x :: y :: rest) = true) :
    y.number = x.number + 1 ∧ y.parent = x.id ∧ isContig (y :: rest) = true := by
  simp only [isContig, Bool.and_eq_true, beq_iff_eq] at h
  exact ⟨h.1.1, h.1.2, h.2⟩

/-- relation between a header-chain state and a later one within an import that ended with error `e`: invariant kept,
    store grown, head's total difficulty not lower; if nothing failed the head is still maximal if it was -/
structure HStep (U : Map Blk) (s s' : HSt) (e : Option Err) : Prop where
  inv : HInv U s'
  ext : StoreExt s.store s'.store
  max : e = none → HMax s → HMax s'
  mono : ∀ th, s.td s.hhead = some th → ∃ th', s'.td s'.hhead = some th' ∧ th ≤ th'
  noPanic : e ≠ some .modelPanic
  gen : s'.genesis = s.genesis

theorem HStep.refl {U : Map Blk} {s : HSt} (h : HInv U s) {e : Option Err} (he : e ≠ some .modelPanic) : HStep U s s e :=
  ⟨h, fun _ _ hx => hx, fun _ => id, fun th hth => ⟨th, hth, Nat.le_refl _⟩, he, rfl⟩

theorem HStep.trans {U : Map Blk} {s s' s'' : HSt} {e : Option Err} (h1 : HStep U s s' none) (h2 : HStep U s' s'' e) :
    HStep U s s'' e :=
  ⟨h2.inv, fun k x hx => h2.ext _ _ (h1.ext _ _ hx), fun he hm => h2.max he (h1.max rfl hm), fun th hth => by
    obtain ⟨th', hth', hle⟩ := h1.mono th hth
    obtain ⟨th'', hth'', hle'⟩ := h2.mono th' hth'
    exact ⟨th'', hth'', by omega⟩, h2.noPanic, by rw [h2.gen, h1.gen]⟩

theorem writeHeader_gen (s : HSt) (h : Blk) (coin : Bool) : (writeHeader s h coin).st.genesis = s.genesis := by
  unfold writeHeader
  cases s.td h.parent with
  | none => rfl
  | some ptd =>
    simp only
    cases s.store s.hhead with
    | none => rfl
    | some cur =>
      cases s.td s.hhead with
      | none => rfl
      | some localTd =>
        simp only
        split
        · cases h.number with
          | zero => rfl
          | succ k =>
            simp only
            split
            · rfl
            · split <;> rfl
        · rfl

theorem writeHeader_ext {U : Map Blk} {s : HSt} (hI : HInv U s) {h : Blk} (hhU : U h.id = some h) (coin : Bool) :
    StoreExt s.store (writeHeader s h coin).st.store := by
  obtain ⟨hb, C, hI⟩ := hI
  have hext : StoreExt s.store (upd s.store h.id (some h)) := by
    intro k x hx
    by_cases hk : k = h.id
    · subst hk
      have := hI.sub _ _ hx
      rw [hhU] at this; cases this; simp
    · rw [upd_other _ _ _ _ hk]; exact hx
  unfold writeHeader
  cases s.td h.parent with
  | none => exact fun _ _ hx => hx
  | some ptd =>
    simp only
    cases s.store s.hhead with
    | none => exact fun _ _ hx => hx
    | some cur =>
      cases s.td s.hhead with
      | none => exact fun _ _ hx => hx
      | some localTd =>
        simp only
        split
        · cases h.number with
          | zero => exact hext
          | succ k =>
            simp only
            split
            · exact hext
            · split <;> exact hext
        · exact hext

/-- on success the header is in the store -/
theorem writeHeader_stored (s : HSt) (h : Blk) (coin : Bool) (herr : (writeHeader s h coin).err = none) :
    (writeHeader s h coin).st.store h.id = some h := by
  unfold writeHeader at herr ⊢
  cases hptd : s.td h.parent with
  | none => rw [hptd] at herr; cases herr
  | some ptd =>
    rw [hptd] at herr
    simp only at herr ⊢
    cases hh : s.store s.hhead with
    | none => rw [hh] at herr; cases herr
    | some cur =>
      rw [hh] at herr
      cases hl : s.td s.hhead with
      | none => rw [hl] at herr; cases herr
      | some localTd =>
        rw [hl] at herr
        simp only at herr ⊢
        by_cases hdec : (decide (ptd + h.diff > localTd) || (ptd + h.diff == localTd && coin)) = true
        · rw [if_pos hdec] at herr ⊢
          cases hnum : h.number with
          | zero => rw [hnum] at herr; cases herr
          | succ k =>
            rw [hnum] at herr
            simp only at herr ⊢
            cases hanc : ancestryOk (upd s.store h.id (some h)) (k + 1) s.canon h.parent k with
            | false => rw [hanc] at herr; simp at herr
            | true =>
              rw [hanc] at herr
              simp only [Bool.not_true, Bool.false_eq_true, if_false] at herr ⊢
              cases hos : overwriteStale (upd s.store h.id (some h)) (k + 1)
                  (delCanonAbove s.canon (cur.number + 1) (k + 1 + 1)) h.parent k with
              | mk c2 okb =>
                rw [hos] at herr
                cases okb with
                | false => cases herr
                | true => simp
        · rw [if_neg hdec]; simp

/-- an unsuccessful `WriteHeader` leaves the number index and the header head untouched (fix 2ee9efd) -/
theorem writeHeader_refusal {U : Map Blk} (W : World U) {s : HSt} (hI : HInv U s) {h p : Blk} (hhU : U h.id = some h)
    (hpar : parentOf s.store h = some p) (coin : Bool) (herr : (writeHeader s h coin).err ≠ none) :
    (writeHeader s h coin).st.canon = s.canon ∧ (writeHeader s h coin).st.hhead = s.hhead := by
  have hnp := (hinv_writeHeader W hI hhU hpar coin).2.1
  unfold writeHeader at herr hnp ⊢
  cases hptd : s.td h.parent with
  | none => exact ⟨rfl, rfl⟩
  | some ptd =>
    rw [hptd] at herr hnp
    simp only at herr hnp ⊢
    cases hh : s.store s.hhead with
    | none => exact ⟨rfl, rfl⟩
    | some cur =>
      rw [hh] at herr hnp
      cases hl : s.td s.hhead with
      | none => exact ⟨rfl, rfl⟩
      | some localTd =>
        rw [hl] at herr hnp
        simp only at herr hnp ⊢
        by_cases hdec : (decide (ptd + h.diff > localTd) || (ptd + h.diff == localTd && coin)) = true
        · rw [if_pos hdec] at herr hnp ⊢
          cases hnum : h.number with
          | zero => exact ⟨rfl, rfl⟩
          | succ k =>
            rw [hnum] at herr hnp
            simp only at herr hnp ⊢
            cases hanc : ancestryOk (upd s.store h.id (some h)) (k + 1) s.canon h.parent k with
            | false => simp
            | true =>
              rw [hanc] at herr hnp
              simp only [Bool.not_true, Bool.false_eq_true, if_false] at herr hnp ⊢
              cases hos : overwriteStale (upd s.store h.id (some h)) (k + 1)
                  (delCanonAbove s.canon (cur.number + 1) (k + 1 + 1)) h.parent k with
              | mk c2 okb =>
                rw [hos] at herr hnp
                cases okb with
                | false => exact absurd rfl hnp
                | true => exact absurd rfl herr
        · rw [if_neg hdec] at herr; exact absurd rfl herr

theorem hstep_writeHeader {U : Map Blk} (W : World U) {s : HSt} (hI : HInv U s) {h p : Blk} (hhU : U h.id = some h)
    (hpar : parentOf s.store h = some p) (coin : Bool) :
    HStep U s (writeHeader s h coin).st (writeHeader s h coin).err := by
  obtain ⟨h1, h2, h3, h4⟩ := hinv_writeHeader W hI hhU hpar coin
  exact ⟨h1, writeHeader_ext hI hhU coin, h3, h4, h2, writeHeader_gen s h coin⟩

theorem hstep_insertSeq {U : Map Blk} (W : World U) : ∀ (l : List Blk) (s : HSt) (coins : List Bool) (i : Nat),
    HInv U s → (∀ h ∈ l, U h.id = some h) → isContig l = true →
    (∀ h0 ∈ l.head?, ∃ p, parentOf s.store h0 = some p) →
    HStep U s (hInsertSeq s l coins i).1.st (hInsertSeq s l coins i).1.err := by
  intro l
  induction l with
  | nil => intro s coins i hI _ _ _; exact HStep.refl hI (by simp [hInsertSeq])
  | cons h rest ih =>
    intro s coins i hI hU hc hp0
    obtain ⟨p, hpar⟩ := hp0 h (by simp)
    have hhU := hU h (by simp)
    have hUrest : ∀ x ∈ rest, U x.id = some x := fun x hx => hU x (List.mem_cons_of_mem _ hx)
    have hcrest : isContig rest = true := by
      cases rest with
      | nil => rfl
      | cons y r => exact (isContig_cons hc).2.2
    -- the parent link of the next header, once h is in the store
    have hnext : ∀ (s' : HSt), s'.store h.id = some h → ∀ h0 ∈ rest.head?, ∃ p, parentOf s'.store h0 = some p := by
      intro s' hs' h0 hh0
      cases rest with
      | nil => cases hh0
      | cons y r =>
        simp at hh0; subst hh0
        obtain ⟨hn, hpy, _⟩ := isContig_cons hc
        exact ⟨h, parentOf_of (by rw [hpy]; exact hs') (by omega)⟩
    unfold hInsertSeq
    by_cases hknown : (s.store h.id).isSome = true
    · simp only [hknown, if_true]
      obtain ⟨hb, C, hI'⟩ := hI
      have hsh : s.store h.id = some h := by
        obtain ⟨x, hx⟩ := Option.isSome_iff_exists.mp hknown
        have := hI'.sub _ _ hx
        rw [hhU] at this; cases this; exact hx
      exact ih s coins (i + 1) ⟨hb, C, hI'⟩ hUrest hcrest (hnext s hsh)
    · have hknown' : (s.store h.id).isSome = false := by
        cases hk : (s.store h.id).isSome
        · rfl
        · exact absurd hk hknown
      simp only [hknown', Bool.false_eq_true, if_false]
      have h1 := hstep_writeHeader W hI hhU hpar (coins.headD false)
      cases herr : (writeHeader s h (coins.headD false)).err with
      | some e =>
        simp only [herr]
        rw [herr] at h1
        exact h1
      | none =>
        simp only [herr]
        rw [herr] at h1
        have hsh := writeHeader_stored s h (coins.headD false) herr
        exact h1.trans (ih _ coins.tail (i + 1) h1.inv hUrest hcrest (hnext _ hsh))

/-- `InsertHeaderChain` -/
theorem hstep_importChain {U : Map Blk} (W : World U) {s : HSt} (hI : HInv U s) (chain : List Blk)
    (hU : ∀ h ∈ chain, U h.id = some h) (coins : List Bool) :
    HStep U s (hImportChain s chain coins).1.st (hImportChain s chain coins).1.err := by
  unfold hImportChain
  by_cases hc : isContig chain = true
  · simp only [hc, Bool.not_true, Bool.false_eq_true, if_false]
    cases chain with
    | nil => exact HStep.refl hI (by simp)
    | cons h rest =>
      simp only
      cases hhc : headerCheck s.store h with
      | some e =>
        simp only
        refine HStep.refl hI ?_
        unfold headerCheck at hhc
        split at hhc
        · cases hhc; simp
        · split at hhc
          · split at hhc
            · cases hhc; simp
            · cases hhc
          · cases hhc
      | none =>
        simp only
        exact hstep_insertSeq W _ s coins 0 hI hU hc (fun h0 hh0 => by
          simp at hh0; subst hh0; exact headerCheck_none hhc)
  · have : isContig chain = false := by
      cases h : isContig chain
      · rfl
      · exact absurd h hc
    simp only [this, Bool.not_false, if_true]
    exact HStep.refl hI (by simp)

/-! ### SetHead on the header chain -/

theorem hunwind_spec : ∀ (O : List Blk) (s : HSt) (x c : Blk) (f n : Nat),
    (∀ k y, s.store k = some y → y.id = k) → s.store x.id = some x → Path s.store x O c → c.number = n →
    O.length < f →
    ∃ s', hunwind f s (some x) n = (s', some c) ∧
      (∀ k, (∃ y ∈ O, y.id = k) → s'.store k = none ∧ s'.td k = none) ∧
      (∀ k, (¬ ∃ y ∈ O, y.id = k) → s'.store k = s.store k ∧ s'.td k = s.td k) ∧
      s'.canon = s.canon ∧ s'.hhead = s.hhead ∧ s'.genesis = s.genesis := by
  intro O
  induction O with
  | nil =>
    intro s x c f n _ _ hp hc hf
    cases hp
    cases f with
    | zero => omega
    | succ f =>
      refine ⟨s, ?_, ?_, ?_, rfl, rfl, rfl⟩
      · unfold hunwind; rw [if_neg (by omega)]
      · rintro k ⟨y, hy, _⟩; cases hy
      · intro k _; exact ⟨rfl, rfl⟩
  | cons a O ih =>
    intro s x c f n hids hx hp hc hf
    obtain ⟨p, hxa, hpar, hrest⟩ : ∃ p, x = a ∧ parentOf s.store x = some p ∧ Path s.store p O c := by
      cases hp with
      | cons hpar hrest => exact ⟨_, rfl, hpar, hrest⟩
    subst hxa
    have hp := Path.cons hpar hrest
    cases f with
    | zero => omega
    | succ f =>
      have hnum := hp.number
      obtain ⟨hps, hpn⟩ := parentOf_some hpar
      have hpid := hids _ _ hps
      have hpx : p.id ≠ x.id := by
        intro he
        rw [← hpid, he, hx] at hps
        cases hps
        omega
      let s1 : HSt := { s with store := upd s.store x.id none, td := upd s.td x.id none }
      have hstep : hunwind (f + 1) s (some x) n = hunwind f s1 (parentOf s1.store x) n := by
        rw [hunwind]
        rw [if_pos (by simp only [List.length_cons] at hnum; omega)]
      have hpar1 : parentOf s1.store x = some p := by
        apply parentOf_of _ hpn
        show upd s.store x.id none x.parent = some p
        rw [upd_other _ _ _ _ (by rw [← hpid]; exact hpx)]
        exact hps
      have hids1 : ∀ k y, s1.store k = some y → y.id = k := by
        intro k y hy
        by_cases hk : k = x.id
        · subst hk; simp [s1] at hy
        · have : s1.store k = s.store k := upd_other _ _ _ _ hk
          rw [this] at hy; exact hids k y hy
      have hp1 : s1.store p.id = some p := by
        show upd s.store x.id none p.id = some p
        rw [upd_other _ _ _ _ hpx, hpid]; exact hps
      have hpath1 : Path s1.store p O c := by
        apply hrest.congr
        intro z hz
        show upd s.store x.id none z.parent = s.store z.parent
        apply upd_other
        intro he
        have hzn := (hrest.mem_number z hz).2
        obtain ⟨q, hq⟩ := hrest.parent_of_mem z hz
        obtain ⟨hq1, hq2⟩ := parentOf_some hq
        rw [he, hx] at hq1
        cases hq1
        omega
      obtain ⟨s', hun, hrm, hkeep, hrest'⟩ := ih s1 p c f n hids1 hp1 hpath1 hc (by simp at hf; omega)
      refine ⟨s', by rw [hstep, hpar1]; exact hun, ?_, ?_, hrest'⟩
      · rintro k ⟨y, hy, hyk⟩
        rcases List.mem_cons.mp hy with rfl | hy'
        · by_cases hin : ∃ y' ∈ O, y'.id = k
          · exact hrm k hin
          · have := hkeep k hin
            rw [this.1, this.2, ← hyk]
            exact ⟨by simp [s1], by simp [s1]⟩
        · exact hrm k ⟨y, hy', hyk⟩
      · intro k hk
        have hk1 : ¬ ∃ y ∈ O, y.id = k := fun ⟨y, hy, hyk⟩ => hk ⟨y, List.mem_cons_of_mem _ hy, hyk⟩
        have hkx : k ≠ x.id := fun he => hk ⟨x, by simp, he.symm⟩
        have := hkeep k hk1
        rw [this.1, this.2]
        exact ⟨upd_other _ _ _ _ hkx, upd_other _ _ _ _ hkx⟩

/-- `HeaderChain.SetHead(n)` preserves the invariant (no condition: a header chain has no state to lose) -/
theorem hinv_setHead {U : Map Blk} (W : World U) {s : HSt} (h : HInv U s) (n : Nat) : HInv U (hSetHead s n).st := by
  obtain ⟨hb, C, h⟩ := h
  have hid := h.headId W
  unfold hSetHead
  rw [h.headStored]
  simp only
  have hstored : s.store hb.id = some hb := by rw [hid]; exact h.headStored
  by_cases hn : hb.number ≤ n
  · have hun : hunwind (hb.number + 1) s (some hb) n = (s, some hb) := by
      rw [hunwind, if_neg (by omega)]
    rw [hun]
    simp only [Option.getD_some]
    refine ⟨hb, C,
      { sub := h.sub, headStored := hstored, path := h.path, canon := ?_, tdIntr := h.tdIntr, storeTd := h.storeTd,
        genNum := h.genNum }⟩
    intro k i
    simp only
    rw [delCanonRange_apply, if_neg (by omega)]
    exact h.canon k i
  · have hn' : n < hb.number := by omega
    obtain ⟨O, R, c, hsplit, hO, hR, hcn⟩ := h.path.split n (by rw [h.genNum]; omega) (by omega)
    have hOlen : O.length < hb.number + 1 := by have := hO.number; omega
    obtain ⟨s', hun, hrm, hkeep, hcan, hhh, hgen⟩ :=
      hunwind_spec O s hb c (hb.number + 1) n (h.storeIds W) hstored hO hcn hOlen
    rw [hun]
    simp only [Option.getD_some]
    have hcmem : c ∈ C ++ [s.genesis] := (h.memOfPath hO).1
    have hcstored := h.chainStored W c hcmem
    have hOnum := hO.mem_number
    have hRmem : ∀ x ∈ R ++ [s.genesis], x ∈ C ++ [s.genesis] := by
      intro x hx
      rw [hsplit]
      simp only [List.append_assoc]
      exact List.mem_append_right _ hx
    have hRnum : ∀ x ∈ R ++ [s.genesis], x.number ≤ n := by
      intro x hx
      rcases List.mem_append.mp hx with hx | hx
      · have := (hR.mem_number x hx).2; omega
      · simp at hx; subst hx; rw [h.genNum]; omega
    have hRnot : ∀ x ∈ R ++ [s.genesis], ¬ ∃ y ∈ O, y.id = x.id := by
      intro x hx
      rintro ⟨y, hy, hyx⟩
      have hys := h.chainStored W y (by rw [hsplit]; simp [hy])
      rw [hyx, h.chainStored W x (hRmem x hx)] at hys
      cases hys
      have := (hOnum x hy).1
      have := hRnum x hx
      omega
    have hcR : c ∈ R ++ [s.genesis] := by
      rcases hR.head_eq with ⟨h1, h2⟩ | ⟨l'', h1⟩
      · rw [h2]; simp
      · rw [h1]; simp
    have hc' : s'.store c.id = some c := by rw [(hkeep _ (hRnot c hcR)).1]; exact hcstored
    refine ⟨c, R,
      { sub := ?_, headStored := hc', path := ?_, canon := ?_, tdIntr := ?_, storeTd := ?_,
        genNum := by simp only [hgen]; exact h.genNum }⟩
    · intro k x hx
      simp only at hx
      by_cases hk : ∃ y ∈ O, y.id = k
      · rw [(hrm k hk).1] at hx; cases hx
      · rw [(hkeep k hk).1] at hx; exact h.sub k x hx
    · simp only [hgen]
      apply hR.congr
      intro z hz
      obtain ⟨q, hq⟩ := hR.parent_of_mem z hz
      obtain ⟨hq1, hq2⟩ := parentOf_some hq
      apply (hkeep _ _).1
      rintro ⟨y, hy, hyq⟩
      have hys := h.chainStored W y (by rw [hsplit]; simp [hy])
      rw [hyq, hq1] at hys
      cases hys
      have := (hOnum q hy).1
      have := (hR.mem_number z hz).2
      omega
    · intro k i
      simp only [hgen, hcan]
      rw [delCanonRange_apply]
      constructor
      · intro hk
        split at hk
        · cases hk
        · rename_i hcond
          obtain ⟨x, hx, hxn, hxi⟩ := (h.canon k i).mp hk
          have hle := h.chainNumber x hx
          rw [hsplit] at hx
          simp only [List.append_assoc] at hx
          rcases List.mem_append.mp hx with hx | hx
          · have := (hOnum x hx).1; omega
          · exact ⟨x, hx, hxn, hxi⟩
      · rintro ⟨x, hx, hxn, hxi⟩
        have := hRnum x hx
        rw [if_neg (by omega)]
        exact (h.canon k i).mpr ⟨x, hRmem x hx, hxn, hxi⟩
    · intro k t hk
      simp only [hgen] at hk ⊢
      by_cases hko : ∃ y ∈ O, y.id = k
      · rw [(hrm k hko).2] at hk; cases hk
      · rw [(hkeep k hko).2] at hk; exact h.tdIntr k t hk
    · intro k x hx
      simp only at hx ⊢
      by_cases hko : ∃ y ∈ O, y.id = k
      · rw [(hrm k hko).1] at hx; cases hx
      · rw [(hkeep k hko).1] at hx
        rw [(hkeep k hko).2]
        exact h.storeTd k x hx

/-- the invariant implies C03 as stated, for the header chain -/
theorem hspec_of_inv {U : Map Blk} (W : World U) {s : HSt} (h : HInv U s) : HSpecInv s := by
  obtain ⟨hb, C, h⟩ := h
  have hid := h.headId W
  have hstored : s.store hb.id = some hb := by rw [hid]; exact h.headStored
  refine ⟨⟨hb, h.headStored⟩, ?_, ?_⟩
  · intro hb' hhb' n hn
    rw [h.headStored] at hhb'; cases hhb'
    have hlen := h.path.number
    rw [h.genNum] at hlen
    obtain ⟨z, hz, hzn⟩ := path_index h.path (hb.number - n) (by omega)
    have hzmem : z ∈ C ++ [s.genesis] := List.mem_of_getElem? hz
    refine ⟨z, ?_, by omega, ?_, ?_⟩
    · rw [← hid]; exact up_path (h.storeIds W) h.path hstored _ _ hz
    · exact (h.canon _ _).mpr ⟨z, hzmem, by omega, rfl⟩
    · exact h.storeTd _ _ (h.chainStored W z hzmem)
  · intro hb' hhb' n hn
    rw [h.headStored] at hhb'; cases hhb'
    exact h.canonAbove n hn

/-! ### import-only header histories never crash -/

def HClosed (s : HSt) : Prop := ∀ k x, s.store k = some x → ∃ l, Path s.store x l s.genesis

/-- with the ancestry of the start header stored down to a canonical genesis, the overwrite loop terminates normally -/
theorem overwriteStale_ok {store : Map Blk} (hids : ∀ k x, store k = some x → x.id = k) {g : Blk} (hg0 : g.number = 0) :
    ∀ (l : List Blk) (x : Blk) (canon : Map Nat) (f : Nat), Path store x l g → store x.id = some x →
      canon 0 = some g.id → x.number < f → (overwriteStale store f canon x.id x.number).2 = true := by
  intro l
  induction l with
  | nil =>
    intro x canon f hp hx hc0 hf
    cases hp
    cases f with
    | zero => omega
    | succ f =>
      unfold overwriteStale
      rw [hg0, if_pos hc0]
  | cons a l ih =>
    intro x canon f hp hx hc0 hf
    obtain ⟨p, hxa, hpar, hrest⟩ : ∃ p, x = a ∧ parentOf store x = some p ∧ Path store p l g := by
      cases hp with
      | cons hpar hrest => exact ⟨_, rfl, hpar, hrest⟩
    subst hxa
    obtain ⟨hps, hpn⟩ := parentOf_some hpar
    have hpid := hids _ _ hps
    cases f with
    | zero => omega
    | succ f =>
      unfold overwriteStale
      split
      · rfl
      · simp only [hx]
        rw [if_neg (by simp)]
        cases hxn : x.number with
        | zero => omega
        | succ k =>
          simp only
          have hpk : p.number = k := by omega
          rw [← hpid, ← hpk]
          apply ih p _ f hrest (by rw [hpid]; exact hps)
          · rw [upd_other _ _ _ _ (by omega)]; exact hc0
          · omega


theorem writeHeader_closed {U : Map Blk} (W : World U) {s : HSt} (hI : HInv U s) (hcl : HClosed s) {h p : Blk}
    (hhU : U h.id = some h) (hpar : parentOf s.store h = some p) (coin : Bool) :
    (writeHeader s h coin).err = none ∧ HClosed (writeHeader s h coin).st := by
  obtain ⟨hb, C, hI⟩ := hI
  have hext : StoreExt s.store (upd s.store h.id (some h)) := by
    intro k x hx
    by_cases hk : k = h.id
    · subst hk
      have := hI.sub _ _ hx
      rw [hhU] at this; cases this; simp
    · rw [upd_other _ _ _ _ hk]; exact hx
  have hsub' : StoreExt (upd s.store h.id (some h)) U := by
    intro k x hx
    by_cases hk : k = h.id
    · subst hk; simp at hx; subst hx; exact hhU
    · rw [upd_other _ _ _ _ hk] at hx; exact hI.sub _ _ hx
  have hcl' : ∀ k x, upd s.store h.id (some h) k = some x → ∃ l, Path (upd s.store h.id (some h)) x l s.genesis := by
    intro k x hx
    by_cases hk : k = h.id
    · subst hk
      simp at hx
      obtain ⟨l, hl⟩ := hcl _ _ (parentOf_some hpar).1
      rw [← hx]
      exact ⟨h :: l, .cons (parentOf_mono hext hpar) (hl.mono hext)⟩
    · rw [upd_other _ _ _ _ hk] at hx
      obtain ⟨l, hl⟩ := hcl k x hx
      exact ⟨l, hl.mono hext⟩
  obtain ⟨hps, hpn⟩ := parentOf_some hpar
  have hptd' := hI.storeTd _ _ hps
  unfold writeHeader
  cases hptd : s.td h.parent with
  | none => rw [hptd] at hptd'; cases hptd'
  | some ptd =>
    simp only
    rw [hI.headStored]
    have hhtd := hI.storeTd _ _ hI.headStored
    cases hlt : s.td s.hhead with
    | none => rw [hlt] at hhtd; cases hhtd
    | some localTd =>
      simp only
      by_cases hdec : (decide (ptd + h.diff > localTd) || (ptd + h.diff == localTd && coin)) = true
      · rw [if_pos hdec]
        cases hnum : h.number with
        | zero => omega
        | succ k =>
          simp only
          have hids' : ∀ k' x, upd s.store h.id (some h) k' = some x → x.id = k' :=
            fun k' x hx => W.ids _ _ (hsub' _ _ hx)
          obtain ⟨lp, hlp⟩ := hcl _ _ hps
          have hpid := W.ids _ _ (hI.sub _ _ hps)
          have hc0 : delCanonAbove s.canon (hb.number + 1) (k + 1 + 1) 0 = some s.genesis.id := by
            rw [delCanonAbove_below _ _ _ _ (by omega)]
            exact (hI.canon 0 _).mpr ⟨s.genesis, by simp, hI.genNum, rfl⟩
          have hok := overwriteStale_ok hids' hI.genNum lp p
            (delCanonAbove s.canon (hb.number + 1) (k + 1 + 1)) (k + 1) (hlp.mono hext)
            (by rw [hpid]; exact hext _ _ hps) hc0 (by omega)
          rw [hpid, show p.number = k by omega] at hok
          have hflag := overwriteStale_flag (store := upd s.store h.id (some h)) (k + 1) s.canon
            (delCanonAbove s.canon (hb.number + 1) (k + 1 + 1)) h.parent k
            (fun n hn => delCanonAbove_below _ _ _ _ (by omega))
          rw [hok] at hflag
          rw [← hflag]
          simp only [Bool.not_true, Bool.false_eq_true, if_false]
          cases hos : overwriteStale (upd s.store h.id (some h)) (k + 1)
              (delCanonAbove s.canon (hb.number + 1) (k + 1 + 1)) h.parent k with
          | mk c2 okb =>
            rw [hos] at hok
            simp only at hok
            subst hok
            exact ⟨rfl, hcl'⟩
      · rw [if_neg hdec]
        exact ⟨rfl, hcl'⟩

theorem hclosed_insertSeq {U : Map Blk} (W : World U) : ∀ (l : List Blk) (s : HSt) (coins : List Bool) (i : Nat),
    HInv U s → HClosed s → (∀ h ∈ l, U h.id = some h) → isContig l = true →
    (∀ h0 ∈ l.head?, ∃ p, parentOf s.store h0 = some p) →
    (hInsertSeq s l coins i).1.err = none ∧ HClosed (hInsertSeq s l coins i).1.st := by
  intro l
  induction l with
  | nil => intro s coins i _ hcl _ _ _; exact ⟨by simp [hInsertSeq], hcl⟩
  | cons h rest ih =>
    intro s coins i hI hcl hU hc hp0
    obtain ⟨p, hpar⟩ := hp0 h (by simp)
    have hhU := hU h (by simp)
    have hUrest : ∀ x ∈ rest, U x.id = some x := fun x hx => hU x (List.mem_cons_of_mem _ hx)
    have hcrest : isContig rest = true := by
      cases rest with
      | nil => rfl
      | cons y r => exact (isContig_cons hc).2.2
    have hnext : ∀ (s' : HSt), s'.store h.id = some h → ∀ h0 ∈ rest.head?, ∃ p, parentOf s'.store h0 = some p := by
      intro s' hs' h0 hh0
      cases rest with
      | nil => cases hh0
      | cons y r =>
        simp at hh0; subst hh0
        obtain ⟨hn, hpy, _⟩ := isContig_cons hc
        exact ⟨h, parentOf_of (by rw [hpy]; exact hs') (by omega)⟩
    unfold hInsertSeq
    by_cases hknown : (s.store h.id).isSome = true
    · simp only [hknown, if_true]
      obtain ⟨hb, C, hI'⟩ := hI
      have hsh : s.store h.id = some h := by
        obtain ⟨x, hx⟩ := Option.isSome_iff_exists.mp hknown
        have := hI'.sub _ _ hx
        rw [hhU] at this; cases this; exact hx
      exact ih s coins (i + 1) ⟨hb, C, hI'⟩ hcl hUrest hcrest (hnext s hsh)
    · have hknown' : (s.store h.id).isSome = false := by
        cases hk : (s.store h.id).isSome
        · rfl
        · exact absurd hk hknown
      simp only [hknown', Bool.false_eq_true, if_false]
      obtain ⟨herr, hcl1⟩ := writeHeader_closed W hI hcl hhU hpar (coins.headD false)
      simp only [herr]
      have h1 := hstep_writeHeader W hI hhU hpar (coins.headD false)
      have hsh := writeHeader_stored s h (coins.headD false) herr
      exact ih _ coins.tail (i + 1) h1.inv hcl1 hUrest hcrest (hnext _ hsh)

/-- on an ancestor-closed header store `InsertHeaderChain` keeps the store closed and the header head maximal -/
theorem hclosed_importChain {U : Map Blk} (W : World U) {s : HSt} (hI : HInv U s) (hcl : HClosed s) (chain : List Blk)
    (hU : ∀ h ∈ chain, U h.id = some h) (coins : List Bool) :
    HClosed (hImportChain s chain coins).1.st ∧ (HMax s → HMax (hImportChain s chain coins).1.st) := by
  have hst := hstep_importChain W hI chain hU coins
  unfold hImportChain at hst ⊢
  by_cases hc : isContig chain = true
  · simp only [hc, Bool.not_true, Bool.false_eq_true, if_false] at hst ⊢
    cases chain with
    | nil => exact ⟨hcl, id⟩
    | cons h rest =>
      simp only at hst ⊢
      cases hhc : headerCheck s.store h with
      | some e => exact ⟨hcl, id⟩
      | none =>
        simp only [hhc] at hst ⊢
        obtain ⟨herr, hcl'⟩ := hclosed_insertSeq W _ s coins 0 hI hcl hU hc (fun h0 hh0 => by
          simp at hh0; subst hh0; exact headerCheck_none hhc)
        exact ⟨hcl', hst.max herr⟩
  · have : isContig chain = false := by
      cases h : isContig chain
      · rfl
      · exact absurd h hc
    simp only [this, Bool.not_false, if_true]
    exact ⟨hcl, id⟩

theorem hclosed_init (g : Blk) : HClosed (hinit g) := by
  intro k x hx
  simp only [hinit] at hx
  by_cases hk : k = g.id
  · subst hk; simp at hx; subst hx; exact ⟨[], .nil _⟩
  · rw [upd_other _ _ _ _ hk] at hx; cases hx


/-! ### histories on the header chain -/

inductive HOp
  | insert (chain : List Blk) (coins : List Bool)    -- InsertHeaderChain
  | setHead (n : Nat)

def hstep (s : HSt) : HOp → HOut
  | .insert chain coins => (hImportChain s chain coins).1
  | .setHead n => hSetHead s n

def hrun (s : HSt) : List HOp → HSt
  | [] => s
  | op :: ops => hrun (hstep s op).st ops

def HOpOk (U : Map Blk) : HOp → Prop
  | .insert chain _ => ∀ h ∈ chain, U h.id = some h
  | .setHead _ => True

/-- the headers are headers of the universe (since 2ee9efd no call can crash on a missing ancestor: no further condition) -/
def HAdmissible (U : Map Blk) (s : HSt) : List HOp → Prop
  | [] => True
  | op :: ops => HOpOk U op ∧ HAdmissible U (hstep s op).st ops

instance (U : Map Blk) : (op : HOp) → Decidable (HOpOk U op)
  | .insert chain _ => inferInstanceAs (Decidable (∀ h ∈ chain, U h.id = some h))
  | .setHead _ => isTrue trivial

instance decHAdmissible (U : Map Blk) : ∀ (ops : List HOp) (s : HSt), Decidable (HAdmissible U s ops)
  | [], _ => isTrue trivial
  | op :: ops, s =>
    have := decHAdmissible U ops (hstep s op).st
    inferInstanceAs (Decidable (HOpOk U op ∧ HAdmissible U (hstep s op).st ops))

theorem hinv_run {U : Map Blk} (W : World U) : ∀ (ops : List HOp) {s : HSt}, HInv U s → HAdmissible U s ops →
    HInv U (hrun s ops) := by
  intro ops
  induction ops with
  | nil => intro s h _; exact h
  | cons op ops ih =>
    intro s h hadm
    apply ih _ hadm.2
    cases op with
    | insert chain coins => exact (hstep_importChain W h chain hadm.1 coins).inv
    | setHead n => exact hinv_setHead W h n

/-- import-only header histories: never a crash, the header head stays a heaviest header, total difficulty monotone -/
def HImports (U : Map Blk) (ops : List HOp) : Prop :=
  ∀ op ∈ ops, match op with
    | .insert chain _ => ∀ h ∈ chain, U h.id = some h
    | .setHead _ => False

theorem himports_run {U : Map Blk} (W : World U) : ∀ (ops : List HOp) {s : HSt}, HInv U s → HClosed s → HMax s →
    HImports U ops → HAdmissible U s ops ∧ HInv U (hrun s ops) ∧ HClosed (hrun s ops) ∧ HMax (hrun s ops) ∧
      (∀ th, s.td s.hhead = some th → ∃ th', (hrun s ops).td (hrun s ops).hhead = some th' ∧ th ≤ th') := by
  intro ops
  induction ops with
  | nil => intro s h hc hm _; exact ⟨trivial, h, hc, hm, fun th hth => ⟨th, hth, Nat.le_refl _⟩⟩
  | cons op ops ih =>
    intro s h hc hm hops
    have hop := hops op (by simp)
    cases op with
    | setHead n => exact hop.elim
    | insert chain coins =>
      obtain ⟨hcl', hmax'⟩ := hclosed_importChain W h hc chain hop coins
      have hst := hstep_importChain W h chain hop coins
      obtain ⟨ha, hi, hc2, hm2, hmono⟩ := ih hst.inv hcl' (hmax' hm)
        (fun o ho => hops o (List.mem_cons_of_mem _ ho))
      refine ⟨⟨hop, ha⟩, hi, hc2, hm2, fun th hth => ?_⟩
      obtain ⟨th', hth', hle⟩ := hst.mono th hth
      obtain ⟨th'', hth'', hle'⟩ := hmono th' hth'
      exact ⟨th'', hth'', by omega⟩

/-- no header import ever crashes -/
theorem hImportChain_no_panic {U : Map Blk} (W : World U) {s : HSt} (hI : HInv U s) (chain : List Blk)
    (hU : ∀ h ∈ chain, U h.id = some h) (coins : List Bool) :
    (hImportChain s chain coins).1.err ≠ some .modelPanic := (hstep_importChain W hI chain hU coins).noPanic

end Aqv.Chain

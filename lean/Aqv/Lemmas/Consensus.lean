/-
  Aqv.Lemmas.Consensus — helper lemmas for C13 (difficulty eras, header rule list).
-/
import Aqv.Model.Consensus
namespace Aqv.Consensus

theorem isForkBlock_eq (c : Config) (i next : Nat) : c.isForkBlock i next = decide (c.getHF i = some next) := by
  unfold Config.isForkBlock Config.isHF
  cases h : c.getHF i with
  | none => simp
  | some s =>
    by_cases hs : s = next
    · subst hs; simp
    · simp [hs]

theorem isHF_of_getHF (c : Config) (i next : Nat) (h : c.getHF i = some next) : c.isHF i next = true := by
  unfold Config.isHF; rw [h]; simp

/-- what `ordered` says, in usable form. -/
theorem ordered_facts (c : Config) (h : c.ordered = true) :
    c.getHF 10 = none ∧
    (∀ a, c.getHF 6 = some a → a = 0 ∨ (c.isHF 2 a = true ∧ c.getHF 1 ≠ some a ∧ c.getHF 3 ≠ some a ∧ c.getHF 5 ≠ some a)) ∧
    (∀ a, c.getHF 7 = some a → a = 0 ∨ (c.isHF 2 a = true ∧ c.getHF 1 ≠ some a ∧ c.getHF 3 ≠ some a ∧ c.getHF 5 ≠ some a)) ∧
    (∀ a, c.getHF 1 = some a → a = 0 ∨ c.isHF 2 a = false ∨ c.getHF 3 = some a ∨ c.getHF 5 = some a ∨ c.getHF 8 = some a) := by
  unfold Config.ordered at h
  simp only [Bool.and_eq_true, List.all_cons, List.all_nil, Bool.and_true] at h
  obtain ⟨⟨h10, h6, h7⟩, h1⟩ := h
  refine ⟨by simpa using h10, ?_, ?_, ?_⟩
  · intro a ha; rw [ha] at h6; simp at h6; rcases h6 with h6 | h6
    · exact Or.inl h6
    · exact Or.inr ⟨h6.1.1.1, h6.1.1.2, h6.1.2, h6.2⟩
  · intro a ha; rw [ha] at h7; simp at h7; rcases h7 with h7 | h7
    · exact Or.inl h7
    · exact Or.inr ⟨h7.1.1.1, h7.1.1.2, h7.1.2, h7.2⟩
  · intro a ha; rw [ha] at h1; simp at h1
    rcases h1 with (((h1 | h1) | h1) | h1) | h1
    · exact Or.inl h1
    · exact Or.inr (Or.inl h1)
    · exact Or.inr (Or.inr (Or.inl h1))
    · exact Or.inr (Or.inr (Or.inr (Or.inl h1)))
    · exact Or.inr (Or.inr (Or.inr (Or.inr h1)))


theorem isHF_ten_false (c : Config) (n : Nat) (h : c.getHF 10 = none) : c.isHF 10 n = false := by
  unfold Config.isHF; rw [h]

theorem difficulty_spec_aux (P : DiffParams) (cfg : Config) (hord : cfg.ordered = true) (time : Nat) (parent : Header) (grand : Option Header) :
    calcDifficultyHFX P cfg time parent grand = .val (difficultySpec P cfg time parent) := by
  obtain ⟨h10, h6, h7, h1⟩ := ordered_facts cfg hord
  have hnext : parent.number + 1 ≠ 0 := by omega
  generalize hn : parent.number + 1 = next at hnext
  unfold calcDifficultyHFX difficultySpec resetValue eraFormula
  simp only [hn, isForkBlock_eq, isHF_ten_false cfg next h10]
  by_cases e8 : cfg.getHF 8 = some next
  · simp [e8]
  by_cases e6 : cfg.getHF 6 = some next
  · rcases h6 next e6 with h | ⟨h2, n1, n3, n5⟩
    · exact absurd h hnext
    · simp only [e8, e6, n1, n3, n5, h2, isHF_of_getHF cfg 6 next e6, simpleAdjust, eraDivisor, eraLimit, eraMin]
      by_cases b8 : cfg.isHF 8 next = true <;> by_cases b5 : cfg.isHF 5 next = true <;> by_cases b3 : cfg.isHF 3 next = true <;>
        by_cases b1 : cfg.isHF 1 next = true <;> simp [b8, b5, b3, b1]
  by_cases e7 : cfg.getHF 7 = some next
  · rcases h7 next e7 with h | ⟨h2, n1, n3, n5⟩
    · exact absurd h hnext
    · simp only [e8, e6, e7, n1, n3, n5, h2, simpleAdjust, eraDivisor, eraLimit, eraMin]
      by_cases b8 : cfg.isHF 8 next = true <;> by_cases b6 : cfg.isHF 6 next = true <;> by_cases b5 : cfg.isHF 5 next = true <;>
        by_cases b3 : cfg.isHF 3 next = true <;> by_cases b1 : cfg.isHF 1 next = true <;> simp [b8, b6, b5, b3, b1]
  by_cases e5 : cfg.getHF 5 = some next
  · simp [e8, e6, e7, e5]
  by_cases e3 : cfg.getHF 3 = some next
  · simp [e8, e6, e7, e5, e3]
  by_cases h2 : cfg.isHF 2 next = true
  · have n1 : cfg.getHF 1 ≠ some next := by
      intro e1
      rcases h1 next e1 with h | h | h | h | h
      · exact hnext h
      · rw [h2] at h; cases h
      · exact e3 h
      · exact e5 h
      · exact e8 h
    simp only [e8, e6, e7, e5, e3, n1, h2, simpleAdjust, eraDivisor, eraLimit, eraMin]
    by_cases b8 : cfg.isHF 8 next = true <;> by_cases b6 : cfg.isHF 6 next = true <;> by_cases b5 : cfg.isHF 5 next = true <;>
      by_cases b3 : cfg.isHF 3 next = true <;> by_cases b1 : cfg.isHF 1 next = true <;> simp [b8, b6, b5, b3, b1]
  · have n2 : cfg.getHF 2 ≠ some next := fun e2 => h2 (isHF_of_getHF cfg 2 next e2)
    by_cases e1 : cfg.getHF 1 = some next
    · simp [e8, e6, e7, e5, e3, n2, h2, e1]
    · simp only [e8, e6, e7, e5, e3, n2, h2, e1, calcDifficultyHF1, calcDifficultyStarting, bigMax]
      by_cases b1 : cfg.isHF 1 next = true <;> simp [b1]

end Aqv.Consensus

/-
  Aqv.Lemmas.VmTable — facts about the GENERATED instruction tables (Gen.VmFlags) consumed by the C07 proofs; all by `decide`,
  so they are re-established against whatever core/vm/jump_table.go says on every run.
-/
import Aqv.Lemmas.VmGas
namespace Aqv.Vm
open Aqv.Gen.VmFlags

/-- per-opcode well-formedness of a table entry -/
def opOK (f : OpF) : Bool :=
  -- the execute function of a CALL-family opcode is paired with its gas function (run dispatches on the former, the
  -- forwarded gas comes from the latter); opCreate with gasCreate; opCall is opcode 0xf1 (enforceRestrictions tests the number)
  (match execKind f.execFn with
   | some .call => f.gasFn == .gasCall && f.op == 0xf1
   | some .callcode => f.gasFn == .gasCallCode
   | some .delegate => f.gasFn == .gasDelegateCall
   | some .static => f.gasFn == .gasStaticCall
   | none => !isCallGas f.gasFn) &&
  (f.execFn != .opCreate || f.gasFn == .gasCreate) &&
  -- an opcode that may resize memory has a gas function that charges for it
  (gasChargesMem f.gasFn || f.memFn == .none) &&
  -- an opcode after which the loop continues costs at least 1 gas under every gas table
  (f.halts || f.reverts || gasTables.all (fun gt => decide (1 ≤ gasFloor gt f))) &&
  -- CALL-family and CREATE do not end the frame
  (((execKind f.execFn).isNone && f.execFn != .opCreate) || (!f.halts && !f.reverts)) &&
  -- stack reads of the memory-size and gas functions (depths derived from the source by vmaccess) stay below the height
  -- validateStack guarantees
  (f.memReads ≤ f.pops && f.gasReads ≤ f.pops) &&
  -- hand classification "modifies state directly" ⊆ writes flag
  (!(execWrites f.execFn || f.execFn == .opCreate || gasTouchesState f.gasFn) || f.writes) &&
  -- the execute body pops / peeks no deeper than validateStack guarantees (depth derived from the source by vmaccess)
  decide (f.execReads ≤ f.pops) &&
  -- every memory range the execute body dereferences (derived from the source by vmaccess) is one of the ranges whose
  -- calcMemSize the opcode's memory-size function takes the maximum of
  f.execRanges.all (fun r => (memFnRanges f.memFn).contains r)

theorem table_ok : ∀ ep : Epoch, (table ep).all opOK = true := by
  intro ep
  cases ep <;> decide

theorem lookup_mem {ep : Epoch} {op : Nat} {f : OpF} (h : lookup ep op = some f) : f ∈ table ep ∧ f.op = op := by
  unfold lookup at h
  have h1 := List.mem_of_find?_eq_some h
  have h2 := List.find?_some h
  exact ⟨h1, by simpa using h2⟩

theorem lookup_ok {ep : Epoch} {op : Nat} {f : OpF} (h : lookup ep op = some f) : opOK f = true :=
  List.all_eq_true.mp (table_ok ep) f (lookup_mem h).1

/-- facts about the gas tables and protocol constants the termination / accounting arguments need -/
theorem gasTables_ok : ∀ gt ∈ gasTables, gt.createBySuicide > 0 ∧ 1 ≤ gt.calls := by decide

theorem consts_ok : callStipend ≤ callValueTransferGas ∧ 1 ≤ createGas ∧ callCreateDepth = 1024 ∧ stackLimit = 1024 := by decide

end Aqv.Vm

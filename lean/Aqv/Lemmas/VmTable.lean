/-
  Aqv.Lemmas.VmTable — facts about the GENERATED instruction tables (Gen.VmFlags) consumed by the C07 proofs; all by `decide`,
  so they are re-established against whatever core/vm/jump_table.go says on every run.
-/
import Aqv.Lemmas.VmGas
namespace Aqv.Vm
open Aqv.Gen.VmFlags

/-- highest stack index + 1 read by a memorySize function (memory_table.go) -/
def memFnReads : MemFn → Nat
  | .none => 0
  | .memorySha3 => 2 | .memoryCallDataCopy => 3 | .memoryReturnDataCopy => 3 | .memoryCodeCopy => 3 | .memoryExtCodeCopy => 4
  | .memoryMLoad => 1 | .memoryMStore8 => 1 | .memoryMStore => 1 | .memoryCreate => 3 | .memoryCall => 7
  | .memoryDelegateCall => 6 | .memoryStaticCall => 6 | .memoryReturn => 2 | .memoryRevert => 2 | .memoryLog => 2

/-- highest stack index + 1 read by a gas function (gas_table.go) -/
def gasFnReads : GasFn → Nat
  | .gasCallDataCopy => 3 | .gasReturnDataCopy => 3 | .gasCodeCopy => 3 | .gasExtCodeCopy => 4 | .gasSha3 => 2
  | .gasSStore => 2 | .makeGasLog => 2 | .gasExp => 2 | .gasCall => 3 | .gasCallCode => 3 | .gasDelegateCall => 1
  | .gasStaticCall => 1 | .gasSuicide => 1
  | _ => 0

/-- number of stack items the body of an execute function accesses (pop / peek / dup / swap depth), transcribed from
    instructions.go; closures made by makeDup / makeSwap / makeLog take their parameter from the opcode they are installed at -/
def execReads (f : OpF) : Nat :=
  match f.execFn with
  | .makePush => 0
  | .makeDup => f.op - 0x80 + 1
  | .makeSwap => f.op - 0x90 + 2
  | .makeLog => f.op - 0xa0 + 2
  | .opAdd => 2 | .opSub => 2 | .opMul => 2 | .opDiv => 2 | .opSdiv => 2 | .opMod => 2 | .opSmod => 2 | .opExp => 2
  | .opSignExtend => 2 | .opLt => 2 | .opGt => 2 | .opSlt => 2 | .opSgt => 2 | .opEq => 2 | .opAnd => 2 | .opOr => 2 | .opXor => 2
  | .opByte => 2 | .opSHL => 2 | .opSHR => 2 | .opSAR => 2
  | .opNot => 1 | .opIszero => 1
  | .opAddmod => 3 | .opMulmod => 3
  | .opSha3 => 2
  | .opAddress => 0 | .opOrigin => 0 | .opCaller => 0 | .opCallValue => 0 | .opCallDataSize => 0 | .opCodeSize => 0 | .opGasprice => 0
  | .opCoinbase => 0 | .opTimestamp => 0 | .opNumber => 0 | .opDifficulty => 0 | .opGasLimit => 0 | .opPc => 0 | .opMsize => 0
  | .opGas => 0 | .opReturnDataSize => 0 | .opJumpdest => 0 | .opStop => 0
  | .opBalance => 1 | .opCallDataLoad => 1 | .opExtCodeSize => 1 | .opBlockhash => 1 | .opPop => 1 | .opMload => 1 | .opSload => 1
  | .opJump => 1 | .opSuicide => 1
  | .opCallDataCopy => 3 | .opCodeCopy => 3 | .opReturnDataCopy => 3 | .opExtCodeCopy => 4
  | .opMstore => 2 | .opMstore8 => 2 | .opSstore => 2 | .opJumpi => 2 | .opReturn => 2 | .opRevert => 2
  | .opCreate => 3 | .opCall => 7 | .opCallCode => 7 | .opDelegateCall => 6 | .opStaticCall => 6

/-- per-opcode well-formedness of a table entry -/
def opOK (f : OpF) : Bool :=
  -- the execute function of a CALL-family opcode is paired with its gas function (run dispatches on the former, the
  -- forwarded gas comes from the latter); opCreate with gasCreate; opCall is opcode 0xf1 (enforceRestrictions tests the number)
  (match execKind f.execFn with
   | some .call => f.gasFn == .gasCall && f.op == 0xf1
   | some .callcode => f.gasFn == .gasCallCode
   | some .delegate => f.gasFn == .gasDelegateCall
   | some .static => f.gasFn == .gasStaticCall
   | none => !isCallGas f.gasFn) &&
  (f.execFn != .opCreate || f.gasFn == .gasCreate) &&
  -- an opcode that may resize memory has a gas function that charges for it
  (gasChargesMem f.gasFn || f.memFn == .none) &&
  -- an opcode after which the loop continues costs at least 1 gas under every gas table
  (f.halts || f.reverts || gasTables.all (fun gt => decide (1 ≤ gasFloor gt f))) &&
  -- CALL-family and CREATE do not end the frame
  (((execKind f.execFn).isNone && f.execFn != .opCreate) || (!f.halts && !f.reverts)) &&
  -- stack reads of the memory-size and gas functions, of enforceRestrictions (Back(2) for CALL) and of the value operand
  -- stay below the height validateStack guarantees
  (memFnReads f.memFn ≤ f.pops && gasFnReads f.gasFn ≤ f.pops) &&
  -- hand classification "modifies state directly" ⊆ writes flag
  (!(execWrites f.execFn || f.execFn == .opCreate || gasTouchesState f.gasFn) || f.writes) &&
  -- the execute body pops / peeks no deeper than validateStack guarantees
  decide (execReads f ≤ f.pops)

theorem table_ok : ∀ ep : Epoch, (table ep).all opOK = true := by
  intro ep
  cases ep <;> decide

theorem lookup_mem {ep : Epoch} {op : Nat} {f : OpF} (h : lookup ep op = some f) : f ∈ table ep ∧ f.op = op := by
  unfold lookup at h
  have h1 := List.mem_of_find?_eq_some h
  have h2 := List.find?_some h
  exact ⟨h1, by simpa using h2⟩

theorem lookup_ok {ep : Epoch} {op : Nat} {f : OpF} (h : lookup ep op = some f) : opOK f = true :=
  List.all_eq_true.mp (table_ok ep) f (lookup_mem h).1

/-- facts about the gas tables and protocol constants the termination / accounting arguments need -/
theorem gasTables_ok : ∀ gt ∈ gasTables, gt.createBySuicide > 0 ∧ 1 ≤ gt.calls := by decide

theorem consts_ok : callStipend ≤ callValueTransferGas ∧ 1 ≤ createGas ∧ callCreateDepth = 1024 ∧ stackLimit = 1024 := by decide

end Aqv.Vm

/-
  Aqv.Lemmas.FeedInvB — delivery bookkeeping invariants of the Feed transition system:
  `pre`   : while Send g is in its loop, `cases` (= sendCases[:active]) is exactly the set of channels in sendCases
            that have NOT yet been given g's value (deactivate swap, removeSub index arithmetic);
  `pnodup`: no (channel, send) pair is placed twice;  `nsent_eq/done_eq`: nsent counts g's placements;
  `done_all`: when Send g has returned, every channel subscribed before the call and whose Unsubscribe had not been
            called at return has been given the value.
-/
import Aqv.Lemmas.FeedInvA
namespace Aqv.Feed
set_option linter.unusedSimpArgs false
set_option linter.unusedVariables false

theorem upd2_apply {α : Type} (f : Nat → Nat → α) (a : Nat) (v : Nat → α) (x c : Nat) :
    upd f a v x c = if x = a then v c else f x c := by simp [upd]; split <;> rfl

structure InvB (s : St) : Prop where
  pre : ∀ g, (s.spc g).merged = true → ∀ c ∈ s.sendCases, (c ∈ s.sendCases.take s.active ↔ (c, g) ∉ s.placed)
  unmerged : ∀ g c, (s.spc g = .idle ∨ s.spc g = .start ∨ s.spc g = .locked) → (c, g) ∉ s.placed
  pnodup : s.placed.Nodup
  nsent_eq : ∀ g, (s.spc g).held = true → s.nsent g = placedBy s g
  done_eq : ∀ g n, s.spc g = .done n → n = placedBy s g
  inbox_new : ∀ g, (s.spc g).merged = true → ∀ c ∈ s.inbox, s.atCall g c = false
  atCall_sub : ∀ g c, s.atCall g c = true → s.subscribed c = true
  done_all : ∀ g n c, s.spc g = .done n → s.atCall g c = true → s.atRet g c = false → (c, g) ∈ s.placed

theorem invB_init : InvB init := by
  constructor <;> simp [init, SPc.held, RPc.held, SPc.merged, placedBy]

macro "invb_auto" : tactic =>
  `(tactic| (constructor <;> simp only [upd2_apply, placedBy, List.countP_append, List.countP_cons, List.countP_nil] <;> (try assumption) <;> (try grind [SPc.held, RPc.held, SPc.merged])))

theorem invB_subscribe (s s' : St) (c k : Nat) (ha : InvA s) (h : InvB s) (hs : step s (.subscribe c k) = some s') : InvB s' := by
  obtain ⟨a1,a2,a3,a4,a5,a6,a7,a8,a9,a10,a11,a12,a13,a14⟩ := ha
  obtain ⟨h1,h2,h3,h4,h5,h6,h7,h8⟩ := h
  have mh := merged_held
  simp only [placedBy] at h4 h5
  step_split hs
  all_goals invb_auto

theorem invB_sendCall (s s' : St) (g : Nat) (ha : InvA s) (h : InvB s) (hs : step s (.sendCall g) = some s') : InvB s' := by
  obtain ⟨a1,a2,a3,a4,a5,a6,a7,a8,a9,a10,a11,a12,a13,a14⟩ := ha
  obtain ⟨h1,h2,h3,h4,h5,h6,h7,h8⟩ := h
  have mh := merged_held
  simp only [placedBy] at h4 h5
  step_split hs
  all_goals invb_auto

theorem invB_acquire (s s' : St) (g : Nat) (ha : InvA s) (h : InvB s) (hs : step s (.acquire g) = some s') : InvB s' := by
  obtain ⟨a1,a2,a3,a4,a5,a6,a7,a8,a9,a10,a11,a12,a13,a14⟩ := ha
  obtain ⟨h1,h2,h3,h4,h5,h6,h7,h8⟩ := h
  have mh := merged_held
  simp only [placedBy] at h4 h5
  step_split hs
  all_goals invb_auto

theorem invB_merge (s s' : St) (g : Nat) (ha : InvA s) (h : InvB s) (hs : step s (.merge g) = some s') : InvB s' := by
  obtain ⟨a1,a2,a3,a4,a5,a6,a7,a8,a9,a10,a11,a12,a13,a14⟩ := ha
  obtain ⟨h1,h2,h3,h4,h5,h6,h7,h8⟩ := h
  have mh := merged_held
  simp only [placedBy] at h4 h5
  step_split hs
  all_goals invb_auto

theorem invB_tryOk (s s' : St) (g : Nat) (ha : InvA s) (h : InvB s) (hs : step s (.tryOk g) = some s') : InvB s' := by
  obtain ⟨a1,a2,a3,a4,a5,a6,a7,a8,a9,a10,a11,a12,a13,a14⟩ := ha
  obtain ⟨h1,h2,h3,h4,h5,h6,h7,h8⟩ := h
  have mh := merged_held
  simp only [placedBy] at h4 h5
  step_split hs
  rename_i i heq hg
  have hle := a14 g (by simp [heq, SPc.merged])
  have hi : i < s.active := hg.1
  have hnd0 := a4
  simp only [List.nodup_append] at a4
  have hmt := mem_take_swapAt s.sendCases i s.active a4.2.1 hi hle
  have hm := mem_swapAt s.sendCases i (s.active - 1) (by omega) (by omega)
  have hgd := getD_eq_getElem s.sendCases i (by omega)
  have hc0 := getElem_mem_take s.sendCases i s.active hi hle
  have hc1 := List.mem_of_mem_take hc0
  rw [hgd]
  have hns := nodup_snoc s.placed
  all_goals invb_auto

theorem invB_tryFail (s s' : St) (g : Nat) (ha : InvA s) (h : InvB s) (hs : step s (.tryFail g) = some s') : InvB s' := by
  obtain ⟨a1,a2,a3,a4,a5,a6,a7,a8,a9,a10,a11,a12,a13,a14⟩ := ha
  obtain ⟨h1,h2,h3,h4,h5,h6,h7,h8⟩ := h
  have mh := merged_held
  simp only [placedBy] at h4 h5
  step_split hs
  all_goals invb_auto

theorem invB_sweepEnd (s s' : St) (g : Nat) (ha : InvA s) (h : InvB s) (hs : step s (.sweepEnd g) = some s') : InvB s' := by
  obtain ⟨a1,a2,a3,a4,a5,a6,a7,a8,a9,a10,a11,a12,a13,a14⟩ := ha
  obtain ⟨h1,h2,h3,h4,h5,h6,h7,h8⟩ := h
  have mh := merged_held
  simp only [placedBy] at h4 h5
  step_split hs
  all_goals invb_auto

theorem invB_selPlace (s s' : St) (g i : Nat) (ha : InvA s) (h : InvB s) (hs : step s (.selPlace g i) = some s') : InvB s' := by
  obtain ⟨a1,a2,a3,a4,a5,a6,a7,a8,a9,a10,a11,a12,a13,a14⟩ := ha
  obtain ⟨h1,h2,h3,h4,h5,h6,h7,h8⟩ := h
  have mh := merged_held
  simp only [placedBy] at h4 h5
  step_split hs
  rename_i hg
  have hg := hg.2
  have hle := a14 g (by simp [*, SPc.merged])
  have hi : i < s.active := hg.1
  have hnd0 := a4
  simp only [List.nodup_append] at a4
  have hmt := mem_take_swapAt s.sendCases i s.active a4.2.1 hi hle
  have hm := mem_swapAt s.sendCases i (s.active - 1) (by omega) (by omega)
  have hgd := getD_eq_getElem s.sendCases i (by omega)
  have hc0 := getElem_mem_take s.sendCases i s.active hi hle
  have hc1 := List.mem_of_mem_take hc0
  rw [hgd]
  have hns := nodup_snoc s.placed
  all_goals invb_auto

theorem invB_selRecv (s s' : St) (g c : Nat) (ha : InvA s) (h : InvB s) (hs : step s (.selRecv g c) = some s') : InvB s' := by
  obtain ⟨a1,a2,a3,a4,a5,a6,a7,a8,a9,a10,a11,a12,a13,a14⟩ := ha
  obtain ⟨h1,h2,h3,h4,h5,h6,h7,h8⟩ := h
  have mh := merged_held
  simp only [placedBy] at h4 h5
  step_split hs
  all_goals invb_auto

theorem invB_doRemove (s s' : St) (g : Nat) (ha : InvA s) (h : InvB s) (hs : step s (.doRemove g) = some s') : InvB s' := by
  obtain ⟨a1,a2,a3,a4,a5,a6,a7,a8,a9,a10,a11,a12,a13,a14⟩ := ha
  obtain ⟨h1,h2,h3,h4,h5,h6,h7,h8⟩ := h
  have mh := merged_held
  simp only [placedBy] at h4 h5
  simp only [step] at hs
  split at hs
  · rename_i c heq
    have hc := a11 g c heq
    have hlt := List.idxOf_lt_length_iff.mpr hc.1
    simp only [hlt, if_true] at hs
    cases hs
    simp only [List.nodup_append] at a4
    have hme := mem_eraseIdx_idxOf s.sendCases c a4.2.1
    have hle := a14 g (by simp [heq, SPc.merged])
    have ht1 := mem_take_eraseIdx_idxOf_lt s.sendCases s.active c a4.2.1 hc.1
    have ht2 := take_eraseIdx_ge s.sendCases s.active (List.idxOf c s.sendCases)
    have ht3 := idxOf_lt_of_mem_take s.sendCases s.active c
    split <;> invb_auto
  · cases hs

theorem invB_unsubCall (s s' : St) (c : Nat) (ha : InvA s) (h : InvB s) (hs : step s (.unsubCall c) = some s') : InvB s' := by
  obtain ⟨a1,a2,a3,a4,a5,a6,a7,a8,a9,a10,a11,a12,a13,a14⟩ := ha
  obtain ⟨h1,h2,h3,h4,h5,h6,h7,h8⟩ := h
  have mh := merged_held
  simp only [placedBy] at h4 h5
  step_split hs
  all_goals invb_auto

theorem invB_rmInbox (s s' : St) (c : Nat) (ha : InvA s) (h : InvB s) (hs : step s (.rmInbox c) = some s') : InvB s' := by
  obtain ⟨a1,a2,a3,a4,a5,a6,a7,a8,a9,a10,a11,a12,a13,a14⟩ := ha
  obtain ⟨h1,h2,h3,h4,h5,h6,h7,h8⟩ := h
  have mh := merged_held
  simp only [placedBy] at h4 h5
  step_split hs
  all_goals simp only [List.nodup_append] at a4
  all_goals have hme := mem_eraseIdx_idxOf s.inbox c a4.1
  all_goals invb_auto

theorem invB_rmToken (s s' : St) (c : Nat) (ha : InvA s) (h : InvB s) (hs : step s (.rmToken c) = some s') : InvB s' := by
  obtain ⟨a1,a2,a3,a4,a5,a6,a7,a8,a9,a10,a11,a12,a13,a14⟩ := ha
  obtain ⟨h1,h2,h3,h4,h5,h6,h7,h8⟩ := h
  have mh := merged_held
  simp only [placedBy] at h4 h5
  step_split hs
  all_goals invb_auto

theorem invB_rmDelete (s s' : St) (c : Nat) (ha : InvA s) (h : InvB s) (hs : step s (.rmDelete c) = some s') : InvB s' := by
  obtain ⟨a1,a2,a3,a4,a5,a6,a7,a8,a9,a10,a11,a12,a13,a14⟩ := ha
  obtain ⟨h1,h2,h3,h4,h5,h6,h7,h8⟩ := h
  have mh := merged_held
  simp only [placedBy] at h4 h5
  step_split hs
  all_goals invb_auto

theorem invB_rmRelease (s s' : St) (c : Nat) (ha : InvA s) (h : InvB s) (hs : step s (.rmRelease c) = some s') : InvB s' := by
  obtain ⟨a1,a2,a3,a4,a5,a6,a7,a8,a9,a10,a11,a12,a13,a14⟩ := ha
  obtain ⟨h1,h2,h3,h4,h5,h6,h7,h8⟩ := h
  have mh := merged_held
  simp only [placedBy] at h4 h5
  step_split hs
  all_goals invb_auto

theorem invB_recvBegin (s s' : St) (c : Nat) (ha : InvA s) (h : InvB s) (hs : step s (.recvBegin c) = some s') : InvB s' := by
  obtain ⟨a1,a2,a3,a4,a5,a6,a7,a8,a9,a10,a11,a12,a13,a14⟩ := ha
  obtain ⟨h1,h2,h3,h4,h5,h6,h7,h8⟩ := h
  have mh := merged_held
  simp only [placedBy] at h4 h5
  step_split hs
  all_goals invb_auto

theorem invB_recvTake (s s' : St) (c : Nat) (ha : InvA s) (h : InvB s) (hs : step s (.recvTake c) = some s') : InvB s' := by
  obtain ⟨a1,a2,a3,a4,a5,a6,a7,a8,a9,a10,a11,a12,a13,a14⟩ := ha
  obtain ⟨h1,h2,h3,h4,h5,h6,h7,h8⟩ := h
  have mh := merged_held
  simp only [placedBy] at h4 h5
  step_split hs
  all_goals invb_auto

theorem invB_step (s s' : St) (a : Act) (ha : InvA s) (h : InvB s) (hs : step s a = some s') : InvB s' := by
  cases a with
  | subscribe c k => exact invB_subscribe s s' c k ha h hs
  | sendCall g => exact invB_sendCall s s' g ha h hs
  | acquire g => exact invB_acquire s s' g ha h hs
  | merge g => exact invB_merge s s' g ha h hs
  | tryOk g => exact invB_tryOk s s' g ha h hs
  | tryFail g => exact invB_tryFail s s' g ha h hs
  | sweepEnd g => exact invB_sweepEnd s s' g ha h hs
  | selPlace g i => exact invB_selPlace s s' g i ha h hs
  | selRecv g c => exact invB_selRecv s s' g c ha h hs
  | doRemove g => exact invB_doRemove s s' g ha h hs
  | unsubCall c => exact invB_unsubCall s s' c ha h hs
  | rmInbox c => exact invB_rmInbox s s' c ha h hs
  | rmToken c => exact invB_rmToken s s' c ha h hs
  | rmDelete c => exact invB_rmDelete s s' c ha h hs
  | rmRelease c => exact invB_rmRelease s s' c ha h hs
  | recvBegin c => exact invB_recvBegin s s' c ha h hs
  | recvTake c => exact invB_recvTake s s' c ha h hs

theorem invB_reach {s : St} (h : Reach s) : InvB s := by
  induction h with
  | init => exact invB_init
  | step a hr hs ih => exact invB_step _ _ a (invA_reach hr) ih hs

end Aqv.Feed

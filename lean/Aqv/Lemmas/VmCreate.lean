/-
  Aqv.Lemmas.VmCreate — evm.go Create in Aqv.Model.Vm: code deposit, error handling, nonce placement (C07).
-/
import Aqv.Lemmas.VmRun
set_option linter.unusedSimpArgs false
namespace Aqv.Vm
open Aqv.Gen.VmFlags
variable {W V : Type}

theorem createStore_spec (env : Env) (i : StepIn W) (r : Res W) :
    (createStore env i r).trace = r.trace ∧ (createStore env i r).gas ≤ r.gas ∧ Ext r.db (createStore env i r).db ∧
    ((createStore env i r).out = r.out ∨ (createStore env i r).out = .fail .codeStoreOutOfGas) := by
  unfold createStore
  split
  · split
    · exact ⟨rfl, Nat.le_refl _, Ext.refl _, .inr rfl⟩
    · exact ⟨rfl, Nat.sub_le _ _, Ext.app _ _, .inl rfl⟩
  · exact ⟨rfl, Nat.le_refl _, Ext.refl _, .inl rfl⟩

theorem createFinish_spec (env : Env) (mx : Bool) {db0 : Db W} {r1 : Res W} (he : Ext db0.snapshot.2 r1.db)
    (hp : r1.out ≠ .panic) (hf : r1.out ≠ .outOfFuel) :
    (createFinish env db0.next mx r1).trace = r1.trace ∧ (createFinish env db0.next mx r1).gas ≤ r1.gas ∧
    Ext db0 (createFinish env db0.next mx r1).db ∧ (createFinish env db0.next mx r1).out ≠ .panic ∧
    (createFinish env db0.next mx r1).out ≠ .outOfFuel ∧
    (env.homestead = true → (createFinish env db0.next mx r1).out.isErr = true → (createFinish env db0.next mx r1).db.cur = db0.cur) := by
  have hrev := revert_of_ext he
  have hext := ext_after_revert he
  have hext0 : Ext db0 r1.db := (Ext.snapshot db0).trans he
  unfold createFinish
  simp only [hrev]
  cases ho : r1.out with
  | panic => exact absurd ho hp
  | outOfFuel => exact absurd ho hf
  | ok =>
    cases mx <;> simp [ho, Outcome.isErr, hext0, hext]
  | revert =>
    cases mx <;> simp [ho, Outcome.isErr, hext0, hext]
  | fail e =>
    cases mx <;> cases hh : env.homestead <;> simp [ho, Outcome.isErr, hext0, hext]
    all_goals (split <;> simp [ho, hext0, hext])

theorem createWrap_good {env : Env} {view : W → V} {fuel : Nat} {runChild : Frame → Db W → Nat → Res W}
    (hc : Child env view fuel runChild) {i : StepIn W} {depth : Nat} {ro : Bool} {gas : Nat}
    {db : Db W} {t : Nat} (hw : db.WF) (hg : gas < two64)
    (r : Res W) (hr : r = createWrap env runChild i depth ro gas db t) :
    Good env view fuel gas false db r ∧
    (env.homestead = true → r.out.isErr = true →
      r.db.cur = (if depth > callCreateDepth ∨ i.canTransfer = false then db.cur else i.nonceEff db.cur)) := by
  unfold createWrap at hr
  split at hr
  · next hdep =>
    subst hr; exact ⟨⟨Ext.refl _, Nat.le_refl _, by simp, by simp, by simp, fun _ h => by simp at h⟩, fun _ _ => by simp [hdep]⟩
  · next hdep =>
    split at hr
    · next hct =>
      subst hr
      exact ⟨⟨Ext.refl _, Nat.le_refl _, by simp, by simp, by simp, fun _ h => by simp at h⟩, fun _ _ => by
        simp only [Bool.not_eq_true'] at hct; simp [hct]⟩
    · next hct =>
      have hcond : ¬ (depth > callCreateDepth ∨ i.canTransfer = false) := by
        simp only [Bool.not_eq_true', Bool.not_eq_false] at hct
        intro h; rcases h with h | h
        · exact hdep h
        · rw [hct] at h; cases h
      split at hr
      · subst hr
        exact ⟨⟨Ext.app _ _, Nat.zero_le _, by simp, by simp, by simp, fun _ h => by simp at h⟩, fun _ _ => by simp [hcond]⟩
      · dsimp only [Db.snapshot] at hr
        generalize hdb0 : db.app i.nonceEff = db0 at hr
        have hw0 : db0.WF := by rw [← hdb0]; exact hw
        have he0 : Ext db db0 := by rw [← hdb0]; exact Ext.app _ _
        have hcur0 : db0.cur = i.nonceEff db.cur := by rw [← hdb0]; rfl
        generalize hdb2 : (Db.app (W := W) ⟨db0.cur, (db0.next, db0.cur) :: db0.revs, db0.next + 1⟩ i.xferEff) = db2 at hr
        have he2 : Ext db0.snapshot.2 db2 := by rw [← hdb2]; exact Ext.app _ _
        have hw2 : db2.WF := ((Ext.snapshot db0).trans he2).wf hw0
        generalize hr0 : (if i.codeEmpty = true then (⟨.ok, gas, db2, t, 0, []⟩ : Res W)
            else runChild (newFrame gas (depth + 1) ro) db2 t) = r0 at hr
        have hg0 : Good env view fuel gas ro db2 r0 := by
          rw [← hr0]; split
          · exact ⟨Ext.refl _, Nat.le_refl _, by simp, by simp, by simp, fun _ _ => rfl⟩
          · exact hc (newFrame gas (depth + 1) ro) db2 t (FrameInv.new hg (by omega)) hw2
        split at hr
        · next hab =>
          subst hr
          refine ⟨⟨he0.trans ((Ext.snapshot db0).trans (he2.trans hg0.ext)), hg0.gas_le, hg0.no_panic, hg0.fuel_ok, hg0.events,
            fun _ h => by simp at h⟩, fun _ he => ?_⟩
          cases ho : r.out <;> simp [ho, Outcome.abnormal, Outcome.isErr] at hab he
        · next hab =>
          have hnp : r0.out ≠ .panic := hg0.no_panic
          have hnf : r0.out ≠ .outOfFuel := by intro h; simp [h, Outcome.abnormal] at hab
          obtain ⟨st1, st2, st3, st4⟩ := createStore_spec env i r0
          have hp1 : (createStore env i r0).out ≠ .panic := by rcases st4 with h | h <;> rw [h] <;> simp [hnp]
          have hf1 : (createStore env i r0).out ≠ .outOfFuel := by rcases st4 with h | h <;> rw [h] <;> simp [hnf]
          obtain ⟨f1, f2, f3, f4, f5, f6⟩ := createFinish_spec env (env.eip158 && decide (r0.retLen > maxCodeSize))
            ((he2.trans hg0.ext).trans st3) hp1 hf1
          rw [← hr] at f1 f2 f3 f4 f5 f6
          refine ⟨⟨he0.trans f3, Nat.le_trans f2 (Nat.le_trans st2 hg0.gas_le), f4, fun _ => f5, by rw [f1, st1]; exact hg0.events,
            fun _ h => by simp at h⟩, fun hh he => ?_⟩
          rw [f6 hh he, hcur0]; simp [hcond]

end Aqv.Vm

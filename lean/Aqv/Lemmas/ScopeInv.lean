/-
  Aqv.Lemmas.ScopeInv — invariants of the SubscriptionScope model (Aqv.Model.Scope), preserved by every step:
  `sc.mu` is held exactly by the running Close; a tracked subscription is either already unsubscribed or still a key of
  `sc.subs`; while Close runs, every key is unsubscribed or still to be visited; once a Close has returned the scope is
  closed, nobody holds `sc.mu` and `sc.subs` is empty; plus the history facts behind the property theorems.
-/
import Aqv.Model.Scope
import Aqv.Lemmas.FeedList
namespace Aqv.Scope
open Aqv.Feed (sub2_snoc sub2_mem)
set_option linter.unusedSimpArgs false
set_option linter.unusedVariables false

@[simp, grind =] theorem upd_apply {α : Type} (f : Nat → α) (a : Nat) (v : α) (x : Nat) :
    upd f a v x = if x = a then v else f x := rfl

def CPc.isRunning : CPc → Bool
  | .running _ => true
  | _ => false

structure Inv (s : St) : Prop where
  mu : s.muFree = true ↔ s.closer = none
  run : ∀ k, (s.cpc k).isRunning = true ↔ s.closer = some k
  open_ : s.closed = false → s.closer = none ∧ ∀ k, s.cpc k ≠ .done
  done_ : ∀ k, s.cpc k = .done → s.closed = true ∧ s.closer = none
  keep : ∀ i, s.tracked i = true → s.unsubbed i = true ∨ i ∈ s.subs
  todo : ∀ k td, s.cpc k = .running td → ∀ i ∈ s.subs, s.unsubbed i = true ∨ i ∈ td
  empty : s.closed = true → s.closer = none → s.subs = []
  wrap : ∀ i, (s.wpc i = .wait ∨ s.wpc i = .done) → s.unsubbed i = true
  t_track : ∀ i, Ev.trackOk i ∈ s.tr ↔ s.tracked i = true
  t_unsub : ∀ i, Ev.unsub i ∈ s.tr ↔ s.unsubbed i = true
  t_ret : ∀ k, Ev.closeRet k ∈ s.tr ↔ s.cpc k = .done
  all_before : ∀ i k, Ev.closeRet k ∈ s.tr → Ev.trackOk i ∈ s.tr → Before s.tr (.unsub i) (.closeRet k)
  no_track_after : ∀ i k, ¬ Before s.tr (.closeRet k) (.trackOk i)
  count_zero : ∀ k n, Before s.tr (.closeRet k) (.count n) → n = 0

theorem inv_init : Inv init := by
  constructor <;> simp [init, CPc.isRunning, Before]

macro "sstep_split" hs:ident : tactic =>
  `(tactic| (simp only [step, Bool.false_eq_true, if_false] at $hs:ident; (repeat' split at $hs:ident) <;> (try cases $hs:ident)))

macro "sinv_auto" : tactic =>
  `(tactic| (constructor <;> simp only [Before, sub2_snoc, List.mem_append, List.mem_singleton] <;> (try assumption) <;> (try grind [CPc.isRunning])))

theorem inv_track (s s' : St) (i : Nat) (h : Inv s) (hs : step false s (.track i) = some s') : Inv s' := by
  obtain ⟨h1,h2,h3,h4,h5,h6,h7,h8,h9,h10,h11,h12,h13,h14⟩ := h
  have sm := @sub2_mem Ev s.tr
  have me := @List.mem_erase_of_ne Nat _ _
  simp only [Before] at h12 h13 h14
  sstep_split hs
  all_goals sinv_auto

theorem inv_closeCall (s s' : St) (k : Nat) (h : Inv s) (hs : step false s (.closeCall k) = some s') : Inv s' := by
  obtain ⟨h1,h2,h3,h4,h5,h6,h7,h8,h9,h10,h11,h12,h13,h14⟩ := h
  have sm := @sub2_mem Ev s.tr
  have me := @List.mem_erase_of_ne Nat _ _
  simp only [Before] at h12 h13 h14
  sstep_split hs
  all_goals sinv_auto

theorem inv_closeEnter (s s' : St) (k : Nat) (h : Inv s) (hs : step false s (.closeEnter k) = some s') : Inv s' := by
  obtain ⟨h1,h2,h3,h4,h5,h6,h7,h8,h9,h10,h11,h12,h13,h14⟩ := h
  have sm := @sub2_mem Ev s.tr
  have me := @List.mem_erase_of_ne Nat _ _
  simp only [Before] at h12 h13 h14
  sstep_split hs
  all_goals sinv_auto

theorem inv_closeStep (s s' : St) (k i : Nat) (h : Inv s) (hs : step false s (.closeStep k i) = some s') : Inv s' := by
  obtain ⟨h1,h2,h3,h4,h5,h6,h7,h8,h9,h10,h11,h12,h13,h14⟩ := h
  have sm := @sub2_mem Ev s.tr
  have me := @List.mem_erase_of_ne Nat _ _
  simp only [Before] at h12 h13 h14
  sstep_split hs
  all_goals sinv_auto

theorem inv_closeExit (s s' : St) (k : Nat) (h : Inv s) (hs : step false s (.closeExit k) = some s') : Inv s' := by
  obtain ⟨h1,h2,h3,h4,h5,h6,h7,h8,h9,h10,h11,h12,h13,h14⟩ := h
  have sm := @sub2_mem Ev s.tr
  have me := @List.mem_erase_of_ne Nat _ _
  simp only [Before] at h12 h13 h14
  sstep_split hs
  all_goals sinv_auto

theorem inv_wrapCall (s s' : St) (i : Nat) (h : Inv s) (hs : step false s (.wrapCall i) = some s') : Inv s' := by
  obtain ⟨h1,h2,h3,h4,h5,h6,h7,h8,h9,h10,h11,h12,h13,h14⟩ := h
  have sm := @sub2_mem Ev s.tr
  have me := @List.mem_erase_of_ne Nat _ _
  simp only [Before] at h12 h13 h14
  sstep_split hs
  all_goals sinv_auto

theorem inv_wrapInner (s s' : St) (i : Nat) (h : Inv s) (hs : step false s (.wrapInner i) = some s') : Inv s' := by
  obtain ⟨h1,h2,h3,h4,h5,h6,h7,h8,h9,h10,h11,h12,h13,h14⟩ := h
  have sm := @sub2_mem Ev s.tr
  have me := @List.mem_erase_of_ne Nat _ _
  simp only [Before] at h12 h13 h14
  sstep_split hs
  all_goals sinv_auto

theorem inv_wrapDelete (s s' : St) (i : Nat) (h : Inv s) (hs : step false s (.wrapDelete i) = some s') : Inv s' := by
  obtain ⟨h1,h2,h3,h4,h5,h6,h7,h8,h9,h10,h11,h12,h13,h14⟩ := h
  have sm := @sub2_mem Ev s.tr
  have me := @List.mem_erase_of_ne Nat _ _
  simp only [Before] at h12 h13 h14
  sstep_split hs
  all_goals sinv_auto

theorem inv_count (s s' : St) (h : Inv s) (hs : step false s (.count) = some s') : Inv s' := by
  obtain ⟨h1,h2,h3,h4,h5,h6,h7,h8,h9,h10,h11,h12,h13,h14⟩ := h
  have sm := @sub2_mem Ev s.tr
  have me := @List.mem_erase_of_ne Nat _ _
  simp only [Before] at h12 h13 h14
  sstep_split hs
  all_goals sinv_auto

theorem inv_step (s s' : St) (a : Act) (h : Inv s) (hs : step false s a = some s') : Inv s' := by
  cases a with
  | track i => exact inv_track s s' i h hs
  | closeCall k => exact inv_closeCall s s' k h hs
  | closeEnter k => exact inv_closeEnter s s' k h hs
  | closeStep k i => exact inv_closeStep s s' k i h hs
  | closeExit k => exact inv_closeExit s s' k h hs
  | wrapCall i => exact inv_wrapCall s s' i h hs
  | wrapInner i => exact inv_wrapInner s s' i h hs
  | wrapDelete i => exact inv_wrapDelete s s' i h hs
  | count => exact inv_count s s' h hs

theorem inv_reach {s : St} (h : Reach s) : Inv s := by
  induction h with
  | init => exact inv_init
  | step a _ hs ih => exact inv_step _ _ a ih hs

end Aqv.Scope

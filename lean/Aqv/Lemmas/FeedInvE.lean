/-
  Aqv.Lemmas.FeedInvE — the ghost state of the model is a function of the chronological history `tr`:
  who is subscribed / has called or returned from Unsubscribe / Send, the placement and receive logs, and the two
  snapshots `atCall` ("Subscribe(c) returned before Send g was called") and `atRet` ("Unsubscribe(c) was called before
  Send g returned").  This lets the property theorems be stated on the history alone.  `t_late` is the trace form of
  "nothing is placed into a channel after its Unsubscribe returned".
-/
import Aqv.Lemmas.FeedInvB
namespace Aqv.Feed
set_option linter.unusedSimpArgs false
set_option linter.unusedVariables false

structure InvE (s : St) : Prop where
  t_sub : ∀ c, Ev.subRet c ∈ s.tr ↔ s.subscribed c = true
  t_ucall : ∀ c, Ev.unsubCall c ∈ s.tr ↔ s.rpc c ≠ .idle
  t_uret : ∀ c, Ev.unsubRet c ∈ s.tr ↔ s.rpc c = .done
  t_scall : ∀ g, Ev.sendCall g ∈ s.tr ↔ s.spc g ≠ .idle
  t_sret : ∀ g n, Ev.sendRet g n ∈ s.tr ↔ s.spc g = .done n
  t_place : placesOf s.tr = s.placed
  t_recv : ∀ c, recvsOf c s.tr = s.rcvd c
  t_atCall : ∀ g c, s.atCall g c = true ↔ Before s.tr (.subRet c) (.sendCall g)
  t_atRet : ∀ g n c, s.spc g = .done n → (s.atRet g c = true ↔ Before s.tr (.unsubCall c) (.sendRet g n))
  t_late : ∀ c g, ¬ Before s.tr (.unsubRet c) (.place c g)

theorem invE_init : InvE init := by
  constructor <;> simp [init, placesOf, recvsOf, Before]

macro "inve_auto" : tactic =>
  `(tactic| (constructor <;> simp only [upd2_apply, bne_iff_ne, Before, placesOf, recvsOf, sub2_snoc, List.filterMap_append, List.filterMap_cons, List.filterMap_nil, List.mem_append, List.mem_singleton] <;> (try assumption) <;> (try grind [SPc.held, RPc.held, SPc.merged])))

theorem invE_subscribe (s s' : St) (c k : Nat) (ha : InvA s) (hb : InvB s) (h : InvE s) (hs : step s (.subscribe c k) = some s') : InvE s' := by
  obtain ⟨a1,a2,a3,a4,a5,a6,a7,a8,a9,a10,a11,a12,a13,a14⟩ := ha
  obtain ⟨b1,b2,b3,b4,b5,b6,b7,b8⟩ := hb
  obtain ⟨h1,h2,h3,h4,h5,h6,h7,h8,h9,h10⟩ := h
  have mh := merged_held
  have sm := @sub2_mem Ev s.tr
  simp only [Before, placesOf, recvsOf] at h6 h7 h8 h9 h10
  step_split hs
  all_goals inve_auto

theorem invE_sendCall (s s' : St) (g : Nat) (ha : InvA s) (hb : InvB s) (h : InvE s) (hs : step s (.sendCall g) = some s') : InvE s' := by
  obtain ⟨a1,a2,a3,a4,a5,a6,a7,a8,a9,a10,a11,a12,a13,a14⟩ := ha
  obtain ⟨b1,b2,b3,b4,b5,b6,b7,b8⟩ := hb
  obtain ⟨h1,h2,h3,h4,h5,h6,h7,h8,h9,h10⟩ := h
  have mh := merged_held
  have sm := @sub2_mem Ev s.tr
  simp only [Before, placesOf, recvsOf] at h6 h7 h8 h9 h10
  step_split hs
  all_goals inve_auto

theorem invE_acquire (s s' : St) (g : Nat) (ha : InvA s) (hb : InvB s) (h : InvE s) (hs : step s (.acquire g) = some s') : InvE s' := by
  obtain ⟨a1,a2,a3,a4,a5,a6,a7,a8,a9,a10,a11,a12,a13,a14⟩ := ha
  obtain ⟨b1,b2,b3,b4,b5,b6,b7,b8⟩ := hb
  obtain ⟨h1,h2,h3,h4,h5,h6,h7,h8,h9,h10⟩ := h
  have mh := merged_held
  have sm := @sub2_mem Ev s.tr
  simp only [Before, placesOf, recvsOf] at h6 h7 h8 h9 h10
  step_split hs
  all_goals inve_auto

theorem invE_merge (s s' : St) (g : Nat) (ha : InvA s) (hb : InvB s) (h : InvE s) (hs : step s (.merge g) = some s') : InvE s' := by
  obtain ⟨a1,a2,a3,a4,a5,a6,a7,a8,a9,a10,a11,a12,a13,a14⟩ := ha
  obtain ⟨b1,b2,b3,b4,b5,b6,b7,b8⟩ := hb
  obtain ⟨h1,h2,h3,h4,h5,h6,h7,h8,h9,h10⟩ := h
  have mh := merged_held
  have sm := @sub2_mem Ev s.tr
  simp only [Before, placesOf, recvsOf] at h6 h7 h8 h9 h10
  step_split hs
  all_goals inve_auto

theorem invE_tryOk (s s' : St) (g : Nat) (ha : InvA s) (hb : InvB s) (h : InvE s) (hs : step s (.tryOk g) = some s') : InvE s' := by
  obtain ⟨a1,a2,a3,a4,a5,a6,a7,a8,a9,a10,a11,a12,a13,a14⟩ := ha
  obtain ⟨b1,b2,b3,b4,b5,b6,b7,b8⟩ := hb
  obtain ⟨h1,h2,h3,h4,h5,h6,h7,h8,h9,h10⟩ := h
  have mh := merged_held
  have sm := @sub2_mem Ev s.tr
  simp only [Before, placesOf, recvsOf] at h6 h7 h8 h9 h10
  step_split hs
  all_goals inve_auto

theorem invE_tryFail (s s' : St) (g : Nat) (ha : InvA s) (hb : InvB s) (h : InvE s) (hs : step s (.tryFail g) = some s') : InvE s' := by
  obtain ⟨a1,a2,a3,a4,a5,a6,a7,a8,a9,a10,a11,a12,a13,a14⟩ := ha
  obtain ⟨b1,b2,b3,b4,b5,b6,b7,b8⟩ := hb
  obtain ⟨h1,h2,h3,h4,h5,h6,h7,h8,h9,h10⟩ := h
  have mh := merged_held
  have sm := @sub2_mem Ev s.tr
  simp only [Before, placesOf, recvsOf] at h6 h7 h8 h9 h10
  step_split hs
  all_goals inve_auto

theorem invE_sweepEnd (s s' : St) (g : Nat) (ha : InvA s) (hb : InvB s) (h : InvE s) (hs : step s (.sweepEnd g) = some s') : InvE s' := by
  obtain ⟨a1,a2,a3,a4,a5,a6,a7,a8,a9,a10,a11,a12,a13,a14⟩ := ha
  obtain ⟨b1,b2,b3,b4,b5,b6,b7,b8⟩ := hb
  obtain ⟨h1,h2,h3,h4,h5,h6,h7,h8,h9,h10⟩ := h
  have mh := merged_held
  have sm := @sub2_mem Ev s.tr
  simp only [Before, placesOf, recvsOf] at h6 h7 h8 h9 h10
  step_split hs
  all_goals inve_auto

theorem invE_selPlace (s s' : St) (g i : Nat) (ha : InvA s) (hb : InvB s) (h : InvE s) (hs : step s (.selPlace g i) = some s') : InvE s' := by
  obtain ⟨a1,a2,a3,a4,a5,a6,a7,a8,a9,a10,a11,a12,a13,a14⟩ := ha
  obtain ⟨b1,b2,b3,b4,b5,b6,b7,b8⟩ := hb
  obtain ⟨h1,h2,h3,h4,h5,h6,h7,h8,h9,h10⟩ := h
  have mh := merged_held
  have sm := @sub2_mem Ev s.tr
  simp only [Before, placesOf, recvsOf] at h6 h7 h8 h9 h10
  step_split hs
  all_goals inve_auto

theorem invE_selRecv (s s' : St) (g c : Nat) (ha : InvA s) (hb : InvB s) (h : InvE s) (hs : step s (.selRecv g c) = some s') : InvE s' := by
  obtain ⟨a1,a2,a3,a4,a5,a6,a7,a8,a9,a10,a11,a12,a13,a14⟩ := ha
  obtain ⟨b1,b2,b3,b4,b5,b6,b7,b8⟩ := hb
  obtain ⟨h1,h2,h3,h4,h5,h6,h7,h8,h9,h10⟩ := h
  have mh := merged_held
  have sm := @sub2_mem Ev s.tr
  simp only [Before, placesOf, recvsOf] at h6 h7 h8 h9 h10
  step_split hs
  all_goals inve_auto

theorem invE_doRemove (s s' : St) (g : Nat) (ha : InvA s) (hb : InvB s) (h : InvE s) (hs : step s (.doRemove g) = some s') : InvE s' := by
  obtain ⟨a1,a2,a3,a4,a5,a6,a7,a8,a9,a10,a11,a12,a13,a14⟩ := ha
  obtain ⟨b1,b2,b3,b4,b5,b6,b7,b8⟩ := hb
  obtain ⟨h1,h2,h3,h4,h5,h6,h7,h8,h9,h10⟩ := h
  have mh := merged_held
  have sm := @sub2_mem Ev s.tr
  simp only [Before, placesOf, recvsOf] at h6 h7 h8 h9 h10
  step_split hs
  all_goals inve_auto

theorem invE_unsubCall (s s' : St) (c : Nat) (ha : InvA s) (hb : InvB s) (h : InvE s) (hs : step s (.unsubCall c) = some s') : InvE s' := by
  obtain ⟨a1,a2,a3,a4,a5,a6,a7,a8,a9,a10,a11,a12,a13,a14⟩ := ha
  obtain ⟨b1,b2,b3,b4,b5,b6,b7,b8⟩ := hb
  obtain ⟨h1,h2,h3,h4,h5,h6,h7,h8,h9,h10⟩ := h
  have mh := merged_held
  have sm := @sub2_mem Ev s.tr
  simp only [Before, placesOf, recvsOf] at h6 h7 h8 h9 h10
  step_split hs
  all_goals inve_auto

theorem invE_rmInbox (s s' : St) (c : Nat) (ha : InvA s) (hb : InvB s) (h : InvE s) (hs : step s (.rmInbox c) = some s') : InvE s' := by
  obtain ⟨a1,a2,a3,a4,a5,a6,a7,a8,a9,a10,a11,a12,a13,a14⟩ := ha
  obtain ⟨b1,b2,b3,b4,b5,b6,b7,b8⟩ := hb
  obtain ⟨h1,h2,h3,h4,h5,h6,h7,h8,h9,h10⟩ := h
  have mh := merged_held
  have sm := @sub2_mem Ev s.tr
  simp only [Before, placesOf, recvsOf] at h6 h7 h8 h9 h10
  step_split hs
  all_goals inve_auto

theorem invE_rmToken (s s' : St) (c : Nat) (ha : InvA s) (hb : InvB s) (h : InvE s) (hs : step s (.rmToken c) = some s') : InvE s' := by
  obtain ⟨a1,a2,a3,a4,a5,a6,a7,a8,a9,a10,a11,a12,a13,a14⟩ := ha
  obtain ⟨b1,b2,b3,b4,b5,b6,b7,b8⟩ := hb
  obtain ⟨h1,h2,h3,h4,h5,h6,h7,h8,h9,h10⟩ := h
  have mh := merged_held
  have sm := @sub2_mem Ev s.tr
  simp only [Before, placesOf, recvsOf] at h6 h7 h8 h9 h10
  step_split hs
  all_goals inve_auto

theorem invE_rmDelete (s s' : St) (c : Nat) (ha : InvA s) (hb : InvB s) (h : InvE s) (hs : step s (.rmDelete c) = some s') : InvE s' := by
  obtain ⟨a1,a2,a3,a4,a5,a6,a7,a8,a9,a10,a11,a12,a13,a14⟩ := ha
  obtain ⟨b1,b2,b3,b4,b5,b6,b7,b8⟩ := hb
  obtain ⟨h1,h2,h3,h4,h5,h6,h7,h8,h9,h10⟩ := h
  have mh := merged_held
  have sm := @sub2_mem Ev s.tr
  simp only [Before, placesOf, recvsOf] at h6 h7 h8 h9 h10
  step_split hs
  all_goals inve_auto

theorem invE_rmRelease (s s' : St) (c : Nat) (ha : InvA s) (hb : InvB s) (h : InvE s) (hs : step s (.rmRelease c) = some s') : InvE s' := by
  obtain ⟨a1,a2,a3,a4,a5,a6,a7,a8,a9,a10,a11,a12,a13,a14⟩ := ha
  obtain ⟨b1,b2,b3,b4,b5,b6,b7,b8⟩ := hb
  obtain ⟨h1,h2,h3,h4,h5,h6,h7,h8,h9,h10⟩ := h
  have mh := merged_held
  have sm := @sub2_mem Ev s.tr
  simp only [Before, placesOf, recvsOf] at h6 h7 h8 h9 h10
  step_split hs
  all_goals inve_auto

theorem invE_recvBegin (s s' : St) (c : Nat) (ha : InvA s) (hb : InvB s) (h : InvE s) (hs : step s (.recvBegin c) = some s') : InvE s' := by
  obtain ⟨a1,a2,a3,a4,a5,a6,a7,a8,a9,a10,a11,a12,a13,a14⟩ := ha
  obtain ⟨b1,b2,b3,b4,b5,b6,b7,b8⟩ := hb
  obtain ⟨h1,h2,h3,h4,h5,h6,h7,h8,h9,h10⟩ := h
  have mh := merged_held
  have sm := @sub2_mem Ev s.tr
  simp only [Before, placesOf, recvsOf] at h6 h7 h8 h9 h10
  step_split hs
  all_goals inve_auto

theorem invE_recvTake (s s' : St) (c : Nat) (ha : InvA s) (hb : InvB s) (h : InvE s) (hs : step s (.recvTake c) = some s') : InvE s' := by
  obtain ⟨a1,a2,a3,a4,a5,a6,a7,a8,a9,a10,a11,a12,a13,a14⟩ := ha
  obtain ⟨b1,b2,b3,b4,b5,b6,b7,b8⟩ := hb
  obtain ⟨h1,h2,h3,h4,h5,h6,h7,h8,h9,h10⟩ := h
  have mh := merged_held
  have sm := @sub2_mem Ev s.tr
  simp only [Before, placesOf, recvsOf] at h6 h7 h8 h9 h10
  step_split hs
  all_goals inve_auto

theorem invE_step (s s' : St) (a : Act) (ha : InvA s) (hb : InvB s) (h : InvE s) (hs : step s a = some s') : InvE s' := by
  cases a with
  | subscribe c k => exact invE_subscribe s s' c k ha hb h hs
  | sendCall g => exact invE_sendCall s s' g ha hb h hs
  | acquire g => exact invE_acquire s s' g ha hb h hs
  | merge g => exact invE_merge s s' g ha hb h hs
  | tryOk g => exact invE_tryOk s s' g ha hb h hs
  | tryFail g => exact invE_tryFail s s' g ha hb h hs
  | sweepEnd g => exact invE_sweepEnd s s' g ha hb h hs
  | selPlace g i => exact invE_selPlace s s' g i ha hb h hs
  | selRecv g c => exact invE_selRecv s s' g c ha hb h hs
  | doRemove g => exact invE_doRemove s s' g ha hb h hs
  | unsubCall c => exact invE_unsubCall s s' c ha hb h hs
  | rmInbox c => exact invE_rmInbox s s' c ha hb h hs
  | rmToken c => exact invE_rmToken s s' c ha hb h hs
  | rmDelete c => exact invE_rmDelete s s' c ha hb h hs
  | rmRelease c => exact invE_rmRelease s s' c ha hb h hs
  | recvBegin c => exact invE_recvBegin s s' c ha hb h hs
  | recvTake c => exact invE_recvTake s s' c ha hb h hs

theorem invE_reach {s : St} (h : Reach s) : InvE s := by
  induction h with
  | init => exact invE_init
  | step a hr hs ih => exact invE_step _ _ a (invA_reach hr) (invB_reach hr) ih hs

end Aqv.Feed

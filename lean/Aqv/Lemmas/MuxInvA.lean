/-
  Aqv.Lemmas.MuxInvA — memory, list and bookkeeping invariants of the TypeMux model (Aqv.Model.Mux, code as written =
  `step false`): arrays are never written after they have been published (every slice header in `subm` and every Post
  snapshot points below `nextArr`, and writes go to `nextArr`), so the snapshot a Post iterates is immutable (`snapImm`);
  the receiver lists have no duplicates and contain exactly the registered, not yet deleted subscriptions; where `closed`
  comes from; `postC` is nil once a closewait has finished; the logical clock orders `created` and `event.Time`.
-/
import Aqv.Model.Mux
import Aqv.Lemmas.FeedList
namespace Aqv.Mux
open Aqv.Feed (sub2_snoc sub2_mem mem_eraseIdx_idxOf nodup_snoc)
set_option linter.unusedSimpArgs false
set_option linter.unusedVariables false

@[simp, grind =] theorem upd_apply {α : Type} (f : Nat → α) (a : Nat) (v : α) (x : Nat) :
    upd f a v x = if x = a then v else f x := rfl

/-- index of a Post inside its delivery loop -/
def PPc.idx : PPc → Option Nat
  | .deliv i | .inDeliver i => some i
  | _ => none

structure InvA (s : St) : Prop where
  m1 : s.heap 0 = [] ∧ 1 ≤ s.nextArr
  m2 : ∀ t, (s.subm t).1 < s.nextArr ∧ (s.subm t).2 = (s.heap (s.subm t).1).length
  snapImm : ∀ p i, (s.ppc p).idx = some i →
    (s.snap p).1 < s.nextArr ∧ s.heap (s.snap p).1 = s.snapL p ∧ (s.snap p).2 = (s.snapL p).length
  l1 : ∀ t, (s.heap (s.subm t).1).Nodup
  l1b : ∀ t c, c ∈ s.heap (s.subm t).1 → s.sty c = t ∧ s.spc c = .registered
  l2 : ∀ c, s.spc c = .registered → (s.upc c = .idle ∨ s.upc c = .called) → s.stopped = false →
    c ∈ s.heap (s.subm (s.sty c)).1
  l3 : ∀ p i, (s.ppc p).idx = some i → (s.snapL p).Nodup
  t_sub : ∀ c t, Ev.subRet c t ∈ s.tr ↔ (s.spc c = .registered ∧ s.sty c = t)
  t_ucall : ∀ c, Ev.unsubCall c ∈ s.tr ↔ s.upc c ≠ .idle
  t_uret : ∀ c, Ev.unsubRet c ∈ s.tr ↔ s.upc c = .done
  t_pcall : ∀ p t, Ev.postCall p t ∈ s.tr ↔ (s.ppc p ≠ .idle ∧ s.pty p = t)
  t_pret : ∀ p ok, Ev.postRet p ok ∈ s.tr ↔ s.ppc p = .done ok
  t_scall : Ev.stopCall ∈ s.tr ↔ s.stop ≠ .idle
  t_sret : Ev.stopRet ∈ s.tr ↔ s.stop = .done
  st_done : s.stopped = true ↔ s.stop = .done
  d1 : ∀ c, s.closed c = true → Ev.unsubCall c ∈ s.tr ∨ Ev.stopCall ∈ s.tr
  h2 : ∀ c, s.closed c = true → s.closeMu c = false → s.postNil c = true
  h3 : ∀ c, s.upc c = .done → s.postNil c = true
  pn : ∀ c, s.postNil c = true → s.closed c = true
  ureg : ∀ c, s.upc c ≠ .idle → s.spc c = .registered
  uc : ∀ c, s.upc c = .closing → s.closed c = true
  sc : ∀ c td, s.stop = .closingSub c td → s.closed c = true
  e1 : ∀ c, s.spc c ≠ .idle → s.created c ≤ s.clock
  e2 : ∀ c t p t', Before s.tr (.subRet c t) (.postCall p t') → s.created c ≤ s.evtime p

theorem invA_init : InvA init := by
  constructor <;> simp [init, PPc.idx, Before]

macro "mstep_split" hs:ident : tactic =>
  `(tactic| (simp only [step, sliceOf] at $hs:ident; (repeat' split at $hs:ident) <;> (try cases $hs:ident)))

macro "minva_auto" : tactic =>
  `(tactic| (constructor <;> (try simp only [Before, sub2_snoc, List.mem_append, List.mem_singleton]) <;> (try assumption) <;> (try grind [PPc.idx])))

theorem invA_tick (s s' : St) (h : InvA s) (hs : step false s (.tick) = some s') : InvA s' := by
  obtain ⟨h1,h2,h3,h4,h5,h6,h7,h8,h9,h10,h11,h12,h13,h14,h15,h16,h17,h18,h19,h20,h21,h22,h23,h24⟩ := h
  have sm := @sub2_mem Ev s.tr
  have tk := fun (l : List Nat) => @List.take_length _ l
  simp only [Before] at h24
  mstep_split hs
  all_goals minva_auto

theorem invA_subNew (s s' : St) (c t : Nat) (h : InvA s) (hs : step false s (.subNew c t) = some s') : InvA s' := by
  obtain ⟨h1,h2,h3,h4,h5,h6,h7,h8,h9,h10,h11,h12,h13,h14,h15,h16,h17,h18,h19,h20,h21,h22,h23,h24⟩ := h
  have sm := @sub2_mem Ev s.tr
  have tk := fun (l : List Nat) => @List.take_length _ l
  simp only [Before] at h24
  mstep_split hs
  all_goals minva_auto

theorem invA_subReg (s s' : St) (c : Nat) (h : InvA s) (hs : step false s (.subReg c) = some s') : InvA s' := by
  obtain ⟨h1,h2,h3,h4,h5,h6,h7,h8,h9,h10,h11,h12,h13,h14,h15,h16,h17,h18,h19,h20,h21,h22,h23,h24⟩ := h
  have sm := @sub2_mem Ev s.tr
  simp only [Before] at h24
  have hL : (s.heap (s.subm (s.sty c)).1).take (s.subm (s.sty c)).2 = s.heap (s.subm (s.sty c)).1 := by
    rw [(h2 (s.sty c)).2]; exact List.take_length
  simp only [step, sliceOf, hL] at hs
  split at hs
  · rename_i hg
    split at hs
    · cases hs
      minva_auto
    · cases hs
      have hns := nodup_snoc (s.heap (s.subm (s.sty c)).1) c
      have hnotin : c ∉ s.heap (s.subm (s.sty c)).1 := fun hin => by
        have := (h5 _ c hin).2; rw [hg.1] at this; cases this
      have hlen : (s.heap (s.subm (s.sty c)).1 ++ [c]).length = (s.subm (s.sty c)).2 + 1 := by
        rw [List.length_append, (h2 (s.sty c)).2]; rfl
      minva_auto
  · cases hs

theorem invA_postCall (s s' : St) (p t : Nat) (h : InvA s) (hs : step false s (.postCall p t) = some s') : InvA s' := by
  obtain ⟨h1,h2,h3,h4,h5,h6,h7,h8,h9,h10,h11,h12,h13,h14,h15,h16,h17,h18,h19,h20,h21,h22,h23,h24⟩ := h
  have sm := @sub2_mem Ev s.tr
  have tk := fun (l : List Nat) => @List.take_length _ l
  simp only [Before] at h24
  mstep_split hs
  all_goals minva_auto

theorem invA_postSnap (s s' : St) (p : Nat) (h : InvA s) (hs : step false s (.postSnap p) = some s') : InvA s' := by
  obtain ⟨h1,h2,h3,h4,h5,h6,h7,h8,h9,h10,h11,h12,h13,h14,h15,h16,h17,h18,h19,h20,h21,h22,h23,h24⟩ := h
  have sm := @sub2_mem Ev s.tr
  have tk := fun (l : List Nat) => @List.take_length _ l
  simp only [Before] at h24
  mstep_split hs
  all_goals minva_auto

theorem invA_postNext (s s' : St) (p : Nat) (h : InvA s) (hs : step false s (.postNext p) = some s') : InvA s' := by
  obtain ⟨h1,h2,h3,h4,h5,h6,h7,h8,h9,h10,h11,h12,h13,h14,h15,h16,h17,h18,h19,h20,h21,h22,h23,h24⟩ := h
  have sm := @sub2_mem Ev s.tr
  have tk := fun (l : List Nat) => @List.take_length _ l
  simp only [Before] at h24
  mstep_split hs
  all_goals minva_auto

theorem invA_deliverSend (s s' : St) (p : Nat) (h : InvA s) (hs : step false s (.deliverSend p) = some s') : InvA s' := by
  obtain ⟨h1,h2,h3,h4,h5,h6,h7,h8,h9,h10,h11,h12,h13,h14,h15,h16,h17,h18,h19,h20,h21,h22,h23,h24⟩ := h
  have sm := @sub2_mem Ev s.tr
  have tk := fun (l : List Nat) => @List.take_length _ l
  simp only [Before] at h24
  mstep_split hs
  all_goals minva_auto

theorem invA_deliverSkip (s s' : St) (p : Nat) (h : InvA s) (hs : step false s (.deliverSkip p) = some s') : InvA s' := by
  obtain ⟨h1,h2,h3,h4,h5,h6,h7,h8,h9,h10,h11,h12,h13,h14,h15,h16,h17,h18,h19,h20,h21,h22,h23,h24⟩ := h
  have sm := @sub2_mem Ev s.tr
  have tk := fun (l : List Nat) => @List.take_length _ l
  simp only [Before] at h24
  mstep_split hs
  all_goals minva_auto

theorem invA_unsubCall (s s' : St) (c : Nat) (h : InvA s) (hs : step false s (.unsubCall c) = some s') : InvA s' := by
  obtain ⟨h1,h2,h3,h4,h5,h6,h7,h8,h9,h10,h11,h12,h13,h14,h15,h16,h17,h18,h19,h20,h21,h22,h23,h24⟩ := h
  have sm := @sub2_mem Ev s.tr
  have tk := fun (l : List Nat) => @List.take_length _ l
  simp only [Before] at h24
  mstep_split hs
  all_goals minva_auto

theorem invA_unsubDel (s s' : St) (c : Nat) (h : InvA s) (hs : step false s (.unsubDel c) = some s') : InvA s' := by
  obtain ⟨h1,h2,h3,h4,h5,h6,h7,h8,h9,h10,h11,h12,h13,h14,h15,h16,h17,h18,h19,h20,h21,h22,h23,h24⟩ := h
  have sm := @sub2_mem Ev s.tr
  simp only [Before] at h24
  have hL : (s.heap (s.subm (s.sty c)).1).take (s.subm (s.sty c)).2 = s.heap (s.subm (s.sty c)).1 := by
    rw [(h2 (s.sty c)).2]; exact List.take_length
  simp only [step, sliceOf, hL] at hs
  generalize hLdef : s.heap (s.subm (s.sty c)).1 = L at hs
  have hLn : L.Nodup := hLdef ▸ h4 (s.sty c)
  have hme := mem_eraseIdx_idxOf L c hLn
  have hnd := hLn.eraseIdx (List.idxOf c L)
  have hlt := @List.idxOf_lt_length_iff _ _ _ L c
  have hlen := (h2 (s.sty c)).2
  rw [hLdef] at hlen
  split at hs
  · split at hs
    · rename_i hpos
      have hle := List.length_eraseIdx_of_lt hpos
      split at hs
      · cases hs
        rename_i hone
        have hsing : ∀ x, x ∈ L → x = c := by
          intro x hx
          have hc := hlt.mp hpos
          match L, hone, hx, hc with
          | [y], _, hx, hc => simp at hx hc; rw [hx, hc]
        minva_auto
      · simp only [Bool.false_eq_true, if_false] at hs
        cases hs
        minva_auto
    · cases hs
      minva_auto
  · cases hs

theorem invA_cwBegin (s s' : St) (c : Nat) (h : InvA s) (hs : step false s (.cwBegin c) = some s') : InvA s' := by
  obtain ⟨h1,h2,h3,h4,h5,h6,h7,h8,h9,h10,h11,h12,h13,h14,h15,h16,h17,h18,h19,h20,h21,h22,h23,h24⟩ := h
  have sm := @sub2_mem Ev s.tr
  have tk := fun (l : List Nat) => @List.take_length _ l
  simp only [Before] at h24
  mstep_split hs
  all_goals minva_auto

theorem invA_cwEnd (s s' : St) (c : Nat) (h : InvA s) (hs : step false s (.cwEnd c) = some s') : InvA s' := by
  obtain ⟨h1,h2,h3,h4,h5,h6,h7,h8,h9,h10,h11,h12,h13,h14,h15,h16,h17,h18,h19,h20,h21,h22,h23,h24⟩ := h
  have sm := @sub2_mem Ev s.tr
  have tk := fun (l : List Nat) => @List.take_length _ l
  simp only [Before] at h24
  mstep_split hs
  all_goals minva_auto

theorem invA_stopCall (s s' : St) (h : InvA s) (hs : step false s (.stopCall) = some s') : InvA s' := by
  obtain ⟨h1,h2,h3,h4,h5,h6,h7,h8,h9,h10,h11,h12,h13,h14,h15,h16,h17,h18,h19,h20,h21,h22,h23,h24⟩ := h
  have sm := @sub2_mem Ev s.tr
  have tk := fun (l : List Nat) => @List.take_length _ l
  simp only [Before] at h24
  mstep_split hs
  all_goals minva_auto

theorem invA_stopBegin (s s' : St) (h : InvA s) (hs : step false s (.stopBegin) = some s') : InvA s' := by
  obtain ⟨h1,h2,h3,h4,h5,h6,h7,h8,h9,h10,h11,h12,h13,h14,h15,h16,h17,h18,h19,h20,h21,h22,h23,h24⟩ := h
  have sm := @sub2_mem Ev s.tr
  have tk := fun (l : List Nat) => @List.take_length _ l
  simp only [Before] at h24
  mstep_split hs
  all_goals minva_auto

theorem invA_stopCwBegin (s s' : St) (c : Nat) (h : InvA s) (hs : step false s (.stopCwBegin c) = some s') : InvA s' := by
  obtain ⟨h1,h2,h3,h4,h5,h6,h7,h8,h9,h10,h11,h12,h13,h14,h15,h16,h17,h18,h19,h20,h21,h22,h23,h24⟩ := h
  have sm := @sub2_mem Ev s.tr
  have tk := fun (l : List Nat) => @List.take_length _ l
  simp only [Before] at h24
  mstep_split hs
  all_goals minva_auto

theorem invA_stopCwEnd (s s' : St) (h : InvA s) (hs : step false s (.stopCwEnd) = some s') : InvA s' := by
  obtain ⟨h1,h2,h3,h4,h5,h6,h7,h8,h9,h10,h11,h12,h13,h14,h15,h16,h17,h18,h19,h20,h21,h22,h23,h24⟩ := h
  have sm := @sub2_mem Ev s.tr
  have tk := fun (l : List Nat) => @List.take_length _ l
  simp only [Before] at h24
  mstep_split hs
  all_goals minva_auto

theorem invA_stopEnd (s s' : St) (h : InvA s) (hs : step false s (.stopEnd) = some s') : InvA s' := by
  obtain ⟨h1,h2,h3,h4,h5,h6,h7,h8,h9,h10,h11,h12,h13,h14,h15,h16,h17,h18,h19,h20,h21,h22,h23,h24⟩ := h
  have sm := @sub2_mem Ev s.tr
  have tk := fun (l : List Nat) => @List.take_length _ l
  simp only [Before] at h24
  mstep_split hs
  all_goals minva_auto

theorem invA_step (s s' : St) (a : Act) (h : InvA s) (hs : step false s a = some s') : InvA s' := by
  cases a with
  | tick  => exact invA_tick s s'  h hs
  | subNew c t => exact invA_subNew s s' c t h hs
  | subReg c => exact invA_subReg s s' c h hs
  | postCall p t => exact invA_postCall s s' p t h hs
  | postSnap p => exact invA_postSnap s s' p h hs
  | postNext p => exact invA_postNext s s' p h hs
  | deliverSend p => exact invA_deliverSend s s' p h hs
  | deliverSkip p => exact invA_deliverSkip s s' p h hs
  | unsubCall c => exact invA_unsubCall s s' c h hs
  | unsubDel c => exact invA_unsubDel s s' c h hs
  | cwBegin c => exact invA_cwBegin s s' c h hs
  | cwEnd c => exact invA_cwEnd s s' c h hs
  | stopCall  => exact invA_stopCall s s'  h hs
  | stopBegin  => exact invA_stopBegin s s'  h hs
  | stopCwBegin c => exact invA_stopCwBegin s s' c h hs
  | stopCwEnd  => exact invA_stopCwEnd s s'  h hs
  | stopEnd  => exact invA_stopEnd s s'  h hs

theorem invA_reach {s : St} (h : Reach s) : InvA s := by
  induction h with
  | init => exact invA_init
  | step a _ hs ih => exact invA_step _ _ a ih hs

end Aqv.Mux

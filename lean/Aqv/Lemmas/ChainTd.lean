/-
  Aqv.Lemmas.ChainTd — the C02 invariants of import-only histories: the store is ancestor-closed (so `reorg` never
  fails), the head is at least as heavy as every fully validated block, the head's total difficulty never decreases.
-/
import Aqv.Lemmas.ChainImport
import Aqv.Lemmas.ChainRewind
namespace Aqv.Chain

/-- every stored block is linked to the genesis block through stored blocks (no rewind has orphaned anything) -/
def Closed (s : St) : Prop := ∀ k x, s.store k = some x → ∃ l, Path s.store x l s.genesis

/-- the head is at least as heavy as every fully validated block -/
def HeadMax (s : St) : Prop :=
  ∀ k t, s.seen k = true → s.td k = some t → ∃ th, s.td s.head = some th ∧ t ≤ th

def SeenTd (s : St) : Prop := ∀ k, s.seen k = true → (s.td k).isSome = true

/-- the head's total difficulty is at least `t0` -/
def HeadTdGe (s : St) (t0 : Nat) : Prop := ∃ th, s.td s.head = some th ∧ t0 ≤ th

/-- invariant of import-only histories -/
def Good (U : Map Blk) (g : Blk) (t0 : Nat) (s : St) : Prop :=
  Inv U s ∧ Closed s ∧ HeadMax s ∧ SeenTd s ∧ HeadTdGe s t0 ∧ s.genesis = g

variable {U : Map Blk}

theorem td_unique {g : Blk} {k t t' : Nat}
    (h : ∃ x l, U k = some x ∧ Path U x l g ∧ t = g.diff + diffSum l)
    (h' : ∃ x l, U k = some x ∧ Path U x l g ∧ t' = g.diff + diffSum l) : t = t' := by
  obtain ⟨x, l, hx, hp, ht⟩ := h
  obtain ⟨x', l', hx', hp', ht'⟩ := h'
  rw [hx] at hx'; cases hx'
  have := hp.det hp' rfl
  rw [ht, ht', this.1]

/-- writing the td of `b` again does not change any existing record -/
theorem td_upd_same (W : World U) {s : St} {hb : Blk} {C : List Blk} (h : InvC U s hb C) {b p : Blk}
    (hbU : U b.id = some b) (hpar : parentOf s.store b = some p) {ptd : Nat} (hptd : s.td b.parent = some ptd)
    {k t : Nat} (hk : s.td k = some t) : upd s.td b.id (some (ptd + b.diff)) k = some t := by
  by_cases hkb : k = b.id
  · subst hkb
    simp only [upd_same]
    congr 1
    exact td_unique (tdIntr_child W h hbU hpar hptd) (h.tdIntr _ _ hk)
  · rw [upd_other _ _ _ _ hkb]; exact hk

theorem closed_upd {s : St} (hc : Closed s) {b p : Blk} (hpar : parentOf s.store b = some p)
    {store' : Map Blk} (hext : StoreExt s.store store') (hb' : ∀ k x, store' k = some x → s.store k = some x ∨ x = b) :
    ∀ k x, store' k = some x → ∃ l, Path store' x l s.genesis := by
  intro k x hx
  rcases hb' k x hx with hx' | hx'
  · obtain ⟨l, hl⟩ := hc k x hx'
    exact ⟨l, hl.mono hext⟩
  · subst hx'
    obtain ⟨l, hl⟩ := hc _ _ (parentOf_some hpar).1
    exact ⟨x :: l, .cons (parentOf_mono hext hpar) (hl.mono hext)⟩

/-- with an ancestor-closed store `reorg` finds the common ancestor -/
theorem reorg_ok_of_closedK {s : St} (hsub : StoreExt s.store U) (hc : Closed s) (hg0 : s.genesis.number = 0)
    {k : Nat} {hb : Blk} (hhb : s.store k = some hb)
    {b p : Blk} (hbU : U b.id = some b) (hpar : parentOf s.store b = some p) (ptd : Nat) :
    reorg (afterStored s b ptd) hb b ≠ none := by
  have hext : StoreExt s.store (afterStored s b ptd).store := (storeExt_updK hsub hbU).1
  obtain ⟨lp, hlp⟩ := hc _ _ (parentOf_some hpar).1
  obtain ⟨C, hC⟩ := hc _ _ hhb
  have hbp : Path (afterStored s b ptd).store b (b :: lp) s.genesis :=
    .cons (parentOf_mono hext hpar) (hlp.mono hext)
  have hhp : Path (afterStored s b ptd).store hb C s.genesis := hC.mono hext
  have hg := hg0
  have hm1 : min hb.number b.number ≤ hb.number := Nat.min_le_left _ _
  have hm2 : min hb.number b.number ≤ b.number := Nat.min_le_right _ _
  obtain ⟨O1, O2, o, hO, hO1, hO2, hon⟩ := hhp.split (min hb.number b.number) (by rw [hg]; omega) hm1
  obtain ⟨N1, N2, n, hN, hN1, hN2, hnn⟩ := hbp.split (min hb.number b.number) (by rw [hg]; omega) hm2
  have hr1 : reduce (afterStored s b ptd).store (hb.number + 1) hb (min hb.number b.number) = some (o, O1) := by
    rw [← hon]; exact reduce_of_path hO1 _ (by have := hO1.number; omega)
  have hr2 : reduce (afterStored s b ptd).store (b.number + 1) b (min hb.number b.number) = some (n, N1) := by
    rw [← hnn]; exact reduce_of_path hN1 _ (by have := hN1.number; omega)
  have hlen : O2.length = N2.length := by
    have h1 := hO2.number
    have h2 := hN2.number
    omega
  obtain ⟨r, hr⟩ := walkBoth_of_paths hO2 n N2 hN2 hlen (min hb.number b.number + 1) (by have := hO2.number; omega)
  obtain ⟨c, oc, nc⟩ := r
  unfold reorg
  simp only [hr1, hr2, hr]
  simp

theorem reorg_ok_of_closed (W : World U) {s : St} {hb : Blk} {C : List Blk} (h : InvC U s hb C) (hc : Closed s)
    {b p : Blk} (hbU : U b.id = some b) (hpar : parentOf s.store b = some p) (ptd : Nat) :
    reorg (afterStored s b ptd) hb b ≠ none :=
  reorg_ok_of_closedK h.sub hc h.genNum h.headStored hbU hpar ptd

/-- the fields of the state after a canonical write -/
theorem afterCanon_fields {s s2 : St} {b cur : Blk} {ptd : Nat}
    (hs2 : s2 = afterTd s b ptd ∨ reorg (afterStored s b ptd) cur b = some s2) :
    (afterCanon s2 b).head = b.id ∧ (afterCanon s2 b).td = upd s.td b.id (some (ptd + b.diff)) ∧
    (afterCanon s2 b).seen = updB s.seen b.id true ∧ (afterCanon s2 b).store = upd s.store b.id (some b) ∧
    (afterCanon s2 b).genesis = s.genesis := by
  rcases hs2 with hs2 | hr
  · subst hs2; simp [afterCanon, insertHead, afterTd]
  · obtain ⟨o, n, c, c', oc1, nc1, oc2, nc2, _, _, _, _, _, _, _, _, hs2⟩ := reorg_spec hr
    subst hs2
    simp [afterCanon, insertHead, reorgApply_td, reorgApply_seen, reorgApply_store, reorgApply_genesis, afterStored,
      afterTd]

theorem good_stable (W : World U) (g : Blk) (t0 : Nat) : Stable U (Good U g t0) True where
  base := fun _ h => inv_base h.1
  wbws := by
    intro s b p coin hG hbU hpar hps
    obtain ⟨hinv, hcl, hmax, hstd, hge, hgg⟩ := hG
    obtain ⟨hb, C, hI⟩ := hinv
    have hid := hI.headId W
    have hext := (storeExt_upd hI hbU).1
    have hstore' : ∀ k x, upd s.store b.id (some b) k = some x → s.store k = some x ∨ x = b := by
      intro k x hx
      by_cases hk : k = b.id
      · subst hk; simp at hx; exact .inr hx.symm
      · rw [upd_other _ _ _ _ hk] at hx; exact .inl hx
    rcases wbws_cases s b coin with ⟨e, he, hne⟩ | ⟨ptd, cur, hptd, hcur, hr, he⟩ |
        ⟨ptd, s2, cur, lt, hptd, hcur, hlt, hdec, hs2, he⟩ | ⟨ptd, cur, lt, hptd, hcur, hlt, hdec, he⟩
    · rw [he]
      exact ⟨fun _ => ⟨⟨hb, C, hI⟩, hcl, hmax, hstd, hge, hgg⟩, fun _ => by simpa using hne⟩
    · -- reorg failed: impossible on an ancestor-closed store
      exfalso
      rw [hI.headStored] at hcur
      cases hcur
      exact reorg_ok_of_closed W hI hcl hbU hpar ptd hr
    · -- canonical
      rw [he]
      refine ⟨fun hok => ?_, fun _ => by simp⟩
      have hinv' : Inv U (afterCanon s2 b) := by
        have := inv_wbws W ⟨hb, C, hI⟩ hbU hpar hps coin (by rw [he]; simp)
        rwa [he] at this
      obtain ⟨hh, htd, hseen, hst, hgen⟩ := afterCanon_fields hs2
      have hlt' : s.td s.head = some lt := hlt
      have hge' := decideReorg_ge hdec
      refine ⟨hinv', ?_, ?_, ?_, ?_, by rw [hgen]; exact hgg⟩
      · intro k x hx
        rw [hst] at hx
        rw [hst, hgen]
        exact closed_upd hcl hpar hext hstore' k x hx
      · intro k t hk ht
        rw [hh, htd]
        refine ⟨ptd + b.diff, by simp, ?_⟩
        rw [hseen] at hk
        rw [htd] at ht
        by_cases hkb : k = b.id
        · subst hkb; simp at ht; omega
        · rw [updB_other _ _ _ _ hkb] at hk
          rw [upd_other _ _ _ _ hkb] at ht
          obtain ⟨th, hth, hle⟩ := hmax k t hk ht
          rw [hlt'] at hth; cases hth
          omega
      · intro k hk
        rw [hseen] at hk
        rw [htd]
        by_cases hkb : k = b.id
        · subst hkb; simp
        · rw [updB_other _ _ _ _ hkb] at hk
          rw [upd_other _ _ _ _ hkb]
          exact hstd k hk
      · obtain ⟨th, hth, hle⟩ := hge
        rw [hlt'] at hth; cases hth
        exact ⟨ptd + b.diff, by rw [hh, htd]; simp, by omega⟩
    · -- side block
      rw [he]
      refine ⟨fun _ => ?_, fun _ => by simp⟩
      have hle := decideReorg_false_le hdec
      have hhead : (afterSide s b ptd).td s.head = some lt := td_upd_same W hI hbU hpar hptd hlt
      refine ⟨⟨hb, C, invC_side W hI hbU hpar hps hptd⟩, ?_, ?_, ?_, ?_, hgg⟩
      · intro k x hx
        exact closed_upd hcl hpar hext hstore' k x hx
      · intro k t hk ht
        refine ⟨lt, hhead, ?_⟩
        simp only [afterSide, afterTd] at hk ht
        by_cases hkb : k = b.id
        · subst hkb; simp at ht; omega
        · rw [updB_other _ _ _ _ hkb] at hk
          rw [upd_other _ _ _ _ hkb] at ht
          obtain ⟨th, hth, hle'⟩ := hmax k t hk ht
          rw [hlt] at hth; cases hth
          exact hle'
      · intro k hk
        simp only [afterSide, afterTd] at hk ⊢
        by_cases hkb : k = b.id
        · subst hkb; simp
        · rw [updB_other _ _ _ _ hkb] at hk
          rw [upd_other _ _ _ _ hkb]
          exact hstd k hk
      · obtain ⟨th, hth, hle'⟩ := hge
        rw [hlt] at hth; cases hth
        exact ⟨lt, hhead, hle'⟩
  without := by
    intro s b p ptd hG hbU hpar hptd
    obtain ⟨hinv, hcl, hmax, hstd, hge, hgg⟩ := hG
    obtain ⟨hb, C, hI⟩ := hinv
    have hext := (storeExt_upd hI hbU).1
    have hstore' : ∀ k x, upd s.store b.id (some b) k = some x → s.store k = some x ∨ x = b := by
      intro k x hx
      by_cases hk : k = b.id
      · subst hk; simp at hx; exact .inr hx.symm
      · rw [upd_other _ _ _ _ hk] at hx; exact .inl hx
    refine ⟨⟨hb, C, invC_withoutState W hI hbU hpar hptd⟩, ?_, ?_, ?_, ?_, hgg⟩
    · intro k x hx
      exact closed_upd hcl hpar hext hstore' k x hx
    · intro k t hk ht
      simp only at hk ht ⊢
      obtain ⟨t1, ht1⟩ := Option.isSome_iff_exists.mp (hstd k hk)
      have := td_upd_same W hI hbU hpar hptd ht1
      obtain ⟨th, hth, hle⟩ := hmax k t1 hk ht1
      have htt : t = t1 := by rw [this] at ht; cases ht; rfl
      exact ⟨th, td_upd_same W hI hbU hpar hptd hth, by omega⟩
    · intro k hk
      simp only at hk ⊢
      obtain ⟨t1, ht1⟩ := Option.isSome_iff_exists.mp (hstd k hk)
      rw [td_upd_same W hI hbU hpar hptd ht1]; rfl
    · obtain ⟨th, hth, hle⟩ := hge
      exact ⟨th, td_upd_same W hI hbU hpar hptd hth, hle⟩

theorem good_init (g : Blk) (archive : Bool) (hgU : U g.id = some g) (hg0 : g.number = 0) (hgt : g.txs = []) :
    Good U g g.diff (init g archive) := by
  refine ⟨⟨g, [], invC_init g archive hgU hg0 hgt⟩, ?_, ?_, ?_, ?_, rfl⟩
  · intro k x hx
    simp only [init] at hx
    by_cases hk : k = g.id
    · subst hk; simp at hx; subst hx; exact ⟨[], .nil _⟩
    · rw [upd_other _ _ _ _ hk] at hx; cases hx
  · intro k t hk ht
    simp only [init] at hk ht ⊢
    by_cases hkg : k = g.id
    · subst hkg; simp at ht; exact ⟨g.diff, by simp, by omega⟩
    · rw [upd_other _ _ _ _ hkg] at ht; cases ht
  · intro k hk
    simp only [init] at hk ⊢
    by_cases hkg : k = g.id
    · subst hkg; simp
    · rw [updB_other _ _ _ _ hkg] at hk; cases hk
  · exact ⟨g.diff, by simp [init], Nat.le_refl _⟩

theorem good_reopen (W : World U) {g : Blk} {t0 : Nat} {s : St} (h : Good U g t0 s) : Good U g t0 (reopen s) := by
  obtain ⟨hinv, hcl, hmax, hstd, hge, hgg⟩ := h
  have hinv' := inv_reopen W hinv
  have hf : (reopen s).store = s.store ∧ (reopen s).td = s.td ∧ (reopen s).seen = s.seen ∧ (reopen s).head = s.head ∧
      (reopen s).genesis = s.genesis := by
    unfold reopen
    split
    · exact ⟨rfl, rfl, rfl, rfl, rfl⟩
    · split <;> exact ⟨rfl, rfl, rfl, rfl, rfl⟩
  obtain ⟨h1, h2, h3, h4, h5⟩ := hf
  refine ⟨hinv', ?_, ?_, ?_, ?_, by rw [h5]; exact hgg⟩
  · intro k x hx; rw [h1] at hx ⊢; rw [h5]; exact hcl k x hx
  · intro k t hk ht; rw [h3] at hk; rw [h2] at ht ⊢; rw [h4]; exact hmax k t hk ht
  · intro k hk; rw [h3] at hk; rw [h2]; exact hstd k hk
  · rw [HeadTdGe, h2, h4]; exact hge

theorem good_weaken {g : Blk} {t0 t1 : Nat} {s : St} (h : Good U g t0 s) (hle : t1 ≤ t0) : Good U g t1 s := by
  obtain ⟨h1, h2, h3, h4, ⟨th, hth, hge⟩, h6⟩ := h
  exact ⟨h1, h2, h3, h4, ⟨th, hth, by omega⟩, h6⟩

end Aqv.Chain

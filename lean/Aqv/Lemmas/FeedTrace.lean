/-
  Aqv.Lemmas.FeedTrace — projections of a history (`placesOf`, `placesOn`, `placesBy`) commute with the obvious list
  operations; used to restate the state invariants of the Feed model as statements about the history alone.
-/
import Aqv.Model.Feed
namespace Aqv.Feed

theorem mem_placesOf (tr : List Ev) (c : Chan) (g : Sid) : (c, g) ∈ placesOf tr ↔ Ev.place c g ∈ tr := by
  induction tr with
  | nil => simp [placesOf]
  | cons e es ih =>
    simp only [placesOf, List.filterMap_cons] at ih ⊢
    cases e <;> simp_all <;> grind

theorem count_placesOf (tr : List Ev) (c : Chan) (g : Sid) : (placesOf tr).count (c, g) = tr.count (Ev.place c g) := by
  induction tr with
  | nil => simp [placesOf]
  | cons e es ih =>
    simp only [placesOf, List.filterMap_cons] at ih ⊢
    cases e <;> simp_all [List.count_cons] <;> grind

theorem placesBy_eq (tr : List Ev) (g : Sid) : placesBy g tr = (placesOf tr).countP (fun p => p.2 == g) := by
  induction tr with
  | nil => simp [placesOf, placesBy]
  | cons e es ih =>
    simp only [placesOf, placesBy, List.filterMap_cons, List.countP_cons] at ih ⊢
    cases e <;> simp_all [List.countP_cons]

theorem placesOn_eq (tr : List Ev) (c : Chan) :
    placesOn c tr = ((placesOf tr).filter (fun p => p.1 == c)).map (·.2) := by
  induction tr with
  | nil => simp [placesOf, placesOn]
  | cons e es ih =>
    simp only [placesOf, placesOn, List.filterMap_cons] at ih ⊢
    cases e <;> simp_all [List.filter_cons] <;> split <;> simp_all

theorem before_place (tr : List Ev) (c c' : Chan) (g g' : Sid) (h : Before tr (.place c g) (.place c' g')) :
    List.Sublist [(c, g), (c', g')] (placesOf tr) := by
  unfold placesOf
  unfold Before at h
  generalize hf : (fun e => match e with | Ev.place c g => some (c, g) | _ => none : Ev → Option (Chan × Sid)) = f
  have h1 : f (Ev.place c g) = some (c, g) := by rw [← hf]
  have h2 : f (Ev.place c' g') = some (c', g') := by rw [← hf]
  have := List.Sublist.filterMap f h
  simpa [List.filterMap_cons, h1, h2] using this

end Aqv.Feed

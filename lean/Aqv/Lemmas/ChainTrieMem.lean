/-
  Aqv.Lemmas.ChainTrieMem — the memory layer of trie.Database across commits that may fail (C04, growth 4): the disk stays
  closed and the memory layer stays closed relative to the disk, whatever flush fails, as long as a failed `Commit` leaves
  the memory layer untouched.
-/
import Aqv.Lemmas.ChainDb
namespace Aqv.ChainDb

theorem MemClosed.mono {m : Mem} {db db' : Db} (h : MemClosed m db)
    (hm : ∀ c, (get db (.node c)).isSome = true → (get db' (.node c)).isSome = true) : MemClosed m db' := by
  intro x cs hx c hc
  rcases h x cs hx c hc with h1 | h1
  · exact .inl h1
  · exact .inr (hm c h1)

theorem present_of_mem_puts : ∀ (ps : List (Hash × List Hash)) (db : Db) (p : Hash × List Hash), p ∈ ps →
    (get (ps.foldl putNode db) (.node p.1)).isSome = true := by
  intro ps
  induction ps with
  | nil => intro db p hp; cases hp
  | cons q rest ih =>
    intro db p hp
    simp only [List.foldl_cons]
    rcases List.mem_cons.mp hp with rfl | hp
    · exact present_foldl_putNode rest (by rw [get_putNode]; simp)
    · exact ih _ p hp

/-- every put of `commit` is a node of the memory layer with exactly its references -/
theorem commitMem_mem (m : Mem) : ∀ (fuel : Nat) (h : Hash) (p : Hash × List Hash), p ∈ commitMem m fuel h →
    memGet m p.1 = some p.2 := by
  intro fuel
  induction fuel with
  | zero => intro h p hp; simp [commitMem] at hp
  | succ f ih =>
    intro h p hp
    unfold commitMem at hp
    split at hp
    · cases hp
    · rename_i cs hcs
      rcases List.mem_append.mp hp with h1 | h1
      · obtain ⟨c, _, hc⟩ := List.mem_flatMap.mp h1
        exact ih c p hc
      · simp at h1; subst h1; exact hcs

/-- `commit` is children-first relative to the disk, and puts the node it was called on (if it is dirty) -/
theorem commitMem_spec (m : Mem) : ∀ (fuel : Nat) (h : Hash) (db : Db), MemClosed m db → commitFuelOK m fuel h = true →
    childrenFirstB db (commitMem m fuel h) = true ∧
    ((memGet m h).isSome = true → (get ((commitMem m fuel h).foldl putNode db) (.node h)).isSome = true) := by
  intro fuel
  induction fuel with
  | zero =>
    intro h db _ hf
    simp only [commitFuelOK] at hf
    refine ⟨rfl, fun hs => ?_⟩
    rw [Option.isNone_iff_eq_none.mp hf] at hs; cases hs
  | succ f ih =>
    intro h db hmc hf
    unfold commitMem
    unfold commitFuelOK at hf
    cases hcs : memGet m h with
    | none => exact ⟨rfl, fun hs => by cases hs⟩
    | some cs =>
      rw [hcs] at hf
      simp only
      -- the children, one after the other
      have hlist : ∀ (l : List Hash) (db : Db), MemClosed m db → (∀ c ∈ l, commitFuelOK m f c = true) →
          childrenFirstB db (l.flatMap (commitMem m f)) = true ∧
          ∀ c ∈ l, (memGet m c).isSome = true → (get ((l.flatMap (commitMem m f)).foldl putNode db) (.node c)).isSome = true := by
        intro l
        induction l with
        | nil => intro db _ _; exact ⟨rfl, fun c hc => by cases hc⟩
        | cons c rest ihl =>
          intro db hmc hall
          obtain ⟨h1, h2⟩ := ih c db hmc (hall c (by simp))
          have hmc' : MemClosed m ((commitMem m f c).foldl putNode db) := hmc.mono fun x hx => present_foldl_putNode _ hx
          obtain ⟨h3, h4⟩ := ihl _ hmc' (fun c' hc' => hall c' (List.mem_cons_of_mem _ hc'))
          simp only [List.flatMap_cons]
          rw [childrenFirstB_append, foldl_putNode_append]
          refine ⟨by simp [h1, h3], ?_⟩
          intro c' hc' hs
          rcases List.mem_cons.mp hc' with rfl | hc'
          · exact present_foldl_putNode _ (h2 hs)
          · exact h4 c' hc' hs
      obtain ⟨hA, hB⟩ := hlist cs db hmc (fun c hc => (List.all_eq_true.mp hf) c hc)
      rw [childrenFirstB_append, foldl_putNode_append]
      refine ⟨?_, fun _ => by simp [putNode, get_put]⟩
      simp only [hA, Bool.true_and, childrenFirstB, Bool.and_true, List.all_eq_true]
      intro c hc
      rcases hmc h cs hcs c hc with h1 | h1
      · exact hB c hc h1
      · exact present_foldl_putNode _ h1

theorem memGet_filter (q : Hash → Bool) : ∀ (m : Mem) (h : Hash),
    memGet (m.filter fun e => q e.1) h = if q h = true then memGet m h else none := by
  intro m
  induction m with
  | nil => intro h; simp [memGet]
  | cons e rest ih =>
    intro h
    obtain ⟨k, cs⟩ := e
    by_cases hq : q k = true
    · simp only [List.filter_cons, hq, if_true, memGet]
      by_cases hk : k = h
      · subst hk; simp [hq]
      · simp only [hk, if_false]; exact ih h
    · have hq' : q k = false := by simpa using hq
      simp only [List.filter_cons, hq', Bool.false_eq_true, if_false, memGet]
      rw [ih h]
      by_cases hk : k = h
      · subst hk; simp [hq']
      · simp [hk]

/-- the invariant of (memory layer, disk) -/
def TrieInv (md : Mem × Db) : Prop := Closed md.2 ∧ MemClosed md.1 md.2

/-- **one `Commit`, succeeding or failing at any flush, keeps the invariant** (code as written: a failed `Commit` does not
    uncache) -/
theorem trieInv_commitStep (fuel : Nat) (md : Mem × Db) (root : Hash) (okPrefix : Option Nat) (hi : TrieInv md)
    (hf : commitFuelOK md.1 fuel root = true) : TrieInv (commitStep true fuel md root okPrefix) := by
  obtain ⟨m, db⟩ := md
  obtain ⟨hc, hmc⟩ := hi
  obtain ⟨hcf, _⟩ := commitMem_spec m fuel root db hmc hf
  unfold commitStep
  cases okPrefix with
  | some k =>
    simp only [if_true]
    have hpre : (commitMem m fuel root).take k <+: commitMem m fuel root := List.take_prefix _ _
    exact ⟨closed_foldl_putNode hc _ (childrenFirstB_prefix hpre hcf), hmc.mono fun x hx => present_foldl_putNode _ hx⟩
  | none =>
    simp only
    refine ⟨closed_foldl_putNode hc _ hcf, ?_⟩
    intro h cs hg c hcm
    unfold uncache at hg ⊢
    rw [memGet_filter (fun x => !((commitMem m fuel root).map (·.1)).contains x)] at hg
    split at hg
    · rcases hmc h cs hg c hcm with h1 | h1
      · by_cases hin : ((commitMem m fuel root).map (·.1)).contains c = true
        · right
          obtain ⟨p, hp, hpc⟩ := List.mem_map.mp (List.contains_iff_mem.mp hin)
          have := present_of_mem_puts _ db p hp
          rw [hpc] at this; exact this
        · left
          rw [memGet_filter (fun x => !((commitMem m fuel root).map (·.1)).contains x)]
          have hq : (!((commitMem m fuel root).map (·.1)).contains c) = true := by
            cases hcc : ((commitMem m fuel root).map (·.1)).contains c with
            | true => exact absurd hcc hin
            | false => rfl
          rw [if_pos hq]; exact h1
      · exact .inr (present_foldl_putNode _ h1)
    · cases hg

/-- a history of commits: (root, depth bound, outcome) -/
def commitRunMem (keep : Bool) : Mem × Db → List (Hash × Nat × Option Nat) → Mem × Db
  | md, [] => md
  | md, (r, f, o) :: rest => commitRunMem keep (commitStep keep f md r o) rest

def FuelOKAll (keep : Bool) : Mem × Db → List (Hash × Nat × Option Nat) → Prop
  | _, [] => True
  | md, (r, f, o) :: rest => commitFuelOK md.1 f r = true ∧ FuelOKAll keep (commitStep keep f md r o) rest

theorem trieInv_run : ∀ (hist : List (Hash × Nat × Option Nat)) (md : Mem × Db), TrieInv md → FuelOKAll true md hist →
    TrieInv (commitRunMem true md hist) := by
  intro hist
  induction hist with
  | nil => intro md hi _; exact hi
  | cons x rest ih =>
    intro md hi hf
    obtain ⟨r, f, o⟩ := x
    exact ih _ (trieInv_commitStep f md r o hi hf.1) hf.2

/-- a successful `Commit(root)` of a dirty root leaves the root on disk -/
theorem root_on_disk_after_commit (fuel : Nat) (md : Mem × Db) (root : Hash) (hi : TrieInv md)
    (hf : commitFuelOK md.1 fuel root = true) (hr : (memGet md.1 root).isSome = true) :
    hasState (commitStep true fuel md root none).2 root = true := by
  obtain ⟨m, db⟩ := md
  exact (commitMem_spec m fuel root db hi.2 hf).2 hr

end Aqv.ChainDb

/-
  Aqv.Lemmas.StateRevert — RevertToSnapshot restores the view for any nesting of snapshots and any interleaving of
  mutators (the induction behind Props.C09.revert_exact).
-/
import Aqv.Lemmas.StateStep
namespace Aqv.State

def JOK (s : SDB) : Prop := ∀ e ∈ s.journal, EntryOK e

/-- what the per-transaction theorems need of the starting state. -/
structure TxInv (s : SDB) : Prop where
  coh : Coherent s
  jok : JOK s

theorem Ext.coherent {t t' : SDB} (h : Ext t t') (hc : Coherent t) : Coherent t' := by
  intro a o ho hd
  obtain ⟨hq, hqd⟩ := h.tomb a o ⟨ho, hd⟩
  rw [h.trie]; exact hc a o hq hqd

theorem Ext.jok {t t' : SDB} (h : Ext t t') (hj : JOK t) : JOK t' := by
  obtain ⟨es, hjj, _, hok⟩ := h.ex
  intro e he
  rw [hjj] at he
  rcases List.mem_append.mp he with h' | h'
  · exact hok e h'
  · exact hj e h'

theorem Ext.txinv {t t' : SDB} (h : Ext t t') (hi : TxInv t) : TxInv t' := ⟨h.coherent hi.coh, h.jok hi.jok⟩

theorem tomb_setJournal {s : SDB} {j : List Entry} {b : Addr} {q : Obj} : Tomb { s with journal := j } b q ↔ Tomb s b q := Iff.rfl

theorem tomb_undo {e : Entry} {s : SDB} {b : Addr} {q : Obj} (hok : EntryOK e) (h : Tomb (undo e s) b q) : Tomb s b q := by
  cases e with
  | createObject a =>
    obtain ⟨hq, hqd⟩ := h
    simp only [undo, upd] at hq
    by_cases hb : b = a
    · simp [hb] at hq
    · simp [hb] at hq; exact ⟨hq, hqd⟩
  | resetObject a prev => exact tomb_putObj (by simpa [EntryOK] using hok) h
  | suicide a prev pb =>
    simp only [undo] at h
    split at h
    · exact h
    · rename_i o ho; have hod : o.deleted = false := look_not_deleted ho; exact tomb_writeObj (o := { o with suicided := prev, balance := pb }) hod h
  | balance a prev =>
    simp only [undo] at h
    split at h
    · exact h
    · rename_i o ho; have hod : o.deleted = false := look_not_deleted ho; exact tomb_writeObj (o := { o with balance := prev }) hod h
  | nonce a prev =>
    simp only [undo] at h
    split at h
    · exact h
    · rename_i o ho; have hod : o.deleted = false := look_not_deleted ho; exact tomb_writeObj (o := { o with nonce := prev }) hod h
  | storage a k prev =>
    simp only [undo] at h
    split at h
    · exact h
    · rename_i o ho; have hod : o.deleted = false := look_not_deleted ho; exact tomb_writeObj (o := { o with dirtySt := upd o.dirtySt k (some prev) }) hod h
  | code a prev =>
    simp only [undo] at h
    split at h
    · exact h
    · rename_i o ho; have hod : o.deleted = false := look_not_deleted ho; exact tomb_writeObj (o := { o with code := prev }) hod h
  | refund prev => exact h
  | addLog th => exact h
  | addPreimage hh => exact h
  | touch a prev prevDirty =>
    simp only [undo] at h
    split at h
    · split at h
      · exact h
      · rename_i o ho
        have hod : o.deleted = false := look_not_deleted ho
        split at h
        · exact tomb_putObj (o := { o with touched := prev }) hod h
        · exact tomb_putObj (o := { o with touched := prev }) hod h
    · exact h

theorem tomb_undoN : ∀ (k : Nat) {s : SDB} {b : Addr} {q : Obj}, JOK s → Tomb (undoN k s) b q → Tomb s b q
  | 0, _, _, _, _, h => h
  | k + 1, s, b, q, hj, h => by
    cases hjj : s.journal with
    | nil => rwa [undoN_succ_nil k s hjj] at h
    | cons e js =>
      rw [undoN_succ_cons k s e js hjj] at h
      have hj' : JOK (undo e { s with journal := js }) := by
        intro e' he'; rw [undo_journal] at he'
        exact hj e' (by rw [hjj]; exact List.mem_cons_of_mem _ he')
      have := tomb_undoN k hj' h
      exact (tomb_undo (hj e (by rw [hjj]; exact List.mem_cons_self)) this : Tomb { s with journal := js } b q)

theorem txinv_undoN (k : Nat) {s : SDB} (hi : TxInv s) : TxInv (undoN k s) := by
  refine ⟨fun a o ho hd => ?_, fun e he => ?_⟩
  · obtain ⟨hq, hqd⟩ := tomb_undoN k hi.jok (q := o) ⟨ho, hd⟩
    rw [undoN_trie]; exact hi.coh a o hq hqd
  · rw [undoN_journal] at he
    exact hi.jok e (List.mem_of_mem_drop he)

theorem txinv_setRevs {s : SDB} (hi : TxInv s) (r : List (Nat × Nat)) (n : Nat) : TxInv { s with revs := r, nextId := n } :=
  ⟨hi.coh, hi.jok⟩

theorem revertTo_eq {id : Nat} {s t : SDB} (h : revertTo id s = some t) :
    ∃ r rest, s.revs.dropWhile (fun r => id < r.1) = r :: rest ∧ r.1 = id ∧
      t = { undoN (s.journal.length - r.2) s with revs := rest } := by
  unfold revertTo at h
  split at h
  · simp at h
  · rename_i r rest hdw
    split at h
    · rename_i hr
      simp only [Option.some.injEq] at h
      exact ⟨r, rest, hdw, hr, h.symm⟩
    · simp at h

theorem txinv_revertTo {id : Nat} {s t : SDB} (hi : TxInv s) (h : revertTo id s = some t) : TxInv t := by
  obtain ⟨r, rest, _, _, ht⟩ := revertTo_eq h
  subst ht
  have := txinv_undoN (s.journal.length - r.2) hi
  exact ⟨this.coh, this.jok⟩

@[simp] theorem push_revs (s : SDB) (e : Entry) : (push s e).revs = s.revs := rfl
@[simp] theorem push_nextId (s : SDB) (e : Entry) : (push s e).nextId = s.nextId := rfl

@[simp] theorem createObject_revs (s : SDB) (a : Addr) : (createObject s a).1.revs = s.revs := by simp [createObject]
@[simp] theorem createObject_nextId (s : SDB) (a : Addr) : (createObject s a).1.nextId = s.nextId := by simp [createObject]
@[simp] theorem getOrNew_revs (s : SDB) (a : Addr) : (getOrNew s a).1.revs = s.revs := by
  unfold getOrNew; split <;> simp
@[simp] theorem getOrNew_nextId (s : SDB) (a : Addr) : (getOrNew s a).1.nextId = s.nextId := by
  unfold getOrNew; split <;> simp

theorem applyMut_revs (m : Mut) (s : SDB) : (applyMut m s).revs = s.revs := by
  cases m <;> simp only [applyMut, createAccount, addBalance, subBalance, setBalance, setNonce, setCode, setState, suicide,
    addRefund, addLog, addPreimage, touch, setBalanceJ] <;> (repeat' split) <;> simp

theorem applyMut_nextId (m : Mut) (s : SDB) : (applyMut m s).nextId = s.nextId := by
  cases m <;> simp only [applyMut, createAccount, addBalance, subBalance, setBalance, setNonce, setCode, setState, suicide,
    addRefund, addLog, addPreimage, touch, setBalanceJ] <;> (repeat' split) <;> simp


/-! ### the invariant of the induction -/

/-- the revision ids still on the stack are older than the next one to be handed out. -/
def RevsOK (s : SDB) : Prop := ∀ r ∈ s.revs, r.1 < s.nextId

/-- the snapshot taken at `s0` (id `s0.nextId`, journal length of `s0`) is still live in `t`, and unwinding `t`'s journal
    down to it gives a state indistinguishable from `s0`. -/
structure Alive (s0 t : SDB) : Prop where
  ex : ∃ es, t.journal = es ++ s0.journal ∧ Sim (undoN es.length t) s0
  revs : ∃ newer, t.revs = newer ++ (s0.nextId, s0.journal.length) :: s0.revs ∧
    ∀ r ∈ newer, s0.nextId < r.1 ∧ s0.journal.length ≤ r.2
  nid : s0.nextId < t.nextId
  inv : TxInv t

/-- the snapshot id of `s0` is gone for good. -/
def Dead (s0 t : SDB) : Prop := (∀ r ∈ t.revs, r.1 ≠ s0.nextId) ∧ s0.nextId < t.nextId

theorem alive_init (s0 : SDB) (hi : TxInv s0) : Alive s0 (snapshot s0).1 := by
  refine ⟨⟨[], by simp [snapshot], ?_⟩, ⟨[], by simp [snapshot], by simp⟩, by simp [snapshot], ⟨hi.coh, hi.jok⟩⟩
  simp only [List.length_nil, undoN_zero]
  exact Sim.of_fields rfl rfl rfl rfl rfl rfl rfl rfl

theorem alive_ext {s0 t t' : SDB} (h : Alive s0 t) (g : Ext t t') : Alive s0 t' := by
  obtain ⟨es1, hj1, hs1⟩ := h.ex
  obtain ⟨es2, hj2, hs2, _⟩ := g.ex
  obtain ⟨newer, hr, hn⟩ := h.revs
  refine ⟨⟨es2 ++ es1, by simp [hj2, hj1], ?_⟩, ⟨newer, by rw [g.revs, hr], hn⟩, by rw [g.nextId]; exact h.nid, g.txinv h.inv⟩
  rw [List.length_append, undoN_add]
  have hj : (undoN es2.length t').journal = t.journal := by simp [undoN_journal, hj2]
  exact (Sim.undoN es1.length hs2 hj).trans hs1

theorem alive_snap {s0 t : SDB} (h : Alive s0 t) : Alive s0 (snapshot t).1 := by
  obtain ⟨es, hj, hs⟩ := h.ex
  obtain ⟨newer, hr, hn⟩ := h.revs
  refine ⟨⟨es, by simpa [snapshot] using hj, ?_⟩, ⟨(t.nextId, t.journal.length) :: newer, by simp [snapshot, hr], ?_⟩,
    by simp only [snapshot]; have := h.nid; omega, ⟨h.inv.coh, h.inv.jok⟩⟩
  · have h1 : Sim (snapshot t).1 t := Sim.of_fields rfl rfl rfl rfl rfl rfl rfl rfl
    exact (Sim.undoN es.length h1 rfl).trans hs
  · intro r hrm
    rcases List.mem_cons.mp hrm with h' | h'
    · subst h'; exact ⟨h.nid, by simp [hj]⟩
    · exact hn r h'

theorem dropWhile_split (p : Nat × Nat → Bool) (x : Nat × Nat) (rest0 : List (Nat × Nat)) :
    ∀ (newer : List (Nat × Nat)) (r : Nat × Nat) (rest : List (Nat × Nat)),
      (newer ++ x :: rest0).dropWhile p = r :: rest →
      (∃ n1 n2, newer = n1 ++ r :: n2 ∧ rest = n2 ++ x :: rest0) ∨ (r :: rest = (x :: rest0).dropWhile p)
  | [], r, rest, h => Or.inr (by simpa using h.symm)
  | y :: ys, r, rest, h => by
    simp only [List.cons_append, List.dropWhile_cons] at h
    split at h
    · rcases dropWhile_split p x rest0 ys r rest h with ⟨n1, n2, h1, h2⟩ | h'
      · exact Or.inl ⟨y :: n1, n2, by simp [h1], h2⟩
      · exact Or.inr h'
    · simp only [List.cons.injEq] at h
      exact Or.inl ⟨[], ys, by simp [h.1], h.2.symm⟩

theorem mem_of_mem_dropWhile {α : Type} (p : α → Bool) : ∀ (l : List α) (x : α), x ∈ l.dropWhile p → x ∈ l
  | [], _, h => by simp at h
  | y :: ys, x, h => by
    simp only [List.dropWhile_cons] at h
    split at h
    · exact List.mem_cons_of_mem _ (mem_of_mem_dropWhile p ys x h)
    · exact h

theorem alive_revert {s0 t t' : SDB} (h : Alive s0 t) (hro : RevsOK s0) {id' : Nat} (hrev : revertTo id' t = some t') :
    Alive s0 t' ∨ Dead s0 t' := by
  obtain ⟨r, rest, hdw, hrid, ht'⟩ := revertTo_eq hrev
  obtain ⟨es, hj, hs⟩ := h.ex
  obtain ⟨newer, hr, hn⟩ := h.revs
  rw [hr] at hdw
  rcases dropWhile_split _ _ _ newer r rest hdw with ⟨n1, n2, h1, h2⟩ | hright
  · -- the target snapshot is younger than ours
    left
    have hrn : r ∈ newer := by rw [h1]; simp
    have hlow := (hn r hrn).2
    have hk : t.journal.length - r.2 ≤ es.length := by rw [hj, List.length_append]; omega
    refine ⟨⟨es.drop (t.journal.length - r.2), ?_, ?_⟩, ⟨n2, by rw [ht']; exact h2, fun x hx => hn x (by rw [h1]; simp [hx])⟩,
      by rw [ht']; simpa using h.nid, txinv_revertTo h.inv hrev⟩
    · rw [ht']
      simp only [undoN_journal, hj]
      have hk' : (es ++ s0.journal).length - r.2 ≤ es.length := by rw [← hj]; exact hk
      rw [List.drop_append_of_le_length hk']
    · have hsim : Sim t' (undoN (t.journal.length - r.2) t) := by
        rw [ht']; exact Sim.of_fields rfl rfl rfl rfl rfl rfl rfl rfl
      have hjj : t'.journal = (undoN (t.journal.length - r.2) t).journal := by rw [ht']
      have := Sim.undoN (es.drop (t.journal.length - r.2)).length hsim hjj
      rw [← undoN_add] at this
      have hlen : t.journal.length - r.2 + (es.drop (t.journal.length - r.2)).length = es.length := by
        rw [List.length_drop]; omega
      rw [hlen] at this
      exact this.trans hs
  · -- our snapshot (or an older one) was the target: it is gone
    right
    refine ⟨fun x hx => ?_, by rw [ht']; simpa using h.nid⟩
    have hx' : x ∈ rest := by rw [ht'] at hx; exact hx
    have hxs : x ∈ s0.revs := by
      simp only [List.dropWhile_cons] at hright
      split at hright
      · have : x ∈ r :: rest := List.mem_cons_of_mem _ hx'
        rw [hright] at this
        exact mem_of_mem_dropWhile _ _ _ this
      · simp only [List.cons.injEq] at hright
        rw [hright.2] at hx'; exact hx'
    exact Nat.ne_of_lt (hro x hxs)

theorem dead_step {s0 t t' : SDB} (h : Dead s0 t) (op : TxOp) (hst : stepTx op t = some t') : Dead s0 t' := by
  cases op with
  | mutate m =>
    simp only [stepTx, Option.some.injEq] at hst; subst hst
    exact ⟨by rw [applyMut_revs]; exact h.1, by rw [applyMut_nextId]; exact h.2⟩
  | snap =>
    simp only [stepTx, Option.some.injEq] at hst; subst hst
    refine ⟨fun r hr => ?_, by simp only [snapshot]; have := h.2; omega⟩
    simp only [snapshot] at hr
    rcases List.mem_cons.mp hr with h' | h'
    · subst h'; exact Nat.ne_of_gt h.2
    · exact h.1 r h'
  | revert id =>
    simp only [stepTx] at hst
    obtain ⟨r, rest, hdw, _, ht'⟩ := revertTo_eq hst
    refine ⟨fun x hx => ?_, by rw [ht']; simpa using h.2⟩
    have hx' : x ∈ rest := by rw [ht'] at hx; exact hx
    have : x ∈ r :: rest := List.mem_cons_of_mem _ hx'
    rw [← hdw] at this
    exact h.1 x (mem_of_mem_dropWhile _ _ _ this)

theorem alive_or_dead_run {s0 : SDB} (hro : RevsOK s0) :
    ∀ (ops : List TxOp) (t t' : SDB), (Alive s0 t ∨ Dead s0 t) → runTx ops t = some t' → (Alive s0 t' ∨ Dead s0 t')
  | [], t, t', h, hr => by simp only [runTx, Option.some.injEq] at hr; subst hr; exact h
  | op :: ops, t, t', h, hr => by
    simp only [runTx] at hr
    cases hst : stepTx op t with
    | none => simp [hst] at hr
    | some t1 =>
      simp only [hst] at hr
      refine alive_or_dead_run hro ops t1 t' ?_ hr
      rcases h with ha | hd
      · cases op with
        | mutate m =>
          simp only [stepTx, Option.some.injEq] at hst; subst hst
          exact Or.inl (alive_ext ha (ext_applyMut m t ha.inv.coh))
        | snap =>
          simp only [stepTx, Option.some.injEq] at hst; subst hst
          exact Or.inl (alive_snap ha)
        | revert id => exact alive_revert ha hro hst
      · exact Or.inr (dead_step hd op hst)

/-- RevertToSnapshot is exact: after any transaction-level history following `Snapshot`, a successful revert to that
    snapshot yields a state no getter can tell from the one the snapshot was taken in; journal and revision stack are
    restored exactly. -/
theorem revert_restores {s0 s2 r : SDB} (hi : TxInv s0) (hro : RevsOK s0) (ops : List TxOp)
    (hrun : runTx ops (snapshot s0).1 = some s2) (hrev : revertTo (snapshot s0).2 s2 = some r) :
    Sim r s0 ∧ r.journal = s0.journal ∧ r.revs = s0.revs := by
  have hid : (snapshot s0).2 = s0.nextId := rfl
  rw [hid] at hrev
  obtain ⟨x, rest, hdw, hxid, hr⟩ := revertTo_eq hrev
  rcases alive_or_dead_run hro ops _ _ (Or.inl (alive_init s0 hi)) hrun with ha | hd
  · obtain ⟨es, hj, hs⟩ := ha.ex
    obtain ⟨newer, hrv, hn⟩ := ha.revs
    rw [hrv] at hdw
    have hall : ∀ (l : List (Nat × Nat)), (∀ y ∈ l, s0.nextId < y.1) →
        (l ++ (s0.nextId, s0.journal.length) :: s0.revs).dropWhile (fun y => decide (s0.nextId < y.1)) =
          (s0.nextId, s0.journal.length) :: s0.revs := by
      intro l
      induction l with
      | nil => intro _; simp
      | cons y ys ih =>
        intro hy
        simp only [List.cons_append, List.dropWhile_cons, hy y List.mem_cons_self, decide_true, if_true]
        exact ih (fun z hz => hy z (List.mem_cons_of_mem _ hz))
    rw [hall newer (fun y hy => (hn y hy).1)] at hdw
    simp only [List.cons.injEq] at hdw
    obtain ⟨hx, hrest⟩ := hdw
    subst hx; subst hrest
    have hk : s2.journal.length - s0.journal.length = es.length := by rw [hj, List.length_append]; omega
    simp only at hr
    rw [hk] at hr
    refine ⟨?_, ?_, by rw [hr]⟩
    · have : Sim r (undoN es.length s2) := by rw [hr]; exact Sim.of_fields rfl rfl rfl rfl rfl rfl rfl rfl
      exact this.trans hs
    · rw [hr]; simp [undoN_journal, hj]
  · exfalso
    have hxm : x ∈ s2.revs := mem_of_mem_dropWhile _ _ _ (by rw [hdw]; exact List.mem_cons_self)
    exact hd.1 x hxm hxid

end Aqv.State

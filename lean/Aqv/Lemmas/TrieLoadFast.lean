/-
  Aqv.Lemmas.TrieLoadFast — the driver's executable shortcuts equal the specification-level functions of Model.TrieLoad.
-/
import Aqv.Model.TrieLoadFast
namespace Aqv.Trie
open Aqv Aqv.Rlp

theorem storePass_spec (H : Bytes → Bytes) (x : PNode) :
    (storePass H x).1 = refX H x ∧ (storePass H x).2 = storeList H x := by
  induction x with
  | nil => exact ⟨rfl, rfl⟩
  | value v => exact ⟨rfl, rfl⟩
  | hash h => exact ⟨rfl, rfl⟩
  | short k c ih =>
    simp only [storePass, refX, storeList, bodyX, wrap, ih.1, ih.2]
    by_cases h : 32 ≤ (enc (Item.list [Item.str (hexToCompact k), refX H c])).length
    · simp [h, Nat.not_lt.2 h]
    · simp [h, Nat.lt_of_not_le h]
  | full cs ih =>
    have h1 : (List.finRange 17).map (fun i => (storePass H (cs i)).1) = (List.finRange 17).map fun i => refX H (cs i) :=
      List.map_congr_left fun i _ => (ih i).1
    have h2 : (List.finRange 17).flatMap (fun i => (storePass H (cs i)).2) =
        (List.finRange 17).flatMap fun i => storeList H (cs i) :=
      by
        have : (fun i => (storePass H (cs i)).2) = fun i => storeList H (cs i) := funext fun i => (ih i).2
        rw [this]
    simp only [storePass, refX, storeList, bodyX, wrap, List.map_map, Function.comp_def, List.flatMap_map, h1, h2]
    by_cases h : 32 ≤ (enc (Item.list ((List.finRange 17).map fun i => refX H (cs i)))).length
    · simp [h, Nat.not_lt.2 h]
    · simp [h, Nat.lt_of_not_le h]

theorem dbFun_insertIfNew (m : DbMap) (kv : Bytes × Bytes) :
    dbFun (m.insertIfNew kv.1 kv.2) = dbInsert (dbFun m) kv := by
  funext h
  simp only [dbFun, dbInsert, Std.HashMap.getElem?_insertIfNew, beq_iff_eq]
  cases hm : m[h]? with
  | some b =>
    simp only
    rw [if_neg]
    intro ⟨e, hn⟩
    subst e
    exact hn (Std.HashMap.mem_iff_isSome_getElem?.2 (by rw [hm]; rfl))
  | none =>
    simp only
    by_cases e : kv.1 = h
    · subst e
      have : ¬ kv.1 ∈ m := by
        intro hin
        have := Std.HashMap.mem_iff_isSome_getElem?.1 hin
        rw [hm] at this; cases this
      simp [this]
    · have : ¬ h = kv.1 := fun e' => e e'.symm
      simp [e, this]

theorem foldl_insertIfNew (L : List (Bytes × Bytes)) : ∀ (m : DbMap),
    dbFun (L.foldl (fun m kv => m.insertIfNew kv.1 kv.2) m) = L.foldl dbInsert (dbFun m) := by
  induction L with
  | nil => intro m; rfl
  | cons kv L ih => intro m; simp only [List.foldl_cons, ih, dbFun_insertIfNew]

/-- the driver's one-pass hash-map commit is `commitDb`. -/
theorem commitMap_spec (H : Bytes → Bytes) (m : DbMap) (x : PNode) :
    dbFun (commitMap H m x) = commitDb H (dbFun m) x := by
  cases x with
  | nil => rfl
  | value _ => rfl
  | hash _ => rfl
  | short k c =>
    simp only [commitMap, commitDb, foldl_insertIfNew, (storePass_spec H (.short k c)).2]
    rw [← dbFun_insertIfNew m (H (enc (bodyX H (.short k c))), enc (bodyX H (.short k c)))]
  | full cs =>
    simp only [commitMap, commitDb, foldl_insertIfNew, (storePass_spec H (.full cs)).2]
    rw [← dbFun_insertIfNew m (H (enc (bodyX H (.full cs))), enc (bodyX H (.full cs)))]

theorem finRange17_getD {β : Type} (g : Nib → β) (d : β) (i : Nib) :
    (((List.finRange 17).map g).toArray.getD i.val d) = g i := by
  have hlt : i.val < ((List.finRange 17).map g).toArray.size := by simp
  rw [Array.getD, dif_pos hlt]
  simp [List.getElem_finRange]

/-- the materialising loader is `loadP`. -/
theorem loadFast_spec (db : Bytes → Option Bytes) : ∀ (f : Nat) (x : PNode), loadFast db f x = loadP db f x := by
  intro f
  induction f with
  | zero => intro x; rfl
  | succ f ih =>
    intro x
    cases x with
    | nil => rfl
    | value v => rfl
    | hash h =>
      simp only [loadFast, loadP]
      cases db h with
      | none => rfl
      | some blob =>
        simp only
        cases decodeNode (blob.length + 1) blob with
        | ok pn => exact ih pn
        | error _ => rfl
    | short k c => simp only [loadFast, loadP, ih]
    | full cs =>
      simp only [loadFast, loadP]
      have hall : (((List.finRange 17).map fun i => loadFast db f (cs i)).toArray.all (·.isSome)) =
          (List.finRange 17).all (fun i => (loadP db f (cs i)).isSome) := by
        simp [List.all_map, Function.comp_def, ih]
      rw [hall]
      split
      · congr 2
        funext i
        rw [finRange17_getD (fun i => loadFast db f (cs i)) none i, ih]
      · rfl

end Aqv.Trie

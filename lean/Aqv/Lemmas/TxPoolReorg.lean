/-
  Aqv.Lemmas.TxPoolReorg — towards the reorg clause: a pooled transaction that is valid against the current head and whose
  sender is local (exempt from every limit) stays pooled through promotion, demotion and all evictions; a valid
  transaction whose slot is free is accepted by `add`.
-/
import Aqv.Lemmas.TxPoolReplace
namespace Aqv.TxPool

/-- nonce not below the chain nonce and payable: what Forward and Filter let through -/
def ValidIn (s : Pool) (u : Tx) : Prop := s.cnonce u.sender ≤ u.nonce ∧ Payable (s.balance u.sender) s.maxGas u

theorem ValidIn.env {s s' : Pool} {u : Tx} (he : SameEnv s s') (h : ValidIn s u) : ValidIn s' u := by
  unfold ValidIn at h ⊢; rw [he.cnonce, he.balance, he.maxGas]; exact h

/-! ### promoteAcct -/

theorem paS5_queue_local (s : Pool) (a : Addr) (hl : a ∈ s.locals) : ((paS5 s a).queue a).items = (paReady s a).2 := by
  have hloc : (paS4 s a).locals = s.locals := (paS4_touch s a).locals
  unfold paS5; simp only
  have : (!(paS4 s a).isLocal a) = false := by
    unfold Pool.isLocal; rw [hloc]; simpa using hl
  rw [this]
  simp only [Bool.false_eq_true, if_false, paS4_queue]

theorem promoteAcct_keeps {s : Pool} (a : Addr) {u : Tx} (hw : WeakAll s) (hp : s.pooled u) (hv : ValidIn s u)
    (hl : u.sender ∈ s.locals) : (s.promoteAcct a).pooled u := by
  by_cases hs : u.sender = a
  · subst hs
    have hwa := hw.1 u.sender
    have hq := paq s u.sender hwa
    have hP := (paS4_weak u.sender hw).2
    have hfs := TxL.filter_spec (paQ1 s u.sender) (s.balance u.sender) s.maxGas
    rw [pooled_iff, promoteAcct_pending, promoteAcct_queue_items, paS5_queue_local s u.sender hl]
    rcases hp with h | h
    · exact Or.inl ((hP u).mpr (Or.inr h))
    · have h1 : u ∈ (paQ1 s u.sender).items := List.mem_filter.mpr ⟨h, by simp [Nat.not_lt]; exact hv.1⟩
      rcases hfs.cover u h1 with h2 | h2 | h2
      · have h2' : u ∈ (paQ2 s u.sender).items := h2
        rw [← hq.rapp] at h2'
        rcases List.mem_append.mp h2' with h3 | h3
        · exact Or.inl ((hP u).mpr (Or.inl h3))
        · exact Or.inr h3
      · have := hfs.rem_unpay u h2
        rw [unpayable_false.mpr hv.2] at this; cases this
      · rw [hfs.nonstrict hwa.qstrict] at h2; cases h2
  · exact (pooled_of_touch (promoteAcct_touch s a) hs).mpr hp

/-! ### demoteAcct: exact content of the lists afterwards -/

structure DemoteExact (g : Bool) (s : Pool) (a : Addr) : Prop where
  pitems : ((s.demoteAcct g a).pending a).items = (dG s a).2.2.items.take (dKeep g s a)
  qmem   : ∀ x, x ∈ ((s.demoteAcct g a).queue a).items ↔
             x ∈ (dG s a).2.2.items.drop (dKeep g s a) ∨ x ∈ (dG s a).2.1 ∨ x ∈ (s.queue a).items

theorem demote_exact (g : Bool) {s : Pool} (a : Addr) (hw : WeakAll s) : DemoteExact g s a := by
  have hwa := hw.1 a
  have hd := dfacts s a hwa
  have hdf := demoteAcct_facts g a hw
  obtain ⟨hw4, _, hp4, _⟩ := dS4_facts a hw
  have hfs := TxL.filter_spec (dP1 s a) (s.balance a) s.maxGas
  have hp1s : Sorted (dP1 s a).items := hwa.psorted.filter _
  have hown1 : ∀ u ∈ (dG s a).2.1, u.sender = a := fun u hu => hwa.powner u (hd.invsub u hu)
  have hx1 := enqueueAll_exact (s := dS3 s a) (a := a) (us := (dG s a).2.1) hwa.qsorted (hfs.inv_sorted hp1s) hown1
    (fun u hu q hq => fun e => hwa.disj u (hd.invsub u hu) q hq e.symm)
  have hq3 : (dS3 s a).queue a = s.queue a := rfl
  rw [hq3] at hx1
  have hw4a := hw4.1 a
  have hown2 : ∀ u ∈ ((dS4 s a).pending a).items.drop (dKeep g s a), u.sender = a :=
    fun u hu => hw4a.powner u (List.mem_of_mem_drop hu)
  have hq5 : (dS5 g s a).queue a = (dS4 s a).queue a := rfl
  have hx2 := enqueueAll_exact (s := dS5 g s a) (a := a) (us := ((dS4 s a).pending a).items.drop (dKeep g s a))
    (by rw [hq5]; exact hw4a.qsorted) (hw4a.psorted.drop _) hown2
    (fun u hu q hq => by
      rw [hq5] at hq
      exact fun e => hw4a.disj u (List.mem_of_mem_drop hu) q hq e.symm)
  rw [hq5] at hx2
  have hfinq : (s.demoteAcct g a).queue = (dS6 g s a).queue := rfl
  refine ⟨hdf.items, fun x => ?_⟩
  rw [hfinq]
  show x ∈ ((enqueueAll (dS5 g s a) _).queue a).items ↔ _
  rw [hx2.1 x]
  show _ ∨ x ∈ ((enqueueAll (dS3 s a) _).queue a).items ↔ _
  rw [hx1.1 x, hp4]

theorem demoteAcct_keeps (g : Bool) {s : Pool} (a : Addr) {u : Tx} (hw : WeakAll s) (hp : s.pooled u) (hv : ValidIn s u) :
    (s.demoteAcct g a).pooled u := by
  by_cases hs : u.sender = a
  · subst hs
    have hwa := hw.1 u.sender
    have hx := demote_exact g u.sender hw
    have hfs := TxL.filter_spec (dP1 s u.sender) (s.balance u.sender) s.maxGas
    rw [pooled_iff, hx.pitems, hx.qmem u]
    rcases hp with h | h
    · have h1 : u ∈ (dP1 s u.sender).items := List.mem_filter.mpr ⟨h, by simp [Nat.not_lt]; exact hv.1⟩
      rcases hfs.cover u h1 with h2 | h2 | h2
      · have h2' : u ∈ (dG s u.sender).2.2.items := h2
        rw [← List.take_append_drop (dKeep g s u.sender) (dG s u.sender).2.2.items] at h2'
        rcases List.mem_append.mp h2' with h3 | h3
        · exact Or.inl h3
        · exact Or.inr (Or.inl h3)
      · have := hfs.rem_unpay u h2
        rw [unpayable_false.mpr hv.2] at this; cases this
      · exact Or.inr (Or.inr (Or.inl h2))
    · exact Or.inr (Or.inr (Or.inr h))
  · exact (pooled_of_touch (demoteAcct_facts g a hw).touch hs).mpr hp

/-! ### evictions never touch a local sender -/

/-- what is carried through the tail of a reset for one transaction of a local sender -/
structure Kept (B : Pool) (L : List Addr) (u : Tx) (s : Pool) : Prop where
  weak   : WeakAll s
  locals : s.locals = L
  pooled : s.pooled u
  env    : SameEnv B s

theorem removeTx_kept {B : Pool} {L : List Addr} {u : Tx} {s : Pool} (v : Tx) (h : Kept B L u s) (hl : u.sender ∈ L) (hv : v.sender ∉ L) :
    Kept B L u (s.removeTx v) := by
  obtain ⟨ht, hw', _⟩ := removeTx_spec s v h.weak
  have hne : u.sender ≠ v.sender := fun e => hv (e ▸ hl)
  exact ⟨hw', ht.locals.trans h.locals, (pooled_of_touch ht hne).mpr h.pooled, h.env.trans ht.env⟩

theorem capOne_kept {B : Pool} {L : List Addr} {u : Tx} {s : Pool} (a : Addr) (h : Kept B L u s) (hl : u.sender ∈ L) (ha : a ∉ L) :
    Kept B L u (s.capOne a) := by
  have hf := capOne_facts s a
  have hne : u.sender ≠ a := fun e => ha (e ▸ hl)
  exact ⟨capOne_weak a h.weak, hf.touch.locals.trans h.locals, (pooled_of_touch hf.touch hne).mpr h.pooled, h.env.trans hf.touch.env⟩

theorem offender_nonlocal {s : Pool} {a : Addr} (h : s.offender a = true) : a ∉ s.locals := by
  unfold Pool.offender Pool.isLocal at h
  simp only [Bool.and_eq_true, Bool.not_eq_true', decide_eq_false_iff_not] at h
  exact h.1

theorem slotEvict_kept {B : Pool} {L : List Addr} {u : Tx} (hl : u.sender ∈ L) (s : Pool) (sched : List Addr) (h : Kept B L u s) :
    Kept B L u (s.slotEvict sched) := by
  have hfin : ∀ (fuel : Nat) (s : Pool), Kept B L u s → Kept B L u (Pool.slotFinish fuel s) := by
    intro fuel
    induction fuel with
    | zero => intro s h; exact h
    | succ n ih =>
      intro s h
      unfold Pool.slotFinish
      split
      · exact h
      · split
        · exact h
        · rename_i a hfind
          have hoff : s.offender a = true := List.find?_some hfind
          exact ih _ (capOne_kept a h hl (by rw [← h.locals]; exact offender_nonlocal hoff))
  unfold Pool.slotEvict
  split
  · exact h
  · apply hfin
    have : ∀ (l : List Addr) (s : Pool), Kept B L u s →
        Kept B L u (l.foldl (fun s a => if s.offender a = true then s.capOne a else s) s) := by
      intro l
      induction l with
      | nil => intro s h; exact h
      | cons a rest ih =>
        intro s h
        simp only [List.foldl_cons]
        by_cases ho : s.offender a = true
        · rw [if_pos ho]; exact ih _ (capOne_kept a h hl (by rw [← h.locals]; exact offender_nonlocal ho))
        · rw [if_neg ho]; exact ih _ h
    exact this sched s h

theorem dropQueued_kept {B : Pool} {L : List Addr} {u : Tx} (hl : u.sender ∈ L) : ∀ (ts : List Tx) (s : Pool) (a : Addr), Kept B L u s →
    (∀ v ∈ ts, v.sender ∉ L) → Kept B L u (s.dropQueued a ts) := by
  intro ts
  induction ts with
  | nil => intro s a h _; exact h
  | cons x xs ih =>
    intro s a h hv
    exact ih _ a (removeTx_kept x h hl (hv x List.mem_cons_self)) (fun v hv' => hv v (List.mem_cons_of_mem _ hv'))

theorem queueDrop_kept {B : Pool} {L : List Addr} {u : Tx} (hl : u.sender ∈ L) : ∀ (as : List Addr) (d : Nat) (s : Pool), Kept B L u s →
    (∀ a ∈ as, a ∉ L) → Kept B L u (Pool.queueDrop d as s) := by
  intro as
  induction as with
  | nil => intro d s h _; unfold Pool.queueDrop; exact h
  | cons a rest ih =>
    intro d s h hnl
    cases d with
    | zero => unfold Pool.queueDrop; exact h
    | succ d =>
      unfold Pool.queueDrop
      simp only
      have hown : ∀ v ∈ (s.queue a).items, v.sender ∉ L := fun v hv => by
        rw [(h.weak.1 a).qowner v hv]; exact hnl a List.mem_cons_self
      split
      · exact ih _ _ (dropQueued_kept hl _ _ _ h hown) (fun b hb => hnl b (List.mem_cons_of_mem _ hb))
      · exact dropQueued_kept hl _ _ _ h (fun v hv => hown v (List.mem_of_mem_drop (List.mem_reverse.mp hv)))

theorem queueEvict_kept {B : Pool} {L : List Addr} {u : Tx} (hl : u.sender ∈ L) (s : Pool) (order : List Addr) (h : Kept B L u s) :
    Kept B L u (s.queueEvict order) := by
  unfold Pool.queueEvict
  split
  · exact h
  · apply queueDrop_kept hl _ _ _ h
    intro a ha
    have hnl : (!s.isLocal a) = true := by
      rcases List.mem_append.mp ha with h1 | h1
      · exact (List.mem_filter.mp h1).2
      · exact (List.mem_filter.mp h1).2
    unfold Pool.isLocal at hnl
    rw [h.locals] at hnl
    simpa using hnl

/-! ### the tail of a reset keeps a valid transaction of a local sender -/

theorem promoteAcct_kept {B : Pool} {L : List Addr} {u : Tx} {s : Pool} (a : Addr) (h : Kept B L u s) (hl : u.sender ∈ L)
    (hv : ValidIn B u) : Kept B L u (s.promoteAcct a) :=
  have ht := promoteAcct_touch s a
  ⟨promoteAcct_weak a h.weak, ht.locals.trans h.locals,
   promoteAcct_keeps a h.weak h.pooled (hv.env h.env) (by rw [h.locals]; exact hl), h.env.trans ht.env⟩

theorem demoteAcct_kept (g : Bool) {B : Pool} {L : List Addr} {u : Tx} {s : Pool} (a : Addr) (h : Kept B L u s)
    (hv : ValidIn B u) : Kept B L u (s.demoteAcct g a) :=
  have hf := demoteAcct_facts g a h.weak
  ⟨hf.weak, hf.touch.locals.trans h.locals, demoteAcct_keeps g a h.weak h.pooled (hv.env h.env), h.env.trans hf.touch.env⟩

theorem foldl_kept {α : Type} {B : Pool} {L : List Addr} {u : Tx} (f : Pool → α → Pool)
    (hf : ∀ s x, Kept B L u s → Kept B L u (f s x)) : ∀ (l : List α) (s : Pool), Kept B L u s → Kept B L u (l.foldl f s) :=
  foldl_pres (Kept B L u) f hf

theorem promoteExecutables_kept {B : Pool} {L : List Addr} {u : Tx} (hl : u.sender ∈ L) (hv : ValidIn B u) (s : Pool)
    (accounts : Option (List Addr)) (slots qorder : List Addr) (h : Kept B L u s) :
    Kept B L u (s.promoteExecutables accounts slots qorder) := by
  unfold Pool.promoteExecutables
  simp only
  apply queueEvict_kept hl
  apply slotEvict_kept hl
  exact foldl_kept _ (fun s a hs => promoteAcct_kept a hs hl hv) _ s h

theorem demoteUnexecutables_kept (g : Bool) {B : Pool} {L : List Addr} {u : Tx} (hv : ValidIn B u) (s : Pool)
    (h : Kept B L u s) : Kept B L u (s.demoteUnexecutables g) := by
  unfold Pool.demoteUnexecutables
  exact foldl_kept _ (fun s a hs => demoteAcct_kept g a hs hv) _ s h

theorem syncNonces_kept {B : Pool} {L : List Addr} {u : Tx} (s : Pool) (h : Kept B L u s) : Kept B L u s.syncNonces := by
  obtain ⟨e1, e2, e3⟩ := syncNonces_all s
  obtain ⟨_, _, e4, e5, _⟩ := syncNonces_spec s.accts s
  have hloc : s.syncNonces.locals = s.locals := by
    rw [syncNonces_eq]
    have : ∀ (l : List Addr) (s : Pool), (l.foldl syncStep s).locals = s.locals := by
      intro l
      induction l with
      | nil => intro s; rfl
      | cons a rest ih => intro s; simp only [List.foldl_cons]; rw [ih]; unfold syncStep; split <;> rfl
    exact this _ _
  refine ⟨h.weak.congr e2 e3 (by rw [syncNonces_eq]; exact e4), hloc.trans h.locals, ?_, h.env.trans (by rw [syncNonces_eq]; exact e5)⟩
  rw [pooled_iff, e2, e3]; exact h.pooled

/-! ### the insertion core of `add` -/

theorem add_eq_core (s : Pool) (t : Tx) (loc : Bool) (sh : Shape) (victims : List Tx) :
    s.add t loc sh victims =
      if sh = .wellformed ∧ t ∈ s.all then (.known, false, s)
      else
        let e := s.validateTx t loc sh
        if e ≠ .ok then (e, false, s)
        else
          let cap := s.cfg.globalSlots + s.cfg.globalQueue
          let full := decide (cap ≤ s.all.length)
          if full && s.underpriced t then (.underpriced, false, s)
          else
            (if full then (s.sanitizeVictims (s.all.length + 1 - cap) victims).foldl (fun s v => s.removeTx v) s else s).addCore t loc := rfl

/-- the queue of the sender after enqueueTx -/
theorem enqueueTx_queue (s : Pool) (t : Tx) :
    ((s.enqueueTx t).2.1 = true → (s.enqueueTx t).2.2.queue t.sender = ((s.queue t.sender).add t s.cfg.priceBump).2.2 ∧
        ((s.queue t.sender).add t s.cfg.priceBump).1 = true) ∧
    ((s.enqueueTx t).2.1 = false → (s.enqueueTx t).2.2 = s) := by
  unfold Pool.enqueueTx
  simp only
  split
  · simp
  · rename_i h
    refine ⟨fun _ => ⟨upd_same _ _ _, by simpa using h⟩, by simp⟩

/-- the insertion core keeps a pooled transaction at another slot, for loc = false -/
theorem addCore_kept {B : Pool} {L : List Addr} {u : Tx} {s : Pool} (x : Tx) (h : Kept B L u s)
    (hslot : x.sender = u.sender → x.nonce ≠ u.nonce) : Kept B L u (s.addCore x false).2.2 := by
  have hwa := h.weak.1 x.sender
  unfold Pool.addCore
  by_cases hov : (s.pending x.sender).overlaps x = true
  · rw [if_pos hov]
    simp only
    by_cases hins : (!((s.pending x.sender).add x s.cfg.priceBump).1) = true
    · rw [if_pos hins]; exact h
    · rw [if_neg hins]
      have hins' : ((s.pending x.sender).add x s.cfg.priceBump).1 = true := by simpa using hins
      have hr := replace_weak (insertAll x (match ((s.pending x.sender).add x s.cfg.priceBump).2.1 with
        | some o => delAll o s.all
        | none => s.all)) h.weak hov hins'
      have hspec := (TxL.add_spec (s.pending x.sender) x s.cfg.priceBump hwa.psorted).1 hins'
      refine ⟨hr.1, hr.2.locals.trans h.locals, ?_, h.env.trans hr.2.env⟩
      by_cases hs : u.sender = x.sender
      · have hp := h.pooled
        rw [pooled_iff, hs] at hp
        show u ∈ (upd s.pending x.sender _ u.sender).items ∨ u ∈ (s.queue u.sender).items
        rw [hs, upd_same]
        rcases hp with h1 | h1
        · exact Or.inl ((hspec.1 u).mpr (Or.inr ⟨h1, fun e => hslot hs.symm e.symm⟩))
        · exact Or.inr h1
      · exact (pooled_of_touch hr.2 hs).mpr h.pooled
  · rw [if_neg hov]
    simp only [Bool.false_and, Bool.false_eq_true, if_false]
    have hfree := overlaps_false (by simpa using hov : (s.pending x.sender).overlaps x = false)
    have hf := enqueueTx_facts s x
    have hq := enqueueTx_queue s x
    by_cases hins : (!(s.enqueueTx x).2.1) = true
    · rw [if_pos hins]; exact h
    · rw [if_neg hins]
      have hins' : (s.enqueueTx x).2.1 = true := by simpa using hins
      refine ⟨enqueueTx_weak h.weak hfree, hf.locals.trans h.locals, ?_, h.env.trans hf.env⟩
      rw [pooled_iff, hf.pending]
      by_cases hs : u.sender = x.sender
      · have hp := h.pooled
        rw [pooled_iff, hs] at hp
        rw [hs, (hq.1 hins').1]
        have hspec := (TxL.add_spec (s.queue x.sender) x s.cfg.priceBump hwa.qsorted).1 (hq.1 hins').2
        rcases hp with h1 | h1
        · exact Or.inl h1
        · exact Or.inr ((hspec.1 u).mpr (Or.inr ⟨h1, fun e => hslot hs.symm e.symm⟩))
      · rw [hf.qother _ hs]; exact h.pooled

/-- nothing but `x` is new after the insertion core -/
theorem addCore_sub {s : Pool} (x : Tx) (loc : Bool) (hw : WeakAll s) :
    ∀ w, (s.addCore x loc).2.2.pooled w → w = x ∨ s.pooled w := by
  have hwa := hw.1 x.sender
  intro w hwp
  unfold Pool.addCore at hwp
  by_cases hov : (s.pending x.sender).overlaps x = true
  · rw [if_pos hov] at hwp
    simp only at hwp
    by_cases hins : (!((s.pending x.sender).add x s.cfg.priceBump).1) = true
    · rw [if_pos hins] at hwp; exact Or.inr hwp
    · rw [if_neg hins] at hwp
      have hins' : ((s.pending x.sender).add x s.cfg.priceBump).1 = true := by simpa using hins
      have hspec := (TxL.add_spec (s.pending x.sender) x s.cfg.priceBump hwa.psorted).1 hins'
      have hwp' : w ∈ (upd s.pending x.sender ((s.pending x.sender).add x s.cfg.priceBump).2.2 w.sender).items ∨
          w ∈ (s.queue w.sender).items := hwp
      by_cases hs : w.sender = x.sender
      · rw [hs, upd_same] at hwp'
        rcases hwp' with h1 | h1
        · rcases (hspec.1 w).mp h1 with e | ⟨h2, _⟩
          · exact Or.inl e
          · right; rw [pooled_iff, hs]; exact Or.inl h2
        · right; rw [pooled_iff, hs]; exact Or.inr h1
      · rw [upd_other _ _ hs] at hwp'; exact Or.inr hwp'
  · rw [if_neg hov] at hwp
    have hf := enqueueTx_facts s x
    by_cases hins : (!(s.enqueueTx x).2.1) = true
    · rw [if_pos hins] at hwp; exact Or.inr hwp
    · rw [if_neg hins] at hwp
      have hwp2 : (s.enqueueTx x).2.2.pooled w := by
        simp only at hwp
        split at hwp
        · exact hwp
        · exact hwp
      rw [pooled_iff, hf.pending] at hwp2
      by_cases hs : w.sender = x.sender
      · rw [hs] at hwp2
        rcases hwp2 with h1 | h1
        · right; rw [pooled_iff, hs]; exact Or.inl h1
        · rcases hf.qsub w h1 with e | h2
          · exact Or.inl e
          · right; rw [pooled_iff, hs]; exact Or.inr h2
      · rw [hf.qother _ hs] at hwp2; exact Or.inr hwp2

/-- a transaction whose slot is free enters the queue -/
theorem addCore_enters {s : Pool} (t : Tx) (hw : WeakAll s)
    (hfree : ∀ p, s.pooled p → p.sender = t.sender → p.nonce ≠ t.nonce) :
    (s.addCore t false).1 = .ok ∧ (s.addCore t false).2.2.pooled t ∧ WeakAll (s.addCore t false).2.2 ∧
    (s.addCore t false).2.2.locals = s.locals ∧ SameEnv s (s.addCore t false).2.2 := by
  have hwa := hw.1 t.sender
  have hfp : ∀ p ∈ (s.pending t.sender).items, p.nonce ≠ t.nonce := fun p hp =>
    hfree p (by rw [pooled_iff, hwa.powner p hp]; exact Or.inl hp) (hwa.powner p hp)
  have hfq : ∀ p ∈ (s.queue t.sender).items, p.nonce ≠ t.nonce := fun p hp =>
    hfree p (by rw [pooled_iff, hwa.qowner p hp]; exact Or.inr hp) (hwa.qowner p hp)
  have hov : (s.pending t.sender).overlaps t = false := by
    unfold TxL.overlaps; rw [getN_none.mpr hfp]; rfl
  have hx := enqueueTx_free (s := s) (t := t) hwa.qsorted hfq
  have hf := enqueueTx_facts s t
  have hins : (s.enqueueTx t).2.1 = true := by
    unfold Pool.enqueueTx
    simp only [TxL.add, getN_none.mpr hfq, Bool.not_true, Bool.false_eq_true, if_false]
  unfold Pool.addCore
  rw [hov]
  simp only [Bool.false_eq_true, if_false, hins, Bool.not_true, Bool.false_and]
  refine ⟨trivial, ?_, enqueueTx_weak hw hfp, hf.locals, hf.env⟩
  rw [pooled_iff]; exact Or.inr ((hx.1 t).mpr (Or.inl rfl))

/-! ### `add` with the discard stage, for re-injection (loc = false) -/

theorem sanitize_nonlocal {s : Pool} {n : Nat} {vs : List Tx} : ∀ v ∈ s.sanitizeVictims n vs, v.sender ∉ s.locals := by
  intro v hv
  unfold Pool.sanitizeVictims at hv
  have h1 := List.mem_of_mem_take hv
  have h2 := (List.mem_filter.mp h1).2
  unfold Pool.isLocal at h2
  simp only [Bool.and_eq_true, decide_eq_true_eq, Bool.not_eq_true', decide_eq_false_iff_not] at h2
  exact h2.2

/-- the state `add` hands to its insertion core -/
def Pool.afterDiscard (s : Pool) (victims : List Tx) : Pool :=
  let cap := s.cfg.globalSlots + s.cfg.globalQueue
  if decide (cap ≤ s.all.length) then (s.sanitizeVictims (s.all.length + 1 - cap) victims).foldl (fun s v => s.removeTx v) s else s

/-- the outcomes of `add`: untouched state, or the insertion core on the state after the discards -/
theorem add_cases (s : Pool) (t : Tx) (loc : Bool) (sh : Shape) (victims : List Tx) :
    ((s.add t loc sh victims).2.2 = s ∧ (s.add t loc sh victims).1 ≠ .ok) ∨
    (s.add t loc sh victims = (s.afterDiscard victims).addCore t loc ∧ s.validateTx t loc sh = .ok ∧
      ¬ (sh = .wellformed ∧ t ∈ s.all)) := by
  rw [add_eq_core]
  unfold Pool.afterDiscard
  split
  · exact Or.inl ⟨rfl, by simp⟩
  · rename_i hk
    simp only
    split
    · rename_i he; exact Or.inl ⟨rfl, he⟩
    · rename_i he
      split
      · exact Or.inl ⟨rfl, by simp⟩
      · exact Or.inr ⟨rfl, by simpa using he, hk⟩

theorem afterDiscard_kept {B : Pool} {L : List Addr} {u : Tx} {s : Pool} (vs : List Tx) (h : Kept B L u s) (hl : u.sender ∈ L) :
    Kept B L u (s.afterDiscard vs) := by
  unfold Pool.afterDiscard
  simp only
  split
  · have hnl : ∀ v ∈ s.sanitizeVictims (s.all.length + 1 - (s.cfg.globalSlots + s.cfg.globalQueue)) vs, v.sender ∉ L := by
      rw [← h.locals]; exact sanitize_nonlocal
    generalize s.sanitizeVictims (s.all.length + 1 - (s.cfg.globalSlots + s.cfg.globalQueue)) vs = l at hnl
    have : ∀ (l : List Tx) (s : Pool), Kept B L u s → (∀ v ∈ l, v.sender ∉ L) → Kept B L u (l.foldl (fun s v => s.removeTx v) s) := by
      intro l
      induction l with
      | nil => intro s h _; exact h
      | cons x xs ih => intro s h hv; exact ih _ (removeTx_kept x h hl (hv x List.mem_cons_self)) (fun v hv' => hv v (List.mem_cons_of_mem _ hv'))
    exact this l s h hnl
  · exact h

/-- facts about the state after the discards that do not mention a particular transaction -/
theorem afterDiscard_facts {s : Pool} (vs : List Tx) (hw : WeakAll s) :
    WeakAll (s.afterDiscard vs) ∧ NoNew s (s.afterDiscard vs) ∧ (s.afterDiscard vs).locals = s.locals ∧
    SameEnv s (s.afterDiscard vs) ∧ (s.afterDiscard vs).gasPrice = s.gasPrice ∧
    (∀ a, a ∈ s.locals → (s.afterDiscard vs).pending a = s.pending a ∧ (s.afterDiscard vs).queue a = s.queue a) := by
  unfold Pool.afterDiscard
  simp only
  split
  · have hnl := @sanitize_nonlocal s (s.all.length + 1 - (s.cfg.globalSlots + s.cfg.globalQueue)) vs
    generalize s.sanitizeVictims (s.all.length + 1 - (s.cfg.globalSlots + s.cfg.globalQueue)) vs = l at hnl
    have : ∀ (l : List Tx) (m : Pool), WeakAll m → NoNew s m → m.locals = s.locals → SameEnv s m → m.gasPrice = s.gasPrice →
        (∀ a, a ∈ s.locals → m.pending a = s.pending a ∧ m.queue a = s.queue a) → (∀ v ∈ l, v.sender ∉ s.locals) →
        WeakAll (l.foldl (fun s v => s.removeTx v) m) ∧ NoNew s (l.foldl (fun s v => s.removeTx v) m) ∧
        (l.foldl (fun s v => s.removeTx v) m).locals = s.locals ∧ SameEnv s (l.foldl (fun s v => s.removeTx v) m) ∧
        (l.foldl (fun s v => s.removeTx v) m).gasPrice = s.gasPrice ∧
        (∀ a, a ∈ s.locals → (l.foldl (fun s v => s.removeTx v) m).pending a = s.pending a ∧
          (l.foldl (fun s v => s.removeTx v) m).queue a = s.queue a) := by
      intro l
      induction l with
      | nil => intro m h1 h2 h3 h4 h5 h6 _; exact ⟨h1, h2, h3, h4, h5, h6⟩
      | cons x xs ih =>
        intro m h1 h2 h3 h4 h5 h6 hv
        obtain ⟨ht, hw', _⟩ := removeTx_spec m x h1
        have hx := hv x List.mem_cons_self
        apply ih (m.removeTx x) hw' (fun w hwp => h2 w (removeTx_nonew x h1 w hwp)) (ht.locals.trans h3) (h4.trans ht.env)
          (ht.gasPrice.trans h5) _ (fun v hv' => hv v (List.mem_cons_of_mem _ hv'))
        intro a ha
        have hne : a ≠ x.sender := fun e => hx (e ▸ ha)
        rw [ht.pother a hne, ht.qother a hne]; exact h6 a ha
    exact this l s hw (fun _ h => h) rfl (SameEnv.refl s) rfl (fun _ _ => ⟨rfl, rfl⟩) hnl
  · exact ⟨hw, fun _ h => h, rfl, SameEnv.refl s, rfl, fun _ _ => ⟨rfl, rfl⟩⟩

theorem validate_congr {B m : Pool} (he : SameEnv B m) (hl : m.locals = B.locals) (hg : m.gasPrice = B.gasPrice)
    (t : Tx) (loc : Bool) (sh : Shape) : m.validateTx t loc sh = B.validateTx t loc sh := by
  unfold Pool.validateTx Pool.isLocal
  rw [he.maxGas, he.cnonce, he.balance, he.cfg, hl, hg]

/-- slots of a list of transactions are free in a pool -/
def Fresh (m : Pool) (l : List Tx) : Prop := ∀ x ∈ l, ∀ p, m.pooled p → p.sender = x.sender → p.nonce ≠ x.nonce

/-- two transactions occupy different (sender, nonce) slots -/
def SlotNe (x y : Tx) : Prop := x.sender = y.sender → x.nonce ≠ y.nonce

structure LoopInv (B : Pool) (m : Pool) : Prop where
  wa       : WA m
  locals   : m.locals = B.locals
  env      : SameEnv B m
  gasPrice : m.gasPrice = B.gasPrice

theorem add_loopInv {B m : Pool} (x : Tx) (sh : Shape) (vs : List Tx) (h : LoopInv B m) :
    LoopInv B (m.add x false sh vs).2.2 ∧ (∀ w, (m.add x false sh vs).2.2.pooled w → w = x ∨ m.pooled w) := by
  have hwa' := add_pres addClosed_wa m x false sh vs h.wa
  rcases add_cases m x false sh vs with ⟨e, _⟩ | ⟨e, _, _⟩
  · rw [e]; exact ⟨h, fun w hw => Or.inr hw⟩
  · obtain ⟨d1, d2, d3, d4, d5, _⟩ := afterDiscard_facts vs h.wa.1
    have hsub := addCore_sub (s := m.afterDiscard vs) x false d1
    rw [e] at hwa' ⊢
    refine ⟨⟨hwa', ?_, ?_, ?_⟩, fun w hw => ?_⟩
    · -- locals: loc = false never adds one
      have : ((m.afterDiscard vs).addCore x false).2.2.locals = (m.afterDiscard vs).locals := by
        unfold Pool.addCore
        split
        · simp only; split <;> rfl
        · simp only [Bool.false_and, Bool.false_eq_true, if_false]
          split
          · rfl
          · exact (enqueueTx_facts _ _).locals
      rw [this, d3]; exact h.locals
    · have : SameEnv (m.afterDiscard vs) ((m.afterDiscard vs).addCore x false).2.2 := by
        unfold Pool.addCore
        split
        · simp only; split
          · exact SameEnv.refl _
          · exact ⟨rfl, rfl, rfl, rfl⟩
        · simp only [Bool.false_and, Bool.false_eq_true, if_false]
          split
          · exact SameEnv.refl _
          · exact (enqueueTx_facts _ _).env
      exact (h.env.trans d4).trans this
    · have : ((m.afterDiscard vs).addCore x false).2.2.gasPrice = (m.afterDiscard vs).gasPrice := by
        unfold Pool.addCore
        split
        · simp only; split <;> rfl
        · simp only [Bool.false_and, Bool.false_eq_true, if_false]
          split
          · rfl
          · exact (enqueueTx_facts _ _).gasPrice
      rw [this, d5]; exact h.gasPrice
    · rcases hsub w hw with e' | hp
      · exact Or.inl e'
      · exact Or.inr (d2 w hp)

/-- `add` of a valid transaction of a local sender whose slot is free: it is pooled afterwards -/
theorem add_enters {B m : Pool} (t : Tx) (vs : List Tx) (h : LoopInv B m) (hl : t.sender ∈ B.locals)
    (hval : B.validateTx t false .wellformed = .ok)
    (hfree : ∀ p, m.pooled p → p.sender = t.sender → p.nonce ≠ t.nonce) :
    (m.add t false .wellformed vs).2.2.pooled t := by
  have hv : m.validateTx t false .wellformed = .ok := by rw [validate_congr h.env h.locals h.gasPrice]; exact hval
  have hnotin : t ∉ m.all := fun hc => hfree t ((h.wa.2 t).mp hc) rfl rfl
  have hloc : m.isLocal t.sender = true := by unfold Pool.isLocal; rw [h.locals]; simpa using hl
  obtain ⟨d1, d2, d3, _, _, d6⟩ := afterDiscard_facts vs h.wa.1
  have hfree' : ∀ p, (m.afterDiscard vs).pooled p → p.sender = t.sender → p.nonce ≠ t.nonce :=
    fun p hp => hfree p (d2 p hp)
  have he := addCore_enters (s := m.afterDiscard vs) t d1 hfree'
  rw [add_eq_core]
  rw [if_neg (fun hc => hnotin hc.2)]
  simp only [hv, ne_eq, not_true_eq_false, if_false]
  have hup : m.underpriced t = false := by unfold Pool.underpriced; rw [hloc]; rfl
  rw [hup]
  simp only [Bool.and_false, Bool.false_eq_true, if_false]
  exact he.2.1

/-- `add` of another transaction keeps a pooled transaction of a local sender at a different slot -/
theorem add_keeps {B m : Pool} {u : Tx} (x : Tx) (sh : Shape) (vs : List Tx) (h : LoopInv B m) (hl : u.sender ∈ B.locals)
    (hp : m.pooled u) (hslot : SlotNe x u) : (m.add x false sh vs).2.2.pooled u := by
  have hk : Kept B B.locals u m := ⟨h.wa.1, h.locals, hp, h.env⟩
  rcases add_cases m x false sh vs with ⟨e, _⟩ | ⟨e, _, _⟩
  · rw [e]; exact hp
  · rw [e]; exact (addCore_kept x (afterDiscard_kept vs hk hl) hslot).pooled

/-- the re-injection loop: a valid transaction of a local sender that is in the list (with a free slot, all slots of the
    list distinct and free) or already pooled at a slot the list does not touch is pooled afterwards -/
theorem addMany_reinject {B : Pool} {u : Tx} (hl : u.sender ∈ B.locals) (hval : B.validateTx u false .wellformed = .ok) :
    ∀ (l : List Tx) (vs : List (List Tx)) (m : Pool), LoopInv B m → Fresh m l → l.Pairwise SlotNe →
      (u ∈ l ∨ (m.pooled u ∧ ∀ x ∈ l, SlotNe x u)) →
      LoopInv B (m.addMany false l vs).2.2 ∧ (m.addMany false l vs).2.2.pooled u := by
  intro l
  induction l with
  | nil =>
    intro vs m h _ _ hu
    rcases hu with hu | hu
    · cases hu
    · exact ⟨h, hu.1⟩
  | cons x rest ih =>
    intro vs m h hfresh hpw hu
    have hpw' := List.pairwise_cons.mp hpw
    obtain ⟨hinv', hsub⟩ := add_loopInv x .wellformed (vs.headD []) h
    have hfresh' : Fresh (m.add x false .wellformed (vs.headD [])).2.2 rest := by
      intro y hy p hp hs
      rcases hsub p hp with e | hp'
      · subst e; exact hpw'.1 y hy hs
      · exact hfresh y (List.mem_cons_of_mem _ hy) p hp' hs
    have hstep : (m.addMany false (x :: rest) vs).2.2 =
        ((m.add x false .wellformed (vs.headD [])).2.2.addMany false rest vs.tail).2.2 := rfl
    rw [hstep]
    apply ih vs.tail _ hinv' hfresh' hpw'.2
    rcases hu with hu | ⟨hp, hne⟩
    · rcases List.mem_cons.mp hu with e | hu'
      · subst e
        right
        refine ⟨add_enters u (vs.headD []) h hl hval (hfresh u List.mem_cons_self), fun y hy => ?_⟩
        intro hs hn; exact hpw'.1 y hy hs.symm hn.symm
      · exact Or.inl hu'
    · right
      exact ⟨add_keeps x .wellformed (vs.headD []) h hl hp (hne x List.mem_cons_self),
             fun y hy => hne y (List.mem_cons_of_mem _ hy)⟩

/-- **reorg re-injection, local senders.** After `reset` across a reorganisation within the 64-block horizon, every
    transaction of `discarded \ included` that validates against the new head and whose sender is local is in
    pending ∪ queue — for both demotion variants and every eviction oracle — provided the dropped transactions occupy
    distinct slots that are free in the pool (on a real chain they lie below the old chain nonce, the pool above it). -/
theorem reset_reinjects_local (g : Bool) (s : Pool) (v : View) (oldNum newNum : Nat) (disc inc : List Tx) (o : ResetOracle)
    (h : Good s) (ha : AllOK s)
    (hdepth : (if oldNum ≤ newNum then newNum - oldNum else oldNum - newNum) ≤ 64)
    (t : Tx) (ht : t ∈ txDifference disc inc) (hl : t.sender ∈ s.locals)
    (hval : ({ s with cnonce := v.nonce, balance := v.balance, maxGas := v.maxGas, pnonce := v.nonce } : Pool).validateTx t false .wellformed = .ok)
    (hfresh : Fresh s (txDifference disc inc)) (hdistinct : (txDifference disc inc).Pairwise SlotNe) :
    (s.reset g v oldNum newNum true disc inc o).pooled t := by
  rw [reset_eq]
  unfold Pool.resetMid
  simp only [Bool.true_and, hdepth, decide_true, if_true]
  have hne : (txDifference disc inc).isEmpty = false := by
    cases hd : txDifference disc inc with
    | nil => rw [hd] at ht; cases ht
    | cons _ _ => rfl
  rw [hne]
  simp only [Bool.false_eq_true, if_false]
  -- the view switch
  have h0 : LoopInv ({ s with cnonce := v.nonce, balance := v.balance, maxGas := v.maxGas, pnonce := v.nonce } : Pool)
      ({ s with cnonce := v.nonce, balance := v.balance, maxGas := v.maxGas, pnonce := v.nonce } : Pool) :=
    ⟨⟨h.weakAll, ha⟩, rfl, SameEnv.refl _, rfl⟩
  have hfresh0 : Fresh ({ s with cnonce := v.nonce, balance := v.balance, maxGas := v.maxGas, pnonce := v.nonce } : Pool)
      (txDifference disc inc) := hfresh
  have hvalid : ValidIn ({ s with cnonce := v.nonce, balance := v.balance, maxGas := v.maxGas, pnonce := v.nonce } : Pool) t :=
    validate_ok hval
  have hlB : t.sender ∈ ({ s with cnonce := v.nonce, balance := v.balance, maxGas := v.maxGas, pnonce := v.nonce } : Pool).locals := hl
  generalize ({ s with cnonce := v.nonce, balance := v.balance, maxGas := v.maxGas, pnonce := v.nonce } : Pool) = B
    at h0 hfresh0 hval hvalid hlB ⊢
  obtain ⟨hinv1, hp1⟩ := addMany_reinject hlB hval (txDifference disc inc) o.victims B h0 hfresh0 hdistinct (Or.inl ht)
  have hk1 : Kept B B.locals t (B.addMany false (txDifference disc inc) o.victims).2.2 :=
    ⟨hinv1.wa.1, hinv1.locals, hp1, hinv1.env⟩
  have hk2 : Kept B B.locals t (B.addTxs (txDifference disc inc) false o.victims o.slots1 o.qorder1).2 := by
    unfold Pool.addTxs
    simp only
    generalize B.addMany false (txDifference disc inc) o.victims = r at hk1 ⊢
    split
    · exact hk1
    · exact promoteExecutables_kept hlB hvalid r.2.2 (some r.2.1.eraseDups) o.slots1 o.qorder1 hk1
  generalize (B.addTxs (txDifference disc inc) false o.victims o.slots1 o.qorder1).2 = m2 at hk2 ⊢
  have hk3 := demoteUnexecutables_kept g hvalid m2 hk2
  generalize m2.demoteUnexecutables g = m3 at hk3 ⊢
  have hk4 := syncNonces_kept m3 hk3
  generalize m3.syncNonces = m4 at hk4 ⊢
  exact (promoteExecutables_kept hlB hvalid m4 none o.slots2 o.qorder2 hk4).pooled

end Aqv.TxPool

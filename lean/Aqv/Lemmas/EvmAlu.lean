/-
  Aqv.Lemmas.EvmAlu — helper lemmas for property C08: the ALU dispatch of the two interpreters agrees (per-opcode theorems of
  Aqv.Lemmas.EvmOps lifted to `implAlu` / `specAlu`), and what `decode` says about the opcode byte.
-/
import Aqv.Lemmas.EvmPre
import Aqv.Lemmas.EvmOps
namespace Aqv.Evm
open Aqv Aqv.Big Aqv.Gen.VmTable

theorem toInt_w256 (v : Int) (h : InRange v) : ((w256 v).toNat : Int) = v := by
  unfold w256
  obtain ⟨n, hn, hlt, _⟩ := nat_of_inRange h
  subst hn
  simp only [Int.toNat_natCast, BitVec.toNat_ofNat, Nat.mod_eq_of_lt hlt]

theorem alu1_agree (opc : Nat) (a : W) :
    implAlu1 opc (a.toNat : Int) = (specAlu1 opc a).map fun v => Int.ofNat v.toNat := by
  unfold implAlu1 specAlu1
  repeat' split
  all_goals simp [opIszero_spec, opNot_spec]

theorem alu3_agree (opc : Nat) (a b c : W) :
    implAlu3 opc (a.toNat : Int) (b.toNat : Int) (c.toNat : Int) = (specAlu3 opc a b c).map fun v => Int.ofNat v.toNat := by
  unfold implAlu3 specAlu3
  repeat' split
  all_goals simp [opAddmod_spec, opMulmod_spec]

theorem alu2_agree (opc : Nat) (a b : W) (hsar : ¬ (opc = 0x1d ∧ a.toNat ≥ 256 ∧ b = 0)) :
    implAlu2 opc (a.toNat : Int) (b.toNat : Int) = (specAlu2 opc a b).map fun v => Int.ofNat v.toNat := by
  unfold implAlu2 specAlu2
  by_cases h0 : opc = 0x01
  · subst h0; simp [opAdd_spec]
  by_cases h1 : opc = 0x02
  · subst h1; simp [opMul_spec]
  by_cases h2 : opc = 0x03
  · subst h2; simp [opSub_spec]
  by_cases h3 : opc = 0x04
  · subst h3; simp [opDiv_spec]
  by_cases h4 : opc = 0x05
  · subst h4; simp [opSdiv_spec]
  by_cases h5 : opc = 0x06
  · subst h5; simp [opMod_spec]
  by_cases h6 : opc = 0x07
  · subst h6; simp [opSmod_spec]
  by_cases h7 : opc = 0x0a
  · subst h7; simp [opExp_spec]
  by_cases h8 : opc = 0x0b
  · subst h8; simp [opSignExtend_spec]
  by_cases h9 : opc = 0x10
  · subst h9; simp [opLt_spec]
  by_cases h10 : opc = 0x11
  · subst h10; simp [opGt_spec]
  by_cases h11 : opc = 0x12
  · subst h11; simp [opSlt_spec]
  by_cases h12 : opc = 0x13
  · subst h12; simp [opSgt_spec]
  by_cases h13 : opc = 0x14
  · subst h13; simp [opEq_spec]
  by_cases h14 : opc = 0x16
  · subst h14; simp [opAnd_spec]
  by_cases h15 : opc = 0x17
  · subst h15; simp [opOr_spec]
  by_cases h16 : opc = 0x18
  · subst h16; simp [opXor_spec]
  by_cases h17 : opc = 0x1a
  · subst h17; simp [opByte_spec]
  by_cases h18 : opc = 0x1b
  · subst h18; simp [opSHL_spec]
  by_cases h19 : opc = 0x1c
  · subst h19; simp [opSHR_spec]
  by_cases hs : opc = 0x1d
  · subst hs
    have := opSAR_spec_partial a b (fun hh => hsar ⟨rfl, hh⟩)
    simp [this]
  · simp [hs, h0, h1, h2, h3, h4, h5, h6, h7, h8, h9, h10, h11, h12, h13, h14, h15, h16, h17, h18, h19]

theorem alu_agree (opc : Nat) (args : List Int) (hr : ∀ v ∈ args, InRange v)
    (hsar : ¬ (opc = 0x1d ∧ ∃ x y, args = [x, y] ∧ x ≥ 256 ∧ y = 0)) : implAlu opc args = specAlu opc args := by
  unfold implAlu specAlu specAluW
  match args, hr, hsar with
  | [], _, _ => rfl
  | [x], hr, _ =>
    have hx := toInt_w256 x (hr x (by simp))
    simp only [List.map]
    rw [← alu1_agree, hx]
  | [x, y], hr, hsar =>
    have hx := toInt_w256 x (hr x (by simp))
    have hy := toInt_w256 y (hr y (by simp))
    simp only [List.map]
    rw [← alu2_agree, hx, hy]
    intro ⟨h1, h2, h3⟩
    apply hsar
    refine ⟨h1, x, y, rfl, ?_, ?_⟩
    · rw [← hx]; exact Int.ofNat_le.2 h2
    · rw [← hy, h3]; rfl
  | [x, y, z], hr, _ =>
    have hx := toInt_w256 x (hr x (by simp))
    have hy := toInt_w256 y (hr y (by simp))
    have hz := toInt_w256 z (hr z (by simp))
    simp only [List.map]
    rw [← alu3_agree, hx, hy, hz]
  | _ :: _ :: _ :: _ :: _, _, _ => rfl

/-- what an instruction class says about the opcode byte -/
def instrOk : Instr → Nat → Prop
  | .push n, opc => 0x60 ≤ opc ∧ opc ≤ 0x7f ∧ n = opc - 0x5f
  | .dup n, opc => 0x80 ≤ opc ∧ opc ≤ 0x8f ∧ n = opc - 0x7f
  | .swap k, opc => 0x90 ≤ opc ∧ opc ≤ 0x9f ∧ k = opc - 0x8f
  | .alu, opc => (0x01 ≤ opc ∧ opc ≤ 0x0b) ∨ (0x10 ≤ opc ∧ opc ≤ 0x1d)
  | .stop, opc => opc = 0x00 | .sha3, opc => opc = 0x20 | .address, opc => opc = 0x30 | .origin, opc => opc = 0x32
  | .caller, opc => opc = 0x33 | .callvalue, opc => opc = 0x34 | .calldataload, opc => opc = 0x35 | .calldatasize, opc => opc = 0x36
  | .calldatacopy, opc => opc = 0x37 | .codesize, opc => opc = 0x38 | .codecopy, opc => opc = 0x39 | .gasprice, opc => opc = 0x3a
  | .returndatasize, opc => opc = 0x3d | .returndatacopy, opc => opc = 0x3e | .coinbase, opc => opc = 0x41
  | .timestamp, opc => opc = 0x42 | .number, opc => opc = 0x43 | .difficulty, opc => opc = 0x44 | .gaslimit, opc => opc = 0x45
  | .pop, opc => opc = 0x50 | .mload, opc => opc = 0x51 | .mstore, opc => opc = 0x52 | .mstore8, opc => opc = 0x53
  | .jump, opc => opc = 0x56 | .jumpi, opc => opc = 0x57 | .pc, opc => opc = 0x58 | .msize, opc => opc = 0x59 | .gas, opc => opc = 0x5a
  | .jumpdest, opc => opc = 0x5b | .ret, opc => opc = 0xf3 ∨ opc = 0xfd | .other, _ => True

theorem decode_sound (opc : Nat) : instrOk (decode opc) opc := by
  unfold decode
  split
  · rename_i h; exact ⟨h.1, h.2, rfl⟩
  split
  · rename_i h; exact ⟨h.1, h.2, rfl⟩
  split
  · rename_i h; exact ⟨h.1, h.2, rfl⟩
  split
  · rename_i h; exact h
  split <;> simp [instrOk]
end Aqv.Evm

/-
  Aqv.Lemmas.ChainWriter — the invariant the writers of the chain database maintain at EVERY write boundary (C04).
-/
import Aqv.Model.ChainWriter
import Aqv.Lemmas.ChainDb
namespace Aqv.ChainDb

variable {V : Hash → Hdr → Prop}

/-! ### the invariant -/

/-- facts about the stored blocks themselves (independent of the head): `V` is any predicate the importer guarantees for
    the headers it hands to the writers (e.g. "this is block `h` of the universe"); a stored block's parent is stored; a
    stored block has a total-difficulty record -/
structure Ext (V : Hash → Hdr → Prop) (db : Db) : Prop where
  valid : ∀ h n hd, getHeader db h n = some hd → V h hd
  pclosed : ∀ h n hd, getBlock db h (n + 1) = some hd → ∃ hd', getBlock db hd.parent n = some hd'
  storedTd : ∀ h n hd, getBlock db h n = some hd → (get db (.td h)).isSome = true

/-- what every image between two writes of a (correct) writer satisfies; `g` is the in-memory head block -/
structure Inv (ar : Bool) (V : Hash → Hdr → Prop) (db : Db) (g : Hash) : Prop where
  ext : Ext V db
  head : headPtr db = some g
  chain : ∃ n, blockNumber db g = some n ∧ CanonAgrees db g n
  closed : Closed db
  gstate : ∃ g0 hd0, canonHash db 0 = some g0 ∧ getBlock db g0 0 = some hd0 ∧ hasState db hd0.root = true
  arch : ar = true → ∀ h n hd, getBlock db h n = some hd → hasState db hd.root = true
  hnum : ∀ h n hd, getHeader db h n = some hd → blockNumber db h = some n

/-! ### readers only look at their own keys -/

theorem blockNumber_congr {db db' : Db} {h : Hash} (e : get db' (.hashNum h) = get db (.hashNum h)) :
    blockNumber db' h = blockNumber db h := by unfold blockNumber; rw [e]

theorem getHeader_congr {db db' : Db} {h : Hash} (e : get db' (.header h) = get db (.header h)) (n : Nat) :
    getHeader db' h n = getHeader db h n := by unfold getHeader; rw [e]

theorem getBlock_congr {db db' : Db} {h : Hash} (e : get db' (.header h) = get db (.header h))
    (eb : get db' (.body h) = get db (.body h)) (n : Nat) : getBlock db' h n = getBlock db h n := by
  unfold getBlock; rw [getHeader_congr e, eb]

theorem canonHash_congr {db db' : Db} {n : Nat} (e : get db' (.canon n) = get db (.canon n)) :
    canonHash db' n = canonHash db n := by unfold canonHash; rw [e]

theorem headPtr_congr {db db' : Db} (e : get db' .lastBlock = get db .lastBlock) : headPtr db' = headPtr db := by
  unfold headPtr; rw [e]

theorem getBlock_header {db : Db} {h : Hash} {n : Nat} {hd : Hdr} (hb : getBlock db h n = some hd) :
    getHeader db h n = some hd := by
  unfold getBlock at hb
  split at hb
  · split at hb
    · rename_i hh _; rw [hh]; exact hb
    · simp at hb
  · simp at hb

theorem getBlock_of_header_body {db : Db} {h : Hash} {n : Nat} {hd : Hdr} (hh : getHeader db h n = some hd)
    (hb : (get db (.body h)).isSome = true) : getBlock db h n = some hd := by
  unfold getBlock; rw [hh]; simp [hb]

theorem getHeader_eq {db : Db} {h : Hash} {n : Nat} {hd : Hdr} (hh : getHeader db h n = some hd) :
    get db (.header h) = some (.hdr hd.parent hd.num hd.root) ∧ hd.num = n := by
  unfold getHeader at hh
  split at hh
  · rename_i p n' r hg
    split at hh
    · injection hh with hh; subst hh; exact ⟨hg, by assumption⟩
    · simp at hh
  · simp at hh

theorem getHeader_of_get {db : Db} {h p n r : Nat} (hg : get db (.header h) = some (.hdr p n r)) :
    getHeader db h n = some ⟨p, n, r⟩ := by
  unfold getHeader; rw [hg]; simp

/-- ancestry is stable when blocks only appear and the canonical numbers up to the height are untouched -/
theorem canonAgrees_mono {db db' : Db}
    (hb : ∀ h n hd, getBlock db h n = some hd → getBlock db' h n = some hd) :
    ∀ {h : Hash} {n : Nat}, CanonAgrees db h n → (∀ k, k ≤ n → canonHash db' k = canonHash db k) → CanonAgrees db' h n := by
  intro h n hc
  induction hc with
  | genesis hblk hcan => intro hk; exact CanonAgrees.genesis (hb _ _ _ hblk) (by rw [hk 0 (Nat.le_refl _)]; exact hcan)
  | succ hblk hcan _ ih =>
    intro hk
    exact CanonAgrees.succ (hb _ _ _ hblk) (by rw [hk _ (Nat.le_refl _)]; exact hcan)
      (ih fun k hkle => hk k (Nat.le_succ_of_le hkle))

theorem canonAgrees_block {db : Db} {h : Hash} {n : Nat} (hc : CanonAgrees db h n) : ∃ hd, getBlock db h n = some hd := by
  cases hc with
  | genesis hb _ => exact ⟨_, hb⟩
  | succ hb _ _ => exact ⟨_, hb⟩

theorem canonAgrees_canon {db : Db} {h : Hash} {n : Nat} (hc : CanonAgrees db h n) : canonHash db n = some h := by
  cases hc with
  | genesis _ hcan => exact hcan
  | succ _ hcan _ => exact hcan

theorem canonAgrees_parent {db : Db} {h : Hash} {n : Nat} {hd : Hdr} (hc : CanonAgrees db h (n + 1))
    (hb : getBlock db h (n + 1) = some hd) : CanonAgrees db hd.parent n := by
  cases hc with
  | succ hb' _ hp => rw [hb] at hb'; injection hb' with hb'; subst hb'; exact hp

/-! ### Inv ⇒ the decidable discipline -/

theorem chainOK_of_canonAgrees {db : Db} {h : Hash} {n : Nat} (hc : CanonAgrees db h n) :
    chainOK db (n + 1) h n = true := by
  induction hc with
  | genesis hb hcan => simp [chainOK, hb, hcan]
  | succ hb hcan _ ih =>
    unfold chainOK
    simp only [hb, hcan, beq_self_eq_true, Bool.true_and, Nat.add_sub_cancel, ih, Bool.or_true]

theorem repairable_of_canonAgrees {db : Db} {h : Hash} {n : Nat} (hc : CanonAgrees db h n)
    (hg : ∃ g0 hd0, canonHash db 0 = some g0 ∧ getBlock db g0 0 = some hd0 ∧ hasState db hd0.root = true) :
    repairable db (n + 1) h n = true := by
  induction hc with
  | genesis hb hcan =>
    obtain ⟨g0, hd0, hc0, hb0, hs0⟩ := hg
    rw [hcan] at hc0; injection hc0 with hc0; subst hc0
    rw [hb] at hb0; injection hb0 with hb0; subst hb0
    simp [repairable, hb, hs0]
  | succ hb _ _ ih =>
    unfold repairable
    simp only [hb, Nat.add_sub_cancel, ih, Bool.and_true, Bool.or_eq_true, bne_iff_ne, ne_eq]
    exact Or.inr (by simp)

theorem imageOK_of_inv {ar : Bool} {db : Db} {g : Hash} (hi : Inv ar V db g) : imageOK ar db g = true := by
  obtain ⟨n, hn, hc⟩ := hi.chain
  unfold imageOK LocalOK
  simp only [hi.head, hn, chainOK_of_canonAgrees hc, repairable_of_canonAgrees hc hi.gstate,
    (closedB_iff db).mpr hi.closed, Bool.true_and, Bool.and_eq_true, beq_self_eq_true, and_true]
  cases ar with
  | false => rfl
  | true =>
    obtain ⟨hd, hb⟩ := canonAgrees_block hc
    simp [hb, hi.arch rfl _ _ _ hb]

/-! ### preservation: a general monotone step -/

theorem ext_of_same {db db' : Db} (he : Ext V db) (hB : ∀ h n, getBlock db' h n = getBlock db h n)
    (hH : ∀ h n, getHeader db' h n = getHeader db h n)
    (htd : ∀ h, (get db (.td h)).isSome = true → (get db' (.td h)).isSome = true) : Ext V db' where
  valid := fun h n hd hh => he.valid h n hd (by rw [← hH]; exact hh)
  pclosed := fun h n hd hb => by
    rw [hB] at hb
    obtain ⟨hd', h'⟩ := he.pclosed h n hd hb
    exact ⟨hd', by rw [hB]; exact h'⟩
  storedTd := fun h n hd hb => htd h (he.storedTd h n hd (by rw [← hB]; exact hb))

/-- the workhorse: blocks and trie nodes only appear, head pointer / head number / canonical numbers up to the head are
    untouched, the store stays closed, header ⇒ number still holds -/
theorem inv_mono {ar : Bool} {db db' : Db} {g : Hash} (hi : Inv ar V db g)
    (hlb : get db' .lastBlock = get db .lastBlock)
    (hhn : get db' (.hashNum g) = get db (.hashNum g))
    (hblk : ∀ h n hd, getBlock db h n = some hd → getBlock db' h n = some hd)
    (hcan : ∀ n, blockNumber db g = some n → ∀ k, k ≤ n → canonHash db' k = canonHash db k)
    (hnode : ∀ c, (get db (.node c)).isSome = true → (get db' (.node c)).isSome = true)
    (hclosed : Closed db')
    (harch : ar = true → ∀ h n hd, getBlock db' h n = some hd → hasState db' hd.root = true)
    (hhnum : ∀ h n hd, getHeader db' h n = some hd → blockNumber db' h = some n)
    (hext : Ext V db') : Inv ar V db' g := by
  obtain ⟨n, hn, hc⟩ := hi.chain
  obtain ⟨g0, hd0, hc0, hb0, hs0⟩ := hi.gstate
  refine ⟨hext, by rw [headPtr_congr hlb]; exact hi.head, ⟨n, by rw [blockNumber_congr hhn]; exact hn,
    canonAgrees_mono hblk hc (hcan n hn)⟩, hclosed, ⟨g0, hd0, ?_, hblk _ _ _ hb0, hnode _ hs0⟩, harch, hhnum⟩
  rw [hcan n hn 0 (Nat.zero_le _)]; exact hc0

/-- writes to keys the discipline does not read -/
def irrelevant : Key → Bool
  | .receipts _ | .lookup _ | .lastHeader | .lastFast | .preimage _ | .other => true
  | _ => false

theorem inv_of_same {ar : Bool} {db db' : Db} {g : Hash} (hi : Inv ar V db g)
    (hs : ∀ k, irrelevant k = false → get db' k = get db k) : Inv ar V db' g := by
  have hB : ∀ h n, getBlock db' h n = getBlock db h n := fun h n => getBlock_congr (hs _ rfl) (hs _ rfl) n
  have hH : ∀ h n, getHeader db' h n = getHeader db h n := fun h n => getHeader_congr (hs _ rfl) n
  have hN : ∀ h, blockNumber db' h = blockNumber db h := fun h => blockNumber_congr (hs _ rfl)
  have hS : ∀ r, hasState db' r = hasState db r := fun r => by unfold hasState; rw [hs _ rfl]
  refine inv_mono hi (hs _ rfl) (hs _ rfl) (fun h n hd hb => by rw [hB]; exact hb)
    (fun _ _ k _ => canonHash_congr (hs _ rfl)) (fun c hc => by rw [hs _ rfl]; exact hc) ?_ ?_ ?_
    (ext_of_same hi.ext hB hH (fun h hh => by rw [hs _ rfl]; exact hh))
  · intro h cs hg c hc
    rw [hs _ rfl] at hg ⊢
    exact hi.closed h cs hg c hc
  · intro har h n hd hb
    rw [hB] at hb; rw [hS]; exact hi.arch har h n hd hb
  · intro h n hd hh
    rw [hH] at hh; rw [hN]; exact hi.hnum h n hd hh

/-- the total-difficulty record of a block (hc.WriteTd): only its presence matters -/
theorem inv_put_td {ar : Bool} {db : Db} {g : Hash} (hi : Inv ar V db g) (x : Hash) (v : Val) :
    Inv ar V (put db (.td x) v) g := by
  have hs : ∀ k, (∀ h, k ≠ Key.td h) → get (put db (.td x) v) k = get db k :=
    fun k hk => get_put_ne db v (by intro e; exact hk x e.symm)
  have hB : ∀ h n, getBlock (put db (.td x) v) h n = getBlock db h n := fun h n =>
    getBlock_congr (hs _ (by intro _ e; cases e)) (hs _ (by intro _ e; cases e)) n
  have hH : ∀ h n, getHeader (put db (.td x) v) h n = getHeader db h n := fun h n =>
    getHeader_congr (hs _ (by intro _ e; cases e)) n
  have hN : ∀ h, blockNumber (put db (.td x) v) h = blockNumber db h := fun h =>
    blockNumber_congr (hs _ (by intro _ e; cases e))
  have hS : ∀ r, hasState (put db (.td x) v) r = hasState db r := fun r => by
    unfold hasState; rw [hs _ (by intro _ e; cases e)]
  refine inv_mono hi (hs _ (by intro _ e; cases e)) (hs _ (by intro _ e; cases e)) (fun h n hd hb => by rw [hB]; exact hb)
    (fun _ _ k _ => canonHash_congr (hs _ (by intro _ e; cases e))) (fun c hc => by rw [hs _ (by intro _ e; cases e)]; exact hc) ?_ ?_ ?_
    (ext_of_same hi.ext hB hH (fun h hh => by
      rw [get_put]; split
      · rfl
      · exact hh))
  · intro h cs hg c hc
    rw [hs _ (by intro _ e; cases e)] at hg ⊢
    exact hi.closed h cs hg c hc
  · intro har h n hd hb
    rw [hB] at hb; rw [hS]; exact hi.arch har h n hd hb
  · intro h n hd hh
    rw [hH] at hh; rw [hN]; exact hi.hnum h n hd hh

theorem inv_put_irrelevant {ar : Bool} {db : Db} {g : Hash} (hi : Inv ar V db g) {k : Key} (v : Val)
    (hk : irrelevant k = true) : Inv ar V (put db k v) g :=
  inv_of_same hi fun k' hk' => get_put_ne db v (by intro e; subst e; simp [hk] at hk')

theorem inv_del_irrelevant {ar : Bool} {db : Db} {g : Hash} (hi : Inv ar V db g) {k : Key}
    (hk : irrelevant k = true) : Inv ar V (del db k) g :=
  inv_of_same hi fun k' hk' => by
    rw [get_del]; split
    · rename_i e; subst e; simp [hk] at hk'
    · rfl

/-! ### batches -/

theorem get_foldl_applyW_not_mem {k : Key} : ∀ (ws : Writes) (db : Db), (∀ w ∈ ws, w.1 ≠ k) →
    get (ws.foldl applyW db) k = get db k := by
  intro ws
  induction ws with
  | nil => intro db _; rfl
  | cons w rest ih =>
    intro db h
    simp only [List.foldl_cons]
    rw [ih _ (fun w' hw' => h w' (List.mem_cons_of_mem _ hw'))]
    obtain ⟨k', ov⟩ := w
    have hne : k' ≠ k := h (k', ov) (by simp)
    cases ov with
    | some v => exact get_put_ne db v hne
    | none => simp [applyW, get_del, hne]

/-- a trie batch: preimages and children-first node puts -/
def trieWritesOK (db : Db) : Writes → Bool
  | [] => true
  | (.preimage _, some _) :: rest => trieWritesOK db rest
  | (.node h, some (.node cs)) :: rest =>
    (cs.all fun c => (get db (.node c)).isSome) && trieWritesOK (put db (.node h) (.node cs)) rest
  | _ => false

theorem trie_batch_spec : ∀ (ws : Writes) (db : Db), Closed db → trieWritesOK db ws = true →
    Closed (ws.foldl applyW db) ∧
    (∀ c, (get db (.node c)).isSome = true → (get (ws.foldl applyW db) (.node c)).isSome = true) ∧
    (∀ k, (∀ h, k ≠ .node h) → (∀ h, k ≠ .preimage h) → get (ws.foldl applyW db) k = get db k) := by
  intro ws
  induction ws with
  | nil => intro db hc _; exact ⟨hc, fun _ h => h, fun _ _ _ => rfl⟩
  | cons w rest ih =>
    intro db hc hok
    obtain ⟨k, ov⟩ := w
    cases k with
    | preimage h =>
      cases ov with
      | none => simp [trieWritesOK] at hok
      | some v =>
        have hok' : trieWritesOK db rest = true := by simpa [trieWritesOK] using hok
        -- a preimage put does not touch node keys: transport closedness
        have hsame : ∀ k', (∀ h', k' ≠ .preimage h') → get (put db (.preimage h) v) k' = get db k' :=
          fun k' hk' => get_put_ne db v (by intro e; exact hk' h e.symm)
        have hc' : Closed (put db (.preimage h) v) := by
          intro x cs hg c hcm
          rw [hsame _ (by intro h' e; cases e)] at hg ⊢
          exact hc x cs hg c hcm
        have hok'' : trieWritesOK (put db (.preimage h) v) rest = true := by
          -- trieWritesOK only reads node keys
          have : ∀ (ws : Writes) (d d' : Db), (∀ c, get d' (.node c) = get d (.node c)) →
              trieWritesOK d ws = true → trieWritesOK d' ws = true := by
            intro ws
            induction ws with
            | nil => intro _ _ _ _; rfl
            | cons w r ihh =>
              intro d d' he hh
              obtain ⟨kk, vv⟩ := w
              cases kk <;> cases vv <;> try (simp [trieWritesOK] at hh)
              · rename_i hh' vv'
                cases vv' <;> try (simp [trieWritesOK] at hh)
                rename_i cs
                simp only [trieWritesOK, Bool.and_eq_true, List.all_eq_true] at hh ⊢
                refine ⟨fun c hcm => by rw [he]; exact hh.1 c hcm, ihh _ _ ?_ hh.2⟩
                intro c; rw [get_put, get_put, he]
              · simp only [trieWritesOK] at hh ⊢
                exact ihh _ _ he hh
          exact this rest db _ (fun c => hsame _ (by intro h' e; cases e)) hok'
        obtain ⟨h1, h2, h3⟩ := ih _ hc' hok''
        refine ⟨h1, fun c hcp => h2 c (by rw [hsame _ (by intro h' e; cases e)]; exact hcp), ?_⟩
        intro k' hk1 hk2
        simp only [List.foldl_cons, applyW]
        rw [h3 k' hk1 hk2, hsame k' hk2]
    | node h =>
      cases ov with
      | none => simp [trieWritesOK] at hok
      | some v =>
        cases v with
        | node cs =>
          simp only [trieWritesOK, Bool.and_eq_true, List.all_eq_true] at hok
          have hc' : Closed (put db (.node h) (.node cs)) := closed_putNode hc (h, cs) hok.1
          obtain ⟨h1, h2, h3⟩ := ih _ hc' hok.2
          refine ⟨h1, fun c hcp => h2 c (present_putNode (h, cs) hcp), ?_⟩
          intro k' hk1 hk2
          simp only [List.foldl_cons, applyW]
          rw [h3 k' hk1 hk2]
          exact get_put_ne db _ (by intro e; exact hk1 h e.symm)
        | _ => simp [trieWritesOK] at hok
    | _ => simp [trieWritesOK] at hok

theorem inv_trie_batch {ar : Bool} {db : Db} {g : Hash} (hi : Inv ar V db g) (ws : Writes)
    (hok : trieWritesOK db ws = true) : Inv ar V (apply db (.batch ws)) g := by
  obtain ⟨h1, h2, h3⟩ := trie_batch_spec ws db hi.closed hok
  have hs : ∀ k, (∀ h, k ≠ Key.node h) → (∀ h, k ≠ Key.preimage h) → get (apply db (.batch ws)) k = get db k := h3
  have hB : ∀ h n, getBlock (apply db (.batch ws)) h n = getBlock db h n := fun h n =>
    getBlock_congr (hs _ (by intro _ e; cases e) (by intro _ e; cases e)) (hs _ (by intro _ e; cases e) (by intro _ e; cases e)) n
  have hH : ∀ h n, getHeader (apply db (.batch ws)) h n = getHeader db h n := fun h n =>
    getHeader_congr (hs _ (by intro _ e; cases e) (by intro _ e; cases e)) n
  have hN : ∀ h, blockNumber (apply db (.batch ws)) h = blockNumber db h := fun h =>
    blockNumber_congr (hs _ (by intro _ e; cases e) (by intro _ e; cases e))
  refine inv_mono hi (hs _ (by intro _ e; cases e) (by intro _ e; cases e)) (hs _ (by intro _ e; cases e) (by intro _ e; cases e))
    (fun h n hd hb => by rw [hB]; exact hb)
    (fun _ _ k _ => canonHash_congr (hs _ (by intro _ e; cases e) (by intro _ e; cases e))) h2 h1 ?_ ?_
    (ext_of_same hi.ext hB hH (fun h hh => by rw [hs _ (by intro _ e; cases e) (by intro _ e; cases e)]; exact hh))
  · intro har h n hd hb
    rw [hB] at hb
    exact h2 _ (hi.arch har h n hd hb)
  · intro h n hd hh
    rw [hH] at hh; rw [hN]; exact hi.hnum h n hd hh

/-! ### the block batch -/

/-- the block was not stored yet, or is stored with exactly this content (a hash names one content) -/
def FreshOrSame (db : Db) (b : Blk) : Prop :=
  (get db (.header b.hash) = none ∨ get db (.header b.hash) = some (.hdr b.parent b.num b.root)) ∧
  (get db (.hashNum b.hash) = none ∨ get db (.hashNum b.hash) = some (.num b.num))

def isLookup : Key → Bool
  | .lookup _ => true
  | _ => false

theorem blockData_foldl (db : Db) (b : Blk) :
    (blockData b).foldl applyW db =
      put (put (put (put db (.body b.hash) (.txs b.txs)) (.hashNum b.hash) (.num b.num))
        (.header b.hash) (.hdr b.parent b.num b.root)) (.receipts b.hash) .blob := rfl

theorem get_block_batch (db : Db) (b : Blk) (extra : Writes) (hx : ∀ w ∈ extra, isLookup w.1 = true) (k : Key)
    (hk : isLookup k = false) :
    get (apply db (.batch (blockData b ++ extra))) k =
      if k = .receipts b.hash then some .blob
      else if k = .header b.hash then some (.hdr b.parent b.num b.root)
      else if k = .hashNum b.hash then some (.num b.num)
      else if k = .body b.hash then some (.txs b.txs) else get db k := by
  unfold apply
  simp only [List.foldl_append]
  rw [get_foldl_applyW_not_mem extra _ (fun w hw e => by have := hx w hw; rw [e] at this; rw [this] at hk; cases hk)]
  rw [blockData_foldl]
  simp only [get_put]
  by_cases h1 : Key.receipts b.hash = k
  · simp [h1.symm]
  · by_cases h2 : Key.header b.hash = k
    · subst h2; simp
    · by_cases h3 : Key.hashNum b.hash = k
      · subst h3; simp
      · by_cases h4 : Key.body b.hash = k
        · subst h4; simp
        · simp [h1, h2, h3, h4, Ne.symm h1, Ne.symm h2, Ne.symm h3, Ne.symm h4]

theorem inv_block_batch {ar : Bool} {db : Db} {g : Hash} (hi : Inv ar V db g) (b : Blk) (extra : Writes)
    (hx : ∀ w ∈ extra, isLookup w.1 = true) (hf : FreshOrSame db b)
    (hst : ar = true → hasState db b.root = true)
    (hV : V b.hash ⟨b.parent, b.num, b.root⟩)
    (hpar : ∀ m, b.num = m + 1 → ∃ hd', getBlock db b.parent m = some hd')
    (htdX : (get db (.td b.hash)).isSome = true) :
    Inv ar V (apply db (.batch (blockData b ++ extra))) g ∧
      getBlock (apply db (.batch (blockData b ++ extra))) b.hash b.num = some ⟨b.parent, b.num, b.root⟩ ∧
      (∀ h n hd, getBlock db h n = some hd → getBlock (apply db (.batch (blockData b ++ extra))) h n = some hd) ∧
      (∀ h n, blockNumber db h = some n → blockNumber (apply db (.batch (blockData b ++ extra))) h = some n) := by
  have G := get_block_batch db b extra hx
  -- key-wise facts
  have gLB : get (apply db (.batch (blockData b ++ extra))) .lastBlock = get db .lastBlock := by rw [G _ rfl]; simp
  have gCanon : ∀ n, get (apply db (.batch (blockData b ++ extra))) (.canon n) = get db (.canon n) := fun n => by rw [G _ rfl]; simp
  have gNode : ∀ c, get (apply db (.batch (blockData b ++ extra))) (.node c) = get db (.node c) := fun c => by rw [G _ rfl]; simp
  have gHdr : ∀ h, get (apply db (.batch (blockData b ++ extra))) (.header h) =
      if h = b.hash then some (.hdr b.parent b.num b.root) else get db (.header h) := fun h => by
    rw [G _ rfl]; by_cases e : h = b.hash <;> simp [e]
  have gNum : ∀ h, get (apply db (.batch (blockData b ++ extra))) (.hashNum h) =
      if h = b.hash then some (.num b.num) else get db (.hashNum h) := fun h => by
    rw [G _ rfl]; by_cases e : h = b.hash <;> simp [e]
  have gBody : ∀ h, get (apply db (.batch (blockData b ++ extra))) (.body h) =
      if h = b.hash then some (.txs b.txs) else get db (.body h) := fun h => by
    rw [G _ rfl]; by_cases e : h = b.hash <;> simp [e]
  have hX : getBlock (apply db (.batch (blockData b ++ extra))) b.hash b.num = some ⟨b.parent, b.num, b.root⟩ := by
    apply getBlock_of_header_body
    · exact getHeader_of_get (by rw [gHdr]; simp)
    · rw [gBody]; simp
  -- headers are preserved (same content when it is the written block)
  have hHdrMono : ∀ h n hd, getHeader db h n = some hd → getHeader (apply db (.batch (blockData b ++ extra))) h n = some hd := by
    intro h n hd hh
    by_cases e : h = b.hash
    · subst e
      obtain ⟨hg, hn⟩ := getHeader_eq hh
      rcases hf.1 with h0 | h0
      · rw [h0] at hg; cases hg
      · rw [h0] at hg; injection hg with hg; injection hg with e1 e2 e3
        have : hd = ⟨b.parent, b.num, b.root⟩ := by cases hd; simp_all
        subst this
        rw [← hn]
        exact getHeader_of_get (by rw [gHdr]; simp)
    · have e1 : get (apply db (.batch (blockData b ++ extra))) (.header h) = get db (.header h) := by rw [gHdr, if_neg e]
      rw [getHeader_congr e1]; exact hh
  have hBlkMono : ∀ h n hd, getBlock db h n = some hd → getBlock (apply db (.batch (blockData b ++ extra))) h n = some hd := by
    intro h n hd hb
    apply getBlock_of_header_body (hHdrMono h n hd (getBlock_header hb))
    rw [gBody]
    by_cases e : h = b.hash
    · simp [e]
    · simp only [e, if_false]
      unfold getBlock at hb
      split at hb
      · split at hb
        · assumption
        · simp at hb
      · simp at hb
  have hNumSame : ∀ h n, blockNumber db h = some n → blockNumber (apply db (.batch (blockData b ++ extra))) h = some n := by
    intro h n hn
    by_cases e : h = b.hash
    · subst e
      unfold blockNumber at hn ⊢
      rw [gNum]; simp only [if_true]
      rcases hf.2 with h0 | h0
      · rw [h0] at hn; simp at hn
      · rw [h0] at hn; exact hn
    · have e1 : get (apply db (.batch (blockData b ++ extra))) (.hashNum h) = get db (.hashNum h) := by rw [gNum, if_neg e]
      rw [blockNumber_congr e1]; exact hn
  refine ⟨?_, hX, hBlkMono, hNumSame⟩
  obtain ⟨n, hn, hc⟩ := hi.chain
  obtain ⟨g0, hd0, hc0, hb0, hs0⟩ := hi.gstate
  have hS : ∀ r, hasState (apply db (.batch (blockData b ++ extra))) r = hasState db r := fun r => by
    unfold hasState; rw [gNode]
  have gTd : ∀ h, get (apply db (.batch (blockData b ++ extra))) (.td h) = get db (.td h) := fun h => by rw [G _ rfl]; simp
  -- a block of the new image is the written block or a block of the old image
  have hBlkInv : ∀ h m hd, getBlock (apply db (.batch (blockData b ++ extra))) h m = some hd →
      (h = b.hash ∧ hd = ⟨b.parent, b.num, b.root⟩ ∧ m = b.num) ∨ getBlock db h m = some hd := by
    intro h m hd hb
    by_cases e : h = b.hash
    · subst e
      obtain ⟨hg, hm⟩ := getHeader_eq (getBlock_header hb)
      rw [gHdr] at hg; simp only [if_true] at hg
      injection hg with hg; injection hg with e1 e2 e3
      refine .inl ⟨rfl, ?_, by omega⟩
      cases hd; simp_all
    · have e1 : get (apply db (.batch (blockData b ++ extra))) (.header h) = get db (.header h) := by rw [gHdr, if_neg e]
      have e2 : get (apply db (.batch (blockData b ++ extra))) (.body h) = get db (.body h) := by rw [gBody, if_neg e]
      rw [getBlock_congr e1 e2] at hb
      exact .inr hb
  have hExt : Ext V (apply db (.batch (blockData b ++ extra))) := by
    refine ⟨?_, ?_, ?_⟩
    · intro h m hd hh
      by_cases e : h = b.hash
      · subst e
        obtain ⟨hg, hm⟩ := getHeader_eq hh
        rw [gHdr] at hg; simp only [if_true] at hg
        injection hg with hg; injection hg with e1 e2 e3
        have : hd = ⟨b.parent, b.num, b.root⟩ := by cases hd; simp_all
        rw [this]; exact hV
      · have e1 : get (apply db (.batch (blockData b ++ extra))) (.header h) = get db (.header h) := by rw [gHdr, if_neg e]
        rw [getHeader_congr e1] at hh
        exact hi.ext.valid h m hd hh
    · intro h m hd hb
      rcases hBlkInv h (m + 1) hd hb with ⟨_, rfl, hm⟩ | hb'
      · obtain ⟨hd', h'⟩ := hpar m hm.symm
        exact ⟨hd', hBlkMono _ _ _ h'⟩
      · obtain ⟨hd', h'⟩ := hi.ext.pclosed h m hd hb'
        exact ⟨hd', hBlkMono _ _ _ h'⟩
    · intro h m hd hb
      rw [gTd]
      rcases hBlkInv h m hd hb with ⟨rfl, _, _⟩ | hb'
      · exact htdX
      · exact hi.ext.storedTd h m hd hb'
  refine ⟨hExt, by rw [headPtr_congr gLB]; exact hi.head, ⟨n, hNumSame _ _ hn,
      canonAgrees_mono hBlkMono hc (fun k _ => canonHash_congr (gCanon k))⟩, ?_, ⟨g0, hd0, by rw [canonHash_congr (gCanon 0)]; exact hc0,
      hBlkMono _ _ _ hb0, by rw [hS]; exact hs0⟩, ?_, ?_⟩
  · intro x cs hg c hcm
    rw [gNode] at hg ⊢
    exact hi.closed x cs hg c hcm
  · intro har h m hd hb
    rw [hS]
    by_cases e : h = b.hash
    · subst e
      have hh := getBlock_header hb
      obtain ⟨hg, _⟩ := getHeader_eq hh
      rw [gHdr] at hg; simp only [if_true] at hg
      injection hg with hg; injection hg with _ _ e3
      rw [← e3]; exact hst har
    · have e1 : get (apply db (.batch (blockData b ++ extra))) (.header h) = get db (.header h) := by rw [gHdr, if_neg e]
      have e2 : get (apply db (.batch (blockData b ++ extra))) (.body h) = get db (.body h) := by rw [gBody, if_neg e]
      rw [getBlock_congr e1 e2] at hb
      exact hi.arch har h m hd hb
  · intro h m hd hh
    by_cases e : h = b.hash
    · subst e
      obtain ⟨hg, hm⟩ := getHeader_eq hh
      rw [gHdr] at hg; simp only [if_true] at hg
      injection hg with hg; injection hg with _ e2 _
      unfold blockNumber; rw [gNum]; simp only [if_true]
      rw [← hm, ← e2]
    · have e1 : get (apply db (.batch (blockData b ++ extra))) (.header h) = get db (.header h) := by rw [gHdr, if_neg e]
      rw [getHeader_congr e1] at hh
      exact hNumSame _ _ (hi.hnum h m hd hh)

/-! ### canonical numbers above the head, and moving the head -/

/-- a write (put or delete) of a canonical number ABOVE the head's height -/
theorem inv_canon_above {ar : Bool} {db db' : Db} {g : Hash} {n i : Nat} (hi : Inv ar V db g)
    (hn : blockNumber db g = some n) (hlt : n < i)
    (hs : ∀ k, irrelevant k = false → k ≠ .canon i → get db' k = get db k) : Inv ar V db' g := by
  have hB : ∀ h m, getBlock db' h m = getBlock db h m := fun h m =>
    getBlock_congr (hs _ rfl (by intro e; cases e)) (hs _ rfl (by intro e; cases e)) m
  have hH : ∀ h m, getHeader db' h m = getHeader db h m := fun h m => getHeader_congr (hs _ rfl (by intro e; cases e)) m
  have hN : ∀ h, blockNumber db' h = blockNumber db h := fun h => blockNumber_congr (hs _ rfl (by intro e; cases e))
  have hS : ∀ r, hasState db' r = hasState db r := fun r => by unfold hasState; rw [hs _ rfl (by intro e; cases e)]
  refine inv_mono hi (hs _ rfl (by intro e; cases e)) (hs _ rfl (by intro e; cases e)) (fun h m hd hb => by rw [hB]; exact hb)
    ?_ (fun c hc => by rw [hs _ rfl (by intro e; cases e)]; exact hc) ?_ ?_ ?_
    (ext_of_same hi.ext hB hH (fun h hh => by rw [hs _ rfl (by intro e; cases e)]; exact hh))
  · intro n' hn' k hk
    rw [hn] at hn'; injection hn' with hn'; subst hn'
    exact canonHash_congr (hs _ rfl (by intro e; injection e with e; omega))
  · intro h cs hg c hc
    rw [hs _ rfl (by intro e; cases e)] at hg ⊢
    exact hi.closed h cs hg c hc
  · intro har h m hd hb
    rw [hB] at hb; rw [hS]; exact hi.arch har h m hd hb
  · intro h m hd hh
    rw [hH] at hh; rw [hN]; exact hi.hnum h m hd hh

/-- the head moves to a stored block `B` whose parent lies on the current head's chain: afterwards canonical number
    `m+1` and LastBlock name `B`; canonical numbers ABOVE `m+1` may change arbitrarily (since 3f14ce8 `insert` deletes
    them in the same batch); every other key the discipline reads is unchanged -/
theorem inv_new_head {ar : Bool} {db db₁ : Db} {g B : Hash} {m : Nat} {hdB : Hdr} (hi : Inv ar V db g)
    (hB : getBlock db B (m + 1) = some hdB) (hP : CanonAgrees db hdB.parent m)
    (hc : get db₁ (.canon (m + 1)) = some (.ref B)) (hl : get db₁ .lastBlock = some (.ref B))
    (hs : ∀ k, irrelevant k = false → (∀ i, m + 1 ≤ i → k ≠ .canon i) → k ≠ .lastBlock → get db₁ k = get db k) :
    Inv ar V db₁ B := by
  have nc : ∀ {k : Key}, (∀ n, k ≠ .canon n) → ∀ i, m + 1 ≤ i → k ≠ .canon i := fun h i _ => h i
  have hBk : ∀ h n, getBlock db₁ h n = getBlock db h n := fun h n =>
    getBlock_congr (hs _ rfl (nc (by intro _ e; cases e)) (by intro e; cases e))
      (hs _ rfl (nc (by intro _ e; cases e)) (by intro e; cases e)) n
  have hH : ∀ h n, getHeader db₁ h n = getHeader db h n := fun h n =>
    getHeader_congr (hs _ rfl (nc (by intro _ e; cases e)) (by intro e; cases e)) n
  have hN : ∀ h, blockNumber db₁ h = blockNumber db h := fun h =>
    blockNumber_congr (hs _ rfl (nc (by intro _ e; cases e)) (by intro e; cases e))
  have hS : ∀ r, hasState db₁ r = hasState db r := fun r => by
    unfold hasState; rw [hs _ rfl (nc (by intro _ e; cases e)) (by intro e; cases e)]
  have hC : ∀ k, k ≤ m → canonHash db₁ k = canonHash db k := fun k hk =>
    canonHash_congr (hs _ rfl (by intro i hi e; injection e with e; omega) (by intro e; cases e))
  obtain ⟨g0, hd0, hc0, hb0, hs0⟩ := hi.gstate
  refine ⟨ext_of_same hi.ext hBk hH (fun h hh => by
      rw [hs _ rfl (nc (by intro _ e; cases e)) (by intro e; cases e)]; exact hh),
    by unfold headPtr; rw [hl], ⟨m + 1, ?_, ?_⟩, ?_, ⟨g0, hd0, by rw [hC 0 (by omega)]; exact hc0, by rw [hBk]; exact hb0,
    by rw [hS]; exact hs0⟩, ?_, ?_⟩
  · rw [hN]; exact hi.hnum B (m + 1) hdB (getBlock_header hB)
  · refine CanonAgrees.succ (by rw [hBk]; exact hB) (by unfold canonHash; rw [hc]) ?_
    exact canonAgrees_mono (fun h n hd hb => by rw [hBk]; exact hb) hP (fun k hk => hC k hk)
  · intro h cs hg c hcm
    rw [hs _ rfl (nc (by intro _ e; cases e)) (by intro e; cases e)] at hg ⊢
    exact hi.closed h cs hg c hcm
  · intro har h n hd hb
    rw [hBk] at hb; rw [hS]; exact hi.arch har h n hd hb
  · intro h n hd hh
    rw [hH] at hh; rw [hN]; exact hi.hnum h n hd hh

/-! ### the two loops of `reorg` -/

/-- `Linked db P m chain`: the blocks of `chain` are stored and hang off block `P` (number `m`) one after the other -/
inductive Linked (db : Db) : Hash → Nat → List (Hash × Hdr) → Prop
  | nil (P : Hash) (m : Nat) : Linked db P m []
  | cons {P h : Hash} {m : Nat} {hd : Hdr} {rest : List (Hash × Hdr)} : getBlock db h (m + 1) = some hd → hd.parent = P →
      Linked db h (m + 1) rest → Linked db P m ((h, hd) :: rest)

def chainEnd (P : Hash) : List (Hash × Hdr) → Hash
  | [] => P
  | (h, _) :: rest => chainEnd h rest

theorem linked_snoc {db : Db} {P : Hash} {m : Nat} : ∀ {chain : List (Hash × Hdr)}, Linked db P m chain →
    ∀ {h : Hash} {hd : Hdr}, getBlock db h (m + chain.length + 1) = some hd → hd.parent = chainEnd P chain →
    Linked db P m (chain ++ [(h, hd)]) := by
  intro chain hl
  induction hl with
  | nil P m => intro h hd hb hp; exact Linked.cons (by simpa using hb) (by simpa [chainEnd] using hp) (Linked.nil _ _)
  | cons hb' hp' _ ih =>
    intro h hd hb hp
    refine Linked.cons hb' hp' (ih ?_ ?_)
    · simpa [Nat.add_assoc, Nat.add_comm, Nat.add_left_comm] using hb
    · simpa [chainEnd] using hp

theorem linked_mono {db db' : Db} (hb : ∀ h n hd, getBlock db h n = some hd → getBlock db' h n = some hd) :
    ∀ {P : Hash} {m : Nat} {chain : List (Hash × Hdr)}, Linked db P m chain → Linked db' P m chain := by
  intro P m chain hl
  induction hl with
  | nil => exact Linked.nil _ _
  | cons h1 h2 _ ih => exact Linked.cons (hb _ _ _ h1) h2 ih

/-- what `reorg` collects: the new chain (oldest first) hangs off a block `C` that lies on the OLD head's chain, and ends
    in the incoming block -/
theorem reorgChains_spec {db : Db} : ∀ (fuel : Nat) (o : Hash) (ho : Hdr) (n : Hash) (hn : Hdr)
    (oa na oc nc : List (Hash × Hdr)),
    reorgChains db fuel (o, ho) (n, hn) oa na = some (oc, nc) →
    getBlock db o ho.num = some ho → CanonAgrees db o ho.num →
    getBlock db n hn.num = some hn → Linked db n hn.num na.reverse →
    ∃ C c, CanonAgrees db C c ∧ Linked db C c nc.reverse ∧ chainEnd C nc.reverse = chainEnd n na.reverse := by
  intro fuel
  induction fuel with
  | zero => intro o ho n hn oa na oc nc h; simp [reorgChains] at h
  | succ fuel ih =>
    intro o ho n hn oa na oc nc h hbo hco hbn hln
    unfold reorgChains at h
    -- stepping the new cursor: the collected chain grows at its old end
    have stepNew : ∀ hn', getBlock db hn.parent (hn.num - 1) = some hn' → hn.num ≠ 0 →
        getBlock db hn.parent hn'.num = some hn' ∧ Linked db hn.parent hn'.num (na ++ [(n, hn)]).reverse ∧
        chainEnd hn.parent (na ++ [(n, hn)]).reverse = chainEnd n na.reverse := by
      intro hn' hb' hne
      have hnum := getBlock_num hb'
      refine ⟨by rw [hnum]; exact hb', ?_, by simp [chainEnd]⟩
      rw [List.reverse_append]
      simp only [List.reverse_cons, List.reverse_nil, List.nil_append, List.singleton_append]
      refine Linked.cons (by rw [hnum]; have : hn.num - 1 + 1 = hn.num := by omega
                             rw [this]; exact hbn) rfl ?_
      rw [hnum]; have : hn.num - 1 + 1 = hn.num := by omega
      rw [this]; exact hln
    have stepOld : ∀ ho', getBlock db ho.parent (ho.num - 1) = some ho' → ho.num ≠ 0 →
        getBlock db ho.parent ho'.num = some ho' ∧ CanonAgrees db ho.parent ho'.num := by
      intro ho' hb' hne
      have hnum := getBlock_num hb'
      refine ⟨by rw [hnum]; exact hb', ?_⟩
      rw [hnum]
      obtain ⟨k, hk⟩ : ∃ k, ho.num = k + 1 := ⟨ho.num - 1, by omega⟩
      rw [hk] at hco hbo ⊢
      simpa using canonAgrees_parent hco hbo
    split at h
    · -- old side higher
      rename_i hgt
      split at h
      · simp at h
      · rename_i ho' hb'
        obtain ⟨h1, h2⟩ := stepOld ho' hb' (by omega)
        exact ih _ _ _ _ _ _ _ _ h h1 h2 hbn hln
    · split at h
      · rename_i hgt
        split at h
        · simp at h
        · rename_i hn' hb'
          obtain ⟨h1, h2, h3⟩ := stepNew hn' hb' (by omega)
          obtain ⟨C, c, r1, r2, r3⟩ := ih _ _ _ _ _ _ _ _ h hbo hco h1 h2
          exact ⟨C, c, r1, r2, by rw [r3, h3]⟩
      · rename_i hle1 hle2
        have heq : ho.num = hn.num := by omega
        split at h
        · rename_i hon
          injection h with h; injection h with h1 h2
          subst hon; subst h2
          exact ⟨o, ho.num, hco, by rw [heq]; exact hln, rfl⟩
        · split at h
          · simp at h
          · rename_i hne0
            split at h
            · rename_i ho' hn' hb1 hb2
              obtain ⟨a1, a2⟩ := stepOld ho' hb1 hne0
              obtain ⟨b1, b2, b3⟩ := stepNew hn' hb2 (by omega)
              obtain ⟨C, c, r1, r2, r3⟩ := ih _ _ _ _ _ _ _ _ h a1 a2 b1 b2
              exact ⟨C, c, r1, r2, by rw [r3, b3]⟩
            · simp at h

end Aqv.ChainDb

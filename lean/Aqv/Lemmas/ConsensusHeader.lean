/-
  Aqv.Lemmas.ConsensusHeader — verifyHeader (as written, with int64/uint64 arithmetic) equals the rule list of the Spec.
-/
import Aqv.Lemmas.Consensus
namespace Aqv.Consensus

/-- the int64 computation of the gas-limit distance is the true distance when both limits are below 2^63. -/
theorem gas_distance (pg hg : Nat) (hp : pg < two63) (hh : hg < two63) :
    toU64 (if wrapI64 (wrapI64 pg - wrapI64 hg) < 0 then wrapI64 (wrapI64 (wrapI64 pg - wrapI64 hg) * -1) else wrapI64 (wrapI64 pg - wrapI64 hg))
      = (if pg ≤ hg then hg - pg else pg - hg) := by
  unfold two63 at hp hh
  unfold toU64 wrapI64
  split <;> split <;> omega

theorem gasLimitBad_spec (pg hg : Nat) (hp : pg < two63) (hh : hg < two63) :
    gasLimitBad Spec.vParams pg hg = decide (¬ ((if pg ≤ hg then hg - pg else pg - hg) < pg / 1024) ∨ hg < 5000) := by
  unfold gasLimitBad
  simp only [gas_distance pg hg hp hh, Spec.vParams]
  by_cases a : (if pg ≤ hg then hg - pg else pg - hg) < pg / 1024 <;> by_cases b : hg < 5000 <;> simp [a, b] <;> omega


/-- `verifyHeader` (Impl, arithmetic as written) reports exactly the first violated rule of the Spec's rule list, whenever
    the schedule is unambiguous, the constants are the statement's, the parent respects the gas cap and the timestamp fits
    the uint64 the difficulty function is handed (always true for non-uncles, whose time is bounded by the clock). -/
theorem verifyHeader_eq_rule (env : Env) (h parent : Header) (grand : Option Header) (uncle doSeal : Bool)
    (hV : env.V = Spec.vParams) (hord : env.cfg.ordered = true)
    (hpg : parent.gasLimit < two63)
    (hnow : uncle = false → env.now + 15 < two64)
    (htime : uncle = true → h.time < two64) :
    verifyHeader env h parent grand uncle doSeal = headerRule env.P env.cfg env.now env.sealBad h parent uncle doSeal := by
  unfold verifyHeader headerRule
  rw [hV]
  simp only [Spec.vParams]
  by_cases c1 : 32 < h.extraLen
  · simp [c1]
  have c1' : ¬ h.extraLen > 32 := c1
  simp only [c1, c1', if_false]
  cases uncle with
  | true =>
    have ht := htime rfl
    have c2 : ¬ (h.time > two256 - 1) := by unfold two256; unfold two64 at ht; omega
    have c2' : ¬ (two256 ≤ h.time) := by unfold two256; unfold two64 at ht; omega
    simp only [c2, c2', Bool.true_and, decide_false, Bool.false_eq_true, if_false, Bool.not_true, Bool.false_and, true_and, not_true_eq_false, false_and]
    by_cases c4 : h.time ≤ parent.time
    · have : ¬ parent.time < h.time := by omega
      simp [c4, this]
    have c4' : parent.time < h.time := by omega
    simp only [c4, c4', if_false, not_true_eq_false]
    rw [Nat.mod_eq_of_lt ht, difficulty_spec_aux env.P env.cfg hord]
    simp only
    by_cases c5 : difficultySpec env.P env.cfg h.time parent = h.difficulty
    · have c5' : ¬ h.difficulty ≠ difficultySpec env.P env.cfg h.time parent := by simp [c5]
      simp only [c5, c5', ne_eq, not_true_eq_false, if_false]
      by_cases c6 : h.gasLimit > 9223372036854775807
      · have : two63 ≤ h.gasLimit := by unfold two63; omega
        simp [c6, this]
      have c6' : ¬ two63 ≤ h.gasLimit := by unfold two63; omega
      simp only [c6, c6', if_false]
      by_cases c7 : h.gasUsed > h.gasLimit
      · have : h.gasLimit < h.gasUsed := c7
        simp [c7, this]
      have c7' : ¬ h.gasLimit < h.gasUsed := c7
      simp only [c7, c7', if_false]
      have hg := gasLimitBad_spec parent.gasLimit h.gasLimit hpg (by omega)
      simp only [Spec.vParams] at hg
      simp only [hg]
      by_cases c8 : (¬ ((if parent.gasLimit ≤ h.gasLimit then h.gasLimit - parent.gasLimit else parent.gasLimit - h.gasLimit) < parent.gasLimit / 1024) ∨ h.gasLimit < 5000)
      · simp only [c8, decide_true, if_true]
      simp only [c8, decide_false, Bool.false_eq_true, if_false]
      by_cases c9 : (h.number : Int) - (parent.number : Int) ≠ 1
      · have : h.number ≠ parent.number + 1 := by omega
        simp [c9, this]
      have c9' : ¬ h.number ≠ parent.number + 1 := by omega
      simp only [c9, c9', if_false]
      cases doSeal <;> cases hs : env.sealBad h <;> simp [hs]
    · have c5' : h.difficulty ≠ difficultySpec env.P env.cfg h.time parent := fun e => c5 e.symm
      simp [c5, c5']
  | false =>
    by_cases c3 : h.time > env.now + 15
    · have c3' : env.now + 15 < h.time := c3
      simp [c3, c3']
    have c3' : ¬ env.now + 15 < h.time := c3
    have hnow := hnow rfl
    have ht : h.time < two64 := by omega
    simp only [c3, c3', Bool.false_and, Bool.false_eq_true, if_false, Bool.not_false, Bool.true_and, decide_false, false_and, not_false_eq_true, true_and]
    by_cases c4 : h.time ≤ parent.time
    · have : ¬ parent.time < h.time := by omega
      simp [c4, this]
    have c4' : parent.time < h.time := by omega
    simp only [c4, c4', if_false, not_true_eq_false]
    rw [Nat.mod_eq_of_lt ht, difficulty_spec_aux env.P env.cfg hord]
    simp only
    by_cases c5 : difficultySpec env.P env.cfg h.time parent = h.difficulty
    · have c5' : ¬ h.difficulty ≠ difficultySpec env.P env.cfg h.time parent := by simp [c5]
      simp only [c5, c5', ne_eq, not_true_eq_false, if_false]
      by_cases c6 : h.gasLimit > 9223372036854775807
      · have : two63 ≤ h.gasLimit := by unfold two63; omega
        simp [c6, this]
      have c6' : ¬ two63 ≤ h.gasLimit := by unfold two63; omega
      simp only [c6, c6', if_false]
      by_cases c7 : h.gasUsed > h.gasLimit
      · have : h.gasLimit < h.gasUsed := c7
        simp [c7, this]
      have c7' : ¬ h.gasLimit < h.gasUsed := c7
      simp only [c7, c7', if_false]
      have hg := gasLimitBad_spec parent.gasLimit h.gasLimit hpg (by omega)
      simp only [Spec.vParams] at hg
      simp only [hg]
      by_cases c8 : (¬ ((if parent.gasLimit ≤ h.gasLimit then h.gasLimit - parent.gasLimit else parent.gasLimit - h.gasLimit) < parent.gasLimit / 1024) ∨ h.gasLimit < 5000)
      · simp only [c8, decide_true, if_true]
      simp only [c8, decide_false, Bool.false_eq_true, if_false]
      by_cases c9 : (h.number : Int) - (parent.number : Int) ≠ 1
      · have : h.number ≠ parent.number + 1 := by omega
        simp [c9, this]
      have c9' : ¬ h.number ≠ parent.number + 1 := by omega
      simp only [c9, c9', if_false]
      cases doSeal <;> cases hs : env.sealBad h <;> simp [hs]
    · have c5' : h.difficulty ≠ difficultySpec env.P env.cfg h.time parent := fun e => c5 e.symm
      simp [c5, c5']

theorem ite_some_eq_none {α : Type} {c : Prop} [Decidable c] (e : α) (r : Option α) :
    (if c then some e else r) = none ↔ ¬ c ∧ r = none := by
  by_cases hc : c <;> simp [hc]

theorem headerRule_none_iff (S : DiffParams) (cfg : Config) (now : Nat) (sealBad : Header → Bool) (h parent : Header) (uncle doSeal : Bool) :
    headerRule S cfg now sealBad h parent uncle doSeal = none ↔ HeaderValid S cfg now sealBad h parent uncle doSeal := by
  unfold headerRule HeaderValid
  simp only [ite_some_eq_none]
  cases uncle <;> cases doSeal <;> cases hs : sealBad h <;>
    simp only [Bool.false_eq_true, false_and, true_and, if_false, not_false_eq_true, not_true_eq_false, if_true, and_true, and_false,
      Bool.true_eq_false, false_implies, true_implies, implies_true, Nat.not_lt, Nat.not_le, Decidable.not_not, not_or, ne_eq, iff_self, and_self, and_assoc]

end Aqv.Consensus

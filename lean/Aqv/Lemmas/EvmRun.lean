/-
  Aqv.Lemmas.EvmRun — the whole-program induction for property C08: the Go-mirroring interpreter and the Spec interpreter of
  Aqv.Model.EvmRun, started from the same machine, produce the same outcome (up to the kind of exceptional halt) or both stop
  at a step whose operands lie in one of the two recorded deviation sets.
-/
import Aqv.Lemmas.EvmInv
namespace Aqv.Evm
open Aqv Aqv.Big Aqv.Gen.VmTable

def popsOk (r : EvmSpec.Row) : Bool :=
  match decode r.op with
  | .dup n => decide (n ≤ r.pops)
  | .swap k => decide (k + 1 ≤ r.pops)
  | _ => true

set_option maxRecDepth 8192 in
theorem spec_rows_popsOk : ∀ lvl ∈ [0, 1, 2, 3], ∀ r ∈ EvmSpec.opcodeTable lvl, popsOk r = true := by decide

theorem stop_halts : ∀ lvl ∈ [0, 1, 2, 3], (specLookup lvl 0).map (fun en => en.halts) = some true := by decide

theorem specLookup_entry (e : Epoch) (opc : Nat) (en : Entry) (h : specLookup (epochLevel e) opc = some en) :
    ∃ r, r ∈ EvmSpec.opcodeTable (epochLevel e) ∧ en = specEntry r ∧ r.op = opc := by
  unfold specLookup specRowAt at h
  rw [specTab_eq] at h
  cases hf : (EvmSpec.opcodeTable (epochLevel e)).find? (fun r => r.op == opc) with
  | none => rw [hf] at h; cases h
  | some r =>
    rw [hf] at h
    simp only [Option.map_some, Option.some.injEq] at h
    refine ⟨r, List.mem_of_find?_eq_some hf, h.symm, ?_⟩
    have := List.find?_some hf
    simpa using this

theorem level_mem (e : Epoch) : epochLevel e ∈ [0, 1, 2, 3] := by cases e <;> decide

theorem memGrow_length (mem : Bytes) (s : Nat) : (memGrow mem s).length = max mem.length s := by
  unfold memGrow
  split
  · simp; omega
  · omega

theorem words_ge (n : Nat) : n ≤ 32 * EvmSpec.words n := by unfold EvmSpec.words; omega

/-- one guarded step of the two interpreters from the same machine: same outcome, or the same next machine -/
theorem run_agree (env : Env) (H : Bytes → Bytes) (hE : EnvOk env H) (e : Epoch) (gt : GasTable) (eb : Nat)
    (hgt : gt.expByte = eb) (heb : eb = 10 ∨ eb = 50) :
    ∀ fuel m, Inv m →
      (run env (implLookup e) (implPre gt) (implExec env H) devSet fuel m).norm =
      (run env (specLookup (epochLevel e)) (specPre eb) (specExec env H) devSet fuel m).norm := by
  intro fuel
  induction fuel with
  | zero => intro m _; rfl
  | succ fuel ih =>
    intro m hinv
    unfold run
    simp only []
    rw [lookup_agree]
    generalize hopc : fetch env m.pc = opc
    cases hl : specLookup (epochLevel e) opc with
    | none => rfl
    | some en =>
      simp only []
      by_cases h1 : m.stack.length < en.pops
      · rw [if_pos h1, if_pos h1]
      rw [if_neg h1, if_neg h1]
      by_cases h2 : m.stack.length + en.pushes - en.pops > 1024
      · rw [if_pos h2, if_pos h2]
      rw [if_neg h2, if_neg h2]
      cases hg : devSet en opc m with
      | true => rfl
      | false =>
        simp only [Bool.false_eq_true, if_false]
        have hpre := pre_agree gt eb hgt heb en (specLookup_wf e opc en hl) opc m hinv hg
        generalize implPre gt en opc m = ri at hpre
        generalize specPre eb en opc m = rs at hpre
        cases hpre with
        | skip op => rfl
        | failL f => rfl
        | failR p hp => simp only []; rw [if_pos hp]
        | ok p hp hF =>
          simp only []
          have hng : ¬ p.cost > m.gas := by omega
          rw [if_neg hng, if_neg hng]
          -- facts about the accepted prologue
          obtain ⟨hms, hmsle, hlast, hnewle⟩ := hF
          obtain ⟨hr1, hr2⟩ := touch_inRange en.memK m.stack hinv.stackOk
          obtain ⟨off, hoff, _, hofft⟩ := nat_of_inRange hr1
          obtain ⟨len, hlen, _, hlent⟩ := nat_of_inRange hr2
          rw [hofft, hlent] at hms hlast hnewle
          generalize hm1 : Machine.mk m.pc m.stack (if p.memorySize > 0 then memGrow m.mem p.memorySize else m.mem) p.last
              (m.gas - p.cost) = m1
          have hs1 : m1.stack = m.stack := by rw [← hm1]
          have hg1 : m1.gas = m.gas - p.cost := by rw [← hm1]
          have hl1 : m1.last = p.last := by rw [← hm1]
          have hmem1 : m1.mem.length = 32 * EvmSpec.memExpand (m.mem.length / 32) off len := by
            rw [← hm1]
            show (if p.memorySize > 0 then memGrow m.mem p.memorySize else m.mem).length = _
            have hw := hinv.memWords
            unfold EvmSpec.memExpand
            by_cases hz : len = 0
            · rw [if_pos hz] at hms
              rw [hms, if_neg (by omega), if_pos hz]; omega
            · rw [if_neg hz] at hms
              have hpos : 0 < EvmSpec.words (off + len) := by unfold EvmSpec.words; omega
              rw [if_pos (by omega), memGrow_length, hms, if_neg hz]
              omega
          obtain ⟨r, hrmem, hren, hrop⟩ := specLookup_entry e opc en hl
          have hpok := spec_rows_popsOk _ (level_mem e) r hrmem
          have hE1 : ExecHyp env H en opc m1 := by
            refine ⟨hE.hcode, hE.hrd, by rw [hs1]; exact hinv.stackOk, by rw [hs1]; omega, by rw [hren, ← hrop]; rfl, ?_, ?_, ?_, ?_, ?_⟩
            · rw [hs1, hofft, hlent, hmem1]
              intro hnz
              have hz : len ≠ 0 := by intro hz; apply hnz; rw [hlen, hz]; rfl
              unfold EvmSpec.memExpand
              rw [if_neg hz]
              have := words_ge (off + len)
              omega
            · rw [hmem1]; omega
            · rw [hs1]
              intro ⟨ha, hb, hc⟩
              unfold devSet at hg
              simp only [Bool.or_eq_false_iff, Bool.and_eq_false_iff, decide_eq_false_iff_not, beq_eq_false_iff_ne] at hg
              rcases hg.1 with (h | h) | h
              · exact h ha
              · exact h hb
              · exact h hc
            · intro n hn
              unfold popsOk at hpok
              rw [hrop, hn] at hpok
              rw [hren]
              show n ≤ r.pops
              simpa using hpok
            · intro k hk
              unfold popsOk at hpok
              rw [hrop, hk] at hpok
              rw [hren]
              show k + 1 ≤ r.pops
              simpa using hpok
          rw [exec_agree env H en opc m1 hE1]
          cases hx : specExec env H en opc m1 with
          | skip => rfl
          | fail f => rfl
          | cont ret m2 =>
            simp only []
            cases hrv : en.reverts with
            | true => rfl
            | false =>
              cases hh : en.halts with
              | true => rfl
              | false =>
                simp only [Bool.false_eq_true, if_false]
                apply ih
                -- the step continues, so the opcode was really fetched from the code
                have hpc : m.pc < 2 ^ 62 := by
                  by_cases hin : m.pc < env.code.size
                  · have := hE.hcode; omega
                  · exfalso
                    have hz : opc = 0 := by rw [← hopc]; unfold fetch; rw [dif_neg hin]
                    have := stop_halts _ (level_mem e)
                    rw [← hz, hl] at this
                    simp only [Option.map_some, Option.some.injEq] at this
                    rw [hh] at this; cases this
                have hi := exec_inv env H hE en opc m1 (by rw [hs1]; exact hinv.stackOk) (by rw [← hm1]; exact hpc)
                  (by rw [hmem1]; omega) (by rw [hg1]; have := hinv.gasSmall; omega) ret m2 hx
                obtain ⟨hst2, hmem2, hgas2, hlast2, _⟩ := hi
                have hcm := cmem_le_of_small hnewle
                have key : Inv m2 := by
                  refine ⟨hst2, by rw [hmem2, hmem1]; omega, by rw [hmem2, hmem1]; omega, ?_, by rw [hgas2, hg1]; have := hinv.gasSmall; omega⟩
                  rw [hlast2, hl1, hlast, hmem2, hmem1, UInt64.toNat_ofNat', Nat.mod_eq_of_lt (by omega)]
                  congr 1; omega
                cases en.jumps with
                | true => exact key
                | false => exact ⟨key.stackOk, key.memWords, key.memSmall, key.lastOk, key.gasSmall⟩

/-- a guard that never fires can be dropped -/
theorem run_guard_irrelevant (env : Env) (lookup : Nat → Option Entry) (pre : Entry → Nat → Machine → Except Outcome Pre)
    (exec : Entry → Nat → Machine → Step) (guard : Entry → Nat → Machine → Bool) :
    ∀ fuel m, run env lookup pre exec guard fuel m ≠ .deviation →
      run env lookup pre exec guard fuel m = run env lookup pre exec noGuard fuel m := by
  intro fuel
  induction fuel with
  | zero => intro m _; rfl
  | succ fuel ih =>
    intro m hne
    unfold run at hne ⊢
    simp only [] at hne ⊢
    cases hl : lookup (fetch env m.pc) with
    | none => rfl
    | some en =>
      rw [hl] at hne
      simp only [] at hne ⊢
      by_cases h1 : m.stack.length < en.pops
      · simp only [if_pos h1]
      simp only [if_neg h1] at hne ⊢
      by_cases h2 : m.stack.length + en.pushes - en.pops > 1024
      · simp only [if_pos h2]
      simp only [if_neg h2] at hne ⊢
      cases hg : guard en (fetch env m.pc) m with
      | true => rw [hg] at hne; simp at hne
      | false =>
        rw [hg] at hne
        simp only [Bool.false_eq_true, if_false, noGuard] at hne ⊢
        cases hp : pre en (fetch env m.pc) m with
        | error o => rfl
        | ok p =>
          rw [hp] at hne
          simp only [] at hne ⊢
          by_cases h3 : p.cost > m.gas
          · simp only [if_pos h3]
          simp only [if_neg h3] at hne ⊢
          generalize Machine.mk m.pc m.stack (if p.memorySize > 0 then memGrow m.mem p.memorySize else m.mem) p.last
              (m.gas - p.cost) = m1 at hne ⊢
          cases hx : exec en (fetch env m.pc) m1 with
          | skip => rfl
          | fail f => rfl
          | cont ret m2 =>
            rw [hx] at hne
            simp only [] at hne ⊢
            cases hr : en.reverts with
            | true => rfl
            | false =>
              cases hh : en.halts with
              | true => rfl
              | false =>
                rw [hr, hh] at hne
                simp only [Bool.false_eq_true, if_false] at hne ⊢
                exact ih _ hne

theorem norm_eq_deviation (o : Outcome) : o.norm = .deviation ↔ o = .deviation := by
  cases o <;> simp [Outcome.norm]

theorem inv_start (gas : Nat) (h : gas < 2 ^ 60) : Inv (startMachine gas) :=
  ⟨(by intro v hv; cases hv), (by show (0 : Nat) % 32 = 0; decide), (by show (0 : Nat) ≤ _; decide),
    (by show (0 : UInt64).toNat = EvmSpec.cmem (0 / 32); decide), h⟩

/-- opReturnDataCopy's bounds check (big.Int sum, BitLen, Uint64 truncation) is exactly "reads past the end of the buffer" -/
theorem returnDataCopy_oob_iff (rdLen doff len : Nat) (hrd : rdLen < 2 ^ 64) :
    (bitLen ((doff : Int) + (len : Int)) > 64 ∨ rdLen < uint64 ((doff : Int) + (len : Int))) ↔ doff + len > rdLen := by
  have hsum : (doff : Int) + (len : Int) = ((doff + len : Nat) : Int) := by simp
  rw [hsum]
  constructor
  · intro h
    rcases h with h | h
    · have := (bitLen_natCast_gt (doff + len) 64).1 h; omega
    · by_cases hbig : doff + len ≥ 2 ^ 64
      · omega
      · rw [uint64_of_nat _ (doff + len) rfl (by omega)] at h; exact h
  · intro h
    by_cases hbig : doff + len ≥ 2 ^ 64
    · left; exact (bitLen_natCast_gt (doff + len) 64).2 hbig
    · right; rw [uint64_of_nat _ (doff + len) rfl (by omega)]; exact h
end Aqv.Evm

/-
  Aqv.Lemmas.TxList — lemmas about the nonce-sorted list model of txSortedMap / txList (core/tx_list.go).
-/
import Aqv.Model.TxPool
namespace Aqv.TxPool

/-- strictly increasing nonces -/
def Sorted (l : List Tx) : Prop := l.Pairwise (fun a b => a.nonce < b.nonce)

theorem Sorted.nil : Sorted [] := List.Pairwise.nil

theorem sorted_cons {x : Tx} {l : List Tx} : Sorted (x :: l) ↔ (∀ y ∈ l, x.nonce < y.nonce) ∧ Sorted l := by
  unfold Sorted; exact List.pairwise_cons

theorem Sorted.filter {l : List Tx} (p : Tx → Bool) (h : Sorted l) : Sorted (l.filter p) :=
  List.Pairwise.sublist List.filter_sublist h

theorem Sorted.take {l : List Tx} (k : Nat) (h : Sorted l) : Sorted (l.take k) :=
  List.Pairwise.sublist (List.take_sublist k l) h

theorem Sorted.drop {l : List Tx} (k : Nat) (h : Sorted l) : Sorted (l.drop k) :=
  List.Pairwise.sublist (List.drop_sublist k l) h

/-- in a sorted list a nonce identifies the element -/
theorem Sorted.nonce_inj {l : List Tx} (h : Sorted l) {t u : Tx} (ht : t ∈ l) (hu : u ∈ l) (e : t.nonce = u.nonce) : t = u := by
  induction l with
  | nil => cases ht
  | cons x xs ih =>
    rw [sorted_cons] at h
    rcases List.mem_cons.mp ht with rfl | ht' <;> rcases List.mem_cons.mp hu with rfl | hu'
    · rfl
    · have := h.1 _ hu'; omega
    · have := h.1 _ ht'; omega
    · exact ih h.2 ht' hu'

/-! ### getN -/

theorem getN_some {l : List Tx} {n : Nat} {t : Tx} (h : getN l n = some t) : t ∈ l ∧ t.nonce = n := by
  induction l with
  | nil => simp [getN] at h
  | cons x xs ih =>
    simp only [getN] at h
    split at h
    · cases h; exact ⟨List.mem_cons_self, by assumption⟩
    · have := ih h; exact ⟨List.mem_cons_of_mem _ this.1, this.2⟩

theorem getN_none {l : List Tx} {n : Nat} : getN l n = none ↔ ∀ t ∈ l, t.nonce ≠ n := by
  induction l with
  | nil => simp [getN]
  | cons x xs ih =>
    simp only [getN]
    split
    · rename_i h; simp only [reduceCtorEq, false_iff]; intro hh; exact hh x List.mem_cons_self h
    · rename_i h; rw [ih]; constructor
      · intro hh t ht; rcases List.mem_cons.mp ht with rfl | ht'
        · exact h
        · exact hh t ht'
      · intro hh t ht; exact hh t (List.mem_cons_of_mem _ ht)

theorem getN_of_mem {l : List Tx} (hs : Sorted l) {t : Tx} (ht : t ∈ l) : getN l t.nonce = some t := by
  cases h : getN l t.nonce with
  | none => exact absurd rfl (getN_none.mp h t ht)
  | some u => have := getN_some h; rw [hs.nonce_inj this.1 ht this.2]

/-! ### put -/

theorem mem_put_sub {t u : Tx} {l : List Tx} (h : u ∈ put t l) : u = t ∨ u ∈ l := by
  induction l with
  | nil => simp [put] at h; exact Or.inl h
  | cons x xs ih =>
    simp only [put] at h
    split at h
    · rcases List.mem_cons.mp h with rfl | h'
      · exact Or.inl rfl
      · exact Or.inr h'
    · split at h
      · rcases List.mem_cons.mp h with rfl | h'
        · exact Or.inl rfl
        · exact Or.inr (List.mem_cons_of_mem _ h')
      · rcases List.mem_cons.mp h with rfl | h'
        · exact Or.inr List.mem_cons_self
        · rcases ih h' with rfl | h''
          · exact Or.inl rfl
          · exact Or.inr (List.mem_cons_of_mem _ h'')

theorem mem_put_self (t : Tx) (l : List Tx) : t ∈ put t l := by
  induction l with
  | nil => simp [put]
  | cons x xs ih =>
    simp only [put]; split
    · exact List.mem_cons_self
    · split
      · exact List.mem_cons_self
      · exact List.mem_cons_of_mem _ ih

/-- in a sorted list `put` keeps exactly the elements with another nonce -/
theorem mem_put {t u : Tx} {l : List Tx} (hs : Sorted l) : u ∈ put t l ↔ u = t ∨ (u ∈ l ∧ u.nonce ≠ t.nonce) := by
  induction l with
  | nil => simp [put]
  | cons x xs ih =>
    rw [sorted_cons] at hs
    simp only [put]; split
    · rename_i hlt
      constructor
      · intro h; rcases List.mem_cons.mp h with rfl | h'
        · exact Or.inl rfl
        · refine Or.inr ⟨h', ?_⟩
          rcases List.mem_cons.mp h' with rfl | h''
          · omega
          · have := hs.1 _ h''; omega
      · rintro (rfl | ⟨h, _⟩)
        · exact List.mem_cons_self
        · exact List.mem_cons_of_mem _ h
    · split
      · rename_i hnlt heq
        constructor
        · intro h; rcases List.mem_cons.mp h with rfl | h'
          · exact Or.inl rfl
          · exact Or.inr ⟨List.mem_cons_of_mem _ h', by have := hs.1 _ h'; omega⟩
        · rintro (rfl | ⟨h, hne⟩)
          · exact List.mem_cons_self
          · rcases List.mem_cons.mp h with rfl | h'
            · exact absurd heq.symm hne
            · exact List.mem_cons_of_mem _ h'
      · rename_i hnlt hne
        constructor
        · intro h; rcases List.mem_cons.mp h with rfl | h'
          · exact Or.inr ⟨List.mem_cons_self, fun e => hne e.symm⟩
          · rcases (ih hs.2).mp h' with rfl | ⟨h'', hn⟩
            · exact Or.inl rfl
            · exact Or.inr ⟨List.mem_cons_of_mem _ h'', hn⟩
        · rintro (rfl | ⟨h, hn⟩)
          · exact List.mem_cons_of_mem _ (mem_put_self _ _)
          · rcases List.mem_cons.mp h with rfl | h'
            · exact List.mem_cons_self
            · exact List.mem_cons_of_mem _ ((ih hs.2).mpr (Or.inr ⟨h', hn⟩))

theorem put_sorted {t : Tx} {l : List Tx} (hs : Sorted l) : Sorted (put t l) := by
  induction l with
  | nil => simp [put, Sorted]
  | cons x xs ih =>
    have hs' := sorted_cons.mp hs
    simp only [put]; split
    · rename_i hlt
      rw [sorted_cons]; refine ⟨?_, hs⟩
      intro y hy; rcases List.mem_cons.mp hy with rfl | hy'
      · exact hlt
      · have := hs'.1 _ hy'; omega
    · split
      · rename_i _ heq
        rw [sorted_cons]; refine ⟨?_, hs'.2⟩
        intro y hy; have := hs'.1 _ hy; omega
      · rename_i hnlt hne
        rw [sorted_cons]; refine ⟨?_, ih hs'.2⟩
        intro y hy
        rcases mem_put_sub hy with rfl | hy'
        · omega
        · exact hs'.1 _ hy'

/-! ### runs -/

theorem IsRun.sorted {c : Nat} {l : List Tx} (h : IsRun c l) : Sorted l ∧ ∀ t ∈ l, c ≤ t.nonce ∧ t.nonce < c + l.length := by
  induction l generalizing c with
  | nil => exact ⟨Sorted.nil, by simp⟩
  | cons x xs ih =>
    obtain ⟨hx, hr⟩ := h
    have := ih hr
    refine ⟨sorted_cons.mpr ⟨fun y hy => by have := (this.2 y hy).1; omega, this.1⟩, ?_⟩
    intro t ht
    rcases List.mem_cons.mp ht with rfl | ht'
    · simp only [List.length_cons]; omega
    · have := this.2 t ht'; simp only [List.length_cons]; omega

theorem IsRun.take {c : Nat} {l : List Tx} (k : Nat) (h : IsRun c l) : IsRun c (l.take k) := by
  induction l generalizing c k with
  | nil => simp [IsRun]
  | cons x xs ih =>
    cases k with
    | zero => simp [IsRun]
    | succ k => simp only [List.take_succ_cons, IsRun]; exact ⟨h.1, ih k h.2⟩

theorem IsRun.drop {c : Nat} {l : List Tx} (k : Nat) (h : IsRun c l) : IsRun (c + k) (l.drop k) := by
  induction l generalizing c k with
  | nil => simp [IsRun]
  | cons x xs ih =>
    cases k with
    | zero => simpa using h
    | succ k =>
      simp only [List.drop_succ_cons]
      have := ih k h.2
      rwa [show c + 1 + k = c + (k + 1) by omega] at this

theorem IsRun.append {c : Nat} {l1 l2 : List Tx} (h1 : IsRun c l1) (h2 : IsRun (c + l1.length) l2) : IsRun c (l1 ++ l2) := by
  induction l1 generalizing c with
  | nil => simpa using h2
  | cons x xs ih =>
    refine ⟨h1.1, ih h1.2 ?_⟩
    simp only [List.length_cons] at h2
    rwa [show c + 1 + xs.length = c + (xs.length + 1) by omega]

/-- the entry of a run at a covered nonce exists -/
theorem IsRun.getN_isSome {c : Nat} {l : List Tx} (h : IsRun c l) {n : Nat} (h1 : c ≤ n) (h2 : n < c + l.length) :
    (getN l n).isSome := by
  induction l generalizing c with
  | nil => simp at h2; omega
  | cons x xs ih =>
    simp only [getN]; split
    · rfl
    · rename_i hne
      have hx := h.1
      apply ih h.2 (by omega) (by simp only [List.length_cons] at h2; omega)

/-- removing everything from nonce `n` upwards keeps a run -/
theorem IsRun.filter_lt {c : Nat} {l : List Tx} (n : Nat) (h : IsRun c l) :
    IsRun c (l.filter (fun t => decide (t.nonce < n))) := by
  induction l generalizing c with
  | nil => simp [IsRun]
  | cons x xs ih =>
    simp only [List.filter_cons]
    split
    · exact ⟨h.1, ih h.2⟩
    · rename_i hx
      have hall : xs.filter (fun t => decide (t.nonce < n)) = [] := by
        rw [List.filter_eq_nil_iff]
        intro t ht
        have := (h.2.sorted.2 t ht).1
        have := h.1
        simp only [decide_eq_true_eq] at hx ⊢; omega
      rw [hall]; trivial

theorem IsRun.length_filter_lt {c : Nat} {l : List Tx} (n : Nat) (h : IsRun c l) (h1 : c ≤ n) (h2 : n ≤ c + l.length) :
    c + (l.filter (fun t => decide (t.nonce < n))).length = n := by
  induction l generalizing c with
  | nil => simp at h2 ⊢; omega
  | cons x xs ih =>
    have hx := h.1
    simp only [List.filter_cons]
    by_cases hlt : x.nonce < n
    · simp only [hlt, decide_true, if_true, List.length_cons]
      have := ih h.2 (by omega) (by simp only [List.length_cons] at h2; omega)
      omega
    · have hall : xs.filter (fun t => decide (t.nonce < n)) = [] := by
        rw [List.filter_eq_nil_iff]
        intro t ht
        have := (h.2.sorted.2 t ht).1
        simp only [decide_eq_true_eq]; omega
      simp only [hlt, decide_false, Bool.false_eq_true, if_false, hall, List.length_nil]
      omega

/-- `Forward(n)` on a run: what remains is a run starting at `max c n` -/
theorem IsRun.filter_ge {c : Nat} {l : List Tx} (n : Nat) (h : IsRun c l) :
    IsRun (max c n) (l.filter (fun t => !decide (t.nonce < n))) := by
  induction l generalizing c with
  | nil => simp [IsRun]
  | cons x xs ih =>
    simp only [List.filter_cons]
    have hx := h.1
    split
    · rename_i hk
      simp only [Bool.not_eq_true', decide_eq_false_iff_not, Nat.not_lt] at hk
      have hall : xs.filter (fun t => !decide (t.nonce < n)) = xs := by
        rw [List.filter_eq_self]
        intro t ht
        have := (h.2.sorted.2 t ht).1
        simp only [Bool.not_eq_true', decide_eq_false_iff_not, Nat.not_lt]; omega
      rw [hall, show max c n = c by omega]
      exact ⟨hx, h.2⟩
    · rename_i hk
      simp only [Bool.not_eq_true', decide_eq_false_iff_not, Nat.not_lt, Nat.not_le] at hk
      have := ih h.2
      rwa [show max (c + 1) n = max c n by omega] at this

/-- appending the next nonce extends a run -/
theorem IsRun.put_next {c : Nat} {l : List Tx} (h : IsRun c l) {t : Tx} (ht : t.nonce = c + l.length) :
    put t l = l ++ [t] ∧ IsRun c (l ++ [t]) := by
  induction l generalizing c with
  | nil => simp at ht; simp [put, IsRun, ht]
  | cons x xs ih =>
    have hx := h.1
    simp only [List.length_cons] at ht
    have := ih h.2 (by omega)
    simp only [put, List.cons_append, IsRun]
    rw [if_neg (by omega), if_neg (by omega), this.1]
    exact ⟨rfl, hx, this.2⟩

/-- replacing the entry of an occupied nonce keeps a run -/
theorem IsRun.put_replace {c : Nat} {l : List Tx} (h : IsRun c l) {t : Tx} (ht : (getN l t.nonce).isSome) :
    IsRun c (put t l) ∧ (put t l).length = l.length := by
  induction l generalizing c with
  | nil => simp [getN] at ht
  | cons x xs ih =>
    have hx := h.1
    simp only [getN] at ht
    simp only [put]
    split at ht
    · rename_i he
      rw [if_neg (by omega), if_pos he.symm]
      exact ⟨⟨by omega, h.2⟩, rfl⟩
    · rename_i hne
      have hgt : x.nonce < t.nonce := by
        cases hg : getN xs t.nonce with
        | none => rw [hg] at ht; cases ht
        | some u =>
          have := getN_some hg
          have := (h.2.sorted.2 u this.1).1
          omega
      rw [if_neg (by omega), if_neg (by omega)]
      have := ih h.2 ht
      exact ⟨⟨hx, this.1⟩, by simp [this.2]⟩

theorem IsRun.length_le_of_getLast {c : Nat} {l : List Tx} (h : IsRun c l) {t : Tx} (ht : l.getLast? = some t) :
    t.nonce + 1 = c + l.length := by
  induction l generalizing c with
  | nil => simp at ht
  | cons x xs ih =>
    cases xs with
    | nil => simp at ht; subst ht; have := h.1; simp; omega
    | cons y ys =>
      rw [List.getLast?_cons_cons] at ht
      have := ih h.2 ht
      simp only [List.length_cons] at this ⊢; omega

/-! ### runFrom / ready  (`ready_is_maximal_run`) -/

theorem runFrom_append (c : Nat) (l : List Tx) : (runFrom c l).1 ++ (runFrom c l).2 = l := by
  induction l generalizing c with
  | nil => simp [runFrom]
  | cons x xs ih =>
    simp only [runFrom]; split
    · simp [ih]
    · simp

theorem runFrom_isRun (c : Nat) (l : List Tx) : IsRun c (runFrom c l).1 := by
  induction l generalizing c with
  | nil => simp [runFrom, IsRun]
  | cons x xs ih =>
    simp only [runFrom]; split
    · rename_i h; exact ⟨h, ih (c + 1)⟩
    · trivial

/-- maximality: the element after the run does not continue it -/
theorem runFrom_maximal (c : Nat) (l : List Tx) : ∀ y ∈ (runFrom c l).2.head?, y.nonce ≠ c + (runFrom c l).1.length := by
  induction l generalizing c with
  | nil => simp [runFrom]
  | cons x xs ih =>
    simp only [runFrom]; split
    · intro y hy
      have := ih (c + 1) y hy
      simp only [List.length_cons]; omega
    · rename_i h; intro y hy; simp at hy; subst hy; simpa using h

theorem take_runFrom (c : Nat) (l : List Tx) : l.take (runFrom c l).1.length = (runFrom c l).1 := by
  have h := runFrom_append c l
  have := List.take_left' (l₁ := (runFrom c l).1) (l₂ := (runFrom c l).2) rfl
  rwa [h] at this

theorem drop_runFrom (c : Nat) (l : List Tx) : l.drop (runFrom c l).1.length = (runFrom c l).2 := by
  have h := runFrom_append c l
  have := List.drop_left' (l₁ := (runFrom c l).1) (l₂ := (runFrom c l).2) rfl
  rwa [h] at this

/-- the lowest entry of a sorted list, if it sits at `c`, belongs to the run from `c` -/
theorem mem_runFrom_head {c : Nat} {l : List Tx} (hs : Sorted l) (hge : ∀ t ∈ l, c ≤ t.nonce) {e : Tx} (he : e ∈ l)
    (hen : e.nonce = c) : e ∈ (runFrom c l).1 := by
  cases l with
  | nil => cases he
  | cons x xs =>
    have hx := hge x List.mem_cons_self
    rcases List.mem_cons.mp he with rfl | he'
    · simp [runFrom, hen]
    · have := (sorted_cons.mp hs).1 e he'; omega

theorem runFrom_of_isRun {c : Nat} {l : List Tx} (h : IsRun c l) : runFrom c l = (l, []) := by
  induction l generalizing c with
  | nil => simp [runFrom]
  | cons x xs ih => simp only [runFrom]; rw [if_pos h.1, ih h.2]

theorem runFrom_prefix_of_isRun {c : Nat} {l r : List Tx} (h : IsRun c l) :
    (runFrom c (l ++ r)).1 = l ++ (runFrom (c + l.length) r).1 := by
  induction l generalizing c with
  | nil => simp
  | cons x xs ih =>
    simp only [List.cons_append, runFrom]; rw [if_pos h.1]
    simp only [List.length_cons]
    rw [ih h.2, show c + 1 + xs.length = c + (xs.length + 1) by omega]

theorem ready_append (start : Nat) (l : List Tx) : (ready start l).1 ++ (ready start l).2 = l := by
  unfold ready
  cases l with
  | nil => simp
  | cons x xs => simp only; split
                 · simp
                 · exact runFrom_append _ _

theorem ready_sub (start : Nat) (l : List Tx) : (∀ t ∈ (ready start l).1, t ∈ l) ∧ (∀ t ∈ (ready start l).2, t ∈ l) := by
  have := ready_append start l
  constructor <;> intro t ht <;> rw [← this] <;> simp [ht]

/-- `ready` on a sorted list all of whose nonces are ≥ start: either nothing (lowest nonce above start) or the maximal
    run starting exactly at `start`; the rest lies strictly above the run. -/
theorem ready_spec {start : Nat} {l : List Tx} (hs : Sorted l) (hge : ∀ t ∈ l, start ≤ t.nonce) :
    IsRun start (ready start l).1 ∧ Sorted (ready start l).2 ∧
    (∀ t ∈ (ready start l).2, start + (ready start l).1.length < t.nonce ∨ ((ready start l).1 = [] ∧ start < t.nonce)) := by
  unfold ready
  cases l with
  | nil => simp [IsRun, Sorted]
  | cons x xs =>
    simp only
    split
    · rename_i hlt
      refine ⟨trivial, hs, ?_⟩
      intro t ht
      right; refine ⟨rfl, ?_⟩
      rcases List.mem_cons.mp ht with rfl | ht'
      · exact hlt
      · have := (sorted_cons.mp hs).1 _ ht'; omega
    · rename_i hnlt
      have hx : x.nonce = start := by have := hge x List.mem_cons_self; omega
      rw [hx]
      have happ := runFrom_append start (x :: xs)
      have hrun := runFrom_isRun start (x :: xs)
      have hmax := runFrom_maximal start (x :: xs)
      have hsorted : Sorted ((runFrom start (x :: xs)).1 ++ (runFrom start (x :: xs)).2) := by rw [happ]; exact hs
      refine ⟨hrun, ?_, ?_⟩
      · exact List.Pairwise.sublist (List.sublist_append_right _ _) hsorted
      · intro t ht
        left
        -- t is above every run element and differs from the next nonce
        have hne : (runFrom start (x :: xs)).1 ≠ [] := by simp [runFrom, hx]
        obtain ⟨lst, hl⟩ : ∃ lst, (runFrom start (x :: xs)).1.getLast? = some lst := by
          cases h : (runFrom start (x :: xs)).1.getLast? with
          | none => exact absurd (List.getLast?_eq_none_iff.mp h) hne
          | some v => exact ⟨v, rfl⟩
        have hlast := hrun.length_le_of_getLast hl
        have hmem : lst ∈ (runFrom start (x :: xs)).1 := List.mem_of_getLast? hl
        have hlt : lst.nonce < t.nonce := by
          have := List.pairwise_append.mp hsorted
          exact this.2.2 _ hmem _ ht
        -- head of the rest is ≠ next; everything in rest is ≥ head
        cases hr : (runFrom start (x :: xs)).2 with
        | nil => rw [hr] at ht; cases ht
        | cons y ys =>
          have hy := hmax y (by rw [hr]; simp)
          have hylt : lst.nonce < y.nonce := by
            have := List.pairwise_append.mp hsorted
            exact this.2.2 _ hmem _ (by rw [hr]; exact List.mem_cons_self)
          have hsr : Sorted (y :: ys) := by
            rw [← hr]; exact List.Pairwise.sublist (List.sublist_append_right _ _) hsorted
          rw [hr] at ht
          rcases List.mem_cons.mp ht with rfl | ht'
          · omega
          · have := (sorted_cons.mp hsr).1 _ ht'; omega

/-! ### caps -/

/-- `costcap` / `gascap` are upper bounds of what the list holds (`costcap_upper_bound`) -/
def CapsOK (l : TxL) : Prop := ∀ t ∈ l.items, t.cost ≤ l.costcap ∧ t.gas ≤ l.gascap

theorem CapsOK.empty (b : Bool) : CapsOK (TxL.empty b) := by intro t ht; cases ht

theorem CapsOK.sub {l : TxL} (h : CapsOK l) {items : List Tx} (hsub : ∀ t ∈ items, t ∈ l.items) :
    CapsOK { l with items := items } := fun t ht => h t (hsub t ht)

theorem CapsOK.putTx {l : TxL} (h : CapsOK l) (t : Tx) : CapsOK (l.putTx t) := by
  intro u hu
  simp only [TxL.putTx] at hu ⊢
  rcases mem_put_sub hu with rfl | hu'
  · exact ⟨Nat.le_max_right _ _, Nat.le_max_right _ _⟩
  · have := h u hu'; exact ⟨Nat.le_trans this.1 (Nat.le_max_left _ _), Nat.le_trans this.2 (Nat.le_max_left _ _)⟩

/-! ### txList.Add (`add_bump_rule`) -/

/-- txList.Add: a transaction of an occupied nonce is inserted iff it meets the price bump; then it takes exactly that
    slot; an unoccupied nonce is always inserted. -/
theorem TxL.add_spec (l : TxL) (t : Tx) (bump : Nat) (hs : Sorted l.items) :
    let r := l.add t bump
    (r.1 = true → (∀ u, u ∈ r.2.2.items ↔ u = t ∨ (u ∈ l.items ∧ u.nonce ≠ t.nonce)) ∧ Sorted r.2.2.items ∧
                  r.2.2.strict = l.strict) ∧
    (r.1 = false → r.2.2 = l ∧ ∃ o, getN l.items t.nonce = some o ∧ bumpOK o t bump = false) ∧
    (∀ o, r.2.1 = some o → getN l.items t.nonce = some o ∧ bumpOK o t bump = true ∧ r.1 = true) ∧
    (r.1 = true → r.2.1 = none → getN l.items t.nonce = none) := by
  simp only [TxL.add]
  cases hg : getN l.items t.nonce with
  | none =>
    simp only
    refine ⟨fun _ => ⟨fun u => mem_put hs, put_sorted hs, rfl⟩, by simp, by simp, by simp⟩
  | some o =>
    simp only
    cases hb : bumpOK o t bump with
    | true =>
      simp only [if_true]
      refine ⟨fun _ => ⟨fun u => mem_put hs, put_sorted hs, rfl⟩, by simp, ?_, by simp⟩
      intro o' ho'; cases ho'; exact ⟨rfl, hb, trivial⟩
    | false =>
      simp only [Bool.false_eq_true, if_false]
      refine ⟨by simp, fun _ => ⟨trivial, o, rfl, hb⟩, by simp, by simp⟩

theorem TxL.add_caps (l : TxL) (t : Tx) (bump : Nat) (h : CapsOK l) : CapsOK (l.add t bump).2.2 := by
  simp only [TxL.add]
  split
  · split
    · exact h.putTx t
    · exact h
  · exact h.putTx t

theorem TxL.add_items_sub (l : TxL) (t : Tx) (bump : Nat) : ∀ u ∈ (l.add t bump).2.2.items, u = t ∨ u ∈ l.items := by
  intro u hu
  simp only [TxL.add] at hu
  split at hu
  · split at hu
    · exact mem_put_sub hu
    · exact Or.inr hu
  · exact mem_put_sub hu

theorem TxL.add_strict (l : TxL) (t : Tx) (bump : Nat) : (l.add t bump).2.2.strict = l.strict := by
  simp only [TxL.add]; split
  · split <;> rfl
  · rfl

/-! ### lowest -/

theorem lowest_mem {l : List Tx} (h : l ≠ []) : ∃ t ∈ l, t.nonce = lowest l := by
  induction l with
  | nil => exact absurd rfl h
  | cons x xs ih =>
    cases xs with
    | nil => exact ⟨x, List.mem_cons_self, rfl⟩
    | cons y ys =>
      simp only [lowest]
      obtain ⟨t, ht, he⟩ := ih (by simp)
      by_cases hc : x.nonce ≤ lowest (y :: ys)
      · exact ⟨x, List.mem_cons_self, by omega⟩
      · exact ⟨t, List.mem_cons_of_mem _ ht, by omega⟩

theorem lowest_le {l : List Tx} {t : Tx} (ht : t ∈ l) : lowest l ≤ t.nonce := by
  induction l with
  | nil => cases ht
  | cons x xs ih =>
    cases xs with
    | nil => simp at ht; subst ht; simp [lowest]
    | cons y ys =>
      simp only [lowest]
      rcases List.mem_cons.mp ht with rfl | ht'
      · omega
      · have := ih ht'; omega

/-! ### txList.Filter (`filter_strict_keeps_prefix`) -/

theorem unpayable_false {c g : Nat} {t : Tx} : unpayable c g t = false ↔ t.cost ≤ c ∧ t.gas ≤ g := by
  simp [unpayable, Nat.not_lt]

/-- the strict-mode result of Filter, as one filter: everything below the lowest unpayable nonce -/
theorem strict_filter_eq {items : List Tx} (hs : Sorted items) (c g : Nat)
    (hne : items.filter (unpayable c g) ≠ []) :
    ((items.filter (fun t => !unpayable c g t)).filter (fun t => !decide (lowest (items.filter (unpayable c g)) < t.nonce)))
      = items.filter (fun t => decide (t.nonce < lowest (items.filter (unpayable c g)))) := by
  rw [List.filter_filter]
  apply List.filter_congr
  intro t ht
  obtain ⟨b, hb, hbl⟩ := lowest_mem hne
  have hb' := List.mem_filter.mp hb
  by_cases hbad : unpayable c g t = true
  · have h1 : lowest (items.filter (unpayable c g)) ≤ t.nonce := lowest_le (List.mem_filter.mpr ⟨ht, hbad⟩)
    have h2 : ¬ t.nonce < lowest (items.filter (unpayable c g)) := by omega
    simp [hbad, h2]
  · simp only [Bool.not_eq_true] at hbad
    have hne' : t.nonce ≠ lowest (items.filter (unpayable c g)) := by
      intro e
      have := hs.nonce_inj ht hb'.1 (by omega)
      subst this; rw [hb'.2] at hbad; cases hbad
    by_cases h2 : t.nonce < lowest (items.filter (unpayable c g))
    · have h3 : ¬ lowest (items.filter (unpayable c g)) < t.nonce := by omega
      simp [hbad, h2, h3]
    · have h3 : lowest (items.filter (unpayable c g)) < t.nonce := by omega
      simp [hbad, h2, h3]

structure FilterSpec (l : TxL) (c g : Nat) (r : List Tx × List Tx × TxL) : Prop where
  kept_sub   : ∀ t ∈ r.2.2.items, t ∈ l.items
  kept_pay   : CapsOK l → ∀ t ∈ r.2.2.items, t.cost ≤ c ∧ t.gas ≤ g
  sorted     : Sorted l.items → Sorted r.2.2.items
  strict     : r.2.2.strict = l.strict
  caps       : CapsOK l → CapsOK r.2.2
  rem_sub    : ∀ t ∈ r.1, t ∈ l.items
  inv_sub    : ∀ t ∈ r.2.1, t ∈ l.items
  inv_above  : Sorted l.items → ∀ t ∈ r.2.1, ∀ u ∈ r.2.2.items, u.nonce < t.nonce
  inv_disj   : Sorted l.items → ∀ t ∈ r.2.1, t ∉ r.2.2.items
  inv_sorted : Sorted l.items → Sorted r.2.1
  nonstrict  : l.strict = false → r.2.1 = []
  run        : l.strict = true → ∀ c0, IsRun c0 l.items → IsRun c0 r.2.2.items
  cover      : ∀ t ∈ l.items, t ∈ r.2.2.items ∨ t ∈ r.1 ∨ t ∈ r.2.1
  rem_unpay  : ∀ t ∈ r.1, unpayable c g t = true
  inv_low    : ∀ t ∈ r.2.1, ∃ u ∈ r.1, u.nonce < t.nonce

theorem TxL.filter_spec (l : TxL) (c g : Nat) : FilterSpec l c g (l.filter c g) := by
  unfold TxL.filter
  split
  · rename_i hcap
    exact { kept_sub := fun _ h => h
            kept_pay := fun hc t ht => by have := hc t ht; omega
            sorted := id, strict := rfl, caps := id
            rem_sub := by simp, inv_sub := by simp, inv_above := by simp, inv_disj := by simp
            inv_sorted := fun _ => Sorted.nil, nonstrict := fun _ => rfl, run := fun _ _ h => h
            cover := fun t ht => Or.inl ht
            rem_unpay := by simp, inv_low := by simp }
  · by_cases hstrict : (l.strict && !(l.items.filter (unpayable c g)).isEmpty) = true
    · simp only [hstrict, if_true]
      simp only [Bool.and_eq_true, Bool.not_eq_true', List.isEmpty_eq_false_iff] at hstrict
      obtain ⟨hst, hne⟩ := hstrict
      have hkept : ∀ t, t ∈ ((l.items.filter (fun t => !unpayable c g t)).filter
            (fun t => !decide (lowest (l.items.filter (unpayable c g)) < t.nonce))) →
            t ∈ l.items ∧ unpayable c g t = false ∧ t.nonce ≤ lowest (l.items.filter (unpayable c g)) := by
        intro t ht
        have h1 := List.mem_filter.mp ht
        have h2 := List.mem_filter.mp h1.1
        refine ⟨h2.1, by simpa using h2.2, by simpa [Nat.not_lt] using h1.2⟩
      exact {
        kept_sub := fun t ht => (hkept t ht).1
        kept_pay := fun _ t ht => unpayable_false.mp (hkept t ht).2.1
        sorted := fun hs => (hs.filter _).filter _
        strict := rfl
        caps := fun _ t ht => unpayable_false.mp (hkept t ht).2.1
        rem_sub := fun t ht => (List.mem_filter.mp ht).1
        inv_sub := fun t ht => (List.mem_filter.mp (List.mem_filter.mp ht).1).1
        inv_above := fun _ t ht u hu => by
          have h1 := List.mem_filter.mp ht
          have := (hkept u hu).2.2
          have : lowest (l.items.filter (unpayable c g)) < t.nonce := by simpa using h1.2
          omega
        inv_disj := fun _ t ht hu => by
          have h1 := List.mem_filter.mp ht
          have := (hkept t hu).2.2
          have : lowest (l.items.filter (unpayable c g)) < t.nonce := by simpa using h1.2
          omega
        inv_sorted := fun hs => (hs.filter _).filter _
        nonstrict := fun h => by rw [hst] at h; cases h
        run := fun _ c0 hr => by
          show IsRun c0 ((l.items.filter (fun t => !unpayable c g t)).filter _)
          rw [strict_filter_eq hr.sorted.1 c g hne]
          exact hr.filter_lt _
        cover := fun t ht => by
          by_cases hbad : unpayable c g t = true
          · exact Or.inr (Or.inl (List.mem_filter.mpr ⟨ht, hbad⟩))
          · simp only [Bool.not_eq_true] at hbad
            by_cases hlow : lowest (l.items.filter (unpayable c g)) < t.nonce
            · exact Or.inr (Or.inr (List.mem_filter.mpr ⟨List.mem_filter.mpr ⟨ht, by simp [hbad]⟩, by simpa using hlow⟩))
            · exact Or.inl (List.mem_filter.mpr ⟨List.mem_filter.mpr ⟨ht, by simp [hbad]⟩, by simpa using hlow⟩)
        rem_unpay := fun t ht => (List.mem_filter.mp ht).2
        inv_low := fun t ht => by
          obtain ⟨b, hb, hbl⟩ := lowest_mem hne
          have h1 := List.mem_filter.mp ht
          have : lowest (l.items.filter (unpayable c g)) < t.nonce := by simpa using h1.2
          exact ⟨b, hb, by omega⟩ }
    · simp only [hstrict, Bool.false_eq_true, if_false]
      have hkept : ∀ t, t ∈ l.items.filter (fun t => !unpayable c g t) → t ∈ l.items ∧ unpayable c g t = false := by
        intro t ht
        have h2 := List.mem_filter.mp ht
        exact ⟨h2.1, by simpa using h2.2⟩
      exact {
        kept_sub := fun t ht => (hkept t ht).1
        kept_pay := fun _ t ht => unpayable_false.mp (hkept t ht).2
        sorted := fun hs => hs.filter _
        strict := rfl
        caps := fun _ t ht => unpayable_false.mp (hkept t ht).2
        rem_sub := fun t ht => (List.mem_filter.mp ht).1
        inv_sub := by simp, inv_above := by simp, inv_disj := by simp
        inv_sorted := fun _ => Sorted.nil
        nonstrict := fun _ => rfl
        run := fun hst c0 hr => by
          -- strict list but nothing removed: the filter keeps everything
          have hstrict : l.items.filter (unpayable c g) = [] := by
            cases hh : l.items.filter (unpayable c g) with
            | nil => rfl
            | cons y ys => rw [hst, hh] at hstrict; simp at hstrict
          have : l.items.filter (fun t => !unpayable c g t) = l.items := by
            rw [List.filter_eq_self]
            intro t ht
            have := (List.filter_eq_nil_iff.mp hstrict) t ht
            simpa using this
          show IsRun c0 (l.items.filter (fun t => !unpayable c g t))
          rw [this]; exact hr
        cover := fun t ht => by
          by_cases hbad : unpayable c g t = true
          · exact Or.inr (Or.inl (List.mem_filter.mpr ⟨ht, hbad⟩))
          · simp only [Bool.not_eq_true] at hbad
            exact Or.inl (List.mem_filter.mpr ⟨ht, by simp [hbad]⟩)
        rem_unpay := fun t ht => (List.mem_filter.mp ht).2
        inv_low := by simp }

/-! ### txList.Remove -/

structure RemoveSpec (l : TxL) (t : Tx) (r : Bool × List Tx × TxL) : Prop where
  notfound : r.1 = false → r.2.2 = l ∧ r.2.1 = [] ∧ getN l.items t.nonce = none
  found    : r.1 = true → (getN l.items t.nonce).isSome
  kept_sub : ∀ u ∈ r.2.2.items, u ∈ l.items ∧ u.nonce ≠ t.nonce
  strict   : r.2.2.strict = l.strict
  caps_eq  : r.2.2.costcap = l.costcap ∧ r.2.2.gascap = l.gascap
  inv_sub  : ∀ u ∈ r.2.1, u ∈ l.items ∧ t.nonce < u.nonce
  inv_sorted : Sorted l.items → Sorted r.2.1
  sorted   : Sorted l.items → Sorted r.2.2.items
  kept_strict : l.strict = true → r.1 = true → r.2.2.items = l.items.filter (fun u => decide (u.nonce < t.nonce))
  kept_loose  : l.strict = false → r.2.1 = [] ∧ (r.1 = true → r.2.2.items = l.items.filter (fun u => !decide (u.nonce = t.nonce)))
  inv_all  : l.strict = true → r.1 = true → ∀ u ∈ l.items, t.nonce < u.nonce → u ∈ r.2.1
  kept_all : l.strict = false → ∀ u ∈ l.items, u.nonce ≠ t.nonce → u ∈ r.2.2.items
  loose_items : l.strict = false → r.2.2.items = l.items.filter (fun u => !decide (u.nonce = t.nonce))

theorem TxL.remove_spec (l : TxL) (t : Tx) : RemoveSpec l t (l.remove t) := by
  unfold TxL.remove
  cases hg : getN l.items t.nonce with
  | none =>
    exact { notfound := fun _ => ⟨rfl, rfl, hg⟩, found := by simp
            kept_sub := fun u hu => ⟨hu, getN_none.mp hg u hu⟩
            strict := rfl, caps_eq := ⟨rfl, rfl⟩, inv_sub := by simp, inv_sorted := fun _ => Sorted.nil
            sorted := id
            kept_strict := by simp, kept_loose := fun _ => ⟨rfl, by simp⟩
            inv_all := by simp, kept_all := fun _ u hu _ => hu
            loose_items := fun _ => by
              symm; rw [List.filter_eq_self]
              intro u hu; simpa using getN_none.mp hg u hu }
  | some o =>
    simp only
    split
    · rename_i hst
      have hf : (l.items.filter (fun u => !decide (u.nonce = t.nonce))).filter (fun u => !decide (t.nonce < u.nonce))
          = l.items.filter (fun u => decide (u.nonce < t.nonce)) := by
        rw [List.filter_filter]; apply List.filter_congr; intro u _
        by_cases h1 : u.nonce = t.nonce <;> by_cases h2 : t.nonce < u.nonce <;> simp [h1, h2] <;> omega
      exact { notfound := by simp, found := fun _ => by rw [hg]; rfl
              kept_sub := fun u hu => by
                have h1 := List.mem_filter.mp hu
                have h2 := List.mem_filter.mp h1.1
                exact ⟨h2.1, by simpa using h2.2⟩
              strict := rfl, caps_eq := ⟨rfl, rfl⟩
              inv_sub := fun u hu => by
                have h1 := List.mem_filter.mp hu
                have h2 := List.mem_filter.mp h1.1
                exact ⟨h2.1, by simpa using h1.2⟩
              inv_sorted := fun hs => (hs.filter _).filter _
              sorted := fun hs => (hs.filter _).filter _
              kept_strict := fun _ _ => hf
              kept_loose := fun h => by rw [hst] at h; cases h
              inv_all := fun _ _ u hu hlt => List.mem_filter.mpr ⟨List.mem_filter.mpr ⟨hu, by simp; omega⟩, by simpa using hlt⟩
              kept_all := fun h => by rw [hst] at h; cases h
              loose_items := fun h => by rw [hst] at h; cases h }
    · rename_i hst
      exact { notfound := by simp, found := fun _ => by rw [hg]; rfl
              kept_sub := fun u hu => by
                have h2 := List.mem_filter.mp hu
                exact ⟨h2.1, by simpa using h2.2⟩
              strict := rfl, caps_eq := ⟨rfl, rfl⟩, inv_sub := by simp, inv_sorted := fun _ => Sorted.nil
              sorted := fun hs => hs.filter _
              kept_strict := fun h => by rw [h] at hst; exact absurd rfl hst
              kept_loose := fun _ => ⟨rfl, fun _ => rfl⟩
              inv_all := fun h => by rw [h] at hst; exact absurd rfl hst
              kept_all := fun _ u hu hne => List.mem_filter.mpr ⟨hu, by simpa using hne⟩
              loose_items := fun _ => rfl }

end Aqv.TxPool

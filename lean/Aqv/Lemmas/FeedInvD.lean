/-
  Aqv.Lemmas.FeedInvD — channel occupancy: a channel never holds more than its capacity plus one value per receiver
  blocked on it (unbuffered hand-off = capacity 0 with a waiting receiver); nothing is ever queued on a channel that was
  never subscribed; a Send sits in Select only with at least one active case.  Used by the progress statements.
-/
import Aqv.Lemmas.FeedInvA
namespace Aqv.Feed
set_option linter.unusedSimpArgs false
set_option linter.unusedVariables false

structure InvD (s : St) : Prop where
  occ : ∀ c, (s.buf c).length ≤ s.cap c + s.waiting c
  fresh : ∀ c, s.subscribed c = false → s.buf c = []
  sel_pos : ∀ g, s.spc g = .sel → 0 < s.active

theorem invD_init : InvD init := by
  constructor <;> simp [init]

macro "invd_auto" : tactic =>
  `(tactic| (constructor <;> simp only [canPlace, decide_eq_true_eq, List.length_append, List.length_cons, List.length_nil] at * <;> (try assumption) <;> (try grind [SPc.held, RPc.held, SPc.merged])))

theorem invD_subscribe (s s' : St) (c k : Nat) (ha : InvA s) (h : InvD s) (hs : step s (.subscribe c k) = some s') : InvD s' := by
  obtain ⟨a1,a2,a3,a4,a5,a6,a7,a8,a9,a10,a11,a12,a13,a14⟩ := ha
  obtain ⟨h1,h2,h3⟩ := h
  have mh := merged_held
  step_split hs
  all_goals invd_auto

theorem invD_sendCall (s s' : St) (g : Nat) (ha : InvA s) (h : InvD s) (hs : step s (.sendCall g) = some s') : InvD s' := by
  obtain ⟨a1,a2,a3,a4,a5,a6,a7,a8,a9,a10,a11,a12,a13,a14⟩ := ha
  obtain ⟨h1,h2,h3⟩ := h
  have mh := merged_held
  step_split hs
  all_goals invd_auto

theorem invD_acquire (s s' : St) (g : Nat) (ha : InvA s) (h : InvD s) (hs : step s (.acquire g) = some s') : InvD s' := by
  obtain ⟨a1,a2,a3,a4,a5,a6,a7,a8,a9,a10,a11,a12,a13,a14⟩ := ha
  obtain ⟨h1,h2,h3⟩ := h
  have mh := merged_held
  step_split hs
  all_goals invd_auto

theorem invD_merge (s s' : St) (g : Nat) (ha : InvA s) (h : InvD s) (hs : step s (.merge g) = some s') : InvD s' := by
  obtain ⟨a1,a2,a3,a4,a5,a6,a7,a8,a9,a10,a11,a12,a13,a14⟩ := ha
  obtain ⟨h1,h2,h3⟩ := h
  have mh := merged_held
  step_split hs
  all_goals invd_auto

theorem invD_tryOk (s s' : St) (g : Nat) (ha : InvA s) (h : InvD s) (hs : step s (.tryOk g) = some s') : InvD s' := by
  obtain ⟨a1,a2,a3,a4,a5,a6,a7,a8,a9,a10,a11,a12,a13,a14⟩ := ha
  obtain ⟨h1,h2,h3⟩ := h
  have mh := merged_held
  step_split hs
  rename_i i heq hg
  have hle := a14 g (by simp [heq, SPc.merged])
  have hc1 : s.sendCases.getD i 0 ∈ s.sendCases := by
    rw [getD_eq_getElem s.sendCases i (by omega)]; exact List.getElem_mem _
  have hsub := a5 _ (Or.inr hc1)
  all_goals invd_auto

theorem invD_tryFail (s s' : St) (g : Nat) (ha : InvA s) (h : InvD s) (hs : step s (.tryFail g) = some s') : InvD s' := by
  obtain ⟨a1,a2,a3,a4,a5,a6,a7,a8,a9,a10,a11,a12,a13,a14⟩ := ha
  obtain ⟨h1,h2,h3⟩ := h
  have mh := merged_held
  step_split hs
  all_goals invd_auto

theorem invD_sweepEnd (s s' : St) (g : Nat) (ha : InvA s) (h : InvD s) (hs : step s (.sweepEnd g) = some s') : InvD s' := by
  obtain ⟨a1,a2,a3,a4,a5,a6,a7,a8,a9,a10,a11,a12,a13,a14⟩ := ha
  obtain ⟨h1,h2,h3⟩ := h
  have mh := merged_held
  step_split hs
  all_goals invd_auto

theorem invD_selPlace (s s' : St) (g i : Nat) (ha : InvA s) (h : InvD s) (hs : step s (.selPlace g i) = some s') : InvD s' := by
  obtain ⟨a1,a2,a3,a4,a5,a6,a7,a8,a9,a10,a11,a12,a13,a14⟩ := ha
  obtain ⟨h1,h2,h3⟩ := h
  have mh := merged_held
  step_split hs
  rename_i hg
  have hle := a14 g (by simp [hg.1, SPc.merged])
  have hc1 : s.sendCases.getD i 0 ∈ s.sendCases := by
    rw [getD_eq_getElem s.sendCases i (by omega)]; exact List.getElem_mem _
  have hsub := a5 _ (Or.inr hc1)
  all_goals invd_auto

theorem invD_selRecv (s s' : St) (g c : Nat) (ha : InvA s) (h : InvD s) (hs : step s (.selRecv g c) = some s') : InvD s' := by
  obtain ⟨a1,a2,a3,a4,a5,a6,a7,a8,a9,a10,a11,a12,a13,a14⟩ := ha
  obtain ⟨h1,h2,h3⟩ := h
  have mh := merged_held
  step_split hs
  all_goals invd_auto

theorem invD_doRemove (s s' : St) (g : Nat) (ha : InvA s) (h : InvD s) (hs : step s (.doRemove g) = some s') : InvD s' := by
  obtain ⟨a1,a2,a3,a4,a5,a6,a7,a8,a9,a10,a11,a12,a13,a14⟩ := ha
  obtain ⟨h1,h2,h3⟩ := h
  have mh := merged_held
  step_split hs
  all_goals invd_auto

theorem invD_unsubCall (s s' : St) (c : Nat) (ha : InvA s) (h : InvD s) (hs : step s (.unsubCall c) = some s') : InvD s' := by
  obtain ⟨a1,a2,a3,a4,a5,a6,a7,a8,a9,a10,a11,a12,a13,a14⟩ := ha
  obtain ⟨h1,h2,h3⟩ := h
  have mh := merged_held
  step_split hs
  all_goals invd_auto

theorem invD_rmInbox (s s' : St) (c : Nat) (ha : InvA s) (h : InvD s) (hs : step s (.rmInbox c) = some s') : InvD s' := by
  obtain ⟨a1,a2,a3,a4,a5,a6,a7,a8,a9,a10,a11,a12,a13,a14⟩ := ha
  obtain ⟨h1,h2,h3⟩ := h
  have mh := merged_held
  step_split hs
  all_goals invd_auto

theorem invD_rmToken (s s' : St) (c : Nat) (ha : InvA s) (h : InvD s) (hs : step s (.rmToken c) = some s') : InvD s' := by
  obtain ⟨a1,a2,a3,a4,a5,a6,a7,a8,a9,a10,a11,a12,a13,a14⟩ := ha
  obtain ⟨h1,h2,h3⟩ := h
  have mh := merged_held
  step_split hs
  all_goals invd_auto

theorem invD_rmDelete (s s' : St) (c : Nat) (ha : InvA s) (h : InvD s) (hs : step s (.rmDelete c) = some s') : InvD s' := by
  obtain ⟨a1,a2,a3,a4,a5,a6,a7,a8,a9,a10,a11,a12,a13,a14⟩ := ha
  obtain ⟨h1,h2,h3⟩ := h
  have mh := merged_held
  step_split hs
  all_goals invd_auto

theorem invD_rmRelease (s s' : St) (c : Nat) (ha : InvA s) (h : InvD s) (hs : step s (.rmRelease c) = some s') : InvD s' := by
  obtain ⟨a1,a2,a3,a4,a5,a6,a7,a8,a9,a10,a11,a12,a13,a14⟩ := ha
  obtain ⟨h1,h2,h3⟩ := h
  have mh := merged_held
  step_split hs
  all_goals invd_auto

theorem invD_recvBegin (s s' : St) (c : Nat) (ha : InvA s) (h : InvD s) (hs : step s (.recvBegin c) = some s') : InvD s' := by
  obtain ⟨a1,a2,a3,a4,a5,a6,a7,a8,a9,a10,a11,a12,a13,a14⟩ := ha
  obtain ⟨h1,h2,h3⟩ := h
  have mh := merged_held
  step_split hs
  all_goals invd_auto

theorem invD_recvTake (s s' : St) (c : Nat) (ha : InvA s) (h : InvD s) (hs : step s (.recvTake c) = some s') : InvD s' := by
  obtain ⟨a1,a2,a3,a4,a5,a6,a7,a8,a9,a10,a11,a12,a13,a14⟩ := ha
  obtain ⟨h1,h2,h3⟩ := h
  have mh := merged_held
  step_split hs
  all_goals invd_auto

theorem invD_step (s s' : St) (a : Act) (ha : InvA s) (h : InvD s) (hs : step s a = some s') : InvD s' := by
  cases a with
  | subscribe c k => exact invD_subscribe s s' c k ha h hs
  | sendCall g => exact invD_sendCall s s' g ha h hs
  | acquire g => exact invD_acquire s s' g ha h hs
  | merge g => exact invD_merge s s' g ha h hs
  | tryOk g => exact invD_tryOk s s' g ha h hs
  | tryFail g => exact invD_tryFail s s' g ha h hs
  | sweepEnd g => exact invD_sweepEnd s s' g ha h hs
  | selPlace g i => exact invD_selPlace s s' g i ha h hs
  | selRecv g c => exact invD_selRecv s s' g c ha h hs
  | doRemove g => exact invD_doRemove s s' g ha h hs
  | unsubCall c => exact invD_unsubCall s s' c ha h hs
  | rmInbox c => exact invD_rmInbox s s' c ha h hs
  | rmToken c => exact invD_rmToken s s' c ha h hs
  | rmDelete c => exact invD_rmDelete s s' c ha h hs
  | rmRelease c => exact invD_rmRelease s s' c ha h hs
  | recvBegin c => exact invD_recvBegin s s' c ha h hs
  | recvTake c => exact invD_recvTake s s' c ha h hs

theorem invD_reach {s : St} (h : Reach s) : InvD s := by
  induction h with
  | init => exact invD_init
  | step a hr hs ih => exact invD_step _ _ a (invA_reach hr) ih hs

end Aqv.Feed

/-
  The Go-shaped model of rlp/raw.go agrees with the readHead-based shallow reader (split_eq_shallow, countLoop_shallow),
  and dec-level facts transfer to SplitList/CountValues (dec_list_split).
-/
import Aqv.Lemmas.RlpRaw
import Aqv.Lemmas.RlpTypedPrim
namespace Aqv.RlpRaw
open Aqv Aqv.Rlp

theorem rawReadSize_iff (tl : Bytes) (ll : Nat) (hll : 1 ≤ ll) (n : Nat) :
    rawReadSize tl ll = .ok n ↔ readSize ll tl = .ok (n, tl.drop ll) := by
  unfold rawReadSize readSize
  by_cases hlt : tl.length < ll
  · have : ll > tl.length := hlt
    simp [hlt, this]
  · have : ¬ ll > tl.length := hlt
    simp only [hlt, this, if_false]
    cases tl with
    | nil => simp at hlt; omega
    | cons b0 t =>
      obtain ⟨m, rfl⟩ : ∃ m, ll = m + 1 := ⟨ll - 1, by omega⟩
      simp only [List.take_succ_cons]
      by_cases h0 : b0 = 0
      · simp [h0]
      · by_cases h56 : beNat (b0 :: List.take m t) < 56
        · simp [h0, h56]
        · simp [h0, h56]

theorem slice_cons (b : UInt8) (tl : Bytes) (k n : Nat) (h : k + n ≤ tl.length) :
    slice (b :: tl) (k + 1) (k + 1 + n) = some ((tl.drop k).take n) ∧
    slice (b :: tl) (k + 1 + n) (b :: tl).length = some ((tl.drop k).drop n) := by
  constructor
  · have h1 : k + 1 ≤ k + 1 + n ∧ k + 1 + n ≤ (b :: tl).length := by simp only [List.length_cons]; omega
    simp only [slice, h1, and_self, if_true]
    have : k + 1 + n = (k + n) + 1 := by omega
    rw [this, List.take_succ_cons, List.drop_succ_cons, List.drop_take]
    try (congr 2; omega)
  · have h1 : k + 1 + n ≤ (b :: tl).length ∧ (b :: tl).length ≤ (b :: tl).length := by simp only [List.length_cons]; omega
    simp only [slice, h1, and_self, if_true]
    have : k + 1 + n = (k + n) + 1 := by omega
    rw [List.take_length, this, List.drop_succ_cons, List.drop_drop]
    try (congr 1; omega)

theorem readSize_snd (ll : Nat) (tl : Bytes) (n : Nat) (r : Bytes) (h : readSize ll tl = .ok (n, r)) :
    r = tl.drop ll ∧ 56 ≤ n ∧ ll ≤ tl.length := by
  obtain ⟨h1, h2, h3⟩ := readSize_ok ll tl n r h
  refine ⟨?_, h3, ?_⟩
  · rw [h1, List.drop_left' h2]
  · rw [h1, List.length_append]; omega

/-- long-form case, generic in the kind. -/
theorem split_long (b : UInt8) (tl : Bytes) (ll : Nat) (hll : 1 ≤ ll) (k : K)
    (hrk : rawReadKind (b :: tl) =
      (match (match rawReadSize tl ll with
              | .error e => (.error e : Except RErr (K × Nat × Nat))
              | .ok cs => .ok (k, ll + 1, cs)) with
       | .error e => .error e
       | .ok (k, ts, cs) => if cs > (b :: tl).length - ts then .error .valueTooLarge else .ok (k, ts, cs))) :
    (split (b :: tl)).toOption =
      (match readSize ll tl with
       | .error _ => none
       | .ok (n, r) => if r.length < n then none else some (k, r.take n, r.drop n)) := by
  cases hrs : rawReadSize tl ll with
  | error e =>
    have : ∀ p, readSize ll tl ≠ .ok p := by
      intro p hp
      obtain ⟨n, r⟩ := p
      obtain ⟨hr, _, _⟩ := readSize_snd _ _ _ _ hp
      subst hr
      rw [(rawReadSize_iff tl ll hll n).2 hp] at hrs
      simp at hrs
    cases hq : readSize ll tl with
    | ok p => exact absurd hq (this p)
    | error e' =>
      simp only [split, hrk, hrs, Out.toOption]
  | ok n =>
    have hq := (rawReadSize_iff tl ll hll n).1 hrs
    obtain ⟨_, h56, hle⟩ := readSize_snd _ _ _ _ hq
    rw [hq]
    simp only [List.length_drop]
    rw [hrs] at hrk
    simp only [List.length_cons] at hrk
    by_cases hlt : tl.length - ll < n
    · have : n > tl.length + 1 - (ll + 1) := by omega
      simp only [hlt, if_true, split, hrk, this, Out.toOption]
    · have h1 : ¬ n > tl.length + 1 - (ll + 1) := by omega
      simp only [hlt, if_false, split, hrk, h1]
      obtain ⟨s1, s2⟩ := slice_cons b tl ll n (by omega)
      rw [s1, s2]
      rfl

set_option maxRecDepth 8000 in
theorem split_eq_shallow (bs : Bytes) : (split bs).toOption = shallowSplit bs := by
  cases bs with
  | nil => simp [split, rawReadKind, shallowSplit, readHead, Out.toOption]
  | cons b tl =>
    by_cases h1 : b < 0x80
    · have hs0 : slice (b :: tl) 0 1 = some [b] := by simp [slice]
      have hs1 : slice (b :: tl) 1 (tl.length + 1) = some tl := by simp [slice]
      simp [split, rawReadKind, shallowSplit, readHead, h1, Out.toOption, hs0, hs1]
    · by_cases h2 : b < 0xB8
      · simp only [shallowSplit, readHead, h1, h2, if_true, if_false]
        by_cases hlt : tl.length < b.toNat - 0x80
        · -- too large: raw.go reports ErrCanonSize or ErrValueTooLarge, an error either way
          have hgt : b.toNat - 0x80 > tl.length := hlt
          have : ∃ e, rawReadKind (b :: tl) = .error e := by
            cases tl with
            | nil => exact ⟨.valueTooLarge, by simp only [rawReadKind, h1, h2, if_true, if_false, List.length_cons, Nat.add_sub_cancel]; simp at hgt ⊢; omega⟩
            | cons x t =>
              by_cases hc : b.toNat - 0x80 = 1 ∧ x < 0x80
              · exact ⟨.canonSize, by simp only [rawReadKind, h1, h2, if_true, if_false, hc, and_self]⟩
              · refine ⟨.valueTooLarge, ?_⟩
                simp only [rawReadKind, h1, h2, if_true, if_false, hc, List.length_cons, Nat.add_sub_cancel]
                simp only [List.length_cons] at hgt
                simp [hgt]
          obtain ⟨e, he⟩ := this
          simp only [hlt, if_true, split, he, Out.toOption]
        · simp only [hlt, if_false]
          have hn : ¬ b.toNat - 0x80 > tl.length := hlt
          obtain ⟨s1, s2⟩ := slice_cons b tl 0 (b.toNat - 0x80) (by omega)
          simp only [Nat.zero_add, List.drop_zero] at s1 s2
          cases tl with
          | nil =>
            have hz : b.toNat - 0x80 = 0 := by simp at hn; omega
            have hrk : rawReadKind (b :: []) = .ok (.string, 1, b.toNat - 0x80) := by
              simp only [rawReadKind, h1, h2, if_true, if_false, List.length_cons, List.length_nil, hz]; simp
            simp [split, hrk, Out.toOption, hz, slice]
          | cons x t =>
            by_cases hc : b.toNat - 0x80 = 1 ∧ x < 0x80
            · have hrk : rawReadKind (b :: x :: t) = .error .canonSize := by
                simp only [rawReadKind, h1, h2, if_true, if_false, hc, and_self]
              simp only [split, hrk, Out.toOption, hc.1, List.take_succ_cons, List.take_zero, hc.2, if_true]
            · have hrk : rawReadKind (b :: x :: t) = .ok (.string, 1, b.toNat - 0x80) := by
                simp only [rawReadKind, h1, h2, if_true, if_false, hc, List.length_cons, Nat.add_sub_cancel]
                simp only [List.length_cons] at hn
                simp [hn]
              simp only [split, hrk, s1, s2, Out.toOption]
              split
              · rename_i y hy
                have hl := congrArg List.length hy
                rw [List.length_take] at hl
                simp only [List.length_cons, List.length_nil] at hl hn
                have h1' : b.toNat - 0x80 = 1 := by omega
                have hyx : y = x := by
                  rw [h1'] at hy; simp at hy; exact hy.symm
                subst hyx
                have : ¬ y < 0x80 := fun hh => hc ⟨h1', hh⟩
                simp only [this, if_false, hy]
              · rfl
      · by_cases h3 : b < 0xC0
        · have hcb8 : (184 : UInt8).toNat = 184 := rfl
          have hll : 1 ≤ b.toNat - 0xB7 := by
            have hh2 := h2; rw [u8_lt_iff, hcb8] at hh2; omega
          have := split_long b tl (b.toNat - 0xB7) hll .string (by simp only [rawReadKind, h1, h2, h3, if_true, if_false]; rfl)
          rw [this]
          simp only [shallowSplit, readHead, h1, h2, h3, if_true, if_false]
          cases hq : readSize (b.toNat - 0xB7) tl with
          | error e => rfl
          | ok p =>
            obtain ⟨n, r⟩ := p
            obtain ⟨_, h56, _⟩ := readSize_snd _ _ _ _ hq
            simp only
            by_cases hlt : r.length < n
            · simp [hlt]
            · simp only [hlt, if_false]
              split
              · rename_i x hx
                have := congrArg List.length hx
                rw [List.length_take] at this
                simp at this; omega
              · rfl
        · by_cases h4 : b < 0xF8
          · simp only [shallowSplit, readHead, h1, h2, h3, h4, if_true, if_false]
            have hrk : rawReadKind (b :: tl) =
                (if b.toNat - 0xC0 > tl.length then .error .valueTooLarge else .ok (.list, 1, b.toNat - 0xC0)) := by
              simp only [rawReadKind, h1, h2, h3, h4, if_true, if_false, List.length_cons, Nat.add_sub_cancel]
            by_cases hlt : tl.length < b.toNat - 0xC0
            · have : b.toNat - 0xC0 > tl.length := hlt
              simp only [hlt, if_true, split, hrk, this, Out.toOption]
            · have hn : ¬ b.toNat - 0xC0 > tl.length := hlt
              obtain ⟨s1, s2⟩ := slice_cons b tl 0 (b.toNat - 0xC0) (by omega)
              simp only [Nat.zero_add, List.drop_zero] at s1 s2
              simp only [hlt, if_false, split, hrk, hn, s1, s2, Out.toOption]
          · have hcf8 : (248 : UInt8).toNat = 248 := rfl
            have hll : 1 ≤ b.toNat - 0xF7 := by
              have hh4 := h4; rw [u8_lt_iff, hcf8] at hh4; omega
            have := split_long b tl (b.toNat - 0xF7) hll .list (by simp only [rawReadKind, h1, h2, h3, h4, if_true, if_false]; rfl)
            rw [this]
            simp only [shallowSplit, readHead, h1, h2, h3, h4, if_true, if_false]
            cases hq : readSize (b.toNat - 0xF7) tl with
            | error e => rfl
            | ok p => obtain ⟨n, r⟩ := p; rfl

theorem Out.toOption_some {α : Type} (o : Out α) (a : α) : o.toOption = some a ↔ o = .ok a := by
  cases o <;> simp [Out.toOption]

/-- `Split` returns (kind, content, rest) exactly when the readHead-based shallow reader does, with the same parts. -/
theorem split_ok_iff (bs : Bytes) (r : K × Bytes × Bytes) : split bs = .ok r ↔ shallowSplit bs = some r := by
  rw [← split_eq_shallow, Out.toOption_some]

theorem countLoop_succ (f : Nat) (b : UInt8) (tl : Bytes) (i : Nat) :
    countLoop (f + 1) (b :: tl) i =
      (match split (b :: tl) with
       | .ok (_, _, rest) => countLoop f rest (i + 1)
       | .err e => .err e
       | .panic => .panic) := by
  simp only [countLoop, split]
  cases hrk : rawReadKind (b :: tl) with
  | error e => rfl
  | ok p =>
    obtain ⟨k, ts, cs⟩ := p
    obtain ⟨h1, _, _⟩ := rawReadKind_ok _ _ _ _ hrk
    obtain ⟨c, hc, _⟩ := slice_some (b :: tl) ts (ts + cs) ⟨by omega, h1⟩
    obtain ⟨r, hr, _⟩ := slice_some (b :: tl) (ts + cs) (b :: tl).length ⟨h1, Nat.le_refl _⟩
    simp only [hc, hr]

theorem countLoop_shallow (f : Nat) : ∀ (bs : Bytes) (i : Nat),
    (countLoop f bs i).toOption = (shallowCount f bs).map (· + i) := by
  induction f with
  | zero =>
    intro bs i
    cases bs with
    | nil => simp [countLoop, shallowCount, Out.toOption]
    | cons b tl => simp [countLoop, shallowCount, Out.toOption]
  | succ f ih =>
    intro bs i
    cases bs with
    | nil => simp [countLoop, shallowCount, Out.toOption]
    | cons b tl =>
      rw [countLoop_succ]
      have hs := split_eq_shallow (b :: tl)
      simp only [shallowCount]
      cases hsp : split (b :: tl) with
      | ok p =>
        obtain ⟨k, c, rest⟩ := p
        rw [hsp] at hs
        simp only [Out.toOption] at hs
        rw [← hs]
        simp only [ih rest (i + 1)]
        cases shallowCount f rest with
        | none => rfl
        | some m => simp only [Option.map]; congr 1; omega
      | err e =>
        rw [hsp] at hs
        simp only [Out.toOption] at hs
        rw [← hs]; rfl
      | panic =>
        rw [hsp] at hs
        simp only [Out.toOption] at hs
        rw [← hs]; rfl

/-- `CountValues bs = n` exactly when `bs` is a concatenation of `n` values accepted by the shallow reader. -/
theorem countValues_ok_iff (bs : Bytes) (n : Nat) : countValues bs = .ok n ↔ shallowCount bs.length bs = some n := by
  rw [← Out.toOption_some, countValues, countLoop_shallow]
  cases shallowCount bs.length bs <;> simp

theorem decItem_shallow (f : Nat) (bs : Bytes) (it : Item) (rest : Bytes) (h : decItem f bs = .ok (it, rest)) :
    ∃ k c, shallowSplit bs = some (k, c, rest) := by
  cases f with
  | zero => simp [decItem] at h
  | succ f =>
    simp only [decItem] at h
    unfold shallowSplit
    split at h
    · simp at h
    · rename_i b r hh
      simp only [Except.ok.injEq, Prod.mk.injEq] at h
      rw [hh]; exact ⟨_, _, by rw [h.2]⟩
    · rename_i n r hh
      rw [hh]
      simp only
      split at h
      · simp at h
      · rename_i hlt
        simp only [hlt, if_false]
        split at h
        · rename_i x hx
          split at h
          · simp at h
          · rename_i hx80
            simp only [Except.ok.injEq, Prod.mk.injEq] at h
            simp only [hx, hx80, if_false]
            exact ⟨_, _, by rw [h.2]⟩
        · rename_i hns
          simp only [Except.ok.injEq, Prod.mk.injEq] at h
          split
          · rename_i x hx; exact absurd hx (hns x)
          · exact ⟨_, _, by rw [h.2]⟩
    · rename_i n r hh
      rw [hh]
      simp only
      split at h
      · simp at h
      · rename_i hlt
        simp only [hlt, if_false]
        split at h
        · simp only [Except.ok.injEq, Prod.mk.injEq] at h
          exact ⟨_, _, by rw [h.2]⟩
        · simp at h

theorem decList_shallowCount (f : Nat) : ∀ (p : Bytes) (xs : List Item), decList f p = .ok xs →
    ∀ g, p.length ≤ g → shallowCount g p = some xs.length := by
  induction f with
  | zero => intro p xs h; simp [decList] at h
  | succ f ih =>
    intro p xs h g hg
    cases p with
    | nil =>
      simp only [decList, Except.ok.injEq] at h
      subst h
      cases g <;> simp [shallowCount]
    | cons b bs =>
      simp only [decList] at h
      split at h
      · rename_i x rest hx
        split at h
        · rename_i ys hys
          simp only [Except.ok.injEq] at h
          subst h
          obtain ⟨k, c, hsh⟩ := decItem_shallow _ _ _ _ hx
          have hcons := decItem_consumes _ _ _ _ hx
          obtain ⟨g', rfl⟩ : ∃ g', g = g' + 1 := ⟨g - 1, by simp only [List.length_cons] at hg; omega⟩
          have := ih rest ys hys g' (by simp only [List.length_cons] at hg hcons; omega)
          simp [shallowCount, hsh, this]
        · simp at h
      · simp at h

/-- `dec`-level facts transfer to raw.go: a byte string that `dec` accepts as a list is split by `SplitList` into its
    payload (the concatenated element encodings) and nothing else, and `CountValues` of the payload is the number of elements. -/
theorem dec_list_split (bs : Bytes) (xs : List Item) (h : dec bs = .ok (.list xs)) :
    splitList bs = .ok (encList xs, []) ∧ countValues (encList xs) = .ok xs.length := by
  unfold dec at h
  split at h
  · rename_i it hd
    simp only [Except.ok.injEq] at h
    subst h
    have hcanon := (dec_canon _).1 _ _ _ hd
    simp only [decItem] at hd
    split at hd
    · simp at hd
    · simp at hd
    · split at hd
      · simp at hd
      · split at hd <;> (try split at hd) <;> simp at hd
    · rename_i n r hh
      split at hd
      · simp at hd
      · rename_i hlt
        split at hd
        · rename_i ys hys
          simp only [Except.ok.injEq, Prod.mk.injEq, Item.list.injEq] at hd
          obtain ⟨hxs, hr⟩ := hd
          subst hxs
          have hp := ((dec_canon _).2 _ _ hys).1
          have hsh : shallowSplit bs = some (.list, r.take n, r.drop n) := by
            simp [shallowSplit, hh, hlt]
          have hsp := (split_ok_iff bs _).2 hsh
          refine ⟨?_, ?_⟩
          · simp only [splitList, hsp, hr, hp]
          · rw [countValues_ok_iff, ← hp]
            exact decList_shallowCount _ _ _ hys _ (Nat.le_refl _)
        · simp at hd
  · simp at h
  · simp at h

end Aqv.RlpRaw

/-
  Aqv.Lemmas.StateGood — the cache invariant holds in every state reachable by a "safe" history: all Finalise calls use
  one delete-empty flag and no revert undoes a touch that found the onDirty callback armed (the two excluded patterns are
  exactly the defects F3 and F2 of the code as written).
-/
import Aqv.Lemmas.StateRoot
namespace Aqv.State

/-- the revert to `id` undoes no touch that found the callback armed. -/
def revertSafe (id : Nat) (s : SDB) : Prop := ∀ r ∈ s.revs, r.1 = id → NoAT (s.journal.length - r.2) s

def TxOp.safeAt : TxOp → SDB → Prop
  | .revert id, s => revertSafe id s
  | _, _ => True

def SafeTx : List TxOp → SDB → Prop
  | [], _ => True
  | op :: ops, s => op.safeAt s ∧ ∀ t, stepTx op s = some t → SafeTx ops t

def Op.safeAt (d : Bool) : Op → SDB → Prop
  | .tx o, s => o.safeAt s
  | .finalise d', _ => d' = d
  | _, _ => True

def SafeOps (d : Bool) : List Op → SDB → Prop
  | [], _ => True
  | op :: ops, s => op.safeAt d s ∧ ∀ t, step op s = some t → SafeOps d ops t

structure Good (d : Bool) (s : SDB) : Prop where
  binv : BInv s
  revs : RevsOK s
  tomb : TombD d s

theorem Good.reach {d : Bool} {s : SDB} (h : Good d s) : Reach d s := ⟨⟨h.binv.coh, h.binv.jok⟩, h.revs, h.tomb⟩

theorem good_fresh (d : Bool) (c : Addr → Option Acct) : Good d (fresh c) :=
  ⟨binv_fresh c, (reach_fresh d c).revs, (reach_fresh d c).tomb⟩

theorem good_stepTx {d : Bool} {s t : SDB} (h : Good d s) (op : TxOp) (hs : op.safeAt s) (hst : stepTx op s = some t) : Good d t := by
  have hr := reach_stepTx h.reach op hst
  refine ⟨?_, hr.revs, hr.tomb⟩
  cases op with
  | mutate m => simp only [stepTx, Option.some.injEq] at hst; subst hst; exact binv_applyMut m h.binv
  | snap => simp only [stepTx, Option.some.injEq] at hst; subst hst; exact binv_snapshot h.binv
  | revert id => exact binv_revertTo h.binv hst hs

theorem good_runTx {d : Bool} : ∀ (ops : List TxOp) (s t : SDB), Good d s → SafeTx ops s → runTx ops s = some t → Good d t
  | [], s, t, h, _, hr => by simp only [runTx, Option.some.injEq] at hr; subst hr; exact h
  | op :: ops, s, t, h, hs, hr => by
    simp only [runTx] at hr
    cases hst : stepTx op s with
    | none => simp [hst] at hr
    | some s1 =>
      simp only [hst] at hr
      exact good_runTx ops s1 t (good_stepTx h op hs.1 hst) (hs.2 s1 hst) hr

theorem good_finalise {d : Bool} {s : SDB} (h : Good d s) : Good d (finalise d s) :=
  ⟨binv_finalise h.binv h.tomb.ok, (reach_finalise h.reach).revs, (reach_finalise h.reach).tomb⟩

theorem good_reset (d : Bool) (s : SDB) (c : Addr → Option Acct) : Good d (reset s c) :=
  ⟨binv_congr (binv_fresh c) rfl rfl rfl rfl, fun r h => by simp [reset, fresh] at h, fun a o h => by simp [reset, fresh] at h⟩

theorem good_copy {d : Bool} {s : SDB} (h : Good d s) : Good d (copy s) := by
  refine ⟨binv_copy h.binv, fun r hr => by simp [copy] at hr, ?_⟩
  intro a o ho hod
  simp only [copy] at ho
  by_cases ha : a ∈ s.dirty
  · simp only [ha, if_true] at ho
    cases hq : s.objs a with
    | none => simp [hq] at ho
    | some q =>
      simp only [hq, Option.map, Option.some.injEq] at ho
      subst ho
      exact h.tomb a q hq (by simpa [Obj.deepCopy] using hod)
  · simp [ha] at ho

theorem good_run {d : Bool} : ∀ (ops : List Op) (s t : SDB), Good d s → SafeOps d ops s → run ops s = some t → Good d t
  | [], s, t, h, _, hr => by simp only [run, Option.some.injEq] at hr; subst hr; exact h
  | op :: ops, s, t, h, hs, hr => by
    simp only [run] at hr
    cases hst : step op s with
    | none => simp [hst] at hr
    | some s1 =>
      simp only [hst] at hr
      refine good_run ops s1 t ?_ (hs.2 s1 hst) hr
      cases op with
      | tx o => exact good_stepTx h o hs.1 hst
      | prepare th =>
        simp only [step, Option.some.injEq] at hst; subst hst
        exact ⟨binv_congr h.binv rfl rfl rfl rfl, h.revs, h.tomb⟩
      | finalise d' =>
        have : d' = d := hs.1
        subst this
        simp only [step, Option.some.injEq] at hst; subst hst
        exact good_finalise h
      | commitReset d' =>
        simp only [step, Option.some.injEq] at hst; subst hst
        exact good_reset d _ _


/-! ### `Sim` implies equal views -/

theorem optView_eq : ∀ {x y : Option Obj}, OOEq x y → x.map Obj.view = y.map Obj.view
  | none, none, _ => rfl
  | some _, some _, h => by
    simp only [Option.map, Obj.view, Option.some.injEq, AcctView.mk.injEq]
    exact ⟨h.1, h.2.1, h.2.2.1, h.2.2.2.1, funext h.2.2.2.2⟩
  | none, some _, h => h.elim
  | some _, none, h => h.elim

/-- indistinguishable states have the same view. -/
theorem view_eq_of_sim {s t : SDB} (h : Sim s t) : view s = view t := by
  have hacc : viewAt s = viewAt t := by
    funext a
    simp only [viewAt]
    rcases h.look_cases a with ⟨hs, ht⟩ | ⟨o, p, hs, ht, this⟩
    · rw [hs, ht]
    · rw [hs, ht]
      simp only [Option.map, Obj.view, Option.some.injEq, AcctView.mk.injEq]
      exact ⟨this.1, this.2.1, this.2.2.1, this.2.2.2.1, funext this.2.2.2.2⟩
  simp only [view, hacc, h.refund, h.logs, h.preimages]


/-! ### several instances over one database -/

theorem world_step_others (w w' : World) (st : WStep) (j : Nat) (hj : j < w.insts.length) (ha : st.avoids j = true)
    (h : w.step st = some w') :
    w'.insts[j]? = w.insts[j]? ∧ ∀ (k : Nat) c, w.committed[k]? = some c → w'.committed[k]? = some c := by
  cases st with
  | «at» i op =>
    have hij : i ≠ j := by simpa [WStep.avoids] using ha
    simp only [World.step, World.stepAt] at h
    cases hi : w.insts[i]? with
    | none => simp [hi] at h
    | some s =>
      simp only [hi] at h
      cases op with
      | tx o =>
        cases ho : stepTx o s with
        | none => simp [ho] at h
        | some s' =>
          simp only [ho, Option.map, Option.some.injEq] at h; subst h
          exact ⟨by simp [List.getElem?_set_ne hij], fun _ _ hc => hc⟩
      | prepare th =>
        simp only [Option.some.injEq] at h; subst h
        exact ⟨by simp [List.getElem?_set_ne hij], fun _ _ hc => hc⟩
      | finalise d =>
        simp only [Option.some.injEq] at h; subst h
        exact ⟨by simp [List.getElem?_set_ne hij], fun _ _ hc => hc⟩
      | commit d =>
        simp only [Option.some.injEq] at h; subst h
        refine ⟨by simp [List.getElem?_set_ne hij], fun k c hc => ?_⟩
        have hk : k < w.committed.length := by
          rcases Nat.lt_or_ge k w.committed.length with h' | h'
          · exact h'
          · rw [List.getElem?_eq_none h'] at hc; simp at hc
        simp only
        rw [List.getElem?_append_left hk]; exact hc
      | reset k =>
        cases hk : w.committed[k]? with
        | none => simp [hk] at h
        | some c =>
          simp only [hk, Option.map, Option.some.injEq] at h; subst h
          exact ⟨by simp [List.getElem?_set_ne hij], fun _ _ hc => hc⟩
  | openAt k =>
    simp only [World.step, World.openAt] at h
    cases hk : w.committed[k]? with
    | none => simp [hk] at h
    | some c =>
      simp only [hk, Option.map, Option.some.injEq] at h; subst h
      exact ⟨by simp [List.getElem?_append_left hj], fun _ _ hc => hc⟩
  | copyOf i =>
    simp only [World.step, World.copyOf] at h
    cases hi : w.insts[i]? with
    | none => simp [hi] at h
    | some s =>
      simp only [hi, Option.map, Option.some.injEq] at h; subst h
      exact ⟨by simp [List.getElem?_append_left hj], fun _ _ hc => hc⟩

theorem world_step_length (w w' : World) (st : WStep) (h : w.step st = some w') : w.insts.length ≤ w'.insts.length := by
  cases st with
  | «at» i op =>
    simp only [World.step, World.stepAt] at h
    cases hi : w.insts[i]? with
    | none => simp [hi] at h
    | some s =>
      simp only [hi] at h
      cases op with
      | tx o =>
        cases ho : stepTx o s with
        | none => simp [ho] at h
        | some s' => simp only [ho, Option.map, Option.some.injEq] at h; subst h; simp
      | prepare th => simp only [Option.some.injEq] at h; subst h; simp
      | finalise d => simp only [Option.some.injEq] at h; subst h; simp
      | commit d => simp only [Option.some.injEq] at h; subst h; simp
      | reset k =>
        cases hk : w.committed[k]? with
        | none => simp [hk] at h
        | some c => simp only [hk, Option.map, Option.some.injEq] at h; subst h; simp
  | openAt k =>
    simp only [World.step, World.openAt] at h
    cases hk : w.committed[k]? with
    | none => simp [hk] at h
    | some c => simp only [hk, Option.map, Option.some.injEq] at h; subst h; simp
  | copyOf i =>
    simp only [World.step, World.copyOf] at h
    cases hi : w.insts[i]? with
    | none => simp [hi] at h
    | some s => simp only [hi, Option.map, Option.some.injEq] at h; subst h; simp


end Aqv.State

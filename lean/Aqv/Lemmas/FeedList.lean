/-
  Aqv.Lemmas.FeedList — list facts behind the index arithmetic of `caseList.deactivate` (swap with the last active
  case) and `caseList.delete(find(ch))` as used by Feed.Send / Feed.remove, plus small facts about chronological
  event lists (two-element sublists = "a happens before b").
-/
import Aqv.Model.Feed
namespace Aqv.Feed

theorem swapAt_length (l : List Chan) (i j : Nat) : (swapAt l i j).length = l.length := by simp [swapAt]

theorem getElem_swapAt (l : List Chan) (i j k : Nat) (hi : i < l.length) (hj : j < l.length) (hk : k < l.length) :
    (swapAt l i j)[k]'(by rw [swapAt_length]; exact hk) = if k = j then l[i] else if k = i then l[j] else l[k] := by
  have e1 : l.getD i 0 = l[i] := by simp [List.getD, hi]
  have e2 : l.getD j 0 = l[j] := by simp [List.getD, hj]
  simp only [swapAt, List.getElem_set, e1, e2]
  grind

theorem mem_swapAt (l : List Chan) (i j : Nat) (hi : i < l.length) (hj : j < l.length) (x : Chan) :
    x ∈ swapAt l i j ↔ x ∈ l := by
  simp only [List.mem_iff_getElem, swapAt_length]
  constructor
  · rintro ⟨k, hk, rfl⟩
    rw [getElem_swapAt l i j k hi hj hk]
    grind
  · rintro ⟨k, hk, rfl⟩
    by_cases h1 : k = i
    · subst h1; refine ⟨j, hj, ?_⟩; rw [getElem_swapAt l k j j hk hj hj]; simp
    · by_cases h2 : k = j
      · subst h2; refine ⟨i, hi, ?_⟩; rw [getElem_swapAt l i k i hi hk hi]; simp; grind
      · refine ⟨k, hk, ?_⟩; rw [getElem_swapAt l i j k hi hj hk]; simp [h1, h2]

theorem nodup_swapAt (l : List Chan) (i j : Nat) (hi : i < l.length) (hj : j < l.length) (h : l.Nodup) :
    (swapAt l i j).Nodup := by
  rw [List.nodup_iff_pairwise_ne, List.pairwise_iff_getElem] at *
  intro a b ha hb hab
  rw [swapAt_length] at ha hb
  rw [getElem_swapAt l i j a hi hj ha, getElem_swapAt l i j b hi hj hb]
  have := h
  grind
/-- deactivate: the new active prefix is the old one minus the deactivated case -/
theorem mem_take_swapAt (l : List Chan) (i a : Nat) (hn : l.Nodup) (hi : i < a) (ha : a ≤ l.length) (x : Chan) :
    x ∈ (swapAt l i (a - 1)).take (a - 1) ↔ x ∈ l.take a ∧ x ≠ l[i]'(by omega) := by
  rw [List.nodup_iff_pairwise_ne, List.pairwise_iff_getElem] at hn
  simp only [List.mem_take_iff_getElem, swapAt_length]
  constructor
  · rintro ⟨k, hk, rfl⟩
    have hk' : k < l.length := by omega
    rw [getElem_swapAt l i (a-1) k (by omega) (by omega) hk']
    by_cases h1 : k = a - 1
    · omega
    · by_cases h2 : k = i
      · subst h2
        simp only [h1, if_false, if_true]
        refine ⟨⟨a - 1, by omega, rfl⟩, ?_⟩
        exact fun e => hn k (a-1) (by omega) (by omega) (by omega) e.symm
      · simp only [h1, h2, if_false]
        refine ⟨⟨k, by omega, rfl⟩, ?_⟩
        intro e
        rcases Nat.lt_or_gt_of_ne h2 with h | h
        · exact hn k i (by omega) (by omega) h e
        · exact hn i k (by omega) (by omega) h e.symm
  · rintro ⟨⟨k, hk, rfl⟩, hne⟩
    have hk' : k < l.length := by omega
    by_cases h1 : k = a - 1
    · subst h1
      refine ⟨i, by grind, ?_⟩
      rw [getElem_swapAt l i (a-1) i (by omega) (by omega) (by omega)]
      have : i ≠ a - 1 := by intro e; subst e; exact hne rfl
      simp [this]
    · refine ⟨k, by omega, ?_⟩
      rw [getElem_swapAt l i (a-1) k (by omega) (by omega) hk']
      have : k ≠ i := by intro e; subst e; exact hne rfl
      simp [h1, this]
theorem mem_eraseIdx_idxOf (l : List Chan) (c : Chan) (hn : l.Nodup) (x : Chan) :
    x ∈ l.eraseIdx (l.idxOf c) ↔ x ∈ l ∧ x ≠ c := by
  rw [← List.erase_eq_eraseIdx_of_idxOf (i := l.idxOf c) rfl, hn.mem_erase_iff]
  exact And.comm

theorem take_eraseIdx_ge (l : List Chan) (a idx : Nat) (h : a ≤ idx) : (l.eraseIdx idx).take a = l.take a := by
  induction l generalizing a idx with
  | nil => simp
  | cons y ys ih =>
    cases idx with
    | zero => simp at h; subst h; simp
    | succ k =>
      cases a with
      | zero => simp
      | succ b => simp [ih b k (by omega)]

theorem take_eraseIdx_lt (l : List Chan) (a idx : Nat) (hi : idx < a) :
    (l.eraseIdx idx).take (a - 1) = (l.take a).eraseIdx idx := by
  induction l generalizing a idx with
  | nil => simp
  | cons y ys ih =>
    cases a with
    | zero => omega
    | succ b =>
      cases idx with
      | zero => simp
      | succ k =>
        have := ih b k (by omega)
        cases b with
        | zero => omega
        | succ b' => simpa using this

theorem mem_take_eraseIdx_idxOf_lt (l : List Chan) (a : Nat) (c : Chan) (hn : l.Nodup) (hc : c ∈ l)
    (hi : l.idxOf c < a) (x : Chan) :
    x ∈ (l.eraseIdx (l.idxOf c)).take (a - 1) ↔ x ∈ l.take a ∧ x ≠ c := by
  rw [take_eraseIdx_lt l a _ hi]
  have hc' : c ∈ l.take a := by
    rw [List.mem_take_iff_getElem]
    have h := List.idxOf_lt_length_iff.mpr hc
    exact ⟨l.idxOf c, by omega, List.getElem_idxOf h⟩
  have e : (l.take a).idxOf c = l.idxOf c := by
    conv => rhs; rw [← List.take_append_drop a l]
    rw [List.idxOf_append, if_pos hc']
  rw [← e, mem_eraseIdx_idxOf (l.take a) c (hn.sublist (List.take_sublist a l))]

theorem getD_eq_getElem (l : List Chan) (i : Nat) (h : i < l.length) : l.getD i 0 = l[i] := by simp [List.getD, h]

theorem getElem_mem_take (l : List Chan) (i a : Nat) (hi : i < a) (ha : a ≤ l.length) : l[i]'(by omega) ∈ l.take a :=
  List.mem_take_iff_getElem.mpr ⟨i, by omega, rfl⟩

theorem idxOf_lt_of_mem_take (l : List Chan) (a : Nat) (c : Chan) (h : c ∈ l.take a) : l.idxOf c < a := by
  have e : l.idxOf c = (l.take a).idxOf c := by
    conv => lhs; rw [← List.take_append_drop a l]
    rw [List.idxOf_append, if_pos h]
  rw [e]
  have := List.idxOf_lt_length_iff.mpr h
  simp at this
  omega

theorem nodup_snoc {α : Type} (l : List α) (x : α) : (l ++ [x]).Nodup ↔ l.Nodup ∧ x ∉ l := by
  rw [List.nodup_append]
  simp only [List.nodup_cons, List.not_mem_nil, not_false_eq_true, List.nodup_nil, and_self, List.mem_singleton, true_and]
  constructor
  · rintro ⟨h1, h2⟩; exact ⟨h1, fun hx => h2 x hx x rfl rfl⟩
  · rintro ⟨h1, h2⟩; exact ⟨h1, fun a ha b hb e => h2 (hb ▸ e ▸ ha)⟩

/-- on a chronological list, `[a, b] <+ l` says "an `a` happens strictly before a `b`" -/
theorem sub2_snoc {α : Type} (l : List α) (a b e : α) : List.Sublist [a, b] (l ++ [e]) ↔ List.Sublist [a, b] l ∨ (a ∈ l ∧ b = e) := by
  rw [List.sublist_append_iff]
  constructor
  · rintro ⟨l1, l2, e12, h1, h2⟩
    have hl2 : l2 = [] ∨ l2 = [e] := by
      cases l2 with
      | nil => exact Or.inl rfl
      | cons y ys =>
        have := h2.length_le
        cases ys with
        | nil => right; simpa using h2
        | cons z zs => simp at this
    rcases hl2 with rfl | rfl
    · left; simp at e12; exact e12 ▸ h1
    · right
      have : l1 = [a] ∧ b = e := by
        cases l1 with
        | nil => simp at e12
        | cons y ys =>
          cases ys with
          | nil => simp at e12; exact ⟨by rw [e12.1], e12.2⟩
          | cons z zs => simp at e12
      exact ⟨by simpa [this.1] using h1, this.2⟩
  · rintro (h | ⟨h, rfl⟩)
    · exact ⟨[a, b], [], by simp, h, List.nil_sublist _⟩
    · exact ⟨[a], [b], by simp, by simpa using h, List.Sublist.refl _⟩

theorem sub2_mem {α : Type} {l : List α} {a b : α} (h : List.Sublist [a, b] l) : a ∈ l ∧ b ∈ l :=
  ⟨h.subset (by simp), h.subset (by simp)⟩

theorem pairwise_snoc {α : Type} {R : α → α → Prop} (l : List α) (e : α) :
    (l ++ [e]).Pairwise R ↔ l.Pairwise R ∧ ∀ a ∈ l, R a e := by
  rw [List.pairwise_append]; simp

end Aqv.Feed

/-
  Aqv.Lemmas.EvmGas — helper lemmas for property C08: the UInt64 gas arithmetic of core/vm (gas_table.go, gas.go,
  common.go; common/math SafeAdd/SafeMul) against the Yellow Paper formulas on Nat.
-/
import Aqv.Lemmas.Big
import Aqv.Model.EvmOps
import Aqv.Model.EvmSpec
namespace Aqv.Evm
open Aqv Aqv.Big

theorem maxU64_toNat : maxU64.toNat = 2 ^ 64 - 1 := by decide

theorem toWordSize_spec (s : UInt64) : (toWordSize s).toNat = (s.toNat + 31) / 32 := by
  unfold toWordSize
  have hs := s.toNat_lt
  split
  · rename_i h
    rw [gt_iff_lt, UInt64.lt_iff_toNat_lt, UInt64.toNat_sub, maxU64_toNat] at h
    rw [UInt64.toNat_add, UInt64.toNat_div, maxU64_toNat]
    simp only [UInt64.toNat_ofNat, Nat.reducePow, Nat.reduceMod, Nat.reduceSub, Nat.reduceAdd] at h ⊢
    omega
  · rename_i h
    rw [gt_iff_lt, UInt64.lt_iff_toNat_lt, UInt64.toNat_sub, maxU64_toNat] at h
    rw [UInt64.toNat_div, UInt64.toNat_add]
    simp only [UInt64.toNat_ofNat, Nat.reducePow, Nat.reduceMod, Nat.reduceSub, Nat.reduceAdd] at h ⊢
    omega

theorem safeAdd_ok (x y : UInt64) : (safeAdd x y).2 = false → (safeAdd x y).1.toNat = x.toNat + y.toNat := by
  unfold safeAdd
  simp only [decide_eq_false_iff_not, gt_iff_lt, UInt64.lt_iff_toNat_lt, UInt64.toNat_sub, maxU64_toNat, UInt64.toNat_add]
  have := x.toNat_lt; have := y.toNat_lt
  omega

theorem safeAdd_ov (x y : UInt64) : (safeAdd x y).2 = true → x.toNat + y.toNat ≥ 2 ^ 64 := by
  unfold safeAdd
  simp only [decide_eq_true_eq, gt_iff_lt, UInt64.lt_iff_toNat_lt, UInt64.toNat_sub, maxU64_toNat]
  have := x.toNat_lt; have := y.toNat_lt
  omega

theorem u64_eq_zero_iff (x : UInt64) : x = 0 ↔ x.toNat = 0 := by
  rw [← UInt64.toNat_inj]; rfl

theorem safeMul_ok (x y : UInt64) : (safeMul x y).2 = false → (safeMul x y).1.toNat = x.toNat * y.toNat := by
  unfold safeMul
  have hx := x.toNat_lt; have hy := y.toNat_lt
  split
  · rename_i h
    simp only [Bool.or_eq_true, decide_eq_true_eq, u64_eq_zero_iff] at h
    intro _
    rcases h with h | h <;> simp [h]
  · rename_i h
    simp only [Bool.or_eq_true, decide_eq_true_eq, u64_eq_zero_iff, not_or] at h
    simp only [decide_eq_false_iff_not, gt_iff_lt, UInt64.lt_iff_toNat_lt, UInt64.toNat_div, maxU64_toNat, UInt64.toNat_mul]
    intro hno
    have : ¬ (2 ^ 64 - 1 < y.toNat * x.toNat) := by
      rw [← Nat.div_lt_iff_lt_mul (by omega)]; exact hno
    rw [Nat.mul_comm] at this
    exact Nat.mod_eq_of_lt (by omega)

theorem safeMul_ov (x y : UInt64) : (safeMul x y).2 = true → x.toNat * y.toNat ≥ 2 ^ 64 := by
  unfold safeMul
  split
  · intro h; simp at h
  · rename_i h
    simp only [Bool.or_eq_true, decide_eq_true_eq, u64_eq_zero_iff, not_or] at h
    simp only [decide_eq_true_eq, gt_iff_lt, UInt64.lt_iff_toNat_lt, UInt64.toNat_div, maxU64_toNat]
    intro hov
    rw [Nat.div_lt_iff_lt_mul (by omega), Nat.mul_comm] at hov
    omega

def MemOk (mem : Mem) (cur : Nat) : Prop :=
  mem.len.toNat = 32 * cur ∧ mem.lastGasCost.toNat = EvmSpec.cmem cur

theorem cmem_mono {a b : Nat} (h : a ≤ b) : EvmSpec.cmem a ≤ EvmSpec.cmem b := by
  unfold EvmSpec.cmem
  have h1 : a * a ≤ b * b := Nat.mul_le_mul h h
  have h2 : a * a / 512 ≤ b * b / 512 := Nat.div_le_div_right h1
  omega

theorem memoryGasCost_spec_partial (mem : Mem) (cur : Nat) (n : UInt64) (hok : MemOk mem cur)
    (hn : n.toNat ≤ 0x1fffffffe0) :
    ∃ fee mem', memoryGasCost mem n = some (fee, mem') ∧
      fee.toNat = EvmSpec.cmem (max cur (EvmSpec.words n.toNat)) - EvmSpec.cmem cur ∧
      mem'.len = mem.len ∧ mem'.lastGasCost.toNat = EvmSpec.cmem (max cur (EvmSpec.words n.toNat)) := by
  obtain ⟨hlen, hlast⟩ := hok
  unfold memoryGasCost
  by_cases h0 : n = 0
  · subst h0
    refine ⟨0, mem, by simp, ?_, rfl, ?_⟩
    · have : max cur (EvmSpec.words (0 : UInt64).toNat) = cur := by
        show max cur ((0 + 31) / 32) = cur
        omega
      rw [this]; simp
    · have : max cur (EvmSpec.words (0 : UInt64).toNat) = cur := by
        show max cur ((0 + 31) / 32) = cur
        omega
      rw [this, hlast]
  · rw [if_neg h0]
    have hbig : ¬ n > 0xffffffffe0 := by
      rw [gt_iff_lt, UInt64.lt_iff_toNat_lt]
      simp only [UInt64.toNat_ofNat, Nat.reducePow, Nat.reduceMod]
      omega
    rw [if_neg hbig]
    simp only []
    have hw := toWordSize_spec n
    generalize toWordSize n = w at hw ⊢
    have hwle : w.toNat ≤ 0xffffffff := by rw [hw]; omega
    have hwords : EvmSpec.words n.toNat = w.toNat := by unfold EvmSpec.words; omega
    rw [hwords]
    have hsq : w.toNat * w.toNat ≤ 0xffffffff * 0xffffffff := Nat.mul_le_mul hwle hwle
    have h32 : (w * 32).toNat = w.toNat * 32 := by
      rw [UInt64.toNat_mul]; simp only [UInt64.toNat_ofNat, Nat.reducePow, Nat.reduceMod]; omega
    by_cases hgt : w * 32 > mem.len
    · rw [if_pos hgt]
      rw [gt_iff_lt, UInt64.lt_iff_toNat_lt, h32, hlen] at hgt
      have hcw : cur < w.toNat := by omega
      have hmax : max cur w.toNat = w.toNat := by omega
      have hmono := cmem_mono (Nat.le_of_lt hcw)
      have htot : (w * memoryGas + w * w / quadCoeffDiv).toNat = EvmSpec.cmem w.toNat := by
        unfold EvmSpec.cmem memoryGas quadCoeffDiv
        rw [UInt64.toNat_add, UInt64.toNat_div, UInt64.toNat_mul, UInt64.toNat_mul]
        simp only [UInt64.toNat_ofNat, Nat.reducePow, Nat.reduceMod]
        generalize w.toNat * w.toNat = sq at hsq ⊢
        omega
      refine ⟨_, _, rfl, ?_, rfl, ?_⟩
      · rw [UInt64.toNat_sub, htot, hlast, hmax]
        have := (w * memoryGas + w * w / quadCoeffDiv).toNat_lt
        rw [htot] at this
        omega
      · show (w * memoryGas + w * w / quadCoeffDiv).toNat = _
        rw [htot, hmax]
    · rw [if_neg hgt]
      rw [gt_iff_lt, UInt64.lt_iff_toNat_lt, h32, hlen] at hgt
      have hmax : max cur w.toNat = cur := by omega
      refine ⟨0, mem, rfl, ?_, rfl, ?_⟩
      · rw [hmax]; simp
      · rw [hmax, hlast]

theorem memgas_wrap_witness :
    memoryGasCost ⟨0, 0⟩ 0x2000000000 = some (12884901888, ⟨0, 12884901888⟩) ∧
    EvmSpec.cmem (EvmSpec.words 0x2000000000) - EvmSpec.cmem 0 = 12884901888 + 2 ^ 55 := by
  constructor
  · decide
  · decide

theorem memoryGasCost_overflow (mem : Mem) (n : UInt64) (hn : n.toNat > 0xffffffffe0) :
    memoryGasCost mem n = none ∧ EvmSpec.cmem (EvmSpec.words n.toNat) ≥ 2 ^ 61 := by
  constructor
  · unfold memoryGasCost
    have h0 : n ≠ 0 := by
      intro h; rw [h] at hn; simp at hn
    have hbig : n > 0xffffffffe0 := by
      rw [gt_iff_lt, UInt64.lt_iff_toNat_lt]
      simp only [UInt64.toNat_ofNat, Nat.reducePow, Nat.reduceMod]
      omega
    rw [if_neg h0, if_pos hbig]
  · unfold EvmSpec.cmem EvmSpec.words
    have hw : 0x800000000 ≤ (n.toNat + 31) / 32 := by omega
    have := Nat.mul_le_mul hw hw
    generalize (n.toNat + 31) / 32 * ((n.toNat + 31) / 32) = sq at this
    omega

theorem natBitLen_gt_iff (n k : Nat) : natBitLen n > k ↔ n ≥ 2 ^ k := by
  unfold natBitLen
  by_cases h : n = 0
  · subst h; simp
  · rw [if_neg h]
    have := @Nat.log2_lt n k h
    omega

theorem bigUint64_ov (n : Nat) : (bigUint64 (n : Int)).2 = decide (n ≥ 2 ^ 64) := by
  unfold bigUint64 bitLen
  simp only [Int.natAbs_natCast]
  rw [decide_eq_decide]
  exact natBitLen_gt_iff n 64

theorem bigUint64_val (n : Nat) (h : n < 2 ^ 64) : (bigUint64 (n : Int)).1.toNat = n := by
  unfold bigUint64 uint64
  simp only [Int.natAbs_natCast, UInt64.toNat_ofNat']
  omega

theorem byteLen_eq (e : Nat) : (natBitLen e + 7) / 8 = EvmSpec.byteLen e := by
  unfold natBitLen EvmSpec.byteLen
  split <;> omega

theorem natBitLen_le_of_lt (n k : Nat) (h : n < 2 ^ k) : natBitLen n ≤ k := by
  have := natBitLen_gt_iff n k
  omega

theorem chk_safeAdd (x y : UInt64) :
    (∃ g, chk (safeAdd x y) = some g ∧ g.toNat = x.toNat + y.toNat) ∨
    (chk (safeAdd x y) = none ∧ x.toNat + y.toNat ≥ 2 ^ 64) := by
  unfold chk
  cases h : (safeAdd x y).2
  · left; exact ⟨_, by rw [if_neg (by simp)], safeAdd_ok _ _ h⟩
  · right; exact ⟨by rw [if_pos rfl], safeAdd_ov _ _ h⟩

theorem chk_safeMul (x y : UInt64) :
    (∃ g, chk (safeMul x y) = some g ∧ g.toNat = x.toNat * y.toNat) ∨
    (chk (safeMul x y) = none ∧ x.toNat * y.toNat ≥ 2 ^ 64) := by
  unfold chk
  cases h : (safeMul x y).2
  · left; exact ⟨_, by rw [if_neg (by simp)], safeMul_ok _ _ h⟩
  · right; exact ⟨by rw [if_pos rfl], safeMul_ov _ _ h⟩

theorem chk_bigUint64 (n : Nat) :
    (∃ g, chk (bigUint64 (n : Int)) = some g ∧ g.toNat = n ∧ n < 2 ^ 64) ∨
    (chk (bigUint64 (n : Int)) = none ∧ n ≥ 2 ^ 64) := by
  unfold chk
  rw [bigUint64_ov]
  by_cases h : n ≥ 2 ^ 64
  · right; exact ⟨by rw [if_pos (by simp [h])], h⟩
  · left
    have hlt : n < 2 ^ 64 := by omega
    exact ⟨_, by rw [if_neg (by simp [h])], bigUint64_val n hlt, hlt⟩

/-- gasExp: for every exponent below 2^256 and every per-byte price that cannot wrap (32·price + 10 < 2^64, true for
    both gas tables) the charge is G_exp + G_expbyte · (number of bytes of the exponent). -/
theorem gasExp_ok (eb : UInt64) (e : Nat) (he : e < 2 ^ 256) (heb : 32 * eb.toNat + 10 < 2 ^ 64) :
    ∃ g, gasExp eb (e : Int) = some g ∧ g.toNat = EvmSpec.gasExp eb.toNat e := by
  unfold gasExp EvmSpec.gasExp bitLen
  simp only [Int.natAbs_natCast]
  rw [byteLen_eq]
  have hbl : EvmSpec.byteLen e ≤ 32 := by
    rw [← byteLen_eq]; have := natBitLen_le_of_lt e 256 he; omega
  generalize EvmSpec.byteLen e = bl at hbl ⊢
  have hmul : bl * eb.toNat ≤ 32 * eb.toNat := Nat.mul_le_mul_right _ hbl
  have hprod : (UInt64.ofNat bl * eb).toNat = bl * eb.toNat := by
    rw [UInt64.toNat_mul, UInt64.toNat_ofNat', Nat.mod_eq_of_lt (a := bl) (by omega)]
    exact Nat.mod_eq_of_lt (by omega)
  have c10 : gasSlowStep.toNat = 10 := by decide
  rcases chk_safeAdd (UInt64.ofNat bl * eb) gasSlowStep with ⟨g, hg, hv⟩ | ⟨_, hv⟩
  · refine ⟨g, hg, ?_⟩
    rw [hv, hprod, c10, Nat.mul_comm]; omega
  · rw [hprod, c10] at hv; omega

theorem gasSha3_spec (mem : Mem) (m : UInt64) (fee : UInt64) (mem' : Mem) (size : Nat)
    (hm : memoryGasCost mem m = some (fee, mem')) :
    (∀ g, gasSha3 mem m (size : Int) = some g → g.toNat = fee.toNat + EvmSpec.gasSha3 size) ∧
    (gasSha3 mem m (size : Int) = none → fee.toNat + EvmSpec.gasSha3 size ≥ 2 ^ 60) := by
  unfold gasSha3 EvmSpec.gasSha3 EvmSpec.words
  rw [hm, Option.bind_some]
  have hfee := fee.toNat_lt
  have c30 : (30 : UInt64).toNat = 30 := by decide
  have c6 : (6 : UInt64).toNat = 6 := by decide
  rcases chk_safeAdd fee 30 with ⟨g1, h1, v1⟩ | ⟨h1, v1⟩ <;> rw [c30] at v1
  · rw [h1, Option.bind_some]
    rcases chk_bigUint64 size with ⟨g2, h2, v2, hs⟩ | ⟨h2, hs⟩
    · rw [h2, Option.bind_some]
      have hw := toWordSize_spec g2
      rw [v2] at hw
      rcases chk_safeMul (toWordSize g2) 6 with ⟨g3, h3, v3⟩ | ⟨h3, v3⟩ <;> rw [c6, hw] at v3
      · rw [h3, Option.bind_some]
        rcases chk_safeAdd g1 g3 with ⟨g4, h4, v4⟩ | ⟨h4, v4⟩
        · rw [h4]
          refine ⟨fun g hg => ?_, fun hg => by cases hg⟩
          cases hg
          omega
        · rw [h4]
          refine ⟨fun g hg => (by cases hg), fun _ => ?_⟩
          omega
      · rw [h3, Option.bind_none]
        refine ⟨fun g hg => (by cases hg), fun _ => ?_⟩
        omega
    · rw [h2, Option.bind_none]
      refine ⟨fun g hg => (by cases hg), fun _ => ?_⟩
      omega
  · rw [h1, Option.bind_none]
    refine ⟨fun g hg => (by cases hg), fun _ => ?_⟩
    omega

theorem gasCopy_spec (base : UInt64) (mem : Mem) (m : UInt64) (fee : UInt64) (mem' : Mem) (size : Nat)
    (hm : memoryGasCost mem m = some (fee, mem')) :
    (∀ g, gasCopy base mem m (size : Int) = some g → g.toNat = fee.toNat + EvmSpec.gasCopy base.toNat size) ∧
    (gasCopy base mem m (size : Int) = none → fee.toNat + EvmSpec.gasCopy base.toNat size ≥ 2 ^ 60) := by
  unfold gasCopy EvmSpec.gasCopy EvmSpec.words
  rw [hm, Option.bind_some]
  have hfee := fee.toNat_lt
  have c3 : (3 : UInt64).toNat = 3 := by decide
  rcases chk_safeAdd fee base with ⟨g1, h1, v1⟩ | ⟨h1, v1⟩
  · rw [h1, Option.bind_some]
    rcases chk_bigUint64 size with ⟨g2, h2, v2, hs⟩ | ⟨h2, hs⟩
    · rw [h2, Option.bind_some]
      have hw := toWordSize_spec g2
      rw [v2] at hw
      rcases chk_safeMul (toWordSize g2) 3 with ⟨g3, h3, v3⟩ | ⟨h3, v3⟩ <;> rw [c3, hw] at v3
      · rw [h3, Option.bind_some]
        rcases chk_safeAdd g1 g3 with ⟨g4, h4, v4⟩ | ⟨h4, v4⟩
        · rw [h4]
          refine ⟨fun g hg => ?_, fun hg => by cases hg⟩
          cases hg
          omega
        · rw [h4]
          refine ⟨fun g hg => (by cases hg), fun _ => ?_⟩
          omega
      · rw [h3, Option.bind_none]
        refine ⟨fun g hg => (by cases hg), fun _ => ?_⟩
        omega
    · rw [h2, Option.bind_none]
      refine ⟨fun g hg => (by cases hg), fun _ => ?_⟩
      omega
  · rw [h1, Option.bind_none]
    refine ⟨fun g hg => (by cases hg), fun _ => ?_⟩
    omega

/-- memory + one constant (gasMLoad/gasMStore/gasMStore8 with 3, gasCreate with 32000) -/
theorem gasMemVeryLow_spec (mem : Mem) (m : UInt64) (fee : UInt64) (mem' : Mem)
    (hm : memoryGasCost mem m = some (fee, mem')) :
    (∀ g, gasMemVeryLow mem m = some g → g.toNat = fee.toNat + 3) ∧
    (gasMemVeryLow mem m = none → fee.toNat + 3 ≥ 2 ^ 64) := by
  unfold gasMemVeryLow
  rw [hm, Option.bind_some]
  have c : gasFastestStep.toNat = 3 := by decide
  rcases chk_safeAdd fee gasFastestStep with ⟨g1, h1, v1⟩ | ⟨h1, v1⟩ <;> rw [c] at v1 <;> rw [h1]
  · exact ⟨fun g hg => (by cases hg; exact v1), fun hg => (by cases hg)⟩
  · exact ⟨fun g hg => (by cases hg), fun _ => v1⟩

theorem gasCreate_spec (mem : Mem) (m : UInt64) (fee : UInt64) (mem' : Mem)
    (hm : memoryGasCost mem m = some (fee, mem')) :
    (∀ g, gasCreate mem m = some g → g.toNat = fee.toNat + 32000) ∧
    (gasCreate mem m = none → fee.toNat + 32000 ≥ 2 ^ 64) := by
  unfold gasCreate
  rw [hm, Option.bind_some]
  have c : (32000 : UInt64).toNat = 32000 := by decide
  rcases chk_safeAdd fee 32000 with ⟨g1, h1, v1⟩ | ⟨h1, v1⟩ <;> rw [c] at v1 <;> rw [h1]
  · exact ⟨fun g hg => (by cases hg; exact v1), fun hg => (by cases hg)⟩
  · exact ⟨fun g hg => (by cases hg), fun _ => v1⟩

theorem gasReturn_spec (mem : Mem) (m : UInt64) (fee : UInt64) (mem' : Mem)
    (hm : memoryGasCost mem m = some (fee, mem')) : gasReturn mem m = some fee := by
  unfold gasReturn; rw [hm]; rfl

theorem gasLog_spec (n : UInt64) (hn : n.toNat ≤ 4) (mem : Mem) (m : UInt64) (fee : UInt64) (mem' : Mem) (size : Nat)
    (hm : memoryGasCost mem m = some (fee, mem')) :
    (∀ g, gasLog n mem m (size : Int) = some g → g.toNat = fee.toNat + EvmSpec.gasLog n.toNat size) ∧
    (gasLog n mem m (size : Int) = none → fee.toNat + EvmSpec.gasLog n.toNat size ≥ 2 ^ 60) := by
  unfold gasLog EvmSpec.gasLog
  have hfee := fee.toNat_lt
  have c375 : (375 : UInt64).toNat = 375 := by decide
  have c8 : (8 : UInt64).toNat = 8 := by decide
  have cn : (n * 375).toNat = 375 * n.toNat := by
    rw [UInt64.toNat_mul, c375]; omega
  rcases chk_bigUint64 size with ⟨g0, h0, v0, hs⟩ | ⟨h0, hs⟩
  · rw [h0, Option.bind_some, hm, Option.bind_some]
    rcases chk_safeAdd fee 375 with ⟨g1, h1, v1⟩ | ⟨h1, v1⟩ <;> rw [c375] at v1
    · rw [h1, Option.bind_some]
      rcases chk_safeAdd g1 (n * 375) with ⟨g2, h2, v2⟩ | ⟨h2, v2⟩ <;> rw [cn] at v2
      · rw [h2, Option.bind_some]
        rcases chk_safeMul g0 8 with ⟨g3, h3, v3⟩ | ⟨h3, v3⟩ <;> rw [c8, v0] at v3
        · rw [h3, Option.bind_some]
          rcases chk_safeAdd g2 g3 with ⟨g4, h4, v4⟩ | ⟨h4, v4⟩
          · rw [h4]
            refine ⟨fun g hg => ?_, fun hg => by cases hg⟩
            cases hg
            omega
          · rw [h4]
            refine ⟨fun g hg => (by cases hg), fun _ => ?_⟩
            omega
        · rw [h3, Option.bind_none]
          refine ⟨fun g hg => (by cases hg), fun _ => ?_⟩
          omega
      · rw [h2, Option.bind_none]
        refine ⟨fun g hg => (by cases hg), fun _ => ?_⟩
        omega
    · rw [h1, Option.bind_none]
      refine ⟨fun g hg => (by cases hg), fun _ => ?_⟩
      omega
  · rw [h0, Option.bind_none]
    refine ⟨fun g hg => (by cases hg), fun _ => ?_⟩
    omega

/-- a gas function whose memory part overflows reports overflow -/
theorem gas_none_of_mem_none (mem : Mem) (m : UInt64) (hm : memoryGasCost mem m = none) (base : UInt64) (size : Int) :
    gasMemVeryLow mem m = none ∧ gasCopy base mem m size = none ∧ gasSha3 mem m size = none ∧ gasCreate mem m = none ∧
    gasReturn mem m = none := by
  unfold gasMemVeryLow gasCopy gasSha3 gasCreate gasReturn
  rw [hm]
  exact ⟨rfl, rfl, rfl, rfl, rfl⟩

theorem bitLen_natCast_gt (n k : Nat) : bitLen (n : Int) > k ↔ n ≥ 2 ^ k := by
  unfold bitLen; simp only [Int.natAbs_natCast]; exact natBitLen_gt_iff n k

theorem uint64_natCast' (n : Nat) (h : n < 2 ^ 64) : (UInt64.ofNat (uint64 (n : Int))).toNat = n := by
  unfold uint64; simp only [Int.natAbs_natCast, UInt64.toNat_ofNat']; omega

/-- callGas under EIP-150 pricing (gasTable.CreateBySuicide > 0, every aquachain gas table): the callee gets
    min(requested, L(available − base)), L(n) = n − ⌊n/64⌋ — for every requested amount below 2^256. -/
theorem callGas_eip150 (cbs avail base : UInt64) (cost : Nat) (hc : cbs.toNat > 0) (hb : base.toNat ≤ avail.toNat) :
    ∃ g, callGas cbs avail base (cost : Int) = some g ∧ g.toNat = EvmSpec.callGasCap avail.toNat base.toNat cost := by
  unfold callGas EvmSpec.callGasCap EvmSpec.allButOne64th
  have hc' : cbs > 0 := by rw [gt_iff_lt, UInt64.lt_iff_toNat_lt]; exact hc
  simp only [hc', if_true]
  have ha := avail.toNat_lt
  have hsub : (avail - base).toNat = avail.toNat - base.toNat := by rw [UInt64.toNat_sub]; omega
  have hgas : ((avail - base) - (avail - base) / 64).toNat = (avail.toNat - base.toNat) - (avail.toNat - base.toNat) / 64 := by
    rw [UInt64.toNat_sub, UInt64.toNat_div, hsub]
    simp only [UInt64.toNat_ofNat, Nat.reducePow, Nat.reduceMod]
    omega
  by_cases hbig : cost ≥ 2 ^ 64
  · have : bitLen (cost : Int) > 64 := (bitLen_natCast_gt cost 64).2 hbig
    rw [if_pos (Or.inl this)]
    exact ⟨_, rfl, by rw [hgas]; omega⟩
  · have hlt : cost < 2 ^ 64 := by omega
    have hnb : ¬ bitLen (cost : Int) > 64 := fun h => hbig ((bitLen_natCast_gt cost 64).1 h)
    have hcv := uint64_natCast' cost hlt
    by_cases hless : (avail - base) - (avail - base) / 64 < UInt64.ofNat (uint64 (cost : Int))
    · rw [if_pos (Or.inr hless)]
      rw [UInt64.lt_iff_toNat_lt, hgas, hcv] at hless
      exact ⟨_, rfl, by rw [hgas]; omega⟩
    · rw [if_neg (by intro h; rcases h with h | h; exact hnb h; exact hless h), if_neg hnb]
      rw [UInt64.lt_iff_toNat_lt, hgas, hcv] at hless
      exact ⟨_, rfl, by rw [hcv]; omega⟩

/-- before EIP-150 (CreateBySuicide = 0; no built-in gas table): the requested amount, unpayable if it does not fit 64 bits -/
theorem callGas_pre150 (avail base : UInt64) (cost : Nat) :
    (cost < 2 ^ 64 → ∃ g, callGas 0 avail base (cost : Int) = some g ∧ g.toNat = cost) ∧
    (cost ≥ 2 ^ 64 → callGas 0 avail base (cost : Int) = none) := by
  unfold callGas
  have h0 : ¬ ((0 : UInt64) > 0) := by decide
  simp only [h0, if_false]
  constructor
  · intro hlt
    have hnb : ¬ bitLen (cost : Int) > 64 := fun h => by have := (bitLen_natCast_gt cost 64).1 h; omega
    rw [if_neg hnb]
    exact ⟨_, rfl, uint64_natCast' cost hlt⟩
  · intro hge
    rw [if_pos ((bitLen_natCast_gt cost 64).2 hge)]

/-- the memory-size prologue of Interpreter.Run: the requested size is rounded up to whole words; "gas uint64 overflow"
    is reported only for requests of at least 2^64 − 31 bytes. -/
theorem memorySizeOf_spec (n : Nat) :
    (∀ r, memorySizeOf (n : Int) = some r → r.toNat = 32 * EvmSpec.words n) ∧
    (memorySizeOf (n : Int) = none → 32 * EvmSpec.words n ≥ 2 ^ 64) := by
  unfold memorySizeOf EvmSpec.words
  have c32 : (32 : UInt64).toNat = 32 := by decide
  rcases chk_bigUint64 n with ⟨g0, h0, v0, hs⟩ | ⟨h0, hs⟩
  · rw [h0, Option.bind_some]
    have hw := toWordSize_spec g0
    rw [v0] at hw
    rcases chk_safeMul (toWordSize g0) 32 with ⟨g1, h1, v1⟩ | ⟨h1, v1⟩ <;> rw [c32, hw] at v1 <;> rw [h1]
    · exact ⟨fun r hr => (by cases hr; omega), fun hr => (by cases hr)⟩
    · exact ⟨fun r hr => (by cases hr), fun _ => by omega⟩
  · rw [h0, Option.bind_none]
    exact ⟨fun r hr => (by cases hr), fun _ => by omega⟩

theorem calcMemSize_spec (off len : Nat) : calcMemSize (off : Int) (len : Int) = ((if len = 0 then 0 else off + len : Nat) : Int) := by
  unfold calcMemSize
  by_cases h : len = 0
  · subst h; simp
  · have : ¬ (len : Int) = 0 := by omega
    rw [if_neg this, if_neg h]; simp

/-- Memory growth: if the memory is `cur` words and fully paid (`MemOk`), then charging for and resizing to the size
    requested by an instruction touching [off, off+len) leaves it `M(cur, off, len)` words (Yellow Paper µ_i') and fully
    paid, and the fee charged is C_mem(new) − C_mem(cur) — whenever the request is below the 2^37-byte wrap range. -/
theorem memory_growth_spec_partial (mem : Mem) (cur off len : Nat) (hok : MemOk mem cur)
    (hsmall : (if len = 0 then 0 else off + len) ≤ 0x1fffffffe0) :
    ∃ r fee mem', memorySizeOf (calcMemSize (off : Int) (len : Int)) = some r ∧ memoryGasCost mem r = some (fee, mem') ∧
      fee.toNat = EvmSpec.cmem (EvmSpec.memExpand cur off len) - EvmSpec.cmem cur ∧
      MemOk (memResize mem' r) (EvmSpec.memExpand cur off len) := by
  rw [calcMemSize_spec]
  generalize hreq : (if len = 0 then 0 else off + len) = req at hsmall
  have hms := memorySizeOf_spec req
  cases hr : memorySizeOf (req : Int) with
  | none => have := hms.2 hr; unfold EvmSpec.words at this; omega
  | some r =>
    have hrv := hms.1 r hr
    have hrle : r.toNat ≤ 0x1fffffffe0 := by rw [hrv]; unfold EvmSpec.words; omega
    obtain ⟨fee, mem', hg, hfee, hlen, hlast⟩ := memoryGasCost_spec_partial mem cur r hok hrle
    have hwords : EvmSpec.words r.toNat = EvmSpec.words req := by rw [hrv]; unfold EvmSpec.words; omega
    have hexp : max cur (EvmSpec.words r.toNat) = EvmSpec.memExpand cur off len := by
      rw [hwords]; unfold EvmSpec.memExpand
      by_cases hl : len = 0
      · rw [if_pos hl]; rw [if_pos hl] at hreq; subst hreq; unfold EvmSpec.words; omega
      · rw [if_neg hl]; rw [if_neg hl] at hreq; rw [hreq]
    refine ⟨r, fee, mem', rfl, hg, by rw [hfee, hexp], ?_⟩
    rw [← hexp]
    unfold MemOk memResize
    obtain ⟨hl0, _⟩ := hok
    by_cases hgrow : r > 0 ∧ mem'.len < r
    · rw [if_pos hgrow]
      simp only []
      rw [UInt64.lt_iff_toNat_lt, hlen, hl0, hrv] at hgrow
      refine ⟨?_, hlast⟩
      rw [hwords, hrv]
      have := hgrow.2
      have : cur < EvmSpec.words req := by omega
      rw [Nat.max_eq_right (Nat.le_of_lt this)]
    · rw [if_neg hgrow]
      refine ⟨?_, hlast⟩
      rw [hlen, hl0, hwords]
      have hnot : ¬ (0 < r.toNat ∧ 32 * cur < 32 * EvmSpec.words req) := by
        intro h; apply hgrow
        refine ⟨by rw [gt_iff_lt, UInt64.lt_iff_toNat_lt]; exact h.1, ?_⟩
        rw [UInt64.lt_iff_toNat_lt, hlen, hl0, hrv]; exact h.2
      have : EvmSpec.words req ≤ cur := by
        rw [hrv] at hnot
        by_cases hz : EvmSpec.words req = 0
        · omega
        · omega
      rw [Nat.max_eq_left this]
end Aqv.Evm

/-
  Aqv.Lemmas.ChainIndex — the number index read against a chain of headers (`IdxC`: the index is exactly the ancestry of
  the header head, nothing above), and what the `updateHeads` part of `BlockChain.insert` (fix 3f14ce8) does to it: the
  index afterwards is exactly the ancestry of the inserted block (`idxC_insert`), whatever branch the index described
  before — the same three loops as in `HeaderChain.WriteHeader`.
-/
import Aqv.Lemmas.ChainInv
namespace Aqv.Chain

/-- the number index `canon` over the header store `H`: `hh` is the header head, `HC` its ancestry down to (excluding)
    the genesis `g` -/
structure IdxC (U H : Map Blk) (g : Blk) (canon : Map Nat) (hh : Blk) (HC : List Blk) : Prop where
  sub : StoreExt H U
  headStored : H hh.id = some hh
  path : Path H hh HC g
  canon : ∀ n i, canon n = some i ↔ ∃ x ∈ HC ++ [g], x.number = n ∧ x.id = i
  genNum : g.number = 0

namespace IdxC
variable {U H : Map Blk} {g : Blk} {canon : Map Nat} {hh : Blk} {HC : List Blk}

theorem storeIds (W : World U) (h : IdxC U H g canon hh HC) : ∀ k x, H k = some x → x.id = k :=
  fun k x hx => W.ids _ _ (h.sub _ _ hx)

theorem chainStored (W : World U) (h : IdxC U H g canon hh HC) : ∀ x ∈ HC ++ [g], H x.id = some x := by
  have := h.path.stored_of (h.storeIds W) h.headStored
  intro x hx
  rcases List.mem_append.mp hx with hx | hx
  · exact this.1 x hx
  · simp at hx; subst hx; exact this.2

theorem chainNumber (h : IdxC U H g canon hh HC) : ∀ x ∈ HC ++ [g], x.number ≤ hh.number := by
  intro x hx
  rcases List.mem_append.mp hx with hx | hx
  · exact (h.path.mem_number x hx).2
  · simp at hx; subst hx; have := h.path.number; omega

theorem headMem (h : IdxC U H g canon hh HC) : hh ∈ HC ++ [g] := by
  rcases h.path.head_eq with ⟨h1, h2⟩ | ⟨l', h1⟩
  · rw [h1, h2]; simp
  · rw [h1]; simp

theorem canonHead (h : IdxC U H g canon hh HC) : canon hh.number = some hh.id :=
  (h.canon _ _).mpr ⟨hh, h.headMem, rfl, rfl⟩

theorem canonAbove (h : IdxC U H g canon hh HC) (n : Nat) (hn : hh.number < n) : canon n = none := by
  cases hc : canon n with
  | none => rfl
  | some i =>
    obtain ⟨x, hx, hxn, _⟩ := (h.canon n i).mp hc
    have := h.chainNumber x hx
    omega

theorem canonBelow (h : IdxC U H g canon hh HC) (n : Nat) (hn : n ≤ hh.number) : ∃ x ∈ HC ++ [g], x.number = n := by
  by_cases h0 : n = 0
  · exact ⟨g, by simp, by rw [h.genNum, h0]⟩
  · obtain ⟨z, hz, hzn⟩ := h.path.cover n (by rw [h.genNum]; omega) hn
    exact ⟨z, List.mem_append_left _ hz, hzn⟩

theorem chainNumInj (h : IdxC U H g canon hh HC) : ∀ x ∈ HC ++ [g], ∀ y ∈ HC ++ [g], x.number = y.number → x = y := by
  intro x hx y hy hxy
  have hg := h.genNum
  rcases List.mem_append.mp hx with hx | hx <;> rcases List.mem_append.mp hy with hy | hy
  · exact h.path.num_inj x hx y hy hxy
  · simp at hy; rw [hy] at hxy; have := (h.path.mem_number x hx).1; omega
  · simp at hx; rw [hx] at hxy; have := (h.path.mem_number y hy).1; omega
  · simp at hx hy; rw [hx, hy]

/-- a block is indexed iff it lies on the chain of the header head -/
theorem canon_iff_mem (W : World U) (h : IdxC U H g canon hh HC) {x : Blk} (hx : H x.id = some x) :
    canon x.number = some x.id ↔ x ∈ HC ++ [g] := by
  constructor
  · intro hc
    obtain ⟨y, hy, _, hyi⟩ := (h.canon _ _).mp hc
    have := h.chainStored W y hy
    rw [hyi, hx] at this
    cases this
    exact hy
  · intro hm; exact (h.canon _ _).mpr ⟨x, hm, rfl, rfl⟩

/-- the chain splits at each of its members -/
theorem splitAt (h : IdxC U H g canon hh HC) {c : Blk} (hc : c ∈ HC ++ [g]) :
    ∃ O R, HC = O ++ R ∧ Path H hh O c ∧ Path H c R g := by
  obtain ⟨O, R, z, hsplit, hO, hR, hzn⟩ := h.path.split c.number (by rw [h.genNum]; omega) (h.chainNumber c hc)
  have hzmem : z ∈ HC ++ [g] := by
    rcases hR.head_eq with ⟨h1, h2⟩ | ⟨l'', h1⟩
    · rw [h2]; simp
    · rw [hsplit, h1]; simp
  have := h.chainNumInj z hzmem c hc hzn
  subst this
  exact ⟨O, R, hsplit, hO, hR⟩

end IdxC

/-- a successful run of the "overwrite stale assignments" loop walked a stored path from the start header down to the
    first header that was already indexed, and wrote exactly the entries of that path -/
theorem overwriteStale_path {store : Map Blk} (hids : ∀ k x, store k = some x → x.id = k) :
    ∀ (f : Nat) (canon : Map Nat) (hh hn : Nat) (c2 : Map Nat),
      (∀ n i, canon n = some i → ∃ y, store i = some y ∧ y.number = n) →
      overwriteStale store f canon hh hn = (c2, true) →
      ∃ x l c, store hh = some x ∧ x.number = hn ∧ Path store x l c ∧ canon c.number = some c.id ∧
        (∀ y ∈ l, c2 y.number = some y.id) ∧ (∀ n, (∀ y ∈ l, y.number ≠ n) → c2 n = canon n) := by
  intro f
  induction f with
  | zero => intro canon hh hn c2 _ h; simp [overwriteStale] at h
  | succ f ih =>
    intro canon hh hn c2 hcs h
    unfold overwriteStale at h
    split at h
    · rename_i hc
      cases h
      obtain ⟨y, hy, hyn⟩ := hcs _ _ hc
      have hyid := hids _ _ hy
      exact ⟨y, [], y, hy, hyn, .nil _, by rw [hyn, hyid]; exact hc, by simp, fun _ _ => rfl⟩
    · rename_i hc
      simp only at h
      split at h
      · cases h
      · rename_i x hx
        split at h
        · cases h
        · rename_i hxn
          have hxn' : x.number = hn := by
            apply Classical.byContradiction
            intro hne; exact hxn hne
          split at h
          · cases h
          · rename_i k
            have hxid := hids _ _ hx
            have hcs' : ∀ n i, upd canon (k + 1) (some hh) n = some i → ∃ y, store i = some y ∧ y.number = n := by
              intro n i hni
              by_cases hnk : n = k + 1
              · subst hnk; simp at hni; subst hni; exact ⟨x, hx, hxn'⟩
              · rw [upd_other _ _ _ _ hnk] at hni; exact hcs n i hni
            obtain ⟨p, l, c, hp, hpn, hpath, hcc, hw, hu⟩ := ih _ _ _ _ hcs' h
            have hpar : parentOf store x = some p := parentOf_of hp (by omega)
            have hlnum := hpath.mem_number
            have hcnum : c.number ≤ k := by have := hpath.number; omega
            refine ⟨x, x :: l, c, hx, hxn', .cons hpar hpath, ?_, ?_, ?_⟩
            · rw [upd_other _ _ _ _ (by omega)] at hcc; exact hcc
            · intro y hy
              rcases List.mem_cons.mp hy with rfl | hy'
              · rw [hu _ (fun z hz => by have := (hlnum z hz).2; omega), hxn', hxid]; simp
              · exact hw y hy'
            · intro n hn'
              have hnx : n ≠ k + 1 := by have := hn' x (by simp); omega
              rw [hu n (fun z hz => hn' z (List.mem_cons_of_mem _ hz)), upd_other _ _ _ _ hnx]

/-- with the ancestry of the start header stored down to an indexed genesis, the overwrite loop terminates normally -/
theorem overwriteStale_closed {store : Map Blk} (hids : ∀ k x, store k = some x → x.id = k) {g : Blk} (hg0 : g.number = 0) :
    ∀ (l : List Blk) (x : Blk) (canon : Map Nat) (f : Nat), Path store x l g → store x.id = some x →
      canon 0 = some g.id → x.number < f → (overwriteStale store f canon x.id x.number).2 = true := by
  intro l
  induction l with
  | nil =>
    intro x canon f hp hx hc0 hf
    cases hp
    cases f with
    | zero => omega
    | succ f =>
      unfold overwriteStale
      rw [hg0, if_pos hc0]
  | cons a l ih =>
    intro x canon f hp hx hc0 hf
    obtain ⟨p, hxa, hpar, hrest⟩ : ∃ p, x = a ∧ parentOf store x = some p ∧ Path store p l g := by
      cases hp with
      | cons hpar hrest => exact ⟨_, rfl, hpar, hrest⟩
    subst hxa
    obtain ⟨hps, hpn⟩ := parentOf_some hpar
    have hpid := hids _ _ hps
    cases f with
    | zero => omega
    | succ f =>
      unfold overwriteStale
      split
      · rfl
      · simp only [hx]
        rw [if_neg (by simp)]
        cases hxn : x.number with
        | zero => omega
        | succ k =>
          simp only
          have hpk : p.number = k := by omega
          rw [← hpid, ← hpk]
          apply ih p _ f hrest (by rw [hpid]; exact hps)
          · rw [upd_other _ _ _ _ (by omega)]; exact hc0
          · omega

/-- The three index loops (delete above, overwrite stale below, write the own entry) turn the index of the chain of `hh`
    into the index of the chain of `x`. -/
theorem idxC_switch {U H : Map Blk} (W : World U) {g : Blk} {canon : Map Nat} {hh : Blk} {HC : List Blk}
    (hI : IdxC U H g canon hh HC) {x p : Blk} (hx : H x.id = some x) (hpar : parentOf H x = some p)
    {F k : Nat} (hF : hh.number ≤ F) (hnum : x.number = k + 1) {c2 : Map Nat}
    (hos : overwriteStale H (k + 1) (delCanonAbove canon (F + 1) (k + 1 + 1)) x.parent k = (c2, true)) :
    ∃ l R c, Path H p l c ∧ c ∈ HC ++ [g] ∧ Path H c R g ∧ (∃ O, HC = O ++ R) ∧
      IdxC U H g (upd c2 x.number (some x.id)) x ((x :: l) ++ R) := by
  obtain ⟨hps, hpn⟩ := parentOf_some hpar
  have hids := hI.storeIds W
  -- canon after the deletion loop
  have hc1low : ∀ n, n ≤ k + 1 → delCanonAbove canon (F + 1) (k + 1 + 1) n = canon n :=
    fun n hn => delCanonAbove_below _ _ _ _ (by omega)
  have hc1high : ∀ n, k + 1 < n → delCanonAbove canon (F + 1) (k + 1 + 1) n = none := by
    intro n hn
    apply delCanonAbove_clears (F + 1) _ (k + 1 + 1) (max hh.number (k + 1) + 1) (by omega)
    · intro m hm1 hm2
      obtain ⟨y, hy, hyn⟩ := hI.canonBelow m (by omega)
      rw [(hI.canon m y.id).mpr ⟨y, hy, hyn, rfl⟩]; rfl
    · intro m hm; exact hI.canonAbove m (by omega)
    · omega
  have hcs : ∀ n i, delCanonAbove canon (F + 1) (k + 1 + 1) n = some i → ∃ y, H i = some y ∧ y.number = n := by
    intro n i hni
    by_cases hn : n ≤ k + 1
    · rw [hc1low n hn] at hni
      obtain ⟨y, hy, hyn, hyi⟩ := (hI.canon n i).mp hni
      exact ⟨y, by rw [← hyi]; exact hI.chainStored W y hy, hyn⟩
    · rw [hc1high n (by omega)] at hni; cases hni
  obtain ⟨p', l, c, hp', hp'n, hpath, hcc, hw, hu⟩ := overwriteStale_path hids _ _ _ _ _ hcs hos
  have hpp : p' = p := by rw [hps] at hp'; cases hp'; rfl
  subst hpp
  have hlnum := hpath.mem_number
  have hcnum : c.number ≤ k := by have := hpath.number; omega
  -- c is indexed in the old chain
  rw [hc1low _ (by omega)] at hcc
  obtain ⟨c0, hc0, hc0n, hc0i⟩ := (hI.canon _ _).mp hcc
  have hcc0 : c0 = c := by
    have h1 := hI.chainStored W c0 hc0
    have hcs' : H c.id = some c := by
      rcases hpath.head_eq with ⟨h1', h2'⟩ | ⟨l', h1'⟩
      · rw [← h2']; have hxid := hids _ _ hps; rw [hxid]; exact hps
      · have hne : l ≠ [] := by rw [h1']; simp
        obtain ⟨w, hw'⟩ := hpath.end_stored hne
        rw [hids _ _ hw']; exact hw'
    rw [hc0i, hcs'] at h1; cases h1; rfl
  subst hcc0
  obtain ⟨O, R, hsplit, hO, hR⟩ := hI.splitAt hc0
  have hOnum := hO.mem_number
  have hRnum : ∀ y ∈ R ++ [g], y.number ≤ c0.number := by
    intro y hy
    rcases List.mem_append.mp hy with hy | hy
    · exact (hR.mem_number y hy).2
    · simp at hy; subst hy; have := hR.number; omega
  have hNpath : Path H x (x :: l) c0 := .cons hpar hpath
  refine ⟨l, R, c0, hpath, hc0, hR, ⟨O, hsplit⟩,
    { sub := hI.sub, headStored := hx, path := hNpath.append hR, canon := ?_, genNum := hI.genNum }⟩
  intro n i
  constructor
  · intro hni
    by_cases hnh : n = x.number
    · subst hnh
      simp at hni
      exact ⟨x, by simp, rfl, hni⟩
    · rw [upd_other _ _ _ _ hnh] at hni
      by_cases hin : ∃ y ∈ l, y.number = n
      · obtain ⟨y, hy, hyn⟩ := hin
        rw [← hyn, hw y hy] at hni
        cases hni
        exact ⟨y, by simp [hy], hyn, rfl⟩
      · rw [hu n (fun y hy hyn => hin ⟨y, hy, hyn⟩)] at hni
        by_cases hnk : n ≤ k + 1
        · rw [hc1low n hnk] at hni
          obtain ⟨y, hy, hyn, hyi⟩ := (hI.canon n i).mp hni
          rw [hsplit] at hy
          simp only [List.append_assoc] at hy
          rcases List.mem_append.mp hy with hy | hy
          · exfalso
            have h1 := (hOnum y hy).1
            obtain ⟨w, hw', hwn⟩ := hpath.cover n (by omega) (by omega)
            exact hin ⟨w, hw', hwn⟩
          · exact ⟨y, by simp only [List.append_assoc, List.cons_append]; exact List.mem_cons_of_mem _ (List.mem_append_right _ hy), hyn, hyi⟩
        · rw [hc1high n (by omega)] at hni; cases hni
  · rintro ⟨y, hy, hyn, hyi⟩
    simp only [List.append_assoc, List.cons_append] at hy
    rcases List.mem_cons.mp hy with rfl | hy
    · rw [← hyn, ← hyi]; simp
    · have hyk : n ≠ x.number := by
        rcases List.mem_append.mp hy with hy' | hy'
        · have := (hlnum y hy').2; omega
        · have := hRnum y hy'; omega
      rw [upd_other _ _ _ _ hyk]
      rcases List.mem_append.mp hy with hy' | hy'
      · rw [← hyn, ← hyi]; exact hw y hy'
      · have hle := hRnum y hy'
        rw [hu n (fun w hw' => by have := (hlnum w hw').1; omega), hc1low n (by omega), hI.canon]
        refine ⟨y, ?_, hyn, hyi⟩
        rw [hsplit]
        simp only [List.append_assoc]
        exact List.mem_append_right _ hy'

end Aqv.Chain
